(* C03_funlike_partial, second fragment: the arguments of an invocation may
   contain object-like macro names (they are pre-expanded in a nested frame and
   come back painted or inert); everything else as in Proofs/C03f.v. *)
From Coq Require Import ZArith String Ascii Bool List Lia Arith.
From CBI Require Import Lib.Data Lib.Res Model.C03tok Model.C03 Model.C03run Spec.C03.
From CBI Require Import Proofs.C03o Proofs.C03s Proofs.C03d Proofs.C03j Proofs.C03f.
Import ListNotations.
Local Open Scope string_scope.
Local Open Scope list_scope.

(* a token of an argument: like a source token, and not a parenthesis or a comma *)
Definition arg_tok2 (fs : list fdef) (t : tok) : bool := src_tok fs t && plain_arg t.

Lemma substitute_sm2 cat_fix resub_fix m ia ex body :
  (forall t, In t body -> is_placemarker t = false) ->
  (forall t i, In t body -> index_of (tt t) (m_args m) 0 = Some i ->
               exists raw, nth_error ia i = Some (raw, Some (nth i ex []))) ->
  substitute cat_fix resub_fix m ia (map (fun t => (t, false)) body) = Ok (sm (m_args m) ex body).
Proof.
  induction body as [|t r IH]; intros Hpm Hnth; cbn [map substitute sm flat_map]; [reflexivity|].
  rewrite (Hpm t (or_introl eq_refl)). rewrite !andb_false_r.
  fold (sm (m_args m) ex r).
  rewrite IH; [|intros x Hx; apply Hpm; now right|intros x i Hx; apply Hnth; now right].
  destruct (index_of (tt t) (m_args m) 0) as [i|] eqn:Hi; [|reflexivity].
  destruct (Hnth t i (or_introl eq_refl) Hi) as (raw & Hn). unfold iarg in *. rewrite Hn. reflexivity.
Qed.

Lemma replace_fun_fmacro2 tb lead cat_fix str_white resub_fix va_fix d ne n ps b al :
  List.length al = List.length ps ->
  forallb no_ops b = true ->
  (forall t, In t b -> String.eqb (tt t) "" = false) ->
  (forall t, In t b -> (is_id t || negb (mem (tt t) ps)) = true) ->
  replace_fun lead cat_fix str_white resub_fix va_fix (fmacro n ps b) (ias_of tb d ne (fmacro n ps b) 0 al)
  = Ok (sm ps (map (flat_map (E tb d (None :: ne))) al) (set_w_hd false b)).
Proof.
  intros Hlen Hno Hne Hpar. unfold replace_fun.
  replace (if va_fix then Ok (merge_variadic_new (fmacro n ps b) (ias_of tb d ne (fmacro n ps b) 0 al))
           else merge_variadic_orig (fmacro n ps b) (ias_of tb d ne (fmacro n ps b) 0 al))
    with (Ok (A := list iarg) (ias_of tb d ne (fmacro n ps b) 0 al)) by (destruct va_fix; reflexivity).
  cbn [fmacro m_strcat m_repl].
  change ps with (m_args (fmacro n ps b)) at 3.
  assert (Hb0 : forall t, In t (set_w_hd false b) -> exists t0, In t0 b /\ tt t = tt t0 /\ is_id t = is_id t0).
  { destruct b as [|x r]; cbn [set_w_hd]; [intros t []|]. intros t [<-|Ht]; [exists x|exists t]; cbn; auto. }
  assert (Hno0 : forallb no_ops (set_w_hd false b) = true) by (destruct b; [reflexivity|exact Hno]).
  apply substitute_sm2.
  - intros t Ht. destruct (Hb0 t Ht) as (t0 & Hin & Htt & _). unfold is_placemarker. rewrite Htt, (Hne t0 Hin). apply andb_false_r.
  - intros t i Ht Hi. cbn [fmacro m_args] in Hi. rewrite nth_error_ias. cbn [plus].
    pose proof (index_of_range _ _ _ _ Hi) as Hr.
    destruct (Hb0 t Ht) as (t0 & Hin & Htt & Hidt).
    assert (Hid : is_id t = true).
    { specialize (Hpar t0 Hin). rewrite <- Htt, (index_of_mem _ _ _ _ Hi) in Hpar. cbn in Hpar.
      rewrite orb_false_r in Hpar. now rewrite Hidt. }
    assert (Hneed : needs (fmacro n ps b) i = true).
    { unfold needs. cbn [fmacro m_need].
      rewrite (needs_scan_marks ps (set_w_hd false b) None (no_need ps) t i Hno0 eq_refl); try assumption; try reflexivity.
      unfold no_need. now rewrite map_length. }
    rewrite Hneed.
    assert (Hi_al : i < List.length al) by lia.
    rewrite (nth_error_nth' al [] Hi_al). cbn [option_map]. eexists. f_equal. f_equal. f_equal.
    change (@nil tok) with (flat_map (E tb d (None :: ne)) []) at 2. now rewrite map_nth.
Qed.

Section FunLikeG.
Variable fs : list fdef.
Hypothesis Hwf : wf_fdefs fs = true.

Notation tb := (mtable2 fs).
Notation stb := (stable2 fs).

(* ---------- outputs of E keep every property that ignores white space and paint ---------- *)
Lemma E_out_gen (P : tok -> bool) :
  (forall t, P (paint t) = P t) -> (forall w t, P (set_w w t) = P t) ->
  (forall k m, get_macro tb k = Some m -> m_fun m = false -> forallb P (m_repl m) = true) ->
  forall d ne ts, forallb (okt2 tb) ts = true -> forallb P ts = true ->
  forallb P (flat_map (E tb d ne) ts) = true.
Proof.
  intros Hp Hw Hbody. induction d as [|d IHd]; intros ne ts; induction ts as [|t r IHr]; intros Hok HP; try reflexivity;
    cbn [forallb] in Hok, HP; apply andb_true_iff in Hok; destruct Hok as [Hot Hor];
    apply andb_true_iff in HP; destruct HP as [HPt HPr];
    cbn [flat_map]; rewrite forallb_app, (IHr Hor HPr), andb_true_r; rewrite E_eq;
    (destruct (is_id t) eqn:Hid; cbn [negb]; [|cbn; now rewrite HPt]);
    (destruct (negb (tx t) || in_noexp (tt t) ne); [cbn; now rewrite Hp, HPt|]);
    (destruct (get_macro tb (tt t)) as [m|] eqn:Hm; [|cbn; now rewrite HPt]);
    try (cbn; now rewrite HPt).
  assert (Hfun : m_fun m = false).
  { unfold okt2 in Hot. apply andb_true_iff in Hot. destruct Hot as [_ Hn]. apply negb_true_iff in Hn.
    unfold is_fl in Hn. rewrite Hid, Hm in Hn. exact Hn. }
  destruct (Hobj2 fs Hwf _ _ Hm) as [_ Hb]. specialize (Hb Hfun).
  apply IHd; [now apply okt2_set_w_hd|].
  pose proof (Hbody _ _ Hm Hfun) as HPb. destruct (m_repl m) as [|x l]; [reflexivity|]. cbn [set_w_hd forallb] in *.
  apply andb_true_iff in HPb. destruct HPb as [H1 H2]. now rewrite Hw, H1, H2.
Qed.

Lemma E_out_okt2 d ne ts : forallb (okt2 tb) ts = true -> forallb (okt2 tb) (flat_map (E tb d ne) ts) = true.
Proof.
  intros H. apply (E_out_gen (okt2 tb)); try assumption; try reflexivity.
  intros k m Hm Hf. destruct (Hobj2 fs Hwf _ _ Hm) as [_ Hb]. now apply Hb.
Qed.

Definition nonempty (t : tok) : bool := negb (String.eqb (tt t) "").
Lemma okd_nonempty t : okd t = true -> nonempty t = true.
Proof.
  unfold okd, okb, nonempty. rewrite !andb_true_iff. cbn [btok_of bt]. tauto.
Qed.
Lemma E_out_nonempty d ne ts : forallb (okt2 tb) ts = true -> forallb nonempty ts = true ->
  forallb nonempty (flat_map (E tb d ne) ts) = true.
Proof.
  apply (E_out_gen nonempty); try reflexivity.
  intros k m Hm Hf. rewrite get_mtable2 in Hm. destruct (flookup fs k) as [f|] eqn:Ef; [|discriminate]. injection Hm as <-.
  destruct f as [n b|n ps b]; [|discriminate]. cbn [macro_of_fdef omacro m_repl].
  pose proof (Hwf_each fs Hwf _ (flookup_In _ _ _ Ef)) as Hw. unfold wf_fdef in Hw. cbn [fname fbody] in Hw.
  rewrite !andb_true_iff in Hw. destruct Hw as [[_ Hb] _].
  assert (Hne : forallb nonempty b = true).
  { apply (forallb_impl (okf fs) nonempty); [|assumption]. intros x Hx. unfold okf in Hx. apply andb_true_iff in Hx.
    destruct Hx as [Hx _]. now apply okd_nonempty. }
  destruct b as [|x l]; [reflexivity|]. exact Hne.
Qed.

(* ---------- relation between an implementation token (in context ne) and a specification token ---------- *)
Definition same (t : tok) (h : htok) : Prop := hk h = tk t /\ ht h = tt t.
(* neither side will replace it, whatever the context *)
Definition inertM (t : tok) : Prop := is_id t = true -> tx t = false \/ flookup fs (tt t) = None.
Definition inertS (h : htok) : Prop := tkind_eqb (hk h) KId = true -> mem (ht h) (hh h) = true \/ flookup fs (ht h) = None.
Definition inert_rel (t : tok) (h : htok) : Prop := same t h /\ inertM t /\ inertS h.
(* active: unpainted, and the hide set is exactly the context *)
Definition rel (ne : list (option string)) (t : tok) (h : htok) : Prop :=
  same t h /\ ((tx t = true /\ forall s, in_noexp s ne = mem s (hh h)) \/ (inertM t /\ inertS h)).

Lemma rel_body ne name hs w w' b :
  forallb tx b = true -> (forall s, in_noexp s ne = mem s hs) ->
  Forall2 (rel (Some name :: ne)) (set_w_hd w (set_w_hd false b)) (hset_w w' (map (lift (name :: hs)) (map btok_of b))).
Proof.
  intros Htx Hne.
  assert (H : Forall2 (rel (Some name :: ne)) b (map (lift (name :: hs)) (map btok_of b))).
  { induction b as [|t r IH]; cbn; constructor.
    - cbn [forallb] in Htx. apply andb_true_iff in Htx. destruct Htx as [Hx _].
      split; [split; reflexivity|]. left. split; [assumption|]. intros s. cbn [lift hh in_noexp existsb].
      change (existsb _ ne) with (in_noexp s ne). rewrite Hne. unfold mem. cbn [existsb]. now rewrite String.eqb_sym.
    - apply IH. cbn [forallb] in Htx. apply andb_true_iff in Htx. tauto. }
  destruct H as [|t h l l' Hth Hr]; cbn; [constructor|]. constructor; [|assumption].
  destruct Hth as ((H1 & H2) & Hc). split; [split; assumption|]. exact Hc.
Qed.

Lemma single_same t h t' h' : same t h -> tk t' = tk t -> tt t' = tt t -> hk h' = hk h -> ht h' = ht h ->
  map sp [t'] = map sph [h'].
Proof. intros (H1 & H2) A B C D. unfold sp, sph. cbn. now rewrite A, B, C, D, H1, H2. Qed.

Lemma corrG_tok d ne t h
  (IH : forall ne' ts' hs'l, forallb (okt2 tb) ts' = true -> Forall2 (rel ne') ts' hs'l ->
        match d with O => True | S d' =>
          map sp (flat_map (E tb d' ne') ts') = map sph (flat_map (ES stb d') hs'l) end) :
  okt2 tb t = true -> rel ne t h -> map sp (E tb d ne t) = map sph (ES stb d h).
Proof.
  intros Hot (Hs & Hc). pose proof Hs as (Hk & Ht).
  unfold okt2 in Hot. apply andb_true_iff in Hot. destruct Hot as [Hot Hnfl]. apply negb_true_iff in Hnfl.
  destruct (is_id t) eqn:Hid.
  2:{ rewrite E_eq, ES_eq, Hk. change (tkind_eqb (tk t) KId) with (is_id t). rewrite Hid. cbn [negb].
      now apply (single_same t h). }
  destruct Hc as [[Hx Hne]|[HiM HiS]].
  - (* active *)
    rewrite E_eq, ES_eq. rewrite Hk, Ht. change (tkind_eqb (tk t) KId) with (is_id t). rewrite Hid. cbn [negb].
    rewrite Hx. cbn [negb orb]. rewrite Hne.
    destruct (mem (tt t) (hh h)) eqn:Hm; [now apply (single_same t h)|].
    rewrite get_mtable2, slookup2.
    destruct (flookup fs (tt t)) as [f|] eqn:Ef; cbn [option_map]; [|now apply (single_same t h)].
    destruct f as [n b|n ps b]; cbn [macro_of_fdef smacro_of_fdef].
    2:{ rewrite (is_fl_funname fs), Hid in Hnfl. unfold is_funname in Hnfl. rewrite Ef in Hnfl. discriminate. }
    destruct d as [|d']; [now apply (single_same t h)|].
    cbn [omacro m_name m_repl].
    pose proof (flookup_name _ _ _ Ef) as Hn. cbn [fname] in Hn. subst n.
    apply (IH (Some (tt t) :: ne)).
    + destruct (Hobj2 fs Hwf _ _ (eq_trans (get_mtable2 fs (tt t)) (f_equal (option_map macro_of_fdef) Ef))) as [_ Hb].
      apply okt2_set_w_hd. exact (Hb eq_refl).
    + apply rel_body; [eapply (body_tx fs Hwf), Ef|exact Hne].
  - (* inert on both sides: one token each *)
    specialize (HiM Hid). unfold inertS in HiS. rewrite Hk, Ht in HiS. specialize (HiS Hid).
    assert (HM : exists t', E tb d ne t = [t'] /\ tk t' = tk t /\ tt t' = tt t).
    { rewrite E_eq, Hid. cbn [negb]. destruct (negb (tx t) || in_noexp (tt t) ne) eqn:Hh.
      - exists (paint t). repeat split.
      - apply orb_false_iff in Hh. destruct Hh as [Hx _]. apply negb_false_iff in Hx.
        destruct HiM as [HiM|HiM]; [congruence|]. rewrite get_mtable2, HiM. exists t. repeat split. }
    assert (HS : ES stb d h = [h]).
    { rewrite ES_eq, Hk, Ht. change (tkind_eqb (tk t) KId) with (is_id t). rewrite Hid. cbn [negb].
      destruct (mem (tt t) (hh h)) eqn:Hm; [reflexivity|].
      destruct HiS as [HiS|HiS]; [congruence|]. rewrite slookup2, HiS. reflexivity. }
    destruct HM as (t' & HE & A & B). rewrite HE, HS. now apply (single_same t h).
Qed.

Lemma corrG d : forall ne ts hsl,
  forallb (okt2 tb) ts = true -> Forall2 (rel ne) ts hsl ->
  map sp (flat_map (E tb d ne) ts) = map sph (flat_map (ES stb d) hsl).
Proof.
  induction d as [|d IHd]; intros ne ts hsl Hok Hrel; induction Hrel as [|t h ts hsl Hth Hr IHr];
    try reflexivity; cbn [forallb] in Hok; apply andb_true_iff in Hok; destruct Hok as [Hot Hor];
    cbn [flat_map]; rewrite !map_app, (IHr Hor); f_equal; apply (corrG_tok _ ne); try assumption;
    intros ne' ts' hs'l H1 H2; try exact I; now apply (IHd ne').
Qed.

(* ---------- with enough budget, what E and ES leave behind is inert on both sides ---------- *)
Lemma out_rel_tok d ne t h
  (IH : forall ne' ts' hs'l, forallb (okt2 tb) ts' = true -> Forall2 (rel ne') ts' hs'l ->
        match d with O => True | S d' => inv tb ne' d' ->
          Forall2 inert_rel (flat_map (E tb d' ne') ts') (flat_map (ES stb d') hs'l) end) :
  okt2 tb t = true -> rel ne t h -> inv tb ne d -> Forall2 inert_rel (E tb d ne t) (ES stb d h).
Proof.
  intros Hot (Hs & Hc) Hinv. pose proof Hs as (Hk & Ht).
  unfold okt2 in Hot. apply andb_true_iff in Hot. destruct Hot as [Hot Hnfl]. apply negb_true_iff in Hnfl.
  destruct (is_id t) eqn:Hid.
  2:{ rewrite E_eq, ES_eq, Hk. change (tkind_eqb (tk t) KId) with (is_id t). rewrite Hid. cbn [negb].
      constructor; [|constructor]. split; [assumption|]. split; [intros H; congruence|].
      unfold inertS. rewrite Hk. change (tkind_eqb (tk t) KId) with (is_id t). intros H; congruence. }
  destruct Hc as [[Hx Hne]|[HiM HiS]].
  - rewrite E_eq, ES_eq. rewrite Hk, Ht. change (tkind_eqb (tk t) KId) with (is_id t). rewrite Hid. cbn [negb].
    rewrite Hx. cbn [negb orb]. rewrite Hne.
    destruct (mem (tt t) (hh h)) eqn:Hm.
    { (* hidden: painted / kept *)
      constructor; [|constructor]. split; [split; assumption|]. split; [intros _; now left|].
      unfold inertS. rewrite Ht. intros _. now left. }
    rewrite get_mtable2, slookup2.
    destruct (flookup fs (tt t)) as [f|] eqn:Ef; cbn [option_map].
    2:{ constructor; [|constructor]. split; [assumption|]. split; [intros _; now right|].
        unfold inertS. rewrite Ht. intros _. now right. }
    destruct f as [n b|n ps b]; cbn [macro_of_fdef smacro_of_fdef].
    2:{ rewrite (is_fl_funname fs), Hid in Hnfl. unfold is_funname in Hnfl. rewrite Ef in Hnfl. discriminate. }
    assert (Hgm : get_macro tb (tt t) = Some (omacro n b)) by (rewrite get_mtable2, Ef; reflexivity).
    destruct d as [|d'].
    { (* no budget left: impossible *)
      pose proof (pigeon tb ne _ _ Hinv Hgm) as Hp. rewrite Hne, Hm in Hp. discriminate. }
    cbn [omacro m_name m_repl].
    pose proof (flookup_name _ _ _ Ef) as Hn. cbn [fname] in Hn. subst n.
    apply (IH (Some (tt t) :: ne)).
    + destruct (Hobj2 fs Hwf _ _ Hgm) as [_ Hb]. apply okt2_set_w_hd. exact (Hb eq_refl).
    + apply rel_body; [eapply (body_tx fs Hwf), Ef|exact Hne].
    + apply inv_push; [assumption|now rewrite Hne|]. eapply get_macro_In, Hgm.
  - specialize (HiM Hid). pose proof HiS as HiS0. unfold inertS in HiS. rewrite Hk, Ht in HiS. specialize (HiS Hid).
    assert (HS : ES stb d h = [h]).
    { rewrite ES_eq, Hk, Ht. change (tkind_eqb (tk t) KId) with (is_id t). rewrite Hid. cbn [negb].
      destruct (mem (tt t) (hh h)) eqn:Hm; [reflexivity|].
      destruct HiS as [HiS|HiS]; [congruence|]. rewrite slookup2, HiS. reflexivity. }
    rewrite HS, E_eq, Hid. cbn [negb]. destruct (negb (tx t) || in_noexp (tt t) ne) eqn:Hh.
    + constructor; [|constructor]. split; [split; assumption|]. split; [intros _; now left|exact HiS0].
    + apply orb_false_iff in Hh. destruct Hh as [Hx _]. apply negb_false_iff in Hx.
      destruct HiM as [HiM|HiM]; [congruence|]. rewrite get_mtable2, HiM. cbn [option_map].
      constructor; [|constructor]. split; [assumption|]. split; [intros _; now right|exact HiS0].
Qed.

Lemma out_rel d : forall ne ts hsl,
  forallb (okt2 tb) ts = true -> Forall2 (rel ne) ts hsl -> inv tb ne d ->
  Forall2 inert_rel (flat_map (E tb d ne) ts) (flat_map (ES stb d) hsl).
Proof.
  induction d as [|d IHd]; intros ne ts hsl Hok Hrel Hinv; induction Hrel as [|t h ts hsl Hth Hr IHr];
    try constructor; cbn [forallb] in Hok; apply andb_true_iff in Hok; destruct Hok as [Hot Hor];
    cbn [flat_map]; (apply Forall2_app; [|now apply IHr]); apply (out_rel_tok _ ne); try assumption;
    intros ne' ts' hs'l H1 H2; try exact I; intros H3; now apply (IHd ne').
Qed.

(* ---------- the source list ---------- *)
Definition wf_src2 (i : sitem) : Prop :=
  forallb okd (stoks i) = true /\
  match i with
  | SToks l => forallb (src_tok fs) l = true
  | SCall t lp a more rp =>
      is_id t = true /\ is_def t = false /\ is_punct "(" lp = true /\ is_punct ")" rp = true /\
      forallb (arg_tok2 fs) a = true /\
      Forall (fun ca => is_punct "," (fst ca) = true /\ forallb (arg_tok2 fs) (snd ca) = true) more /\
      exists n ps b, flookup fs (tt t) = Some (FFun n ps b) /\ List.length ps = S (List.length more)
  end.

Lemma arg2_facts t : arg_tok2 fs t = true -> okd t = true /\ plain_arg t = true /\ okf fs t = true /\ is_def t = false.
Proof.
  unfold arg_tok2, src_tok. rewrite !andb_true_iff, negb_true_iff. intros [[Hf Hd] Hp].
  repeat split; try assumption. unfold okf in Hf. apply andb_true_iff in Hf. tauto.
Qed.
Lemma arg2_okt2 t : arg_tok2 fs t = true -> okt2 tb t = true.
Proof. intros H. destruct (arg2_facts t H) as (_ & _ & Hf & _). now apply (okf_okt2 fs). Qed.

Lemma args_of_call a (more : list (tok * list tok)) :
  forallb (arg_tok2 fs) a = true ->
  Forall (fun ca => is_punct "," (fst ca) = true /\ forallb (arg_tok2 fs) (snd ca) = true) more ->
  Forall (fun x => forallb (arg_tok2 fs) x = true) (a :: map snd more).
Proof.
  intros Ha Hmore. constructor; [assumption|]. rewrite Forall_forall in Hmore |- *. intros x Hxin. apply in_map_iff in Hxin.
  destruct Hxin as (ca & <- & Hca). now apply Hmore.
Qed.

Definition exM (d : nat) (al : list (list tok)) : list (list tok) := map (flat_map (E tb d [None; None])) al.

Lemma exM_okt2 d al : Forall (fun x => forallb (arg_tok2 fs) x = true) al ->
  Forall (fun a => forallb (okt2 tb) a = true) (exM d al).
Proof.
  intros H. unfold exM. rewrite Forall_forall in H |- *. intros x Hx. apply in_map_iff in Hx. destruct Hx as (a & <- & Ha).
  apply E_out_okt2. apply (forallb_impl (arg_tok2 fs) (okt2 tb)); [apply arg2_okt2|now apply H].
Qed.

Lemma wf_src2_sitem lead cat_fix str_white resub_fix va_fix d i :
  wf_src2 i -> wf_sitem lead cat_fix str_white resub_fix va_fix tb d [None] i.
Proof.
  intros [Hokd Hi]. destruct i as [l|t lp a more rp]; cbn [wf_sitem].
  - now apply src_wfd.
  - destruct Hi as (Hid & Hdef & Hlp & Hrp & Ha & Hmore & n & ps & b & Hfl & Hlen).
    assert (Hto : okd t = true) by (cbn [stoks forallb] in Hokd; apply andb_true_iff in Hokd; tauto).
    pose proof (okd_tx t Hto) as Hx.
    pose proof (args_of_call a more Ha Hmore) as Hargs.
    split; [assumption|]. split; [unfold is_def in Hdef; rewrite Hid in Hdef; exact Hdef|].
    split; [rewrite Hx; reflexivity|]. split; [now apply is_punct_txt|].
    split.
    { apply (forallb_impl (arg_tok2 fs) plain_arg); [|assumption]. intros x Hxa. now destruct (arg2_facts x Hxa) as (_ & Hp & _). }
    split.
    { unfold more_ok. rewrite Forall_forall in Hmore |- *. intros ca Hca. destruct (Hmore ca Hca) as [Hc Hal]. split; [now apply is_punct_txt|].
      apply (forallb_impl (arg_tok2 fs) plain_arg); [|assumption]. intros x Hxa. now destruct (arg2_facts x Hxa) as (_ & Hp & _). }
    split; [now apply is_punct_txt|].
    split.
    { rewrite Forall_forall in Hargs |- *. intros x Hxin. apply (forallb_impl (arg_tok2 fs) (okt2 tb)); [apply arg2_okt2|now apply Hargs]. }
    destruct (fun_facts fs Hwf n ps b (flookup_In _ _ _ Hfl)) as (Hb & Hps & Hnd & Hva & Hno & Hpar & Hne).
    exists (fmacro n ps b), (sm ps (exM (S d) (a :: map snd more)) (set_w_hd false b)).
    split; [rewrite get_mtable2, Hfl; reflexivity|]. split; [reflexivity|]. split; [reflexivity|].
    split.
    { apply replace_fun_fmacro2; try assumption. cbn [List.length]. now rewrite map_length. }
    apply okt2_set_w_hd. apply (sm_okt2 fs).
    + apply okt2_set_w_hd. apply (forallb_impl (okf fs) (okt2 tb)); [apply (okf_okt2 fs)|assumption].
    + now apply exM_okt2.
Qed.

(* ---------- specification side ---------- *)
Lemma is_flh_funname z : is_flh stb z = tkind_eqb (hk z) KId && is_funname fs (ht z).
Proof.
  unfold is_flh, is_funname. rewrite slookup2. destruct (flookup fs (ht z)) as [[n b|n ps b]|]; reflexivity.
Qed.

Lemma Forall2_in_r {A B} (R : A -> B -> Prop) l l' : Forall2 R l l' -> forall y, In y l' -> exists x, In x l /\ R x y.
Proof.
  intros H. induction H as [|a b l l' Hab Hr IH]; intros y Hy; [contradiction|].
  destruct Hy as [<-|Hy]; [exists a; split; [now left|assumption]|].
  destruct (IH y Hy) as (x & Hx & Hxy). exists x. split; [now right|assumption].
Qed.

(* what the relation and the implementation-side facts give for the specification tokens *)
Lemma inert_facts lM lS :
  Forall2 inert_rel lM lS -> forallb (okt2 tb) lM = true -> forallb nonempty lM = true ->
  forall z, In z lS -> okh z = true /\ is_flh stb z = false /\ inertS z /\ String.eqb (ht z) "" = false.
Proof.
  intros Hrel Hok Hne z Hz. destruct (Forall2_in_r _ _ _ Hrel z Hz) as (t & Ht & ((Hk & Htt) & _ & HiS)).
  rewrite forallb_forall in Hok, Hne. specialize (Hok t Ht). specialize (Hne t Ht).
  unfold okt2, okt0 in Hok. rewrite andb_true_iff, !negb_true_iff in Hok. destruct Hok as [Hd Hfl].
  repeat split.
  - unfold okh. rewrite Hk, Htt. apply negb_true_iff. exact Hd.
  - rewrite is_flh_funname, Hk, Htt. rewrite (is_fl_funname fs) in Hfl. exact Hfl.
  - exact HiS.
  - rewrite Htt. unfold nonempty in Hne. now apply negb_true_iff in Hne.
Qed.

Lemma rel_hl0 ne l : somes ne = [] -> forallb tx l = true -> Forall2 (rel ne) l (map hl0 l).
Proof.
  intros Hne. induction l as [|t r IH]; intros Htx; cbn; constructor.
  - cbn [forallb] in Htx. apply andb_true_iff in Htx. destruct Htx as [Hx _].
    split; [split; reflexivity|]. left. split; [assumption|]. intros s. cbn.
    apply not_true_is_false. intros H. apply in_noexp_spec in H. rewrite Hne in H. contradiction.
  - apply IH. cbn [forallb] in Htx. apply andb_true_iff in Htx. tauto.
Qed.

Definition gS (d : nat) (a : list htok) : list htok := flat_map (ES stb d) a.

Lemma arg_out_rel d x :
  List.length fs <= d -> forallb (arg_tok2 fs) x = true ->
  Forall2 inert_rel (flat_map (E tb d [None; None]) x) (gS d (map hl0 x)).
Proof.
  intros Hd Hx. apply out_rel.
  - apply (forallb_impl (arg_tok2 fs) (okt2 tb)); [apply arg2_okt2|assumption].
  - apply rel_hl0; [reflexivity|]. apply (forallb_impl (arg_tok2 fs) tx); [|assumption].
    intros z Hz. destruct (arg2_facts z Hz) as (Ho & _). now apply okd_tx.
  - repeat split; cbn [somes]; [constructor|intros y []|]. unfold names, mtable2. rewrite !map_length. cbn. lia.
Qed.

Lemma arg_out_facts d x :
  List.length fs <= d -> forallb (arg_tok2 fs) x = true ->
  forall z, In z (gS d (map hl0 x)) -> okh z = true /\ is_flh stb z = false /\ inertS z /\ String.eqb (ht z) "" = false.
Proof.
  intros Hd Hx. apply (inert_facts (flat_map (E tb d [None; None]) x)).
  - now apply arg_out_rel.
  - apply E_out_okt2. apply (forallb_impl (arg_tok2 fs) (okt2 tb)); [apply arg2_okt2|assumption].
  - apply E_out_nonempty.
    + apply (forallb_impl (arg_tok2 fs) (okt2 tb)); [apply arg2_okt2|assumption].
    + apply (forallb_impl (arg_tok2 fs) nonempty); [|assumption]. intros y Hy. destruct (arg2_facts y Hy) as (Ho & _). now apply okd_nonempty.
Qed.

(* complete replacement of each argument, for every sufficiently large fuel *)
Lemma args_expand d al :
  List.length fs <= d -> Forall (fun x => forallb (arg_tok2 fs) x = true) al ->
  exists N, forall f, N <= f -> forall x, In x al -> expandS stb f (map hl0 x) = Ok (gS d (map hl0 x)).
Proof.
  intros Hd Hal. induction Hal as [|x al Hx Hr IH].
  - exists 0. intros f _ x [].
  - destruct IH as (N & HN).
    destruct (sscan_all stb (HSobj2 fs Hwf) d (map hl0 x) []) as (n & Hn).
    { intros y Hy. apply in_map_iff in Hy. destruct Hy as (t & <- & Ht). rewrite forallb_forall in Hx. specialize (Hx t Ht).
      destruct (arg2_facts t Hx) as (Ho & _ & Hf & _). split; [reflexivity|]. split; [now apply okd_okh0|].
      change (is_flh stb (hl0 t)) with (is_flb stb (btok_of t)). rewrite (is_flb_funname fs).
      unfold okf in Hf. rewrite andb_true_iff, negb_true_iff in Hf. tauto. }
    { repeat split; [constructor|intros y []|]. unfold snames, stable2. rewrite !map_length. cbn. lia. }
    exists (S n + N). intros f Hf y [<-|Hy]; [|apply HN; [lia|assumption]].
    replace f with (n + (f - n)) by lia. rewrite <- (app_nil_r (map hl0 x)) at 1.
    rewrite (Hn (f - n) [] []); [now rewrite app_nil_r|]. destruct (f - n) eqn:E; [lia|reflexivity].
Qed.

Definition sitem_out2 (d : nat) (i : sitem) : list htok :=
  match i with
  | SToks l => flat_map (ES stb (S d)) (map hl0 l)
  | SCall t lp a more rp =>
      match flookup fs (tt t) with
      | Some (FFun n ps b) =>
          flat_map (ES stb d)
            (hset_w (tw t) (hsadd [tt t] (subst_out (gS (S d)) (combine ps (map (map hl0) (a :: map snd more))) (map btok_of b))))
      | _ => []
      end
  end.

Lemma arg2_hplain t : arg_tok2 fs t = true -> hplain (hl0 t) = true.
Proof.
  intros Ha. destruct (arg2_facts t Ha) as (_ & Hp & _). unfold plain_arg in Hp.
  rewrite !andb_true_iff, !negb_true_iff in Hp. destruct Hp as [[H1 H2] H3].
  unfold hplain, h_is. cbn [hl0 lift btok_of hk ht bk bt]. unfold is_txt in *. rewrite H1, H2, H3. now rewrite !andb_false_r.
Qed.

Lemma mem_app_r s a b : mem s b = true -> mem s (a ++ b) = true.
Proof. intros H. apply mem_spec. apply in_or_app. right. now apply mem_spec. Qed.

(* tokens of the substituted replacement list, after hsadd [name] *)
Lemma call_all_ok d name w ps hargs b :
  forallb (okf fs) b = true -> In name (snames stb) -> List.length (snames stb) <= S d ->
  (forall a, In a hargs -> forall z, In z (gS (S d) a) ->
             okh z = true /\ is_flh stb z = false /\ inertS z /\ String.eqb (ht z) "" = false) ->
  all_ok stb d (hset_w w (hsadd [name] (subst_out (gS (S d)) (combine ps hargs) (map btok_of b)))).
Proof.
  intros Hb Hname Hlen Hargs.
  assert (Hall : forall y, In y (hsadd [name] (subst_out (gS (S d)) (combine ps hargs) (map btok_of b))) ->
                           okh y = true /\ is_flh stb y = false /\ (keepable stb y \/ invS stb (hh y) d)).
  { intros y Hy. unfold hsadd in Hy. apply in_map_iff in Hy. destruct Hy as (z & <- & Hz).
    clear w. induction b as [|t r IH]; cbn [map subst_out] in Hz; [contradiction|].
    cbn [forallb] in Hb. apply andb_true_iff in Hb. destruct Hb as [Ht Hr].
    destruct (Spec.C03.param (combine ps hargs) (btok_of t)) as [a|] eqn:Hp.
    - apply in_app_or in Hz. destruct Hz as [Hz|Hz]; [|now apply IH].
      unfold Spec.C03.param in Hp. destruct (tkind_eqb (bk (btok_of t)) KId); [|discriminate].
      apply sel_combine_in in Hp.
      assert (Hz' : exists z0, In z0 (gS (S d) a) /\ hk z = hk z0 /\ ht z = ht z0 /\ hh z = hh z0).
      { destruct (gS (S d) a) as [|y0 r0]; cbn [hset_w] in Hz; [contradiction|].
        destruct Hz as [<-|Hz]; [exists y0; cbn; auto|exists z; cbn; auto]. }
      destruct Hz' as (z0 & Hz0 & E1 & E2 & E3). destruct (Hargs a Hp z0 Hz0) as (H1 & H2 & H3 & _).
      cbn [hk ht hh]. split; [unfold okh in *; now rewrite E1, E2|]. split; [unfold is_flh in *; now rewrite E1, E2|].
      left. unfold keepable. cbn [hk ht hh]. rewrite E1, E2, E3.
      destruct (tkind_eqb (hk z0) KId) eqn:Hk; [|now left]. right. destruct (H3 Hk) as [Hm|Hn].
      + left. now apply mem_app_r.
      + right. rewrite slookup2, Hn. reflexivity.
    - destruct Hz as [<-|Hz]; [|now apply IH]. cbn [lift hk ht hh].
      unfold okf in Ht. rewrite andb_true_iff, negb_true_iff in Ht. destruct Ht as [Ho Hn].
      split; [now apply okd_okh0|]. split.
      { rewrite is_flh_funname. cbn [hk ht btok_of bk bt]. exact Hn. }
      right. cbn [app]. repeat split; [constructor; [intros []|constructor]|intros x [<-|[]]; assumption|cbn [List.length]; lia]. }
  intros x Hx. destruct (hsadd [name] (subst_out (gS (S d)) (combine ps hargs) (map btok_of b))) as [|y r] eqn:E; cbn [hset_w] in Hx; [contradiction|].
  destruct Hx as [<-|Hx]; [|apply Hall; now right]. destruct (Hall y (or_introl eq_refl)) as (H1 & H2 & H3).
  repeat split; try assumption.
Qed.

Lemma subst_out_no_pm2 g ap b :
  (forall t, In t b -> String.eqb (bt t) "" = false) ->
  (forall a, In a (map snd ap) -> forall x, In x (g a) -> String.eqb (ht x) "" = false) ->
  filter (fun t => negb (is_pm t)) (subst_out g ap b) = subst_out g ap b.
Proof.
  intros Hb Ha. apply forallb_filter_id. rewrite forallb_forall. intros x Hx.
  assert (Hne : String.eqb (ht x) "" = false).
  { induction b as [|t r IH]; cbn [subst_out] in Hx; [contradiction|].
    destruct (Spec.C03.param ap t) as [a|] eqn:Hp.
    - apply in_app_or in Hx. destruct Hx as [Hx|Hx]; [|apply IH; [intros; apply Hb; now right|assumption]].
      unfold Spec.C03.param in Hp. destruct (tkind_eqb (bk t) KId); [|discriminate].
      assert (Hin : In a (map snd ap)).
      { clear -Hp. induction ap as [|[k v] r IH]; cbn in *; [discriminate|]. destruct (String.eqb k (bt t)); [injection Hp as <-; now left|right; now apply IH]. }
      destruct (g a) as [|y0 r0] eqn:Eg; cbn [hset_w] in Hx; [contradiction|]. destruct Hx as [<-|Hx].
      + cbn [ht]. apply (Ha _ Hin). rewrite Eg. now left.
      + apply (Ha _ Hin). rewrite Eg. now right.
    - destruct Hx as [<-|Hx]; [cbn; apply Hb; now left|apply IH; [intros; apply Hb; now right|assumption]]. }
  unfold is_pm. rewrite Hne. now rewrite andb_false_r.
Qed.

Lemma src_all_hs2 l : forallb (src_tok fs) l = true -> all_hs stb [] (map hl0 l).
Proof. apply src_all_hs. Qed.

Lemma S_item2 d i :
  wf_src2 i -> List.length (snames stb) = S d ->
  exists n m, forall f, m <= f -> forall ys r, expandS stb f ys = Ok r ->
    expandS stb (n + f) (map hl0 (stoks i) ++ ys) = Ok (sitem_out2 d i ++ r).
Proof.
  intros [Hokd Hi] Hlen.
  assert (Hfs : List.length fs = S d) by (unfold snames, stable2 in Hlen; now rewrite !map_length in Hlen).
  destruct i as [l|t lp a more rp]; cbn [stoks sitem_out2].
  - destruct (sscan_all stb (HSobj2 fs Hwf) (S d) (map hl0 l) [] (src_all_hs2 l Hi)) as (n & Hn).
    { repeat split; [constructor|intros x []|cbn; lia]. }
    exists n, 0. intros f _ ys r Hr. now apply Hn.
  - destruct Hi as (Hid & Hdef & Hlp & Hrp & Ha & Hmore & n0 & ps & b & Hfl & Hlps).
    rewrite Hfl.
    destruct (fun_facts fs Hwf n0 ps b (flookup_In _ _ _ Hfl)) as (Hb & Hps & Hnd & Hva & Hno & Hpar & Hne).
    assert (Hto : okd t = true) by (cbn [stoks forallb] in Hokd; apply andb_true_iff in Hokd; tauto).
    set (al := a :: map snd more).
    pose proof (args_of_call a more Ha Hmore) as Hargs. fold al in Hargs.
    set (hargs := map (map hl0) al). set (ap := combine ps hargs). set (body := map btok_of b).
    assert (Hlook : slookup stb (tt t) = Some (SFun ps false body)) by (rewrite slookup2, Hfl; reflexivity).
    assert (Hargfacts : forall ha, In ha hargs -> forall z, In z (gS (S d) ha) ->
                          okh z = true /\ is_flh stb z = false /\ inertS z /\ String.eqb (ht z) "" = false).
    { intros ha Hha. unfold hargs in Hha. apply in_map_iff in Hha. destruct Hha as (x & <- & Hx).
      apply arg_out_facts; [lia|]. rewrite Forall_forall in Hargs. now apply Hargs. }
    destruct (gscan_all stb (HSobj2 fs Hwf) d (hset_w (tw t) (hsadd [tt t] (subst_out (gS (S d)) ap body)))) as (n1 & Hn1).
    { apply call_all_ok; try assumption; [eapply slookup_In, Hlook|lia]. }
    destruct (args_expand (S d) al) as (N & HN); [lia|assumption|].
    exists (S n1), N. intros f Hf ys r Hr.
    cbn [map]. rewrite !map_app, map_flat_more. cbn [map app plus].
    replace ((map hl0 a ++ hflat_more (hmap_more more) ++ [hl0 rp]) ++ ys)
      with (map hl0 a ++ hflat_more (hmap_more more) ++ hl0 rp :: ys) by (now rewrite <- !app_assoc).
    rewrite (X_call stb (n1 + f) (hl0 t) (hl0 lp) (map hl0 a) (hmap_more more) (hl0 rp) ys ps body ap (subst_out (gS (S d)) ap body)).
    + cbn [hl0 lift btok_of hw ht]. now apply Hn1.
    + now apply okd_okh0.
    + exact Hid.
    + reflexivity.
    + reflexivity.
    + exact Hlook.
    + exact Hlp.
    + rewrite forallb_forall. intros x Hx. apply in_map_iff in Hx. destruct Hx as (z & <- & Hz).
      apply arg2_hplain. rewrite forallb_forall in Ha. now apply Ha.
    + unfold hmore_ok, hmap_more. rewrite Forall_forall in Hmore |- *. intros ca Hca. apply in_map_iff in Hca.
      destruct Hca as (ca0 & <- & Hca0). cbn [fst snd]. destruct (Hmore ca0 Hca0) as [Hc Hal]. split; [exact Hc|].
      rewrite forallb_forall. intros x Hx. apply in_map_iff in Hx. destruct Hx as (z & <- & Hz).
      apply arg2_hplain. rewrite forallb_forall in Hal. now apply Hal.
    + exact Hrp.
    + unfold body. destruct b as [|t0 r0]; [reflexivity|]. cbn [map starts_with_cat].
      cbn [forallb] in Hno. apply andb_true_iff in Hno. destruct Hno as [Ht0 _]. unfold no_ops in Ht0.
      rewrite andb_true_iff, !negb_true_iff in Ht0. destruct Ht0 as [_ H2]. unfold b_is, is_txt in *. cbn [btok_of bt]. rewrite H2. apply andb_false_r.
    + unfold bind_args. destruct ps as [|p0 ps']; [contradiction|].
      rewrite map_snd_hmap. change (map hl0 a :: map (map hl0) (map snd more)) with hargs.
      replace (Nat.eqb (List.length hargs) (List.length (p0 :: ps'))) with true; [reflexivity|].
      symmetry. apply Nat.eqb_eq. unfold hargs, al. rewrite map_length. cbn [List.length]. rewrite map_length. exact (eq_sym Hlps).
    + unfold subst_all. rewrite (subst_funlike (expandS stb (n1 + f)) (gS (S d)) ap body []).
      * cbn [app]. rewrite subst_out_no_pm2; [reflexivity| |].
        -- intros x Hx. unfold body in Hx. apply in_map_iff in Hx. destruct Hx as (z & <- & Hz). cbn [btok_of bt]. now apply Hne.
        -- intros ha Hha x Hx. unfold ap in Hha. assert (Hin : In ha hargs) by (eapply In_snd_combine, Hha).
           now destruct (Hargfacts ha Hin x Hx) as (_ & _ & _ & H4).
      * unfold body. rewrite forallb_forall. intros x Hx. apply in_map_iff in Hx. destruct Hx as (z & <- & Hz).
        rewrite forallb_forall in Hno. specialize (Hno z Hz). unfold no_ops, nohash, is_txt in *. cbn [btok_of bt]. exact Hno.
      * intros t0 a0 Ht0 Hp. unfold Spec.C03.param in Hp. destruct (tkind_eqb (bk t0) KId); [|discriminate].
        apply sel_combine_in in Hp. unfold hargs in Hp. apply in_map_iff in Hp. destruct Hp as (xa & <- & Hxa).
        apply HN; [lia|assumption].
Qed.

Lemma S_src2 d items :
  Forall wf_src2 items -> List.length (snames stb) = S d ->
  exists n m, forall f, m <= f -> forall ys r, expandS stb f ys = Ok r ->
    expandS stb (n + f) (map hl0 (flat_map stoks items) ++ ys) = Ok (flat_map (sitem_out2 d) items ++ r).
Proof.
  intros Hwfi Hlen. induction Hwfi as [|i items Hi Hitems IH].
  - exists 0, 0. intros f _ ys r Hr. exact Hr.
  - destruct IH as (n2 & m2 & H2). destruct (S_item2 d i Hi Hlen) as (n1 & m1 & H1).
    exists (n1 + n2), (m1 + m2). intros f Hf ys r Hr. cbn [flat_map]. rewrite map_app, <- !app_assoc.
    rewrite <- Nat.add_assoc. apply H1; [lia|]. apply H2; [lia|assumption].
Qed.

(* ---------- the two outputs have the same spellings ---------- *)
Lemma rel_of_inert ne name t z :
  inert_rel t z -> rel ne t (mkHT (hk z) (hw z) (ht z) ([name] ++ hh z)).
Proof.
  intros ((Hk & Ht) & HiM & HiS). split; [split; assumption|]. right. split; [assumption|].
  unfold inertS in *. cbn [hk ht hh]. intros Hid. destruct (HiS Hid) as [H|H]; [left; now apply mem_app_r|now right].
Qed.

Lemma rel_white ne w w' l l' : Forall2 (rel ne) l l' -> Forall2 (rel ne) (set_w_hd w l) (hset_w w' l').
Proof.
  intros H. destruct H as [|t h l l' Hth Hr]; cbn; [constructor|]. constructor; [|assumption].
  destruct Hth as ((H1 & H2) & Hc). split; [split; assumption|]. exact Hc.
Qed.

Lemma rel_hsadd_inert ne name w w' l l' :
  Forall2 inert_rel l l' -> Forall2 (rel ne) (set_w_hd w l) (hsadd [name] (hset_w w' l')).
Proof.
  intros H.
  assert (H0 : Forall2 (rel ne) l (hsadd [name] l')).
  { induction H as [|t z l l' Htz Hr IH]; cbn; constructor; [now apply rel_of_inert|assumption]. }
  destruct H as [|t z l l' Htz Hr]; cbn; [constructor|]. inversion H0 as [|? ? ? ? Hh Ht]; subst.
  constructor; [|assumption]. destruct Hh as ((H1 & H2) & Hc). split; [split; assumption|]. exact Hc.
Qed.

Lemma rel_sm name ps al b b' d :
  List.length fs <= d ->
  Forall2 same_tok b' b -> forallb tx b' = true -> List.length al = List.length ps ->
  Forall (fun x => forallb (arg_tok2 fs) x = true) al ->
  (forall t, In t b -> (is_id t || negb (mem (tt t) ps)) = true) ->
  Forall2 (rel [Some name; None])
          (sm ps (exM d al) b')
          (hsadd [name] (subst_out (gS d) (combine ps (map (map hl0) al)) (map btok_of b))).
Proof.
  intros Hd Hsame Htx Hlen Hal Hpar. induction Hsame as [|x' x b' b (Hk & Ht) Hr IH]; [constructor|].
  cbn [forallb] in Htx. apply andb_true_iff in Htx. destruct Htx as [Hx' Htx].
  cbn [sm flat_map map subst_out]. fold (sm ps (exM d al) b').
  assert (Hpar' : forall t, In t b -> (is_id t || negb (mem (tt t) ps)) = true) by (intros; apply Hpar; now right).
  specialize (IH Htx Hpar'). specialize (Hpar x (or_introl eq_refl)).
  unfold Spec.C03.param. cbn [btok_of bk bt]. change (tkind_eqb (tk x) KId) with (is_id x). rewrite Ht.
  assert (Hsingle : Forall2 (rel [Some name; None]) [x'] (hsadd [name] [lift [] (btok_of x)])).
  { cbn. constructor; [|constructor]. split; [split; cbn; auto|]. left. split; [assumption|].
    intros s. cbn. unfold mem. cbn [existsb]. now rewrite String.eqb_sym. }
  destruct (is_id x) eqn:Hid.
  - destruct (index_of (tt x) ps 0) as [i|] eqn:Hi.
    + rewrite (sel_combine_index ps (map (map hl0) al) (tt x) 0 i Hi) by (now rewrite map_length).
      rewrite Nat.sub_0_r. unfold hsadd. rewrite map_app. fold (hsadd [name]). apply Forall2_app; [|exact IH].
      pose proof (index_of_range _ _ _ _ Hi) as Hri.
      assert (Hi_al : i < List.length al) by lia.
      change (nth i (map (map hl0) al) []) with (nth i (map (map hl0) al) (map hl0 [])). rewrite map_nth.
      unfold exM. change (@nil tok) with (flat_map (E tb d [None; None]) []) at 1. rewrite map_nth.
      apply rel_hsadd_inert. apply arg_out_rel; [assumption|].
      rewrite Forall_forall in Hal. apply Hal. now apply nth_In.
    + rewrite (sel_combine_none ps _ (tt x) 0 Hi). change (x' :: sm ps (exM d al) b') with ([x'] ++ sm ps (exM d al) b').
      change (lift [] (btok_of x) :: ?r) with ([lift [] (btok_of x)] ++ r).
      unfold hsadd. rewrite map_app. fold (hsadd [name]). apply Forall2_app; [exact Hsingle|exact IH].
  - cbn in Hpar. apply negb_true_iff in Hpar. rewrite (index_of_none_mem _ _ 0 Hpar).
    change (x' :: sm ps (exM d al) b') with ([x'] ++ sm ps (exM d al) b').
    unfold hsadd. cbn [map]. constructor; [|exact IH]. inversion Hsingle; subst. assumption.
Qed.

Lemma item_corr2 lead cat_fix str_white resub_fix va_fix d i :
  wf_src2 i -> List.length fs = S d ->
  map sp (item_out lead cat_fix str_white resub_fix va_fix tb d [None] i) = map sph (sitem_out2 d i).
Proof.
  intros [Hokd Hi] Hfs. destruct i as [l|t lp a more rp]; cbn [item_out sitem_out2].
  - rewrite (EI_plain fs) by assumption.
    apply (corrG (S d) [None]).
    + apply (forallb_impl (src_tok fs) (okt2 tb)); [|assumption].
      intros x Hx. unfold src_tok in Hx. apply andb_true_iff in Hx. destruct Hx as [Hf _]. now apply (okf_okt2 fs).
    + apply rel_hl0; [reflexivity|]. apply (forallb_impl okd tx); [apply okd_tx|exact Hokd].
  - destruct Hi as (Hid & Hdef & Hlp & Hrp & Ha & Hmore & n0 & ps & b & Hfl & Hlps).
    destruct (fun_facts fs Hwf n0 ps b (flookup_In _ _ _ Hfl)) as (Hb & Hps & Hnd & Hva & Hno & Hpar & Hne).
    pose proof (flookup_name _ _ _ Hfl) as Hname. cbn [fname] in Hname. subst n0.
    pose proof (args_of_call a more Ha Hmore) as Hargs.
    assert (Hlen : List.length (a :: map snd more) = List.length ps) by (cbn [List.length]; now rewrite map_length).
    unfold call_out. rewrite get_mtable2, Hfl. cbn [option_map macro_of_fdef].
    rewrite replace_fun_fmacro2; try assumption.
    cbn [fmacro m_name]. fold (exM (S d) (a :: map snd more)).
    apply (corrG d [Some (tt t); None]).
    + apply okt2_set_w_hd. apply (sm_okt2 fs).
      * apply okt2_set_w_hd. apply (forallb_impl (okf fs) (okt2 tb)); [apply (okf_okt2 fs)|assumption].
      * now apply exM_okt2.
    + apply rel_white. apply (rel_sm (tt t) ps (a :: map snd more) b (set_w_hd false b) (S d)); try assumption.
      * lia.
      * apply same_set_w.
      * apply tx_set_w_hd. apply (forallb_impl (okf fs) tx); [|assumption].
        intros x Hx. unfold okf in Hx. apply andb_true_iff in Hx. destruct Hx as [Hx _]. now apply okd_tx.
Qed.

Lemma outs_corr2 lead cat_fix str_white resub_fix va_fix d items :
  Forall wf_src2 items -> List.length fs = S d ->
  map sp (flat_map (item_out lead cat_fix str_white resub_fix va_fix tb d [None]) items)
  = map sph (flat_map (sitem_out2 d) items).
Proof.
  intros H Hfs. induction H as [|i items Hi Hr IH]; [reflexivity|]. cbn [flat_map]. rewrite !map_app, IH.
  now rewrite (item_corr2 lead cat_fix str_white resub_fix va_fix d i Hi Hfs).
Qed.

(* ---------- main theorem ---------- *)
Theorem funlike2_main (lead cat_fix str_white resub_fix va_fix va_whole : bool) (max_level : nat) (items : list sitem) :
  Forall wf_src2 items -> fs <> [] ->
  S (S (List.length fs)) < max_level ->
  exists n, forall fuel, n <= fuel ->
    exists out,
      expand lead cat_fix str_white resub_fix None false va_fix va_whole max_level tb fuel (flat_map stoks items) = Ok out /\
      run_spec fuel stb (map btok_of (flat_map stoks items)) = Ok (map sp out).
Proof.
  intros Hitems Hne Hlev.
  assert (Hnames : List.length (names tb) = List.length fs) by (unfold names, mtable2; now rewrite !map_length).
  assert (Hsnames : List.length (snames stb) = List.length fs) by (unfold snames, stable2; now rewrite !map_length).
  assert (Hpos : List.length fs <> 0) by (destruct fs; [contradiction|discriminate]).
  set (d := Nat.pred (List.length fs)).
  assert (Hfs : List.length fs = S d) by (unfold d; lia).
  destruct (expand_src lead cat_fix str_white resub_fix va_fix va_whole max_level tb (Hobj2 fs Hwf) items) as (n1 & H1).
  { rewrite Hnames. rewrite Forall_forall in Hitems |- *. intros i Hi. now apply wf_src2_sitem, Hitems. }
  { now rewrite Hnames. }
  { now rewrite Hnames. }
  destruct (S_src2 d items Hitems) as (n2 & m2 & H2).
  { now rewrite Hsnames. }
  exists (n1 + n2 + m2 + 1). intros fuel Hf. eexists. split; [apply H1; lia|].
  unfold run_spec. rewrite (table_ok2 fs Hwf). cbn [negb].
  assert (Hokb : forallb okb (map btok_of (flat_map stoks items)) = true).
  { rewrite forallb_forall. intros x Hx. apply in_map_iff in Hx. destruct Hx as (t & <- & Ht).
    apply in_flat_map in Ht. destruct Ht as (i & Hi & Ht). rewrite Forall_forall in Hitems.
    destruct (Hitems i Hi) as [Hokd _]. apply okd_okb. rewrite forallb_forall in Hokd. now apply Hokd. }
  rewrite sdefined_plain by assumption.
  rewrite map_map. change (fun x => lift [] (btok_of x)) with hl0.
  replace fuel with (n2 + (fuel - n2)) by lia.
  rewrite <- (app_nil_r (map hl0 (flat_map stoks items))).
  rewrite (H2 (fuel - n2)) with (r := []); [| lia |].
  2:{ destruct (fuel - n2) eqn:E; [lia|reflexivity]. }
  rewrite app_nil_r. f_equal. rewrite Hnames. fold d.
  rewrite (outs_corr2 lead cat_fix str_white resub_fix va_fix d items Hitems Hfs). reflexivity.
Qed.
End FunLikeG.
