(* C15 — two worlds.  World 1 and world 2 may differ in the file system (rp, getf),
   in the spelling of the configured directories, and in the NAMES written in
   #include directives, -include options and macro bodies used by computed
   includes.  If every single header search of world 1 agrees with the
   corresponding search of world 2 (same physical file), then the whole
   analyses agree: same marks, same include-once sets, related macro tables.
   Nothing else of a spelling survives the search: trees, association maps and
   the #pragma once list are keyed by the real path, the memo is transparent. *)
From Coq Require Import Bool Arith ZArith String List.
From CBI Require Import Lib.Res Model.C01 Spec.C01 Model.C04 Spec.C04 Proofs.C01 Proofs.C04
     Model.C15 Proofs.C15 Proofs.C15sim.
Import ListNotations.
Local Open Scope list_scope.

Section TwoWorlds.
Variables rp1 rp2 : path -> path.
Variables getf1 getf2 : path -> option lines.
Variable NR : path -> path -> Prop.          (* names that denote the same file from everywhere *)
Variable DR : path -> path -> Prop.          (* configured directories that denote the same directory *)
Variable Good : path -> Prop.                (* real paths of the files the analysis may visit *)

Inductive val_rel : mval -> mval -> Prop :=
| vr_e : val_rel VE VE
| vr_i z : val_rel (VI z) (VI z)
| vr_p a n1 n2 : NR n1 n2 -> val_rel (VP a n1) (VP a n2).
Inductive ispec_rel : ispec -> ispec -> Prop :=
| ir_q n1 n2 : NR n1 n2 -> ispec_rel (IQuote n1) (IQuote n2)
| ir_a n1 n2 : NR n1 n2 -> ispec_rel (IAngle n1) (IAngle n2)
| ir_m m : ispec_rel (IMacro m) (IMacro m).
Inductive act_rel : act -> act -> Prop :=
| ar_code : act_rel ACode ACode
| ar_other : act_rel AOther AOther
| ar_def m v1 v2 : val_rel v1 v2 -> act_rel (ADefine m v1) (ADefine m v2)
| ar_undef m : act_rel (AUndef m) (AUndef m)
| ar_inc tag s1 s2 : ispec_rel s1 s2 -> act_rel (AInclude tag s1) (AInclude tag s2)
| ar_once : act_rel AOnce AOnce.

Definition lrel : line act cond -> line act cond -> Prop := line_rel act act cond act_rel.
Definition kv_rel (x y : string * mval) : Prop := fst x = fst y /\ val_rel (snd x) (snd y).
Definition defs_rel := Forall2 kv_rel.
Definition evt_rel (e1 e2 : event) : Prop :=
  ev_file e1 = ev_file e2 /\ ev_tag e1 = ev_tag e2 /\ ev_angle e1 = ev_angle e2 /\ NR (ev_name e1) (ev_name e2).

Hypothesis Hst1 : forall q ls, getf1 q = Some ls -> exists its, ls = flats act cond its.
Hypothesis Hst2 : forall q ls, getf2 q = Some ls -> exists its, ls = flats act cond its.
Hypothesis Hsearch : forall ds1 ds2 n1 n2 cur a,
  Forall2 DR ds1 ds2 -> NR n1 n2 -> Good cur ->
  match search_A rp1 getf1 ds1 (n1, dirname cur, a), search_A rp2 getf2 ds2 (n2, dirname cur, a) with
  | Some f1, Some f2 => f1 = f2 /\ rp1 f1 = rp2 f2 /\ Good (rp1 f1)
  | None, None => True
  | _, _ => False
  end.
Hypothesis Hcontent : forall q, Good q ->
  match getf1 q, getf2 q with
  | Some l1, Some l2 => Forall2 lrel l1 l2
  | None, None => True
  | _, _ => False
  end.

(* ---------- macro tables ---------- *)
Lemma lookup_rel m d1 d2 : defs_rel d1 d2 ->
  match lookup m d1, lookup m d2 with
  | Some v1, Some v2 => val_rel v1 v2
  | None, None => True
  | _, _ => False
  end.
Proof.
  induction 1 as [|[k1 v1] [k2 v2] l1 l2 [Hk Hv] _ IH]; cbn; [exact I|]. cbn in Hk, Hv. subst k2.
  destruct (String.eqb k1 m); [exact Hv|exact IH].
Qed.
Lemma remove_rel m d1 d2 : defs_rel d1 d2 -> defs_rel (remove m d1) (remove m d2).
Proof.
  induction 1 as [|[k1 v1] [k2 v2] l1 l2 [Hk Hv] _ IH]; cbn; [constructor|]. cbn in Hk, Hv. subst k2.
  destruct (String.eqb k1 m); [exact IH|]. constructor; [split; [reflexivity|exact Hv]|exact IH].
Qed.

Definition Rel (p q : plat) : Prop :=
  assoc p = assoc q /\ defs_rel (defs p) (defs q) /\ once p = once q /\
  Forall2 evt_rel (events p) (events q) /\ Forall2 DR (dirs p) (dirs q) /\
  memo_okA rp1 getf1 p /\ memo_okA rp2 getf2 q.

Lemma Rel_mark f id p q : Rel p q -> Rel (mark_in f id p) (mark_in f id q).
Proof.
  intros (H1 & H2 & H3 & H4 & H5 & H6 & H7). unfold Rel, mark_in, memo_okA in *; cbn. rewrite H1. repeat split; auto.
Qed.

Lemma ident_val_rel m d1 d2 : defs_rel d1 d2 -> ident_val m d1 = ident_val m d2.
Proof.
  intros Hd. unfold ident_val. pose proof (lookup_rel m _ _ Hd) as Hl.
  destruct (lookup m d1) as [v1|], (lookup m d2) as [v2|]; try contradiction; [|reflexivity].
  inversion Hl; reflexivity.
Qed.
Lemma defined_rel m d1 d2 : defs_rel d1 d2 ->
  match lookup m d1 with Some _ => true | None => false end = match lookup m d2 with Some _ => true | None => false end.
Proof.
  intros Hd. pose proof (lookup_rel m _ _ Hd) as Hl.
  destruct (lookup m d1) as [v1|], (lookup m d2) as [v2|]; try contradiction; reflexivity.
Qed.
Lemma Rel_ev c p q b : Rel p q -> ev c p = Ok b -> ev c q = Ok b.
Proof.
  intros (_ & H2 & _). unfold ev.
  destruct c as [m|m|m|m k|m k|k|]; rewrite <- ?(ident_val_rel _ _ _ H2); auto.
  - rewrite <- (defined_rel m _ _ H2). auto.
  - intros H. rewrite <- H. f_equal. pose proof (lookup_rel m _ _ H2) as Hl.
    destruct (lookup m (defs p)), (lookup m (defs q)); try contradiction; reflexivity.
Qed.

Lemma Rel_obs p q p1 q1 :
  Rel p q -> obs_eq p p1 -> obs_eq q q1 -> memo_okA rp1 getf1 p1 -> memo_okA rp2 getf2 q1 -> Rel p1 q1.
Proof.
  intros (H1 & H2 & H3 & H4 & H5 & _ & _) (G1 & G2 & G3 & G4 & G5) (K1 & K2 & K3 & K4 & K5) M1 M2.
  unfold Rel. rewrite <- G1, <- G2, <- G3, <- G4, <- G5, <- K1, <- K2, <- K3, <- K4, <- K5. repeat split; auto.
Qed.

Lemma include_target_rel s1 s2 p q a n1 :
  ispec_rel s1 s2 -> Rel p q -> include_target s1 p = Ok (a, n1) ->
  exists n2, include_target s2 q = Ok (a, n2) /\ NR n1 n2.
Proof.
  intros Hs (_ & H2 & _). destruct Hs as [x y Hn|x y Hn|m]; cbn.
  - intros H; inversion H; subst. eauto.
  - intros H; inversion H; subst. eauto.
  - pose proof (lookup_rel m _ _ H2) as Hl.
    destruct (lookup m (defs p)) as [v1|], (lookup m (defs q)) as [v2|]; try contradiction; try discriminate.
    inversion Hl as [| |a' m1 m2 Hnn]; subst; try discriminate. intros Hx; inversion Hx; subst. eauto.
Qed.

Definition exec_sim2_at (fuel : nat) : Prop :=
  forall cur a1 a2 p q p', Good cur -> act_rel a1 a2 -> Rel p q ->
  exec_A rp1 getf1 fuel cur a1 p = Ok p' ->
  exists q', exec_A rp2 getf2 fuel cur a2 q = Ok q' /\ Rel p' q'.

Lemma run_lines_sim2 fuel cur l1 l2 p q p' :
  exec_sim2_at fuel -> Good cur -> Forall2 lrel l1 l2 ->
  (exists its, l1 = flats act cond its) -> (exists its, l2 = flats act cond its) -> Rel p q ->
  run_M plat act cond (mark_in cur) (exec_A rp1 getf1 fuel cur) ev l1 p = Ok p' ->
  exists q', run_M plat act cond (mark_in cur) (exec_A rp2 getf2 fuel cur) ev l2 q = Ok q' /\ Rel p' q'.
Proof.
  intros Hsim Hg HL (its1 & ->) (its2 & ->) HR. rewrite !attribution. intros H.
  eapply (run_S_sim2 plat plat act act cond (mark_in cur) (mark_in cur)
            (exec_A rp1 getf1 fuel cur) (exec_A rp2 getf2 fuel cur) ev ev Rel act_rel);
    [apply Rel_mark | intros c a b r; apply Rel_ev | intros a1 a2 x y x' Ha; apply Hsim; assumption
    | exact HL | exact HR | exact H].
Qed.

(* one search in each world *)
Lemma find_rel n1 n2 cur a p q p1 r1 :
  Rel p q -> NR n1 n2 -> Good cur ->
  find_include_A rp1 getf1 (n1, dirname cur, a) p = (p1, r1) ->
  exists q1 r2, find_include_A rp2 getf2 (n2, dirname cur, a) q = (q1, r2) /\ Rel p1 q1 /\
    match r1, r2 with
    | Some f1, Some f2 => f1 = f2 /\ rp1 f1 = rp2 f2 /\ Good (rp1 f1)
    | None, None => True
    | _, _ => False
    end.
Proof.
  intros HR Hn Hg E. pose proof HR as (H1 & H2 & H3 & H4 & H5 & H6 & H7).
  destruct (find_include_A rp2 getf2 (n2, dirname cur, a) q) as [q1 r2] eqn:Eq.
  destruct (find_include_A_spec rp1 getf1 _ _ _ _ H6 E) as (-> & M1 & O1).
  destruct (find_include_A_spec rp2 getf2 _ _ _ _ H7 Eq) as (-> & M2 & O2).
  exists q1. eexists. split; [reflexivity|]. split; [eapply Rel_obs; eauto|].
  apply Hsearch; assumption.
Qed.

Lemma exec_sim2_step fuel : (forall n, fuel = S n -> exec_sim2_at n) -> exec_sim2_at fuel.
Proof.
  intros IH cur a1 a2 p q p' Hg Ha HR. rewrite !exec_A_unfold.
  pose proof HR as (H1 & H2 & H3 & H4 & H5 & H6 & H7).
  destruct Ha as [| |m v1 v2 Hv|m|tag s1 s2 Hs|].
  - intros H; inversion H; subst. eexists; split; [reflexivity|exact HR].
  - intros H; inversion H; subst. eexists; split; [reflexivity|exact HR].
  - intros H; inversion H; subst. eexists; split; [reflexivity|].
    pose proof (lookup_rel m _ _ H2) as Hl.
    destruct (lookup m (defs p)) as [x|], (lookup m (defs q)) as [y|]; try contradiction; [exact HR|].
    unfold Rel, set_defs, memo_okA in *; cbn. repeat split; auto. constructor; [split; [reflexivity|exact Hv]|exact H2].
  - intros H; inversion H; subst. eexists; split; [reflexivity|].
    unfold Rel, set_defs, memo_okA in *; cbn. repeat split; auto. apply remove_rel. exact H2.
  - destruct (include_target s1 p) as [[angle n1]|e] eqn:Et; [|discriminate].
    destruct (include_target_rel _ _ _ _ _ _ Hs HR Et) as (n2 & -> & Hn).
    destruct (find_include_A rp1 getf1 (n1, dirname cur, angle) p) as [p1 r1] eqn:Ef.
    destruct (find_rel _ _ _ _ _ _ _ _ HR Hn Hg Ef) as (q1 & r2 & -> & HR1 & Hr).
    pose proof HR1 as (G1 & G2 & G3 & G4 & G5 & G6 & G7).
    destruct r1 as [f|], r2 as [f2|]; try contradiction.
    + destruct Hr as (<- & Hrp & Hgf). rewrite <- G3, <- Hrp. destruct (mem_path f (once p1)).
      * intros H; inversion H; subst. eexists; split; [reflexivity|exact HR1].
      * destruct fuel as [|n]; [discriminate|].
        pose proof (Hcontent _ Hgf) as Hc.
        destruct (getf1 (rp1 f)) as [l1|] eqn:E1; [|discriminate].
        destruct (getf2 (rp1 f)) as [l2|] eqn:E2; [|contradiction].
        intros H. apply (run_lines_sim2 n (rp1 f) l1 l2 p1 q1 p' (IH n eq_refl) Hgf Hc (Hst1 _ _ E1));
          [exact (Hst2 _ _ E2)|exact HR1|exact H].
    + intros H; inversion H; subst. eexists; split; [reflexivity|].
      unfold Rel, set_events, memo_okA in *; cbn. repeat split; auto.
      constructor; [repeat split; cbn; auto|exact G4].
  - intros H; inversion H; subst. rewrite <- H3. eexists; split; [reflexivity|].
    destruct (mem_path cur (once p)); [exact HR|].
    unfold Rel, set_once, memo_okA in *; cbn. rewrite H3. repeat split; auto.
Qed.

Lemma exec_sim2 fuel : exec_sim2_at fuel.
Proof.
  induction fuel as [|n IH]; apply exec_sim2_step.
  - intros n H; discriminate.
  - intros m H; inversion H; subst; exact IH.
Qed.

Lemma run_file_sim2 fuel f g p q p' :
  rp1 f = rp2 g -> Good (rp1 f) -> Rel p q -> run_file_A rp1 getf1 fuel f p = Ok p' ->
  exists q', run_file_A rp2 getf2 fuel g q = Ok q' /\ Rel p' q'.
Proof.
  unfold run_file_A. intros Hfg Hg HR. rewrite <- Hfg. pose proof (Hcontent _ Hg) as Hc.
  destruct (getf1 (rp1 f)) as [l1|] eqn:E1; [|discriminate].
  destruct (getf2 (rp1 f)) as [l2|] eqn:E2; [|contradiction].
  apply run_lines_sim2; auto; [apply exec_sim2|eapply Hst1; eauto|rewrite Hfg in E2; eapply Hst2; eauto].
Qed.

Lemma forced_sim2 fuel cur incs1 incs2 : Good cur -> Forall2 NR incs1 incs2 -> forall p q p',
  Rel p q -> forced_A rp1 getf1 fuel (dirname cur) incs1 p = Ok p' ->
  exists q', forced_A rp2 getf2 fuel (dirname cur) incs2 q = Ok q' /\ Rel p' q'.
Proof.
  intros Hg. induction 1 as [|n1 n2 r1 r2 Hn _ IH]; intros p q p' HR; cbn [forced_A].
  - intros H; inversion H; subst. eauto.
  - destruct (find_include_A rp1 getf1 (n1, dirname cur, false) p) as [p1 res1] eqn:Ef.
    destruct (find_rel _ _ _ _ _ _ _ _ HR Hn Hg Ef) as (q1 & res2 & -> & HR1 & Hr).
    destruct res1 as [f|], res2 as [f2|]; try contradiction.
    + destruct Hr as (<- & Hrp & Hgf).
      replace (once q1) with (once p1) by (destruct HR1 as (_ & _ & X & _); exact X).
      destruct (mem_path f (once p1)); [apply IH; exact HR1|].
      destruct (run_file_A rp1 getf1 fuel f p1) as [p2|e] eqn:E2; [|discriminate].
      destruct (run_file_sim2 fuel f f p1 q1 p2 Hrp Hgf HR1 E2) as (q2 & -> & HR2). apply IH; exact HR2.
    + apply IH; exact HR1.
Qed.

(* ---------- entries and configurations ---------- *)
Definition entry_rel (e1 e2 : entry) : Prop :=
  rp1 (e_file e1) = rp2 (e_file e2) /\ Good (rp1 (e_file e1)) /\
  Forall2 DR (e_dirs e1) (e_dirs e2) /\ defs_rel (e_defs e1) (e_defs e2) /\ Forall2 NR (e_incs e1) (e_incs e2).

Lemma fresh_rel e1 e2 : entry_rel e1 e2 -> Rel (fresh e1) (fresh e2).
Proof.
  intros (_ & _ & Hd & Hdefs & _). unfold Rel, fresh, memo_okA; cbn.
  repeat split; auto; try (intros k r0; discriminate).
  assert (G : forall a1 a2, defs_rel a1 a2 ->
    defs_rel (fold_left (fun d kv => match lookup (fst kv) d with Some _ => d | None => kv :: d end) (e_defs e1) a1)
             (fold_left (fun d kv => match lookup (fst kv) d with Some _ => d | None => kv :: d end) (e_defs e2) a2)).
  { induction Hdefs as [|[k1 v1] [k2 v2] l1 l2 [Hk Hv] _ IH]; intros a1 a2 Ha; cbn [fold_left]; [exact Ha|].
    cbn in Hk, Hv. subst k2. cbn [fst]. apply IH. pose proof (lookup_rel k1 _ _ Ha) as Hl.
    destruct (lookup k1 a1), (lookup k1 a2); try contradiction; [exact Ha|].
    constructor; [split; [reflexivity|exact Hv]|exact Ha]. }
  apply G. constructor.
Qed.

Theorem run_tu_sim2 fuel e1 e2 r1 :
  entry_rel e1 e2 -> run_tu_A rp1 getf1 fuel e1 = Ok r1 ->
  exists r2, run_tu_A rp2 getf2 fuel e2 = Ok r2 /\
    assoc r1 = assoc r2 /\ once r1 = once r2 /\ defs_rel (defs r1) (defs r2) /\ Forall2 evt_rel (events r1) (events r2).
Proof.
  intros He. pose proof He as (Hf & Hg & Hd & Hdefs & Hincs). unfold run_tu_A. rewrite <- Hf.
  destruct (forced_A rp1 getf1 fuel (dirname (rp1 (e_file e1))) (e_incs e1) (fresh e1)) as [p|x] eqn:E; [|discriminate].
  destruct (forced_sim2 fuel _ _ _ Hg Hincs _ _ _ (fresh_rel _ _ He) E) as (q & -> & HR1).
  intros H. destruct (run_file_sim2 fuel _ _ _ _ _ Hf Hg HR1 H) as (r2 & -> & (G1 & G2 & G3 & G4 & _)).
  exists r2. repeat split; assumption.
Qed.

Definition cfg_rel (c1 c2 : list (nat * entry)) : Prop :=
  Forall2 (fun x y => fst x = fst y /\ entry_rel (snd x) (snd y)) c1 c2.

Theorem analyse_sim2 fuel c1 c2 : cfg_rel c1 c2 ->
  forall ms, analyse rp1 getf1 fuel c1 = Ok ms -> analyse rp2 getf2 fuel c2 = Ok ms.
Proof.
  induction 1 as [|[pl1 e1] [pl2 e2] l1 l2 [Hp He] _ IH]; intros ms; cbn [analyse]; [auto|].
  cbn [fst snd] in *. subst pl2.
  destruct (run_tu_A rp1 getf1 fuel e1) as [r1|x] eqn:E1; [|discriminate].
  destruct (run_tu_sim2 fuel e1 e2 r1 He E1) as (r2 & -> & Ha & _).
  destruct (analyse rp1 getf1 fuel l1) as [m1|x] eqn:E2; [|discriminate].
  rewrite (IH m1 eq_refl), Ha. auto.
Qed.

(* the files parsed up front: pairwise the same physical files *)
Definition same_files (l1 l2 : list path) : Prop :=
  Forall2 (fun a b => rp1 a = rp2 b /\ Good (rp1 a)) l1 l2.

Lemma parse_all_sim2 l1 l2 : same_files l1 l2 ->
  parse_all rp1 getf1 l1 = Ok tt -> parse_all rp2 getf2 l2 = Ok tt.
Proof.
  induction 1 as [|a b r1 r2 [Hab Hg] _ IH]; cbn [parse_all]; [auto|].
  rewrite <- Hab. pose proof (Hcontent _ Hg) as Hc.
  destruct (getf1 (rp1 a)) as [x|] eqn:E1; [|discriminate].
  destruct (getf2 (rp1 a)) as [y|] eqn:E2; [|contradiction].
  destruct (Hst1 _ _ E1) as (i1 & ->). rewrite Hab in E2. destruct (Hst2 _ _ E2) as (i2 & ->).
  rewrite !build_flats. exact IH.
Qed.

Theorem find_sim2 fuel m1 m2 c1 c2 ms :
  same_files m1 m2 -> cfg_rel c1 c2 ->
  find_A rp1 getf1 fuel m1 c1 = Ok ms -> find_A rp2 getf2 fuel m2 c2 = Ok ms.
Proof.
  intros Hm Hc. unfold find_A.
  destruct (parse_all rp1 getf1 (m1 ++ map (fun pe => e_file (snd pe)) c1)) as [[]|e] eqn:E; [|discriminate].
  assert (Hs : same_files (m1 ++ map (fun pe => e_file (snd pe)) c1) (m2 ++ map (fun pe => e_file (snd pe)) c2)).
  { apply Forall2_app; [exact Hm|].
    clear - Hc. induction Hc as [|[pl1 e1] [pl2 e2] l1 l2 [_ (Hf & Hg & _)] _ IH]; constructor; [split; assumption|exact IH]. }
  rewrite (parse_all_sim2 _ _ Hs E). apply analyse_sim2; exact Hc.
Qed.

End TwoWorlds.
