(* C11: parse_args never aborts; the only ambiguous argument is "-i". *)
From Coq Require Import Ascii String Bool Arith Lia List.
From CBI Require Import Lib.Data Lib.C11_types Gen.C11_tables Model.C11 Spec.C11 Spec.C11safe Proofs.C11.
Import ListNotations.
Local Open Scope string_scope.

Definition at_most_one (l : list cls) : Prop := l = [] \/ exists c, l = [c].

Lemma tuples_at_most_one b r :
  String "-" (String b r) <> "-i" -> at_most_one (option_tuples om (String "-" (String b r))).
Proof.
  intros Hne.
  destruct (Ascii.eqb_spec b "-") as [->|n0]; [left; reflexivity|].
  destruct (Ascii.eqb_spec b "D") as [->|n1]; [right; eexists; reflexivity|].
  destruct (Ascii.eqb_spec b "I") as [->|n2]; [right; eexists; reflexivity|].
  destruct (Ascii.eqb_spec b "O") as [->|n3]; [right; eexists; reflexivity|].
  destruct (Ascii.eqb_spec b "o") as [->|n4]; [right; eexists; reflexivity|].
  destruct (Ascii.eqb_spec b "g") as [->|n5]; [right; eexists; reflexivity|].
  destruct (Ascii.eqb_spec b "c") as [->|n6]; [right; eexists; reflexivity|].
  set (t := String "-" (String b r)) in *.
  assert (E : option_tuples om t =
              List.app (if prefixb t "-isystem" then [CO (Some oS) None] else [])
                       (if prefixb t "-include" then [CO (Some oF) None] else [])).
  { unfold option_tuples. change (second_is_dash t) with (Ascii.eqb b "-").
    rewrite (proj2 (Ascii.eqb_neq _ _) n0).
    unfold om. cbn [flat_map fst snd]. change (take2 t) with (String "-" (String b "")).
    rewrite (proj2 (String.eqb_neq "-D" _)) by congruence.
    rewrite (proj2 (String.eqb_neq "-I" _)) by congruence.
    rewrite (proj2 (String.eqb_neq "-O" _)) by congruence.
    rewrite (proj2 (String.eqb_neq "-o" _)) by congruence.
    rewrite (proj2 (String.eqb_neq "-g" _)) by congruence.
    rewrite (proj2 (String.eqb_neq "-c" _)) by congruence.
    rewrite (proj2 (String.eqb_neq "-isystem" _)) by (intros E; inversion E).
    rewrite (proj2 (String.eqb_neq "-include" _)) by (intros E; inversion E).
    unfold t. rewrite !prefix2_false by assumption. cbn [app]. rewrite app_nil_r. reflexivity. }
  rewrite E.
  destruct (prefixb t "-isystem") eqn:P1; destruct (prefixb t "-include") eqn:P2; cbn [app].
  - exfalso. apply prefixb_app in P1. apply prefixb_app in P2.
    destruct P1 as [v1 P1], P2 as [v2 P2]. unfold t in *. cbn in P1, P2.
    injection P1 as Hb H1. injection P2 as _ H2. subst b.
    destruct r as [|c r]; [now apply Hne|]. cbn in H1, H2. congruence.
  - right; eexists; reflexivity.
  - right; eexists; reflexivity.
  - left; reflexivity.
Qed.

Lemma po_total t : t <> "-i" -> exists c, parse_optional om t = inr c.
Proof.
  intros Hne. destruct t as [|a r]; [eexists; reflexivity|].
  cbn [parse_optional]. destruct (Ascii.eqb a ch_dash) eqn:Ha; cbn [negb]; [|eexists; reflexivity].
  destruct (lookup (String a r) om); [eexists; reflexivity|].
  destruct r as [|b r]; [eexists; reflexivity|].
  destruct (by_eq om (String a (String b r))); [eexists; reflexivity|].
  apply Ascii.eqb_eq in Ha. unfold ch_dash in Ha. subst a.
  destruct (tuples_at_most_one b r Hne) as [->|[c ->]]; eexists; reflexivity.
Qed.

Lemma classify_total argv : ~ In "-i" argv -> forall dd, exists toks, classify om dd argv = inr toks.
Proof.
  induction argv as [|t r IH]; intros Hn dd; [eexists; reflexivity|].
  assert (Hr : ~ In "-i" r) by (intros H; apply Hn; now right).
  assert (Ht : t <> "-i") by (intros ->; apply Hn; now left).
  cbn [classify]. destruct dd.
  - destruct (IH Hr true) as [toks ->]. eexists; reflexivity.
  - destruct (String.eqb t "--").
    + destruct (IH Hr true) as [toks ->]. eexists; reflexivity.
    + destruct (po_total t Ht) as [c ->]. destruct (IH Hr false) as [toks ->]. eexists; reflexivity.
Qed.

Lemma on_acc_exit f o : on_acc f o = Exit -> o = Exit.
Proof. destruct o; cbn; congruence. Qed.

Lemma run_no_exit toks : forall pos pend, run pos pend toks <> Exit.
Proof.
  induction toks as [|[s c] r IH]; intros pos pend.
  - cbn [run]. destruct pend as [o|]; [destruct (onargs o)|]; discriminate.
  - assert (Hc : forall pos',
        match c with
        | CA | CDash => match pos' with PAvail | PActive => run PActive None r | PDone => push_extra s (run PDone None r) end
        | CO None _ => push_extra s (run (close_run pos') None r)
        | CO (Some o) (Some v) => push (odest o) (value_of v) (run (close_run pos') None r)
        | CO (Some o) None => run (close_run pos') (Some o) r
        end <> Exit).
    { intros pos'. destruct c as [| |[o|] [v|]]; try destruct pos';
        try apply IH; intros H; apply on_acc_exit in H; revert H; apply IH. }
    cbn [run]. destruct pend as [o|]; [|apply Hc].
    destruct c as [| |a e].
    + intros H; apply on_acc_exit in H; revert H; apply IH.
    + destruct (onargs o); [discriminate|apply (Hc pos)].
    + destruct (onargs o); [discriminate|apply (Hc pos)].
Qed.

(* with the three repairs nothing aborts: ambiguity is an ArgumentError, and ArgumentError is caught *)
Theorem no_abort argv : exists a, parse_args argv = ROk a \/ parse_args argv = RWarned a.
Proof.
  unfold parse_args, parse_args_with, parse_known_args. rewrite om_eq, caught_eq, raises_eq.
  destruct (classify om false argv) as [[]|toks].
  - exists acc0; now right.
  - destruct (run PAvail None toks) as [a|a|] eqn:E.
    + exists a; now left.
    + exists a; now right.
    + exfalso. revert E. apply run_no_exit.
Qed.

(* ... and the warning branch is not entered because of an ambiguity unless the literal "-i" occurs *)
Theorem ambiguity_only_i argv :
  ~ In "-i" argv -> exists toks, classify om false argv = inr toks.
Proof. intros H. now apply classify_total. Qed.
