(* C05, step 7: S on the raw text (Spec/C05f.v) = S on the model's physical lines,
   for every text that ends in a newline. *)
From Coq Require Import ZArith Bool Ascii Arith List Lia.
From CBI Require Import Lib.Data Model.C05 Spec.C05 Spec.C05f Model.C05r.
Import ListNotations.

Definition line_tokens (n : nat) (l : pline ascii) : list (tok * nat) :=
  map (fun c => (TCh (classify c), n)) (fst l) ++ [(if snd l then TSplice else TNl, n)].
Fixpoint lines_tokens (n : nat) (ls : list (pline ascii)) : list (tok * nat) :=
  match ls with [] => [] | l :: r => line_tokens n l ++ lines_tokens (S n) r end.

Lemma fold_line n l s : fold_left ftok (line_tokens n l) s = s_line n s (map classify (fst l), snd l).
Proof.
  unfold line_tokens, s_line. rewrite fold_left_app. cbn [fst snd fold_left].
  assert (E : forall cs s0, fold_left ftok (map (fun c => (TCh (classify c), n)) cs) s0
                            = fold_left (sstep n) (map classify cs) s0).
  { induction cs as [|c cs IH]; intros s0; cbn [map fold_left]; [reflexivity|]. apply IH. }
  rewrite E. destruct (snd l); reflexivity.
Qed.

Lemma fold_lines ls : forall n s, fold_left ftok (lines_tokens n ls) s = s_lines n s (cls_lines ls).
Proof.
  induction ls as [|l ls IH]; intros n s; cbn [lines_tokens cls_lines map s_lines]; [reflexivity|].
  rewrite fold_left_app, fold_line. apply IH.
Qed.

(* ---------- one physical line ---------- *)
Definition nl_free (cs : list ascii) : Prop := Forall (fun c => is_nl c = false) cs.

Lemma bs_not_nl c : is_bs c = true -> is_nl c = false.
Proof. unfold is_bs, is_nl. intros H. apply Z.eqb_eq in H. rewrite H. reflexivity. Qed.
Lemma classify_bs c : is_bs c = true -> classify c = cBs.
Proof. unfold is_bs, classify. intros H. rewrite H. reflexivity. Qed.

Lemma prep_cons c cs nl : cs <> [] ->
  prep_line (c :: cs, nl) = option_map (fun p : pline ascii => (c :: fst p, snd p)) (prep_line (cs, nl)).
Proof.
  intros Hne. unfold prep_line. cbn [rev].
  destruct (rev cs) as [|x before] eqn:E.
  - exfalso. apply Hne. rewrite <- (rev_involutive cs), E. reflexivity.
  - cbn [app]. destruct (is_bs x); [|reflexivity].
    destruct nl; [|reflexivity]. cbn [option_map fst snd]. rewrite rev_app_distr. reflexivity.
Qed.

Lemma tokens_line cs : forall n rest nlc, nl_free cs -> is_nl nlc = true ->
  exists l, prep_line (cs, true) = Some l /\
            tokens n (cs ++ nlc :: rest) = line_tokens n l ++ tokens (S n) rest.
Proof.
  induction cs as [|c cs IH]; intros n rest nlc Hf Hnl.
  - exists ([], false). split; [reflexivity|]. cbn [app tokens]. rewrite Hnl. reflexivity.
  - inversion Hf as [|? ? Hc Hf']; subst.
    destruct (IH n rest nlc Hf' Hnl) as (l & Pl & Tl).
    destruct cs as [|d cs'].
    + (* c is the last character of the line *)
      cbn [app tokens]. rewrite Hc, Hnl. unfold prep_line. cbn [rev app].
      destruct (is_bs c) eqn:Eb.
      * exists ([], true). split; [reflexivity|]. reflexivity.
      * exists ([c], false). split; [reflexivity|]. reflexivity.
    + rewrite prep_cons by discriminate. rewrite Pl. cbn [option_map].
      exists (c :: fst l, snd l). split; [reflexivity|].
      assert (Hd : is_nl d = false) by (inversion Hf'; assumption).
      change ((c :: d :: cs') ++ nlc :: rest) with (c :: (d :: cs') ++ nlc :: rest).
      cbn [tokens]. rewrite Hc.
      destruct (is_bs c) eqn:Eb.
      * cbn [app]. rewrite Hd. change (d :: cs' ++ nlc :: rest) with ((d :: cs') ++ nlc :: rest). rewrite Tl.
        unfold line_tokens. cbn [fst snd map app]. rewrite (classify_bs _ Eb). reflexivity.
      * rewrite Tl. unfold line_tokens. cbn [fst snd map app]. reflexivity.
Qed.

Lemma raw_line cs : forall cur rest nlc, nl_free cs -> is_nl nlc = true ->
  raw_lines_aux cur (cs ++ nlc :: rest) = (rev cur ++ cs, true) :: raw_lines_aux [] rest.
Proof.
  induction cs as [|c cs IH]; intros cur rest nlc Hf Hnl; cbn [app raw_lines_aux].
  - unfold is_nl in Hnl. rewrite Hnl, app_nil_r. reflexivity.
  - inversion Hf as [|? ? Hc Hf']; subst. unfold is_nl in Hc. rewrite Hc.
    rewrite IH by assumption. cbn [rev]. rewrite <- app_assoc. reflexivity.
Qed.

(* ---------- splitting a newline-terminated text at its first newline ---------- *)
Lemma split_first_nl t : t <> [] -> ends_nl t = true ->
  exists cs nlc rest, t = cs ++ nlc :: rest /\ nl_free cs /\ is_nl nlc = true /\ ends_nl rest = true.
Proof.
  induction t as [|c t IH]; intros Hne He; [congruence|].
  destruct (is_nl c) eqn:Ec.
  - exists [], c, t. repeat split; auto; [constructor|].
    unfold ends_nl in *. cbn [rev] in He. destruct (rev t) as [|x r]; [reflexivity|]. exact He.
  - destruct t as [|d t'].
    + unfold ends_nl in He. cbn in He. congruence.
    + assert (He' : ends_nl (d :: t') = true).
      { unfold ends_nl in *. cbn [rev] in *. destruct (rev t' ++ [d]) as [|x r] eqn:E.
        - destruct (rev t'); discriminate E.
        - exact He. }
      destruct (IH ltac:(discriminate) He') as (cs & nlc & rest & E & Hf & Hn & Hr).
      exists (c :: cs), nlc, rest. rewrite E. repeat split; auto. constructor; assumption.
Qed.

Theorem tokens_lines : forall t, ends_nl t = true ->
  exists ls, plines_of_text t = Some ls /\ forall n, tokens n t = lines_tokens n ls.
Proof.
  intros t. remember (length t) as k eqn:Ek. revert t Ek.
  induction k as [k IHk] using lt_wf_ind. intros t Ek He.
  destruct t as [|c0 t0] eqn:Et.
  - exists []. split; [reflexivity|]. reflexivity.
  - rewrite <- Et in *. assert (Hne : t <> []) by (rewrite Et; discriminate).
    destruct (split_first_nl t Hne He) as (cs & nlc & rest & E & Hf & Hn & Hr).
    assert (Hlen : length rest < k) by (rewrite Ek, E, app_length; cbn; lia).
    destruct (IHk _ Hlen rest eq_refl Hr) as (ls & Pls & Tls).
    destruct (tokens_line cs 1 rest nlc Hf Hn) as (l & Pl & _).
    exists (l :: ls). split.
    + unfold plines_of_text, raw_lines in *. rewrite E, (raw_line cs [] rest nlc Hf Hn).
      cbn [rev app prep_lines]. rewrite Pl, Pls. reflexivity.
    + intros n. destruct (tokens_line cs n rest nlc Hf Hn) as (l' & Pl' & Tl').
      rewrite Pl in Pl'. injection Pl' as <-. rewrite E, Tl', Tls. reflexivity.
Qed.

(* S on the raw text = S on the physical lines *)
Theorem F_scan_eq t : ends_nl t = true ->
  exists ls, plines_of_text t = Some ls /\ F_scan t = S_scan (cls_lines ls).
Proof.
  intros He. destruct (tokens_lines t He) as (ls & P & T). exists ls. split; [exact P|].
  unfold F_scan, S_scan. rewrite T, fold_lines. reflexivity.
Qed.
Print Assumptions F_scan_eq.
