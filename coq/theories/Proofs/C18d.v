(* C18 — the database level (load_database / ArgumentParser) and the whole run. *)
From Coq Require Import Bool Arith ZArith Ascii String List Lia.
From CBI Require Import Lib.Res Lib.C18_str Model.C01 Spec.C01 Model.C04 Spec.C04 Model.C18 Spec.C18
                        Gen.C18_tables Spec.C18t Model.C18i Proofs.C01 Proofs.C04 Proofs.C18s Proofs.C18.
Import ListNotations.
Local Open Scope string_scope.
Local Open Scope list_scope.

Lemma filter_nil_all {A} (f : A -> bool) l : filter f l = [] -> forall x, In x l -> f x = false.
Proof.
  induction l as [|y l IH]; cbn; [intros _ x []|]. destruct (f y) eqn:E; [discriminate|].
  intros H x [->|Hx]; [exact E|apply IH; assumption].
Qed.
Lemma existsb_false_all {A} (f : A -> bool) l : (forall x, In x l -> f x = false) -> existsb f l = false.
Proof.
  intros H. destruct (existsb f l) eqn:E; [|reflexivity]. apply existsb_exists in E.
  destruct E as (x & Hx & Hf). rewrite (H x Hx) in Hf. discriminate.
Qed.

Section Scan.
Variable opts : list (string * bool).
Notation optv := optional_value.
Notation grps := flag_groups.

Lemma scan_cons_plain t r n : plain_tok optv opts t = true ->
  scan optv grps opts None n (t :: r) =
    if starts_dash t then
      if separate_arg opts t then
        match find (fun o : string * bool => (fst o =? t)%string) opts with
        | Some (f, _) => scan optv grps opts (Some (f, n)) (S n) r
        | None => SOk []
        end
      else if registered optv opts t then scan optv grps opts None (S n) r
      else match scan optv grps opts None (S n) r with SOk l => SOk (t :: l) | e => e end
    else scan optv grps opts None (S n) r.
Proof.
  intros Hp. cbn [scan]. unfold classify_tok. unfold plain_tok in Hp.
  destruct (starts_dash t) eqn:Ed; cbn [negb] in *; [|reflexivity].
  destruct (find (fun o : string * bool => (fst o =? t)%string) opts) as [[f b]|] eqn:Ef.
  - apply eqb_prop in Hp. subst b.
    assert (Hex : existsb (fun o : string * bool => (fst o =? t)%string) opts = true).
    { apply find_some in Ef. apply existsb_exists. exists (f, separate_arg opts t). exact Ef. }
    destruct (separate_arg opts t); [reflexivity|]. unfold registered. rewrite Hex. reflexivity.
  - assert (Hno : forall x, In x opts -> (fst x =? t)%string = false) by (intros x; apply (find_none _ _ Ef)).
    assert (Hsep : separate_arg opts t = false).
    { unfold separate_arg. apply existsb_false_all. intros x Hx. rewrite (Hno x Hx). reflexivity. }
    assert (Hexact : existsb (fun o : string * bool => (fst o =? t)%string) opts = false) by (apply existsb_false_all; exact Hno).
    rewrite Hsep. unfold registered. rewrite Hexact. cbn [orb].
    destruct (double_dash t).
    + destruct (filter (fun o : string * bool => Nat.eqb (String.length (fst o)) 2 && String.prefix (fst o) t) opts) as [|x xs] eqn:Es; [|discriminate].
      rewrite existsb_false_all; [reflexivity|]. intros x Hx.
      pose proof (filter_nil_all _ _ Es x Hx) as Hf. cbn beta in Hf.
      rewrite <- andb_assoc, Hf. apply andb_false_r.
    + destruct (tok_matches opts t) as [|[f0 takes] [|y ys]] eqn:Es; try discriminate.
      * rewrite existsb_false_all; [reflexivity|]. intros x Hx.
        pose proof (filter_nil_all _ _ Es x Hx) as Hf. cbn beta in Hf.
        apply orb_false_iff in Hf. destruct Hf as [Hf _].
        rewrite <- andb_assoc, Hf. apply andb_false_r.
      * apply andb_prop in Hp. destruct Hp as [Hl Hg]. cbn [fst] in Hl. rewrite Hl, Hg.
        assert (Hin : In (f0, takes) (tok_matches opts t)) by (rewrite Es; left; reflexivity).
        unfold tok_matches in Hin. apply filter_In in Hin. destruct Hin as [Hin Hpred]. cbn [fst] in Hpred.
        assert (Hpre : String.prefix f0 t = true).
        { apply orb_prop in Hpred. destruct Hpred as [H|H]; [apply andb_prop in H; apply H|].
          (* t is a prefix of the two-character flag f0 and t has at least two characters: t = f0, an exact match *)
          exfalso. clear - H Hl Ed Hno Hin.
          assert (t = f0); [|subst; pose proof (Hno _ Hin) as X; cbn [fst] in X; rewrite String.eqb_refl in X; discriminate].
          destruct t as [|a [|b t']]; try discriminate. destruct f0 as [|a' [|b' [|c f']]]; try discriminate.
          cbn in H. destruct (ascii_dec a a'); [|discriminate]. destruct (ascii_dec b b'); [|discriminate].
          subst. destruct t'; [reflexivity|discriminate]. }
        assert (existsb (fun o : string * bool => glue_ok optv o && Nat.eqb (String.length (fst o)) 2 && String.prefix (fst o) t) opts = true).
        { apply existsb_exists. exists (f0, takes). split; [exact Hin|]. cbn [fst]. rewrite Hg, Hl, Hpre. reflexivity. }
        rewrite H. reflexivity.
Qed.

Lemma scan_spec m : forall toks n, List.length toks <= m ->
  forallb (plain_tok optv opts) toks = true -> args_complete opts toks = true ->
  scan optv grps opts None n toks = SOk (unknown_options optv opts toks).
Proof.
  induction m as [m IH] using lt_wf_ind. intros toks n Hlen Hp Hc.
  destruct toks as [|t r]; [reflexivity|].
  cbn [forallb] in Hp. apply andb_prop in Hp. destruct Hp as [Ht Hr].
  rewrite (scan_cons_plain t r n Ht). cbn [unknown_options args_complete] in *. cbn [List.length] in Hlen.
  destruct (starts_dash t).
  - destruct (separate_arg opts t) eqn:Es; cbn [andb] in Hc.
    + destruct r as [|a r']; [discriminate|]. apply andb_prop in Hc. destruct Hc as [Ha Hc].
      destruct (find (fun o : string * bool => (fst o =? t)%string) opts) as [[f b]|] eqn:Ef.
      * cbn [scan]. apply negb_true_iff in Ha. rewrite Ha.
        cbn [forallb] in Hr. apply andb_prop in Hr. destruct Hr as [_ Hr'].
        cbn [List.length] in Hlen. apply (IH (List.length r')); [lia|lia|exact Hr'|exact Hc].
      * exfalso. unfold separate_arg in Es. apply existsb_exists in Es. destruct Es as (x & Hx & He).
        apply andb_prop in He. destruct He as [He _]. rewrite (find_none _ _ Ef x Hx) in He. discriminate.
    + destruct (registered optv opts t).
      * apply (IH (List.length r)); [lia|lia|exact Hr|exact Hc].
      * rewrite (IH (List.length r) ltac:(lia) r (S n) ltac:(lia) Hr Hc). reflexivity.
  - cbn [andb] in Hc. apply (IH (List.length r)); [lia|lia|exact Hr|exact Hc].
Qed.

(* plain tokens are never ambiguous *)
Lemma plain_not_ambiguous toks : forallb (plain_tok optv opts) toks = true -> first_ambiguous optv grps opts toks = None.
Proof.
  induction toks as [|t r IH]; [reflexivity|]. cbn [forallb first_ambiguous]. intros H.
  apply andb_prop in H. destruct H as [Ht Hr]. rewrite (IH Hr).
  unfold classify_tok. unfold plain_tok in Ht. destruct (starts_dash t); cbn [negb] in *; [|reflexivity].
  destruct (find (fun o : string * bool => (fst o =? t)%string) opts) as [[f [|]]|]; try reflexivity.
  destruct (double_dash t); [reflexivity|].
  destruct (tok_matches opts t) as [|[f0 takes] [|y ys]]; try reflexivity; try discriminate.
  destruct (Nat.eqb (String.length f0) 2); [destruct (glue_ok optv (f0, takes)); reflexivity|destruct takes; reflexivity].
Qed.
End Scan.

(* ---------- one database entry ---------- *)
Definition db_step_G := db_step base_options compilers source_extensions optional_value flag_groups.
Definition entry_ok (fs : fsys) (e : dbentry) : bool :=
  negb (usable source_extensions fs e)
  || (forallb (plain_tok optional_value (opts_of base_options compilers e)) (toks_of compilers e)
      && args_complete (opts_of base_options compilers e) (toks_of compilers e)).

Lemma find_compiler_known name l :
  existsb (fun c : string * option string * list string * list (string * bool) * nat => (fst (fst (fst (fst c))) =? name)%string) l
  = match find_compiler name l with Some _ => true | None => false end.
Proof.
  induction l as [|[[[[n a] o] f] k] l IH]; [reflexivity|]. cbn [existsb find_compiler fst].
  destruct (n =? name)%string; [reflexivity|exact IH].
Qed.

Lemma db_step_spec fs e : entry_ok fs e = true ->
  exists ws, db_step_G fs e = Ok (ws, if usable source_extensions fs e then repeat (entry_of e) (passes_of compilers e) else [])
             /\ map sev_of_wrec ws = db_events base_options compilers source_extensions optional_value fs e.
Proof.
  unfold entry_ok, db_step_G, db_step, db_events, usable, opts_of, toks_of, passes_of.
  destruct (db_argv0 e) as [a|]; [|intros _; eexists; split; reflexivity].
  destruct (is_source source_extensions (db_file e)); cbn [negb andb orb]; [|intros _; eexists; split; reflexivity].
  destruct (isfile fs (db_file e)); cbn [negb andb orb]; [|intros _; eexists; split; reflexivity].
  intros H. apply andb_prop in H. destruct H as [Hp Hc].
  destruct (resolve compilers (List.length compilers) (basename a)) as [[defaults flags] extra]. cbn [fst snd] in *.
  unfold parse_argv. rewrite (plain_not_ambiguous _ _ Hp), (scan_spec _ _ _ 0 (le_n _) Hp Hc). rewrite find_compiler_known.
  eexists. split; [reflexivity|]. rewrite map_app.
  destruct (find_compiler (basename a) compilers); destruct (unknown_options optional_value (base_options ++ flags) (argv_tokens e ++ defaults)); reflexivity.
Qed.

Lemma db_steps_spec fs l : forallb (entry_ok fs) l = true ->
  exists ws, db_steps base_options compilers source_extensions optional_value flag_groups fs l = Ok (ws, db_units compilers source_extensions fs l)
             /\ map sev_of_wrec ws = flat_map (db_events base_options compilers source_extensions optional_value fs) l.
Proof.
  induction l as [|e l IH]; cbn [forallb db_steps]; [intros _; eexists; split; reflexivity|].
  intros H. apply andb_prop in H. destruct H as [He Hl].
  destruct (db_step_spec fs e He) as (w & Hw & Hs). fold db_step_G. rewrite Hw.
  destruct (IH Hl) as (w' & -> & Hs'). eexists. split; [reflexivity|].
  rewrite map_app, Hs, Hs'. reflexivity.
Qed.

Definition platform_ok (fs : fsys) (pl : string * list dbentry) : bool := forallb (entry_ok fs) (snd pl).

Lemma load_dbs_spec fs pls : forallb (platform_ok fs) pls = true ->
  exists ws ess, load_dbs base_options compilers source_extensions optional_value flag_groups fs pls = Ok (ws, ess)
    /\ concat ess = flat_map (fun pl => db_units compilers source_extensions fs (snd pl)) pls
    /\ map sev_of_wrec ws = flat_map (platform_events base_options compilers source_extensions optional_value fs) pls.
Proof.
  induction pls as [|[db l] pls IH]; cbn [forallb load_dbs]; [intros _; exists [], []; repeat split|].
  intros H. apply andb_prop in H. destruct H as [Hp Hr]. unfold platform_ok in Hp. cbn [snd] in Hp.
  unfold load_db. destruct (db_steps_spec fs l Hp) as (w & -> & Hs).
  destruct (IH Hr) as (w' & ess & -> & Hc & Hs'). eexists. eexists. split; [reflexivity|]. split.
  - cbn [concat flat_map snd]. rewrite Hc. reflexivity.
  - cbn [flat_map]. rewrite !map_app, Hs, Hs'. unfold platform_events. cbn [fst snd].
    destruct (db_units compilers source_extensions fs l); reflexivity.
Qed.

(* ---------- the whole run ---------- *)
Lemma cfs_get_fs c f cf : cfs_get c f = Some cf -> fs_get (fs_of c) f = Some (cf_lines cf).
Proof.
  induction c as [|[q g] c IH]; [discriminate|]. cbn [cfs_get fs_of map fs_get fst snd].
  destruct (path_eqb f q); [intros H; inversion H; reflexivity|exact IH].
Qed.

Lemma structured_builds c files : fs_structured (fs_of c) -> first_build_error c files = None.
Proof.
  intros Hfs. induction files as [|f r IH]; [reflexivity|]. cbn [first_build_error].
  destruct (cfs_get c f) as [cf|] eqn:E; [|exact IH].
  destruct (Hfs f _ (cfs_get_fs c f cf E)) as (its & ->). rewrite build_flats. exact IH.
Qed.

Lemma parse_all_spec c files :
  map sev_of_wrec (parse_all unhandled c files) = flat_map (directive_events c) files.
Proof.
  induction files as [|f r IH]; [reflexivity|]. unfold parse_all in *. cbn [flat_map]. rewrite map_app, IH. f_equal.
  unfold directive_events. destruct (cfs_get c f); [apply parse_warnings_spec|reflexivity].
Qed.

Definition run_ok (c : cfs) (pls : list (string * list dbentry)) : bool := forallb (platform_ok (fs_of c)) pls.
Definition units_of (c : cfs) (pls : list (string * list dbentry)) : list entry :=
  flat_map (fun pl => db_units compilers source_extensions (fs_of c) (snd pl)) pls.

Lemma forced_spec fs es :
  map sev_of_wrec (flat_map (forced_warnings fs) es) = flat_map (forced_missing fs) es.
Proof.
  induction es as [|e es IH]; [reflexivity|]. cbn [flat_map]. rewrite map_app, IH. f_equal.
  unfold forced_warnings, forced_missing. induction (e_incs e) as [|n r IHr]; [reflexivity|].
  cbn [flat_map]. rewrite map_app, IHr. destruct (search fs (e_dirs e) (n, dirname (e_file e), false)); reflexivity.
Qed.

Theorem events_partial c fuel cb pls l :
  fs_structured (fs_of c) -> run_ok c pls = true ->
  find_S c fuel cb pls = Ok l ->
  exists o, find_M c fuel cb pls = Ok o /\
            l = map sev_of_wrec (all_records o).
Proof.
  intros Hfs Hok. unfold find_S, find_M, run_find_S, run_find_M, units_of.
  destruct (load_dbs_spec (fs_of c) pls Hok) as (ws & ess & -> & Hc & Hs). rewrite Hc.
  set (es := flat_map (fun pl => db_units compilers source_extensions (fs_of c) (snd pl)) pls).
  destruct (commands_complete base_options compilers source_extensions (fs_of c) pls); cbn [negb]; [|discriminate].
  destruct (run_entries_S (fs_of c) fuel es) as [[evs vis]|x] eqn:E; [|discriminate].
  rewrite (structured_builds c _ Hfs), (run_entries_sim (fs_of c) Hfs fuel es evs vis E).
  intros H; inversion H; subst l. eexists. split; [reflexivity|].
  unfold all_records. cbn [o_db o_parse o_inc o_forced]. rewrite !map_app, Hs, parse_all_spec, map_map.
  rewrite forced_spec. reflexivity.
Qed.

(* fully honoured input: no record at all, and nothing is printed at the end *)
Theorem silent c fuel cb pls :
  fs_structured (fs_of c) -> run_ok c pls = true ->
  find_S c fuel cb pls = Ok [] ->
  exists o, find_M c fuel cb pls = Ok o /\ all_records o = [] /\ closing_M o = ([], [0; 0; 0]).
Proof.
  intros Hfs Hok H. destruct (events_partial c fuel cb pls [] Hfs Hok H) as (o & Ho & Hl).
  exists o. split; [exact Ho|]. symmetry in Hl.
  apply map_eq_nil in Hl. split; [exact Hl|]. unfold closing_M. rewrite Hl. reflexivity.
Qed.

(* ---------- an input that IS dropped silently ---------- *)
Definition forced_witness_c : cfs := [(["B"; "src"; "a.c"], {| cf_lines := []; cf_unk := [] |})].
Definition abbrev_witness_pls : list (string * list dbentry) :=
  [("P0.json", [{| db_file := ["B"; "src"; "a.c"]; db_argv0 := Some "clang++"; db_args := [CRaw "-fsycl"] |}])].
Lemma abbreviation_refuted :
  exists c pls o, fs_structured (fs_of c) /\ run_ok c pls = false /\
    find_S c 5 (codebase_of c) pls = Ok [SUnknownArgs ["-fsycl"]] /\
    find_M c 5 (codebase_of c) pls = Ok o /\ all_records o = [].
Proof.
  exists forced_witness_c, abbrev_witness_pls. eexists. split.
  - intros p ls. cbn. destruct (path_eqb p ["B"; "src"; "a.c"]); [|discriminate].
    intros H; inversion H. exists []. reflexivity.
  - split; [vm_compute; reflexivity|]. split; [vm_compute; reflexivity|]. split; vm_compute; reflexivity.
Qed.

(* ---------- the printed totals are the specification's totals ---------- *)
Lemma totals_S_map ws :
  totals_S (map sev_of_wrec ws) =
  (List.length ws, List.length (filter is_user_rec ws), List.length (filter is_system_rec ws)).
Proof.
  unfold totals_S. rewrite map_length. f_equal; [f_equal|].
  - induction ws as [|w ws IH]; [reflexivity|]. cbn [map filter].
    assert (E : is_user (sev_of_wrec w) = is_user_rec w) by (destruct w; try reflexivity; cbn; destruct (ev_angle e); reflexivity).
    rewrite E. destruct (is_user_rec w); cbn [List.length]; rewrite IH; reflexivity.
  - induction ws as [|w ws IH]; [reflexivity|]. cbn [map filter].
    assert (E : is_system (sev_of_wrec w) = is_system_rec w) by (destruct w; try reflexivity; cbn; destruct (ev_angle e); reflexivity).
    rewrite E. destruct (is_system_rec w); cbn [List.length]; rewrite IH; reflexivity.
Qed.

Theorem end_to_end c fuel cb pls l :
  fs_structured (fs_of c) -> run_ok c pls = true ->
  find_S c fuel cb pls = Ok l ->
  exists o, find_M c fuel cb pls = Ok o /\ l = map sev_of_wrec (all_records o) /\
    (forallb clean (all_records o) = true ->
     let '(n, u, s) := totals_S l in
     fst (closing_M o) = line_if n text1 ++ line_if u text2 ++ line_if s text3).
Proof.
  intros Hfs Hok H. destruct (events_partial c fuel cb pls l Hfs Hok H) as (o & Ho & Hl).
  exists o. split; [exact Ho|]. split; [exact Hl|]. intros Hc. subst l. rewrite totals_S_map.
  unfold closing_M. rewrite (totals_printed _ Hc). reflexivity.
Qed.
