(* C02 proofs, part 3: integer constants and character constants.
   M's readers (prefix table, suffix stripping over the generated suffix list, the model of
   Python's int(str, base), np.int64/np.uint64 range checks) agree with S's readers (ISO C
   6.4.4.1 / 6.4.4.4) wherever S is defined - except on the known finding class. *)
From Coq Require Import ZArith Bool String Ascii List Lia ZifyBool.
From CBI Require Import Lib.Data Gen.C02_tables Model.C02 Spec.C02.
Import ListNotations.
Local Open Scope Z_scope.

(* ------------------------------------------------------------------ strings *)
Lemma los_app a b : list_of_string (a ++ b)%string = list_of_string a ++ list_of_string b.
Proof. induction a as [|c a IH]; cbn; [reflexivity|]. rewrite IH. reflexivity. Qed.
Lemma sol_los s : string_of_list (list_of_string s) = s.
Proof. induction s as [|c s IH]; cbn; [reflexivity|]. rewrite IH. reflexivity. Qed.
Lemma los_length s : List.length (list_of_string s) = String.length s.
Proof. induction s as [|c s IH]; cbn; [reflexivity|]. rewrite IH. reflexivity. Qed.

(* ------------------------------------------------------------------ digits: int(str, base) = Horner *)
Record dig_ok (dig : ascii -> option Z) (base : Z) : Prop := {
  dig_val : forall c d, dig c = Some d -> digit_val c = Some d /\ 0 <= d < base;
  dig_us : forall c d, dig c = Some d -> is_us c = false;
  dig_letter : forall c d, dig c = Some d -> base_letter base c = false;
}.

Ltac digtac :=
  unfold dec_digit, oct_digit, bin_digit, hex_digit, hexval, digit_val, is_us, base_letter;
  intros c d; set (n := zascii c);
  repeat match goal with |- context [if ?b then _ else _] => destruct b eqn:? end;
  intros H; inversion H; subst; cbn [Z.eqb]; repeat split; try reflexivity; try lia.

Lemma dec_ok : dig_ok dec_digit 10.
Proof. split; digtac. Qed.
Lemma oct_ok : dig_ok oct_digit 8.
Proof. split; digtac. Qed.
Lemma bin_ok : dig_ok bin_digit 2.
Proof. split; digtac. Qed.
Lemma hex_ok : dig_ok hex_digit 16.
Proof. split; digtac. Qed.

Section Horner.
Variable dig : ascii -> option Z.
Variable base : Z.
Hypothesis OK : dig_ok dig base.
Hypothesis Bpos : 0 < base.

Lemma scan_horner ds : forall acc seen n,
  horner dig base acc ds = Some n -> (ds <> [] \/ seen = true) ->
  scan_digits base false seen acc ds = Some n.
Proof.
  induction ds as [|c r IH]; intros acc seen n H Hne; cbn [horner scan_digits] in *.
  - destruct Hne as [Hne| ->]; [congruence|exact H].
  - destruct (dig c) as [d|] eqn:D; [|discriminate].
    rewrite (dig_us _ _ OK c d D). destruct (dig_val _ _ OK c d D) as [-> Hd].
    replace (d <? base) with true by lia. apply IH; [exact H|right; reflexivity].
Qed.

Lemma horner_nonneg ds : forall acc n, horner dig base acc ds = Some n -> 0 <= acc -> 0 <= n.
Proof.
  induction ds as [|c r IH]; intros acc n H Ha; cbn [horner] in H.
  - inversion H; subst; exact Ha.
  - destruct (dig c) as [d|] eqn:D; [|discriminate]. destruct (dig_val _ _ OK c d D) as [_ Hd].
    apply (IH _ _ H). nia.
Qed.

Lemma py_int_horner ds n : digits_value dig base ds = Some n -> py_int ds base = Some n /\ 0 <= n.
Proof.
  unfold digits_value. destruct ds as [|c r]; [discriminate|]. intros H. split; [|apply (horner_nonneg _ _ _ H); lia].
  assert (Hc : exists d, dig c = Some d).
  { cbn [horner] in H. destruct (dig c) as [d|]; [eauto|discriminate]. }
  destruct Hc as [d D].
  unfold py_int.
  assert (P : match c :: r with
              | z :: x :: r0 => if (zascii z =? 48) && base_letter base x
                                then match r0 with u :: r' => if is_us u then r' else r0 | [] => r0 end
                                else c :: r
              | _ => c :: r end = c :: r).
  { destruct r as [|x r0]; [reflexivity|].
    assert (Hx : exists dx, dig x = Some dx).
    { cbn [horner] in H. rewrite D in H. destruct (dig x) as [dx|]; [eauto|discriminate]. }
    destruct Hx as [dx Dx]. rewrite (dig_letter _ _ OK x dx Dx), andb_false_r. reflexivity. }
  rewrite P. rewrite (dig_us _ _ OK c d D). apply scan_horner; [exact H|left; discriminate].
Qed.

Lemma digits_last ds n : digits_value dig base ds = Some n ->
  exists d rb k, rev ds = d :: rb /\ dig d = Some k.
Proof.
  unfold digits_value. destruct ds as [|c r]; [discriminate|]. intros H.
  assert (A : forall l acc m, horner dig base acc l = Some m -> forall x, In x l -> exists k, dig x = Some k).
  { induction l as [|y l IH]; intros acc m Hm x Hx; [destruct Hx|].
    cbn [horner] in Hm. destruct (dig y) as [k|] eqn:Dy; [|discriminate].
    destruct Hx as [->|Hx]; [eauto|exact (IH _ _ Hm x Hx)]. }
  destruct (rev (c :: r)) as [|d rb] eqn:R.
  - apply (f_equal (@List.length ascii)) in R. rewrite rev_length in R. discriminate.
  - assert (I : In d (c :: r)). { apply in_rev. rewrite R. left. reflexivity. }
    destruct (A _ _ _ H d I) as [k K]. eauto.
Qed.
End Horner.

(* ------------------------------------------------------------------ suffix stripping *)
Definition sfx_char (c : ascii) : bool :=
  (Ascii.eqb "u" c || Ascii.eqb "U" c || Ascii.eqb "l" c || Ascii.eqb "L" c)%char.

Lemma digit_not_sfx c d : digit_val c = Some d -> d < 16 -> sfx_char c = false.
Proof.
  intros H L. unfold sfx_char.
  destruct (Ascii.eqb_spec "u"%char c) as [<-|_]; [vm_compute in H; inversion H; subst; lia|].
  destruct (Ascii.eqb_spec "U"%char c) as [<-|_]; [vm_compute in H; inversion H; subst; lia|].
  destruct (Ascii.eqb_spec "l"%char c) as [<-|_]; [vm_compute in H; inversion H; subst; lia|].
  destruct (Ascii.eqb_spec "L"%char c) as [<-|_]; [vm_compute in H; inversion H; subst; lia|].
  reflexivity.
Qed.

(* the stripping step of term(), on the reversed value *)
Definition strip (value : list ascii) : option string * list ascii :=
  match first_suffix value literal_suffixes with
  | Some s => (Some s, rev (skipn (String.length s) (rev value)))
  | None => (None, value)
  end.

Lemma strip_legal sfx : In sfx legal_suffixes ->
  forall ds d rb, rev ds = d :: rb -> sfx_char d = false ->
  strip (ds ++ list_of_string sfx) = (if String.eqb sfx "" then None else Some sfx, ds).
Proof.
  intros Hin ds d rb R Hd. unfold sfx_char in Hd.
  apply orb_false_iff in Hd. destruct Hd as [Hd HL]. apply orb_false_iff in Hd. destruct Hd as [Hd Hl].
  apply orb_false_iff in Hd. destruct Hd as [Hu HU].
  assert (RV : forall l, rev (ds ++ l) = rev l ++ d :: rb) by (intros l; rewrite rev_app_distr, R; reflexivity).
  assert (DS : ds = rev (d :: rb)) by (rewrite <- R, rev_involutive; reflexivity).
  unfold strip, first_suffix, literal_suffixes, ends_with.
  cbn [In legal_suffixes] in Hin.
  repeat (destruct Hin as [<-|Hin];
          [ rewrite RV; cbn [list_of_string rev app starts_with String.length skipn];
            rewrite ?Hu, ?HU, ?Hl, ?HL; cbn [andb String.eqb Ascii.eqb Bool.eqb];
            rewrite ?app_nil_r; try (rewrite DS; reflexivity); reflexivity | ]).
  destruct Hin.
Qed.

(* ------------------------------------------------------------------ integer constants *)
Lemma has_marker_legal sfx : In sfx legal_suffixes -> has_marker sfx = suffix_unsigned sfx.
Proof.
  intros Hin. cbn [In legal_suffixes] in Hin.
  repeat (destruct Hin as [<-|Hin]; [vm_compute; reflexivity|]). destruct Hin.
Qed.

(* base selection + digits, for a body that S accepts *)
Lemma body_split body rdx n :
  body_value body = Some (rdx, n) ->
  exists base ds d rb,
    (forall tail,
       (forall t1 tl, tail = t1 :: tl -> sfx_char t1 = true) ->
       match lookup (string_of_list (firstn 2 (list_of_string body ++ tail))) literal_bases with
       | Some b => (b, skipn 2 (list_of_string body ++ tail))
       | None =>
           match literal_zero_rule with
           | Some (p, zb) => if starts_with (list_of_string p) (list_of_string body ++ tail)
                             then (zb, list_of_string body ++ tail) else (literal_default_base, list_of_string body ++ tail)
           | None => (literal_default_base, list_of_string body ++ tail)
           end
       end = (base, ds ++ tail)) /\
    py_int ds base = Some n /\ 0 <= n /\ rev ds = d :: rb /\ sfx_char d = false.
Proof.
  unfold body_value. destruct (list_of_string body) as [|z [|x r]] eqn:LB; [discriminate| |].
  - (* one character *)
    destruct (Ascii.eqb_spec z "0"%char) as [->|Nz].
    + intros H. inversion H; subst. exists 8, ["0"%char], "0"%char, []. split; [|repeat split; try reflexivity; lia].
      intros tail Ht. destruct tail as [|t1 tl]; [reflexivity|].
      specialize (Ht t1 tl eq_refl). unfold sfx_char in Ht.
      cbn [app firstn string_of_list lookup literal_bases String.eqb].
      destruct (Ascii.eqb_spec "u"%char t1) as [<-|_]; [reflexivity|].
      destruct (Ascii.eqb_spec "U"%char t1) as [<-|_]; [reflexivity|].
      destruct (Ascii.eqb_spec "l"%char t1) as [<-|_]; [reflexivity|].
      destruct (Ascii.eqb_spec "L"%char t1) as [<-|_]; [reflexivity|]. discriminate Ht.
    + intros H. destruct (digits_value dec_digit 10 [z]) as [m|] eqn:D; [|discriminate]. inversion H; subst.
      destruct (py_int_horner _ _ dec_ok eq_refl _ _ D) as [P N].
      destruct (digits_last _ _ _ _ D) as (d & rb & k & R & K).
      destruct (dig_val _ _ dec_ok d k K) as [DV DR].
      exists 10, [z], d, rb. split; [|repeat split; try assumption; apply (digit_not_sfx d k DV); lia].
      intros tail Ht.
      assert (E : Ascii.eqb z "0" = false) by (apply Ascii.eqb_neq; exact Nz).
      assert (E' : Ascii.eqb "0" z = false) by (rewrite Ascii.eqb_sym; exact E).
      destruct tail as [|t1 tl]; cbn [app firstn string_of_list lookup literal_bases String.eqb literal_zero_rule list_of_string starts_with];
        rewrite ?E, ?E'; cbn [andb]; reflexivity.
  - (* at least two characters *)
    assert (F2 : forall tail, firstn 2 ((z :: x :: r) ++ tail) = [z; x]) by reflexivity.
    destruct (Ascii.eqb_spec z "0"%char) as [->|Nz].
    + destruct (Ascii.eqb x "x" || Ascii.eqb x "X")%char eqn:HX.
      * (* hexadecimal *)
        intros H. destruct (digits_value hex_digit 16 r) as [m|] eqn:D; [|discriminate]. inversion H; subst.
        destruct (py_int_horner _ _ hex_ok eq_refl _ _ D) as [P N].
        destruct (digits_last _ _ _ _ D) as (d & rb & k & R & K).
        destruct (dig_val _ _ hex_ok d k K) as [DV DR].
        exists 16, r, d, rb. split; [|repeat split; try assumption; apply (digit_not_sfx d k DV); lia].
        intros tail Ht. rewrite F2.
        apply orb_true_iff in HX. destruct HX as [HX|HX]; apply Ascii.eqb_eq in HX; subst x; reflexivity.
      * destruct (Ascii.eqb x "b" || Ascii.eqb x "B")%char eqn:HB.
        -- (* binary *)
           intros H. destruct (digits_value bin_digit 2 r) as [m|] eqn:D; [|discriminate]. inversion H; subst.
           destruct (py_int_horner _ _ bin_ok eq_refl _ _ D) as [P N].
           destruct (digits_last _ _ _ _ D) as (d & rb & k & R & K).
           destruct (dig_val _ _ bin_ok d k K) as [DV DR].
           exists 2, r, d, rb. split; [|repeat split; try assumption; apply (digit_not_sfx d k DV); lia].
           intros tail Ht. rewrite F2.
           apply orb_true_iff in HB. destruct HB as [HB|HB]; apply Ascii.eqb_eq in HB; subst x; reflexivity.
        -- (* octal *)
           intros H. destruct (digits_value oct_digit 8 ("0"%char :: x :: r)) as [m|] eqn:D; [|discriminate]. inversion H; subst.
           destruct (py_int_horner _ _ oct_ok eq_refl _ _ D) as [P N].
           destruct (digits_last _ _ _ _ D) as (d & rb & k & R & K).
           destruct (dig_val _ _ oct_ok d k K) as [DV DR].
           exists 8, ("0"%char :: x :: r), d, rb. split; [|repeat split; try assumption; apply (digit_not_sfx d k DV); lia].
           intros tail Ht. rewrite F2.
           apply orb_false_iff in HX. destruct HX as [HX1 HX2]. apply orb_false_iff in HB. destruct HB as [HB1 HB2].
           cbn [string_of_list lookup literal_bases String.eqb Ascii.eqb Bool.eqb].
           rewrite HX1, HX2, HB1, HB2. reflexivity.
    + (* decimal *)
      intros H. destruct (digits_value dec_digit 10 (z :: x :: r)) as [m|] eqn:D; [|discriminate]. inversion H; subst.
      destruct (py_int_horner _ _ dec_ok eq_refl _ _ D) as [P N].
      destruct (digits_last _ _ _ _ D) as (d & rb & k & R & K).
      destruct (dig_val _ _ dec_ok d k K) as [DV DR].
      exists 10, (z :: x :: r), d, rb. split; [|repeat split; try assumption; apply (digit_not_sfx d k DV); lia].
      intros tail Ht. rewrite F2.
      assert (E : Ascii.eqb z "0" = false) by (apply Ascii.eqb_neq; exact Nz).
      assert (E' : Ascii.eqb "0" z = false) by (rewrite Ascii.eqb_sym; exact E).
      cbn [string_of_list lookup literal_bases String.eqb literal_zero_rule list_of_string starts_with app].
      rewrite ?E, ?E'. cbn [andb]. reflexivity.
Qed.

Lemma legal_tail_sfx sfx : In sfx legal_suffixes ->
  forall t1 tl, list_of_string sfx = t1 :: tl -> sfx_char t1 = true.
Proof.
  intros Hin. cbn [In legal_suffixes] in Hin.
  repeat (destruct Hin as [<-|Hin]; [intros t1 tl H; inversion H; reflexivity|]). destruct Hin.
Qed.

Lemma lit_value_unfold spelling :
  lit_value spelling =
  let cs := list_of_string spelling in
  let '(base, value) :=
    match lookup (string_of_list (firstn 2 cs)) literal_bases with
    | Some b => (b, skipn 2 cs)
    | None =>
        match literal_zero_rule with
        | Some (p, zb) => if starts_with (list_of_string p) cs then (zb, cs) else (literal_default_base, cs)
        | None => (literal_default_base, cs)
        end
    end in
  let '(sfx, digits) := strip value in
  match py_int digits base with
  | None => inl EValue
  | Some n => match sfx with Some s => if has_marker s then np_uint64 n else np_int64 n | None => np_int64 n end
  end.
Proof. reflexivity. Qed.

(* C02_literals (partial): every integer constant ISO C gives a value and a type - all four bases,
   any number of digits, every legal suffix spelling - is read by M with that value and type, EXCEPT
   an octal/hexadecimal/binary constant without u whose value only fits uintmax_t (the guard:
   S says unsigned although the suffix has no u; that class is the known finding). *)
Theorem literals_ok body sfx v :
  lit_sem body sfx = Some v -> (vu v = true -> suffix_unsigned sfx = true) ->
  lit_value (body ++ sfx) = inr v.
Proof.
  unfold lit_sem. destruct (existsb (String.eqb sfx) legal_suffixes) eqn:L; [|discriminate].
  assert (Hin : In sfx legal_suffixes).
  { apply existsb_exists in L. destruct L as (s & Hs & E). apply String.eqb_eq in E. subst. exact Hs. }
  destruct (body_value body) as [[rdx n]|] eqn:B; [|discriminate].
  destruct (body_split _ _ _ B) as (base & ds & d & rb & Hsel & Hint & Hn & Hrev & Hd).
  intros Hv Hguard. rewrite lit_value_unfold. cbn zeta. rewrite los_app.
  rewrite (Hsel (list_of_string sfx) (legal_tail_sfx sfx Hin)).
  rewrite (strip_legal sfx Hin ds d rb Hrev Hd). rewrite Hint.
  assert (HM := has_marker_legal sfx Hin).
  destruct (String.eqb_spec sfx "") as [->|Ne].
  - (* no suffix *)
    cbn [suffix_unsigned list_of_string existsb] in Hv, Hguard.
    unfold np_int64. destruct (n <? two63) eqn:E.
    + inversion Hv; subst. replace (- two63 <=? n) with true by (unfold two63 in *; lia). reflexivity.
    + exfalso. destruct rdx; try discriminate; destruct (n <? two64); try discriminate; inversion Hv; subst;
        specialize (Hguard eq_refl); discriminate.
  - rewrite HM. destruct (suffix_unsigned sfx) eqn:U.
    + unfold np_uint64. destruct (n <? two64) eqn:E; [|discriminate]. inversion Hv; subst.
      replace (0 <=? n) with true by lia. reflexivity.
    + unfold np_int64. destruct (n <? two63) eqn:E.
      * inversion Hv; subst. replace (- two63 <=? n) with true by (unfold two63 in *; lia). reflexivity.
      * exfalso. destruct rdx; try discriminate; destruct (n <? two64); try discriminate; inversion Hv; subst;
          specialize (Hguard eq_refl); discriminate.
Qed.

(* the guard is not vacuous: the finding class is real in the model *)
Theorem literals_hex_intmax_refuted :
  exists body sfx v, lit_sem body sfx = Some v /\ lit_value (body ++ sfx) <> inr v.
Proof.
  exists "0xFFFFFFFFFFFFFFFF"%string, ""%string, (V 18446744073709551615 true).
  split; [vm_compute; reflexivity|]. vm_compute. discriminate.
Qed.

(* ------------------------------------------------------------------ character constants *)
Lemma simple_escape_small c v : simple_escape c = Some v -> 0 <= v < 128.
Proof.
  unfold simple_escape.
  repeat match goal with |- context [if ?b then _ else _] => destruct b end;
    intros H; inversion H; subst; lia.
Qed.

Ltac try_key k c :=
  destruct (Ascii.eqb_spec c k) as [->|?]; [vm_compute; reflexivity|].

Lemma lookup_simple_one c : lookup (String c EmptyString) simple_escapes = simple_escape c.
Proof.
  try_key "n"%char c. try_key "t"%char c. try_key "r"%char c. try_key "a"%char c. try_key "b"%char c.
  try_key "f"%char c. try_key "v"%char c. try_key "\"%char c. try_key "'"%char c. try_key """"%char c.
  try_key "?"%char c.
  unfold simple_escape, simple_escapes. cbn [lookup String.eqb].
  repeat match goal with H : c <> _ |- _ => apply Ascii.eqb_neq in H; rewrite H; clear H end.
  reflexivity.
Qed.

Lemma lookup_simple_many c x r : lookup (String c (String x r)) simple_escapes = None.
Proof.
  unfold simple_escapes. cbn [lookup String.eqb].
  repeat match goal with |- context [Ascii.eqb c ?k] => destruct (Ascii.eqb c k) end; reflexivity.
Qed.

Lemma np_int64_small n : 0 <= n < 128 -> np_int64 n = inr (V n false).
Proof. intros H. unfold np_int64. replace ((- two63 <=? n) && (n <? two63)) with true by (unfold two63; lia). reflexivity. Qed.

(* C02_charconst: every character constant with an ISO-defined value below 128 - a printable
   character, a simple escape, an octal escape of one to three digits, a hexadecimal escape of
   any length - has that value in M *)
Theorem charconst_ok s v : char_sem s = Some v -> char_value s = inr v.
Proof.
  unfold char_sem, char_value. destruct (list_of_string s) as [|b [|c r]]; [discriminate| |].
  - (* one character *)
    destruct ((32 <=? zascii b) && (zascii b <? 127) && negb (zascii b =? 39) && negb (zascii b =? 92)) eqn:E; [|discriminate].
    intros H. inversion H; subst. replace (zascii b =? 92) with false by lia. apply np_int64_small. lia.
  - destruct (zascii b =? 92); [|discriminate]. cbn [string_of_list].
    assert (G : (if zascii c =? 120
                 then match digits_value hex_digit 16 r with Some n => if n <? 128 then Some (V n false) else None | None => None end
                 else if (List.length (c :: r) <=? 3)%nat
                      then match digits_value oct_digit 8 (c :: r) with Some n => if n <? 128 then Some (V n false) else None | None => None end
                      else None) = Some v ->
                (if zascii c =? 120
                 then match py_int r 16 with Some n => np_int64 n | None => inl EValue end
                 else match py_int (c :: r) 8 with Some n => np_int64 n | None => inl EValue end) = inr v).
    { destruct (zascii c =? 120).
      - destruct (digits_value hex_digit 16 r) as [n|] eqn:D; [|discriminate].
        destruct (py_int_horner _ _ hex_ok eq_refl _ _ D) as [-> N].
        destruct (n <? 128) eqn:S; [|discriminate]. intros H; inversion H; subst. apply np_int64_small. lia.
      - destruct (List.length (c :: r) <=? 3)%nat; [|discriminate].
        destruct (digits_value oct_digit 8 (c :: r)) as [n|] eqn:D; [|discriminate].
        destruct (py_int_horner _ _ oct_ok eq_refl _ _ D) as [-> N].
        destruct (n <? 128) eqn:S; [|discriminate]. intros H; inversion H; subst. apply np_int64_small. lia. }
    destruct r as [|x r].
    + cbn [string_of_list]. rewrite lookup_simple_one. destruct (simple_escape c) as [v0|] eqn:SE.
      * intros H. inversion H; subst. apply np_int64_small. exact (simple_escape_small _ _ SE).
      * exact G.
    + cbn [string_of_list]. rewrite lookup_simple_many. destruct (simple_escape c); exact G.
Qed.
