(* C15 — closing the loop to the specification the harness compares with
   (Spec/C15.v: the reference preprocessor of Spec/C04.v on the canonical file
   list): a canonical configuration analysed in the link tree yields the marks
   the reference preprocessor yields on the list of the tree's regular files. *)
From Coq Require Import Bool Arith ZArith String List.
From CBI Require Import Lib.Res Model.C01 Spec.C01 Model.C04 Spec.C04 Proofs.C01 Proofs.C04
     Model.C15fs Model.C15 Model.C15i Spec.C15
     Proofs.C15fs Proofs.C15enum Proofs.C15 Proofs.C15i Proofs.C15w Proofs.C15full.
Import ListNotations.
Local Open Scope list_scope.

(* ---------- the C04 model is the C15 model of a world without aliases ---------- *)
Section IdWorld.
Variable fs : fsys.
Hypothesis Hfs : fs_structured fs.
Let idp : path -> path := fun p => p.

(* with rp = identity and getf = fs_get the C15 model IS the C04 model (by computation) *)
Lemma run_tu_id_M fuel e : run_tu_A idp (fs_get fs) fuel e = run_tu_M fs fuel e.
Proof. reflexivity. Qed.

(* whenever the reference preprocessor accepts the configuration, the alias-free C15 model
   (if it succeeds) records what the reference records *)
Lemma analyse_id_S fuel c : forall msS ms,
  analyse_S fs fuel c = Ok msS -> analyse idp (fs_get fs) fuel c = Ok ms -> ms = msS.
Proof.
  induction c as [|[pl e] r IH]; intros msS ms; cbn [analyse_S analyse].
  - intros H1 H2; inversion H1; inversion H2; reflexivity.
  - destruct (run_tu_S fs fuel e) as [rS|x] eqn:ES; [|discriminate].
    destruct (analyse_S fs fuel r) as [mS|x] eqn:EA; [|discriminate].
    destruct (run_tu_A idp (fs_get fs) fuel e) as [rA|x] eqn:EM; [|discriminate].
    destruct (analyse idp (fs_get fs) fuel r) as [mA|x] eqn:EB; [|discriminate].
    intros H1 H2; inversion H1; inversion H2; subst.
    destruct (run_tu_sim fs Hfs fuel e rS ES) as (rM & EM' & (Ha & _)).
    rewrite run_tu_id_M in EM. rewrite EM in EM'. inversion EM'; subst.
    rewrite Ha, (IH mS mA eq_refl eq_refl). reflexivity.
Qed.

End IdWorld.

(* ---------- from the link tree to the list of its regular files ---------- *)
Section InstC.
Variable root : fnode.
Variable tab : ctable.
Variable cfs : fsys.
Hypothesis Hwf : wf root.
(* cfs lists exactly the regular files of the tree, under their real paths *)
Hypothesis Hcfs : forall p, is_real root p = true -> fs_get cfs p = getf_i root tab p.
Hypothesis Hnames : tab_names_ok root tab.
Let idp : path -> path := fun p => p.

Lemma searchC ds1 ds2 n1 n2 cur a :
  Forall2 (DRb root) ds1 ds2 -> NRb root n1 n2 -> GoodB root cur ->
  match search_A (rp_i root) (getf_i root tab) ds1 (n1, dirname cur, a),
        search_A idp (fs_get cfs) ds2 (n2, dirname cur, a) with
  | Some f1, Some f2 => f1 = f2 /\ rp_i root f1 = idp f2 /\ GoodB root (rp_i root f1)
  | None, None => True
  | _, _ => False
  end.
Proof.
  intros Hd [<- Hn] Hg. unfold search_A.
  assert (Eds : ds2 = ds1 /\ Forall (fun d => is_real root d = true) ds1).
  { clear - Hd. induction Hd as [|d1 d2 l1 l2 [<- Hr] _ [-> IH]]; split; auto. }
  destruct Eds as [-> Hreal].
  set (L := (if a then [] else [dirname cur]) ++ ds1).
  assert (HL : Forall (fun d => is_real root d = true) L).
  { unfold L. apply Forall_app. split; [|exact Hreal]. destruct a; constructor; [apply real_dirname; exact Hg|constructor]. }
  assert (E1 : candidates_A (rp_i root) ds1 (n1, dirname cur, a) = map (fun d => d ++ n1) L).
  { unfold candidates_A. fold L. apply map_ext_in. intros d Hin. rewrite Forall_forall in HL.
    apply rp_real. apply real_join; auto. }
  assert (E2 : candidates_A idp ds1 (n1, dirname cur, a) = map (fun d => d ++ n1) L) by reflexivity.
  rewrite E1, E2.
  assert (Hall : forall x, In x (map (fun d => d ++ n1) L) -> is_real root x = true).
  { intros x Hx. apply in_map_iff in Hx. destruct Hx as (d & <- & Hin). rewrite Forall_forall in HL. apply real_join; auto. }
  rewrite (find_ext_in (isfile_A (fs_get cfs)) (isfile_A (getf_i root tab)) _
             (fun x Hx => f_equal (fun o => match o with Some _ => true | None => false end) (Hcfs x (Hall x Hx)))).
  destruct (find (isfile_A (getf_i root tab)) (map (fun d => d ++ n1) L)) as [f|] eqn:Ef; [|exact I].
  destruct (find_some _ _ Ef) as [Hin _]. pose proof (Hall f Hin) as Hr.
  split; [reflexivity|]. rewrite (rp_real root f Hr). split; [reflexivity|exact Hr].
Qed.

Lemma contentC q : GoodB root q ->
  match getf_i root tab q, fs_get cfs q with
  | Some l1, Some l2 => Forall2 (lrel (NRb root)) l1 l2
  | None, None => True
  | _, _ => False
  end.
Proof.
  intros Hg. rewrite (Hcfs q Hg). destruct (getf_i root tab q) as [l|] eqn:E; [|exact I].
  apply Forall2_diag with (P := line_ok root); [apply line_ok_rel|].
  unfold getf_i, entry_at in E. destruct (node_at root q) as [[k|kk|a t]|]; try discriminate.
  destruct (clookup k tab) as [[ls ws]|] eqn:Ek; [|discriminate]. cbn in E. inversion E; subst. eapply Hnames; eauto.
Qed.

Lemma canon_cfg_relC c : canon_cfg root c -> cfg_rel (rp_i root) idp (NRb root) (DRb root) (GoodB root) c c.
Proof.
  induction 1 as [|[pl e] l (Hf & Hd & Hv & Hi) _ IH]; constructor; [|exact IH]. cbn [fst snd] in *.
  split; [reflexivity|]. unfold entry_rel. rewrite (rp_real root _ Hf).
  split; [reflexivity|]. split; [exact Hf|]. split; [|split].
  - apply Forall2_diag with (P := fun d => is_real root d = true); [intros x Hx; split; auto|exact Hd].
  - apply Forall2_diag with (P := fun kv => val_ok root (snd kv)); [|exact Hv].
    intros [k v] Hx. split; [reflexivity|]. cbn in *. destruct v; constructor. split; auto.
  - apply Forall2_diag with (P := linkfree_name root); [intros x Hx; split; auto|exact Hi].
Qed.

Hypothesis Hst : tab_structured tab.
Hypothesis Hfs : fs_structured cfs.

Theorem analyse_is_reference fuel c ms msS :
  canon_cfg root c ->
  analyse (rp_i root) (getf_i root tab) fuel c = Ok ms ->
  analyse_S cfs fuel c = Ok msS -> ms = msS.
Proof.
  intros Hc H HS.
  assert (H2 : analyse idp (fs_get cfs) fuel c = Ok ms).
  { apply (analyse_sim2 (rp_i root) idp (getf_i root tab) (fs_get cfs) (NRb root) (DRb root) (GoodB root)
             (getf_structured root tab Hst) Hfs searchC contentC fuel c c (canon_cfg_relC c Hc) ms H). }
  apply (analyse_id_S cfs Hfs fuel c msS ms HS H2).
Qed.

End InstC.

(* ---------- such a list exists for every well-formed tree ---------- *)
Definition fsys_of (root : fnode) (tab : ctable) : fsys :=
  flat_map (fun p => match getf_i root tab p with Some ls => [(p, ls)] | None => [] end) (walk root []).

Lemma fs_get_in (l : fsys) p v : NoDup (map fst l) -> In (p, v) l -> fs_get l p = Some v.
Proof.
  induction l as [|[q w] r IH]; cbn; [intros _ []|]. intros Hnd [H|H].
  - inversion H; subst. rewrite path_eqb_refl. reflexivity.
  - inversion Hnd; subst. destruct (path_eqb p q) eqn:E.
    + apply path_eqb_eq in E. subst. exfalso. apply H2. apply in_map_iff. exists (q, v). auto.
    + apply IH; assumption.
Qed.
Lemma fs_get_some_in (l : fsys) p v : fs_get l p = Some v -> In (p, v) l.
Proof.
  induction l as [|[q w] r IH]; cbn; [discriminate|]. destruct (path_eqb p q) eqn:E.
  - apply path_eqb_eq in E. subst. intros H; inversion H; subst. left. reflexivity.
  - intros H. right. apply IH. exact H.
Qed.

Lemma fsys_of_in root tab p ls : In (p, ls) (fsys_of root tab) <-> In p (walk root []) /\ getf_i root tab p = Some ls.
Proof.
  unfold fsys_of. rewrite in_flat_map. split.
  - intros (q & Hq & Hin). destruct (getf_i root tab q) as [l|] eqn:E; [|contradiction].
    destruct Hin as [H|[]]. inversion H; subst. auto.
  - intros [Hw Hg]. exists p. split; [exact Hw|]. rewrite Hg. left. reflexivity.
Qed.
Lemma fsys_of_fst root tab : forall l,
  map fst (flat_map (fun p => match getf_i root tab p with Some ls => [(p, ls)] | None => [] end) l)
  = filter (fun p => match getf_i root tab p with Some _ => true | None => false end) l.
Proof.
  induction l as [|p l IH]; [reflexivity|]. cbn. destruct (getf_i root tab p); cbn; rewrite IH; reflexivity.
Qed.

Theorem fs_get_fsys_of root tab : wf root -> getf_i root tab [] = None ->
  forall p, fs_get (fsys_of root tab) p = getf_i root tab p.
Proof.
  intros Hwf Hroot p.
  assert (Hnd : NoDup (map fst (fsys_of root tab))).
  { unfold fsys_of. rewrite fsys_of_fst. apply NoDup_filter. apply walk_NoDup. exact Hwf. }
  destruct (getf_i root tab p) as [ls|] eqn:E.
  - apply fs_get_in; [exact Hnd|]. apply fsys_of_in. split; [|exact E].
    destruct p as [|c r]; [congruence|].
    unfold getf_i, entry_at in E. destruct (node_at root (c :: r)) as [n|] eqn:En; [|discriminate].
    apply (node_at_walk (c :: r) root [] n En). discriminate.
  - destruct (fs_get (fsys_of root tab) p) as [v|] eqn:Ef; [|reflexivity].
    apply fs_get_some_in, fsys_of_in in Ef. destruct Ef as [_ Hg]. congruence.
Qed.

Lemma fsys_of_structured root tab : tab_structured tab -> fs_structured (fsys_of root tab).
Proof.
  intros Hs p ls Hg. apply fs_get_some_in, fsys_of_in in Hg. destruct Hg as [_ Hg].
  eapply getf_structured; eauto.
Qed.

(* ---------- the whole chain ---------- *)
Lemma find_A_analyse rp getf fuel members c ms :
  find_A rp getf fuel members c = Ok ms -> analyse rp getf fuel c = Ok ms.
Proof. unfold find_A. destruct (parse_all rp getf _); [auto|discriminate]. Qed.

Theorem attribution_is_reference (root : fnode) (tab_a tab_c : ctable) (cfs : fsys)
        (fuel : nat) (members : list path) (c_a c_c : list (nat * entry)) (ms msS : list mark) :
  wf root ->
  tab_structured tab_a -> tab_structured tab_c -> fs_structured cfs ->
  tab_rel root tab_a tab_c (alldirs root) -> alias_cfg2 root tab_a (alldirs root) c_a c_c ->
  tab_names_ok root tab_c -> canon_cfg root c_c ->
  (forall p, is_real root p = true -> fs_get cfs p = getf_i root tab_c p) ->
  Forall (fun fn => In (dirname (rp_i root fn)) (alldirs root)) members ->
  find_A (rp_i root) (getf_i root tab_a) fuel members c_a = Ok ms ->
  analyse_S cfs fuel c_c = Ok msS ->
  ms = msS.
Proof.
  intros Hwf Sa Sc Sf Ht Hc Hn Hcc Hcfs Hm H HS.
  pose proof (find_alias_names root tab_a tab_c (alldirs root) Ht (file_dir_in_alldirs root tab_a Hwf)
                fuel members c_a c_c ms Sa Sc Hc Hm H) as H1.
  apply find_A_analyse in H1.
  eapply (analyse_is_reference root tab_c cfs); eauto.
Qed.
