(* C15 — closing the loop to the specification the harness compares with
   (Spec/C15.v: the reference preprocessor of Spec/C04.v on the canonical file
   list): a canonical configuration analysed in the link tree yields the marks
   the reference preprocessor yields on the list of the tree's regular files. *)
From Coq Require Import Bool Arith ZArith String List.
From CBI Require Import Lib.Res Model.C01 Spec.C01 Model.C04 Spec.C04 Proofs.C01 Proofs.C04
     Model.C15fs Model.C15 Model.C15i Spec.C15
     Proofs.C15fs Proofs.C15enum Proofs.C15 Proofs.C15i Proofs.C15w Proofs.C15full.
Import ListNotations.
Local Open Scope list_scope.

(* ---------- lexical normalisation (os.path.abspath, Model/C04.v) ---------- *)
Lemma norm_aux_plain p : forall acc, Forall (fun c => plain c = true) p -> norm_aux acc p = rev acc ++ p.
Proof.
  induction p as [|c r IH]; intros acc H; cbn [norm_aux]; [rewrite app_nil_r; reflexivity|].
  inversion H as [|x l Hc Hr]; subst. unfold plain, is_dot, is_dotdot in Hc.
  apply andb_true_iff in Hc. destruct Hc as [H1 H2]. apply negb_true_iff in H1, H2. rewrite H1, H2.
  rewrite IH by exact Hr. cbn [rev]. rewrite <- app_assoc. reflexivity.
Qed.
Lemma norm_plain p : Forall (fun c => plain c = true) p -> norm p = p.
Proof. intros H. unfold norm. rewrite norm_aux_plain by exact H. reflexivity. Qed.

Lemma real_from_plain root rest : forall acc, real_from root acc rest = true -> Forall (fun c => plain c = true) rest.
Proof.
  induction rest as [|c r IH]; intros acc H; [constructor|]. cbn in H.
  apply andb_true_iff in H. destruct H as [H Hr]. apply andb_true_iff in H. destruct H as [Hp _].
  constructor; [exact Hp|eapply IH; exact Hr].
Qed.
(* a real path has no dot segments: lexical normalisation leaves it alone *)
Lemma norm_real root p : is_real root p = true -> norm p = p.
Proof. intros H. apply norm_plain. eapply real_from_plain. exact H. Qed.

(* ---------- the C04 model is the C15 model of the world without links, where
   realpath is lexical normalisation ---------- *)
Section NormWorld.
Variable fs : fsys.
Hypothesis Hfs : fs_structured fs.
(* the list names its files by normalised paths *)
Hypothesis Hnormal : forall p ls, fs_get fs p = Some ls -> norm p = p.

Lemma find_include_norm k p : find_include_A norm (fs_get fs) k p = find_include fs k p.
Proof. destruct k as [[name this] angle]. reflexivity. Qed.

Lemma found_normal k p p1 f : find_include fs k p = (p1, Some f) -> memo_ok fs p -> norm f = f.
Proof.
  intros E Hm. destruct (find_include_spec fs k p p1 (Some f) Hm E) as (Hs & _ & _).
  symmetry in Hs. unfold search in Hs. apply find_some in Hs. destruct Hs as [_ Hf].
  unfold isfile in Hf. destruct (fs_get fs f) as [ls|] eqn:Eg; [|discriminate]. eapply Hnormal; eauto.
Qed.

(* the memo invariant is needed to know that a memoised answer is a file of the list *)
Definition MRel (p q : plat) : Prop := p = q /\ memo_ok fs p.

Lemma exec_norm_M fuel : forall cur a p p', memo_ok fs p ->
  exec_A norm (fs_get fs) fuel cur a p = Ok p' -> exec_M fs fuel cur a p = Ok p' /\ memo_ok fs p'.
Proof.
  induction fuel as [|n IH]; intros cur a p p' Hm; rewrite exec_A_unfold, exec_M_unfold.
  - destruct a as [| |m v|m|tag s|];
      [ intros H; inversion H; subst; split; [reflexivity|exact Hm]
      | intros H; inversion H; subst; split; [reflexivity|exact Hm]
      | intros H; inversion H; subst; split; [reflexivity|destruct (lookup m (defs p)); exact Hm]
      | intros H; inversion H; subst; split; [reflexivity|exact Hm]
      |
      | intros H; inversion H; subst; split; [reflexivity|destruct (mem_path cur (once p)); exact Hm] ].
    destruct (include_target s p) as [[angle name]|e]; [|discriminate].
    rewrite find_include_norm. destruct (find_include fs (name, dirname cur, angle) p) as [p1 r] eqn:Ef.
    destruct (find_include_spec fs _ _ _ _ Hm Ef) as (_ & Hm1 & _).
    destruct r as [f|]; [|intros H; inversion H; subst; split; [reflexivity|exact Hm1]].
    destruct (mem_path f (once p1)); [intros H; inversion H; subst; split; [reflexivity|exact Hm1]|discriminate].
  - destruct a as [| |m v|m|tag s|];
      [ intros H; inversion H; subst; split; [reflexivity|exact Hm]
      | intros H; inversion H; subst; split; [reflexivity|exact Hm]
      | intros H; inversion H; subst; split; [reflexivity|destruct (lookup m (defs p)); exact Hm]
      | intros H; inversion H; subst; split; [reflexivity|exact Hm]
      |
      | intros H; inversion H; subst; split; [reflexivity|destruct (mem_path cur (once p)); exact Hm] ].
    destruct (include_target s p) as [[angle name]|e]; [|discriminate].
    rewrite find_include_norm. destruct (find_include fs (name, dirname cur, angle) p) as [p1 r] eqn:Ef.
    destruct (find_include_spec fs _ _ _ _ Hm Ef) as (_ & Hm1 & _).
    destruct r as [f|]; [|intros H; inversion H; subst; split; [reflexivity|exact Hm1]].
    rewrite (found_normal _ _ _ _ Ef Hm).
    destruct (mem_path f (once p1)); [intros H; inversion H; subst; split; [reflexivity|exact Hm1]|].
    destruct (fs_get fs f) as [ls|] eqn:Eg; [|discriminate].
    destruct (Hfs f ls Eg) as (its & ->). rewrite !attribution. intros H.
    destruct (run_S_sim plat plat act cond (mark_in f) (mark_in f) (exec_A norm (fs_get fs) n f) (exec_M fs n f) ev ev MRel) with (ls := flats act cond its) (p := p1) (q := p1) (p' := p') as (q' & Hq & [<- Hmq]).
    + intros id x y [<- Hx]. split; [reflexivity|]. intros k r. apply Hx.
    + intros c x y b0 [<- _] Hev. exact Hev.
    + intros a0 x y x' [<- Hx] Hex. destruct (IH f a0 x x' Hx Hex) as [H1 H2]. exists x'. split; [exact H1|split; [reflexivity|exact H2]].
    + split; [reflexivity|exact Hm1].
    + exact H.
    + split; assumption.
Qed.

Lemma run_lines_norm_M fuel f ls p p' : memo_ok fs p -> (exists its, ls = flats act cond its) ->
  run_M plat act cond (mark_in f) (exec_A norm (fs_get fs) fuel f) ev ls p = Ok p' ->
  run_M plat act cond (mark_in f) (exec_M fs fuel f) ev ls p = Ok p' /\ memo_ok fs p'.
Proof.
  intros Hm (its & ->). rewrite !attribution. intros H.
  destruct (run_S_sim plat plat act cond (mark_in f) (mark_in f) (exec_A norm (fs_get fs) fuel f) (exec_M fs fuel f) ev ev MRel) with (ls := flats act cond its) (p := p) (q := p) (p' := p') as (q' & Hq & [<- Hmq]).
  - intros id x y [<- Hx]. split; [reflexivity|]. intros k r. apply Hx.
  - intros c x y b0 [<- _] Hev. exact Hev.
  - intros a0 x y x' [<- Hx] Hex. destruct (exec_norm_M fuel f a0 x x' Hx Hex) as [H1 H2]. exists x'. split; [exact H1|split; [reflexivity|exact H2]].
  - split; [reflexivity|exact Hm].
  - exact H.
  - split; assumption.
Qed.

Lemma run_file_norm_M fuel f p p' : norm f = f -> memo_ok fs p ->
  run_file_A norm (fs_get fs) fuel f p = Ok p' -> run_file_M fs fuel f p = Ok p' /\ memo_ok fs p'.
Proof.
  unfold run_file_A, run_file_M. intros -> Hm. destruct (fs_get fs f) as [ls|] eqn:Eg; [|discriminate].
  apply run_lines_norm_M; [exact Hm|exact (Hfs f ls Eg)].
Qed.

Lemma forced_norm_M fuel this incs : forall p p', memo_ok fs p ->
  forced_A norm (fs_get fs) fuel this incs p = Ok p' -> forced_M fs fuel this incs p = Ok p' /\ memo_ok fs p'.
Proof.
  induction incs as [|n r IH]; intros p p' Hm; cbn [forced_A forced_M]; [intros H; inversion H; subst; auto|].
  rewrite find_include_norm. destruct (find_include fs (n, this, false) p) as [p1 res] eqn:Ef.
  destruct (find_include_spec fs _ _ _ _ Hm Ef) as (_ & Hm1 & _).
  destruct res as [f|]; [|apply IH; exact Hm1].
  destruct (mem_path f (once p1)); [apply IH; exact Hm1|].
  destruct (run_file_A norm (fs_get fs) fuel f p1) as [p2|e] eqn:E; [|discriminate].
  destruct (run_file_norm_M _ _ _ _ (found_normal _ _ _ _ Ef Hm) Hm1 E) as [-> Hm2]. apply IH. exact Hm2.
Qed.

Lemma run_tu_norm_M fuel e r : norm (e_file e) = e_file e ->
  run_tu_A norm (fs_get fs) fuel e = Ok r -> run_tu_M fs fuel e = Ok r.
Proof.
  intros Hn. unfold run_tu_A, run_tu_M. rewrite Hn.
  destruct (forced_A norm (fs_get fs) fuel (dirname (e_file e)) (e_incs e) (fresh e)) as [p|x] eqn:E; [|discriminate].
  assert (Hm0 : memo_ok fs (fresh e)) by (intros k r0; cbn; discriminate).
  destruct (forced_norm_M _ _ _ _ _ Hm0 E) as [-> Hm]. intros H.
  destruct (run_file_norm_M _ _ _ _ Hn Hm H) as [H1 _]. exact H1.
Qed.

(* whenever the reference preprocessor accepts the configuration, the C15 model of the
   link-free world (if it succeeds) records what the reference records *)
Lemma analyse_norm_S fuel c : Forall (fun x => norm (e_file (snd x)) = e_file (snd x)) c -> forall msS ms,
  analyse_S fs fuel c = Ok msS -> analyse norm (fs_get fs) fuel c = Ok ms -> ms = msS.
Proof.
  induction 1 as [|[pl e] r Hn _ IH]; intros msS ms; cbn [analyse_S analyse].
  - intros H1 H2; inversion H1; inversion H2; reflexivity.
  - cbn [snd] in Hn. destruct (run_tu_S fs fuel e) as [rS|x] eqn:ES; [|discriminate].
    destruct (analyse_S fs fuel r) as [mS|x] eqn:EA; [|discriminate].
    destruct (run_tu_A norm (fs_get fs) fuel e) as [rA|x] eqn:EM; [|discriminate].
    destruct (analyse norm (fs_get fs) fuel r) as [mA|x] eqn:EB; [|discriminate].
    intros H1 H2; inversion H1; inversion H2; subst.
    destruct (run_tu_sim fs Hfs fuel e rS ES) as (rM & EM' & (Ha & _)).
    rewrite (run_tu_norm_M _ _ _ Hn EM) in EM'. inversion EM'; subst.
    rewrite Ha, (IH mS mA eq_refl eq_refl). reflexivity.
Qed.

End NormWorld.

(* ---------- from the link tree to the list of its regular files ---------- *)
Section InstC.
Variable root : fnode.
Variable tab : ctable.
Variable cfs : fsys.
Hypothesis Hwf : wf root.
(* cfs lists exactly the regular files of the tree, under their real paths *)
Hypothesis Hcfs : forall p, is_real root p = true -> fs_get cfs p = getf_i root tab p.
Hypothesis Hnames : tab_names_ok root tab.
(* ... and nothing else *)
Hypothesis Hcfs_real : forall p ls, fs_get cfs p = Some ls -> is_real root p = true.
Let idp : path -> path := norm.

Lemma searchC ds1 ds2 n1 n2 cur a :
  Forall2 (DRb root) ds1 ds2 -> NRb root n1 n2 -> GoodB root cur ->
  match search_A (rp_i root) (getf_i root tab) ds1 (n1, dirname cur, a),
        search_A idp (fs_get cfs) ds2 (n2, dirname cur, a) with
  | Some f1, Some f2 => f1 = f2 /\ rp_i root f1 = idp f2 /\ GoodB root (rp_i root f1)
  | None, None => True
  | _, _ => False
  end.
Proof.
  intros Hd [<- Hn] Hg. unfold search_A.
  assert (Eds : ds2 = ds1 /\ Forall (fun d => is_real root d = true) ds1).
  { clear - Hd. induction Hd as [|d1 d2 l1 l2 [<- Hr] _ [-> IH]]; split; auto. }
  destruct Eds as [-> Hreal].
  set (L := (if a then [] else [dirname cur]) ++ ds1).
  assert (HL : Forall (fun d => is_real root d = true) L).
  { unfold L. apply Forall_app. split; [|exact Hreal]. destruct a; constructor; [apply real_dirname; exact Hg|constructor]. }
  assert (E1 : candidates_A (rp_i root) ds1 (n1, dirname cur, a) = map (fun d => d ++ n1) L).
  { unfold candidates_A. fold L. apply map_ext_in. intros d Hin. rewrite Forall_forall in HL.
    apply rp_real. apply real_join; auto. }
  assert (E2 : candidates_A idp ds1 (n1, dirname cur, a) = map (fun d => d ++ n1) L).
  { unfold candidates_A. fold L. apply map_ext_in. intros d Hin. rewrite Forall_forall in HL.
    apply (norm_real root). apply real_join; auto. }
  rewrite E1, E2.
  assert (Hall : forall x, In x (map (fun d => d ++ n1) L) -> is_real root x = true).
  { intros x Hx. apply in_map_iff in Hx. destruct Hx as (d & <- & Hin). rewrite Forall_forall in HL. apply real_join; auto. }
  rewrite (find_ext_in (isfile_A (fs_get cfs)) (isfile_A (getf_i root tab)) _
             (fun x Hx => f_equal (fun o => match o with Some _ => true | None => false end) (Hcfs x (Hall x Hx)))).
  destruct (find (isfile_A (getf_i root tab)) (map (fun d => d ++ n1) L)) as [f|] eqn:Ef; [|exact I].
  destruct (find_some _ _ Ef) as [Hin _]. pose proof (Hall f Hin) as Hr.
  split; [reflexivity|]. rewrite (rp_real root f Hr). unfold idp. rewrite (norm_real root f Hr). split; [reflexivity|exact Hr].
Qed.

Lemma contentC q : GoodB root q ->
  match getf_i root tab q, fs_get cfs q with
  | Some l1, Some l2 => Forall2 (lrel (NRb root)) l1 l2
  | None, None => True
  | _, _ => False
  end.
Proof.
  intros Hg. rewrite (Hcfs q Hg). destruct (getf_i root tab q) as [l|] eqn:E; [|exact I].
  apply Forall2_diag with (P := line_ok root); [apply line_ok_rel|].
  unfold getf_i, entry_at in E. destruct (node_at root q) as [[k|kk|a t]|]; try discriminate.
  destruct (clookup k tab) as [[ls ws]|] eqn:Ek; [|discriminate]. cbn in E. inversion E; subst. eapply Hnames; eauto.
Qed.

Lemma canon_cfg_relC c : canon_cfg root c -> cfg_rel (rp_i root) idp (NRb root) (DRb root) (GoodB root) c c.
Proof.
  induction 1 as [|[pl e] l (Hf & Hd & Hv & Hi) _ IH]; constructor; [|exact IH]. cbn [fst snd] in *.
  split; [reflexivity|]. unfold entry_rel. rewrite (rp_real root _ Hf). unfold idp. rewrite (norm_real root _ Hf).
  split; [reflexivity|]. split; [exact Hf|]. split; [|split].
  - apply Forall2_diag with (P := fun d => is_real root d = true); [intros x Hx; split; auto|exact Hd].
  - apply Forall2_diag with (P := fun kv => val_ok root (snd kv)); [|exact Hv].
    intros [k v] Hx. split; [reflexivity|]. cbn in *. destruct v; constructor. split; auto.
  - apply Forall2_diag with (P := linkfree_name root); [intros x Hx; split; auto|exact Hi].
Qed.

Hypothesis Hst : tab_structured tab.
Hypothesis Hfs : fs_structured cfs.

Theorem analyse_is_reference fuel c ms msS :
  canon_cfg root c ->
  analyse (rp_i root) (getf_i root tab) fuel c = Ok ms ->
  analyse_S cfs fuel c = Ok msS -> ms = msS.
Proof.
  intros Hc H HS.
  assert (H2 : analyse idp (fs_get cfs) fuel c = Ok ms).
  { apply (analyse_sim2 (rp_i root) idp (getf_i root tab) (fs_get cfs) (NRb root) (DRb root) (GoodB root)
             (getf_structured root tab Hst) Hfs searchC contentC fuel c c (canon_cfg_relC c Hc) ms H). }
  apply (analyse_norm_S cfs Hfs (fun p ls Hp => norm_real root p (Hcfs_real p ls Hp)) fuel c) with (msS := msS) (ms := ms); auto.
  clear - Hc. induction Hc as [|[pl e] l (Hf & _) _ IH]; constructor; [apply (norm_real root); exact Hf|exact IH].
Qed.

End InstC.

(* ---------- such a list exists for every well-formed tree ---------- *)
Definition fsys_of (root : fnode) (tab : ctable) : fsys :=
  flat_map (fun p => match getf_i root tab p with Some ls => [(p, ls)] | None => [] end) (walk root []).

Lemma fs_get_in (l : fsys) p v : NoDup (map fst l) -> In (p, v) l -> fs_get l p = Some v.
Proof.
  induction l as [|[q w] r IH]; cbn; [intros _ []|]. intros Hnd [H|H].
  - inversion H; subst. rewrite path_eqb_refl. reflexivity.
  - inversion Hnd; subst. destruct (path_eqb p q) eqn:E.
    + apply path_eqb_eq in E. subst. exfalso. apply H2. apply in_map_iff. exists (q, v). auto.
    + apply IH; assumption.
Qed.
Lemma fs_get_some_in (l : fsys) p v : fs_get l p = Some v -> In (p, v) l.
Proof.
  induction l as [|[q w] r IH]; cbn; [discriminate|]. destruct (path_eqb p q) eqn:E.
  - apply path_eqb_eq in E. subst. intros H; inversion H; subst. left. reflexivity.
  - intros H. right. apply IH. exact H.
Qed.

Lemma fsys_of_in root tab p ls : In (p, ls) (fsys_of root tab) <-> In p (walk root []) /\ getf_i root tab p = Some ls.
Proof.
  unfold fsys_of. rewrite in_flat_map. split.
  - intros (q & Hq & Hin). destruct (getf_i root tab q) as [l|] eqn:E; [|contradiction].
    destruct Hin as [H|[]]. inversion H; subst. auto.
  - intros [Hw Hg]. exists p. split; [exact Hw|]. rewrite Hg. left. reflexivity.
Qed.
Lemma fsys_of_fst root tab : forall l,
  map fst (flat_map (fun p => match getf_i root tab p with Some ls => [(p, ls)] | None => [] end) l)
  = filter (fun p => match getf_i root tab p with Some _ => true | None => false end) l.
Proof.
  induction l as [|p l IH]; [reflexivity|]. cbn. destruct (getf_i root tab p); cbn; rewrite IH; reflexivity.
Qed.

Theorem fs_get_fsys_of root tab : wf root -> getf_i root tab [] = None ->
  forall p, fs_get (fsys_of root tab) p = getf_i root tab p.
Proof.
  intros Hwf Hroot p.
  assert (Hnd : NoDup (map fst (fsys_of root tab))).
  { unfold fsys_of. rewrite fsys_of_fst. apply NoDup_filter. apply walk_NoDup. exact Hwf. }
  destruct (getf_i root tab p) as [ls|] eqn:E.
  - apply fs_get_in; [exact Hnd|]. apply fsys_of_in. split; [|exact E].
    destruct p as [|c r]; [congruence|].
    unfold getf_i, entry_at in E. destruct (node_at root (c :: r)) as [n|] eqn:En; [|discriminate].
    apply (node_at_walk (c :: r) root [] n En). discriminate.
  - destruct (fs_get (fsys_of root tab) p) as [v|] eqn:Ef; [|reflexivity].
    apply fs_get_some_in, fsys_of_in in Ef. destruct Ef as [_ Hg]. congruence.
Qed.

Lemma fsys_of_structured root tab : tab_structured tab -> fs_structured (fsys_of root tab).
Proof.
  intros Hs p ls Hg. apply fs_get_some_in, fsys_of_in in Hg. destruct Hg as [_ Hg].
  eapply getf_structured; eauto.
Qed.

(* ---------- the whole chain ---------- *)
Lemma find_A_analyse rp getf fuel members c ms :
  find_A rp getf fuel members c = Ok ms -> analyse rp getf fuel c = Ok ms.
Proof. unfold find_A. destruct (parse_all rp getf _); [auto|discriminate]. Qed.

Theorem attribution_is_reference (root : fnode) (tab_a tab_c : ctable) (cfs : fsys)
        (fuel : nat) (members : list path) (c_a c_c : list (nat * entry)) (ms msS : list mark) :
  wf root ->
  tab_structured tab_a -> tab_structured tab_c -> fs_structured cfs ->
  tab_rel root tab_a tab_c (alldirs root) -> alias_cfg2 root tab_a (alldirs root) c_a c_c ->
  tab_names_ok root tab_c -> canon_cfg root c_c ->
  (forall p, is_real root p = true -> fs_get cfs p = getf_i root tab_c p) ->
  (forall p ls, fs_get cfs p = Some ls -> is_real root p = true) ->
  Forall (fun fn => In (dirname (rp_i root fn)) (alldirs root)) members ->
  find_A (rp_i root) (getf_i root tab_a) fuel members c_a = Ok ms ->
  analyse_S cfs fuel c_c = Ok msS ->
  ms = msS.
Proof.
  intros Hwf Sa Sc Sf Ht Hc Hn Hcc Hcfs Hcr Hm H HS.
  pose proof (find_alias_names root tab_a tab_c (alldirs root) Ht (file_dir_in_alldirs root tab_a Hwf)
                fuel members c_a c_c ms Sa Sc Hc Hm H) as H1.
  apply find_A_analyse in H1.
  eapply (analyse_is_reference root tab_c cfs); eauto.
Qed.

(* the constructed list names only real paths *)
Lemma fsys_of_real root tab : wf root -> forall p ls, fs_get (fsys_of root tab) p = Some ls -> is_real root p = true.
Proof.
  intros Hwf p ls Hg. apply fs_get_some_in, fsys_of_in in Hg. destruct Hg as [_ Hg].
  unfold getf_i, entry_at in Hg. destruct (node_at root p) as [[k|kk|a t]|] eqn:En; try discriminate.
  apply (node_at_real root Hwf p (File k) En). reflexivity.
Qed.
