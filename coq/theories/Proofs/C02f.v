(* C02 proofs, part 6: fuel.  For EVERY token list (well-formed or not) the fuel evaluate() is given
   suffices: the parser model never answers "out of fuel"; likewise the lexer model on every text.
   So the fuelled definitions of Model/C02.v and Model/C02lex.v are total functions of their input,
   and the out-of-fuel outcome is unreachable. *)
From Coq Require Import ZArith Bool String Ascii List Lia Arith.
From CBI Require Import Lib.Data Gen.C02_tables Model.C02 Model.C02lex.
Import ListNotations.

Notation len := (@List.length token).

(* what a terminating call guarantees about the cursor *)
Definition good (ts : list token) (r : pres) : Prop :=
  match r with
  | POk _ rest => (len rest < len ts)%nat
  | PFail rest => (len rest <= len ts)%nat
  | PFatal _ => True
  | POut => False
  end.
Definition goodl (ts : list token) (r : pres) : Prop :=
  match r with
  | POk _ rest => (len rest <= len ts)%nat
  | PFail rest => (len rest <= len ts)%nat
  | PFatal _ => True
  | POut => False
  end.

Section With.
Variable E : nat -> list token -> pres.
Variable k : nat.
(* E behaves on every list shorter than k *)
Hypothesis HE : forall p ts, (len ts < k)%nat -> good ts (E p ts).

Lemma commas_ok n : forall ts, (len ts < k)%nat -> (len ts < n)%nat ->
  match commas E n ts with
  | inl _ => True
  | inr None => False
  | inr (Some r) => (len r <= len ts)%nat
  end.
Proof.
  induction n as [|n IH]; intros ts Hk Hn; [lia|]. cbn [commas].
  destruct ts as [|c r]; [cbn; lia|].
  destruct (is_tok KPunct "," c); [|cbn; lia].
  cbn [List.length] in *. assert (Hr : (len r < k)%nat) by lia.
  pose proof (HE 0%nat r Hr) as G. destruct (E 0%nat r) as [v r'|r'| |]; cbn [good] in G; try exact I; try contradiction; try lia.
  assert (A : (len r' < k)%nat) by lia. assert (B : (len r' < n)%nat) by lia.
  pose proof (IH r' A B) as H. destruct (commas E n r') as [e|[x|]]; try exact I; try contradiction; try lia.
Qed.

Lemma expression_list_ok ts : (len ts < k)%nat ->
  match expression_list E ts with
  | inl _ => True
  | inr None => False
  | inr (Some r) => (len r <= len ts)%nat
  end.
Proof.
  intros Hk. unfold expression_list.
  pose proof (HE 0%nat ts Hk) as G. destruct (E 0%nat ts) as [v r| r| |]; cbn [good] in G; try exact I; try contradiction; try lia.
  assert (A : (len r < k)%nat) by lia.
  pose proof (commas_ok (S (len r)) r A (Nat.lt_succ_diag_r _)) as H.
  destruct (commas E (S (len r)) r) as [e|[x|]]; try exact I; try contradiction; try lia.
Qed.

Lemma term_ok ts : (len ts <= k)%nat -> ts <> [] -> good ts (term E ts).
Proof.
  intros Hk Hne. destruct ts as [|t r]; [congruence|]. cbn [List.length] in Hk. unfold term.
  destruct (tkind t); cbn [good List.length]; try lia.
  - destruct (lit_value (tspell t)); cbn [good List.length]; [exact I|lia].
  - destruct (char_value (tspell t)); cbn [good List.length]; [exact I|lia].
  - destruct r as [|p r1]; [cbn; lia|]. destruct (is_tok KPunct "(" p); [|cbn [good List.length]; lia].
    cbn [List.length] in Hk. assert (A : (len r1 < k)%nat) by lia.
    pose proof (expression_list_ok r1 A) as H.
    destruct (expression_list E r1) as [e|[[|c r2]|]]; cbn [good List.length] in *; try exact I; try lia.
    + destruct (is_tok KPunct ")" c); cbn [good List.length]; lia.
Qed.

Lemma primary_ok ts : (len ts <= k)%nat -> ts <> [] -> good ts (primary E ts).
Proof.
  intros Hk Hne. destruct ts as [|t r]; [congruence|]. unfold primary.
  destruct (kind_eqb (tkind t) KOp).
  - destruct (lookup (tspell t) unary_operators) as [[prec a]|]; [|cbn; lia].
    cbn [List.length] in Hk. assert (A : (len r < k)%nat) by lia.
    pose proof (HE prec r A) as G. destruct (E prec r) as [v r'|r'| |]; cbn [good List.length] in *; try exact I; try lia.
    destruct (apply_unary (tspell t) v); cbn [good List.length]; [lia|exact I].
  - destruct (is_tok KPunct "(" t).
    + cbn [List.length] in Hk. assert (A : (len r < k)%nat) by lia.
      pose proof (HE 0%nat r A) as G. destruct (E 0%nat r) as [v [|c r']|r'| |]; cbn [good List.length] in *; try exact I; try lia.
      destruct (is_tok KPunct ")" c); cbn [good List.length]; lia.
    + apply term_ok; [exact Hk|discriminate].
Qed.

Lemma primary_nil : primary E [] = PFail [].
Proof. reflexivity. Qed.
End With.

(* the two mutually recursive functions, by induction on the fuel *)
Lemma fuel_ok f :
  (forall p ts, (2 * len ts + 1 <= f)%nat -> ts <> [] -> good ts (expression f p ts)) /\
  (forall p, expression (S f) p [] = PFail []) /\
  (forall p v ts, (2 * len ts + 1 <= f)%nat -> goodl ts (loop f p v ts)).
Proof.
  induction f as [f IH] using lt_wf_ind.
  assert (Enil : forall g p, expression (S g) p [] = PFail []) by reflexivity.
  split; [|split; [apply Enil|]].
  - intros p ts Hf Hne. destruct f as [|f]; [lia|]. cbn [expression].
    assert (HE : forall q ts', (len ts' < len ts)%nat -> good ts' (expression f q ts')).
    { intros q ts' Hl. destruct ts' as [|t' r'].
      - destruct f as [|f0]; [destruct ts; [congruence|cbn [List.length] in *; lia]|]. rewrite Enil. cbn. lia.
      - apply (proj1 (IH f (Nat.lt_succ_diag_r f))); [lia|discriminate]. }
    pose proof (primary_ok (expression f) (len ts) HE ts (Nat.le_refl _) Hne) as G.
    destruct (primary (expression f) ts) as [v r|r| |]; cbn [good] in G; try exact G; try contradiction.
    pose proof (proj2 (proj2 (IH f (Nat.lt_succ_diag_r f))) p v r) as L.
    assert (Hr : (2 * len r + 1 <= f)%nat) by lia. specialize (L Hr).
    destruct (loop f p v r) as [w r2|r2| |]; cbn [good goodl] in *; try exact I; try lia.
  - intros p v ts Hf. destruct f as [|f]; [lia|]. cbn [loop].
    destruct ts as [|t r]; [cbn; lia|]. cbn [List.length] in Hf.
    destruct (lookup (tspell t) binary_operators) as [[prec a]|]; [|cbn; lia].
    destruct (p <=? prec)%nat; [|cbn; lia].
    destruct (kind_eqb (tkind t) KOp); [|cbn; lia].
    assert (EX : forall q ts', (len ts' <= len r)%nat ->
               match expression f q ts' with
               | POk _ rest => (len rest < len ts')%nat \/ False
               | PFail rest => (len rest <= len ts')%nat
               | PFatal _ => True
               | POut => False
               end).
    { intros q ts' Hl. destruct ts' as [|t' r'].
      - destruct f as [|f0]; [lia|]. rewrite Enil. lia.
      - pose proof (proj1 (IH f (Nat.lt_succ_diag_r f)) q (t' :: r')) as G.
        assert (A : (2 * len (t' :: r') + 1 <= f)%nat) by lia. specialize (G A ltac:(discriminate)).
        destruct (expression f q (t' :: r')); cbn [good] in G; try exact G; left; exact G. }
    assert (LP : forall q w ts', (len ts' <= len r)%nat -> goodl ts' (loop f q w ts')).
    { intros q w ts' Hl. apply (proj2 (proj2 (IH f (Nat.lt_succ_diag_r f)))). lia. }
    destruct (String.eqb (tspell t) "?").
    + pose proof (EX 0%nat r (Nat.le_refl _)) as G1.
      destruct (expression f 0%nat r) as [tv r1|r1| |]; cbn [goodl List.length]; try exact I; try lia; try contradiction.
      destruct r1 as [|c r2]; [cbn; lia|].
      destruct (is_tok KOp ":" c); [|cbn [goodl List.length] in *; lia].
      cbn [List.length] in G1. assert (H2 : (len r2 <= len r)%nat) by lia.
      pose proof (EX (rhs_prec prec a) r2 H2) as G2.
      destruct (expression f (rhs_prec prec a) r2) as [fv r3|r3| |]; cbn [goodl List.length]; try exact I; try lia; try contradiction.
      assert (H3 : (len r3 <= len r)%nat) by lia.
      pose proof (LP p (cond_value v tv fv) r3 H3) as G3.
      destruct (loop f p (cond_value v tv fv) r3); cbn [goodl List.length] in *; try exact I; try lia.
    + pose proof (EX (rhs_prec prec a) r (Nat.le_refl _)) as G1.
      destruct (expression f (rhs_prec prec a) r) as [w r1|r1| |]; cbn [goodl List.length]; try exact I; try lia; try contradiction.
      destruct (apply_binary (tspell t) v w) as [x|]; [|exact I].
      assert (H3 : (len r1 <= len r)%nat) by lia.
      pose proof (LP p x r1 H3) as G3.
      destruct (loop f p x r1); cbn [goodl List.length] in *; try exact I; try lia.
Qed.

Theorem evaluate_never_out_of_fuel ts : evaluate ts <> OOutOfFuel.
Proof.
  unfold evaluate, evaluate_fuel, fuel_for. destruct ts as [|t r].
  - cbn. discriminate.
  - pose proof (proj1 (fuel_ok (2 * len (t :: r) + 4)) 0%nat (t :: r)) as G.
    specialize (G ltac:(lia) ltac:(discriminate)).
    destruct (expression (2 * len (t :: r) + 4) 0 (t :: r)) as [v rest|rest|e|]; cbn [good] in G; try contradiction; try discriminate.
    destruct e; discriminate.
Qed.

(* ------------------------------------------------------------------ the lexer *)
Notation clen := (@List.length ascii).

Lemma num_tail_eq a b r :
  num_tail (a :: b :: r) =
  if is_exponent a b then let (x, y) := num_tail r in (a :: b :: x, y)
  else if num_char a then let (x, y) := num_tail (b :: r) in (a :: x, y)
  else ([], a :: b :: r).
Proof. reflexivity. Qed.

Lemma num_tail_len s : (clen (snd (num_tail s)) <= clen s)%nat.
Proof.
  induction s as [s IH] using (induction_ltof1 _ (@List.length ascii)). unfold ltof in IH.
  destruct s as [|a [|b r]].
  - cbn. lia.
  - cbn [num_tail]. destruct (num_char a); cbn; lia.
  - rewrite num_tail_eq. destruct (is_exponent a b).
    + pose proof (IH r ltac:(cbn; lia)). destruct (num_tail r); cbn [snd List.length] in *. lia.
    + destruct (num_char a); [|cbn; lia].
      pose proof (IH (b :: r) ltac:(cbn; lia)). destruct (num_tail (b :: r)); cbn [snd List.length] in *. lia.
Qed.

Lemma take_while_len p n : forall s, (clen (snd (take_while p n s)) <= clen s)%nat.
Proof.
  induction n as [|n IH]; intros s; cbn [take_while]; [cbn; lia|].
  destruct s as [|c r]; [cbn; lia|]. destruct (p c); [|cbn; lia].
  pose proof (IH r). destruct (take_while p n r); cbn [snd List.length] in *. lia.
Qed.

Lemma str_body_len s : forall x y, str_body s = Some (x, y) -> (clen y < clen s)%nat.
Proof.
  induction s as [s IH] using (induction_ltof1 _ (@List.length ascii)). unfold ltof in IH.
  intros x y. destruct s as [|c t]; cbn [str_body]; [discriminate|].
  destruct (is_ch 34 c); [intros H; inversion H; subst; cbn; lia|].
  destruct t as [|d r]; [discriminate|].
  destruct (is_ch 92 c && is_ch 34 d).
  - destruct (str_body r) as [[x' y']|] eqn:E; [|discriminate]. intros H; inversion H; subst.
    pose proof (IH r ltac:(cbn; lia) _ _ E). cbn [List.length]. lia.
  - destruct (str_body (d :: r)) as [[x' y']|] eqn:E; [|discriminate]. intros H; inversion H; subst.
    pose proof (IH (d :: r) ltac:(cbn; lia) _ _ E). cbn [List.length] in *. lia.
Qed.

Lemma match_any_len lits : forallb (fun l => negb (String.eqb l "")) lits = true ->
  forall s v rest, match_any lits s = Some (v, rest) -> (clen rest < clen s)%nat.
Proof.
  induction lits as [|l r IH]; intros Hne s v rest; cbn [match_any]; [discriminate|].
  cbn [forallb] in Hne. apply andb_true_iff in Hne. destruct Hne as [Hl Hr].
  destruct (starts_with (list_of_string l) s) eqn:SW; [|apply IH; exact Hr].
  intros H; inversion H; subst. destruct l as [|c l]; [discriminate|]. cbn [list_of_string List.length].
  destruct s as [|a s']; [discriminate|]. cbn [skipn List.length]. pose proof (skipn_length (clen (list_of_string l)) s'). lia.
Qed.

Lemma tokenize_one_len s t rest : tokenize_one s = Some (t, rest) -> (clen rest < clen s)%nat.
Proof.
  unfold tokenize_one.
  assert (G : forall names, first_candidate names s = Some (t, rest) -> (clen rest < clen s)%nat).
  { induction names as [|n r IH]; cbn [first_candidate]; [discriminate|].
    destruct (candidate n s) as [[t' rest']|] eqn:C; [|exact IH]. intros H; inversion H; subst. clear IH H.
    unfold candidate in C.
    repeat match type of C with (if ?b then _ else _) = _ => destruct b end; try discriminate.
    - unfold lex_number in C.
      destruct (match s with [] => ([], s) | c :: r0 => if is_ch 46 c then ([c], r0) else ([], s) end) as [pre s1] eqn:P.
      assert (L1 : (clen s1 <= clen s)%nat).
      { destruct s as [|c r0]; [inversion P; cbn; lia|]. destruct (is_ch 46 c); inversion P; subst; cbn; lia. }
      destruct s1 as [|d r1]; [discriminate|]. destruct (is_dig d); [|discriminate].
      pose proof (num_tail_len r1). destruct (num_tail r1) as [x y]. inversion C; subst. cbn [snd List.length] in *. lia.
    - unfold lex_char in C. destruct s as [|q s1]; [discriminate|]. destruct (is_ch 39 q); [|discriminate].
      match type of C with match match ?B with _ => _ end with _ => _ end = _ => destruct B as [[v0 [|q2 r2]]|] eqn:BB end; try discriminate.
      destruct (is_ch 39 q2); [|discriminate]. inversion C; subst.
      assert (L : (clen (q2 :: rest) <= clen s1)%nat).
      { destruct s1 as [|b t0]; [discriminate|].
        destruct (is_ch 92 b && match t0 with [] => true | c :: _ => is_print c end).
        - destruct t0 as [|c t2]; [discriminate|]. destruct (is_octal c).
          + pose proof (take_while_len is_octal 2 t2). destruct (take_while is_octal 2 t2). inversion BB; subst. cbn [snd List.length] in *. lia.
          + destruct (is_ch 120 c).
            * pose proof (take_while_len is_hexd (clen t2) t2). destruct (take_while is_hexd (clen t2) t2). inversion BB; subst. cbn [snd List.length] in *. lia.
            * inversion BB; subst. cbn [List.length]. lia.
        - destruct (is_print b); inversion BB; subst. cbn [List.length]. lia. }
      cbn [List.length] in *. lia.
    - unfold lex_string in C. destruct s as [|q r0]; [discriminate|]. destruct (is_ch 34 q); [|discriminate].
      destruct (str_body r0) as [[x y]|] eqn:SB; [|discriminate]. inversion C; subst.
      pose proof (str_body_len _ _ _ SB). cbn [List.length]. lia.
    - unfold lex_ident in C. destruct s as [|c r0]; [discriminate|]. destruct (id_char c && negb (is_dig c)) eqn:IC; [|discriminate].
      cbn [List.length take_while] in C. apply andb_true_iff in IC. destruct IC as [IC _]. rewrite IC in C.
      pose proof (take_while_len id_char (clen r0) r0). destruct (take_while id_char (clen r0) r0). inversion C; subst. cbn [snd List.length] in *. lia.
    - destruct (match_any lexer_operators s) as [[v0 r0]|] eqn:M; [|discriminate]. inversion C; subst.
      apply (match_any_len lexer_operators eq_refl _ _ _ M).
    - destruct (match_any lexer_punctuators s) as [[v0 r0]|] eqn:M; [|discriminate]. inversion C; subst.
      apply (match_any_len lexer_punctuators eq_refl _ _ _ M). }
  apply G.
Qed.

Lemma skip_ws_len s : (clen (skip_ws s) <= clen s)%nat.
Proof. induction s as [|c r IH]; cbn [skip_ws]; [lia|]. destruct (is_ws c); cbn [List.length]; lia. Qed.

Lemma tokenize_fuel_total f : forall s, (clen s < f)%nat -> tokenize_fuel f s <> None.
Proof.
  induction f as [|f IH]; intros s Hf; [lia|]. cbn [tokenize_fuel].
  pose proof (skip_ws_len s) as W. destruct (skip_ws s) as [|c r]; [discriminate|]. cbn [List.length] in W.
  destruct (tokenize_one (c :: r)) as [[t rest]|] eqn:T.
  - pose proof (tokenize_one_len _ _ _ T) as L. cbn [List.length] in L.
    pose proof (IH rest ltac:(lia)). destruct (tokenize_fuel f rest); [discriminate|congruence].
  - pose proof (IH r ltac:(lia)). destruct (tokenize_fuel f r); [discriminate|congruence].
Qed.

Theorem tokenize_total s : tokenize s <> None.
Proof. apply tokenize_fuel_total. lia. Qed.

Lemma expand_not_fuel env ts : expand env ts <> inl OOutOfFuel.
Proof.
  induction ts as [ts IH] using (induction_ltof1 _ (@List.length token)). unfold ltof in IH.
  destruct ts as [|t r]; cbn [expand]; [discriminate|].
  assert (R : forall r', (len r' <= len r)%nat -> expand env r' <> inl OOutOfFuel) by (intros r' H; apply IH; cbn; lia).
  assert (K : forall r' (f : list token -> list token), (len r' <= len r)%nat ->
            match expand env r' with inr out => inr (f out) | inl e => inl e end <> @inl outcome (list token) OOutOfFuel).
  { intros r' f H. pose proof (R r' H). destruct (expand env r'); [congruence|discriminate]. }
  destruct (is_id t); [|apply K; lia].
  destruct (String.eqb (tspell t) "defined").
  - destruct r as [|t1 r1]; [discriminate|]. destruct (String.eqb (tspell t1) "(").
    + destruct r1 as [|id r2]; [discriminate|]. destruct r2 as [|p r3]; [discriminate|].
      destruct (negb (String.eqb (tspell p) ")")); [discriminate|]. destruct (negb (is_id id)); [discriminate|].
      apply K. cbn [List.length]. lia.
    + destruct (negb (is_id t1)); [discriminate|]. apply K. cbn [List.length]. lia.
  - destruct (lookup (tspell t) env) as [body|]; [|apply K; lia].
    destruct (existsb is_id body); [discriminate|]. apply K. lia.
Qed.

(* the whole route never reports out-of-fuel, whatever the text *)
Theorem evaluate_text_never_out_of_fuel env s : evaluate_text env s <> OOutOfFuel.
Proof.
  unfold evaluate_text. pose proof (tokenize_total s). destruct (tokenize s) as [ts|]; [|congruence].
  unfold evaluate_for_platform. pose proof (expand_not_fuel env ts).
  destruct (expand env ts) as [e|ts']; [congruence|]. apply evaluate_never_out_of_fuel.
Qed.
