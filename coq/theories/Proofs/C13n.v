(* C13 - normpath laws for ALL strings (absolute and relative): shape of the
   result and idempotence. *)
From Coq Require Import Bool Arith Ascii Lia List.
From CBI Require Import Model.C13p Model.C13fs Spec.C13 Proofs.C13p.
Import ListNotations.

Lemma is_slash_slash : is_slash slash = true.
Proof. reflexivity. Qed.

Lemma proper_head c : proper c = true -> exists x r, c = x :: r /\ is_slash x = false.
Proof.
  intro H. apply proper_spec in H. destruct H as (H1 & _ & _ & H4).
  destruct c as [|x r]; [congruence|]. exists x, r. split; [reflexivity|].
  cbn in H4. apply andb_prop in H4. destruct H4 as [H4 _]. apply negb_true_iff in H4. exact H4.
Qed.

Lemma dotdot_head : exists x r, dotdot = x :: r /\ is_slash x = false.
Proof. exists dotc, [dotc]. split; reflexivity. Qed.

(* ---------- absolute ---------- *)
Lemma intercalate_head (n : str) (r : list str) (x : ascii) (n' : str) :
  n = x :: n' -> exists rest : str, intercalate (n :: r) = x :: rest.
Proof.
  intros ->. destruct r as [|m r]; [exists n'; reflexivity|].
  exists (n' ++ slash :: intercalate (m :: r)). reflexivity.
Qed.

Lemma initial_slashes_render k l :
  (k = 1 \/ k = 2) -> Forall (fun x => proper x = true) l -> initial_slashes (render k l) = k.
Proof.
  intros Hk P. unfold render.
  destruct (rev l) as [|n r] eqn:E.
  - destruct Hk as [-> | ->]; reflexivity.
  - assert (Pn : proper n = true).
    { assert (In n (rev l)) by (rewrite E; left; reflexivity).
      rewrite <- in_rev in H. rewrite Forall_forall in P. apply P. exact H. }
    destruct (proper_head n Pn) as (x & n' & En & Hx).
    destruct (intercalate_head n r x n' En) as [rest ->].
    destruct Hk as [-> | ->]; cbn [repeat app].
    + destruct rest as [|y rest]; cbn; rewrite Hx; reflexivity.
    + cbn. rewrite Hx. reflexivity.
Qed.

Lemma normpath_idem_abs t : isabs t = true -> normpath (normpath t) = normpath t.
Proof.
  intro H. destruct (normpath_abs t H) as [E Hk].
  assert (P : Forall (fun x => proper x = true) (resolve [] t)) by (apply resolve_proper; constructor).
  rewrite E.
  assert (Ha : isabs (render (initial_slashes t) (resolve [] t)) = true) by (apply isabs_render; lia).
  destruct (normpath_abs _ Ha) as [E2 _]. rewrite E2.
  rewrite initial_slashes_render by assumption.
  rewrite resolve_render; [reflexivity|lia|exact P].
Qed.

(* ---------- relative ---------- *)
(* new_comps (reversed): proper names on top of a block of ".." *)
Definition relnormal (acc : list str) : Prop :=
  exists names ups, acc = names ++ repeat dotdot ups /\ Forall (fun x => proper x = true) names.

Lemma str_eqb_dotdot_proper c : proper c = true -> str_eqb c dotdot = false.
Proof. intro H. apply proper_spec in H. apply str_eqb_neq. tauto. Qed.

Lemma classify_comp c :
  noslash c = true ->
  (str_eqb c [] || str_eqb c dot = true) \/
  (str_eqb c [] || str_eqb c dot = false /\ str_eqb c dotdot = true) \/
  (str_eqb c [] || str_eqb c dot = false /\ str_eqb c dotdot = false /\ proper c = true).
Proof.
  intro N. destruct (str_eqb c [] || str_eqb c dot) eqn:E1; [left; reflexivity|right].
  destruct (str_eqb c dotdot) eqn:E2; [left; split; reflexivity|right].
  split; [reflexivity|split; [reflexivity|]].
  apply proper_spec. apply orb_false_iff in E1. destruct E1 as [E1 E3].
  rewrite str_eqb_neq in E1, E2, E3. tauto.
Qed.

Lemma norm_step_rel acc c : noslash c = true -> relnormal acc -> relnormal (norm_step false acc c).
Proof.
  intros N (names & ups & -> & P). unfold norm_step.
  destruct (classify_comp c N) as [E | [[E1 E2] | (E1 & E2 & E3)]].
  - rewrite E. exists names, ups. split; [reflexivity|exact P].
  - rewrite E1, E2. cbn [negb orb andb].
    destruct names as [|n names].
    + cbn [app]. destruct ups as [|u].
      * cbn. exists [], 1. apply str_eqb_eq in E2. subst c. split; [reflexivity|constructor].
      * cbn [repeat]. rewrite str_eqb_refl. exists [], (S (S u)).
        apply str_eqb_eq in E2. subst c. split; [reflexivity|constructor].
    + inversion P; subst. cbn [app]. rewrite (str_eqb_dotdot_proper n) by assumption.
      exists names, ups. split; [reflexivity|assumption].
  - rewrite E1, E2. cbn [negb orb]. exists (c :: names), ups. split; [reflexivity|].
    constructor; assumption.
Qed.

Lemma fold_norm_step_rel comps acc :
  Forall (fun c => noslash c = true) comps -> relnormal acc ->
  relnormal (fold_left (norm_step false) comps acc).
Proof.
  revert acc. induction comps as [|c r IH]; intros acc N R; cbn; [exact R|].
  inversion N; subst. apply IH; [assumption|]. apply norm_step_rel; assumption.
Qed.

(* re-normalising an already normal component list rebuilds it *)
Lemma fold_norm_ups u : fold_left (norm_step false) (repeat dotdot u) [] = repeat dotdot u.
Proof.
  assert (G : forall v acc, acc = repeat dotdot v ->
            fold_left (norm_step false) (repeat dotdot u) acc = repeat dotdot (u + v)).
  { induction u as [|u IH]; intros v acc ->; [reflexivity|].
    cbn [repeat fold_left].
    assert (E : norm_step false (repeat dotdot v) dotdot = repeat dotdot (S v)).
    { destruct v; reflexivity. }
    rewrite E. rewrite (IH (S v)) by reflexivity. f_equal. lia. }
  rewrite (G 0 []) by reflexivity. f_equal. lia.
Qed.

Lemma fold_norm_names names acc :
  Forall (fun x => proper x = true) names ->
  fold_left (norm_step false) names acc = rev names ++ acc.
Proof.
  revert acc. induction names as [|c r IH]; intros acc P; cbn; [reflexivity|].
  inversion P; subst.
  assert (E : norm_step false acc c = c :: acc).
  { unfold norm_step. apply proper_spec in H1. destruct H1 as (A1 & A2 & A3 & _).
    apply str_eqb_neq in A1, A2, A3. rewrite A1, A2, A3. reflexivity. }
  rewrite E, IH by assumption. rewrite <- app_assoc. reflexivity.
Qed.

Lemma rev_repeat {A} (x : A) n : rev (repeat x n) = repeat x n.
Proof.
  induction n; cbn; [reflexivity|]. rewrite IHn. clear IHn.
  induction n; cbn; [reflexivity|]. rewrite IHn. reflexivity.
Qed.

Lemma initial_slashes_rel p : isabs p = false -> initial_slashes p = 0.
Proof.
  destruct p as [|a [|b [|c r]]]; cbn; intro H; try rewrite H; reflexivity.
Qed.

Lemma normpath_rel s :
  isabs s = false ->
  exists names ups, Forall (fun x => proper x = true) names /\
    normpath s = match repeat dotdot ups ++ rev names with [] => dot | comps => intercalate comps end /\
    isabs (normpath s) = false.
Proof.
  intro H. unfold normpath. destruct s as [|a r] eqn:Es.
  - exists [], 0. repeat split. constructor.
  - rewrite <- Es in *. rewrite (initial_slashes_rel s H). cbn [Nat.ltb Nat.leb repeat app].
    destruct (fold_norm_step_rel (split s) [] (split_all_noslash s)) as (names & ups & E & P).
    { exists [], 0. split; [reflexivity|constructor]. }
    rewrite E. exists names, ups. split; [exact P|].
    rewrite rev_app_distr, rev_repeat.
    destruct (repeat dotdot ups ++ rev names) as [|n cs] eqn:Ec; [repeat split|].
    assert (Hn : exists x n', n = x :: n' /\ is_slash x = false).
    { destruct ups as [|u].
      - cbn in Ec. assert (In n (rev names)) by (rewrite Ec; left; reflexivity).
        rewrite <- in_rev in H0. rewrite Forall_forall in P. apply proper_head. apply P. exact H0.
      - cbn in Ec. inversion Ec; subst. apply dotdot_head. }
    destruct Hn as (x & n' & En & Hx).
    destruct (intercalate_head n cs x n' En) as [rest Er]. rewrite Er.
    split; [reflexivity|]. cbn. exact Hx.
Qed.

Lemma normpath_idem_rel s : isabs s = false -> normpath (normpath s) = normpath s.
Proof.
  intro H. destruct (normpath_rel s H) as (names & ups & P & E & Hr).
  rewrite E.
  destruct (repeat dotdot ups ++ rev names) as [|n cs] eqn:Ec.
  - reflexivity.
  - rewrite <- Ec.
    assert (Hns : Forall (fun c => noslash c = true) (repeat dotdot ups ++ rev names)).
    { apply Forall_app. split.
      - clear. induction ups; cbn; constructor; [reflexivity|assumption].
      - apply proper_noslash. apply Forall_rev. exact P. }
    assert (Hne : repeat dotdot ups ++ rev names <> []) by (rewrite Ec; discriminate).
    set (p := intercalate (repeat dotdot ups ++ rev names)).
    assert (Hp : isabs p = false) by (unfold p; rewrite <- Hr, E, Ec; reflexivity).
    unfold normpath. destruct p as [|a r] eqn:Ep.
    + (* the joined string is empty: impossible, its first component is not empty *)
      exfalso. unfold p in Ep. rewrite Ec in Ep.
      assert (Hn : exists x n', n = x :: n').
      { destruct ups as [|u].
        - cbn in Ec. assert (In n (rev names)) by (rewrite Ec; left; reflexivity).
          rewrite <- in_rev in H0. rewrite Forall_forall in P.
          destruct (proper_head n (P n H0)) as (x & n' & En & _). exists x, n'. exact En.
        - cbn in Ec. inversion Ec; subst. exists dotc, [dotc]. reflexivity. }
      destruct Hn as (x & n' & En). destruct (intercalate_head n cs x n' En) as [rest Er].
      rewrite Er in Ep. discriminate.
    + rewrite <- Ep in *. rewrite (initial_slashes_rel p Hp). cbn [Nat.ltb Nat.leb repeat app].
      unfold p at 1. rewrite split_intercalate by assumption.
      rewrite fold_left_app, fold_norm_ups, fold_norm_names by (apply Forall_rev; exact P).
      rewrite rev_app_distr, rev_repeat, rev_involutive.
      fold p. rewrite Ep. reflexivity.
Qed.

Lemma normpath_idempotent s : normpath (normpath s) = normpath s.
Proof.
  destruct (isabs s) eqn:H; [apply normpath_idem_abs|apply normpath_idem_rel]; exact H.
Qed.
