(* C14 - the duplicate groups, as a set of sets, do not depend on the order in
   which the code base is enumerated, on the digest, or on what set.pop()
   returns.  A corollary of C16 (exactness of find_duplicates). *)
From Coq Require Import ZArith String Bool Permutation List.
From CBI Require Import Lib.Data Model.C16 Proofs.C16.
Import ListNotations.

Definition groups_sub (out out' : list (list file)) : Prop :=
  forall g, In g out -> exists g', In g' out' /\ forall p, In p g <-> In p g'.
Definition same_groups (out out' : list (list file)) : Prop := groups_sub out out' /\ groups_sub out' out.

Lemma ceq_sym a b : ceq a b = ceq b a.
Proof. unfold ceq. apply String.eqb_sym. Qed.

Lemma twin_perm files files' p : Permutation files files' -> nonlink_twin files p -> nonlink_twin files' p.
Proof.
  intros P (I & L & q & Iq & Lq & Nq & Eq).
  split; [eapply Permutation_in; eauto|]. split; auto.
  exists q. repeat split; auto. eapply Permutation_in; eauto.
Qed.

Lemma in_concat_iff {A} (l : list (list A)) x : In x (concat l) <-> exists g, In g l /\ In x g.
Proof. rewrite in_concat. firstorder. Qed.

Lemma exact_sub files files' out out' :
  Permutation files files' ->
  Forall group_ok out -> Forall group_ok out' ->
  ForallOrdPairs differ out -> ForallOrdPairs differ out' ->
  (forall p, In p (concat out) <-> nonlink_twin files p) ->
  (forall p, In p (concat out') <-> nonlink_twin files' p) ->
  groups_sub out out'.
Proof.
  intros P G G' D D' C C' g Hg.
  rewrite Forall_forall in G, G'.
  destruct (G g Hg) as (Hlen & _ & Heq).
  destruct g as [|p g0]; [cbn in Hlen; inversion Hlen|].
  set (g := p :: g0) in *.
  assert (Ip : In p g) by now left.
  (* the group of out' that holds p *)
  assert (exists g', In g' out' /\ In p g') as (g' & Hg' & Ipg').
  { apply in_concat_iff, C', (twin_perm files files'); auto. apply C, in_concat_iff. eauto. }
  exists g'. split; auto.
  assert (sub : forall (o1 o2 : list (list file)) (f1 f2 : list file) (a b : list file),
             Permutation f1 f2 ->
             (forall g, In g o1 -> group_ok g) -> ForallOrdPairs differ o2 ->
             (forall q, In q (concat o1) <-> nonlink_twin f1 q) -> (forall q, In q (concat o2) <-> nonlink_twin f2 q) ->
             In a o1 -> In b o2 -> In p a -> In p b -> forall x, In x a -> In x b).
  { intros o1 o2 f1 f2 a b Pf Go1 Do2 C1 C2 Ha Hb Ipa Ipb x Ix.
    assert (ceq p x = true) as Epx by (apply (Go1 a Ha); auto).
    assert (exists b', In b' o2 /\ In x b') as (b' & Hb' & Ixb').
    { apply in_concat_iff, C2, (twin_perm f1 f2); auto. apply C1, in_concat_iff. eauto. }
    destruct (ForallOrdPairs_In Do2 _ _ Hb Hb') as [->|[Df|Df]]; auto.
    - rewrite (Df p x Ipb Ixb') in Epx. discriminate.
    - rewrite ceq_sym, (Df x p Ixb' Ipb) in Epx. discriminate. }
  intros x. split.
  - apply (sub out out' files files' g g'); auto.
  - apply (sub out' out files' files g' g); auto. now apply Permutation_sym.
Qed.

Section Dup.
Variables (h h' : string -> Z) (choose choose' : list file -> option (file * list file)).
Hypotheses (CO : choose_ok choose) (CO' : choose_ok choose').

Lemma duplicates_groups_perm files files' :
  NoDup files -> Permutation files files' ->
  exists out out', find_duplicates h choose files = Some out /\
                   find_duplicates h' choose' files' = Some out' /\
                   same_groups out out'.
Proof.
  intros N P.
  assert (N' : NoDup files') by (eapply Permutation_NoDup; eauto).
  destruct (find_duplicates_exact h choose CO files N) as (out & E & G & D & C).
  destruct (find_duplicates_exact h' choose' CO' files' N') as (out' & E' & G' & D' & C').
  exists out, out'. split; auto. split; auto. split.
  - apply (exact_sub files files' out out'); auto.
  - apply (exact_sub files' files out' out); auto. now apply Permutation_sym.
Qed.
End Dup.
