(* C13 - database-level lemmas: entries are processed independently, skipped
   entries leave the rest alone. *)
From Coq Require Import Bool Arith Ascii Lia String List.
From CBI Require Import Lib.Res Model.C13p Model.C13fs Model.C13 Spec.C13 Spec.C13db Proofs.C13p Proofs.C13.
Import ListNotations.

Section DB.
Variable fs : fsys.
Variable cwd rootdir : str.

Notation loop := (loop fs cwd rootdir).
Notation do_entry := (do_entry fs cwd rootdir).
Notation load := (load_database fs cwd rootdir).

Lemma validated_app a b :
  validated (a ++ b) = match validated a, validated b with
                       | Some x, Some y => Some (x ++ y) | _, _ => None end.
Proof.
  induction a as [|e a IH]; cbn.
  - destruct (validated b); reflexivity.
  - rewrite IH. destruct (e_argv e); [|reflexivity].
    destruct (validated a); [|reflexivity]. destruct (validated b); reflexivity.
Qed.

Lemma with_files_app a b :
  with_files (a ++ b) = match with_files a, with_files b with
                        | Some x, Some y => Some (x ++ y) | _, _ => None end.
Proof.
  induction a as [|[[d f] x] a IH]; cbn.
  - destruct (with_files b); reflexivity.
  - rewrite IH. destruct f; [|reflexivity].
    destruct (with_files a); [|reflexivity]. destruct (with_files b); reflexivity.
Qed.

Lemma loop_app a b :
  loop (a ++ b) = match loop a with
                  | Err e => Err e
                  | Ok (o, w) => match loop b with
                                 | Err e => Err e
                                 | Ok (o', w') => Ok (o ++ o', w ++ w')
                                 end
                  end.
Proof.
  induction a as [|[[d f] x] a IH]; cbn.
  - destruct (loop b) as [[o w]|]; reflexivity.
  - destruct (do_entry d f x) as [[o w]|e]; [|reflexivity].
    rewrite IH. destruct (loop a) as [[o1 w1]|]; [|reflexivity].
    destruct (loop b) as [[o2 w2]|]; [|reflexivity].
    rewrite !app_assoc. reflexivity.
Qed.

(* an entry that load_database skips with warning w *)
Definition skipped (e : entry) (w : warn) : Prop :=
  exists f a, e_file e = Some f /\ e_argv e = Some a /\ do_entry (e_dir e) f a = Ok ([], [w]).

Lemma skips_are_local xs bad ys w :
  skipped bad w ->
  match load (xs ++ ys) with
  | Err e => load (xs ++ bad :: ys) = Err e
  | Ok (o, ws) => exists w1 w2, ws = w1 ++ w2 /\ load (xs ++ bad :: ys) = Ok (o, w1 ++ w :: w2)
  end.
Proof.
  intros (f & a & Hf & Ha & Hd).
  unfold load_database. rewrite !validated_app. cbn [validated]. rewrite Ha.
  destruct (validated xs) as [vx|]; [|reflexivity].
  destruct (validated ys) as [vy|]; [|reflexivity].
  rewrite !with_files_app. cbn [with_files]. rewrite Hf.
  destruct (with_files vx) as [fx|]; [|reflexivity].
  destruct (with_files vy) as [fy|]; [|reflexivity].
  rewrite !loop_app. cbn [Model.C13.loop]. rewrite Hd.
  destruct (loop fx) as [[o1 w1]|]; [|reflexivity].
  destruct (loop fy) as [[o2 w2]|]; [|reflexivity].
  cbn [app].
  destruct (o1 ++ o2) eqn:E.
  - exists w1, (w2 ++ [WNoFiles]). split; [rewrite app_assoc; reflexivity|].
    f_equal. f_equal. rewrite <- app_assoc. reflexivity.
  - exists w1, w2. split; reflexivity.
Qed.

(* the three kinds of entries the property names are skipped, each with its warning *)
Lemma empty_command_skipped d f : do_entry d f [] = Ok ([], [WUnsupported]).
Proof. reflexivity. Qed.

Lemma non_source_skipped d f a : is_source_file f = false -> do_entry d f a = Ok ([], [WUnsupported]).
Proof. intro H. unfold Model.C13.do_entry, is_supported. rewrite H. destruct a; reflexivity. Qed.

Lemma missing_file_skipped d f a :
  is_supported f a = true ->
  os_path_exists fs (cwdloc cwd) (file_path cwd (filedir cwd rootdir d) f) = false ->
  do_entry d f a = Ok ([], [WMissing (file_path cwd (filedir cwd rootdir d) f)]).
Proof. intros H1 H2. unfold Model.C13.do_entry. rewrite H1, H2. reflexivity. Qed.
End DB.

(* ---------- only files named by entries come out ---------- *)
Section Named.
Variable fs : fsys.
Variable cwd rootdir : str.

Lemma validated_In es v d f a :
  validated es = Some v -> In (d, f, a) v ->
  exists e, In e es /\ e_dir e = d /\ e_file e = f /\ e_argv e = Some a.
Proof.
  revert v. induction es as [|e es IH]; intros v H I; cbn in H.
  - inversion H; subst. destruct I.
  - destruct (e_argv e) as [a'|] eqn:Ea; [|discriminate].
    destruct (validated es) as [t|]; [|discriminate]. inversion H; subst.
    destruct I as [I|I].
    + inversion I; subst. exists e. repeat split; [left; reflexivity|exact Ea].
    + destruct (IH t eq_refl I) as (e' & He & R). exists e'. split; [right; exact He|exact R].
Qed.

Lemma with_files_In v l d f a :
  with_files v = Some l -> In (d, f, a) l -> In (d, Some f, a) v.
Proof.
  revert l. induction v as [|[[d' f'] a'] v IH]; intros l H I; cbn in H.
  - inversion H; subst. destruct I.
  - destruct f' as [f'|]; [|discriminate].
    destruct (with_files v) as [t|]; [|discriminate]. inversion H; subst.
    destruct I as [I|I].
    + inversion I; subst. left. reflexivity.
    + right. apply (IH t eq_refl I).
Qed.

Lemma do_entry_outputs d f a o w x :
  do_entry fs cwd rootdir d f a = Ok (o, w) -> In x o ->
  o_file x = file_path cwd (filedir cwd rootdir d) f /\
  o_incs x = map (inc_path cwd (filedir cwd rootdir d)) (extract_incs (tl a)).
Proof.
  unfold do_entry. destruct (negb (is_supported f a)); [intro H; inversion H; subst; intros []|].
  destruct (negb (os_path_exists _ _ _)); [intro H; inversion H; subst; intros []|].
  intro H. inversion H; subst. intros [<-|[]]. split; reflexivity.
Qed.

Lemma loop_outputs l o w x :
  loop fs cwd rootdir l = Ok (o, w) -> In x o ->
  exists d f a, In (d, f, a) l /\
    o_file x = file_path cwd (filedir cwd rootdir d) f /\
    o_incs x = map (inc_path cwd (filedir cwd rootdir d)) (extract_incs (tl a)).
Proof.
  revert o w. induction l as [|[[d f] a] l IH]; intros o w H I; cbn in H.
  - inversion H; subst. destruct I.
  - destruct (do_entry fs cwd rootdir d f a) as [[o1 w1]|] eqn:D; [|discriminate].
    destruct (loop fs cwd rootdir l) as [[o2 w2]|] eqn:L; [|discriminate].
    inversion H; subst. apply in_app_or in I. destruct I as [I|I].
    + exists d, f, a. split; [left; reflexivity|]. eapply do_entry_outputs; eassumption.
    + destruct (IH o2 w2 eq_refl I) as (d' & f' & a' & In' & R).
      exists d', f', a'. split; [right; exact In'|exact R].
Qed.

Lemma only_named_files es o w x :
  load_database fs cwd rootdir es = Ok (o, w) -> In x o ->
  exists e f a, In e es /\ e_file e = Some f /\ e_argv e = Some a /\
    o_file x = file_path cwd (filedir cwd rootdir (e_dir e)) f /\
    o_incs x = map (inc_path cwd (filedir cwd rootdir (e_dir e))) (extract_incs (tl a)).
Proof.
  unfold load_database.
  destruct (validated es) as [v|] eqn:V; [|discriminate].
  destruct (with_files v) as [l|] eqn:F; [|discriminate].
  destruct (loop fs cwd rootdir l) as [[o' w']|] eqn:L; [|discriminate].
  intro H. inversion H; subst. intro I.
  destruct (loop_outputs l o w' x L I) as (d & f & a & Il & R).
  pose proof (with_files_In v l d f a F Il) as Iv.
  destruct (validated_In es v d (Some f) a V Iv) as (e & Ie & Ed & Ef & Ea).
  exists e, f, a. subst d. repeat split; try assumption; apply R.
Qed.
End Named.
