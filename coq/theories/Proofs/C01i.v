(* C01 — the concrete instance: whenever the reference preprocessor accepts a
   structured program without a diagnostic, the model of codebasin computes
   the same attribution and the same final macro environment. *)
From Coq Require Import List Bool Arith ZArith String.
From CBI Require Import Lib.Res Model.C01 Spec.C01 Model.C01i Proofs.C01.
Import ListNotations.

Lemma exec_mono a p p' : exec_S a p = Ok p' -> exec_M a p = Ok p'.
Proof.
  destruct a as [|m v|m|]; cbn; try (intros H; exact H).
  destruct (lookup m (menv p)) as [v'|]; [|intros H; exact H].
  destruct (mval_eqb v v'); [intros H; exact H|discriminate].
Qed.

Theorem instance_attribution (its : list (item act cond)) p r :
  run_Si (flats act cond its) p = Ok r -> run_Mi (flats act cond its) p = Ok r.
Proof.
  intros H. unfold run_Mi. rewrite attribution.
  apply (run_S_mono pstate act cond mark exec_S exec_M ev exec_mono). exact H.
Qed.

(* the alias chain of an identifier is followed with enough fuel: expansion of an
   identifier never runs out of fuel, whatever the macro table (cycles included) *)
Lemma lookup_key (m : string) (e : env) v : lookup m e = Some v -> In m (map fst e).
Proof.
  induction e as [|[k w] e IH]; cbn; [discriminate|].
  destruct (String.eqb k m) eqn:E; [apply String.eqb_eq in E; subst; auto|auto].
Qed.

Lemma ident_val_fuel (e : env) : forall fuel seen m,
  NoDup seen -> incl seen (map fst e) -> ~ In m seen ->
  List.length e < fuel + List.length seen ->
  ident_val_f fuel seen m e <> Err "OutOfFuel: alias chain".
Proof.
  induction fuel as [|f IH]; intros seen m Hnd Hin Hm Hlen; cbn [ident_val_f];
    destruct (lookup m e) as [[|z|m']|] eqn:El; try discriminate.
  - destruct (existsb (String.eqb m') (m :: seen)) eqn:Ex; [discriminate|].
    exfalso. assert (Hk := lookup_key _ _ _ El).
    assert (NoDup (m :: seen)) by (constructor; assumption).
    assert (incl (m :: seen) (map fst e)) by (intros x [<-|Hx]; auto).
    pose proof (NoDup_incl_length H H0) as L. rewrite map_length in L. cbn in *. Lia.lia.
  - destruct (existsb (String.eqb m') (m :: seen)) eqn:Ex; [discriminate|].
    assert (Hk := lookup_key _ _ _ El).
    apply IH.
    + constructor; assumption.
    + intros x [<-|Hx]; auto.
    + intros Hc. assert (existsb (String.eqb m') (m :: seen) = true); [|congruence].
      apply existsb_exists. exists m'. split; [exact Hc|apply String.eqb_refl].
    + cbn. Lia.lia.
Qed.

Theorem ident_val_never_out_of_fuel (m : string) (e : env) :
  ident_val m e <> Err "OutOfFuel: alias chain".
Proof.
  unfold ident_val. apply ident_val_fuel; [constructor|intros x []|intros []|cbn; Lia.lia].
Qed.
