(* C01 — the concrete instance: whenever the reference preprocessor accepts a
   structured program without a diagnostic, the model of codebasin computes
   the same attribution and the same final macro environment. *)
From Coq Require Import List Bool Arith ZArith String.
From CBI Require Import Lib.Res Model.C01 Spec.C01 Model.C01i Proofs.C01.
Import ListNotations.

Lemma exec_mono a p p' : exec_S a p = Ok p' -> exec_M a p = Ok p'.
Proof.
  destruct a as [|m v|m|]; cbn; try (intros H; exact H).
  destruct (lookup m (menv p)) as [v'|]; [|intros H; exact H].
  destruct (mval_eqb v v'); [intros H; exact H|discriminate].
Qed.

Theorem instance_attribution (its : list (item act cond)) p r :
  run_Si (flats act cond its) p = Ok r -> run_Mi (flats act cond its) p = Ok r.
Proof.
  intros H. unfold run_Mi. rewrite attribution.
  apply (run_S_mono pstate act cond mark exec_S exec_M ev exec_mono). exact H.
Qed.

(* with total conditions the reference machine accepts every structured program
   that does not redefine a macro differently: the analysis cannot fail there *)
Lemma ev_total_if (c : cond) p :
  c <> CBad -> (forall m, lookup m (menv p) <> Some VEmpty) -> exists b, ev c p = Ok b.
Proof.
  intros Hc H. destruct c as [m|m|m|m k|m k|k|]; cbn; eauto; try congruence;
    unfold ident_val; specialize (H m); destruct (lookup m (menv p)) as [[|z]|]; cbn; eauto; congruence.
Qed.
