(* C13 (with C04) - "only files named by entries, and what they include, are
   attributed": an invariant of the multi-file reference preprocessor of
   Spec/C04.v, transferred to the model of the finder (Model/C04.v) by
   C04's simulation theorem. *)
From Coq Require Import Bool Arith ZArith String List.
From CBI Require Import Lib.Res Model.C01 Spec.C01 Model.C04 Spec.C04 Proofs.C01 Proofs.C04.
Import ListNotations.

Section Closure.
Variable fs : fsys.
Variable e : entry.

(* the files a translation unit can reach: the entry's file, the targets of its
   -include options, and whatever the header search (includer's directory, then
   the entry's include directories) answers for a file already reached *)
Inductive reach : path -> Prop :=
| reach_main : reach (e_file e)
| reach_forced n f :
    In n (e_incs e) -> search fs (e_dirs e) (n, dirname (e_file e), false) = Some f -> reach f
| reach_include g name angle f :
    reach g -> search fs (e_dirs e) (name, dirname g, angle) = Some f -> reach f.

Definition Inv (p : plat) : Prop :=
  dirs p = e_dirs e /\ forall g id, In (g, id) (assoc p) -> reach g.

Lemma Inv_mark f id p : reach f -> Inv p -> Inv (mark_in f id p).
Proof.
  intros Hf [Hd Ha]. split; [exact Hd|]. cbn. intros g i [E|I].
  - inversion E; subst. exact Hf.
  - apply (Ha g i I).
Qed.

Lemma run_S_inv (ex : act -> plat -> res plat) f ls p p' :
  reach f ->
  (forall a q q', Inv q -> ex a q = Ok q' -> Inv q') ->
  Inv p -> run_S plat act cond (mark_in f) ex ev ls p = Ok p' -> Inv p'.
Proof.
  intros Hf Hex Hp H.
  set (Rel := fun a b : plat => a = b /\ Inv a).
  assert (Hmark : forall id a b, Rel a b -> Rel (mark_in f id a) (mark_in f id b)).
  { intros id a b [-> Ha]. split; [reflexivity|]. apply Inv_mark; assumption. }
  assert (Hev : forall c a b bb, Rel a b -> ev c a = Ok bb -> ev c b = Ok bb).
  { intros c a b bb [-> _] Hc. exact Hc. }
  assert (Hexec : forall a x y x', Rel x y -> ex a x = Ok x' -> exists y', ex a y = Ok y' /\ Rel x' y').
  { intros a x y x' [-> Hx] Hc. exists x'. split; [exact Hc|]. split; [reflexivity|]. eapply Hex; eassumption. }
  assert (H0 : Rel p p) by (split; [reflexivity|exact Hp]).
  destruct (run_S_sim plat plat act cond (mark_in f) (mark_in f) ex ex ev ev Rel Hmark Hev Hexec ls p p p' H0 H)
    as (q' & _ & _ & Hq).
  exact Hq.
Qed.

Lemma exec_S_simple_inv fuel cur a p p' :
  (forall tag sp, a <> AInclude tag sp) -> Inv p -> exec_S fs fuel cur a p = Ok p' -> Inv p'.
Proof.
  intros Hn Hp H. destruct fuel; destruct a as [| |m v|m|tag sp|]; cbn [exec_S] in H;
    try (exfalso; eapply Hn; reflexivity);
    try (inversion H; subst; exact Hp);
    try (destruct (lookup m (defs p)) as [v'|];
         [destruct (mval_eqb v v'); [inversion H; subst; exact Hp|discriminate]
         |inversion H; subst; exact Hp]);
    try (destruct (mem_path cur (once p)); inversion H; subst; exact Hp).
Qed.

Lemma exec_S_inv fuel : forall cur a p p',
  reach cur -> Inv p -> exec_S fs fuel cur a p = Ok p' -> Inv p'.
Proof.
  induction fuel as [|fuel IH]; intros cur a p p' Hc Hp H.
  - destruct a as [| |m v|m|tag sp|];
      try (eapply exec_S_simple_inv; [|exact Hp|exact H]; intros; discriminate).
    cbn [exec_S] in H.
    destruct (include_target sp p) as [[angle name]|]; [|discriminate].
    pose proof Hp as [Hd Ha]. rewrite Hd in H.
    destruct (search fs (e_dirs e) (name, dirname cur, angle)) as [f|] eqn:S.
    + destruct (mem_path f (once p)); [inversion H; subst; exact Hp|discriminate].
    + inversion H; subst. exact Hp.
  - destruct a as [| |m v|m|tag sp|];
      try (eapply exec_S_simple_inv; [|exact Hp|exact H]; intros; discriminate).
    cbn [exec_S] in H.
    destruct (include_target sp p) as [[angle name]|]; [|discriminate].
    pose proof Hp as [Hd Ha]. rewrite Hd in H.
    destruct (search fs (e_dirs e) (name, dirname cur, angle)) as [f|] eqn:S.
    + destruct (mem_path f (once p)); [inversion H; subst; exact Hp|].
      destruct (fs_get fs f) as [ls|]; [|discriminate].
      assert (Hf : reach f) by (eapply reach_include; eassumption).
      eapply (run_S_inv (exec_S fs fuel f) f ls p p' Hf); [|exact Hp|exact H].
      intros a0 q q' Hq Hx. eapply IH; eassumption.
    + inversion H; subst. exact Hp.
Qed.

Lemma run_file_S_inv fuel f p p' : reach f -> Inv p -> run_file_S fs fuel f p = Ok p' -> Inv p'.
Proof.
  intros Hf Hp. unfold run_file_S. destruct (fs_get fs f) as [ls|]; [|discriminate].
  intro H. eapply (run_S_inv (exec_S fs fuel f) f ls p p' Hf); [|exact Hp|exact H].
  intros a q q' Hq Hx. eapply exec_S_inv; eassumption.
Qed.

Lemma forced_S_inv fuel incs : forall p p',
  (forall n, In n incs -> In n (e_incs e)) ->
  Inv p -> forced_S fs fuel (dirname (e_file e)) incs p = Ok p' -> Inv p'.
Proof.
  induction incs as [|n r IH]; intros p p' Hsub Hp H; cbn [forced_S] in H.
  - inversion H; subst. exact Hp.
  - pose proof Hp as [Hd _]. rewrite Hd in H.
    destruct (search fs (e_dirs e) (n, dirname (e_file e), false)) as [f|] eqn:S.
    + destruct (run_file_S fs fuel f p) as [p2|] eqn:R; [|discriminate].
      apply (IH p2 p'); [intros m Hm; apply Hsub; right; exact Hm| |exact H].
      eapply run_file_S_inv; [|exact Hp|exact R].
      eapply reach_forced; [apply Hsub; left; reflexivity|exact S].
    + apply (IH p p'); [intros m Hm; apply Hsub; right; exact Hm|exact Hp|exact H].
Qed.

Lemma fresh_Inv : Inv (fresh e).
Proof. split; [reflexivity|]. cbn. intros g id []. Qed.

(* the reference preprocessor attributes only reachable files ... *)
Theorem tu_S_only_reachable fuel r :
  run_tu_S fs fuel e = Ok r -> forall g id, In (g, id) (assoc r) -> reach g.
Proof.
  unfold run_tu_S.
  destruct (forced_S fs fuel (dirname (e_file e)) (e_incs e) (fresh e)) as [p|] eqn:F; [|discriminate].
  intro H.
  assert (Hp : Inv p) by (eapply forced_S_inv; [intros n Hn; exact Hn|apply fresh_Inv|exact F]).
  destruct (run_file_S_inv fuel (e_file e) p r reach_main Hp H) as [_ Ha]. exact Ha.
Qed.

(* ... and so does the model of the finder whenever the reference accepts the unit *)
Theorem tu_M_only_reachable fuel r :
  fs_structured fs -> run_tu_S fs fuel e = Ok r ->
  exists r', run_tu_M fs fuel e = Ok r' /\ forall g id, In (g, id) (assoc r') -> reach g.
Proof.
  intros Hs H. destruct (run_tu_sim fs Hs fuel e r H) as (r' & HM & Ho & _).
  exists r'. split; [exact HM|]. rewrite <- Ho. apply (tu_S_only_reachable fuel r H).
Qed.
End Closure.
