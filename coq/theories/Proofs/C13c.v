(* C13 (with C04) - "only files named by entries, and what they include, are
   attributed": an invariant of the multi-file model of the finder
   (Model/C04.v), for every successful run on structured files. *)
From Coq Require Import Bool Arith ZArith String List.
From CBI Require Import Lib.Res Model.C01 Spec.C01 Model.C04 Spec.C04 Proofs.C01 Proofs.C04.
Import ListNotations.

(* ---------- invariants of the skipping machine, with the executed action known
   to be a line of the program ---------- *)
Section RunInv.
Variables ST ACT COND : Type.
Variable mark : nat -> ST -> ST.
Variable exec : ACT -> ST -> res ST.
Variable ev : COND -> ST -> res bool.
Variable I : ST -> Prop.
Hypothesis Hmark : forall id q, I q -> I (mark id q).

Lemma sstep_inv l s s' :
  (forall id a q q', l = (id, KPlain a) -> I q -> exec a q = Ok q' -> I q') ->
  I (sp ST s) -> sstep ST ACT COND mark exec ev s l = Ok s' -> I (sp ST s').
Proof.
  intros Hex Hs. destruct l as [id k]. destruct s as [stk p]. cbn [sp] in Hs.
  destruct k as [a|c|c| |]; cbn [sstep sstk sp].
  - destruct (live stk).
    + destruct (exec a (mark id p)) as [p'|] eqn:E; [|discriminate]. intro H; inversion H; subst. cbn.
      eapply Hex; [reflexivity|apply Hmark; exact Hs|exact E].
    + intro H; inversion H; subst. exact Hs.
  - destruct (live stk).
    + destruct (ev c (mark id p)); [|discriminate]. intro H; inversion H; subst. cbn. apply Hmark; exact Hs.
    + intro H; inversion H; subst. exact Hs.
  - destruct stk as [|f r]; [discriminate|]. destruct (outer f).
    + destruct (taken f).
      * intro H; inversion H; subst. cbn. apply Hmark; exact Hs.
      * destruct (ev c (mark id p)); [|discriminate]. intro H; inversion H; subst. cbn. apply Hmark; exact Hs.
    + intro H; inversion H; subst. exact Hs.
  - destruct stk as [|f r]; [discriminate|]. destruct (outer f); intro H; inversion H; subst; cbn;
      [apply Hmark|]; exact Hs.
  - destruct stk as [|f r]; [discriminate|]. intro H; inversion H; subst. cbn.
    destruct (outer f); [apply Hmark|]; exact Hs.
Qed.

Lemma ssteps_inv ls : forall s s',
  (forall id a q q', In (id, KPlain a) ls -> I q -> exec a q = Ok q' -> I q') ->
  I (sp ST s) -> ssteps ST ACT COND mark exec ev s ls = Ok s' -> I (sp ST s').
Proof.
  induction ls as [|l ls IH]; intros s s' Hex Hs H; cbn [ssteps] in H.
  - inversion H; subst. exact Hs.
  - destruct (sstep ST ACT COND mark exec ev s l) as [s1|] eqn:E; [|discriminate].
    apply (IH s1 s').
    + intros id a q q' Hin. apply (Hex id a q q'). right. exact Hin.
    + eapply sstep_inv; [|exact Hs|exact E].
      intros id a q q' ->. apply (Hex id a q q'). left. reflexivity.
    + exact H.
Qed.

Lemma run_S_inv ls p p' :
  (forall id a q q', In (id, KPlain a) ls -> I q -> exec a q = Ok q' -> I q') ->
  I p -> run_S ST ACT COND mark exec ev ls p = Ok p' -> I p'.
Proof.
  intros Hex Hp. unfold run_S.
  destruct (ssteps ST ACT COND mark exec ev _ ls) as [s'|] eqn:E; [|discriminate].
  intro H; inversion H; subst. eapply ssteps_inv; [exact Hex| |exact E]. exact Hp.
Qed.
End RunInv.

Section Closure.
Variable fs : fsys.
Variable e : entry.
Hypothesis Hfs : fs_structured fs.

(* the files a translation unit can reach: the entry's file, the targets of its
   -include options, and whatever the header search (includer's directory unless
   angle form, then the entry's include directories) answers for an #include
   DIRECTIVE THAT IS A LINE of a file already reached (a computed include names
   whatever its macro can expand to in some state) *)
Inductive reach : path -> Prop :=
| reach_main : reach (e_file e)
| reach_forced n f :
    In n (e_incs e) -> search fs (e_dirs e) (n, dirname (e_file e), false) = Some f -> reach f
| reach_include g ls id tag sp st angle name f :
    reach g -> fs_get fs g = Some ls -> In (id, KPlain (AInclude tag sp)) ls ->
    include_target sp st = Ok (angle, name) ->
    search fs (e_dirs e) (name, dirname g, angle) = Some f -> reach f.

(* the memo is part of the invariant: its answers are search answers *)
Definition InvM (p : plat) : Prop :=
  (dirs p = e_dirs e /\ forall g id, In (g, id) (assoc p) -> reach g) /\ memo_ok fs p.

Lemma InvM_mark f id p : reach f -> InvM p -> InvM (mark_in f id p).
Proof.
  intros Hf [[Hd Ha] Hm]. split; [|exact Hm]. split; [exact Hd|]. cbn. intros g i [E|H].
  - inversion E; subst. exact Hf.
  - apply (Ha g i H).
Qed.

Lemma find_include_inv k p p1 r :
  InvM p -> find_include fs k p = (p1, r) -> InvM p1 /\ r = search fs (e_dirs e) k.
Proof.
  intros [[Hd Ha] Hm] E.
  destruct (find_include_spec fs k p p1 r Hm E) as (Hr & Hm1 & (Ho1 & _ & _ & _ & Ho5)).
  split; [|rewrite <- Hd; exact Hr].
  split; [|exact Hm1]. split; [rewrite <- Ho5; exact Hd|]. rewrite <- Ho1. exact Ha.
Qed.

Lemma run_M_structured (ex : act -> plat -> res plat) f ls p :
  fs_get fs f = Some ls ->
  run_M plat act cond (mark_in f) ex ev ls p = run_S plat act cond (mark_in f) ex ev ls p.
Proof.
  intro G. destruct (Hfs f ls G) as [its ->]. apply attribution.
Qed.

Lemma exec_M_simple_inv fuel cur a p p' :
  (forall tag sp, a <> AInclude tag sp) -> InvM p -> exec_M fs fuel cur a p = Ok p' -> InvM p'.
Proof.
  intros Hn Hp H. destruct fuel; destruct a as [| |m v|m|tag sp|]; cbn [exec_M] in H;
    try (exfalso; eapply Hn; reflexivity);
    try (inversion H; subst; exact Hp);
    try (destruct (lookup m (defs p)); inversion H; subst; exact Hp);
    try (destruct (mem_path cur (once p)); inversion H; subst; exact Hp).
Qed.

(* [a] is executed as a line of file [cur] *)
Definition line_of (cur : path) (a : act) : Prop :=
  exists ls id, fs_get fs cur = Some ls /\ In (id, KPlain a) ls.

Lemma exec_M_inv fuel : forall cur a p p',
  reach cur -> line_of cur a -> InvM p -> exec_M fs fuel cur a p = Ok p' -> InvM p'.
Proof.
  induction fuel as [|fuel IH]; intros cur a p p' Hc Hl Hp H.
  - destruct a as [| |m v|m|tag sp|];
      try (eapply exec_M_simple_inv; [|exact Hp|exact H]; intros; discriminate).
    cbn [exec_M] in H.
    destruct (include_target sp p) as [[angle name]|]; [|discriminate].
    destruct (find_include fs (name, dirname cur, angle) p) as [p1 r] eqn:E.
    destruct (find_include_inv _ _ _ _ Hp E) as [Hp1 Hr].
    destruct r as [f|].
    + destruct (mem_path f (once p1)); [inversion H; subst; exact Hp1|discriminate].
    + inversion H; subst. exact Hp1.
  - destruct a as [| |m v|m|tag sp|];
      try (eapply exec_M_simple_inv; [|exact Hp|exact H]; intros; discriminate).
    cbn [exec_M] in H.
    destruct (include_target sp p) as [[angle name]|] eqn:T; [|discriminate].
    destruct (find_include fs (name, dirname cur, angle) p) as [p1 r] eqn:E.
    destruct (find_include_inv _ _ _ _ Hp E) as [Hp1 Hr].
    destruct r as [f|].
    + destruct (mem_path f (once p1)); [inversion H; subst; exact Hp1|].
      destruct (fs_get fs f) as [ls|] eqn:G; [|discriminate].
      assert (Hf : reach f).
      { destruct Hl as (lc & id & Gc & Hin).
        eapply reach_include; [exact Hc|exact Gc|exact Hin|exact T|symmetry; exact Hr]. }
      rewrite (run_M_structured _ f ls p1 G) in H.
      eapply (run_S_inv plat act cond (mark_in f) (exec_M fs fuel f) ev InvM); [| |exact Hp1|exact H].
      * intros id q Hq. apply InvM_mark; assumption.
      * intros id a0 q q' Hin Hq Hx. eapply (IH f a0 q q' Hf); [|exact Hq|exact Hx].
        exists ls, id. split; [exact G|exact Hin].
    + inversion H; subst. exact Hp1.
Qed.

Lemma run_file_M_inv fuel f p p' : reach f -> InvM p -> run_file_M fs fuel f p = Ok p' -> InvM p'.
Proof.
  intros Hf Hp. unfold run_file_M. destruct (fs_get fs f) as [ls|] eqn:G; [|discriminate].
  rewrite (run_M_structured _ f ls p G). intro H.
  eapply (run_S_inv plat act cond (mark_in f) (exec_M fs fuel f) ev InvM); [| |exact Hp|exact H].
  - intros id q Hq. apply InvM_mark; assumption.
  - intros id a q q' Hin Hq Hx. eapply (exec_M_inv fuel f a q q' Hf); [|exact Hq|exact Hx].
    exists ls, id. split; [exact G|exact Hin].
Qed.

Lemma forced_M_inv fuel incs : forall p p',
  (forall n, In n incs -> In n (e_incs e)) ->
  InvM p -> forced_M fs fuel (dirname (e_file e)) incs p = Ok p' -> InvM p'.
Proof.
  induction incs as [|n r IH]; intros p p' Hsub Hp H; cbn [forced_M] in H.
  - inversion H; subst. exact Hp.
  - destruct (find_include fs (n, dirname (e_file e), false) p) as [p1 res] eqn:E.
    destruct (find_include_inv _ _ _ _ Hp E) as [Hp1 Hr].
    destruct res as [f|].
    + destruct (mem_path f (once p1));
        [apply (IH p1 p'); [intros m Hm; apply Hsub; right; exact Hm|exact Hp1|exact H]|].
      destruct (run_file_M fs fuel f p1) as [p2|] eqn:R; [|discriminate].
      apply (IH p2 p'); [intros m Hm; apply Hsub; right; exact Hm| |exact H].
      eapply run_file_M_inv; [|exact Hp1|exact R].
      eapply reach_forced; [apply Hsub; left; reflexivity|symmetry; exact Hr].
    + apply (IH p1 p'); [intros m Hm; apply Hsub; right; exact Hm|exact Hp1|exact H].
Qed.

Lemma fresh_InvM : InvM (fresh e).
Proof.
  split; [split; [reflexivity|cbn; intros g id []]|]. intros k r. cbn. discriminate.
Qed.

(* every successful run of the finder's model on the translation unit of [e]
   attributes only files reachable from [e] *)
Theorem tu_M_only_reachable fuel r :
  run_tu_M fs fuel e = Ok r -> forall g id, In (g, id) (assoc r) -> reach g.
Proof.
  unfold run_tu_M.
  destruct (forced_M fs fuel (dirname (e_file e)) (e_incs e) (fresh e)) as [p|] eqn:F; [|discriminate].
  intro H.
  assert (Hp : InvM p) by (eapply forced_M_inv; [intros n Hn; exact Hn|apply fresh_InvM|exact F]).
  destruct (run_file_M_inv fuel (e_file e) p r reach_main Hp H) as [[_ Ha] _]. exact Ha.
Qed.
End Closure.
