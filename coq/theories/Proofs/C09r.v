(* C09 — resolution is compositional: replacing a leading part of a path by any
   other spelling of the same directory (relative, absolute, with "..", through
   links) does not change what the whole path resolves to. *)
From Coq Require Import Bool Arith Ascii String List Lia.
From CBI Require Import Lib.Res Lib.Data Lib.C09_glob Model.C09 Spec.C09.
Import ListNotations.

Lemma rp_mono fs : forall f acc t r, rp f fs acc t = Ok r -> forall f', f <= f' -> rp f' fs acc t = Ok r.
Proof.
  induction f as [|f IH]; intros acc t r H f' Hle; [discriminate|].
  destruct f' as [|f']; [lia|]. assert (f <= f') as Hle' by lia.
  cbn [rp] in *. destruct t as [|c t]; [assumption|].
  destruct (String.eqb c ""%string || String.eqb c "."%string); [apply (IH _ _ _ H _ Hle')|].
  destruct (String.eqb c ".."%string); [apply (IH _ _ _ H _ Hle')|].
  destruct (lookup fs (rev (c :: acc))) as [[| |tgt]|]; try apply (IH _ _ _ H _ Hle').
  destruct (is_abs tgt); apply (IH _ _ _ H _ Hle').
Qed.

Lemma rp_det fs f1 f2 acc t r1 r2 : rp f1 fs acc t = Ok r1 -> rp f2 fs acc t = Ok r2 -> r1 = r2.
Proof.
  intros H1 H2.
  pose proof (rp_mono fs _ _ _ _ H1 (Nat.max f1 f2) (Nat.le_max_l _ _)) as K1.
  pose proof (rp_mono fs _ _ _ _ H2 (Nat.max f1 f2) (Nat.le_max_r _ _)) as K2. congruence.
Qed.

Lemma rp_split fs : forall f acc t1 t2 r2,
  rp f fs acc (t1 ++ t2) = Ok r2 -> exists r, rp f fs acc t1 = Ok r /\ rp f fs (rev r) t2 = Ok r2.
Proof.
  induction f as [|f IH]; intros acc t1 t2 r2 H; [discriminate|].
  destruct t1 as [|c t].
  - exists (rev acc). split; [reflexivity|]. rewrite rev_involutive. exact H.
  - cbn [app rp] in H |- *.
    assert (forall acc' todo, rp f fs acc' (todo ++ t2) = Ok r2 ->
              exists r, rp f fs acc' todo = Ok r /\ rp (S f) fs (rev r) t2 = Ok r2) as K.
    { intros acc' todo H'. destruct (IH _ _ _ _ H') as (r & Hr & Hr2). exists r. split; [assumption|].
      apply (rp_mono fs _ _ _ _ Hr2). lia. }
    destruct (String.eqb c ""%string || String.eqb c "."%string); [apply K, H|].
    destruct (String.eqb c ".."%string); [apply K, H|].
    destruct (lookup fs (rev (c :: acc))) as [[| |tgt]|]; try (apply K, H).
    destruct (is_abs tgt); apply K; rewrite <- app_assoc; exact H.
Qed.

(* components level *)
Theorem respelled_prefix fs st1 st2 t1 t1' q d r1 r2 :
  resolve_comps fs st1 t1 = Ok d -> resolve_comps fs st2 t1' = Ok d ->
  resolve_comps fs st1 (t1 ++ q) = Ok r1 -> resolve_comps fs st2 (t1' ++ q) = Ok r2 ->
  r1 = r2.
Proof.
  unfold resolve_comps. intros H1 H2 H3 H4.
  destruct (rp_split _ _ _ _ _ _ H3) as (d1 & Hd1 & Hr1).
  destruct (rp_split _ _ _ _ _ _ H4) as (d2 & Hd2 & Hr2).
  assert (d1 = d) by (eapply rp_det; eassumption).
  assert (d2 = d) by (eapply rp_det; eassumption). subst d1 d2.
  eapply rp_det; eassumption.
Qed.

(* text level: s/q *)
Definition join (s q : string) : string := (s ++ "/" ++ q)%string.

Lemma split_on_nonnil sep s : split_on sep s <> [].
Proof. destruct s as [|x s]; cbn; [discriminate|]. destruct (split_on sep s); [discriminate|]. destruct (sep x); discriminate. Qed.

Lemma split_on_app sep a b c : sep c = true ->
  split_on sep (a ++ c :: b) = split_on sep a ++ split_on sep b.
Proof.
  intros Hc. induction a as [|x a IH]; cbn [app split_on].
  - rewrite Hc. destruct (split_on sep b) eqn:E; [exfalso; eapply split_on_nonnil; eassumption|reflexivity].
  - rewrite IH. destruct (split_on sep a) as [|h r] eqn:E; [exfalso; eapply split_on_nonnil; eassumption|].
    cbn [app]. destruct (sep x); reflexivity.
Qed.

Lemma list_of_string_app a b : list_of_string (a ++ b)%string = list_of_string a ++ list_of_string b.
Proof. induction a as [|c a IH]; [reflexivity|]. cbn. rewrite IH. reflexivity. Qed.

Lemma split_path_join s q : split_path (join s q) = split_path s ++ split_path q.
Proof.
  unfold split_path, join. rewrite list_of_string_app. cbn [list_of_string String.append].
  change (list_of_string ("/" ++ q)%string) with ("/"%char :: list_of_string q).
  rewrite (split_on_app is_slash _ _ "/"%char eq_refl). apply map_app.
Qed.

Lemma is_abs_join s q : s <> ""%string -> is_abs (join s q) = is_abs s.
Proof. intros H. destruct s; [exfalso; apply H; reflexivity|reflexivity]. Qed.

(* if two texts s1, s2 (asked from directories c1, c2) resolve to the same path, then
   s1/q and s2/q resolve to the same path - hence get the same membership answer *)
Theorem respelled_prefix_text fs cb c1 c2 s1 s2 q d :
  s1 <> ""%string -> s2 <> ""%string ->
  resolve fs c1 s1 = Ok d -> resolve fs c2 s2 = Ok d ->
  (exists r1, resolve fs c1 (join s1 q) = Ok r1) -> (exists r2, resolve fs c2 (join s2 q) = Ok r2) ->
  contains fs c1 cb (join s1 q) = contains fs c2 cb (join s2 q) /\
  member fs c1 cb (join s1 q) = member fs c2 cb (join s2 q).
Proof.
  intros N1 N2 H1 H2 (r1 & H3) (r2 & H4).
  assert (r1 = r2) as E.
  { unfold resolve in *. rewrite is_abs_join in H3, H4 by assumption. rewrite split_path_join in H3, H4.
    exact (respelled_prefix fs _ _ _ _ _ d r1 r2 H1 H2 H3 H4). }
  unfold contains, member. rewrite H3, H4, E. split; reflexivity.
Qed.

(* ---------- fuel: never exhausted when no link is involved ---------- *)
Lemma rp_total_nolinks fs : (forall p t, lookup fs p <> Some (KLink t)) ->
  forall todo f acc, length todo < f -> exists r, rp f fs acc todo = Ok r.
Proof.
  intros Hn. induction todo as [|c t IH]; intros f acc Hf; (destruct f as [|f]; [cbn in Hf; lia|]).
  - exists (rev acc). reflexivity.
  - cbn [rp]. assert (length t < f) as Hf' by (cbn in Hf; lia).
    destruct (String.eqb c ""%string || String.eqb c "."%string); [apply IH; assumption|].
    destruct (String.eqb c ".."%string); [apply IH; assumption|].
    destruct (lookup fs (rev (c :: acc))) as [[| |tgt]|] eqn:E; try (apply IH; assumption).
    exfalso. exact (Hn _ _ E).
Qed.

Theorem resolve_total_nolinks fs cwd s :
  (forall p t, lookup fs p <> Some (KLink t)) -> exists r, resolve fs cwd s = Ok r.
Proof.
  intros Hn. unfold resolve, resolve_comps. apply rp_total_nolinks; [assumption|lia].
Qed.
