(* C13 - lemmas about the posixpath model (Model/C13p.v) and the lexical walk. *)
From Coq Require Import Bool Arith Ascii Lia List.
From CBI Require Import Model.C13p Model.C13fs Spec.C13.
Import ListNotations.

(* ---------- string equality ---------- *)
Lemma str_eqb_refl a : str_eqb a a = true.
Proof. induction a; cbn; [reflexivity|]. rewrite Ascii.eqb_refl. exact IHa. Qed.

Lemma str_eqb_eq a b : str_eqb a b = true <-> a = b.
Proof.
  split.
  - revert b. induction a as [|x a IH]; destruct b as [|y b]; cbn; try discriminate; [reflexivity|].
    intro H. apply andb_prop in H. destruct H as [H1 H2].
    apply Ascii.eqb_eq in H1. subst. f_equal. apply IH. exact H2.
  - intros ->. apply str_eqb_refl.
Qed.

Lemma str_eqb_neq a b : str_eqb a b = false <-> a <> b.
Proof.
  split.
  - intros H E. apply str_eqb_eq in E. congruence.
  - intro H. destruct (str_eqb a b) eqn:E; [|reflexivity]. apply str_eqb_eq in E. contradiction.
Qed.

Lemma loc_eqb_eq a b : loc_eqb a b = true <-> a = b.
Proof.
  split.
  - revert b. induction a as [|x a IH]; destruct b as [|y b]; cbn; try discriminate; [reflexivity|].
    intro H. apply andb_prop in H. destruct H as [H1 H2].
    apply str_eqb_eq in H1. subst. f_equal. apply IH. exact H2.
  - intros ->. induction b; cbn; [reflexivity|]. rewrite str_eqb_refl. exact IHb.
Qed.

(* ---------- split ---------- *)
Lemma split_nonempty s : split s <> [].
Proof.
  destruct s as [|c r]; cbn; [discriminate|].
  destruct (is_slash c); [discriminate|]. destruct (split r); discriminate.
Qed.

Lemma split_app_slash a b : split (a ++ slash :: b) = split a ++ split b.
Proof.
  induction a as [|c a IH]; cbn.
  - reflexivity.
  - rewrite IH. destruct (is_slash c); [reflexivity|].
    destruct (split a) eqn:E; [exfalso; eapply split_nonempty; eassumption|]. reflexivity.
Qed.

Definition noslash (c : str) : bool := forallb (fun x => negb (is_slash x)) c.

Lemma split_noslash c : noslash c = true -> split c = [c].
Proof.
  induction c as [|x c IH]; cbn; [reflexivity|].
  intro H. apply andb_prop in H. destruct H as [H1 H2].
  apply negb_true_iff in H1. rewrite H1. rewrite (IH H2). reflexivity.
Qed.

Lemma split_all_noslash s : Forall (fun c => noslash c = true) (split s).
Proof.
  induction s as [|x s IH]; cbn.
  - constructor; [reflexivity|constructor].
  - destruct (is_slash x) eqn:E.
    + constructor; [reflexivity|exact IH].
    + destruct (split s) as [|h t]; [constructor; [cbn; rewrite E; reflexivity|constructor]|].
      inversion IH; subst. constructor; [|assumption]. cbn. rewrite E. cbn. assumption.
Qed.

(* '/'.join then split gives the fields back *)
Lemma split_intercalate comps :
  comps <> [] -> Forall (fun c => noslash c = true) comps -> split (intercalate comps) = comps.
Proof.
  induction comps as [|c r IH]; [congruence|].
  intros _ H. inversion H; subst.
  destruct r as [|d r].
  - cbn. apply split_noslash. assumption.
  - change (intercalate (c :: d :: r)) with (c ++ slash :: intercalate (d :: r)).
    rewrite split_app_slash, split_noslash by assumption.
    rewrite IH; [reflexivity|discriminate|assumption].
Qed.

(* ---------- isabs / ends_slash / join ---------- *)
Lemma ends_slash_spec a : ends_slash a = true -> exists a', a = a' ++ [slash].
Proof.
  induction a as [|c a IH]; cbn; [discriminate|].
  destruct a as [|d a].
  - intro H. exists []. cbn. unfold is_slash in H. apply Ascii.eqb_eq in H. subst. reflexivity.
  - intro H. destruct (IH H) as [a' E]. exists (c :: a'). cbn. rewrite <- E. reflexivity.
Qed.

Lemma isabs_app a b : a <> [] -> isabs (a ++ b) = isabs a.
Proof. destruct a; [congruence|reflexivity]. Qed.

(* ---------- the lexical walk ---------- *)
Lemma step_empty l : step l [] = l.
Proof. reflexivity. Qed.

Lemma resolve_nil l : resolve l [] = l.
Proof. reflexivity. Qed.

Lemma resolve_unfold l p : resolve l p = fold_left step (split p) (if isabs p then [] else l).
Proof. reflexivity. Qed.

Lemma resolve_abs l l' p : isabs p = true -> resolve l p = resolve l' p.
Proof. unfold resolve. intros ->. reflexivity. Qed.

(* compositionality: joining two spellings = walking one after the other.
   This is the sense in which os.path.join(dir, x) "is" what a process in dir sees. *)
Lemma resolve_join_aux l a b :
  a <> [] -> isabs b = false ->
  resolve l (if ends_slash a then a ++ b else a ++ slash :: b) = resolve (resolve l a) b.
Proof.
  intros Hne Hb. destruct (ends_slash a) eqn:He.
  - destruct (ends_slash_spec _ He) as [a' E]. subst a.
    rewrite (resolve_unfold l ((a' ++ [slash]) ++ b)), (resolve_unfold (resolve l (a' ++ [slash])) b), Hb.
    rewrite isabs_app by exact Hne.
    rewrite (resolve_unfold l (a' ++ [slash])).
    rewrite <- app_assoc. cbn [app].
    rewrite !split_app_slash, !fold_left_app. reflexivity.
  - rewrite (resolve_unfold l (a ++ slash :: b)), (resolve_unfold (resolve l a) b), Hb.
    rewrite isabs_app by exact Hne.
    rewrite split_app_slash, fold_left_app. reflexivity.
Qed.

Lemma resolve_join l a b : resolve l (join a b) = resolve (resolve l a) b.
Proof.
  unfold join. destruct (isabs b) eqn:Hb.
  - apply resolve_abs. exact Hb.
  - destruct a as [|c a].
    + rewrite resolve_nil. reflexivity.
    + apply resolve_join_aux; [discriminate|exact Hb].
Qed.

(* ---------- proper names ---------- *)
Lemma proper_spec c :
  proper c = true <-> c <> [] /\ c <> dot /\ c <> dotdot /\ noslash c = true.
Proof.
  unfold proper, noslash. rewrite andb_true_iff, negb_true_iff, !orb_false_iff, !str_eqb_neq. tauto.
Qed.

Lemma step_proper l c : proper c = true -> step l c = c :: l.
Proof.
  intro H. apply proper_spec in H. destruct H as (H1 & H2 & H3 & _).
  unfold step. apply str_eqb_neq in H1, H2, H3. rewrite H1, H2, H3. reflexivity.
Qed.

Lemma fold_step_proper names l :
  Forall (fun c => proper c = true) names -> fold_left step names l = rev names ++ l.
Proof.
  revert l. induction names as [|c r IH]; intros l H; cbn; [reflexivity|].
  inversion H; subst. rewrite step_proper by assumption. rewrite IH by assumption.
  rewrite <- app_assoc. reflexivity.
Qed.

Lemma fold_step_empties k l : fold_left step (repeat [] k) l = l.
Proof. induction k; cbn; [reflexivity|exact IHk]. Qed.

(* every location reached by the walk from a proper location is proper *)
Lemma step_keeps_proper l c :
  noslash c = true -> Forall (fun x => proper x = true) l -> Forall (fun x => proper x = true) (step l c).
Proof.
  intros Hc Hl. unfold step.
  destruct (str_eqb c [] || str_eqb c dot) eqn:E1; [assumption|].
  destruct (str_eqb c dotdot) eqn:E2.
  - destruct l; [constructor|]. inversion Hl; assumption.
  - constructor; [|assumption]. apply proper_spec.
    apply orb_false_iff in E1. destruct E1 as [E1 E3].
    rewrite str_eqb_neq in E1, E2, E3. tauto.
Qed.

Lemma fold_step_keeps_proper comps l :
  Forall (fun c => noslash c = true) comps -> Forall (fun x => proper x = true) l ->
  Forall (fun x => proper x = true) (fold_left step comps l).
Proof.
  revert l. induction comps as [|c r IH]; intros l Hc Hl; cbn; [assumption|].
  inversion Hc; subst. apply IH; [assumption|]. apply step_keeps_proper; assumption.
Qed.

Lemma resolve_proper l p :
  Forall (fun x => proper x = true) l -> Forall (fun x => proper x = true) (resolve l p).
Proof.
  intro Hl. unfold resolve. apply fold_step_keeps_proper; [apply split_all_noslash|].
  destruct (isabs p); [constructor|assumption].
Qed.

(* ---------- render / resolve round trip ---------- *)
Lemma split_slashes k t : split (repeat slash k ++ t) = repeat [] k ++ split t.
Proof. induction k; cbn; [reflexivity|]. rewrite IHk. reflexivity. Qed.

Lemma proper_noslash l :
  Forall (fun x => proper x = true) l -> Forall (fun c => noslash c = true) l.
Proof. apply Forall_impl. intros a H. apply proper_spec in H. tauto. Qed.

Lemma isabs_render k l : 1 <= k -> isabs (render k l) = true.
Proof. destruct k; [lia|]. reflexivity. Qed.

(* a rendered proper location denotes that location, from anywhere *)
Lemma resolve_render c k l :
  1 <= k -> Forall (fun x => proper x = true) l -> resolve c (render k l) = l.
Proof.
  intros Hk Hl. unfold resolve. rewrite isabs_render by exact Hk.
  unfold render. rewrite split_slashes, fold_left_app, fold_step_empties.
  destruct (rev l) as [|x r] eqn:E.
  - cbn. apply (f_equal (@rev str)) in E. rewrite rev_involutive in E. cbn in E. congruence.
  - assert (Hr : Forall (fun x => proper x = true) (x :: r)).
    { rewrite <- E. apply Forall_rev. exact Hl. }
    rewrite split_intercalate; [|discriminate|apply proper_noslash; exact Hr].
    rewrite fold_step_proper by exact Hr. rewrite <- E, rev_involutive, app_nil_r. reflexivity.
Qed.

(* ---------- normpath on absolute strings ---------- *)
Definition no_dotdot (l : list str) : Prop := Forall (fun x => str_eqb x dotdot = false) l.

Lemma norm_step_abs acc c : no_dotdot acc -> norm_step true acc c = step acc c /\ no_dotdot (step acc c).
Proof.
  intro H. unfold norm_step, step.
  destruct (str_eqb c [] || str_eqb c dot); [split; [reflexivity|assumption]|].
  destruct (str_eqb c dotdot) eqn:E; cbn [negb orb andb].
  - destruct acc as [|h t].
    + split; [reflexivity|constructor].
    + inversion H; subst. rewrite H2. split; [reflexivity|assumption].
  - split; [reflexivity|]. constructor; assumption.
Qed.

Lemma fold_norm_step_abs comps acc :
  no_dotdot acc -> fold_left (norm_step true) comps acc = fold_left step comps acc.
Proof.
  revert acc. induction comps as [|c r IH]; intros acc H; cbn; [reflexivity|].
  destruct (norm_step_abs acc c H) as [E1 E2]. rewrite E1. apply IH. exact E2.
Qed.

Lemma initial_slashes_abs t : isabs t = true -> initial_slashes t = 1 \/ initial_slashes t = 2.
Proof.
  destruct t as [|a [|b [|c r]]]; cbn; try discriminate; intro H; rewrite H;
    try destruct (is_slash b); try destruct (is_slash c); auto.
Qed.

(* normpath of an absolute string = its location, rendered with one or two slashes *)
Lemma normpath_abs t :
  isabs t = true ->
  normpath t = render (initial_slashes t) (resolve [] t) /\
  (initial_slashes t = 1 \/ initial_slashes t = 2).
Proof.
  intro H. pose proof (initial_slashes_abs t H) as Hk. split; [|exact Hk].
  unfold normpath. destruct t as [|a r] eqn:Et; [discriminate|]. rewrite <- Et in *.
  assert (Hlt : Nat.ltb 0 (initial_slashes t) = true) by (apply Nat.ltb_lt; lia).
  rewrite Hlt. rewrite fold_norm_step_abs by constructor.
  unfold resolve. rewrite H. unfold render.
  destruct (initial_slashes t) as [|k]; [lia|]. reflexivity.
Qed.
