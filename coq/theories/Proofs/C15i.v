(* C15 — the abstract results instantiated with the link tree. *)
From Coq Require Import Bool Arith ZArith String List.
From CBI Require Import Lib.Res Model.C01 Spec.C01 Model.C04 Model.C15fs Model.C15 Model.C15i
     Proofs.C15fs Proofs.C15enum Proofs.C15.
Import ListNotations.
Local Open Scope list_scope.

Section Inst.
Variable root : fnode.
Variable tab : ctable.

(* two spellings with the same realpath (same answer of os.path.realpath, error or not) *)
Definition same_real (p q : path) : Prop := realpath root link_fuel p = realpath root link_fuel q.

Lemma same_real_rp p q : same_real p q -> rp_i root p = rp_i root q.
Proof. unfold same_real, rp_i, rp. intros ->. reflexivity. Qed.

Lemma same_real_dir_equiv d1 d2 : same_real d1 d2 -> dir_equiv (rp_i root) d1 d2.
Proof. intros H n. apply same_real_rp. unfold same_real. apply dir_alias. exact H. Qed.

Definition alias_entry (e1 e2 : entry) : Prop :=
  same_real (e_file e1) (e_file e2) /\ Forall2 same_real (e_dirs e1) (e_dirs e2) /\
  e_defs e1 = e_defs e2 /\ e_incs e1 = e_incs e2.
Definition alias_cfg (c1 c2 : list (nat * entry)) : Prop :=
  Forall2 (fun x y => fst x = fst y /\ alias_entry (snd x) (snd y)) c1 c2.

Lemma alias_cfg_equiv c1 c2 : alias_cfg c1 c2 -> cfg_equiv (rp_i root) c1 c2.
Proof.
  induction 1 as [|x y l1 l2 [Hp (Hf & Hd & H3 & H4)] _ IH]; constructor; [|exact IH].
  split; [exact Hp|]. split; [apply same_real_rp; exact Hf|]. split; [|split; assumption].
  clear - Hd. induction Hd; constructor; [apply same_real_dir_equiv; assumption|assumption].
Qed.

(* every file of the table is a structured program *)
Definition tab_structured : Prop :=
  forall k ls ws, clookup k tab = Some (ls, ws) -> exists its, ls = flats act cond its.

Lemma getf_structured : tab_structured ->
  forall q ls, getf_i root tab q = Some ls -> exists its, ls = flats act cond its.
Proof.
  intros H q ls. unfold getf_i, entry_at. destruct (node_at root q) as [[k|kk|a t]|]; try discriminate.
  destruct (clookup k tab) as [[ls' ws]|] eqn:E; [|discriminate]. cbn. intros H'; inversion H'; subst. eapply H; eauto.
Qed.

Theorem find_alias_i fuel members c1 c2 ms :
  tab_structured -> alias_cfg c1 c2 ->
  find_A (rp_i root) (getf_i root tab) fuel members c1 = Ok ms ->
  find_A (rp_i root) (getf_i root tab) fuel members c2 = Ok ms.
Proof.
  intros Hs Ha. apply find_alias; [apply getf_structured; exact Hs|apply alias_cfg_equiv; exact Ha].
Qed.

End Inst.
