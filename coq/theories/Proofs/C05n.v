(* C05, step 5: invariants of c_file_source's bookkeeping (line_info) and of the
   LineGroup fold in FileParser.parse_file.  These hold for EVERY character /
   buffer algebra and every input (no well-formedness needed): they only
   concern line numbers. *)
From Coq Require Import ZArith Bool Arith List Sorted Lia.
From CBI Require Import Lib.Data Model.C05 Spec.C05.
Import ListNotations.

Definition flat {B} (out : list (lline B)) : list nat := concat (map ll_lines out).

Lemma sorted_app (l1 l2 : list nat) :
  StronglySorted lt l1 -> StronglySorted lt l2 -> (forall a b, In a l1 -> In b l2 -> a < b) ->
  StronglySorted lt (l1 ++ l2).
Proof.
  induction l1 as [|x l1 IH]; intros S1 S2 H; cbn [app]; [exact S2|].
  inversion S1 as [|? ? S1' F1]; subst. constructor.
  - apply IH; [exact S1'|exact S2|]. intros a b Ha Hb. apply H; [right; exact Ha|exact Hb].
  - apply Forall_app. split; [exact F1|]. apply Forall_forall. intros b Hb. apply H; [left; reflexivity|exact Hb].
Qed.

Section Gen.
Context {C B : Type} (A : alg C B).

Definition Llok (lo : nat) (l : lline B) : Prop :=
  lo <= ll_start l /\ ll_start l <= ll_end l /\
  (forall k, In k (ll_lines l) -> ll_start l <= k /\ k < ll_end l) /\
  StronglySorted lt (ll_lines l) /\ ll_sloc l = length (ll_lines l) /\ cat_blank (ll_cat l) = false.

Fixpoint chain (lo : nat) (out : list (lline B)) (hi : nat) : Prop :=
  match out with
  | [] => lo <= hi
  | l :: r => Llok lo l /\ chain (ll_end l) r hi
  end.

Lemma chain_snoc out : forall lo mid l, chain lo out mid -> Llok mid l -> chain lo (out ++ [l]) (ll_end l).
Proof.
  induction out as [|x out IH]; intros lo mid l H Hl; cbn [app chain] in *.
  - destruct Hl as (H1 & H2 & H3 & H4 & H5 & H6). split; [|lia]. unfold Llok.
    split; [lia|]. split; [exact H2|]. split; [exact H3|]. auto.
  - destruct H as [Hx Hr]. split; [exact Hx|]. apply IH with mid; assumption.
Qed.
Lemma chain_weaken out : forall lo hi hi', chain lo out hi -> hi <= hi' -> chain lo out hi'.
Proof.
  induction out as [|x out IH]; intros lo hi hi' H Hle; cbn [chain] in *; [lia|].
  destruct H as [Hx Hr]. split; [exact Hx|]. apply IH with hi; assumption.
Qed.
Lemma chain_le out : forall lo hi, chain lo out hi -> lo <= hi.
Proof.
  induction out as [|x out IH]; intros lo hi H; cbn [chain] in *; [exact H|].
  destruct H as [(H1 & H2 & _) Hr]. apply IH in Hr. lia.
Qed.

Lemma chain_flat out : forall lo hi, chain lo out hi ->
  StronglySorted lt (flat out) /\ (forall k, In k (flat out) -> lo <= k /\ k < hi).
Proof.
  induction out as [|l out IH]; intros lo hi H; cbn [chain] in H.
  - split; [constructor|intros k []].
  - destruct H as [(H1 & H2 & H3 & H4 & H5 & H6) Hr]. destruct (IH _ _ Hr) as [S2 R2].
    pose proof (chain_le _ _ _ Hr) as Hle.
    unfold flat in *. cbn [map concat]. split.
    + apply sorted_app; [exact H4|exact S2|]. intros a b Ha Hb. apply H3 in Ha. apply R2 in Hb. lia.
    + intros k Hk. apply in_app_or in Hk. destruct Hk as [Hk|Hk]; [apply H3 in Hk; lia | apply R2 in Hk; lia].
Qed.

Lemma chain_forall out : forall lo hi, chain lo out hi ->
  Forall (fun l => 1 <= lo -> 1 <= ll_start l) out /\ Forall (fun l => ll_sloc l = length (ll_lines l)) out /\
  Forall (fun l => cat_blank (ll_cat l) = false) out.
Proof.
  induction out as [|l out IH]; intros lo hi H; cbn [chain] in H; [repeat split; constructor|].
  destruct H as [(H1 & H2 & H3 & H4 & H5 & H6) Hr]. destruct (IH _ _ Hr) as (F1 & F2 & F3).
  repeat split; constructor; auto; try lia.
  eapply Forall_impl; [|exact F1]. cbn. intros a Ha Hlo. apply Ha. lia.
Qed.

(* invariant of the physical-line loop *)
Definition J (n : nat) (f : fs B) : Prop :=
  1 <= fs_start f /\ fs_start f <= n /\ chain 1 (fs_out f) (fs_start f) /\
  (forall k, In k (fs_lines f) -> fs_start f <= k /\ k < n) /\
  StronglySorted lt (fs_lines f) /\ fs_sloc f = length (fs_lines f).

Lemma sorted_snoc (l : list nat) n : StronglySorted lt l -> (forall k, In k l -> k < n) -> StronglySorted lt (l ++ [n]).
Proof.
  intros S1 H. apply sorted_app; [exact S1|repeat constructor|].
  intros a b Ha [<-|[]]. apply H. exact Ha.
Qed.

Lemma close_J st L lines sloc start total out n :
  1 <= start -> start <= S n -> chain 1 out start ->
  (forall k, In k lines -> start <= k /\ k < S n) -> StronglySorted lt lines -> sloc = length lines ->
  J (S n) (close_logical A st L lines sloc start total out n).
Proof.
  intros H1 H2 H3 H4 H5 H6. unfold close_logical, J. cbn [fs_start fs_out fs_lines fs_sloc].
  split; [lia|]. split; [lia|]. split; [|split; [intros k []|split; [constructor|reflexivity]]].
  destruct (cat_blank (a_cat A L)) eqn:Ec.
  - apply chain_weaken with start; [exact H3|lia].
  - pose proof (chain_snoc out 1 start
       {| ll_start := start; ll_end := S n; ll_lines := lines; ll_sloc := sloc; ll_cat := a_cat A L; ll_buf := L |} H3) as Q.
    cbn [ll_end] in Q. apply Q. unfold Llok. cbn [ll_start ll_end ll_lines ll_sloc ll_cat].
    split; [lia|]. split; [lia|]. split; [exact H4|]. auto.
Qed.

Lemma phys_line_J n f l : J n f -> J (S n) (phys_line A f n l).
Proof.
  intros (H1 & H2 & H3 & H4 & H5 & H6). destruct l as [body continued]. unfold phys_line.
  destruct (process A (fs_st f) (a_empty A) body) as [st1 b1].
  destruct (if negb continued && negb (top_is_block st1) then logical_newline A st1 b1 else (st1, b1)) as [st2 b2].
  set (counted := negb (cat_blank (a_cat A b2))).
  assert (Q4 : forall k, In k (if counted then fs_lines f ++ [n] else fs_lines f) -> fs_start f <= k /\ k < S n).
  { intros k Hk. destruct counted; [apply in_app_or in Hk; destruct Hk as [Hk|[<-|[]]]|]; try (apply H4 in Hk); lia. }
  assert (Q5 : StronglySorted lt (if counted then fs_lines f ++ [n] else fs_lines f)).
  { destruct counted; [|exact H5]. apply sorted_snoc; [exact H5|]. intros k Hk. apply H4 in Hk. lia. }
  assert (Q6 : (if counted then S (fs_sloc f) else fs_sloc f) = length (if counted then fs_lines f ++ [n] else fs_lines f)).
  { destruct counted; [|exact H6]. rewrite app_length. cbn. lia. }
  destruct (negb continued && negb (top_is_block st2)).
  - apply close_J; auto; lia.
  - unfold J. cbn [fs_start fs_out fs_lines fs_sloc]. repeat split; auto; try lia; apply Q4; assumption.
Qed.

Lemma phys_loop_J ls : forall n f, J n f -> J (n + length ls) (phys_loop A f n ls).
Proof.
  induction ls as [|l ls IH]; intros n f H; cbn [phys_loop length]; [rewrite Nat.add_0_r; exact H|].
  replace (n + S (length ls)) with (S n + length ls) by lia. apply IH. apply phys_line_J. exact H.
Qed.

Theorem file_source_chain ls out total n :
  c_file_source A ls = FsOk out total n -> n = length ls /\ chain 1 out (S (length ls)).
Proof.
  unfold c_file_source. intros H.
  assert (J0 : J 1 (fs_init A)).
  { unfold J, fs_init. cbn. repeat split; try lia; try constructor; try (intros k []); contradiction. }
  pose proof (phys_loop_J ls 1 _ J0) as (H1 & H2 & H3 & H4 & H5 & H6).
  set (f := phys_loop A (fs_init A) 1 ls) in *.
  destruct (has_err (fs_st f)); [discriminate H|].
  destruct (fs_st f) as [|[] [|? ?]]; try discriminate H.
  injection H as <- <- <-. split; [reflexivity|].
  pose proof (close_J [TOP] (fs_L f) (fs_lines f) (fs_sloc f) (fs_start f) (fs_total f) (fs_out f) (length ls)) as Q.
  assert (Hr : forall k, In k (fs_lines f) -> fs_start f <= k /\ k < S (length ls)) by (intros k Hk; apply H4 in Hk; lia).
  assert (Hs : fs_start f <= S (length ls)) by lia.
  destruct (Q H1 Hs H3 Hr H5 H6) as (_ & _ & Q' & _). exact Q'.
Qed.

(* ---------- the LineGroup fold ---------- *)
Definition nk (x : node) : nkind * list nat := (n_kind x, n_lines x).
Definition pj (l : lline B) : list nat * bool := (ll_lines l, match ll_cat l with CPPD => true | _ => false end).

Definition K (p : ps) : Prop :=
  (lg_empty (ps_code p) = true -> ps_code p = lg_new) /\
  lg_count (ps_code p) = length (lg_lines (ps_code p)) /\
  Forall (fun x => n_count x = length (n_lines x)) (ps_nodes p) /\
  lg_count (ps_file p) = length (concat (map n_lines (ps_nodes p))) /\
  lg_lines (ps_file p) = concat (map n_lines (ps_nodes p)).

Lemma lg_add_nonempty g s e sloc lines : (1 <= s)%Z -> lg_empty (lg_add g s e sloc lines) = false.
Proof.
  intros Hs. unfold lg_empty, lg_add. cbn [lg_start lg_count lg_end].
  destruct (Z.eqb (lg_start g) (-1) || Z.ltb s (lg_start g)) eqn:E.
  - replace (Z.eqb s (-1)) with false by (symmetry; apply Z.eqb_neq; lia). rewrite andb_false_r. reflexivity.
  - apply orb_false_iff in E. destruct E as [E _]. rewrite E. rewrite andb_false_r. reflexivity.
Qed.

Lemma flush_code_K p : K p -> K (flush_code p) /\ ps_code (flush_code p) = lg_new /\
  map nk (ps_nodes (flush_code p)) =
    map nk (ps_nodes p) ++ (if lg_empty (ps_code p) then [] else [(NCode, lg_lines (ps_code p))]).
Proof.
  intros (K1 & K2 & K3 & K4 & K5). unfold flush_code. destruct (lg_empty (ps_code p)) eqn:E.
  - rewrite app_nil_r. repeat split; auto.
  - cbn [ps_code ps_file ps_nodes]. unfold K. cbn [ps_code ps_file ps_nodes lg_merge lg_count lg_lines].
    rewrite !map_app, !concat_app. cbn [map concat node_of n_lines n_count nk n_kind]. rewrite !app_nil_r, !app_length.
    repeat split; auto.
    all: try lia; try (rewrite K5; reflexivity).
    apply Forall_app. split; [exact K3|]. constructor; [exact K2|constructor].
Qed.

Lemma parse_step_K p (l : lline B) :
  K p -> 1 <= ll_start l -> ll_sloc l = length (ll_lines l) -> K (parse_step p l).
Proof.
  intros HK Hs Hc. unfold parse_step. destruct (ll_cat l).
  - (* code (BLANK never reaches the parser, but it would be treated as code) *)
    destruct HK as (K1 & K2 & K3 & K4 & K5). unfold K. cbn [ps_code ps_file ps_nodes].
    rewrite lg_add_nonempty by lia. cbn [lg_add lg_count lg_lines]. rewrite app_length. repeat split; auto; try discriminate; lia.
  - destruct (flush_code_K p HK) as ((K1 & K2 & K3 & K4 & K5) & E1 & E2).
    unfold K. cbn [ps_code ps_file ps_nodes]. rewrite E1.
    cbn [lg_merge lg_add lg_new lg_count lg_lines node_of].
    rewrite !map_app, !concat_app. cbn [map concat n_lines n_count app]. rewrite !app_nil_r, !app_length.
    repeat split; auto.
    all: try lia; try (rewrite K5; reflexivity); try discriminate.
    apply Forall_app. split; [exact K3|]. constructor; [cbn; exact Hc|constructor].
  - destruct HK as (K1 & K2 & K3 & K4 & K5). unfold K. cbn [ps_code ps_file ps_nodes].
    rewrite lg_add_nonempty by lia. cbn [lg_add lg_count lg_lines]. rewrite app_length. repeat split; auto; try discriminate; lia.
Qed.

(* the nodes built so far, plus the pending code group *)
Definition pending (p : ps) : list nat := concat (map n_lines (ps_nodes p)) ++ lg_lines (ps_code p).

Lemma parse_step_pending p (l : lline B) : K p -> pending (parse_step p l) = pending p ++ ll_lines l.
Proof.
  intros HK. unfold parse_step, pending. destruct (ll_cat l); cbn [ps_code ps_nodes lg_add lg_lines];
    try (rewrite app_assoc; reflexivity).
  destruct (flush_code_K p HK) as (_ & E1 & _). rewrite E1. cbn [lg_new lg_lines]. rewrite app_nil_r.
  rewrite map_app, concat_app. cbn [map concat node_of n_lines lg_add lg_lines lg_new app]. rewrite app_nil_r.
  destruct HK as (K1 & _). unfold flush_code. destruct (lg_empty (ps_code p)) eqn:E.
  - rewrite (K1 eq_refl). cbn [lg_new lg_lines]. rewrite app_nil_r. reflexivity.
  - cbn [ps_nodes]. rewrite map_app, concat_app. cbn [map concat node_of n_lines]. rewrite app_nil_r. reflexivity.
Qed.

Lemma K_init : K ps_init.
Proof. unfold K, ps_init. cbn. repeat split; auto. Qed.

Lemma fold_K (out : list (lline B)) : forall p,
  K p -> Forall (fun l => 1 <= ll_start l) out -> Forall (fun l => ll_sloc l = length (ll_lines l)) out ->
  K (fold_left parse_step out p) /\ pending (fold_left parse_step out p) = pending p ++ flat out.
Proof.
  induction out as [|l out IH]; intros p HK F1 F2; cbn [fold_left].
  - cbv [flat]. cbn [map concat]. rewrite app_nil_r. auto.
  - inversion F1; subst. inversion F2; subst.
    assert (HK' : K (parse_step p l)) by (apply parse_step_K; assumption).
    destruct (IH _ HK' H2 H4) as [Q1 Q2]. split; [exact Q1|].
    rewrite Q2, parse_step_pending by assumption. cbv [flat]. cbn [map concat]. rewrite app_assoc. reflexivity.
Qed.

Lemma finish_facts p nphys : K p ->
  let t := parse_finish p nphys in
  concat (map n_lines (t_nodes t)) = pending p /\
  Forall (fun x => n_count x = length (n_lines x)) (t_nodes t) /\
  t_total_sloc t = length (pending p) /\
  map nk (t_nodes t) = map nk (ps_nodes p) ++ (if lg_empty (ps_code p) then [] else [(NCode, lg_lines (ps_code p))]).
Proof.
  intros (K1 & K2 & K3 & K4 & K5). unfold parse_finish, pending. destruct (lg_empty (ps_code p)) eqn:E.
  - cbn [t_nodes t_total_sloc]. rewrite (K1 eq_refl). cbn [lg_new lg_lines]. rewrite !app_nil_r. auto.
  - cbn [t_nodes t_total_sloc ps_nodes ps_file lg_merge lg_count lg_add lg_lines].
    rewrite !map_app, !concat_app. cbn [map concat node_of n_lines n_count nk n_kind lg_add lg_lines lg_count].
    rewrite !app_nil_r, !app_length, Nat.add_0_r. repeat split; auto.
    all: try lia.
    apply Forall_app. split; [exact K3|]. constructor; [|constructor].
    + cbn [node_of n_count n_lines lg_add lg_count lg_lines]. rewrite app_nil_r. lia.
    + unfold nk, node_of, lg_add. cbn [n_kind n_lines lg_lines]. rewrite app_nil_r. reflexivity.
Qed.

(* the invariants of the property: no line counted twice, none outside the file, num_lines = |lines|, total = sum *)
Theorem parse_file_invariants ls t :
  parse_file A ls = Some t ->
  let nl := concat (map n_lines (t_nodes t)) in
  StronglySorted lt nl /\ (forall k, In k nl -> 1 <= k /\ k <= length ls) /\
  Forall (fun x => n_count x = length (n_lines x)) (t_nodes t) /\
  t_total_sloc t = length nl /\
  (forall out total n, c_file_source A ls = FsOk out total n -> nl = flat out).
Proof.
  unfold parse_file. destruct (c_file_source A ls) as [out total n|e] eqn:Ef; [|discriminate].
  intros H. injection H as <-. cbv zeta.
  destruct (file_source_chain _ _ _ _ Ef) as [-> Hch].
  destruct (chain_flat _ _ _ Hch) as [S1 R1]. destruct (chain_forall _ _ _ Hch) as (F1 & F2 & F3).
  assert (F1' : Forall (fun l => 1 <= ll_start l) out) by (eapply Forall_impl; [|exact F1]; cbn; intros a Ha; apply Ha; lia).
  destruct (fold_K out ps_init K_init F1' F2) as [HK Hp].
  destruct (finish_facts _ (length ls) HK) as (Q1 & Q2 & Q3 & Q4).
  assert (Hnl : concat (map n_lines (t_nodes (parse_finish (fold_left parse_step out ps_init) (length ls)))) = flat out).
  { rewrite Q1, Hp. reflexivity. }
  rewrite Hnl. repeat split; auto.
  - apply R1 in H. lia.
  - apply R1 in H. lia.
  - rewrite Q3, Hp. reflexivity.
  - intros out' total' n' E. injection E as <- _ _. reflexivity.
Qed.
End Gen.
