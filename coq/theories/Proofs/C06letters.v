(* C06 - which platform sets / platform names a directory node shows *)
From Coq Require Import ZArith String Bool Arith Lia Permutation List.
From CBI Require Import Lib.Data Lib.Res Model.C06 Spec.C06 Proofs.C06 Proofs.C06tree.
Import ListNotations.
Local Open Scope Z_scope.

(* does some key of the dict satisfy Q *)
Definition anyk (Q : pset -> bool) (m : setmap) : bool := existsb (fun kv => Q (fst kv)) m.
Definition nany (Q : pset -> bool) (o : option tnode) : bool := match o with Some n => anyk Q (tsm n) | None => false end.

Lemma anyk_add Q k n m : anyk Q (sm_add k n m) = anyk Q m || Q k.
Proof.
  unfold anyk. induction m as [|[k' v] m IH]; cbn [sm_add existsb fst]; [apply orb_comm|].
  destruct (key_eqb k' k) eqn:E; cbn [existsb fst].
  - apply key_eqb_eq in E. subst k'. destruct (Q k), (existsb (fun kv => Q (fst kv)) m); reflexivity.
  - rewrite IH, orb_assoc. reflexivity.
Qed.
Lemma anyk_merge Q sm : forall m, anyk Q (sm_merge m sm) = anyk Q m || anyk Q sm.
Proof.
  unfold sm_merge. induction sm as [|[k v] sm IH]; intros m; cbn [fold_left]; [cbn; rewrite orb_false_r; reflexivity|].
  rewrite IH, anyk_add. cbn [anyk existsb fst snd]. fold (anyk Q sm). rewrite orb_assoc. reflexivity.
Qed.
Lemma anyk_add_nodes Q ns : forall m, anyk Q (add_nodes m ns) = anyk Q m || existsb (fun n => Q (nplat n)) ns.
Proof.
  unfold add_nodes. induction ns as [|n ns IH]; intros m; cbn [fold_left existsb]; [rewrite orb_false_r; reflexivity|].
  rewrite IH, anyk_add, orb_assoc. reflexivity.
Qed.
Lemma anyk_file_setmap Q f : anyk Q (file_setmap f) = existsb (fun n => Q (nplat n)) (fnodes f).
Proof. unfold file_setmap. rewrite anyk_add_nodes. reflexivity. Qed.

Lemma lookup_insert_any Q link sm : forall comps q t, q <> comps ->
  nany Q (lookup q (insert comps link sm t))
  = nany Q (lookup q t) || (strict_prefix q comps && negb link && anyk Q sm).
Proof.
  induction comps as [|c rest IH]; intros q t Hq.
  - cbn [insert]. rewrite strict_prefix_nil_r. cbn [andb]. rewrite orb_false_r. reflexivity.
  - destruct q as [|c' q].
    + destruct t as [nm d l m ch]. cbn [insert lookup nany tsm strict_prefix andb].
      destruct link; cbn [negb andb]; [rewrite orb_false_r; reflexivity|]. apply anyk_merge.
    + rewrite lookup_insert_cons. cbn [strict_prefix]. destruct (String.eqb c c') eqn:E.
      * apply String.eqb_eq in E. subst c'. rewrite String.eqb_refl. cbn [andb].
        assert (Hq' : q <> rest) by congruence. rewrite (IH q _ Hq'). f_equal.
        rewrite lookup_cons. destruct (child c (tch t)) as [x|]; [reflexivity|].
        destruct q as [|c'' q]; [|rewrite lookup_fresh_nonempty; reflexivity].
        destruct rest as [|r rest]; [congruence | reflexivity].
      * rewrite String.eqb_sym, E. cbn [andb]. rewrite orb_false_r. reflexivity.
Qed.

Definition below_any (Q : pset -> bool) (prune : bool) (q : list string) (files : list file) : bool :=
  existsb (fun f => shown prune f && negb (flink f) && strict_prefix q (fpath f) &&
                    existsb (fun n => Q (nplat n)) (fnodes f)) files.

Lemma tree_any_gen Q prune q : forall files t, (forall f, In f files -> fpath f <> q) ->
  nany Q (lookup q (fold_left (step prune) files t)) = nany Q (lookup q t) || below_any Q prune q files.
Proof.
  induction files as [|f files IH]; intros t Hq; cbn [fold_left]; [unfold below_any; cbn; rewrite orb_false_r; reflexivity|].
  rewrite IH by (intros g Hg; apply Hq; right; exact Hg). unfold below_any. cbn [existsb]. rewrite orb_assoc. f_equal.
  unfold step. rewrite kept_shown. destruct (shown prune f); cbn [andb]; [|rewrite orb_false_r; reflexivity].
  rewrite lookup_insert_any by (intros E; apply (Hq f (or_introl eq_refl)); auto).
  rewrite anyk_file_setmap. f_equal. rewrite (andb_comm (strict_prefix q (fpath f))). reflexivity.
Qed.

(* a node that is not at a file's path has a key satisfying Q iff some shown non-link file
   strictly below it has a node whose platform set satisfies Q *)
Theorem tree_dir_any Q prune q files : (forall f, In f files -> fpath f <> q) ->
  nany Q (lookup q (files_tree prune files)) = below_any Q prune q files.
Proof. intros H. rewrite files_tree_fold, tree_any_gen by exact H. destruct q; reflexivity. Qed.

Lemma mem_filter p g U : mem p (filter g U) = mem p U && g p.
Proof.
  unfold mem. induction U as [|x U IH]; [reflexivity|]. cbn [filter existsb].
  destruct (g x) eqn:G; cbn [existsb]; rewrite IH; (destruct (String.eqb p x) eqn:E; [|reflexivity]);
    apply String.eqb_eq in E; subst x; rewrite G.
  - cbn [orb]. reflexivity.
  - rewrite !andb_false_r. reflexivity.
Qed.

(* the platforms of a directory node (Node.platforms restricted to the universe U) *)
Theorem tree_dir_platforms prune q files U n : (forall f, In f files -> fpath f <> q) ->
  lookup q (files_tree prune files) = Some n ->
  node_plats U (tsm n) = filter (fun p => below_any (mem p) prune q files) U /\
  forall p, mem p (node_plats U (tsm n)) = mem p U && below_any (mem p) prune q files.
Proof.
  intros Hq Hn.
  assert (A : forall p, existsb (fun kv => mem p (fst kv)) (tsm n) = below_any (mem p) prune q files).
  { intros p. rewrite <- (tree_dir_any (mem p) prune q files Hq), Hn. reflexivity. }
  unfold node_plats. split.
  - apply filter_ext. exact A.
  - intros p. rewrite mem_filter, A. reflexivity.
Qed.
