(* C14 - the forms the source uses now are the invariant ones; closed witnesses
   that the other forms (divergence over list(set), unsorted iteration) are not. *)
From Coq Require Import ZArith String Bool Permutation List SpecFloat.
From CBI Require Import Lib.Data Gen.C14_sites Model.C14 Model.C14f Model.C14g Proofs.C14 Proofs.C14f.
Import ListNotations.
Local Open Scope string_scope.
Local Open Scope Z_scope.

Lemma sites_are_repaired :
  summary_rows_src = summary_rows /\
  distance_src = distance_f /\
  (forall sm order, divergence_src sm order = divergence_f sm) /\
  iter_codebase_src = iter_codebase /\
  other_sites_sorted = true.
Proof. repeat split; reflexivity. Qed.

(* divergence over list(set(...)): even with the repaired distance, summing the
   pair distances in two orders of the SAME platform set gives different bits *)
Definition div_rows : setmap :=
  [([nm "B"], 1); ([nm "B"; nm "GPU"; nm "b10"], 2); ([], 1); ([nm "A"; nm "B"; nm "GPU"; nm "b10"], 3)].
Definition div_order1 : list name := [nm "A"; nm "B"; nm "GPU"; nm "b10"].
Definition div_order2 : list name := [nm "B"; nm "A"; nm "GPU"; nm "b10"].

Lemma divergence_platform_order_dependent :
  Permutation div_order1 div_order2 /\
  platforms_of div_rows = div_order1 /\
  divergence_with (distance_f div_rows) div_order1 = FVal (S754_finite false 4903919594247874 (-54)) /\
  divergence_with (distance_f div_rows) div_order2 = FVal (S754_finite false 4903919594247873 (-54)).
Proof. split; [apply perm_swap|]. repeat split; vm_compute; reflexivity. Qed.

(* unsorted iteration: the export follows the enumeration *)
Definition it_files : list pfile :=
  [ {| pf_path := [nm "n.c"]; pf_real := [nm "n.c"]; pf_nodes := [[1]] |};
    {| pf_path := [nm "m.c"]; pf_real := [nm "m.c"]; pf_nodes := [[1]] |} ].
Lemma iteration_old_order_dependent :
  Permutation it_files (rev it_files) /\ NoDup (map pf_path it_files) /\
  map (cov_record []) (iter_codebase_old it_files) <> map (cov_record []) (iter_codebase_old (rev it_files)) /\
  coverage_export [] it_files = coverage_export [] (rev it_files).
Proof.
  split; [apply Permutation_rev|]. split; [repeat constructor; cbn; intuition discriminate|].
  split; [vm_compute; discriminate|vm_compute; reflexivity].
Qed.
