(* C18 - every platform state in which a node is evaluated has a sound memo: the model with a
   guard that refuses unsound states (Spec/C18t.v exec_G) is the model. *)
From Coq Require Import Bool Arith ZArith Ascii String List Lia.
From CBI Require Import Lib.Res Lib.C18_str Model.C01 Spec.C01 Model.C04 Spec.C04 Model.C18 Spec.C18
                        Gen.C18_tables Spec.C18t Proofs.C01 Proofs.C04.
Import ListNotations.
Local Open Scope string_scope.
Local Open Scope list_scope.

Section MInv.
Variables ST ACT COND : Type.
Variable mark : nat -> ST -> ST.
Variables exec exec2 : ACT -> ST -> res ST.
Variable ev : COND -> ST -> res bool.
Variable Inv : ST -> Prop.
Hypothesis Hmark : forall id p, Inv p -> Inv (mark id p).
Hypothesis Hexec : forall a p p', Inv p -> exec a p = Ok p' -> Inv p'.
Hypothesis Hagree : forall a p, Inv p -> exec2 a p = exec a p.

Lemma visit_inv : forall (t : tree ACT COND) s s',
  Inv (pst ST s) -> visit ST ACT COND mark exec ev t s = Ok s' -> Inv (pst ST s').
Proof.
  fix IH 1. intros [id k kids] s s' HI. rewrite visit_eq.
  assert (Hk : forall s1 s2, Inv (pst ST s1) -> visits ST ACT COND mark exec ev kids s1 = Ok s2 -> Inv (pst ST s2)).
  { clear s s' HI. induction kids as [|t ts IHts]; intros s1 s2 H1; cbn [visits].
    - intros H; inversion H; subst; exact H1.
    - destruct (visit ST ACT COND mark exec ev t s1) as [m|x] eqn:E; [|discriminate].
      intros H. apply (IHts _ _ (IH t s1 m H1 E) H). }
  cbn zeta. pose proof (Hmark id _ HI) as HM.
  destruct k as [a|c|c| |].
  - destruct (exec a (mark id (pst ST s))) as [p'|x] eqn:E; [|discriminate].
    intros H; inversion H; subst; cbn. eapply Hexec; [exact HM|exact E].
  - destruct (ev c (mark id (pst ST s))) as [b|x]; [|discriminate].
    destruct b; [apply Hk; exact HM|intros H; inversion H; subst; exact HM].
  - destruct (bt ST s) as [|b r]; [discriminate|]. destruct b; [intros H; inversion H; subst; exact HM|].
    destruct (ev c (mark id (pst ST s))) as [b|x]; [|discriminate].
    destruct b; [apply Hk; exact HM|intros H; inversion H; subst; exact HM].
  - destruct (bt ST s) as [|b r]; [discriminate|]. destruct b; [intros H; inversion H; subst; exact HM|apply Hk; exact HM].
  - destruct (bt ST s) as [|b r]; [discriminate|]. intros H; inversion H; subst; exact HM.
Qed.

Lemma visits_inv ts : forall s s',
  Inv (pst ST s) -> visits ST ACT COND mark exec ev ts s = Ok s' -> Inv (pst ST s').
Proof.
  induction ts as [|t ts IHts]; intros s s' H0; cbn [visits].
  - intros H1; inversion H1; subst; exact H0.
  - destruct (visit ST ACT COND mark exec ev t s) as [m|x] eqn:E; [|discriminate].
    apply IHts. eapply visit_inv; [exact H0|exact E].
Qed.

Lemma run_M_inv ls p p' : Inv p -> run_M ST ACT COND mark exec ev ls p = Ok p' -> Inv p'.
Proof.
  unfold run_M. intros HI. destruct (build ACT COND ls) as [ts|x]; [|discriminate].
  destruct (visits ST ACT COND mark exec ev ts {| bt := []; pst := p |}) as [s|x] eqn:E; [|discriminate].
  intros H; inversion H; subst. eapply visits_inv; [|exact E]. exact HI.
Qed.

Lemma visit_agree : forall (t : tree ACT COND) s,
  Inv (pst ST s) -> visit ST ACT COND mark exec2 ev t s = visit ST ACT COND mark exec ev t s.
Proof.
  fix IH 1. intros [id k kids] s HI. rewrite !visit_eq.
  assert (Hk : forall s1, Inv (pst ST s1) ->
            visits ST ACT COND mark exec2 ev kids s1 = visits ST ACT COND mark exec ev kids s1).
  { clear s HI. induction kids as [|t ts IHts]; intros s1 H1; cbn [visits]; [reflexivity|].
    rewrite (IH t s1 H1). destruct (visit ST ACT COND mark exec ev t s1) as [m|x] eqn:E; [|reflexivity].
    apply IHts. eapply visit_inv; [exact H1|exact E]. }
  cbn zeta. pose proof (Hmark id _ HI) as HM.
  destruct k as [a|c|c| |].
  - rewrite (Hagree a _ HM). reflexivity.
  - destruct (ev c (mark id (pst ST s))) as [b|x]; [|reflexivity]. destruct b; [apply Hk; exact HM|reflexivity].
  - destruct (bt ST s) as [|b r]; [reflexivity|]. destruct b; [reflexivity|].
    destruct (ev c (mark id (pst ST s))) as [b|x]; [|reflexivity]. destruct b; [apply Hk; exact HM|reflexivity].
  - destruct (bt ST s) as [|b r]; [reflexivity|]. destruct b; [reflexivity|apply Hk; exact HM].
  - reflexivity.
Qed.

Lemma run_M_agree ls p : Inv p -> run_M ST ACT COND mark exec2 ev ls p = run_M ST ACT COND mark exec ev ls p.
Proof.
  unfold run_M. intros HI. destruct (build ACT COND ls) as [ts|x]; [|reflexivity].
  assert (G : forall s0, Inv (pst ST s0) ->
            visits ST ACT COND mark exec2 ev ts s0 = visits ST ACT COND mark exec ev ts s0).
  { induction ts as [|t ts IHts]; intros s0 H0; cbn [visits]; [reflexivity|].
    rewrite (visit_agree t s0 H0). destruct (visit ST ACT COND mark exec ev t s0) as [m|x] eqn:E; [|reflexivity].
    apply IHts. eapply visit_inv; [exact H0|exact E]. }
  rewrite G; [reflexivity|exact HI].
Qed.
End MInv.

(* ---------- every state in which a node is evaluated has a sound memo ---------- *)
Lemma opath_eqb_refl a : opath_eqb a a = true.
Proof. destruct a; [apply path_eqb_refl|reflexivity]. Qed.
Lemma opath_eqb_eq a b : opath_eqb a b = true -> a = b.
Proof. destruct a, b; cbn; try discriminate; [intros H; apply path_eqb_eq in H; subst|]; reflexivity. Qed.

Lemma sound_b_sound fs p : memo_sound_b fs p = true -> memo_sound fs p.
Proof.
  unfold memo_sound_b, memo_sound. generalize (dirs p) as ds. induction (memo p) as [|[k' r'] m IH]; intros ds H k r; cbn [lookup_memo forallb fst snd] in *.
  - discriminate.
  - apply andb_prop in H. destruct H as [H1 H2]. destruct (mkey_eqb k k') eqn:E.
    + apply mkey_eqb_eq in E. subst. intros X; inversion X; subst. apply opath_eqb_eq. exact H1.
    + apply IH. exact H2.
Qed.

Lemma find_include_sound_b fs k p p1 r :
  memo_sound_b fs p = true -> find_include fs k p = (p1, r) -> memo_sound_b fs p1 = true.
Proof.
  unfold find_include. intros Hs. destruct (lookup_memo k (memo p)).
  - intros H; inversion H; subst; exact Hs.
  - intros H; inversion H; subst. unfold memo_sound_b in *. cbn [memo dirs set_memo forallb fst snd].
    rewrite opath_eqb_refl. exact Hs.
Qed.

Lemma exec_M_sound_b fs fuel : forall cur a p p',
  memo_sound_b fs p = true -> exec_M fs fuel cur a p = Ok p' -> memo_sound_b fs p' = true.
Proof.
  induction fuel as [fuel IH] using lt_wf_ind. intros cur a p p' Hs. rewrite exec_M_unfold.
  destruct a as [| |m v|m|tag s|].
  - intros H; inversion H; subst; exact Hs.
  - intros H; inversion H; subst; exact Hs.
  - intros H; inversion H; subst. destruct (lookup m (defs p)); exact Hs.
  - intros H; inversion H; subst; exact Hs.
  - destruct (include_target s p) as [[angle name]|x]; [|discriminate].
    destruct (find_include fs (name, dirname cur, angle) p) as [p1 r] eqn:Ef.
    pose proof (find_include_sound_b fs _ _ _ _ Hs Ef) as Hs1.
    destruct r as [f|].
    + destruct (mem_path f (once p1)); [intros H; inversion H; subst; exact Hs1|].
      destruct fuel as [|n]; [discriminate|]. destruct (fs_get fs f) as [ls|]; [|discriminate].
      apply (run_M_inv plat act cond (mark_in f) (exec_M fs n f) ev (fun q => memo_sound_b fs q = true)); [| |exact Hs1].
      * intros id q Hq; exact Hq.
      * intros a' q q' Hq. apply (IH n (Nat.lt_succ_diag_r n) f a' q q' Hq).
    + intros H; inversion H; subst. exact Hs1.
  - intros H; inversion H; subst. destruct (mem_path cur (once p)); exact Hs.
Qed.

Lemma exec_G_eq fs fuel : forall cur a p, memo_sound_b fs p = true -> exec_G fs fuel cur a p = exec_M fs fuel cur a p.
Proof.
  induction fuel as [fuel IH] using lt_wf_ind. intros cur a p Hs. rewrite exec_M_unfold.
  destruct fuel as [|n]; cbn [exec_G]; rewrite Hs; cbn [negb].
  - destruct a; try reflexivity.
  - destruct a as [| |m v|m|tag s|]; try reflexivity.
    destruct (include_target s p) as [[angle name]|x]; [|reflexivity].
    destruct (find_include fs (name, dirname cur, angle) p) as [p1 r] eqn:Ef.
    pose proof (find_include_sound_b fs _ _ _ _ Hs Ef) as Hs1.
    destruct r as [f|]; [|reflexivity]. destruct (mem_path f (once p1)); [reflexivity|].
    destruct (fs_get fs f) as [ls|]; [|reflexivity].
    apply (run_M_agree plat act cond (mark_in f) (exec_M fs n f) (exec_G fs n f) ev (fun q => memo_sound_b fs q = true)); [| | |exact Hs1].
    + intros id q Hq; exact Hq.
    + intros a' q q' Hq. apply exec_M_sound_b. exact Hq.
    + intros a' q Hq. apply (IH n (Nat.lt_succ_diag_r n)). exact Hq.
Qed.

Lemma run_file_G_eq fs fuel f p : memo_sound_b fs p = true -> run_file_G fs fuel f p = run_file_M fs fuel f p.
Proof.
  unfold run_file_G, run_file_M. intros Hs. destruct (fs_get fs f) as [ls|]; [|reflexivity].
  apply (run_M_agree plat act cond (mark_in f) (exec_M fs fuel f) (exec_G fs fuel f) ev (fun q => memo_sound_b fs q = true)); [| | |exact Hs].
  - intros id q Hq; exact Hq.
  - intros a' q q' Hq. apply exec_M_sound_b. exact Hq.
  - intros a' q Hq. apply exec_G_eq. exact Hq.
Qed.
Lemma run_file_M_sound_b fs fuel f p p' : memo_sound_b fs p = true -> run_file_M fs fuel f p = Ok p' -> memo_sound_b fs p' = true.
Proof.
  unfold run_file_M. intros Hs. destruct (fs_get fs f) as [ls|]; [|discriminate].
  apply (run_M_inv plat act cond (mark_in f) (exec_M fs fuel f) ev (fun q => memo_sound_b fs q = true)); [| |exact Hs].
  - intros id q Hq; exact Hq.
  - intros a' q q' Hq. apply exec_M_sound_b. exact Hq.
Qed.

Lemma forced_G_eq fs fuel this incs : forall p, memo_sound_b fs p = true ->
  forced_G fs fuel this incs p = forced_M fs fuel this incs p /\
  forall p', forced_M fs fuel this incs p = Ok p' -> memo_sound_b fs p' = true.
Proof.
  induction incs as [|n r IH]; intros p Hs; cbn [forced_G forced_M].
  - split; [reflexivity|intros p' H; inversion H; subst; exact Hs].
  - destruct (find_include fs (n, this, false) p) as [p1 res] eqn:Ef.
    pose proof (find_include_sound_b fs _ _ _ _ Hs Ef) as Hs1.
    destruct res as [f|]; [|apply IH; exact Hs1].
    destruct (mem_path f (once p1)); [apply IH; exact Hs1|].
    rewrite (run_file_G_eq fs fuel f p1 Hs1).
    destruct (run_file_M fs fuel f p1) as [p2|x] eqn:E; [|split; [reflexivity|discriminate]].
    apply IH. eapply run_file_M_sound_b; [exact Hs1|exact E].
Qed.

Theorem guard_never_fires fs fuel e : run_tu_G fs fuel e = run_tu_M fs fuel e.
Proof.
  unfold run_tu_G, run_tu_M.
  assert (H0 : memo_sound_b fs (fresh e) = true) by reflexivity.
  destruct (forced_G_eq fs fuel (dirname (e_file e)) (e_incs e) (fresh e) H0) as [-> Hs].
  destruct (forced_M fs fuel (dirname (e_file e)) (e_incs e) (fresh e)) as [p|x]; [|reflexivity].
  apply run_file_G_eq. apply Hs. reflexivity.
Qed.
