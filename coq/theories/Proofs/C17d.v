(* C17 — part d: whole files.  c_file_source and fortran_file_source on a
   well-formed text against the reference scanner, then FileParser's grouping. *)
From Coq Require Import NArith Bool Ascii String List.
From CBI Require Import Lib.Res Model.C17 Spec.C17 Proofs.C17a Proofs.C17b Proofs.C17c.
Import ListNotations.

(* ---------- category of joined buffers ---------- *)
Definition catl (l : list ascii) : cat :=
  match l with
  | [] => BLANK
  | [x] => if is_sp x then BLANK else if is_hash x then CPPDIR else SRC
  | x :: y :: _ => if (is_sp x && is_hash y) || is_hash x then CPPDIR else SRC
  end.
Lemma category_catl b : category b = catl (parts b). Proof. reflexivity. Qed.

Definition osl_ok (b : osl) : Prop := parts b = [] -> trailing b = false.

Lemma join_parts a b : exists d, parts (join a b) = parts a ++ d /\
  (d = parts b \/ (exists t, parts b = " "%char :: t /\ d = t /\ trailing a = true)).
Proof.
  unfold join. destruct (parts b) as [|x r] eqn:E.
  - exists []. rewrite app_nil_r. split; [reflexivity|left; reflexivity].
  - cbn [parts]. destruct (is_sp x && trailing a) eqn:C.
    + apply andb_true_iff in C. destruct C as [C1 C2]. exists r. split; [reflexivity|right].
      exists r. unfold is_sp in C1. apply Ascii.eqb_eq in C1. subst x. split; [reflexivity|split; [reflexivity|exact C2]].
    + exists (x :: r). split; [reflexivity|left; reflexivity].
Qed.

Lemma join_ok a b : osl_ok a -> osl_ok (join a b).
Proof.
  intros Ha. unfold osl_ok, join. destruct (parts b) as [|x r] eqn:E; [exact Ha|].
  cbn [parts trailing]. intros H. apply app_eq_nil in H. destruct H as [H1 H2].
  rewrite (Ha H1), andb_false_r in H2. discriminate.
Qed.

Lemma catl_keep pa d : catl pa <> BLANK -> catl (pa ++ d) <> BLANK.
Proof.
  destruct pa as [|x [|y r]]; cbn [app].
  - intros H; exfalso; apply H; reflexivity.
  - destruct d as [|z d']; [exact (fun H => H)|]. intros _. cbn [catl].
    destruct ((is_sp x && is_hash z) || is_hash x); discriminate.
  - intros _. cbn [catl]. destruct ((is_sp x && is_hash y) || is_hash x); discriminate.
Qed.

Lemma join_cat_keep a b : category a <> BLANK -> category (join a b) <> BLANK.
Proof.
  rewrite !category_catl. destruct (join_parts a b) as [d [E _]]. rewrite E. apply catl_keep.
Qed.

Lemma catl_two x d : d <> [] -> catl (x :: d) <> BLANK.
Proof. destruct d as [|y d']; [intros H; exfalso; apply H; reflexivity|]. intros _. cbn [catl]. destruct ((is_sp x && is_hash y) || is_hash x); discriminate. Qed.

Lemma sp_eq : is_sp " "%char = true. Proof. reflexivity. Qed.

Lemma join_cat_new a b : osl_ok a -> category b <> BLANK -> category (join a b) <> BLANK.
Proof.
  intros Ha. rewrite !category_catl. destruct (join_parts a b) as [d [E D]]. rewrite E.
  destruct (parts a) as [|x [|y r]] eqn:PA.
  - cbn [app]. destruct D as [D|[t [D1 [D2 D3]]]]; [subst d; exact (fun H => H)|].
    rewrite (Ha PA) in D3. discriminate.
  - cbn [app]. intros HB. apply catl_two. destruct D as [D|[t [D1 [D2 D3]]]].
    + subst d. intros N. rewrite N in HB. apply HB. reflexivity.
    + subst d. intros N. rewrite D1, N in HB. apply HB. reflexivity.
  - intros _. cbn [app catl]. destruct ((is_sp x && is_hash y) || is_hash x); discriminate.
Qed.

Lemma join_cat_nodir a b : osl_ok a -> category a <> CPPDIR -> category b <> CPPDIR -> category (join a b) <> CPPDIR.
Proof.
  intros Ha. rewrite !category_catl. destruct (join_parts a b) as [d [E D]]. rewrite E.
  destruct (parts a) as [|x [|y r]] eqn:PA.
  - cbn [app]. destruct D as [D|[t [D1 [D2 D3]]]]; [subst d; exact (fun _ H => H)|].
    rewrite (Ha PA) in D3. discriminate.
  - cbn [app]. intros HA HB. destruct d as [|z d'].
    + exact HA.
    + cbn [catl] in *. destruct (is_hash x) eqn:HX.
      { exfalso. apply HA. destruct (is_sp x) eqn:SX; [rewrite (sp_not_hash x SX) in HX; discriminate|reflexivity]. }
      rewrite orb_false_r. destruct (is_sp x && is_hash z) eqn:C; [|discriminate].
      apply andb_true_iff in C. destruct C as [C1 C2]. exfalso. apply HB.
      destruct D as [D|[t [D1 [D2 D3]]]].
      * rewrite <- D. cbn [catl]. destruct d' as [|w d''].
        -- destruct (is_sp z) eqn:SZ; [rewrite (sp_not_hash z SZ) in C2; discriminate|rewrite C2; reflexivity].
        -- rewrite C2, orb_true_r. reflexivity.
      * rewrite D1, <- D2. cbn [catl]. rewrite C2. reflexivity.
  - intros HA _. cbn [app catl] in *. exact HA.
Qed.

(* ---------- c_file_source on a well-formed text ---------- *)
Fixpoint couts (n : nat) (ls : list pline) (L : list cll) : Prop :=
  match ls with
  | [] => L = []
  | (cs, _) :: r => exists l L', L = l ++ L' /\ cout_ok n cs l /\ couts (S n) r L'
  end.

Lemma c_loop_wf ls : forall n out k, wf_from k ls = true ->
  exists L, c_lines_loop true n (clean out) ls = Ok (clean (out ++ L)) /\ couts n ls L.
Proof.
  induction ls as [|[cs nl] r IH]; intros n out k HW.
  - exists []. rewrite app_nil_r. split; reflexivity.
  - cbn [wf_from] in HW. apply andb_true_iff in HW. destruct HW as [HW W3].
    apply andb_true_iff in HW. destruct HW as [W1 W2].
    destruct (c_line_wf n out cs nl k W1 W2) as [l [E1 E2]].
    cbn [c_lines_loop]. rewrite E1.
    destruct (IH (S n) (out ++ l) _ W3) as [L' [E3 E4]].
    exists (l ++ L'). rewrite E3, app_assoc. split; [reflexivity|].
    cbn [couts]. exists l, L'. repeat split; assumption.
Qed.

Lemma c_source_wf ls : wf ls = true -> exists L, c_source true ls = Ok L /\ couts 1 ls L.
Proof.
  intros HW. destruct (c_loop_wf ls 1 [] K0 HW) as [L [E1 E2]].
  exists L. unfold c_source. change {| cl_stk := [CTop]; cl_cur := osl0; cl_lines := []; cl_out := [] |} with (clean []).
  rewrite E1. cbn. split; [reflexivity|exact E2].
Qed.

(* ---------- what the parser sees ---------- *)
Definition fdir (l : fll) : bool := cat_eqb (f_cat l) CPPDIR.
Definition cdir (l : cll) : bool := cat_eqb (c_cat l) CPPDIR.
Definition tag_flls (L : list fll) : list (nat * bool) :=
  flat_map (fun l => map (fun n => (n, fdir l)) (f_lines l)) L.
Definition plain (l : list nat) : list (nat * bool) := map (fun n => (n, false)) l.
Definition tagged (ns : list node) : list (nat * bool) :=
  flat_map (fun nd => map (fun n => (n, fst nd)) (snd nd)) ns.

Lemma tag_flls_app a b : tag_flls (a ++ b) = tag_flls a ++ tag_flls b.
Proof. unfold tag_flls. apply flat_map_app. Qed.

Lemma tag_fflush cur lines out : category cur <> CPPDIR -> (lines <> [] -> category cur <> BLANK) ->
  tag_flls (fflush cur lines out) = tag_flls out ++ plain lines /\
  filter fdir (fflush cur lines out) = filter fdir out.
Proof.
  intros H1 H2. unfold fflush. destruct (category cur) eqn:C.
  - destruct lines as [|x l]; [cbn; rewrite app_nil_r; split; reflexivity|].
    exfalso. apply H2; [discriminate|reflexivity].
  - rewrite tag_flls_app, filter_app. cbn. rewrite !app_nil_r. split; reflexivity.
  - exfalso. apply H1. reflexivity.
Qed.

(* ---------- fortran_file_source against the scanner ---------- *)
Record Inv (s : floop) (k : sctx) : Prop := {
  inv_stk : fl_stk s = stack_of k;
  inv_ok : osl_ok (fl_cur s);
  inv_nodir : category (fl_cur s) <> CPPDIR;
  inv_pend : fl_lines s <> [] -> category (fl_cur s) <> BLANK;
  inv_k0 : k = K0 -> fl_cur s = osl0 /\ fl_lines s = []
}.

Definition obs (s : floop) : list (nat * bool) := tag_flls (fl_out s) ++ plain (fl_lines s).

Lemma osl0_ok : osl_ok osl0. Proof. intros _. reflexivity. Qed.

Lemma top_cfs_stack k : top_is_cfs (stack_of k) = match k with K0 => false | _ => true end.
Proof. destruct k; reflexivity. Qed.

Lemma f_loop_app a : forall s b, f_lines_loop s (a ++ b) =
  match f_lines_loop s a with Ok s' => f_lines_loop s' b | Err e => Err e end.
Proof.
  induction a as [|x a IH]; intros s b; [reflexivity|].
  cbn [app f_lines_loop]. destruct (f_line s x); [apply IH|reflexivity].
Qed.

(* one physical line *)
Lemma f_step_wf n cs k s l : cguards (SBol k, mU) cs = true -> eguard (sline k cs) = true ->
  cout_ok n cs l -> Inv s k ->
  exists s', f_lines_loop s l = Ok s' /\ Inv s' (seol (fst (sline k cs))) /\
    obs s' = obs s ++ (match classify (sline k cs) with NotCounted => [] | Code => [(n, false)] | Directive => [(n, true)] end) /\
    filter fdir (fl_out s') = filter fdir (fl_out s) ++ map fll_of_cll (filter cdir l) /\
    (forall x, In x (fl_out s') -> fdir x = false -> In x (fl_out s) \/ f_cat x = SRC).
Proof.
  intros HG HE HC [I1 I2 I3 I4 I5]. unfold cout_ok in HC. pose proof (sline_fnb k cs) as HS.
  unfold sline in *. fold (sfold (SBol k, mU) cs) in *.
  destruct (fnb cs) as [kh|] eqn:F; [destruct (is_hashk kh) eqn:H|].
  - (* directive line *)
    destruct HC as [txt HC]. subst l. destruct HS as [d HS]. rewrite HS. cbn [fst seol classify].
    cbn [f_lines_loop f_line c_cat].
    eexists. split; [reflexivity|].
    destruct (tag_fflush (fl_cur s) (fl_lines s) (fl_out s) I3 I4) as [T1 T2].
    split; [|split; [|split]].
    + constructor; cbn [fl_stk fl_cur fl_lines]; try assumption.
      * exact osl0_ok.
      * discriminate.
      * intros N; exfalso; apply N; reflexivity.
      * intros _. split; reflexivity.
    + unfold obs. cbn [fl_out fl_lines]. rewrite tag_flls_app, T1. cbn. rewrite !app_nil_r. reflexivity.
    + cbn [fl_out]. rewrite filter_app, T2. reflexivity.
    + cbn [fl_out]. intros x HI HD. apply in_app_or in HI. destruct HI as [HI|[HI|[]]].
      * unfold fflush in HI. destruct (category (fl_cur s)) eqn:C; [left; exact HI| |exfalso; apply I3; reflexivity].
        apply in_app_or in HI. destruct HI as [HI|[HI|[]]]; [left; exact HI|]. right. subst x. reflexivity.
      * subst x. discriminate.
  - (* source line *)
    subst l. cbn [f_lines_loop f_line c_cat c_text c_lines].
    assert (TG : tguards (SBol k, mU) (collapse false cs) = true).
    { apply tguards_collapse; [discriminate|]. apply tguards_of_cguards; assumption. }
    assert (SF : sfold (SBol k, mU) (collapse false cs) = sfold (SBol k, mU) cs) by (apply sfold_collapse; discriminate).
    pose proof (line_sim k (fl_vc s) (collapse false cs) TG) as LS. rewrite SF in LS. specialize (LS HE).
    rewrite I1. cbv zeta in LS. destruct LS as [L1 [L2 [L3 L4]]].
    set (s1 := fprocess {| fstk := stack_of k; fbuf := osl0; fvc := fl_vc s; flm := LNorm |} (collapse false cs)) in *.
    rewrite L2, L1, top_cfs_stack.
    destruct (sfold (SBol k, mU) cs) as [q m] eqn:ES. cbn [fst snd] in *.
    assert (CL : classify (q, m) = if is_mM m then Code else NotCounted).
    { destruct q; try discriminate; destruct m; reflexivity. }
    rewrite CL.
    assert (ND : category (fbuf s1) <> CPPDIR) by (intros N; rewrite N in L4; discriminate).
    assert (NJ : category (join (fl_cur s) (fbuf s1)) <> CPPDIR) by (apply join_cat_nodir; assumption).
    assert (NP : (if is_blank (fbuf s1) then fl_lines s else fl_lines s ++ [n]) <> [] ->
                 category (join (fl_cur s) (fbuf s1)) <> BLANK).
    { destruct (is_blank (fbuf s1)) eqn:BL.
      - intros N. apply join_cat_keep. apply I4. exact N.
      - intros _. apply join_cat_new; [exact I2|]. intros N. rewrite is_blank_cat, N in BL. discriminate. }
    assert (OB : plain (if is_blank (fbuf s1) then fl_lines s else fl_lines s ++ [n]) =
                 plain (fl_lines s) ++ (if is_mM m then [(n, false)] else [])).
    { rewrite L3. destruct (is_mM m); cbn [negb]; [unfold plain; rewrite map_app; reflexivity|rewrite app_nil_r; reflexivity]. }
    destruct (seol q) eqn:SE.
    + (* statement ends here *)
      eexists. split; [reflexivity|].
      destruct (tag_fflush _ _ (fl_out s) NJ NP) as [T1 T2].
      split; [|split; [|split]].
      * constructor; cbn [fl_stk fl_cur fl_lines]; try reflexivity.
        -- exact osl0_ok.
        -- discriminate.
        -- intros N; exfalso; apply N; reflexivity.
        -- intros _. split; reflexivity.
      * unfold obs. cbn [fl_out fl_lines]. rewrite T1, OB, app_nil_r, app_assoc.
        destruct (is_mM m); reflexivity.
      * cbn [fl_out]. rewrite T2. cbn. rewrite app_nil_r. reflexivity.
      * cbn [fl_out]. intros x HI HD. unfold fflush in HI.
        destruct (category (join (fl_cur s) (fbuf s1))) eqn:C; [left; exact HI| |exfalso; apply NJ; reflexivity].
        apply in_app_or in HI. destruct HI as [HI|[HI|[]]]; [left; exact HI|]. right. subst x. reflexivity.
    + eexists. split; [reflexivity|]. split; [|split; [|split]].
      * constructor; cbn [fl_stk fl_cur fl_lines]; try reflexivity; try assumption.
        -- apply join_ok; exact I2.
        -- discriminate.
      * unfold obs. cbn [fl_out fl_lines]. rewrite OB, app_assoc. destruct (is_mM m); reflexivity.
      * cbn [fl_out]. cbn. rewrite app_nil_r. reflexivity.
      * cbn [fl_out]. intros x HI _. left. exact HI.
    + eexists. split; [reflexivity|]. split; [|split; [|split]].
      * constructor; cbn [fl_stk fl_cur fl_lines]; try reflexivity; try assumption.
        -- apply join_ok; exact I2.
        -- discriminate.
      * unfold obs. cbn [fl_out fl_lines]. rewrite OB, app_assoc. destruct (is_mM m); reflexivity.
      * cbn [fl_out]. cbn. rewrite app_nil_r. reflexivity.
      * cbn [fl_out]. intros x HI _. left. exact HI.
    + eexists. split; [reflexivity|]. split; [|split; [|split]].
      * constructor; cbn [fl_stk fl_cur fl_lines]; try reflexivity; try assumption.
        -- apply join_ok; exact I2.
        -- discriminate.
      * unfold obs. cbn [fl_out fl_lines]. rewrite OB, app_assoc. destruct (is_mM m); reflexivity.
      * cbn [fl_out]. cbn. rewrite app_nil_r. reflexivity.
      * cbn [fl_out]. intros x HI _. left. exact HI.
  - (* blank line *)
    subst l. rewrite HS. cbn [fst seol classify f_lines_loop].
    exists s. split; [reflexivity|]. split; [constructor; assumption|].
    split; [rewrite app_nil_r; reflexivity|]. split; [cbn; rewrite app_nil_r; reflexivity|].
    intros x HI _. left. exact HI.
Qed.

Lemma f_loop_wf ls : forall n k L s, wf_from k ls = true -> couts n ls L -> Inv s k ->
  exists s', f_lines_loop s L = Ok s' /\ Inv s' K0 /\ obs s' = obs s ++ sfile k n ls /\
    filter fdir (fl_out s') = filter fdir (fl_out s) ++ map fll_of_cll (filter cdir L) /\
    (forall x, In x (fl_out s') -> fdir x = false -> In x (fl_out s) \/ f_cat x = SRC).
Proof.
  induction ls as [|[cs nl] r IH]; intros n k L s HW HC HI.
  - cbn [couts] in HC. subst L. cbn [wf_from] in HW. destruct k; try discriminate.
    exists s. split; [reflexivity|]. split; [exact HI|]. split; [rewrite app_nil_r; reflexivity|].
    split; [cbn; rewrite app_nil_r; reflexivity|]. intros x Hx _. left. exact Hx.
  - cbn [wf_from] in HW. apply andb_true_iff in HW. destruct HW as [HW W3].
    apply andb_true_iff in HW. destruct HW as [W1 W2].
    cbn [couts] in HC. destruct HC as [l [L' [EL [C1 C2]]]]. subst L.
    destruct (f_step_wf n cs k s l W1 W2 C1 HI) as [s1 [E1 [I1 [O1 [D1 N1]]]]].
    destruct (IH (S n) _ L' s1 W3 C2 I1) as [s2 [E2 [I2 [O2 [D2 N2]]]]].
    exists s2. rewrite f_loop_app, E1. split; [exact E2|]. split; [exact I2|]. split; [|split].
    + rewrite O2, O1, <- app_assoc. cbn [sfile]. destruct (classify (sline k cs)); reflexivity.
    + rewrite D2, D1, filter_app, map_app, app_assoc. reflexivity.
    + intros x Hx Hd. destruct (N2 x Hx Hd) as [H|H]; [|right; exact H]. exact (N1 x H Hd).
Qed.

Lemma inv_init : Inv {| fl_stk := [FTop]; fl_vc := []; fl_cur := osl0; fl_lines := []; fl_out := [] |} K0.
Proof.
  constructor; cbn; try reflexivity.
  - exact osl0_ok.
  - discriminate.
  - intros N; exfalso; apply N; reflexivity.
  - intros _. split; reflexivity.
Qed.

(* fortran_file_source on a well-formed text *)
Lemma f_source_wf ls : wf ls = true ->
  exists L F, c_source true ls = Ok L /\ f_source ls = Ok F /\
    tag_flls F = S_lines ls /\
    filter fdir F = map fll_of_cll (filter cdir L) /\
    (forall x, In x F -> fdir x = false -> f_cat x = SRC).
Proof.
  intros HW. destruct (c_source_wf ls HW) as [L [E1 E2]].
  destruct (f_loop_wf ls 1 K0 L _ HW E2 inv_init) as [s' [E3 [I [O [D N]]]]].
  destruct I as [I1 I2 I3 I4 I5]. destruct (I5 eq_refl) as [C0 L0].
  exists L, (fl_out s'). split; [exact E1|]. unfold f_source. rewrite E1, E3, I1. cbn [is_ftop stack_of].
  rewrite C0, L0. cbn [fflush category osl0 parts].
  split; [reflexivity|]. split; [|split].
  - unfold obs in O. rewrite L0 in O. cbn in O. rewrite app_nil_r in O. exact O.
  - exact D.
  - intros x Hx Hd. destruct (N x Hx Hd) as [[]|H]. exact H.
Qed.

(* ---------- FileParser's grouping keeps the tagged lines ---------- *)
Lemma tagged_app a b : tagged (a ++ b) = tagged a ++ tagged b.
Proof. unfold tagged. apply flat_map_app. Qed.

Lemma group_tagged L : forall code,
  tagged (group_nodes code L) = (match code with Some l => plain l | None => [] end) ++ tag_flls L.
Proof.
  induction L as [|x L IH]; intros code; cbn [group_nodes].
  - destruct code; cbn; rewrite ?app_nil_r; reflexivity.
  - unfold tag_flls. cbn [flat_map]. fold (tag_flls L). unfold fdir at 1. destruct (f_cat x) eqn:C.
    + rewrite IH. destruct code; cbn [cat_eqb]; [unfold plain; rewrite map_app, <- app_assoc|]; reflexivity.
    + rewrite IH. destruct code; cbn [cat_eqb]; [unfold plain; rewrite map_app, <- app_assoc|]; reflexivity.
    + rewrite tagged_app. cbn [cat_eqb]. change (tagged ((true, f_lines x) :: group_nodes None L))
        with (map (fun n => (n, true)) (f_lines x) ++ tagged (group_nodes None L)).
      rewrite IH. destruct code; cbn; rewrite ?app_nil_r, <- ?app_assoc; reflexivity.
Qed.

Theorem classification ls : wf ls = true ->
  exists nodes, parse_fortran ls = Ok nodes /\ tagged nodes = S_lines ls.
Proof.
  intros HW. destruct (f_source_wf ls HW) as [L [F [E1 [E2 [E3 _]]]]].
  exists (group_nodes None F). unfold parse_fortran. rewrite E2. split; [reflexivity|].
  rewrite group_tagged. exact E3.
Qed.

Theorem directives_pass_through ls : wf ls = true ->
  exists L F, c_source true ls = Ok L /\ f_source ls = Ok F /\
    filter fdir F = map fll_of_cll (filter cdir L) /\
    (forall x, In x F -> fdir x = false -> f_cat x = SRC).
Proof.
  intros HW. destruct (f_source_wf ls HW) as [L [F [E1 [E2 [_ [E4 E5]]]]]].
  exists L, F. repeat split; assumption.
Qed.
