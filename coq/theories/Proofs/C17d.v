(* C17 — part d: whole files.  c_file_source and fortran_file_source on a
   well-formed text against the reference scanner, then FileParser's grouping.
   A directive may run over several physical lines (backslash-newline, block
   comment): the C pass then holds its counted lines back ([pend]) until the
   directive ends, while the scanner reports them line by line. *)
From Coq Require Import NArith Bool Ascii String List.
From CBI Require Import Lib.Res Model.C17 Spec.C17 Proofs.C17a Proofs.C17b Proofs.C17c.
Import ListNotations.

(* ---------- category of joined buffers ---------- *)
Definition catl (l : list ascii) : cat :=
  match l with
  | [] => BLANK
  | [x] => if is_sp x then BLANK else if is_hash x then CPPDIR else SRC
  | x :: y :: _ => if (is_sp x && is_hash y) || is_hash x then CPPDIR else SRC
  end.
Lemma category_catl b : category b = catl (parts b). Proof. reflexivity. Qed.

Definition osl_ok (b : osl) : Prop := parts b = [] -> trailing b = false.

Lemma join_parts a b : exists d, parts (join a b) = parts a ++ d /\
  (d = parts b \/ (exists t, parts b = " "%char :: t /\ d = t /\ trailing a = true)).
Proof.
  unfold join. destruct (parts b) as [|x r] eqn:E.
  - exists []. rewrite app_nil_r. split; [reflexivity|left; reflexivity].
  - cbn [parts]. destruct (is_sp x && trailing a) eqn:C.
    + apply andb_true_iff in C. destruct C as [C1 C2]. exists r. split; [reflexivity|right].
      exists r. unfold is_sp in C1. apply Ascii.eqb_eq in C1. subst x. split; [reflexivity|split; [reflexivity|exact C2]].
    + exists (x :: r). split; [reflexivity|left; reflexivity].
Qed.

Lemma join_ok a b : osl_ok a -> osl_ok (join a b).
Proof.
  intros Ha. unfold osl_ok, join. destruct (parts b) as [|x r] eqn:E; [exact Ha|].
  cbn [parts trailing]. intros H. apply app_eq_nil in H. destruct H as [H1 H2].
  rewrite (Ha H1), andb_false_r in H2. discriminate.
Qed.

Lemma catl_keep pa d : catl pa <> BLANK -> catl (pa ++ d) <> BLANK.
Proof.
  destruct pa as [|x [|y r]]; cbn [app].
  - intros H; exfalso; apply H; reflexivity.
  - destruct d as [|z d']; [exact (fun H => H)|]. intros _. cbn [catl].
    destruct ((is_sp x && is_hash z) || is_hash x); discriminate.
  - intros _. cbn [catl]. destruct ((is_sp x && is_hash y) || is_hash x); discriminate.
Qed.

Lemma join_cat_keep a b : category a <> BLANK -> category (join a b) <> BLANK.
Proof.
  rewrite !category_catl. destruct (join_parts a b) as [d [E _]]. rewrite E. apply catl_keep.
Qed.

Lemma catl_two x d : d <> [] -> catl (x :: d) <> BLANK.
Proof. destruct d as [|y d']; [intros H; exfalso; apply H; reflexivity|]. intros _. cbn [catl]. destruct ((is_sp x && is_hash y) || is_hash x); discriminate. Qed.

Lemma sp_eq : is_sp " "%char = true. Proof. reflexivity. Qed.

Lemma join_cat_new a b : osl_ok a -> category b <> BLANK -> category (join a b) <> BLANK.
Proof.
  intros Ha. rewrite !category_catl. destruct (join_parts a b) as [d [E D]]. rewrite E.
  destruct (parts a) as [|x [|y r]] eqn:PA.
  - cbn [app]. destruct D as [D|[t [D1 [D2 D3]]]]; [subst d; exact (fun H => H)|].
    rewrite (Ha PA) in D3. discriminate.
  - cbn [app]. intros HB. apply catl_two. destruct D as [D|[t [D1 [D2 D3]]]].
    + subst d. intros N. rewrite N in HB. apply HB. reflexivity.
    + subst d. intros N. rewrite D1, N in HB. apply HB. reflexivity.
  - intros _. cbn [app catl]. destruct ((is_sp x && is_hash y) || is_hash x); discriminate.
Qed.

Lemma join_cat_nodir a b : osl_ok a -> category a <> CPPDIR -> category b <> CPPDIR -> category (join a b) <> CPPDIR.
Proof.
  intros Ha. rewrite !category_catl. destruct (join_parts a b) as [d [E D]]. rewrite E.
  destruct (parts a) as [|x [|y r]] eqn:PA.
  - cbn [app]. destruct D as [D|[t [D1 [D2 D3]]]]; [subst d; exact (fun _ H => H)|].
    rewrite (Ha PA) in D3. discriminate.
  - cbn [app]. intros HA HB. destruct d as [|z d'].
    + exact HA.
    + cbn [catl] in *. destruct (is_hash x) eqn:HX.
      { exfalso. apply HA. destruct (is_sp x) eqn:SX; [rewrite (sp_not_hash x SX) in HX; discriminate|reflexivity]. }
      rewrite orb_false_r. destruct (is_sp x && is_hash z) eqn:C; [|discriminate].
      apply andb_true_iff in C. destruct C as [C1 C2]. exfalso. apply HB.
      destruct D as [D|[t [D1 [D2 D3]]]].
      * rewrite <- D. cbn [catl]. destruct d' as [|w d''].
        -- destruct (is_sp z) eqn:SZ; [rewrite (sp_not_hash z SZ) in C2; discriminate|rewrite C2; reflexivity].
        -- rewrite C2, orb_true_r. reflexivity.
      * rewrite D1, <- D2. cbn [catl]. rewrite C2. reflexivity.
  - intros HA _. cbn [app catl] in *. exact HA.
Qed.

Lemma join_cat_dir a b : category a = CPPDIR -> category (join a b) = CPPDIR.
Proof.
  rewrite !category_catl. destruct (join_parts a b) as [d [E _]]. rewrite E.
  destruct (parts a) as [|x [|y r]]; cbn [app catl].
  - discriminate.
  - destruct (is_sp x); [discriminate|]. destruct (is_hash x) eqn:HX; [|discriminate]. intros _.
    destruct d as [|z d']; cbn [catl]; rewrite ?HX, ?orb_true_r; [destruct (is_sp x); reflexivity|reflexivity].
  - exact (fun H => H).
Qed.

(* ---------- one physical line in directive mode ---------- *)
Definition is_ld (c : lctx) : bool := match c with LD _ _ => true | _ => false end.
Definition fk (c : lctx) : sctx := match c with LF k | LD k _ => k end.
Definition is_dirbody (cs : list ascii) : bool := match fnb cs with Some kh => is_hashk kh | None => false end.
Definition dirmode (c : lctx) (cs : list ascii) : bool := is_ld c || is_dirbody (fst (split_cont cs)).

Definition cstate_of (c : lctx) (cur : osl) (lines : list nat) (out : list cll) : cloop :=
  match c with
  | LF _ => clean out
  | LD _ d => {| cl_stk := dstack d; cl_cur := cur; cl_lines := lines; cl_out := out |}
  end.
Definition cinv (c : lctx) (cur : osl) (lines : list nat) : Prop :=
  match c with
  | LF _ => lines = []
  | LD _ d => category cur = CPPDIR /\ d_esc d = false
  end.

Definition is_dircls (x : lclass) : bool := match x with Directive => true | _ => false end.

Lemma is_blank_acat b : is_blank b = cat_eqb (a_cat (babs b)) BLANK.
Proof. apply is_blank_abs. Qed.
Lemma isH_cat b : isH (babs b) = true -> category b = CPPDIR.
Proof. rewrite babs_cat. destruct (babs b); cbn; congruence. Qed.

Lemma c_line_dirmode fl n c cur lines out cs nl :
  dirmode c cs = true -> cinv c cur lines ->
  cguards (start_state c) (fst (split_cont cs)) = true -> lguard (lline c cs) nl = true ->
  let r := lline c cs in
  let lines' := if is_dircls (classify r) then lines ++ [n] else lines in
  match snext r with
  | LD k' d' => exists cur', c_line fl n (cstate_of c cur lines out) (cs, nl) =
        Ok {| cl_stk := dstack d'; cl_cur := cur'; cl_lines := lines'; cl_out := out |} /\
        category cur' = CPPDIR /\ d_esc d' = false /\ k' = fk c
  | LF k' => exists txt, c_line fl n (cstate_of c cur lines out) (cs, nl) =
        Ok (clean (out ++ [{| c_lines := lines'; c_cat := CPPDIR; c_text := txt |}])) /\ k' = fk c
  end.
Proof.
  intros HD HI HG HL. unfold lline in *. cbv zeta.
  set (body := fst (split_cont cs)) in *. set (cont := snd (split_cont cs)) in *.
  rewrite c_line_unfold. fold body. fold cont. cbv zeta.
  (* 1. the characters *)
  assert (P : exists d1 m1 b1, sfold0 (start_state c) body = (SDir (fk c) d1, m1) /\
            cprocess fl (cl_stk (cstate_of c cur lines out), osl0) body = Ok (dstack d1, b1) /\
            mbd d1 m1 (babs b1) = true /\ (is_ld c = false -> isH (babs b1) = true)).
  { destruct c as [k|k d]; cbn [start_state cstate_of clean cl_stk fk is_ld cinv] in *.
    - unfold dirmode in HD. cbn [is_ld orb] in HD. fold body in HD. unfold is_dirbody in HD.
      destruct (fnb body) as [kh|] eqn:F; [|discriminate].
      assert (kh = kHash) by (destruct kh; try discriminate; reflexivity). subst kh.
      destruct (cproc_dir fl body osl0 k eq_refl F HG) as [d1 [m1 [b1 [A [B [C D]]]]]].
      exists d1, m1, b1. repeat split; auto.
    - pose proof (proj2 HI) as HE.
      assert (M0 : mbd d mU (babs osl0) = true) by (cbn; rewrite HE; reflexivity).
      destruct (cproc_in_dir fl body d osl0 mU k M0 HG) as [d1 [m1 [b1 [A [B [C _]]]]]].
      exists d1, m1, b1. repeat split; auto. discriminate. }
  destruct P as [d1 [m1 [b1 [P1 [P2 [P3 P4]]]]]].
  change (sfold0 (start_state c) body) with (sfold (start_state c) body) in *.
  rewrite P1 in *. rewrite P2. cbn [fst snd] in HL |- *.
  unfold lguard in HL. cbn [fst snd] in HL. apply andb_true_iff in HL. destruct HL as [HE HC].
  (* facts shared by all cases *)
  set (cur0 := cl_cur (cstate_of c cur lines out)).
  set (lines0 := cl_lines (cstate_of c cur lines out)).
  assert (L0 : lines0 = lines) by (destruct c; cbn in *; [symmetry; exact HI|reflexivity]).
  assert (O0 : cl_out (cstate_of c cur lines out) = out) by (destruct c; reflexivity).
  assert (JC : forall b, (is_ld c = false -> isH (babs b) = true) -> category (join cur0 b) = CPPDIR).
  { intros b Hb. destruct c as [k|k d]; cbn in *.
    - rewrite join0_cat. apply isH_cat. apply Hb. reflexivity.
    - apply join_cat_dir. exact (proj1 HI). }
  unfold snext, classify. cbn [fst snd].
  destruct cont eqn:CT.
  - (* spliced onto the next line *)
    apply andb_true_iff in HC. destruct HC as [HN HC]. rewrite HN. cbn [negb andb].
    assert (ND : d1 <> DSl) by (intros ->; discriminate).
    destruct (dend_sim d1 m1 (babs b1) true (fk c) P3 HE (fun _ => ND)) as [E1 E2]. cbv zeta in E1, E2.
    cbn [negb andb] in E1. rewrite orb_false_r in E1. rewrite is_blank_acat, E1, orb_false_r.
    exists (join cur0 b1). rewrite O0. fold lines0. rewrite L0.
    split; [destruct (is_mM m1); reflexivity|]. split; [apply JC; intros Hc; apply E2; apply P4; exact Hc|].
    split; [destruct d1; try reflexivity; discriminate|reflexivity].
  - (* a real line end *)
    cbn [negb andb].
    destruct (d_open d1) eqn:DO.
    + (* inside a block comment: the logical line goes on *)
      assert (ST : exists b2, (if negb (top_is_block (dstack d1)) then cnewline (dstack d1, b1) else Ok (dstack d1, b1))
                              = Ok (dstack DBlk, b2) /\ b2 = b1).
      { destruct d1; try discriminate; eexists; split; reflexivity. }
      destruct ST as [b2 [ST1 ST2]]. rewrite ST1. subst b2. cbn [top_is_block dstack negb].
      destruct (dend_sim d1 m1 (babs b1) false (fk c) P3 HE (fun H => False_ind _ (diff_false_true H))) as [E1 E2].
      cbv zeta in E1, E2.
      assert (AN : a_newline d1 (babs b1) = babs b1) by (destruct d1; try discriminate; reflexivity).
      rewrite AN in E1, E2. rewrite is_blank_acat, E1.
      assert (NS : match d1 with DSl => true | _ => false end = false) by (destruct d1; try discriminate; reflexivity).
      rewrite NS, andb_false_r, !orb_false_r.
      assert (SN : match d1 with DBlk | DBlkSt => LD (fk c) DBlk | _ => LF (fk c) end = LD (fk c) DBlk)
        by (destruct d1; try discriminate; reflexivity).
      rewrite SN.
      exists (join cur0 b1). rewrite O0. fold lines0. rewrite L0.
      split; [destruct (is_mM m1); reflexivity|]. split; [apply JC; intros Hc; apply E2; apply P4; exact Hc|].
      split; reflexivity.
    + (* the directive ends here *)
      assert (NE : d_esc d1 = false) by (destruct d1, m1; try reflexivity; discriminate).
      destruct (dir_newline d1 b1 DO NE) as [T1 [b2 [T2 T3]]]. rewrite T1. cbn [negb]. rewrite T2.
      cbn [top_is_block negb].
      destruct (dend_sim d1 m1 (babs b1) false (fk c) P3 HE (fun H => False_ind _ (diff_false_true H))) as [E1 E2].
      cbv zeta in E1, E2. rewrite <- T3 in E1, E2. cbn [negb andb] in E1.
      unfold cflush. rewrite (JC b2) by (intros Hc; apply E2; apply P4; exact Hc).
      rewrite is_blank_acat, E1, O0. fold lines0. rewrite L0.
      assert (SN : match d1 with DBlk | DBlkSt => LD (fk c) DBlk | _ => LF (fk c) end = LF (fk c))
        by (destruct d1; try discriminate; reflexivity).
      rewrite SN. eexists. split; [|reflexivity].
      destruct (is_mM m1 || match d1 with DSl => true | _ => false end); reflexivity.
Qed.

(* ---------- c_file_source on a well-formed text ---------- *)
(* what the lines from here on make c_file_source yield; [pend] = counted lines
   of the directive that is still open *)
Fixpoint couts (c : lctx) (pend : list nat) (n : nat) (ls : list pline) (L : list cll) : Prop :=
  match ls with
  | [] => L = []
  | (cs, _) :: r =>
      let rr := lline c cs in
      if dirmode c cs then
        let pend' := if is_dircls (classify rr) then pend ++ [n] else pend in
        match snext rr with
        | LD _ _ => couts (snext rr) pend' (S n) r L
        | LF _ => exists txt L', L = {| c_lines := pend'; c_cat := CPPDIR; c_text := txt |} :: L' /\
                                 couts (snext rr) [] (S n) r L'
        end
      else exists l L', L = l ++ L' /\ cout_ok n cs l /\ couts (snext rr) [] (S n) r L'
  end.

Lemma dirmode_false_plain c cs : dirmode c cs = false -> cguards (start_state c) (fst (split_cont cs)) = true ->
  lguard (lline c cs) true = true \/ lguard (lline c cs) false = true ->
  exists k, c = LF k /\ nobs cs = true /\ fnb cs <> Some kHash /\ lline c cs = (sfold (SBol k, mU) cs, false) /\
            is_sdir (fst (sfold (SBol k, mU) cs)) = false.
Proof.
  intros HD HG HL. unfold dirmode in HD. apply orb_false_iff in HD. destruct HD as [D1 D2].
  destruct c as [k|k d]; [|discriminate]. exists k. split; [reflexivity|].
  cbn [start_state] in HG. unfold lline in *. cbn [start_state] in *.
  set (body := fst (split_cont cs)) in *.
  pose proof (sline_fnb k body) as HS. unfold is_dirbody in D2.
  assert (ND : is_sdir (fst (sfold (SBol k, mU) body)) = false).
  { destruct (fnb body) as [kh|]; [rewrite D2 in HS; exact HS|rewrite HS; reflexivity]. }
  assert (NC : snd (split_cont cs) = false).
  { destruct (snd (split_cont cs)) eqn:CT; [|reflexivity]. exfalso.
    change (sfold0 (SBol k, mU) body) with (sfold (SBol k, mU) body) in HL.
    destruct (sfold (SBol k, mU) body) as [q m]. cbn [fst] in ND.
    destruct HL as [HL|HL]; unfold lguard in HL; cbn [fst snd] in HL; apply andb_true_iff in HL; destruct HL as [_ HL];
      try (apply andb_true_iff in HL; destruct HL as [_ HL]); destruct q; try discriminate. }
  assert (EB : body = cs).
  { unfold body, split_cont in *. destruct (split_last cs) as [[i z]|]; [|reflexivity].
    destruct (is_bs z); [discriminate|reflexivity]. }
  rewrite EB in *. pose proof (cguards_nobs cs _ HG ND) as HN.
  split; [exact HN|]. split; [|split].
  - intros F. rewrite F in D2. discriminate.
  - rewrite NC. reflexivity.
  - exact ND.
Qed.

Lemma snext_plain q m : is_sdir q = false -> snext ((q, m), false) = LF (seol q).
Proof. destruct q; try discriminate; reflexivity. Qed.

Lemma c_loop_wf ls : forall n c cur lines out, wf_from c ls = true -> cinv c cur lines ->
  exists L, c_lines_loop true n (cstate_of c cur lines out) ls = Ok (clean (out ++ L)) /\ couts c lines n ls L.
Proof.
  induction ls as [|[cs nl] r IH]; intros n c cur lines out HW HI.
  - cbn [wf_from] in HW. destruct c as [[]|]; try discriminate.
    exists []. rewrite app_nil_r. split; reflexivity.
  - cbn [wf_from] in HW. apply andb_true_iff in HW. destruct HW as [HW W3].
    apply andb_true_iff in HW. destruct HW as [W1 W2].
    cbn [c_lines_loop couts]. destruct (dirmode c cs) eqn:DM.
    + pose proof (c_line_dirmode true n c cur lines out cs nl DM HI W1 W2) as HC. cbv zeta in HC.
      destruct (snext (lline c cs)) as [k'|k' d'] eqn:SN.
      * destruct HC as [txt [E1 E2]]. rewrite E1.
        destruct (IH (S n) (LF k') osl0 [] (out ++ [{| c_lines := if is_dircls (classify (lline c cs)) then lines ++ [n] else lines;
                                                      c_cat := CPPDIR; c_text := txt |}]) W3 eq_refl) as [L' [E3 E4]].
        cbn [cstate_of] in E3. rewrite E3, <- app_assoc. eexists. split; [reflexivity|].
        cbn [app]. exists txt, L'. split; [reflexivity|exact E4].
      * destruct HC as [cur' [E1 [E2 [E3 E4]]]]. rewrite E1.
        destruct (IH (S n) (LD k' d') cur' (if is_dircls (classify (lline c cs)) then lines ++ [n] else lines) out W3 (conj E2 E3))
          as [L' [E5 E6]].
        cbn [cstate_of] in E5. rewrite E5. exists L'. split; [reflexivity|exact E6].
    + assert (HL' : lguard (lline c cs) true = true \/ lguard (lline c cs) false = true)
        by (destruct nl; [left|right]; exact W2).
      destruct (dirmode_false_plain c cs DM W1 HL') as [k [EC [HN [HF [HLL ND]]]]]. subst c.
      cbn [cstate_of]. destruct (c_line_plain n out cs nl HN HF) as [l [E1 E2]]. rewrite E1.
      assert (SN : snext (lline (LF k) cs) = LF (seol (fst (sfold (SBol k, mU) cs)))).
      { rewrite HLL. destruct (sfold (SBol k, mU) cs) as [q m]. apply snext_plain. exact ND. }
      rewrite SN in W3 |- *.
      destruct (IH (S n) (LF (seol (fst (sfold (SBol k, mU) cs)))) osl0 [] (out ++ l) W3 eq_refl) as [L' [E3 E4]].
      cbn [cstate_of] in E3. rewrite E3, <- app_assoc.
      exists (l ++ L'). split; [reflexivity|]. exists l, L'. repeat split; assumption.
Qed.

Lemma c_source_wf ls : wf ls = true -> exists L, c_source true ls = Ok L /\ couts (LF K0) [] 1 ls L.
Proof.
  intros HW. destruct (c_loop_wf ls 1 (LF K0) osl0 [] [] HW eq_refl) as [L [E1 E2]].
  exists L. unfold c_source. change {| cl_stk := [CTop]; cl_cur := osl0; cl_lines := []; cl_out := [] |} with (clean []).
  cbn [cstate_of] in E1. rewrite E1. cbn. split; [reflexivity|exact E2].
Qed.

(* ---------- what the parser sees ---------- *)
Definition fdir (l : fll) : bool := cat_eqb (f_cat l) CPPDIR.
Definition cdir (l : cll) : bool := cat_eqb (c_cat l) CPPDIR.
Definition tag_flls (L : list fll) : list (nat * bool) :=
  flat_map (fun l => map (fun n => (n, fdir l)) (f_lines l)) L.
Definition plain (l : list nat) : list (nat * bool) := map (fun n => (n, false)) l.
Definition tagged (ns : list node) : list (nat * bool) :=
  flat_map (fun nd => map (fun n => (n, fst nd)) (snd nd)) ns.

Lemma tag_flls_app a b : tag_flls (a ++ b) = tag_flls a ++ tag_flls b.
Proof. unfold tag_flls. apply flat_map_app. Qed.

Lemma tag_fflush cur lines out : category cur <> CPPDIR -> (lines <> [] -> category cur <> BLANK) ->
  tag_flls (fflush cur lines out) = tag_flls out ++ plain lines /\
  filter fdir (fflush cur lines out) = filter fdir out.
Proof.
  intros H1 H2. unfold fflush. destruct (category cur) eqn:C.
  - destruct lines as [|x l]; [cbn; rewrite app_nil_r; split; reflexivity|].
    exfalso. apply H2; [discriminate|reflexivity].
  - rewrite tag_flls_app, filter_app. cbn. rewrite !app_nil_r. split; reflexivity.
  - exfalso. apply H1. reflexivity.
Qed.

(* ---------- fortran_file_source against the scanner ---------- *)
Record Inv (s : floop) (k : sctx) : Prop := {
  inv_stk : fl_stk s = stack_of k;
  inv_ok : osl_ok (fl_cur s);
  inv_nodir : category (fl_cur s) <> CPPDIR;
  inv_pend : fl_lines s <> [] -> category (fl_cur s) <> BLANK;
  inv_k0 : k = K0 -> fl_cur s = osl0 /\ fl_lines s = []
}.

Definition obs (s : floop) : list (nat * bool) := tag_flls (fl_out s) ++ plain (fl_lines s).

Lemma osl0_ok : osl_ok osl0. Proof. intros _. reflexivity. Qed.

Lemma top_cfs_stack k : top_is_cfs (stack_of k) = match k with K0 => false | _ => true end.
Proof. destruct k; reflexivity. Qed.

Lemma f_loop_app a : forall s b, f_lines_loop s (a ++ b) =
  match f_lines_loop s a with Ok s' => f_lines_loop s' b | Err e => Err e end.
Proof.
  induction a as [|x a IH]; intros s b; [reflexivity|].
  cbn [app f_lines_loop]. destruct (f_line s x); [apply IH|reflexivity].
Qed.

Definition dtag (l : list nat) : list (nat * bool) := map (fun n => (n, true)) l.

(* a line of Fortran text *)
Lemma f_step_plain n cs k s l : cguards (SBol k, mU) cs = true -> eguard (sfold (SBol k, mU) cs) = true ->
  is_sdir (fst (sfold (SBol k, mU) cs)) = false ->
  cout_ok n cs l -> Inv s k ->
  exists s', f_lines_loop s l = Ok s' /\ Inv s' (seol (fst (sfold (SBol k, mU) cs))) /\
    obs s' = obs s ++ (match classify (sfold (SBol k, mU) cs, false) with NotCounted => [] | Code => [(n, false)] | Directive => [(n, true)] end) /\
    filter fdir (fl_out s') = filter fdir (fl_out s) ++ map fll_of_cll (filter cdir l) /\
    (forall x, In x (fl_out s') -> fdir x = false -> In x (fl_out s) \/ f_cat x = SRC).
Proof.
  intros HG HE HD HC [I1 I2 I3 I4 I5]. unfold cout_ok in HC. pose proof (sline_fnb k cs) as HS.
  destruct (fnb cs) as [kh|] eqn:F.
  - (* source line *)
    subst l. cbn [f_lines_loop f_line c_cat c_text c_lines].
    assert (TG : tguards (SBol k, mU) (collapse false cs) = true).
    { apply tguards_collapse; [discriminate|]. apply tguards_of_cguards; assumption. }
    assert (SF : sfold (SBol k, mU) (collapse false cs) = sfold (SBol k, mU) cs) by (apply sfold_collapse; discriminate).
    pose proof (line_sim k (fl_vc s) (collapse false cs) TG) as LS. rewrite SF in LS. specialize (LS HE).
    rewrite I1. cbv zeta in LS. destruct LS as [L1 [L2 [L3 L4]]].
    set (s1 := fprocess {| fstk := stack_of k; fbuf := osl0; fvc := fl_vc s; flm := LNorm |} (collapse false cs)) in *.
    rewrite L2, L1, top_cfs_stack.
    destruct (sfold (SBol k, mU) cs) as [q m] eqn:ES. cbn [fst snd] in *.
    assert (CL : classify ((q, m) : sst, false) = if is_mM m then Code else NotCounted).
    { destruct q; try discriminate; destruct m; reflexivity. }
    rewrite CL.
    assert (ND : category (fbuf s1) <> CPPDIR) by (intros N; rewrite N in L4; discriminate).
    assert (NJ : category (join (fl_cur s) (fbuf s1)) <> CPPDIR) by (apply join_cat_nodir; assumption).
    assert (NP : (if is_blank (fbuf s1) then fl_lines s else fl_lines s ++ [n]) <> [] ->
                 category (join (fl_cur s) (fbuf s1)) <> BLANK).
    { destruct (is_blank (fbuf s1)) eqn:BL.
      - intros N. apply join_cat_keep. apply I4. exact N.
      - intros _. apply join_cat_new; [exact I2|]. intros N. rewrite is_blank_cat, N in BL. discriminate. }
    assert (OB : plain (if is_blank (fbuf s1) then fl_lines s else fl_lines s ++ [n]) =
                 plain (fl_lines s) ++ (if is_mM m then [(n, false)] else [])).
    { rewrite L3. destruct (is_mM m); cbn [negb]; [unfold plain; rewrite map_app; reflexivity|rewrite app_nil_r; reflexivity]. }
    destruct (seol q) eqn:SE.
    + (* statement ends here *)
      eexists. split; [reflexivity|].
      destruct (tag_fflush _ _ (fl_out s) NJ NP) as [T1 T2].
      split; [|split; [|split]].
      * constructor; cbn [fl_stk fl_cur fl_lines]; try reflexivity.
        -- exact osl0_ok.
        -- discriminate.
        -- intros N; exfalso; apply N; reflexivity.
        -- intros _. split; reflexivity.
      * unfold obs. cbn [fl_out fl_lines]. rewrite T1, OB, app_nil_r, app_assoc.
        destruct (is_mM m); reflexivity.
      * cbn [fl_out]. rewrite T2. cbn. rewrite app_nil_r. reflexivity.
      * cbn [fl_out]. intros x HI HDx. unfold fflush in HI.
        destruct (category (join (fl_cur s) (fbuf s1))) eqn:C; [left; exact HI| |exfalso; apply NJ; reflexivity].
        apply in_app_or in HI. destruct HI as [HI|[HI|[]]]; [left; exact HI|]. right. subst x. reflexivity.
    + eexists. split; [reflexivity|]. split; [|split; [|split]].
      * constructor; cbn [fl_stk fl_cur fl_lines]; try reflexivity; try assumption.
        -- apply join_ok; exact I2.
        -- discriminate.
      * unfold obs. cbn [fl_out fl_lines]. rewrite OB, app_assoc. destruct (is_mM m); reflexivity.
      * cbn [fl_out]. cbn. rewrite app_nil_r. reflexivity.
      * cbn [fl_out]. intros x HI _. left. exact HI.
    + eexists. split; [reflexivity|]. split; [|split; [|split]].
      * constructor; cbn [fl_stk fl_cur fl_lines]; try reflexivity; try assumption.
        -- apply join_ok; exact I2.
        -- discriminate.
      * unfold obs. cbn [fl_out fl_lines]. rewrite OB, app_assoc. destruct (is_mM m); reflexivity.
      * cbn [fl_out]. cbn. rewrite app_nil_r. reflexivity.
      * cbn [fl_out]. intros x HI _. left. exact HI.
    + eexists. split; [reflexivity|]. split; [|split; [|split]].
      * constructor; cbn [fl_stk fl_cur fl_lines]; try reflexivity; try assumption.
        -- apply join_ok; exact I2.
        -- discriminate.
      * unfold obs. cbn [fl_out fl_lines]. rewrite OB, app_assoc. destruct (is_mM m); reflexivity.
      * cbn [fl_out]. cbn. rewrite app_nil_r. reflexivity.
      * cbn [fl_out]. intros x HI _. left. exact HI.
  - (* blank line *)
    subst l. rewrite HS. cbn [fst seol classify f_lines_loop].
    exists s. split; [reflexivity|]. split; [constructor; assumption|].
    split; [rewrite app_nil_r; reflexivity|]. split; [cbn; rewrite app_nil_r; reflexivity|].
    intros x HI _. left. exact HI.
Qed.

(* a complete directive *)
Lemma f_step_dir k s pend txt : Inv s k ->
  let cl := {| c_lines := pend; c_cat := CPPDIR; c_text := txt |} in
  exists s', f_lines_loop s [cl] = Ok s' /\ Inv s' k /\ obs s' = obs s ++ dtag pend /\
    filter fdir (fl_out s') = filter fdir (fl_out s) ++ [fll_of_cll cl] /\
    (forall x, In x (fl_out s') -> fdir x = false -> In x (fl_out s) \/ f_cat x = SRC).
Proof.
  intros [I1 I2 I3 I4 I5] cl. cbn [f_lines_loop f_line c_cat cl].
  eexists. split; [reflexivity|].
  destruct (tag_fflush (fl_cur s) (fl_lines s) (fl_out s) I3 I4) as [T1 T2].
  split; [|split; [|split]].
  - constructor; cbn [fl_stk fl_cur fl_lines]; try assumption.
    + exact osl0_ok.
    + discriminate.
    + intros N; exfalso; apply N; reflexivity.
    + intros _. split; reflexivity.
  - unfold obs. cbn [fl_out fl_lines c_lines]. rewrite tag_flls_app, T1. unfold tag_flls, dtag. cbn. rewrite !app_nil_r. reflexivity.
  - cbn [fl_out]. rewrite filter_app, T2. reflexivity.
  - cbn [fl_out]. intros x HI HD. apply in_app_or in HI. destruct HI as [HI|[HI|[]]].
    + unfold fflush in HI. destruct (category (fl_cur s)) eqn:C; [left; exact HI| |exfalso; apply I3; reflexivity].
      apply in_app_or in HI. destruct HI as [HI|[HI|[]]]; [left; exact HI|]. right. subst x. reflexivity.
    + subst x. discriminate.
Qed.

(* in directive mode the scanner is inside the directive, with the Fortran context untouched *)
Lemma dirmode_state c cs : dirmode c cs = true ->
  exists d1 m1, sfold0 (start_state c) (fst (split_cont cs)) = (SDir (fk c) d1, m1).
Proof.
  unfold dirmode. destruct c as [k|k d]; cbn [is_ld orb start_state fk].
  - unfold is_dirbody. intros H. pose proof (sline_fnb k (fst (split_cont cs))) as HS.
    destruct (fnb (fst (split_cont cs))) as [kh|]; [|discriminate]. rewrite H in HS. exact HS.
  - intros _. destruct (sfold_dir (fst (split_cont cs)) k d mU) as [m' E]. eexists. eexists. exact E.
Qed.

Lemma f_loop_wf ls : forall n c pend L s, wf_from c ls = true -> couts c pend n ls L -> Inv s (fk c) ->
  (is_ld c = false -> pend = []) ->
  exists s', f_lines_loop s L = Ok s' /\ Inv s' K0 /\ obs s' = obs s ++ dtag pend ++ sfile c n ls /\
    filter fdir (fl_out s') = filter fdir (fl_out s) ++ map fll_of_cll (filter cdir L) /\
    (forall x, In x (fl_out s') -> fdir x = false -> In x (fl_out s) \/ f_cat x = SRC).
Proof.
  induction ls as [|[cs nl] r IH]; intros n c pend L s HW HC HI HP.
  - cbn [couts] in HC. subst L. cbn [wf_from] in HW. destruct c as [[]|]; try discriminate.
    rewrite (HP eq_refl). exists s. split; [reflexivity|]. split; [exact HI|]. split; [rewrite !app_nil_r; reflexivity|].
    split; [cbn; rewrite app_nil_r; reflexivity|]. intros x Hx _. left. exact Hx.
  - cbn [wf_from] in HW. apply andb_true_iff in HW. destruct HW as [HW W3].
    apply andb_true_iff in HW. destruct HW as [W1 W2].
    cbn [couts sfile] in HC |- *. destruct (dirmode c cs) eqn:DM.
    + (* directive mode *)
      destruct (dirmode_state c cs DM) as [d1 [m1 ES]].
      assert (FK : fk (snext (lline c cs)) = fk c).
      { unfold lline, snext. cbn [fst snd]. rewrite ES. cbn [fst]. destruct (snd (split_cont cs)); [reflexivity|]. destruct d1; reflexivity. }
      assert (CL : (match classify (lline c cs) with NotCounted => sfile (snext (lline c cs)) (S n) r
                    | Code => (n, false) :: sfile (snext (lline c cs)) (S n) r
                    | Directive => (n, true) :: sfile (snext (lline c cs)) (S n) r end) =
                   (if is_dircls (classify (lline c cs)) then [(n, true)] else []) ++ sfile (snext (lline c cs)) (S n) r).
      { unfold lline, classify. cbn [fst snd]. rewrite ES.
        destruct (is_mM m1 || (negb (snd (split_cont cs)) && match d1 with DSl => true | _ => false end)); reflexivity. }
      rewrite CL.
      assert (DT : dtag (if is_dircls (classify (lline c cs)) then pend ++ [n] else pend) =
                   dtag pend ++ (if is_dircls (classify (lline c cs)) then [(n, true)] else [])).
      { destruct (is_dircls (classify (lline c cs))); [unfold dtag; rewrite map_app; reflexivity|rewrite app_nil_r; reflexivity]. }
      destruct (snext (lline c cs)) as [k'|k' d'] eqn:SN.
      * destruct HC as [txt [L' [EL C2]]]. subst L. cbn [fk] in FK. subst k'.
        destruct (f_step_dir (fk c) s (if is_dircls (classify (lline c cs)) then pend ++ [n] else pend) txt HI)
          as [s1 [E1 [I1 [O1 [D1 N1]]]]].
        destruct (IH (S n) (LF (fk c)) [] L' s1 W3 C2 I1 (fun _ => eq_refl)) as [s2 [E2 [I2 [O2 [D2 N2]]]]].
        exists s2. change (?x :: L') with ([x] ++ L'). rewrite f_loop_app, E1.
        split; [exact E2|]. split; [exact I2|]. split; [|split].
        -- rewrite O2, O1, DT. cbn [dtag map app]. rewrite <- !app_assoc. reflexivity.
        -- rewrite D2, D1. cbn [app filter cdir c_cat cat_eqb map]. rewrite <- app_assoc. reflexivity.
        -- intros x Hx Hd. destruct (N2 x Hx Hd) as [H|H]; [|right; exact H]. exact (N1 x H Hd).
      * cbn [fk] in FK. subst k'.
        destruct (IH (S n) (LD (fk c) d') _ L s W3 HC HI (fun H => False_ind _ (diff_true_false H))) as [s2 [E2 [I2 [O2 [D2 N2]]]]].
        exists s2. split; [exact E2|]. split; [exact I2|]. split; [|split; [exact D2|exact N2]].
        rewrite O2, DT, <- !app_assoc. reflexivity.
    + (* Fortran text *)
      assert (HL' : lguard (lline c cs) true = true \/ lguard (lline c cs) false = true)
        by (destruct nl; [left|right]; exact W2).
      destruct (dirmode_false_plain c cs DM W1 HL') as [k [EC [HN [HF [HLL ND]]]]]. subst c.
      rewrite (HP eq_refl). cbn [dtag map app fk] in *.
      destruct HC as [l [L' [EL [C1 C2]]]]. subst L.
      assert (SN : snext (lline (LF k) cs) = LF (seol (fst (sfold (SBol k, mU) cs)))).
      { rewrite HLL. destruct (sfold (SBol k, mU) cs) as [q m]. apply snext_plain. exact ND. }
      rewrite SN in *.
      assert (EB : fst (split_cont cs) = cs) by (rewrite (body_nobs cs HN); reflexivity).
      cbn [start_state] in W1. rewrite EB in W1.
      assert (HE : eguard (sfold (SBol k, mU) cs) = true).
      { rewrite HLL in W2. unfold lguard in W2. cbn [fst snd] in W2. rewrite andb_true_r in W2. exact W2. }
      destruct (f_step_plain n cs k s l W1 HE ND C1 HI) as [s1 [E1 [I1 [O1 [D1 N1]]]]].
      destruct (IH (S n) (LF (seol (fst (sfold (SBol k, mU) cs)))) [] L' s1 W3 C2 I1 (fun _ => eq_refl))
        as [s2 [E2 [I2 [O2 [D2 N2]]]]].
      exists s2. rewrite f_loop_app, E1. split; [exact E2|]. split; [exact I2|]. split; [|split].
      * rewrite O2, O1, <- app_assoc. cbn [dtag map app]. rewrite HLL.
        destruct (classify (sfold (SBol k, mU) cs, false)); reflexivity.
      * rewrite D2, D1, filter_app, map_app, app_assoc. reflexivity.
      * intros x Hx Hd. destruct (N2 x Hx Hd) as [H|H]; [|right; exact H]. exact (N1 x H Hd).
Qed.

Lemma inv_init : Inv {| fl_stk := [FTop]; fl_vc := []; fl_cur := osl0; fl_lines := []; fl_out := [] |} K0.
Proof.
  constructor; cbn; try reflexivity.
  - exact osl0_ok.
  - discriminate.
  - intros N; exfalso; apply N; reflexivity.
  - intros _. split; reflexivity.
Qed.

(* fortran_file_source on a well-formed text *)
Lemma f_source_wf ls : wf ls = true ->
  exists L F, c_source true ls = Ok L /\ f_source ls = Ok F /\
    tag_flls F = S_lines ls /\
    filter fdir F = map fll_of_cll (filter cdir L) /\
    (forall x, In x F -> fdir x = false -> f_cat x = SRC).
Proof.
  intros HW. destruct (c_source_wf ls HW) as [L [E1 E2]].
  destruct (f_loop_wf ls 1 (LF K0) [] L _ HW E2 inv_init (fun _ => eq_refl)) as [s' [E3 [I [O [D N]]]]].
  destruct I as [I1 I2 I3 I4 I5]. destruct (I5 eq_refl) as [C0 L0].
  exists L, (fl_out s'). split; [exact E1|]. unfold f_source. rewrite E1, E3, I1. cbn [is_ftop stack_of].
  rewrite C0, L0. cbn [fflush category osl0 parts].
  split; [reflexivity|]. split; [|split].
  - unfold obs in O. rewrite L0 in O. cbn in O. rewrite app_nil_r in O. exact O.
  - exact D.
  - intros x Hx Hd. destruct (N x Hx Hd) as [[]|H]. exact H.
Qed.

(* ---------- FileParser's grouping keeps the tagged lines ---------- *)
Lemma tagged_app a b : tagged (a ++ b) = tagged a ++ tagged b.
Proof. unfold tagged. apply flat_map_app. Qed.

Lemma group_tagged L : forall code,
  tagged (group_nodes code L) = (match code with Some l => plain l | None => [] end) ++ tag_flls L.
Proof.
  induction L as [|x L IH]; intros code; cbn [group_nodes].
  - destruct code; cbn; rewrite ?app_nil_r; reflexivity.
  - unfold tag_flls. cbn [flat_map]. fold (tag_flls L). unfold fdir at 1. destruct (f_cat x) eqn:C.
    + rewrite IH. destruct code; cbn [cat_eqb]; [unfold plain; rewrite map_app, <- app_assoc|]; reflexivity.
    + rewrite IH. destruct code; cbn [cat_eqb]; [unfold plain; rewrite map_app, <- app_assoc|]; reflexivity.
    + rewrite tagged_app. cbn [cat_eqb]. change (tagged ((true, f_lines x) :: group_nodes None L))
        with (map (fun n => (n, true)) (f_lines x) ++ tagged (group_nodes None L)).
      rewrite IH. destruct code; cbn; rewrite ?app_nil_r, <- ?app_assoc; reflexivity.
Qed.

Theorem classification ls : wf ls = true ->
  exists nodes, parse_fortran ls = Ok nodes /\ tagged nodes = S_lines ls.
Proof.
  intros HW. destruct (f_source_wf ls HW) as [L [F [E1 [E2 [E3 _]]]]].
  exists (group_nodes None F). unfold parse_fortran. rewrite E2. split; [reflexivity|].
  rewrite group_tagged. exact E3.
Qed.

Theorem directives_pass_through ls : wf ls = true ->
  exists L F, c_source true ls = Ok L /\ f_source ls = Ok F /\
    filter fdir F = map fll_of_cll (filter cdir L) /\
    (forall x, In x F -> fdir x = false -> f_cat x = SRC).
Proof.
  intros HW. destruct (f_source_wf ls HW) as [L [F [E1 [E2 [_ [E4 E5]]]]]].
  exists L, F. repeat split; assumption.
Qed.
