(* C07 proofs, part 4: the platform set of a table and the `platforms`
   argument; the definitional theorems at the level of the API. *)
From Coq Require Import ZArith QArith String Bool Lia ZifyBool Permutation List.
From CBI Require Import Lib.Data Model.C07 Spec.C07 Proofs.C07 Proofs.C07s Proofs.C07d.
Import ListNotations.
Local Open Scope Z_scope.

(* ---- extract_platforms computes the platform set ---- *)
Lemma extract_is_platform_set t : is_platform_set t (extract_platforms t).
Proof.
  unfold is_platform_set, extract_platforms. split; [apply NoDup_nodup|].
  intros p. rewrite nodup_In, in_concat. split.
  - intros [s [Hs Hp]]. apply in_map_iff in Hs. destruct Hs as [r [<- Hr]]. exists r. split; assumption.
  - intros [r [Hr Hp]]. exists (fst r). split; [apply in_map; exact Hr | exact Hp].
Qed.

Lemma platform_sets_perm t ps ps' : is_platform_set t ps -> is_platform_set t ps' -> Permutation ps ps'.
Proof.
  intros [N1 H1] [N2 H2]. apply NoDup_Permutation; [exact N1 | exact N2|].
  intros p. rewrite H1, H2. reflexivity.
Qed.

(* ---- coverage depends only on the SET of selected platforms ---- *)
Lemma mem_ext p s s' : (forall x, In x s <-> In x s') -> mem p s = mem p s'.
Proof. intros H. apply eq_true_iff_eq. rewrite !mem_in. apply H. Qed.

Lemma hits_ext_ps ps ps' s : (forall x, In x ps <-> In x ps') -> hits ps s = hits ps' s.
Proof.
  intros H. unfold hits. apply eq_true_iff_eq. rewrite !existsb_exists.
  split; intros [p [Hp Hm]]; exists p; (split; [exact Hp|]); rewrite mem_in in *; apply H; exact Hm.
Qed.

Lemma coverage_on_ext t ps ps' : (forall x, In x ps <-> In x ps') -> coverage_on t ps = coverage_on t ps'.
Proof.
  intros H. rewrite !coverage_on_alg.
  rewrite (wsum_ext (hits ps) (hits ps') t (fun s => hits_ext_ps ps ps' s H)). reflexivity.
Qed.

(* ---- the mean does not depend on the order ---- *)
Lemma mean_perm l l' : Permutation l l' -> oeq (mean l) (mean l').
Proof.
  intros P.
  assert (E : all_defined l = all_defined l' /\ (total_of l == total_of l')%Q).
  { induction P as [|a l l' P IH|a b l|l1 l2 l3 P1 IH1 P2 IH2].
    - split; reflexivity.
    - destruct IH as [E1 E2]. destruct a; cbn [all_defined total_of]; split; try assumption; try reflexivity.
      rewrite E2; reflexivity.
    - destruct a, b; cbn [all_defined total_of]; split; try reflexivity. ring.
    - destruct IH1, IH2. split; [congruence|]. etransitivity; eassumption. }
  destruct E as [E1 E2]. unfold mean. pose proof (Permutation_length P) as EL.
  destruct l as [|a l], l' as [|b l']; try discriminate EL; [exact I|].
  rewrite E1, EL. destruct (all_defined (b :: l')); cbn [oeq]; [|exact I]. rewrite E2. reflexivity.
Qed.

Lemma average_on_mean t ps : oeq (average_on t ps) (mean (map (fun p => coverage_on t [p]) ps)).
Proof.
  unfold average_on. destruct ps as [|p ps]; [exact I|].
  rewrite <- (map_length (fun p => coverage_on t [p]) (p :: ps)). apply osum_mean. discriminate.
Qed.

Lemma average_on_perm t ps ps' : Permutation ps ps' -> oeq (average_on t ps) (average_on t ps').
Proof.
  intros P. eapply oeq_trans; [apply average_on_mean|].
  eapply oeq_trans; [|apply oeq_sym, average_on_mean].
  apply mean_perm. apply Permutation_map. exact P.
Qed.

Lemma average_on_S t ps : wf t -> oeq (average_on t ps) (S_average_coverage t ps).
Proof.
  intros W. eapply oeq_trans; [apply average_on_mean|]. unfold S_average_coverage.
  apply mean_proper. apply Forall2_map_oeq. intros p. apply cov1_S; exact W.
Qed.

Lemma S_average_perm t ps ps' : Permutation ps ps' -> oeq (S_average_coverage t ps) (S_average_coverage t ps').
Proof. intros P. unfold S_average_coverage. apply mean_perm, Permutation_map, P. Qed.

(* ---- what the argument selects ---- *)
Lemma sel_all t arg : (arg = None \/ arg = Some []) -> sel_platforms t arg = extract_platforms t.
Proof. intros [->| ->]; reflexivity. Qed.

Lemma selected_cases t arg ps : selected t arg ps ->
  (sel_platforms t arg = extract_platforms t /\ is_platform_set t ps) \/ sel_platforms t arg = ps.
Proof.
  destruct arg as [[|x l]|]; cbn [selected sel_platforms]; intros H.
  - left; split; [reflexivity | exact H].
  - right; symmetry; exact H.
  - left; split; [reflexivity | exact H].
Qed.

(* ---- the four definitions, at the level of the API ---- *)
Theorem coverage_def t arg ps : wf t -> selected t arg ps -> oeq (coverage t arg) (S_coverage t ps).
Proof.
  intros W Hs. unfold coverage. destruct (selected_cases t arg ps Hs) as [[E Hp]| ->].
  - rewrite E. rewrite (coverage_on_ext t (extract_platforms t) ps).
    + apply coverage_on_S; exact W.
    + intros x. destruct (extract_is_platform_set t) as [_ H1]. destruct Hp as [_ H2]. rewrite H1, H2. reflexivity.
  - apply coverage_on_S; exact W.
Qed.

Theorem average_def t arg ps : wf t -> selected t arg ps -> oeq (average_coverage t arg) (S_average_coverage t ps).
Proof.
  intros W Hs. unfold average_coverage. destruct (selected_cases t arg ps Hs) as [[E Hp]| ->].
  - rewrite E. eapply oeq_trans; [apply average_on_S; exact W|].
    apply S_average_perm. apply (platform_sets_perm t); [apply extract_is_platform_set | exact Hp].
  - apply average_on_S; exact W.
Qed.

Lemma S_divergence_perm t ps ps' : Permutation ps ps' -> oeq (S_divergence t ps) (S_divergence t ps').
Proof. intros P. rewrite !S_divergence_gdiv. apply gdiv_perm; exact P. Qed.

Theorem divergence_def t ps : wf t -> is_platform_set t ps -> oeq (divergence t) (S_divergence t ps).
Proof.
  intros W Hp. unfold divergence.
  eapply oeq_trans; [apply divergence_on_S; [exact W | apply extract_is_platform_set]|].
  apply S_divergence_perm. apply (platform_sets_perm t); [apply extract_is_platform_set | exact Hp].
Qed.

(* ---- the `platforms` argument ---- *)
(* absent = empty = all platforms named explicitly (in any order); a non-empty
   argument matters only as a set for coverage, and as a duplicate-free list in
   any order for the average *)
Theorem platforms_arg t :
  coverage t (Some []) = coverage t None /\ average_coverage t (Some []) = average_coverage t None /\
  (forall ps, is_platform_set t ps -> coverage t (Some ps) = coverage t None /\
                                      oeq (average_coverage t (Some ps)) (average_coverage t None)) /\
  (forall l l', l <> [] -> l' <> [] -> (forall x, In x l <-> In x l') -> coverage t (Some l) = coverage t (Some l')) /\
  (forall l l', Permutation l l' -> oeq (average_coverage t (Some l)) (average_coverage t (Some l'))).
Proof.
  split; [reflexivity|]. split; [reflexivity|]. split; [|split].
  - intros ps Hp.
    assert (P : Permutation ps (extract_platforms t)) by (apply (platform_sets_perm t); [exact Hp | apply extract_is_platform_set]).
    unfold coverage, average_coverage.
    destruct ps as [|x l]; [split; [reflexivity | apply oeq_refl]|]. cbn [sel_platforms]. split.
    + apply coverage_on_ext. intros y. split; intros H.
      * apply (Permutation_in _ P); exact H.
      * apply (Permutation_in _ (Permutation_sym P)); exact H.
    + apply average_on_perm; exact P.
  - intros l l' NE NE' H. unfold coverage.
    destruct l as [|x l]; [contradiction|]. destruct l' as [|x' l']; [contradiction|].
    cbn [sel_platforms]. apply coverage_on_ext; exact H.
  - intros l l' P. unfold average_coverage.
    destruct l as [|x l].
    + apply Permutation_nil in P. subst. apply oeq_refl.
    + destruct l' as [|x' l']; [apply Permutation_sym, Permutation_nil in P; discriminate P|].
      cbn [sel_platforms]. apply average_on_perm; exact P.
Qed.
