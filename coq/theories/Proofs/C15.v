(* C15 — the analysis does not depend on HOW files and directories are spelled:
   two configurations whose entry files have the same real path and whose -I
   directories are pairwise interchangeable produce the same marks, macro
   tables, include-once sets and events.  Also: the ParserState path cache is
   transparent and two spellings of one file share one tree. *)
From Coq Require Import Bool Arith ZArith String List.
From CBI Require Import Lib.Res Model.C01 Spec.C01 Model.C04 Spec.C04 Proofs.C01 Proofs.C04 Model.C15.
Import ListNotations.
Local Open Scope list_scope.

Section World.
Variable rp : path -> path.
Variable getf : path -> option lines.
(* conditional directives nest in every file (what a C preprocessor accepts) *)
Hypothesis Hst : forall q ls, getf q = Some ls -> exists its, ls = flats act cond its.

Notation search_A := (search_A rp getf).
Notation find_include_A := (find_include_A rp getf).
Notation exec_A := (exec_A rp getf).
Notation run_file_A := (run_file_A rp getf).
Notation forced_A := (forced_A rp getf).
Notation run_tu_A := (run_tu_A rp getf).

(* d1 and d2 denote the same directory: whatever is appended resolves alike *)
Definition dir_equiv (d1 d2 : path) : Prop := forall n, rp (d1 ++ n) = rp (d2 ++ n).

Lemma candidates_equiv ds1 ds2 k :
  Forall2 dir_equiv ds1 ds2 -> candidates_A rp ds1 k = candidates_A rp ds2 k.
Proof.
  destruct k as [[name this] angle]. unfold candidates_A. intros H. rewrite !map_app. f_equal.
  induction H as [|d1 d2 l1 l2 Hd _ IH]; [reflexivity|]. cbn. rewrite (Hd name), IH. reflexivity.
Qed.
Lemma search_equiv ds1 ds2 k : Forall2 dir_equiv ds1 ds2 -> search_A ds1 k = search_A ds2 k.
Proof. intros H. unfold Model.C15.search_A. rewrite (candidates_equiv ds1 ds2 k H). reflexivity. Qed.

Definition memo_okA (p : plat) : Prop :=
  forall k r, lookup_memo k (memo p) = Some r -> r = search_A (dirs p) k.

Lemma find_include_A_spec k p p1 r :
  memo_okA p -> find_include_A k p = (p1, r) ->
  r = search_A (dirs p) k /\ memo_okA p1 /\ obs_eq p p1.
Proof.
  intros Hm. unfold Model.C15.find_include_A. destruct (lookup_memo k (memo p)) as [r0|] eqn:E.
  - intros H; inversion H; subst. split; [apply Hm; exact E|]. split; [exact Hm|]. repeat split.
  - intros H; inversion H; subst. split; [reflexivity|]. split; [|repeat split].
    intros k' r'. cbn [memo set_memo dirs lookup_memo].
    destruct (mkey_eqb k' k) eqn:Ek.
    + apply mkey_eqb_eq in Ek. subst. intros H'; inversion H'; reflexivity.
    + apply Hm.
Qed.

(* the two runs are in the same state up to the spelling of the directories and the memo *)
Definition Rel (a b : plat) : Prop :=
  assoc a = assoc b /\ defs a = defs b /\ once a = once b /\ events a = events b /\
  Forall2 dir_equiv (dirs a) (dirs b) /\ memo_okA a /\ memo_okA b.

Lemma Rel_mark f id a b : Rel a b -> Rel (mark_in f id a) (mark_in f id b).
Proof.
  intros (H1 & H2 & H3 & H4 & H5 & H6 & H7). unfold Rel, mark_in, memo_okA in *; cbn. rewrite H1. repeat split; auto.
Qed.
Lemma Rel_ev c a b r : Rel a b -> ev c a = Ok r -> ev c b = Ok r.
Proof. intros (_ & H2 & _). unfold ev, ident_val. rewrite H2. auto. Qed.

Lemma exec_A_unfold fuel cur a p :
  exec_A fuel cur a p =
  match a with
  | ACode | AOther => Ok p
  | ADefine m v => Ok (match lookup m (defs p) with Some _ => p | None => set_defs ((m, v) :: defs p) p end)
  | AUndef m => Ok (set_defs (remove m (defs p)) p)
  | AOnce => Ok (if mem_path cur (once p) then p else set_once (once p ++ [cur]) p)
  | AInclude tag s =>
      match include_target s p with
      | Err e => Err e
      | Ok (angle, name) =>
          let '(p1, r) := find_include_A (name, dirname cur, angle) p in
          match r with
          | None => Ok (set_events ({| ev_file := cur; ev_tag := tag; ev_name := name; ev_angle := angle |} :: events p1) p1)
          | Some f =>
              if mem_path f (once p1) then Ok p1
              else match fuel with
                   | 0 => Err out_of_fuel
                   | S fuel' =>
                       match getf (rp f) with
                       | None => Err "internal: resolved file does not exist"%string
                       | Some ls => run_M plat act cond (mark_in (rp f)) (exec_A fuel' (rp f)) ev ls p1
                       end
                   end
          end
      end
  end.
Proof. destruct fuel; reflexivity. Qed.

Definition exec_sim_at (fuel : nat) : Prop :=
  forall cur a p q p', Rel p q -> exec_A fuel cur a p = Ok p' ->
  exists q', exec_A fuel cur a q = Ok q' /\ Rel p' q'.

Lemma run_lines_sim fuel f ls p q p' :
  exec_sim_at fuel -> (exists its, ls = flats act cond its) -> Rel p q ->
  run_M plat act cond (mark_in f) (exec_A fuel f) ev ls p = Ok p' ->
  exists q', run_M plat act cond (mark_in f) (exec_A fuel f) ev ls q = Ok q' /\ Rel p' q'.
Proof.
  intros Hsim (its & ->) HR. rewrite !attribution. intros H.
  eapply (run_S_sim plat plat act cond (mark_in f) (mark_in f) (exec_A fuel f) (exec_A fuel f) ev ev Rel);
    [apply Rel_mark | intros c a b r; apply Rel_ev | intros a x y x'; apply Hsim | exact HR | exact H].
Qed.

Lemma Rel_find k p q p1 r :
  Rel p q -> find_include_A k p = (p1, r) ->
  exists q1, find_include_A k q = (q1, r) /\ Rel p1 q1 /\ once q1 = once q /\ events q1 = events q.
Proof.
  intros (H1 & H2 & H3 & H4 & H5 & H6 & H7) E.
  destruct (find_include_A k q) as [q1 r'] eqn:Eq.
  destruct (find_include_A_spec _ _ _ _ H6 E) as (-> & Hm1 & (G1 & G2 & G3 & G4 & G5)).
  destruct (find_include_A_spec _ _ _ _ H7 Eq) as (-> & Hm2 & (K1 & K2 & K3 & K4 & K5)).
  exists q1. rewrite (search_equiv _ _ k H5). split; [reflexivity|]. split; [|split; congruence].
  unfold Rel. rewrite <- G1, <- G2, <- G3, <- G4, <- G5, <- K1, <- K2, <- K3, <- K4, <- K5. repeat split; auto.
Qed.

Lemma exec_sim_step fuel : (forall n, fuel = S n -> exec_sim_at n) -> exec_sim_at fuel.
Proof.
  intros IH cur a p q p' HR. rewrite !exec_A_unfold.
  pose proof HR as (H1 & H2 & H3 & H4 & H5 & H6 & H7).
  destruct a as [| |m v|m| tag s|].
  - intros H; inversion H; subst. eexists; split; [reflexivity|exact HR].
  - intros H; inversion H; subst. eexists; split; [reflexivity|exact HR].
  - intros H; inversion H; subst. eexists; split; [reflexivity|]. rewrite <- H2.
    destruct (lookup m (defs p)); [exact HR|].
    unfold Rel, set_defs, memo_okA in *; cbn. rewrite H2. repeat split; auto.
  - intros H; inversion H; subst. eexists; split; [reflexivity|].
    unfold Rel, set_defs, memo_okA in *; cbn. rewrite H2. repeat split; auto.
  - assert (Hit : include_target s q = include_target s p).
    { unfold include_target. rewrite H2. reflexivity. }
    rewrite Hit. destruct (include_target s p) as [[angle name]|e]; [|discriminate].
    destruct (find_include_A (name, dirname cur, angle) p) as [p1 r] eqn:Ef.
    destruct (Rel_find _ _ _ _ _ HR Ef) as (q1 & -> & HR1 & _ & _).
    pose proof HR1 as (G1 & G2 & G3 & G4 & G5 & G6 & G7).
    destruct r as [f|].
    + rewrite <- G3. destruct (mem_path f (once p1)).
      * intros H; inversion H; subst. eexists; split; [reflexivity|exact HR1].
      * destruct fuel as [|n]; [discriminate|].
        destruct (getf (rp f)) as [ls|] eqn:Eg; [|discriminate].
        intros H. apply (run_lines_sim n (rp f) ls p1 q1 p' (IH n eq_refl) (Hst _ ls Eg) HR1 H).
    + intros H; inversion H; subst. eexists; split; [reflexivity|].
      unfold Rel, set_events, memo_okA in *; cbn. rewrite G4. repeat split; auto.
  - intros H; inversion H; subst. rewrite <- H3. eexists; split; [reflexivity|].
    destruct (mem_path cur (once p)); [exact HR|].
    unfold Rel, set_once, memo_okA in *; cbn. rewrite H3. repeat split; auto.
Qed.

Lemma exec_sim fuel : exec_sim_at fuel.
Proof.
  induction fuel as [|n IH]; apply exec_sim_step.
  - intros n H; discriminate.
  - intros m H; inversion H; subst; exact IH.
Qed.

Lemma run_file_sim fuel f g p q p' :
  rp f = rp g -> Rel p q -> run_file_A fuel f p = Ok p' ->
  exists q', run_file_A fuel g q = Ok q' /\ Rel p' q'.
Proof.
  unfold Model.C15.run_file_A. intros <- HR. destruct (getf (rp f)) as [ls|] eqn:Eg; [|discriminate].
  apply run_lines_sim; [apply exec_sim|exact (Hst _ ls Eg)|exact HR].
Qed.

Lemma forced_sim fuel this incs : forall p q p',
  Rel p q -> forced_A fuel this incs p = Ok p' ->
  exists q', forced_A fuel this incs q = Ok q' /\ Rel p' q'.
Proof.
  induction incs as [|n r IH]; intros p q p' HR; cbn [Model.C15.forced_A].
  - intros H; inversion H; subst. eauto.
  - destruct (find_include_A (n, this, false) p) as [p1 res] eqn:Ef.
    destruct (Rel_find _ _ _ _ _ HR Ef) as (q1 & -> & HR1 & _ & _).
    destruct res as [f|].
    + replace (once q1) with (once p1) by (destruct HR1 as (_ & _ & X & _); exact X).
      destruct (mem_path f (once p1)); [apply IH; exact HR1|].
      destruct (run_file_A fuel f p1) as [p2|e] eqn:E2; [|discriminate].
      destruct (run_file_sim fuel f f p1 q1 p2 eq_refl HR1 E2) as (q2 & -> & HR2). apply IH; exact HR2.
    + apply IH; exact HR1.
Qed.

(* two entries that differ only in how they spell the source file and the -I directories *)
Definition entry_equiv (e1 e2 : entry) : Prop :=
  rp (e_file e1) = rp (e_file e2) /\ Forall2 dir_equiv (e_dirs e1) (e_dirs e2) /\
  e_defs e1 = e_defs e2 /\ e_incs e1 = e_incs e2.

Theorem run_tu_alias fuel e1 e2 r1 :
  entry_equiv e1 e2 -> run_tu_A fuel e1 = Ok r1 ->
  exists r2, run_tu_A fuel e2 = Ok r2 /\
    assoc r1 = assoc r2 /\ defs r1 = defs r2 /\ once r1 = once r2 /\ events r1 = events r2.
Proof.
  intros (Hf & Hd & Hdefs & Hincs). unfold Model.C15.run_tu_A. rewrite <- Hf, <- Hincs.
  destruct (forced_A fuel (dirname (rp (e_file e1))) (e_incs e1) (fresh e1)) as [p|x] eqn:E; [|discriminate].
  assert (HR0 : Rel (fresh e1) (fresh e2)).
  { unfold Rel, fresh, memo_okA; cbn. rewrite Hdefs. repeat split; auto; intros k r0; discriminate. }
  destruct (forced_sim fuel _ _ _ _ _ HR0 E) as (q & -> & HR1).
  intros H. destruct (run_file_sim fuel _ _ _ _ _ Hf HR1 H) as (r2 & -> & (G1 & G2 & G3 & G4 & _)).
  exists r2. repeat split; assumption.
Qed.

Definition cfg_equiv (c1 c2 : list (nat * entry)) : Prop :=
  Forall2 (fun x y => fst x = fst y /\ entry_equiv (snd x) (snd y)) c1 c2.

Theorem analyse_alias fuel c1 c2 : cfg_equiv c1 c2 ->
  forall ms, analyse rp getf fuel c1 = Ok ms -> analyse rp getf fuel c2 = Ok ms.
Proof.
  induction 1 as [|[pl1 e1] [pl2 e2] l1 l2 [Hp He] _ IH]; intros ms; cbn [analyse]; [auto|].
  cbn [fst snd] in *. subst pl2.
  destruct (run_tu_A fuel e1) as [r1|x] eqn:E1; [|discriminate].
  destruct (run_tu_alias fuel e1 e2 r1 He E1) as (r2 & -> & Ha & _).
  destruct (analyse rp getf fuel l1) as [m1|x] eqn:E2; [|discriminate].
  rewrite (IH m1 eq_refl), Ha. auto.
Qed.

Theorem find_alias fuel members c1 c2 : cfg_equiv c1 c2 ->
  forall ms, find_A rp getf fuel members c1 = Ok ms -> find_A rp getf fuel members c2 = Ok ms.
Proof.
  intros Hc ms. unfold find_A.
  assert (Hp : forall l, parse_all rp getf (l ++ map (fun pe => e_file (snd pe)) c1) =
                         parse_all rp getf (l ++ map (fun pe => e_file (snd pe)) c2)).
  { intros l. induction l as [|x l IHl]; cbn [app parse_all].
    - induction Hc as [|[pl1 e1] [pl2 e2] l1 l2 [_ (Hf & _)] _ IH]; [reflexivity|].
      cbn [map parse_all snd] in *. rewrite Hf, IH. reflexivity.
    - rewrite IHl. reflexivity. }
  rewrite Hp. destruct (parse_all rp getf _); [apply analyse_alias; exact Hc|auto].
Qed.

End World.

(* ---------- ParserState ---------- *)
Section PState.
Variable rp : path -> path.
Variable TREE : Type.
Variable parse : path -> TREE.

Notation pstate := (pstate TREE).
Definition cache_ok (s : pstate) : Prop := forall p r, plookup p (cache s) = Some r -> r = rp p.
Definition keys_real (s : pstate) : Prop := forall k t, plookup k (trees s) = Some t -> t = parse k.

Lemma plookup_cons {V} k k' (v : V) m :
  plookup k ((k', v) :: m) = if path_eqb k k' then Some v else plookup k m.
Proof. reflexivity. Qed.

Lemma get_realpath_spec s p s1 r :
  cache_ok s -> get_realpath rp TREE s p = (s1, r) -> r = rp p /\ cache_ok s1 /\ trees s1 = trees s.
Proof.
  unfold get_realpath. intros Hc. destruct (plookup p (cache s)) as [r0|] eqn:E.
  - intros H; inversion H; subst. split; [apply Hc; exact E|split; [exact Hc|reflexivity]].
  - intros H; inversion H; subst. split; [reflexivity|]. split; [|reflexivity].
    intros p' r'. cbn [cache]. rewrite plookup_cons. destruct (path_eqb p' p) eqn:Ep.
    + apply path_eqb_eq in Ep. subst. intros H'; inversion H'; reflexivity.
    + apply Hc.
Qed.

(* any history of insert_file / get_tree calls, with any spellings *)
Inductive op := OInsert (fn : path) | OGet (fn : path).
Definition step (s : pstate) (o : op) : pstate :=
  match o with OInsert fn => insert_file rp TREE parse s fn | OGet fn => fst (get_tree rp TREE s fn) end.
Definition empty : pstate := {| cache := []; trees := [] |}.

Lemma step_inv s o : cache_ok s -> cache_ok (step s o).
Proof.
  intros Hc. destruct o as [fn|fn]; cbn [step].
  - unfold insert_file. destruct (get_realpath rp TREE s fn) as [s1 r] eqn:E.
    destruct (get_realpath_spec _ _ _ _ Hc E) as (_ & Hc1 & _).
    destruct (plookup r (trees s1)); [exact Hc1|]. exact Hc1.
  - unfold get_tree. destruct (get_realpath rp TREE s fn) as [s1 r] eqn:E.
    destruct (get_realpath_spec _ _ _ _ Hc E) as (_ & Hc1 & _). exact Hc1.
Qed.
Lemma steps_inv ops : forall s, cache_ok s -> cache_ok (fold_left step ops s).
Proof. induction ops as [|o r IH]; intros s Hc; [exact Hc|]. apply IH. apply step_inv. exact Hc. Qed.

(* what a lookup returns depends on the real path only *)
Lemma get_tree_spec s fn : cache_ok s -> snd (get_tree rp TREE s fn) = plookup (rp fn) (trees s).
Proof.
  intros Hc. unfold get_tree. destruct (get_realpath rp TREE s fn) as [s1 r] eqn:E.
  destruct (get_realpath_spec _ _ _ _ Hc E) as (-> & _ & Ht). cbn. rewrite Ht. reflexivity.
Qed.

Theorem same_file_same_tree ops fn1 fn2 :
  rp fn1 = rp fn2 ->
  let s := fold_left step ops empty in
  snd (get_tree rp TREE s fn1) = snd (get_tree rp TREE s fn2).
Proof.
  intros H s. assert (Hc : cache_ok s) by (apply steps_inv; intros p r; discriminate).
  rewrite !get_tree_spec by exact Hc. rewrite H. reflexivity.
Qed.

(* inserting a second spelling of a file that is already there parses nothing *)
Lemma insert_trees s fn : cache_ok s ->
  trees (insert_file rp TREE parse s fn) =
  match plookup (rp fn) (trees s) with Some _ => trees s | None => (rp fn, parse (rp fn)) :: trees s end.
Proof.
  intros Hc. unfold insert_file. destruct (get_realpath rp TREE s fn) as [s1 r] eqn:E.
  destruct (get_realpath_spec _ _ _ _ Hc E) as (-> & _ & Ht). rewrite Ht.
  destruct (plookup (rp fn) (trees s)); [exact Ht|]. reflexivity.
Qed.

Theorem parsed_once ops fn1 fn2 :
  rp fn1 = rp fn2 ->
  let s0 := fold_left step ops empty in
  let s := insert_file rp TREE parse s0 fn1 in
  trees (insert_file rp TREE parse s fn2) = trees s.
Proof.
  intros H s0 s.
  assert (Hc0 : cache_ok s0) by (apply steps_inv; intros p r; discriminate).
  assert (Hc1 : cache_ok s) by (apply (step_inv s0 (OInsert fn1)); exact Hc0).
  rewrite insert_trees by exact Hc1. rewrite <- H. unfold s. rewrite insert_trees by exact Hc0.
  destruct (plookup (rp fn1) (trees s0)) as [t|] eqn:E; [rewrite E; reflexivity|].
  rewrite plookup_cons, path_eqb_refl. reflexivity.
Qed.

End PState.
