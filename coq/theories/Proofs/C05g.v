(* C05, step 8: the hand-written cleaner step and logical_newline of the model
   are exactly the interpretation of the tables generated from the current
   source text of c_cleaner (Gen/C05_tables.v). *)
From Coq Require Import Bool Ascii Arith List Lia.
From CBI Require Import Lib.Data Model.C05 Model.C05g Gen.C05_tables.
Import ListNotations.

Section G.
Context {C B : Type} (A : alg C B).

Theorem mstep_is_source_table st : forall fuel b ch,
  length st < fuel -> interp A fuel process_table st b ch = mstep A st b ch.
Proof.
  induction st as [|m r IH]; intros fuel b ch Hf; destruct fuel as [|f]; try (cbn in Hf; lia); [reflexivity|].
  assert (Hr : length r < f) by (cbn in Hf; lia).
  destruct m; cbn -[first_cond run]; unfold step_top, step_cpp;
    try (destruct (a_cls A ch); cbn; try reflexivity;
         try (destruct (cat_blank (a_cat A b)); reflexivity);
         try (apply IH; exact Hr);
         try (destruct r as [|[] r']; reflexivity); fail).
  all: reflexivity.
Qed.

Theorem newline_is_source_table st b :
  interp_newline A newline_table st b = logical_newline A st b.
Proof.
  destruct st as [|[] r]; cbn; try reflexivity. destruct r as [|[] r']; reflexivity.
Qed.
End G.
Print Assumptions mstep_is_source_table.

(* ---------- one_space_line ---------- *)
Theorem append_char_is_source c b o : c_char c b = bs_self (brun prog_append_char (bstart b c o)).
Proof.
  destruct b as [ps t]. unfold c_char, c_space. cbn. destruct (isspace c); cbn; [|reflexivity].
  destruct t; reflexivity.
Qed.
Theorem append_space_is_source b c o : c_space b = bs_self (brun prog_append_space (bstart b c o)).
Proof. destruct b as [ps t]. unfold c_space. cbn. destruct t; reflexivity. Qed.
Theorem append_nonspace_is_source c b o : c_nonspace c b = bs_self (brun prog_append_nonspace (bstart b c o)).
Proof. destruct b as [ps t]. reflexivity. Qed.
Theorem join_is_source a b c : c_join a b = bs_self (brun prog_join (bstart a c b)).
Proof.
  destruct a as [ps t], b as [[|p0 rest] u]; unfold c_join; cbn -[Ascii.eqb]; [reflexivity|].
  unfold head_is, sp. destruct (Ascii.eqb p0 " "%char); destruct t; reflexivity.
Qed.
Theorem category_is_source b c o : c_cat b = bs_res (brun prog_category (bstart b c o)).
Proof.
  destruct b as [[|p0 [|p1 r]] t]; unfold c_cat; cbn -[Ascii.eqb]; [reflexivity| |]; unfold head_is, sp, hash.
  - destruct (Ascii.eqb p0 " "%char), (Ascii.eqb p0 "#"%char); reflexivity.
  - destruct (Ascii.eqb p0 " "%char), (Ascii.eqb p0 "#"%char), (Ascii.eqb p1 "#"%char); reflexivity.
Qed.

(* ---------- the physical-line loop of c_file_source ---------- *)
Section L.
Context {C B : Type} (A : alg C B).
Theorem phys_line_is_source (f : fs B) n body continued b0 :
  snd (lrun A loop_table n body continued b0 f) = phys_line A f n (body, continued).
Proof.
  unfold phys_line. cbn -[process logical_newline close_logical].
  destruct (process A (fs_st f) (a_empty A) body) as [st1 b1]. cbn -[logical_newline close_logical].
  destruct (negb continued && negb (top_is_block st1)); cbn -[logical_newline close_logical].
  - destruct (logical_newline A st1 b1) as [st2 b2]. cbn -[close_logical].
    destruct (cat_blank (a_cat A b2)); cbn -[close_logical];
      destruct (negb continued && negb (top_is_block st2)); reflexivity.
  - destruct (cat_blank (a_cat A b1)); cbn -[close_logical];
      destruct (negb continued && negb (top_is_block st1)); reflexivity.
Qed.
End L.
Print Assumptions phys_line_is_source.
