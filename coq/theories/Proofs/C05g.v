(* C05, step 8: the hand-written cleaner step and logical_newline of the model
   are exactly the interpretation of the tables generated from the current
   source text of c_cleaner (Gen/C05_tables.v). *)
From Coq Require Import Bool Arith List Lia.
From CBI Require Import Lib.Data Model.C05 Model.C05g Gen.C05_tables.
Import ListNotations.

Section G.
Context {C B : Type} (A : alg C B).

Theorem mstep_is_source_table st : forall fuel b ch,
  length st < fuel -> interp A fuel process_table st b ch = mstep A st b ch.
Proof.
  induction st as [|m r IH]; intros fuel b ch Hf; destruct fuel as [|f]; try (cbn in Hf; lia); [reflexivity|].
  assert (Hr : length r < f) by (cbn in Hf; lia).
  destruct m; cbn -[first_cond run]; unfold step_top, step_cpp;
    try (destruct (a_cls A ch); cbn; try reflexivity;
         try (destruct (cat_blank (a_cat A b)); reflexivity);
         try (apply IH; exact Hr);
         try (destruct r as [|[] r']; reflexivity); fail).
  all: reflexivity.
Qed.

Theorem newline_is_source_table st b :
  interp_newline A newline_table st b = logical_newline A st b.
Proof.
  destruct st as [|[] r]; cbn; try reflexivity. destruct r as [|[] r']; reflexivity.
Qed.
End G.
Print Assumptions mstep_is_source_table.
