(* C07 proofs, part 6: zero diagonal, ranges, NaN exactly when undefined. *)
From Coq Require Import ZArith QArith String Bool Lia ZifyBool Permutation List.
From CBI Require Import Lib.Data Model.C07 Spec.C07 Proofs.C07 Proofs.C07s Proofs.C07d Proofs.C07i.
Import ListNotations.
Local Open Scope Z_scope.

Lemma card_zero_nil (A : list line) : card A = 0 <-> A = [].
Proof. unfold card. destruct A; cbn [length]; split; intros H; try reflexivity; try discriminate H; lia. Qed.

(* ---- diagonal ---- *)
Theorem diag_zero t p : wf t ->
  match distance t p p with
  | Some d => (d == 0)%Q /\ ~ uses_nothing t p
  | None => uses_nothing t p
  end.
Proof.
  intros W. pose proof (distance_diag t p) as H. unfold uses_nothing.
  destruct (distance t p p); rewrite <- card_zero_nil, (card_L t p W); exact H.
Qed.

(* ---- ranges ---- *)
Lemma in_range_oeq lo hi a b : oeq a b -> in_range lo hi b -> in_range lo hi a.
Proof.
  destruct a, b; cbn; intros H R; try contradiction; try exact I. rewrite H. exact R.
Qed.

Lemma inject_Z_pos b : 0 < b -> (0 < inject_Z b)%Q.
Proof. intros H. unfold Qlt. cbn. lia. Qed.

Lemma ratio_range a b : 0 <= a <= b -> in_range 0 1 (ratio a b).
Proof.
  intros [Ha Hab]. unfold ratio. destruct (b =? 0) eqn:E; [exact I|]. cbn [in_range].
  assert (Hb : 0 < b) by lia. pose proof (inject_Z_pos b Hb) as Hq. split.
  - apply Qle_shift_div_l; [exact Hq|]. rewrite Qmult_0_l. change 0%Q with (inject_Z 0). rewrite <- Zle_Qle. exact Ha.
  - apply Qle_shift_div_r; [exact Hq|]. rewrite Qmult_1_l. rewrite <- Zle_Qle. exact Hab.
Qed.

Lemma times100_range o : in_range 0 1 o -> in_range 0 100 (times100 o).
Proof.
  destruct o as [x|]; cbn; [|exact (fun H => H)]. intros [H0 H1]. split.
  - apply Qmult_le_0_compat; [discriminate | exact H0].
  - apply Qle_trans with (100 * 1)%Q; [|discriminate].
    apply (proj2 (Qmult_le_l x 1 100 eq_refl)). exact H1.
Qed.

Lemma mean_range lo hi l : (forall o, In o l -> in_range lo hi o) -> in_range lo hi (mean l).
Proof.
  intros H. unfold mean. destruct l as [|a l]; [exact I|].
  destruct (all_defined (a :: l)) eqn:D; [|exact I]. cbn [in_range].
  set (n := length (a :: l)).
  assert (B : (lo * inject_Z (Z.of_nat (length (a :: l))) <= total_of (a :: l) /\
               total_of (a :: l) <= hi * inject_Z (Z.of_nat (length (a :: l))))%Q).
  { clear n. revert D H. generalize (a :: l). clear a l.
    induction l as [|o l IH]; intros D H.
    - cbn. split; rewrite Qmult_0_r; apply Qle_refl.
    - destruct o as [x|]; [|discriminate D]. cbn [all_defined] in D.
      destruct (IH D (fun o Ho => H o (or_intror Ho))) as [I1 I2].
      destruct (H (Some x) (or_introl eq_refl)) as [X1 X2].
      cbn [total_of length]. rewrite Nat2Z.inj_succ. unfold Z.succ. rewrite inject_Z_plus.
      change (inject_Z 1) with 1%Q. split.
      + setoid_replace (lo * (inject_Z (Z.of_nat (length l)) + 1))%Q with (lo + lo * inject_Z (Z.of_nat (length l)))%Q by ring.
        apply Qplus_le_compat; assumption.
      + setoid_replace (hi * (inject_Z (Z.of_nat (length l)) + 1))%Q with (hi + hi * inject_Z (Z.of_nat (length l)))%Q by ring.
        apply Qplus_le_compat; assumption. }
  destruct B as [B1 B2].
  assert (Hn : (0 < inject_Z (Z.of_nat (length (a :: l))))%Q) by (apply inject_Z_pos; cbn [length]; lia).
  split.
  - apply Qle_shift_div_l; assumption.
  - apply Qle_shift_div_r; assumption.
Qed.

Lemma coverage_on_range t ps : wf t -> in_range 0 100 (coverage_on t ps).
Proof.
  intros W. eapply in_range_oeq; [apply coverage_on_ratio|]. apply times100_range, ratio_range. split.
  - apply wsum_nonneg; exact W.
  - unfold wtot. apply wsum_le; [exact W | reflexivity].
Qed.

Lemma distance_range t p q : wf t -> in_range 0 1 (distance t p q).
Proof.
  intros W. eapply in_range_oeq; [apply distance_alg|]. apply ratio_range. split.
  - apply wsum_nonneg; exact W.
  - apply wsum_le; [exact W|]. intros s. unfold f_xor, f_or. destruct (mem p s), (mem q s); cbn; congruence.
Qed.

Theorem ranges t : wf t ->
  (forall arg, in_range 0 100 (coverage t arg)) /\
  (forall arg, in_range 0 100 (average_coverage t arg)) /\
  (forall p q, in_range 0 1 (distance t p q)) /\
  in_range 0 1 (divergence t).
Proof.
  intros W. split; [|split; [|split]].
  - intros arg. apply coverage_on_range; exact W.
  - intros arg. unfold average_coverage. eapply in_range_oeq; [apply average_on_mean|].
    apply mean_range. intros o Ho. apply in_map_iff in Ho. destruct Ho as [p [<- _]].
    apply coverage_on_range; exact W.
  - intros p q. apply distance_range; exact W.
  - unfold divergence. eapply in_range_oeq; [apply divergence_on_mean|].
    apply mean_range. intros o Ho. apply in_map_iff in Ho. destruct Ho as [pq [<- _]].
    apply distance_range; exact W.
Qed.

(* ---- NaN exactly when the denominator of the definition is zero ---- *)
Lemma oeq_none a b : oeq a b -> (a = None <-> b = None).
Proof. destruct a, b; cbn; intros H; try contradiction; split; intros E; try discriminate E; reflexivity. Qed.

Lemma no_lines_wtot t : wf t -> (no_lines t <-> wtot t = 0).
Proof. intros W. unfold no_lines. rewrite <- card_zero_nil, (card_universe t W). reflexivity. Qed.

Lemma coverage_on_nan t ps : wf t -> (coverage_on t ps = None <-> no_lines t).
Proof.
  intros W. rewrite (no_lines_wtot t W), coverage_on_alg.
  destruct (wtot t =? 0) eqn:E; split; intros H; try reflexivity; try discriminate H; lia.
Qed.

Lemma mean_none l : mean l = None <-> l = [] \/ In None l.
Proof.
  unfold mean. destruct l as [|a l]; [split; [left; reflexivity | reflexivity]|].
  destruct (all_defined (a :: l)) eqn:D.
  - split; [discriminate|]. intros [H|H]; [discriminate H|].
    exfalso. apply (proj1 (all_defined_forall (a :: l)) D None H). reflexivity.
  - split; [|reflexivity]. intros _. right.
    clear -D. revert D. generalize (a :: l). clear a l. induction l as [|o l IH]; cbn [all_defined]; [discriminate|].
    destruct o; [intros D; right; apply IH; exact D | intros _; left; reflexivity].
Qed.

Lemma average_on_nan t ps : wf t -> (average_on t ps = None <-> no_lines t \/ ps = []).
Proof.
  intros W. rewrite (oeq_none _ _ (average_on_mean t ps)), mean_none. split.
  - intros [H|H]; [right; destruct ps; [reflexivity | discriminate H]|].
    apply in_map_iff in H. destruct H as [p [Hp _]]. left. apply (coverage_on_nan t [p] W). exact Hp.
  - intros [H|H]; [|left; subst; reflexivity].
    destruct ps as [|p ps]; [left; reflexivity|]. right. cbn [map]. left.
    apply (coverage_on_nan t [p] W). exact H.
Qed.

Lemma distance_nan t p q : wf t -> (distance t p q = None <-> empty_union t p q).
Proof.
  intros W. unfold empty_union. rewrite <- card_zero_nil, (card_union t p q W).
  unfold distance. rewrite dist_total_wsum.
  destruct (wsum (f_or p q) t =? 0) eqn:E; split; intros H; try reflexivity; try discriminate H; lia.
Qed.

Lemma dA_nan t p q : wf t -> (dA t p q = None <-> empty_union t p q).
Proof.
  intros W. rewrite <- (distance_nan t p q W). symmetry. apply oeq_none. apply distance_alg.
Qed.

Lemma forallb_false {A} (f : A -> bool) l : forallb f l = false <-> exists x, In x l /\ f x = false.
Proof.
  induction l as [|a l IH]; cbn [forallb].
  - split; [discriminate | intros [x [[] _]]].
  - rewrite andb_false_iff, IH. split.
    + intros [H|[x [H1 H2]]]; [exists a; split; [left; reflexivity | exact H] | exists x; split; [right; exact H1 | exact H2]].
    + intros [x [[<-|H1] H2]]; [left; exact H2 | right; exists x; split; assumption].
Qed.

Lemma gdiv_nan d ps : gdiv d ps = None <->
  (length ps < 2)%nat \/ exists p q, In p ps /\ In q ps /\ p <> q /\ d p q = None.
Proof.
  unfold gdiv. destruct (Z.of_nat (length ps) <? 2) eqn:En.
  - split; [intros _; left; lia | reflexivity].
  - destruct (g_defined d ps) eqn:D.
    + split; [discriminate|]. intros [H|[p [q [Hp [Hq [NE Hd]]]]]]; [lia|]. exfalso.
      unfold g_defined in D. rewrite forallb_forall in D. specialize (D p Hp).
      rewrite forallb_forall in D. specialize (D q Hq).
      apply String.eqb_neq in NE. rewrite NE, Hd in D. discriminate D.
    + split; [|reflexivity]. intros _. right. unfold g_defined in D.
      apply forallb_false in D. destruct D as [p [Hp D]]. apply forallb_false in D. destruct D as [q [Hq D]].
      apply orb_false_iff in D. destruct D as [D1 D2]. apply String.eqb_neq in D1.
      exists p, q. repeat split; try assumption. destruct (d p q); [discriminate D2 | reflexivity].
Qed.

Theorem nan_iff_undefined t : wf t ->
  (forall arg, coverage t arg = None <-> no_lines t) /\
  (forall arg ps, selected t arg ps -> (average_coverage t arg = None <-> no_lines t \/ ps = [])) /\
  (forall p q, distance t p q = None <-> empty_union t p q) /\
  (forall ps, is_platform_set t ps -> (divergence t = None <-> (length ps < 2)%nat \/ undefined_pair t ps)).
Proof.
  intros W. split; [|split; [|split]].
  - intros arg. apply coverage_on_nan; exact W.
  - intros arg ps Hs. unfold average_coverage. rewrite (average_on_nan t _ W).
    destruct (selected_cases t arg ps Hs) as [[E Hp]| ->]; [|reflexivity]. rewrite E.
    pose proof (platform_sets_perm t _ _ (extract_is_platform_set t) Hp) as P.
    split; (intros [H|H]; [left; exact H | right]).
    + rewrite H in P. apply Permutation_nil in P. exact P.
    + rewrite H in P. apply Permutation_sym, Permutation_nil in P. exact P.
  - intros p q. apply distance_nan; exact W.
  - intros ps Hp. unfold divergence.
    pose proof (platform_sets_perm t _ _ (extract_is_platform_set t) Hp) as P.
    assert (ND : NoDup (extract_platforms t)) by apply extract_is_platform_set.
    rewrite (oeq_none _ _ (divergence_on_gdiv t _ ND)).
    rewrite (oeq_none _ _ (gdiv_perm (dA t) _ _ P)).
    rewrite gdiv_nan. unfold undefined_pair.
    split; (intros [H|[p [q [H1 [H2 [H3 H4]]]]]]; [left; exact H | right; exists p, q; repeat split; try assumption]).
    + apply (dA_nan t p q W); exact H4.
    + apply (dA_nan t p q W); exact H4.
Qed.
