(* C17 — part e: the node sequence of a Fortran file as a C01 program. *)
From Coq Require Import NArith Bool Ascii String List.
From CBI Require Import Lib.Res Model.C01 Spec.C01 Proofs.C01 Model.C17 Proofs.C17d.
Import ListNotations.

(* FileParser's node sequence with the directive text kept: None = a code node *)
Fixpoint node_texts (in_code : bool) (F : list fll) : list (option (list ascii)) :=
  match F with
  | [] => if in_code then [None] else []
  | x :: r =>
      match f_cat x with
      | CPPDIR => (if in_code then [None] else []) ++ Some (f_text x) :: node_texts false r
      | _ => node_texts true r
      end
  end.

Lemma node_texts_shape F : forall code,
  map (fun o => match o with Some _ => true | None => false end)
      (node_texts (match code with Some _ => true | None => false end) F)
  = map fst (group_nodes code F).
Proof.
  induction F as [|x F IH]; intros code; cbn [node_texts group_nodes].
  - destruct code; reflexivity.
  - destruct (f_cat x).
    + exact (IH (Some (match code with Some l => l ++ f_lines x | None => f_lines x end))).
    + exact (IH (Some (match code with Some l => l ++ f_lines x | None => f_lines x end))).
    + rewrite !map_app. cbn [map fst]. rewrite <- (IH None). destruct code; reflexivity.
Qed.

Section AsC.
Variables ST ACT COND : Type.
Variable mark : nat -> ST -> ST.
Variable exec : ACT -> ST -> res ST.
Variable ev : COND -> ST -> res bool.
Variable recog : list ascii -> kind ACT COND.     (* DirectiveParser on the text of a # line: the same for every language *)
Variable code : ACT.

Fixpoint number {A} (n : nat) (l : list A) : list (nat * A) :=
  match l with [] => [] | x :: r => (n, x) :: number (S n) r end.

Definition program (F : list fll) : list (line ACT COND) :=
  number 0 (map (fun o => match o with Some t => recog t | None => KPlain code end) (node_texts false F)).

Lemma fortran_program_as_C F its p : program F = flats ACT COND its ->
  run_M ST ACT COND mark exec ev (program F) p = run_S ST ACT COND mark exec ev (program F) p.
Proof. intros E. rewrite E. apply attribution. Qed.
End AsC.
