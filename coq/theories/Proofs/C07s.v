(* C07 proofs, part 2: cardinalities of the explicit line sets of Spec/C07.v are
   the weighted sums of part 1. *)
From Coq Require Import ZArith QArith String Bool Lia ZifyBool Permutation ListSet List.
From CBI Require Import Lib.Data Model.C07 Spec.C07 Proofs.C07.
Import ListNotations.
Local Open Scope Z_scope.

(* ---- the universe has no duplicates ---- *)
Lemma map_fst_combine_seq {A} (xs : list A) : forall k, map fst (combine (seq k (length xs)) xs) = seq k (length xs).
Proof.
  induction xs as [|x xs IH]; intros k; cbn [length seq combine map]; [reflexivity|].
  cbn [fst]. f_equal. apply IH.
Qed.

Lemma universe_nodup t : NoDup (universe t).
Proof.
  unfold universe. apply (NoDup_map_inv fst). rewrite map_fst_combine_seq. apply seq_NoDup.
Qed.

(* ---- counting the lines that satisfy a predicate on their platform set ---- *)
Lemma filter_combine_seq {A} (f : A -> bool) (xs : list A) : forall k,
  length (filter (fun l : nat * A => f (snd l)) (combine (seq k (length xs)) xs)) = length (filter f xs).
Proof.
  induction xs as [|x xs IH]; intros k; cbn [length seq combine filter]; [reflexivity|].
  cbn [snd]. destruct (f x); cbn [length]; rewrite IH; reflexivity.
Qed.

Lemma filter_repeat {A} (f : A -> bool) (x : A) n :
  length (filter f (repeat x n)) = if f x then n else O.
Proof.
  destruct (f x) eqn:E; induction n as [|n IH]; cbn [repeat filter]; try reflexivity; rewrite E; cbn [length];
    [rewrite IH; reflexivity | exact IH].
Qed.

Lemma filter_expand f t : wf t -> Z.of_nat (length (filter f (expand t))) = wsum f t.
Proof.
  unfold expand. induction t as [|r t IH]; intros W; cbn [flat_map wsum]; [reflexivity|].
  rewrite filter_app, app_length, Nat2Z.inj_add, filter_repeat, (IH (wf_tail _ _ W)).
  assert (0 <= snd r) by (apply W; left; reflexivity).
  destruct (f (fst r)); lia.
Qed.

Lemma card_filter_universe f t : wf t ->
  card (filter (fun l : line => f (snd l)) (universe t)) = wsum f t.
Proof.
  intros W. unfold card, universe. rewrite <- (filter_expand f t W). f_equal. apply (filter_combine_seq f (expand t) 0).
Qed.

Lemma filter_true {A} (l : list A) : filter (fun _ => true) l = l.
Proof. induction l as [|x l IH]; cbn; [reflexivity | rewrite IH; reflexivity]. Qed.

Lemma card_universe t : wf t -> card (universe t) = wtot t.
Proof.
  intros W. unfold wtot. rewrite <- (card_filter_universe (fun _ => true) t W).
  rewrite filter_true. reflexivity.
Qed.

(* a duplicate-free set characterised by a predicate inside the universe *)
Lemma card_char (U A : list line) (f : line -> bool) :
  NoDup U -> NoDup A -> (forall x, In x A <-> In x U /\ f x = true) ->
  card A = card (filter f U).
Proof.
  intros HU HA H. unfold card. f_equal. apply Permutation_length.
  apply NoDup_Permutation; [exact HA | apply NoDup_filter; exact HU |].
  intros x. rewrite H, filter_In. reflexivity.
Qed.

(* ---- L_p and the set operations ---- *)
Lemma L_nodup t p : NoDup (L t p).
Proof. apply NoDup_filter, universe_nodup. Qed.
Lemma L_in t p x : In x (L t p) <-> In x (universe t) /\ mem p (snd x) = true.
Proof. unfold L. apply filter_In. Qed.

Lemma card_L t p : wf t -> card (L t p) = wsum (mem p) t.
Proof. intros W. unfold L. apply (card_filter_universe (mem p) t W). Qed.

Lemma card_union t p q : wf t -> card (s_union (L t p) (L t q)) = wsum (f_or p q) t.
Proof.
  intros W. rewrite <- (card_filter_universe (f_or p q) t W).
  apply card_char; [apply universe_nodup | apply set_union_nodup; apply L_nodup |].
  intros x. unfold s_union. rewrite set_union_iff, !L_in. unfold f_or.
  destruct (mem p (snd x)), (mem q (snd x)); cbn; intuition congruence.
Qed.

Lemma card_symdiff t p q : wf t -> card (s_symdiff (L t p) (L t q)) = wsum (f_xor p q) t.
Proof.
  intros W. rewrite <- (card_filter_universe (f_xor p q) t W).
  apply card_char; [apply universe_nodup | |].
  - unfold s_symdiff. apply set_union_nodup; apply set_diff_nodup; apply L_nodup.
  - intros x. unfold s_symdiff. rewrite set_union_iff, !set_diff_iff, !L_in. unfold f_xor.
    destruct (mem p (snd x)), (mem q (snd x)); cbn; intuition congruence.
Qed.

Lemma s_Union_nodup t ps : NoDup (s_Union t ps).
Proof.
  induction ps as [|p ps IH]; cbn [s_Union fold_right]; [constructor|].
  apply set_union_nodup; [apply L_nodup | exact IH].
Qed.

Lemma s_Union_in t ps x : In x (s_Union t ps) <-> In x (universe t) /\ existsb (fun p => mem p (snd x)) ps = true.
Proof.
  induction ps as [|p ps IH]; cbn [s_Union fold_right existsb].
  - split; [intros [] | intros [_ H]; discriminate H].
  - unfold s_union. rewrite set_union_iff, L_in. fold (s_Union t ps). rewrite IH.
    destruct (mem p (snd x)); cbn; intuition congruence.
Qed.

(* any(p in platforms for p in subset)  =  some selected platform is in subset *)
Lemma mem_in p s : mem p s = true <-> In p s.
Proof.
  unfold mem. rewrite existsb_exists. split.
  - intros [x [Hx E]]. apply String.eqb_eq in E. subst; exact Hx.
  - intros H. exists p. split; [exact H | apply String.eqb_refl].
Qed.

Lemma hits_swap ps s : hits ps s = existsb (fun p => mem p s) ps.
Proof.
  unfold hits. apply eq_true_iff_eq. rewrite !existsb_exists. split.
  - intros [p [Hp Hm]]. exists p. split; [apply mem_in; exact Hm | apply mem_in; exact Hp].
  - intros [p [Hp Hm]]. exists p. split; [apply mem_in; exact Hm | apply mem_in; exact Hp].
Qed.

Lemma card_Union t ps : wf t -> card (s_Union t ps) = wsum (hits ps) t.
Proof.
  intros W. rewrite (wsum_ext (hits ps) (fun s => existsb (fun p => mem p s) ps)) by (intros; apply hits_swap).
  rewrite <- (card_filter_universe (fun s => existsb (fun p => mem p s) ps) t W).
  apply card_char; [apply universe_nodup | apply s_Union_nodup |].
  intros x. apply s_Union_in.
Qed.

(* ---- M = S : coverage, single-platform coverage, distance ---- *)
Lemma coverage_on_S t ps : wf t -> oeq (coverage_on t ps) (S_coverage t ps).
Proof.
  intros W. unfold S_coverage. rewrite (card_Union t ps W), (card_universe t W). apply coverage_on_ratio.
Qed.

Lemma hits_single p s : hits [p] s = mem p s.
Proof. rewrite hits_swap. cbn. apply orb_false_r. Qed.

Lemma cov1_S t p : wf t -> oeq (coverage_on t [p]) (S_cov1 t p).
Proof.
  intros W. unfold S_cov1. rewrite (card_L t p W), (card_universe t W).
  rewrite <- (wsum_ext (hits [p]) (mem p) t (hits_single p)). apply coverage_on_ratio.
Qed.

Lemma distance_S t p q : wf t -> oeq (distance t p q) (S_distance t p q).
Proof.
  intros W. unfold S_distance. rewrite (card_symdiff t p q W), (card_union t p q W). apply distance_alg.
Qed.

Lemma average_on_S t ps : wf t -> ps <> [] ->
  oeq (odiv_n (osum (map (fun p => coverage_on t [p]) ps)) (length ps)) (S_average_coverage t ps).
Proof.
  intros W NE. unfold S_average_coverage.
  eapply oeq_trans.
  - rewrite <- (map_length (fun p => coverage_on t [p]) ps). apply osum_mean.
    destruct ps; [contradiction | discriminate].
  - apply mean_proper. induction ps as [|p ps IH]; cbn [map]; constructor.
    + apply cov1_S; exact W.
    + destruct ps as [|p' ps']; [constructor | apply IH; discriminate].
Qed.
