(* C03_objlike, specification side: on tables of object-like macros without ##
   Prosser's algorithm computes the big-step function ES; ES and the
   implementation's E produce the same spellings. *)
From Coq Require Import ZArith String Ascii Bool List Lia Arith.
From CBI Require Import Lib.Data Lib.Res Model.C03tok Model.C03 Spec.C03 Proofs.C03o.
Import ListNotations.
Local Open Scope string_scope.
Local Open Scope list_scope.

(* a replacement-list / source token the fragment admits: not ##, not the
   identifier `defined`, not the empty spelling (never produced by the lexer) *)
Definition okb (t : btok) : bool :=
  negb (String.eqb (bt t) "##") && negb (String.eqb (bt t) "") &&
  negb (tkind_eqb (bk t) KId && String.eqb (bt t) "defined").

Lemma mem_spec s l : mem s l = true <-> In s l.
Proof.
  unfold mem. rewrite existsb_exists. split.
  - intros (x & Hx & E). apply String.eqb_eq in E. now subst.
  - intros H. exists s. split; [assumption|apply String.eqb_refl].
Qed.

Lemma slookup_In (t : stable) k m : slookup t k = Some m -> In k (map fst t).
Proof.
  induction t as [|[k' m'] r IH]; cbn; [discriminate|].
  destruct (String.eqb k' k) eqn:E.
  - apply String.eqb_eq in E. intros _. now left.
  - intros H. right. now apply IH.
Qed.

Section SpecSide.
Variable stb : stable.
(* a function-like macro name (never scanned as a plain token in the fragments below) *)
Definition is_flb (t : btok) : bool :=
  tkind_eqb (bk t) KId && match slookup stb (bt t) with Some (SFun _ _ _) => true | _ => false end.
Definition is_flh (t : htok) : bool :=
  tkind_eqb (hk t) KId && match slookup stb (ht t) with Some (SFun _ _ _) => true | _ => false end.
Definition okb2 (t : btok) : bool := okb t && negb (is_flb t).
Hypothesis HSobj : forall k b, slookup stb k = Some (SObj b) -> forallb okb2 b = true.

Lemma okb2_okb b : forallb okb2 b = true -> forallb okb b = true.
Proof.
  rewrite !forallb_forall. intros H x Hx. specialize (H x Hx). unfold okb2 in H. apply andb_true_iff in H. tauto.
Qed.

Definition snames : list string := map fst stb.

Fixpoint ES (d : nat) (t : htok) : list htok :=
  if negb (tkind_eqb (hk t) KId) then [t]
  else if mem (ht t) (hh t) then [t]
  else match slookup stb (ht t) with
       | Some (SObj body) =>
           match d with
           | O => [t]
           | S d' => flat_map (ES d') (hset_w (hw t) (map (lift (ht t :: hh t)) body))
           end
       | _ => [t]
       end.
Lemma ES_eq d t :
  ES d t =
  if negb (tkind_eqb (hk t) KId) then [t]
  else if mem (ht t) (hh t) then [t]
  else match slookup stb (ht t) with
       | Some (SObj body) =>
           match d with
           | O => [t]
           | S d' => flat_map (ES d') (hset_w (hw t) (map (lift (ht t :: hh t)) body))
           end
       | _ => [t]
       end.
Proof. destruct d; reflexivity. Qed.

(* ---------- subst on an object-like replacement list ---------- *)
Lemma subst_plain body : forall os,
  forallb okb body = true ->
  subst (fun _ => Err "unused") false [] body os = Ok (os ++ map (lift []) body).
Proof.
  induction body as [|t r IH]; intros os H; cbn [subst map].
  - now rewrite app_nil_r.
  - cbn [forallb] in H. apply andb_true_iff in H. destruct H as [Ht Hr].
    cbn [andb]. unfold okb in Ht. rewrite !andb_true_iff, !negb_true_iff in Ht. destruct Ht as [[H1 H2] H3].
    replace (b_is KOp "##" t) with false.
    2:{ unfold b_is. rewrite H1. now rewrite andb_false_r. }
    replace (param [] t) with (@None (list htok)).
    2:{ unfold param. now destruct (tkind_eqb (bk t) KId). }
    rewrite (IH _ Hr). now rewrite <- app_assoc.
Qed.

Lemma no_pm body : forallb okb body = true ->
  filter (fun t => negb (is_pm t)) (map (lift []) body) = map (lift []) body.
Proof.
  induction body as [|t r IH]; intros H; cbn; [reflexivity|].
  cbn [forallb] in H. apply andb_true_iff in H. destruct H as [Ht Hr].
  unfold okb in Ht. rewrite !andb_true_iff, !negb_true_iff in Ht. destruct Ht as [[H1 H2] H3].
  unfold is_pm at 1. cbn [lift hk ht]. rewrite H2, andb_false_r. cbn [negb]. now rewrite IH.
Qed.

Lemma subst_all_plain body :
  forallb okb body = true ->
  subst_all (fun _ => Err "unused") false [] body = Ok (map (lift []) body).
Proof. intros H. unfold subst_all. rewrite subst_plain by assumption. cbn [app]. now rewrite no_pm. Qed.

Lemma hsadd_lift hs body : hsadd hs (map (lift []) body) = map (lift hs) body.
Proof.
  unfold hsadd. rewrite map_map. apply map_ext. intros t. unfold lift. cbn. now rewrite app_nil_r.
Qed.

Lemma starts_plain body : forallb okb body = true -> starts_with_cat body = false.
Proof.
  destruct body as [|t r]; [reflexivity|]. cbn [forallb starts_with_cat]. intros H.
  apply andb_true_iff in H. destruct H as [Ht _].
  unfold okb in Ht. rewrite !andb_true_iff, !negb_true_iff in Ht. destruct Ht as [[H1 _] _].
  unfold b_is. rewrite H1. now rewrite andb_false_r.
Qed.

(* ---------- one step of expand ---------- *)
Definition okh (t : htok) : bool := negb (tkind_eqb (hk t) KId && String.eqb (ht t) "defined").

Lemma X_keep f t ts1 :
  okh t = true ->
  (tkind_eqb (hk t) KId = false \/ mem (ht t) (hh t) = true \/ slookup stb (ht t) = None) ->
  expandS stb (S f) (t :: ts1) = match expandS stb f ts1 with Ok r => Ok (t :: r) | Err e => Err e end.
Proof.
  intros Hok H. cbn [expandS]. destruct (tkind_eqb (hk t) KId) eqn:Hid; cbn [negb]; [|reflexivity].
  unfold okh in Hok. rewrite Hid in Hok. cbn [andb] in Hok. apply negb_true_iff in Hok. rewrite Hok.
  destruct H as [H|[H|H]]; [discriminate|now rewrite H|].
  destruct (mem (ht t) (hh t)); [reflexivity|]. now rewrite H.
Qed.

Lemma X_macro f t ts1 body :
  okh t = true -> tkind_eqb (hk t) KId = true -> mem (ht t) (hh t) = false ->
  slookup stb (ht t) = Some (SObj body) -> forallb okb body = true ->
  expandS stb (S f) (t :: ts1) = expandS stb f (hset_w (hw t) (map (lift (ht t :: hh t)) body) ++ ts1).
Proof.
  intros Hok Hid Hm Hl Hb. cbn [expandS]. rewrite Hid. cbn [negb].
  unfold okh in Hok. rewrite Hid in Hok. cbn [andb] in Hok. apply negb_true_iff in Hok. rewrite Hok, Hm, Hl.
  rewrite starts_plain by assumption. rewrite subst_all_plain by assumption. now rewrite hsadd_lift.
Qed.

(* ---------- budget ---------- *)
Definition invS (hs : list string) (d : nat) : Prop :=
  NoDup hs /\ incl hs snames /\ List.length snames <= d + List.length hs.

Lemma pigeonS hs k m : invS hs 0 -> slookup stb k = Some m -> mem k hs = true.
Proof.
  intros (Hnd & Hin & Hlen) Hm. apply mem_spec.
  assert (Hi : incl snames hs).
  { apply NoDup_length_incl; [exact Hnd|cbn in Hlen; lia|exact Hin]. }
  apply Hi. eapply slookup_In, Hm.
Qed.

Lemma invS_push hs d k : invS hs (S d) -> mem k hs = false -> In k snames -> invS (k :: hs) d.
Proof.
  intros (Hnd & Hin & Hlen) Hk Hkn. repeat split.
  - constructor; [|assumption]. intros H. apply mem_spec in H. congruence.
  - intros x [<-|Hx]; auto.
  - cbn [List.length]. lia.
Qed.

(* ---------- expand computes ES ---------- *)
Definition all_hs (hs : list string) (xs : list htok) : Prop :=
  forall x, In x xs -> hh x = hs /\ okh x = true /\ is_flh x = false.

Definition sscan_at (d : nat) : Prop :=
  forall xs hs, all_hs hs xs -> invS hs d ->
    exists n, forall f ys r, expandS stb f ys = Ok r ->
      expandS stb (n + f) (xs ++ ys) = Ok (flat_map (ES d) xs ++ r).

Lemma okb_okh hs t : okb t = true -> okh (lift hs t) = true.
Proof.
  unfold okb, okh. rewrite !andb_true_iff. intros [_ H]. exact H.
Qed.

Lemma all_hs_body hs w body : forallb okb2 body = true -> all_hs hs (hset_w w (map (lift hs) body)).
Proof.
  intros H x Hx.
  assert (Hall : forall y, In y (map (lift hs) body) -> hh y = hs /\ okh y = true /\ is_flh y = false).
  { intros y Hy. apply in_map_iff in Hy. destruct Hy as (b & <- & Hb). split; [reflexivity|].
    rewrite forallb_forall in H. specialize (H b Hb). unfold okb2 in H. apply andb_true_iff in H.
    destruct H as [H1 H2]. split; [now apply okb_okh|]. apply negb_true_iff in H2. exact H2. }
  destruct (map (lift hs) body) as [|y r] eqn:E; cbn [hset_w] in Hx; [contradiction|].
  destruct Hx as [<-|Hx].
  - destruct (Hall y (or_introl eq_refl)) as (H1 & H2 & H3). repeat split; assumption.
  - apply Hall. now right.
Qed.

(* generalisation: every token has its own hide set; a token that expand keeps anyway needs no budget *)
Definition keepable (x : htok) : Prop :=
  tkind_eqb (hk x) KId = false \/ mem (ht x) (hh x) = true \/ slookup stb (ht x) = None.
Definition all_ok (d : nat) (xs : list htok) : Prop :=
  forall x, In x xs -> okh x = true /\ is_flh x = false /\ (keepable x \/ invS (hh x) d).
Definition gscan_at (d : nat) : Prop :=
  forall xs, all_ok d xs ->
    exists n, forall f ys r, expandS stb f ys = Ok r ->
      expandS stb (n + f) (xs ++ ys) = Ok (flat_map (ES d) xs ++ r).

Lemma all_hs_all_ok hs d xs : all_hs hs xs -> invS hs d -> all_ok d xs.
Proof.
  intros Hall Hinv x Hx. destruct (Hall x Hx) as (H1 & H2 & H3). repeat split; try assumption. right. now rewrite H1.
Qed.

Lemma gscan_step d : (forall d', d = S d' -> gscan_at d') -> gscan_at d.
Proof.
  intros IHd xs. induction xs as [|x xs IHx]; intros Hall.
  - exists 0. intros f ys r H. exact H.
  - assert (Hall' : all_ok d xs) by (intros y Hy; apply Hall; now right).
    destruct (Hall x (or_introl eq_refl)) as (Hok & Hnfl & Hki).
    destruct (IHx Hall') as (n2 & H2).
    cbn [flat_map]. rewrite ES_eq.
    assert (Hkeep : (tkind_eqb (hk x) KId = false \/ mem (ht x) (hh x) = true \/ slookup stb (ht x) = None) ->
                    exists n, forall f ys r, expandS stb f ys = Ok r ->
                      expandS stb (n + f) ((x :: xs) ++ ys) = Ok (([x] ++ flat_map (ES d) xs) ++ r)).
    { intros Hc. exists (S n2). intros f ys r Hr. cbn [plus app].
      rewrite X_keep by assumption. now rewrite (H2 f ys r Hr). }
    destruct (tkind_eqb (hk x) KId) eqn:Hid; cbn [negb]; [|apply Hkeep; now left].
    destruct (mem (ht x) (hh x)) eqn:Hm; [apply Hkeep; right; now left|].
    destruct (slookup stb (ht x)) as [mac|] eqn:Hl; [|apply Hkeep; right; now right].
    destruct mac as [body|ps va fbody].
    2:{ unfold is_flh in Hnfl. rewrite Hid, Hl in Hnfl. discriminate. }
    pose proof (HSobj _ _ Hl) as Hb2. pose proof (okb2_okb _ Hb2) as Hb.
    assert (Hinv : invS (hh x) d).
    { destruct Hki as [[Hc|[Hc|Hc]]|Hc]; [congruence|congruence|congruence|exact Hc]. }
    destruct d as [|d'].
    { rewrite (pigeonS (hh x) _ _ Hinv Hl) in Hm. discriminate. }
    assert (Hinv' : invS (ht x :: hh x) d').
    { apply invS_push; [assumption|assumption|]. eapply slookup_In, Hl. }
    destruct (IHd d' eq_refl (hset_w (hw x) (map (lift (ht x :: hh x)) body))
                  (all_hs_all_ok _ _ _ (all_hs_body _ _ _ Hb2) Hinv')) as (n1 & H1).
    exists (S (n1 + n2)). intros f ys r Hr.
    replace (S (n1 + n2) + f) with (S (n1 + (n2 + f))) by lia. cbn [app].
    rewrite (X_macro _ x (xs ++ ys) body); try assumption.
    rewrite (H1 (n2 + f) (xs ++ ys) _ (H2 f ys r Hr)). now rewrite app_assoc.
Qed.

Lemma gscan_all d : gscan_at d.
Proof. induction d as [|d IH]; apply gscan_step; intros d' H; [discriminate|]. injection H as <-. exact IH. Qed.

Lemma sscan_all d : sscan_at d.
Proof. intros xs hs Hall Hinv. apply gscan_all. eapply all_hs_all_ok; eassumption. Qed.

(* ---------- function-like invocation with flat arguments ---------- *)
Definition hplain (t : htok) : bool :=
  negb (h_is KPunct "," t) && negb (h_is KPunct "(" t) && negb (h_is KPunct ")" t).
Fixpoint hflat_more (more : list (htok * list htok)) : list htok :=
  match more with [] => [] | (c, a) :: r => c :: a ++ hflat_more r end.
Definition hmore_ok (more : list (htok * list htok)) : Prop :=
  Forall (fun ca => h_is KPunct "," (fst ca) = true /\ forallb hplain (snd ca) = true) more.

Lemma actuals_arg a : forall tail nsplit cur acc,
  forallb hplain a = true ->
  actuals (a ++ tail) 0 nsplit cur acc = actuals tail 0 nsplit (cur ++ a) acc.
Proof.
  induction a as [|x a IH]; intros tail nsplit cur acc Hp; cbn [app].
  - now rewrite app_nil_r.
  - cbn [forallb] in Hp. apply andb_true_iff in Hp. destruct Hp as [Hx Ha].
    unfold hplain in Hx. rewrite !andb_true_iff, !negb_true_iff in Hx. destruct Hx as [[H1 H2] H3].
    cbn [actuals]. rewrite H3, H2, H1. cbn [andb]. rewrite IH by assumption. now rewrite <- app_assoc.
Qed.

Lemma h_is_excl k s1 s2 t : h_is k s1 t = true -> s1 <> s2 -> h_is k s2 t = false.
Proof.
  unfold h_is. rewrite andb_true_iff. intros [Hk H] Hn. apply String.eqb_eq in H.
  apply andb_false_iff. right. apply String.eqb_neq. congruence.
Qed.

Lemma actuals_flat more : forall a rp rest nsplit cur acc,
  forallb hplain a = true -> hmore_ok more -> h_is KPunct ")" rp = true -> List.length more <= nsplit ->
  actuals (a ++ hflat_more more ++ rp :: rest) 0 nsplit cur acc
  = Some (acc ++ (cur ++ a) :: map snd more, hh rp, rest).
Proof.
  induction more as [|[c a2] r IH]; intros a rp rest nsplit cur acc Ha Hm Hr Hn.
  - cbn [hflat_more app map]. rewrite actuals_arg by assumption. cbn [actuals]. now rewrite Hr.
  - inversion Hm as [|ca r' [Hc Ha2] Hm']; subst. cbn [fst snd] in Hc, Ha2.
    cbn [hflat_more map]. rewrite actuals_arg by assumption. cbn [app actuals].
    rewrite (h_is_excl KPunct "," ")" c Hc) by discriminate.
    rewrite (h_is_excl KPunct "," "(" c Hc) by discriminate. rewrite Hc. cbn [andb Nat.eqb].
    destruct nsplit as [|n]; [cbn in Hn; lia|].
    rewrite <- app_assoc. rewrite (IH a2 rp rest n [] (acc ++ [cur ++ a]) Ha2 Hm' Hr) by (cbn in Hn; lia).
    cbn [app]. now rewrite <- app_assoc.
Qed.

(* tokens that are not macro names pass through expand unchanged *)
Definition inert (t : htok) : bool :=
  okh t && (negb (tkind_eqb (hk t) KId) || match slookup stb (ht t) with None => true | Some _ => false end).

Lemma keep_all xs : forall f, forallb inert xs = true -> List.length xs < f -> expandS stb f xs = Ok xs.
Proof.
  induction xs as [|x xs IH]; intros f H Hf; (destruct f as [|f]; [lia|]); [reflexivity|].
  cbn [forallb] in H. apply andb_true_iff in H. destruct H as [Hx Hxs].
  unfold inert in Hx. apply andb_true_iff in Hx. destruct Hx as [Hok Hc].
  rewrite X_keep; [|assumption|].
  - rewrite IH; [reflexivity|assumption|cbn in Hf; lia].
  - apply orb_true_iff in Hc. destruct Hc as [Hc|Hc].
    + left. now apply negb_true_iff.
    + right. right. destruct (slookup stb (ht x)); [discriminate|reflexivity].
Qed.

(* subst on a function-like replacement list without # and ##, every argument inert *)
Definition nohash (t : btok) : bool := negb (String.eqb (bt t) "#") && negb (String.eqb (bt t) "##").

Fixpoint subst_out (g : list htok -> list htok) (ap : list (string * list htok)) (body : list btok) : list htok :=
  match body with
  | [] => []
  | t :: r => match param ap t with
              | Some a => hset_w (bw t) (g a) ++ subst_out g ap r
              | None => lift [] t :: subst_out g ap r
              end
  end.

(* [g] = what complete macro replacement makes of an argument *)
Lemma subst_funlike ex g ap body : forall os,
  forallb nohash body = true ->
  (forall t a, In t body -> param ap t = Some a -> ex a = Ok (g a)) ->
  subst ex true ap body os = Ok (os ++ subst_out g ap body).
Proof.
  induction body as [|t r IH]; intros os Hn Hex; cbn [subst subst_out].
  - now rewrite app_nil_r.
  - cbn [forallb] in Hn. apply andb_true_iff in Hn. destruct Hn as [Ht Hr].
    unfold nohash in Ht. rewrite andb_true_iff, !negb_true_iff in Ht. destruct Ht as [H1 H2].
    replace (b_is KOp "#" t) with false by (unfold b_is; now rewrite H1, andb_false_r).
    replace (b_is KOp "##" t) with false by (unfold b_is; now rewrite H2, andb_false_r).
    cbn [andb].
    assert (Hex' : forall t0 a, In t0 r -> param ap t0 = Some a -> ex a = Ok (g a)).
    { intros t0 a0 Hi. apply Hex. now right. }
    assert (Hnc : match r with c :: _ => b_is KOp "##" c | [] => false end = false).
    { destruct r as [|c r']; [reflexivity|]. cbn [forallb] in Hr. apply andb_true_iff in Hr. destruct Hr as [Hc _].
      unfold nohash in Hc. rewrite andb_true_iff, !negb_true_iff in Hc. destruct Hc as [_ Hc].
      unfold b_is. now rewrite Hc, andb_false_r. }
    destruct (param ap t) as [a|] eqn:Hp.
    + destruct r as [|c r'].
      * rewrite (Hex t a (or_introl eq_refl) Hp). rewrite IH by assumption. now rewrite <- app_assoc.
      * rewrite Hnc. rewrite (Hex t a (or_introl eq_refl) Hp). rewrite IH by assumption. now rewrite <- app_assoc.
    + rewrite IH by assumption. rewrite <- app_assoc. reflexivity.
Qed.

Lemma inter_nil_l l : inter [] l = [].
Proof. reflexivity. Qed.

(* one source-level invocation (hide sets of the name and of the parenthesis empty) *)
Lemma X_call f T lp a more rp rest params body ap os :
  okh T = true -> tkind_eqb (hk T) KId = true -> hh T = [] -> hh rp = [] ->
  slookup stb (ht T) = Some (SFun params false body) ->
  h_is KPunct "(" lp = true -> forallb hplain a = true -> hmore_ok more -> h_is KPunct ")" rp = true ->
  starts_with_cat body = false ->
  bind_args params false (a :: map snd more) = Ok ap ->
  subst_all (expandS stb f) true ap body = Ok os ->
  expandS stb (S f) (T :: lp :: a ++ hflat_more more ++ rp :: rest)
  = expandS stb f (hset_w (hw T) (hsadd [ht T] os) ++ rest).
Proof.
  intros Hok Hid HhT Hhr Hl Hlp Ha Hm Hr Hsc Hb Hs.
  cbn [expandS]. rewrite Hid. cbn [negb].
  unfold okh in Hok. rewrite Hid in Hok. cbn [andb] in Hok. apply negb_true_iff in Hok. rewrite Hok.
  rewrite HhT. cbn [mem existsb]. rewrite Hl, Hlp, Hsc.
  rewrite (actuals_flat more a rp rest _ [] [] Ha Hm Hr).
  2:{ rewrite !app_length. cbn [List.length].
      clear. induction more as [|[c a2] r IH]; cbn [List.length hflat_more]; [lia|]. rewrite app_length. lia. }
  cbn [app]. rewrite Hb, Hs, Hhr. reflexivity.
Qed.

Theorem expandS_objlike (input : list btok) :
  forallb okb2 input = true ->
  exists n, forall fuel, n <= fuel ->
    expandS stb fuel (map (lift []) input) = Ok (flat_map (ES (List.length snames)) (map (lift []) input)).
Proof.
  intros Hok.
  destruct (sscan_all (List.length snames) (map (lift []) input) []) as (n & Hn).
  { intros x Hx. apply in_map_iff in Hx. destruct Hx as (b & <- & Hb). split; [reflexivity|].
    rewrite forallb_forall in Hok. specialize (Hok b Hb). unfold okb2 in Hok. apply andb_true_iff in Hok.
    destruct Hok as [H1 H2]. split; [now apply okb_okh|]. apply negb_true_iff in H2. exact H2. }
  { repeat split; [constructor|intros x []|cbn; lia]. }
  exists (S n). intros fuel Hf.
  replace fuel with (n + S (fuel - S n)) by lia.
  rewrite <- (app_nil_r (map (lift []) input)) at 1.
  rewrite (Hn (S (fuel - S n)) [] [] eq_refl). now rewrite app_nil_r.
Qed.
End SpecSide.
