(* C03_objlike, specification side: on tables of object-like macros without ##
   Prosser's algorithm computes the big-step function ES; ES and the
   implementation's E produce the same spellings. *)
From Coq Require Import ZArith String Ascii Bool List Lia Arith.
From CBI Require Import Lib.Data Lib.Res Model.C03tok Model.C03 Spec.C03 Proofs.C03o.
Import ListNotations.
Local Open Scope string_scope.
Local Open Scope list_scope.

(* a replacement-list / source token the fragment admits: not ##, not the
   identifier `defined`, not the empty spelling (never produced by the lexer) *)
Definition okb (t : btok) : bool :=
  negb (String.eqb (bt t) "##") && negb (String.eqb (bt t) "") &&
  negb (tkind_eqb (bk t) KId && String.eqb (bt t) "defined").

Lemma mem_spec s l : mem s l = true <-> In s l.
Proof.
  unfold mem. rewrite existsb_exists. split.
  - intros (x & Hx & E). apply String.eqb_eq in E. now subst.
  - intros H. exists s. split; [assumption|apply String.eqb_refl].
Qed.

Lemma slookup_In (t : stable) k m : slookup t k = Some m -> In k (map fst t).
Proof.
  induction t as [|[k' m'] r IH]; cbn; [discriminate|].
  destruct (String.eqb k' k) eqn:E.
  - apply String.eqb_eq in E. intros _. now left.
  - intros H. right. now apply IH.
Qed.

Section SpecSide.
Variable stb : stable.
Hypothesis HSobj : forall k m, slookup stb k = Some m -> exists b, m = SObj b /\ forallb okb b = true.

Definition snames : list string := map fst stb.

Fixpoint ES (d : nat) (t : htok) : list htok :=
  if negb (tkind_eqb (hk t) KId) then [t]
  else if mem (ht t) (hh t) then [t]
  else match slookup stb (ht t) with
       | Some (SObj body) =>
           match d with
           | O => [t]
           | S d' => flat_map (ES d') (hset_w (hw t) (map (lift (ht t :: hh t)) body))
           end
       | _ => [t]
       end.
Lemma ES_eq d t :
  ES d t =
  if negb (tkind_eqb (hk t) KId) then [t]
  else if mem (ht t) (hh t) then [t]
  else match slookup stb (ht t) with
       | Some (SObj body) =>
           match d with
           | O => [t]
           | S d' => flat_map (ES d') (hset_w (hw t) (map (lift (ht t :: hh t)) body))
           end
       | _ => [t]
       end.
Proof. destruct d; reflexivity. Qed.

(* ---------- subst on an object-like replacement list ---------- *)
Lemma subst_plain body : forall os,
  forallb okb body = true ->
  subst (fun _ => Err "unused") false [] body os = Ok (os ++ map (lift []) body).
Proof.
  induction body as [|t r IH]; intros os H; cbn [subst map].
  - now rewrite app_nil_r.
  - cbn [forallb] in H. apply andb_true_iff in H. destruct H as [Ht Hr].
    cbn [andb]. unfold okb in Ht. rewrite !andb_true_iff, !negb_true_iff in Ht. destruct Ht as [[H1 H2] H3].
    replace (b_is KOp "##" t) with false.
    2:{ unfold b_is. rewrite H1. now rewrite andb_false_r. }
    replace (param [] t) with (@None (list htok)).
    2:{ unfold param. now destruct (tkind_eqb (bk t) KId). }
    rewrite (IH _ Hr). now rewrite <- app_assoc.
Qed.

Lemma no_pm body : forallb okb body = true ->
  filter (fun t => negb (is_pm t)) (map (lift []) body) = map (lift []) body.
Proof.
  induction body as [|t r IH]; intros H; cbn; [reflexivity|].
  cbn [forallb] in H. apply andb_true_iff in H. destruct H as [Ht Hr].
  unfold okb in Ht. rewrite !andb_true_iff, !negb_true_iff in Ht. destruct Ht as [[H1 H2] H3].
  unfold is_pm at 1. cbn [lift hk ht]. rewrite H2, andb_false_r. cbn [negb]. now rewrite IH.
Qed.

Lemma subst_all_plain body :
  forallb okb body = true ->
  subst_all (fun _ => Err "unused") false [] body = Ok (map (lift []) body).
Proof. intros H. unfold subst_all. rewrite subst_plain by assumption. cbn [app]. now rewrite no_pm. Qed.

Lemma hsadd_lift hs body : hsadd hs (map (lift []) body) = map (lift hs) body.
Proof.
  unfold hsadd. rewrite map_map. apply map_ext. intros t. unfold lift. cbn. now rewrite app_nil_r.
Qed.

Lemma starts_plain body : forallb okb body = true -> starts_with_cat body = false.
Proof.
  destruct body as [|t r]; [reflexivity|]. cbn [forallb starts_with_cat]. intros H.
  apply andb_true_iff in H. destruct H as [Ht _].
  unfold okb in Ht. rewrite !andb_true_iff, !negb_true_iff in Ht. destruct Ht as [[H1 _] _].
  unfold b_is. rewrite H1. now rewrite andb_false_r.
Qed.

(* ---------- one step of expand ---------- *)
Definition okh (t : htok) : bool := negb (tkind_eqb (hk t) KId && String.eqb (ht t) "defined").

Lemma X_keep f t ts1 :
  okh t = true ->
  (tkind_eqb (hk t) KId = false \/ mem (ht t) (hh t) = true \/ slookup stb (ht t) = None) ->
  expandS stb (S f) (t :: ts1) = match expandS stb f ts1 with Ok r => Ok (t :: r) | Err e => Err e end.
Proof.
  intros Hok H. cbn [expandS]. destruct (tkind_eqb (hk t) KId) eqn:Hid; cbn [negb]; [|reflexivity].
  unfold okh in Hok. rewrite Hid in Hok. cbn [andb] in Hok. apply negb_true_iff in Hok. rewrite Hok.
  destruct H as [H|[H|H]]; [discriminate|now rewrite H|].
  destruct (mem (ht t) (hh t)); [reflexivity|]. now rewrite H.
Qed.

Lemma X_macro f t ts1 body :
  okh t = true -> tkind_eqb (hk t) KId = true -> mem (ht t) (hh t) = false ->
  slookup stb (ht t) = Some (SObj body) -> forallb okb body = true ->
  expandS stb (S f) (t :: ts1) = expandS stb f (hset_w (hw t) (map (lift (ht t :: hh t)) body) ++ ts1).
Proof.
  intros Hok Hid Hm Hl Hb. cbn [expandS]. rewrite Hid. cbn [negb].
  unfold okh in Hok. rewrite Hid in Hok. cbn [andb] in Hok. apply negb_true_iff in Hok. rewrite Hok, Hm, Hl.
  rewrite starts_plain by assumption. rewrite subst_all_plain by assumption. now rewrite hsadd_lift.
Qed.

(* ---------- budget ---------- *)
Definition invS (hs : list string) (d : nat) : Prop :=
  NoDup hs /\ incl hs snames /\ List.length snames <= d + List.length hs.

Lemma pigeonS hs k m : invS hs 0 -> slookup stb k = Some m -> mem k hs = true.
Proof.
  intros (Hnd & Hin & Hlen) Hm. apply mem_spec.
  assert (Hi : incl snames hs).
  { apply NoDup_length_incl; [exact Hnd|cbn in Hlen; lia|exact Hin]. }
  apply Hi. eapply slookup_In, Hm.
Qed.

Lemma invS_push hs d k : invS hs (S d) -> mem k hs = false -> In k snames -> invS (k :: hs) d.
Proof.
  intros (Hnd & Hin & Hlen) Hk Hkn. repeat split.
  - constructor; [|assumption]. intros H. apply mem_spec in H. congruence.
  - intros x [<-|Hx]; auto.
  - cbn [List.length]. lia.
Qed.

(* ---------- expand computes ES ---------- *)
Definition all_hs (hs : list string) (xs : list htok) : Prop :=
  forall x, In x xs -> hh x = hs /\ okh x = true.

Definition sscan_at (d : nat) : Prop :=
  forall xs hs, all_hs hs xs -> invS hs d ->
    exists n, forall f ys r, expandS stb f ys = Ok r ->
      expandS stb (n + f) (xs ++ ys) = Ok (flat_map (ES d) xs ++ r).

Lemma okb_okh hs t : okb t = true -> okh (lift hs t) = true.
Proof.
  unfold okb, okh. rewrite !andb_true_iff. intros [_ H]. exact H.
Qed.

Lemma all_hs_body hs w body : forallb okb body = true -> all_hs hs (hset_w w (map (lift hs) body)).
Proof.
  intros H x Hx.
  assert (Hall : forall y, In y (map (lift hs) body) -> hh y = hs /\ okh y = true).
  { intros y Hy. apply in_map_iff in Hy. destruct Hy as (b & <- & Hb). split; [reflexivity|].
    apply okb_okh. rewrite forallb_forall in H. now apply H. }
  destruct (map (lift hs) body) as [|y r] eqn:E; cbn [hset_w] in Hx; [contradiction|].
  destruct Hx as [<-|Hx].
  - destruct (Hall y (or_introl eq_refl)) as [H1 H2]. split; [exact H1|]. exact H2.
  - apply Hall. now right.
Qed.

Lemma sscan_step d : (forall d', d = S d' -> sscan_at d') -> sscan_at d.
Proof.
  intros IHd xs. induction xs as [|x xs IHx]; intros hs Hall Hinv.
  - exists 0. intros f ys r H. exact H.
  - assert (Hall' : all_hs hs xs) by (intros y Hy; apply Hall; now right).
    destruct (Hall x (or_introl eq_refl)) as [Hhs Hok].
    destruct (IHx hs Hall' Hinv) as (n2 & H2).
    cbn [flat_map]. rewrite ES_eq.
    (* the cases where the token is kept *)
    assert (Hkeep : (tkind_eqb (hk x) KId = false \/ mem (ht x) (hh x) = true \/ slookup stb (ht x) = None) ->
                    exists n, forall f ys r, expandS stb f ys = Ok r ->
                      expandS stb (n + f) ((x :: xs) ++ ys) = Ok (([x] ++ flat_map (ES d) xs) ++ r)).
    { intros Hc. exists (S n2). intros f ys r Hr. cbn [plus app].
      rewrite X_keep by assumption. now rewrite (H2 f ys r Hr). }
    destruct (tkind_eqb (hk x) KId) eqn:Hid; cbn [negb]; [|apply Hkeep; now left].
    destruct (mem (ht x) (hh x)) eqn:Hm; [apply Hkeep; right; now left|].
    destruct (slookup stb (ht x)) as [mac|] eqn:Hl; [|apply Hkeep; right; now right].
    destruct (HSobj _ _ Hl) as (body & -> & Hb).
    rewrite Hhs in Hm.
    destruct d as [|d'].
    { rewrite (pigeonS hs _ _ Hinv Hl) in Hm. discriminate. }
    assert (Hinv' : invS (ht x :: hs) d').
    { apply invS_push; [assumption|assumption|]. eapply slookup_In, Hl. }
    rewrite Hhs.
    destruct (IHd d' eq_refl (hset_w (hw x) (map (lift (ht x :: hs)) body)) (ht x :: hs)
                  (all_hs_body _ _ _ Hb) Hinv') as (n1 & H1).
    exists (S (n1 + n2)). intros f ys r Hr.
    replace (S (n1 + n2) + f) with (S (n1 + (n2 + f))) by lia. cbn [app].
    rewrite (X_macro _ x (xs ++ ys) body); try assumption.
    2:{ now rewrite Hhs. }
    rewrite Hhs. rewrite (H1 (n2 + f) (xs ++ ys) _ (H2 f ys r Hr)). now rewrite app_assoc.
Qed.

Lemma sscan_all d : sscan_at d.
Proof. induction d as [|d IH]; apply sscan_step; intros d' H; [discriminate|]. injection H as <-. exact IH. Qed.

Theorem expandS_objlike (input : list btok) :
  forallb okb input = true ->
  exists n, forall fuel, n <= fuel ->
    expandS stb fuel (map (lift []) input) = Ok (flat_map (ES (List.length snames)) (map (lift []) input)).
Proof.
  intros Hok.
  destruct (sscan_all (List.length snames) (map (lift []) input) []) as (n & Hn).
  { intros x Hx. apply in_map_iff in Hx. destruct Hx as (b & <- & Hb). split; [reflexivity|].
    apply okb_okh. rewrite forallb_forall in Hok. now apply Hok. }
  { repeat split; [constructor|intros x []|cbn; lia]. }
  exists (S n). intros fuel Hf.
  replace fuel with (n + S (fuel - S n)) by lia.
  rewrite <- (app_nil_r (map (lift []) input)) at 1.
  rewrite (Hn (S (fuel - S n)) [] [] eq_refl). now rewrite app_nil_r.
Qed.
End SpecSide.
