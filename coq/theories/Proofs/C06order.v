(* C06 - the order of the summary rows: (size of the platform set, sorted names) is a strict
   total order on platform sets, the rows are strictly sorted by it, and therefore the row list
   is a function of the setmap as a finite map (independent of its insertion order). *)
From Coq Require Import ZArith String Ascii Bool Arith Lia Permutation Sorted List.
From CBI Require Import Lib.Data Lib.Res Model.C06 Spec.C06 Proofs.C06.
Import ListNotations.
Local Open Scope Z_scope.

(* ---------- Python's order on str ---------- *)
Lemma str_ltb_irrefl a : str_ltb a a = false.
Proof. induction a as [|x a IH]; cbn [str_ltb]; [reflexivity|]. rewrite Nat.ltb_irrefl, Nat.eqb_refl, IH. reflexivity. Qed.

Lemma str_ltb_trans a : forall b c, str_ltb a b = true -> str_ltb b c = true -> str_ltb a c = true.
Proof.
  induction a as [|x a IH]; intros [|y b] [|z c]; cbn [str_ltb]; try discriminate; try reflexivity.
  rewrite !orb_true_iff, !andb_true_iff, !Nat.ltb_lt, !Nat.eqb_eq.
  intros [H|[H1 H2]] [H'|[H1' H2']]; [left; lia | left; lia | left; lia | right; split; [lia | eapply IH; eauto]].
Qed.

Lemma nat_of_ascii_inj x y : nat_of_ascii x = nat_of_ascii y -> x = y.
Proof. intros H. rewrite <- (ascii_nat_embedding x), <- (ascii_nat_embedding y), H. reflexivity. Qed.

Lemma str_ltb_total a : forall b, str_ltb a b = false -> str_ltb b a = false -> a = b.
Proof.
  induction a as [|x a IH]; intros [|y b]; cbn [str_ltb]; try discriminate; [reflexivity|].
  rewrite !orb_false_iff, !andb_false_iff, !Nat.ltb_ge, !Nat.eqb_neq.
  intros [H1 H2] [H1' H2'].
  assert (E : nat_of_ascii x = nat_of_ascii y) by lia.
  destruct H2 as [H2|H2]; [lia|]. destruct H2' as [H2'|H2']; [lia|].
  rewrite (nat_of_ascii_inj x y E), (IH b H2 H2'). reflexivity.
Qed.

(* ---------- lists of names ---------- *)
Lemma names_ltb_irrefl a : names_ltb a a = false.
Proof. induction a as [|x a IH]; cbn [names_ltb]; [reflexivity|]. rewrite str_ltb_irrefl, String.eqb_refl, IH. reflexivity. Qed.

Lemma names_ltb_trans a : forall b c, names_ltb a b = true -> names_ltb b c = true -> names_ltb a c = true.
Proof.
  induction a as [|x a IH]; intros [|y b] [|z c]; cbn [names_ltb]; try discriminate; try reflexivity.
  rewrite !orb_true_iff, !andb_true_iff, !String.eqb_eq.
  intros [H|[H1 H2]] [H'|[H1' H2']].
  - left. eapply str_ltb_trans; eauto.
  - subst z. left. exact H.
  - subst y. left. exact H'.
  - subst y z. right. split; [reflexivity | eapply IH; eauto].
Qed.

Lemma names_ltb_total a : forall b, List.length a = List.length b -> names_ltb a b = false -> names_ltb b a = false -> a = b.
Proof.
  induction a as [|x a IH]; intros [|y b] HL; cbn [names_ltb]; try discriminate; [reflexivity|].
  rewrite !orb_false_iff, !andb_false_iff. intros [H1 H2] [H1' H2'].
  pose proof (str_ltb_total x y H1 H1') as E. subst y. rewrite String.eqb_refl in H2, H2'.
  destruct H2 as [H2|H2]; [discriminate|]. destruct H2' as [H2'|H2']; [discriminate|].
  cbn [List.length] in HL. rewrite (IH b (eq_add_S _ _ HL) H2 H2'). reflexivity.
Qed.

(* ---------- the key (len, sorted names) on platform sets ---------- *)
Definition kltb (a b : pset) : bool :=
  (List.length a <? List.length b)%nat || ((List.length a =? List.length b)%nat && names_ltb a b).
Lemma key_ltb_kltb x e : key_ltb x e = kltb (fst x) (fst e).
Proof. reflexivity. Qed.

Lemma kltb_irrefl a : kltb a a = false.
Proof. unfold kltb. rewrite Nat.ltb_irrefl, names_ltb_irrefl, andb_false_r. reflexivity. Qed.
Lemma kltb_trans a b c : kltb a b = true -> kltb b c = true -> kltb a c = true.
Proof.
  unfold kltb. rewrite !orb_true_iff, !andb_true_iff, !Nat.ltb_lt, !Nat.eqb_eq.
  intros [H|[H1 H2]] [H'|[H1' H2']]; [left; lia | left; lia | left; lia | right; split; [lia | eapply names_ltb_trans; eauto]].
Qed.
Lemma kltb_total a b : kltb a b = false -> kltb b a = false -> a = b.
Proof.
  unfold kltb. rewrite !orb_false_iff, !andb_false_iff, !Nat.ltb_ge, !Nat.eqb_neq.
  intros [H1 H2] [H1' H2']. assert (E : List.length a = List.length b) by lia.
  destruct H2 as [H2|H2]; [lia|]. destruct H2' as [H2'|H2']; [lia|]. apply names_ltb_total; assumption.
Qed.
Lemma kltb_asym a b : kltb a b = true -> kltb b a = false.
Proof.
  intros H. destruct (kltb b a) eqn:E; [|reflexivity].
  pose proof (kltb_trans a b a H E) as X. rewrite kltb_irrefl in X. discriminate.
Qed.

(* non-strict version, for the insertion sort *)
Definition kle (x y : pset * Z) : Prop := key_ltb y x = false.
Lemma kle_trans x y z : kle x y -> kle y z -> kle x z.
Proof.
  unfold kle. rewrite !key_ltb_kltb. intros H1 H2. destruct (kltb (fst z) (fst x)) eqn:E; [|reflexivity]. exfalso.
  destruct (kltb (fst x) (fst y)) eqn:A.
  - rewrite (kltb_trans _ _ _ E A) in H2. discriminate.
  - pose proof (kltb_total _ _ A H1) as Q. rewrite Q in E. congruence.
Qed.

Lemma ins_len_ksorted e l : StronglySorted kle l -> StronglySorted kle (ins_len e l).
Proof.
  induction l as [|x l IH]; intros H; cbn [ins_len]; [repeat constructor|].
  inversion H as [|? ? Hl Hx]; subst.
  destruct (key_ltb x e) eqn:E.
  - constructor; [apply IH; assumption|].
    eapply Permutation_Forall; [symmetry; apply ins_len_perm|]. constructor; [|assumption].
    unfold kle. rewrite key_ltb_kltb in *. apply kltb_asym, E.
  - constructor; [assumption|]. constructor; [exact E|].
    eapply Forall_impl; [|exact Hx]. intros a Ha. eapply kle_trans; [exact E | exact Ha].
Qed.
Lemma sort_len_ksorted m : StronglySorted kle (sort_len m).
Proof. unfold sort_len. induction m as [|e m IH]; cbn [fold_right]; [constructor | apply ins_len_ksorted, IH]. Qed.

(* with pairwise distinct keys the order is strict *)
Definition klt (x y : pset * Z) : Prop := key_ltb x y = true.
Lemma ksorted_strict l : NoDup (map fst l) -> StronglySorted kle l -> StronglySorted klt l.
Proof.
  induction l as [|x l IH]; intros Hnd Hs; [constructor|]. cbn [map] in Hnd.
  inversion Hnd as [|? ? Hx Hl]; subst. inversion Hs as [|? ? Hs' Hall]; subst.
  constructor; [apply IH; assumption|]. rewrite Forall_forall in *. intros y Hy.
  specialize (Hall y Hy). unfold kle, klt in *. rewrite key_ltb_kltb in *.
  destruct (kltb (fst x) (fst y)) eqn:E; [reflexivity|]. exfalso. apply Hx.
  rewrite (kltb_total _ _ E Hall). apply in_map, Hy.
Qed.

Lemma sort_len_strict m : NoDup (map fst m) -> StronglySorted klt (sort_len m).
Proof.
  intros H. apply ksorted_strict; [|apply sort_len_ksorted].
  eapply Permutation_NoDup; [|exact H]. apply Permutation_map. symmetry. apply sort_len_perm.
Qed.

(* a strictly sorted list is determined by its elements *)
Lemma klt_irrefl x : ~ klt x x.
Proof. unfold klt. rewrite key_ltb_kltb, kltb_irrefl. discriminate. Qed.
Lemma klt_trans x y z : klt x y -> klt y z -> klt x z.
Proof. unfold klt. rewrite !key_ltb_kltb. apply kltb_trans. Qed.

Lemma sorted_perm_unique l1 : forall l2, StronglySorted klt l1 -> StronglySorted klt l2 -> Permutation l1 l2 -> l1 = l2.
Proof.
  induction l1 as [|x l1 IH]; intros l2 H1 H2 P.
  - apply Permutation_nil in P. subst. reflexivity.
  - destruct l2 as [|y l2]; [apply Permutation_sym, Permutation_nil in P; discriminate|].
    inversion H1 as [|? ? S1 A1]; subst. inversion H2 as [|? ? S2 A2]; subst.
    rewrite Forall_forall in A1, A2.
    assert (E : x = y).
    { assert (Hx : In x (y :: l2)) by (eapply Permutation_in; [exact P | left; reflexivity]).
      assert (Hy : In y (x :: l1)) by (eapply Permutation_in; [symmetry; exact P | left; reflexivity]).
      destruct Hx as [->|Hx]; [reflexivity|]. destruct Hy as [->|Hy]; [reflexivity|].
      exfalso. apply (klt_irrefl x). eapply klt_trans; [apply A1, Hy | apply A2, Hx]. }
    subst y. f_equal. apply IH; [assumption | assumption | eapply Permutation_cons_inv; exact P].
Qed.

(* the sorted order does not depend on the insertion order of the dict *)
Theorem sort_len_canonical m1 m2 : NoDup (map fst m1) -> Permutation m1 m2 -> sort_len m1 = sort_len m2.
Proof.
  intros Hnd P. assert (Hnd2 : NoDup (map fst m2)) by (eapply Permutation_NoDup; [apply Permutation_map; exact P | exact Hnd]).
  apply sorted_perm_unique; [apply sort_len_strict, Hnd | apply sort_len_strict, Hnd2|].
  rewrite sort_len_perm, P. symmetry. apply sort_len_perm.
Qed.

Theorem summary_canonical m1 m2 : NoDup (map fst m1) -> Permutation m1 m2 -> summary m1 = summary m2.
Proof.
  intros Hnd P. rewrite !summary_eq. unfold sm_total. rewrite (sum_if_perm _ _ _ P), (sort_len_canonical m1 m2 Hnd P). reflexivity.
Qed.

Definition row_lt (a b : srow) : Prop := kltb (skey a) (skey b) = true.

Theorem summary_row_order files rows total : summary (get_setmap files) = Ok (rows, total) ->
  StronglySorted row_lt rows /\
  (forall m, Permutation m (get_setmap files) -> summary m = Ok (rows, total)).
Proof.
  intros H. pose proof H as H0. apply summary_ok in H. destruct H as [-> ->].
  assert (Hnd : NoDup (map fst (get_setmap files))) by (rewrite keys_get_setmap; apply spec_keys_NoDup).
  split.
  - generalize (sort_len_strict _ Hnd). generalize (sort_len (get_setmap files)) as l.
    induction l as [|x l IH]; intros Hs; cbn [map]; [constructor|]. inversion Hs as [|? ? Hl Hx]; subst.
    constructor; [apply IH; assumption|]. apply Forall_map. eapply Forall_impl; [|exact Hx]. intros a Ha. exact Ha.
  - intros m P. rewrite <- H0. symmetry. apply summary_canonical; [exact Hnd | symmetry; exact P].
Qed.
