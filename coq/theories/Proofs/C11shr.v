(* shlex.split reads every POSIX-shell rendering of an argument vector back as that vector. *)
From Coq Require Import Ascii String Bool Arith List.
From CBI Require Import Lib.Data Model.C11sh Spec.C11sh Proofs.C11sh.
Import ListNotations.

Lemma special_false c : special c = false -> Ascii.eqb c c_bs = false /\ Ascii.eqb c c_dq = false.
Proof. unfold special. intros H. now apply orb_false_iff in H. Qed.

Lemma lex_dq_items l : forall tok s, forallb dq_ok l = true ->
  lex LQ2 tok true (flat_map render_dq l ++ s) = lex LQ2 (tok ++ flat_map value_dq l) true s.
Proof.
  induction l as [|d l IH]; intros tok s H; cbn [flat_map app].
  - now rewrite app_nil_r.
  - cbn [forallb] in H. apply andb_prop in H. destruct H as [Hd Hl].
    rewrite <- !app_assoc. rewrite (app_assoc tok).
    destruct d as [c|c|c]; cbn [dq_ok] in Hd; cbn [render_dq value_dq app].
    + apply negb_true_iff in Hd. destruct (special_false c Hd) as [H1 H2].
      cbn [lex]. rewrite H2, H1. now apply IH.
    + cbn [lex]. change (Ascii.eqb c_bs c_dq) with false. change (Ascii.eqb c_bs c_bs) with true. cbn iota.
      unfold special in Hd. rewrite Hd. now apply IH.
    + apply negb_true_iff in Hd.
      cbn [lex]. change (Ascii.eqb c_bs c_dq) with false. change (Ascii.eqb c_bs c_bs) with true. cbn iota.
      unfold special in Hd. rewrite Hd. now apply IH.
Qed.

Lemma lex_sq_run w : forall tok s, forallb (fun c => negb (Ascii.eqb c c_sq)) w = true ->
  lex LQ1 tok true (w ++ s) = lex LQ1 (tok ++ w) true s.
Proof.
  induction w as [|c w IH]; intros tok s H; cbn [app].
  - now rewrite app_nil_r.
  - cbn [forallb] in H. apply andb_prop in H. destruct H as [Hc Hw]. apply negb_true_iff in Hc.
    cbn [lex]. rewrite Hc. rewrite IH by assumption. now rewrite <- app_assoc.
Qed.

Definition seg_quoted (s : seg) : bool := match s with SS _ | SD _ => true | _ => false end.

Lemma lex_seg sg tok q s : seg_ok sg = true ->
  lex LW tok q (render_seg sg ++ s) = lex LW (tok ++ value_seg sg) (q || seg_quoted sg) s.
Proof.
  intros H. destruct sg as [c|c|w|l]; cbn [seg_ok] in H; cbn [render_seg value_seg seg_quoted app].
  - rewrite !andb_true_iff, !negb_true_iff in H. destruct H as [[[H1 H2] H3] H4].
    cbn [lex]. rewrite H1, H2, H3, H4. now rewrite orb_false_r.
  - cbn [lex]. change (is_ws c_bs) with false. change (Ascii.eqb c_bs c_sq) with false.
    change (Ascii.eqb c_bs c_dq) with false. change (Ascii.eqb c_bs c_bs) with true. cbn iota.
    now rewrite orb_false_r.
  - cbn [lex]. change (is_ws c_sq) with false. change (Ascii.eqb c_sq c_sq) with true. cbn iota.
    rewrite <- app_assoc. rewrite lex_sq_run by assumption. cbn [app lex].
    change (Ascii.eqb c_sq c_sq) with true. cbn iota. now rewrite orb_true_r.
  - cbn [lex]. change (is_ws c_dq) with false. change (Ascii.eqb c_dq c_sq) with false.
    change (Ascii.eqb c_dq c_dq) with true. cbn iota.
    rewrite <- app_assoc. rewrite lex_dq_items by assumption. cbn [app lex].
    change (Ascii.eqb c_dq c_dq) with true. cbn iota. now rewrite orb_true_r.
Qed.

Lemma lex_word w : forall tok q s, forallb seg_ok w = true ->
  lex LW tok q (render_word w ++ s) = lex LW (tok ++ value_word w) (q || existsb seg_quoted w) s.
Proof.
  unfold render_word, value_word.
  induction w as [|sg w IH]; intros tok q s H; cbn [flat_map existsb app].
  - now rewrite app_nil_r, orb_false_r.
  - cbn [forallb] in H. apply andb_prop in H. destruct H as [Hs Hw].
    rewrite <- app_assoc. rewrite lex_seg by assumption. rewrite IH by assumption.
    now rewrite <- app_assoc, orb_assoc.
Qed.

Lemma lex_sep sep : forall s, forallb is_ws sep = true -> lex LSp [] false (sep ++ s) = lex LSp [] false s.
Proof.
  induction sep as [|c sep IH]; intros s H; [reflexivity|].
  cbn [forallb] in H. apply andb_prop in H. destruct H as [Hc Hs].
  cbn [app lex]. rewrite Hc. now apply IH.
Qed.

Lemma lsp_lw c r : is_ws c = false -> lex LSp [] false (c :: r) = lex LW [] false (c :: r).
Proof.
  intros H. cbn [lex app]. rewrite H.
  destruct (Ascii.eqb c c_bs) eqn:E1; destruct (Ascii.eqb c c_sq) eqn:E2; destruct (Ascii.eqb c c_dq) eqn:E3;
    try reflexivity;
    repeat match goal with E : Ascii.eqb _ _ = true |- _ => apply Ascii.eqb_eq in E end; subst; discriminate.
Qed.

Lemma word_starts w s : w <> [] -> forallb seg_ok w = true ->
  exists c r, render_word w ++ s = c :: r /\ is_ws c = false.
Proof.
  intros Hn H. destruct w as [|sg w]; [congruence|].
  cbn [forallb] in H. apply andb_prop in H. destruct H as [Hs _].
  unfold render_word. cbn [flat_map].
  destruct sg as [c|c|x|l]; cbn [render_seg app].
  - exists c. eexists. split; [reflexivity|].
    cbn [seg_ok] in Hs. rewrite !andb_true_iff, !negb_true_iff in Hs. tauto.
  - exists c_bs. eexists. split; reflexivity.
  - exists c_sq. eexists. split; reflexivity.
  - exists c_dq. eexists. split; reflexivity.
Qed.

Lemma word_emits w : w <> [] -> value_word w <> [] \/ existsb seg_quoted w = true.
Proof.
  intros Hn. destruct w as [|sg w]; [congruence|].
  unfold value_word. cbn [flat_map existsb].
  destruct sg; cbn [value_seg seg_quoted app]; try (left; discriminate); right; reflexivity.
Qed.

Lemma emit_ok v q k : (v <> [] \/ q = true) -> emit v q (inr k) = inr (v :: k).
Proof. intros [H|H]; destruct v; try congruence; subst; reflexivity. Qed.

Theorem split_render : forall l sep0,
  cmd_ok l = true -> forallb is_ws sep0 = true ->
  split (sep0 ++ render_cmd l) = inr (map (fun ws => value_word (fst ws)) l).
Proof.
  unfold split. induction l as [|[w sep] r IH]; intros sep0 Hok H0; rewrite lex_sep by assumption.
  - reflexivity.
  - cbn [cmd_ok] in Hok. rewrite !andb_true_iff in Hok. destruct Hok as [[[[Hne Hw] Hsep] Hlast] Hr].
    assert (Hn : w <> []) by (destruct w; [discriminate|discriminate]).
    cbn [render_cmd map fst].
    destruct (word_starts w (sep ++ render_cmd r) Hn Hw) as (c & rest & E & Hc).
    rewrite E, lsp_lw by assumption. rewrite <- E.
    rewrite lex_word by assumption. cbn [app orb].
    assert (He := word_emits w Hn).
    destruct sep as [|c1 sep].
    + destruct r as [|x r]; [|discriminate]. cbn [render_cmd app lex map]. now apply emit_ok.
    + cbn [forallb] in Hsep. apply andb_prop in Hsep. destruct Hsep as [Hc1 Hsep].
      cbn [app lex]. rewrite Hc1. rewrite (IH sep Hr Hsep). now apply emit_ok.
Qed.
