(* C14 - permutation invariance of the order-explicit model (Model/C14.v). *)
From Coq Require Import ZArith String Bool Lia ZifyBool Permutation Sorting.Sorted RelationClasses List.
From CBI Require Import Lib.Data Model.C14.
Import ListNotations.
Local Open Scope Z_scope.

(* ------------------------------------------------------------------ *)
(* comparisons that are total orders                                   *)
(* ------------------------------------------------------------------ *)
Record good_cmp {A} (cmp : A -> A -> comparison) : Prop := {
  gc_eq : forall a b, cmp a b = Eq -> a = b;
  gc_refl : forall a, cmp a a = Eq;
  gc_anti : forall a b, cmp b a = CompOpp (cmp a b);
  gc_trans : forall a b c, cmp a b = Lt -> cmp b c = Lt -> cmp a c = Lt }.

Lemma good_Z : good_cmp Z.compare.
Proof.
  split; intros.
  - now apply Z.compare_eq.
  - apply Z.compare_refl.
  - apply Z.compare_antisym.
  - rewrite Z.compare_lt_iff in *. lia.
Qed.

Lemma good_nat : good_cmp Nat.compare.
Proof.
  split; intros.
  - now apply Nat.compare_eq.
  - apply Nat.compare_refl.
  - apply Nat.compare_antisym.
  - rewrite Nat.compare_lt_iff in *. lia.
Qed.

Section Lex.
Context {A : Type} (cmp : A -> A -> comparison) (G : good_cmp cmp).

Lemma lex_eq : forall x y, lex_cmp cmp x y = Eq -> x = y.
Proof.
  induction x as [|a x IH]; destruct y as [|b y]; cbn; intros H; try discriminate; auto.
  destruct (cmp a b) eqn:E; try discriminate.
  apply (gc_eq _ G) in E. subst. f_equal. auto.
Qed.
Lemma lex_refl : forall x, lex_cmp cmp x x = Eq.
Proof. induction x as [|a x IH]; cbn; auto. rewrite (gc_refl _ G). exact IH. Qed.
Lemma lex_anti : forall x y, lex_cmp cmp y x = CompOpp (lex_cmp cmp x y).
Proof.
  induction x as [|a x IH]; destruct y as [|b y]; cbn; auto.
  rewrite (gc_anti _ G a b). destruct (cmp a b); cbn; auto.
Qed.
Lemma lex_trans : forall x y z, lex_cmp cmp x y = Lt -> lex_cmp cmp y z = Lt -> lex_cmp cmp x z = Lt.
Proof.
  induction x as [|a x IH]; destruct y as [|b y]; destruct z as [|c z]; cbn; intros H1 H2; try discriminate; auto.
  destruct (cmp a b) eqn:E1; try discriminate; destruct (cmp b c) eqn:E2; try discriminate.
  - apply (gc_eq _ G) in E1. apply (gc_eq _ G) in E2. subst. rewrite (gc_refl _ G). eauto.
  - apply (gc_eq _ G) in E1. subst. rewrite E2. reflexivity.
  - apply (gc_eq _ G) in E2. subst. rewrite E1. reflexivity.
  - rewrite (gc_trans _ G _ _ _ E1 E2). reflexivity.
Qed.
Lemma good_lex : good_cmp (lex_cmp cmp).
Proof. split; [exact lex_eq|exact lex_refl|exact lex_anti|exact lex_trans]. Qed.
End Lex.

Lemma good_ncmp : good_cmp ncmp.
Proof. apply good_lex, good_Z. Qed.
Lemma good_pcmp : good_cmp pcmp.
Proof. apply good_lex, good_ncmp. Qed.

Lemma good_kcmp : good_cmp kcmp.
Proof.
  pose proof good_nat as GN. pose proof good_pcmp as GP.
  split; unfold kcmp.
  - intros [a1 a2] [b1 b2]; cbn. destruct (Nat.compare a1 b1) eqn:E; try discriminate.
    intros H. apply (gc_eq _ GN) in E. apply (gc_eq _ GP) in H. now subst.
  - intros [a1 a2]; cbn. rewrite (gc_refl _ GN). apply (gc_refl _ GP).
  - intros [a1 a2] [b1 b2]; cbn. rewrite (gc_anti _ GN a1 b1). destruct (Nat.compare a1 b1); cbn; auto.
    apply (gc_anti _ GP).
  - intros [a1 a2] [b1 b2] [c1 c2]; cbn.
    destruct (Nat.compare a1 b1) eqn:E1; try discriminate; destruct (Nat.compare b1 c1) eqn:E2; try discriminate; intros H1 H2.
    + apply (gc_eq _ GN) in E1. apply (gc_eq _ GN) in E2. subst. rewrite (gc_refl _ GN). eapply (gc_trans _ GP); eauto.
    + apply (gc_eq _ GN) in E1. subst. now rewrite E2.
    + apply (gc_eq _ GN) in E2. subst. now rewrite E1.
    + now rewrite (gc_trans _ GN _ _ _ E1 E2).
Qed.

(* ------------------------------------------------------------------ *)
(* the order "not greater" on keys                                      *)
(* ------------------------------------------------------------------ *)
Section Le.
Context {A : Type} (cmp : A -> A -> comparison) (G : good_cmp cmp).
Definition cle (a b : A) : Prop := cmp a b <> Gt.

Lemma cle_refl a : cle a a.
Proof. unfold cle. rewrite (gc_refl _ G). discriminate. Qed.
Lemma cle_total a b : cle a b \/ cle b a.
Proof. unfold cle. rewrite (gc_anti _ G a b). destruct (cmp a b); cbn; (left; discriminate) || (right; discriminate). Qed.
Lemma cle_trans a b c : cle a b -> cle b c -> cle a c.
Proof.
  unfold cle. intros H1 H2.
  destruct (cmp a b) eqn:E1; [| |congruence]; destruct (cmp b c) eqn:E2; try congruence.
  - apply (gc_eq _ G) in E1. apply (gc_eq _ G) in E2. subst. rewrite (gc_refl _ G). discriminate.
  - apply (gc_eq _ G) in E1. subst. rewrite E2. discriminate.
  - apply (gc_eq _ G) in E2. subst. rewrite E1. discriminate.
  - rewrite (gc_trans _ G _ _ _ E1 E2). discriminate.
Qed.
Lemma cle_antisym a b : cle a b -> cle b a -> a = b.
Proof.
  unfold cle. rewrite (gc_anti _ G a b). destruct (cmp a b) eqn:E; cbn; intros; try congruence.
  now apply (gc_eq _ G).
Qed.
Lemma cle_gt a b : cmp a b = Gt -> cle b a.
Proof. unfold cle. rewrite (gc_anti _ G a b). intros ->. discriminate. Qed.
End Le.

(* ------------------------------------------------------------------ *)
(* sorted(l, key=...) : sorted, a permutation, and canonical            *)
(* ------------------------------------------------------------------ *)
Section Sort.
Context {K B : Type} (cmp : K -> K -> comparison) (G : good_cmp cmp) (key : B -> K).
Definition kle (x y : B) : Prop := cle cmp (key x) (key y).

Lemma kle_trans : Transitive kle.
Proof. intros x y z. apply (cle_trans cmp G). Qed.

Lemma insert_perm x s : Permutation (insert_by cmp key x s) (x :: s).
Proof.
  induction s as [|a r IH]; cbn; auto.
  destruct (cmp (key x) (key a)); auto.
  eapply perm_trans; [apply perm_skip, IH|apply perm_swap].
Qed.
Lemma sort_perm l : Permutation (sort_by cmp key l) l.
Proof.
  induction l as [|x l IH]; cbn; auto.
  eapply perm_trans; [apply insert_perm|]. now apply perm_skip.
Qed.

Lemma insert_sorted x s : StronglySorted kle s -> StronglySorted kle (insert_by cmp key x s).
Proof.
  induction 1 as [|a r Hr IH Ha]; cbn.
  - constructor; constructor.
  - destruct (cmp (key x) (key a)) eqn:E.
    + constructor; [constructor; assumption|]. constructor.
      * unfold kle, cle. rewrite E. discriminate.
      * eapply Forall_impl; [|exact Ha]. intros b Hb. eapply kle_trans; [|exact Hb]. unfold kle, cle. rewrite E. discriminate.
    + constructor; [constructor; assumption|]. constructor.
      * unfold kle, cle. rewrite E. discriminate.
      * eapply Forall_impl; [|exact Ha]. intros b Hb. eapply kle_trans; [|exact Hb]. unfold kle, cle. rewrite E. discriminate.
    + constructor; [exact IH|].
      eapply Permutation_Forall; [apply Permutation_sym, insert_perm|].
      constructor; [|exact Ha]. now apply (cle_gt cmp G).
Qed.
Lemma sort_sorted l : StronglySorted kle (sort_by cmp key l).
Proof. induction l; cbn; [constructor|now apply insert_sorted]. Qed.

(* two sorted permutations of one another coincide, as soon as equal keys
   mean equal elements among the elements of the list *)
Lemma sorted_unique : forall l l',
  StronglySorted kle l -> StronglySorted kle l' -> Permutation l l' ->
  (forall x y, In x l -> In y l -> key x = key y -> x = y) -> l = l'.
Proof.
  induction l as [|x l IH]; intros l' S S' P inj.
  - apply Permutation_nil in P. now subst.
  - destruct l' as [|y l']; [apply Permutation_sym, Permutation_nil in P; discriminate|].
    inversion S as [|? ? Sl Hx]; subst. inversion S' as [|? ? Sl' Hy]; subst.
    assert (Hxy : x = y).
    { assert (In y (x :: l)) as Iy by (eapply Permutation_in; [apply Permutation_sym, P|now left]).
      assert (In x (y :: l')) as Ix by (eapply Permutation_in; [apply P|now left]).
      destruct Iy as [->|Iy]; auto. destruct Ix as [->|Ix]; auto.
      rewrite Forall_forall in Hx, Hy.
      apply inj; [now left|now right|].
      apply (cle_antisym cmp G); [apply (Hx _ Iy)|apply (Hy _ Ix)]. }
    subst y. f_equal. apply IH; auto.
    + eapply Permutation_cons_inv; exact P.
    + intros; apply inj; auto; now right.
Qed.

Lemma sort_canonical_on l l' :
  Permutation l l' -> (forall x y, In x l -> In y l -> key x = key y -> x = y) ->
  sort_by cmp key l = sort_by cmp key l'.
Proof.
  intros P inj. apply sorted_unique; try apply sort_sorted.
  - eapply perm_trans; [apply sort_perm|]. eapply perm_trans; [exact P|]. apply Permutation_sym, sort_perm.
  - intros x y Hx Hy. apply inj; eapply Permutation_in; try apply sort_perm; assumption.
Qed.

(* the output of sorted() is a function of the multiset of its input
   IF AND ONLY IF the key separates elements *)
Theorem sort_canonical_iff :
  (forall x y : B, key x = key y -> x = y) <->
  (forall l l', Permutation l l' -> sort_by cmp key l = sort_by cmp key l').
Proof.
  split.
  - intros inj l l' P. apply sort_canonical_on; auto.
  - intros H x y E. specialize (H [x; y] [y; x] (perm_swap _ _ _)). cbn in H.
    rewrite E, (gc_refl _ G) in H. now inversion H.
Qed.
End Sort.

(* ------------------------------------------------------------------ *)
(* canonical listings of sets                                           *)
(* ------------------------------------------------------------------ *)
Section SetAdd.
Context {A : Type} (cmp : A -> A -> comparison) (G : good_cmp cmp).
Definition clt (a b : A) : Prop := cmp a b = Lt.

Lemma clt_trans : Transitive clt.
Proof. intros a b c. apply (gc_trans _ G). Qed.

Lemma set_add_in x s z : In z (set_add cmp x s) <-> z = x \/ In z s.
Proof.
  induction s as [|a r IH]; cbn.
  - intuition.
  - destruct (cmp x a) eqn:E; cbn.
    + apply (gc_eq _ G) in E. subst. intuition.
    + intuition.
    + rewrite IH. intuition.
Qed.

Lemma set_add_sorted x s : StronglySorted clt s -> StronglySorted clt (set_add cmp x s).
Proof.
  induction 1 as [|a r Hr IH Ha]; cbn.
  - constructor; constructor.
  - destruct (cmp x a) eqn:E.
    + constructor; assumption.
    + constructor; [constructor; assumption|]. constructor; [exact E|].
      eapply Forall_impl; [|exact Ha]. intros b Hb. eapply clt_trans; eauto.
    + constructor; [exact IH|]. rewrite Forall_forall in *. intros z Hz.
      apply set_add_in in Hz. destruct Hz as [->|Hz]; auto.
      unfold clt. rewrite (gc_anti _ G x a), E. reflexivity.
Qed.

Lemma set_of_acc_sorted l : forall s, StronglySorted clt s -> StronglySorted clt (fold_left (fun s x => set_add cmp x s) l s).
Proof. induction l; cbn; auto using set_add_sorted. Qed.
Lemma set_of_acc_in l : forall s z, In z (fold_left (fun s x => set_add cmp x s) l s) <-> In z l \/ In z s.
Proof.
  induction l as [|a l IH]; cbn; intros s z; [intuition|].
  rewrite IH, set_add_in. intuition.
Qed.
Lemma set_of_sorted l : StronglySorted clt (set_of cmp l).
Proof. apply set_of_acc_sorted. constructor. Qed.
Lemma set_of_in l z : In z (set_of cmp l) <-> In z l.
Proof. unfold set_of. rewrite set_of_acc_in. cbn. intuition. Qed.

Lemma strict_unique : forall s s', StronglySorted clt s -> StronglySorted clt s' ->
  (forall z, In z s <-> In z s') -> s = s'.
Proof.
  assert (irr : forall a, ~ clt a a) by (intros a H; unfold clt in H; rewrite (gc_refl _ G) in H; discriminate).
  induction s as [|x s IH]; intros s' S S' E.
  - destruct s' as [|y s']; auto. exfalso. apply (E y). now left.
  - destruct s' as [|y s']; [exfalso; apply (E x); now left|].
    inversion S as [|? ? Ss Hx]; subst. inversion S' as [|? ? Ss' Hy]; subst.
    rewrite Forall_forall in Hx, Hy.
    assert (x = y).
    { destruct (proj1 (E x) (or_introl eq_refl)) as [->|Ix]; auto.
      destruct (proj2 (E y) (or_introl eq_refl)) as [->|Iy]; auto.
      exfalso. apply (irr x). eapply clt_trans; [apply (Hx _ Iy)|apply (Hy _ Ix)]. }
    subst y. f_equal. apply IH; auto.
    intros z. split; intros Hz.
    + destruct (proj1 (E z) (or_intror Hz)) as [->|]; auto. exfalso. apply (irr z), Hx, Hz.
    + destruct (proj2 (E z) (or_intror Hz)) as [->|]; auto. exfalso. apply (irr z), Hy, Hz.
Qed.

(* a set built from a list does not depend on the order of the list *)
Lemma set_of_perm l l' : Permutation l l' -> set_of cmp l = set_of cmp l'.
Proof.
  intros P. apply strict_unique; try apply set_of_sorted.
  intros z. rewrite !set_of_in. split; apply Permutation_in; [|apply Permutation_sym]; exact P.
Qed.

(* adding to a set in any order: the fold used by associate() *)
Lemma set_fold_ext l : forall s s', StronglySorted clt s -> StronglySorted clt s' -> (forall z, In z s <-> In z s') ->
  fold_left (fun s x => set_add cmp x s) l s = fold_left (fun s x => set_add cmp x s) l s'.
Proof. intros s s' S S' E. rewrite (strict_unique s s' S S' E). reflexivity. Qed.

Lemma ceqb_true a b : ceqb cmp a b = true <-> a = b.
Proof.
  unfold ceqb. split.
  - destruct (cmp a b) eqn:E; try discriminate. intros _. now apply (gc_eq _ G).
  - intros ->. now rewrite (gc_refl _ G).
Qed.
End SetAdd.

(* ------------------------------------------------------------------ *)
(* generic: a fold whose step commutes is permutation invariant        *)
(* ------------------------------------------------------------------ *)
Lemma fold_left_perm {S E} (f : S -> E -> S) :
  (forall s x y, f (f s x) y = f (f s y) x) ->
  forall l l', Permutation l l' -> forall s, fold_left f l s = fold_left f l' s.
Proof.
  intros C l l' P. induction P; intros s; cbn; auto.
  - now rewrite C.
  - now rewrite IHP1.
Qed.

Lemma zsum_perm l l' : Permutation l l' -> zsum l = zsum l'.
Proof. intros P. unfold zsum. apply fold_left_perm; auto. intros; lia. Qed.

Lemma zsum_acc l : forall a, fold_left Z.add l a = a + zsum l.
Proof.
  unfold zsum. induction l as [|x l IH]; intros a; cbn; [lia|].
  rewrite IH, (IH x). lia.
Qed.

Lemma zsum_cons x l : zsum (x :: l) = x + zsum l.
Proof. unfold zsum at 1. cbn. rewrite zsum_acc. lia. Qed.

Lemma perm_filter {A} (f : A -> bool) l l' : Permutation l l' -> Permutation (filter f l) (filter f l').
Proof.
  induction 1; cbn; auto.
  - destruct (f x); auto.
  - destruct (f x), (f y); auto. apply perm_swap.
  - eapply perm_trans; eauto.
Qed.

Lemma perm_flat_map {A B} (f : A -> list B) l l' : Permutation l l' -> Permutation (flat_map f l) (flat_map f l').
Proof.
  induction 1; cbn; auto.
  - now apply Permutation_app_head.
  - rewrite !app_assoc. apply Permutation_app_tail, Permutation_app_comm.
  - eapply perm_trans; eauto.
Qed.

Lemma flat_map_ext' {A B} (f g : A -> list B) l : (forall x, f x = g x) -> flat_map f l = flat_map g l.
Proof. intros E. induction l; cbn; auto. now rewrite E, IHl. Qed.

(* ------------------------------------------------------------------ *)
(* dict[frozenset, int]                                                 *)
(* ------------------------------------------------------------------ *)
Lemma peqb_true a b : peqb a b = true <-> a = b.
Proof. apply ceqb_true, good_pcmp. Qed.
Lemma peqb_refl a : peqb a a = true.
Proof. now apply peqb_true. Qed.
Lemma peqb_false a b : peqb a b = false <-> a <> b.
Proof. rewrite <- peqb_true. destruct (peqb a b); intuition congruence. Qed.

Ltac peq a b := let E := fresh "E" in
  destruct (peqb a b) eqn:E; [apply peqb_true in E|apply peqb_false in E].

Lemma sm_get_add k n sm k' :
  sm_get k' (sm_add k n sm) = if peqb k' k then sm_get k' sm + n else sm_get k' sm.
Proof.
  induction sm as [|[k0 m] r IH]; cbn.
  - destruct (peqb k' k); lia.
  - peq k k0.
    + subst k0. cbn. destruct (peqb k' k); lia.
    + cbn. peq k' k0.
      * subst k0. peq k' k; [congruence|reflexivity].
      * exact IH.
Qed.

Lemma sm_add_keys_in k n sm k' : In k' (map fst (sm_add k n sm)) <-> k' = k \/ In k' (map fst sm).
Proof.
  induction sm as [|[k0 m] r IH]; cbn.
  - intuition.
  - peq k k0; cbn.
    + subst. intuition.
    + rewrite IH. intuition.
Qed.

Lemma sm_add_nodup k n sm : NoDup (map fst sm) -> NoDup (map fst (sm_add k n sm)).
Proof.
  induction sm as [|[k0 m] r IH]; cbn; intros H.
  - constructor; [intros []|constructor].
  - inversion H as [|? ? Hn Hr]; subst. peq k k0; cbn.
    + constructor; assumption.
    + constructor; [|auto]. rewrite sm_add_keys_in. intros [->|]; congruence.
Qed.

Definition csum (k : pset) (c : list (pset * Z)) : Z := zsum (map snd (filter (fun kn => peqb k (fst kn)) c)).

Definition sm_step (sm : setmap) (kn : pset * Z) : setmap := sm_add (fst kn) (snd kn) sm.

Lemma build_get c : forall sm k, sm_get k (fold_left sm_step c sm) = sm_get k sm + csum k c.
Proof.
  induction c as [|[k0 n] c IH]; intros sm k; cbn [fold_left].
  - unfold csum. cbn. unfold zsum. cbn. lia.
  - rewrite IH. unfold sm_step. cbn [fst snd]. rewrite sm_get_add. unfold csum. cbn [filter fst].
    destruct (peqb k k0); cbn [map snd]; rewrite ?zsum_cons; lia.
Qed.
Lemma build_keys c : forall sm k, In k (map fst (fold_left sm_step c sm)) <-> In k (map fst c) \/ In k (map fst sm).
Proof.
  induction c as [|[k0 n] c IH]; intros sm k; cbn [fold_left map fst In]; [intuition|].
  rewrite IH. unfold sm_step. cbn [fst snd]. rewrite sm_add_keys_in. intuition.
Qed.
Lemma build_nodup c : forall sm, NoDup (map fst sm) -> NoDup (map fst (fold_left sm_step c sm)).
Proof. induction c; cbn; intros; auto. apply IHc. now apply sm_add_nodup. Qed.

Lemma sm_build_nodup c : NoDup (map fst (sm_build c)).
Proof. apply build_nodup. constructor. Qed.

Lemma sm_get_notin k sm : ~ In k (map fst sm) -> sm_get k sm = 0.
Proof.
  induction sm as [|[k0 m] r IH]; cbn; intros H; auto.
  peq k k0; [subst; exfalso; auto|]. apply IH. intuition.
Qed.

Lemma sm_in_iff sm : NoDup (map fst sm) -> forall k v, In (k, v) sm <-> In k (map fst sm) /\ sm_get k sm = v.
Proof.
  induction sm as [|[k0 m] r IH]; cbn; intros H k v; [intuition|].
  inversion H as [|? ? Hn Hr]; subst. specialize (IH Hr k v).
  peq k k0.
  - subst k0. split.
    + intros [E|I]; [inversion E; auto|]. exfalso. apply Hn. apply in_map with (f := fst) in I. exact I.
    + intros [_ ->]. now left.
  - split.
    + intros [E0|I]; [inversion E0; congruence|]. apply IH in I. intuition.
    + intros [[->|I] Hv]; [congruence|]. right. apply IH. auto.
Qed.

Lemma sm_perm_get sm sm' : Permutation sm sm' -> NoDup (map fst sm) -> forall k, sm_get k sm = sm_get k sm'.
Proof.
  intros P N k.
  assert (N' : NoDup (map fst sm')) by (eapply Permutation_NoDup; [apply Permutation_map, P|exact N]).
  destruct (in_dec (list_eq_dec (list_eq_dec Z.eq_dec)) k (map fst sm)) as [I|I].
  - assert (In (k, sm_get k sm) sm) as H by (apply sm_in_iff; auto).
    eapply Permutation_in in H; [|exact P]. apply sm_in_iff in H; auto. symmetry. apply H.
  - rewrite (sm_get_notin _ _ I). symmetry. apply sm_get_notin. intros I'. apply I.
    eapply Permutation_in; [apply Permutation_sym, Permutation_map, P|exact I'].
Qed.

Lemma sm_perm_of_get sm sm' :
  NoDup (map fst sm) -> NoDup (map fst sm') ->
  (forall k, In k (map fst sm) <-> In k (map fst sm')) -> (forall k, sm_get k sm = sm_get k sm') ->
  Permutation sm sm'.
Proof.
  intros N N' K V. apply NoDup_Permutation.
  - eapply NoDup_map_inv; exact N.
  - eapply NoDup_map_inv; exact N'.
  - intros [k v]. rewrite (sm_in_iff _ N), (sm_in_iff _ N'), K, V. reflexivity.
Qed.

Lemma csum_perm k c c' : Permutation c c' -> csum k c = csum k c'.
Proof. intros P. unfold csum. apply zsum_perm, Permutation_map, perm_filter, P. Qed.

(* the table built from contributions taken in any order has the same rows *)
Lemma sm_build_perm c c' : Permutation c c' -> Permutation (sm_build c) (sm_build c').
Proof.
  intros P. unfold sm_build. change (fun sm kn => sm_add (fst kn) (snd kn) sm) with sm_step.
  apply sm_perm_of_get.
  - apply build_nodup; constructor.
  - apply build_nodup; constructor.
  - intros k. rewrite !build_keys. cbn. split; intros [H|[]]; left;
      (eapply Permutation_in; [|exact H]); [|apply Permutation_sym]; apply Permutation_map, P.
  - intros k. rewrite !build_get. cbn. now rewrite (csum_perm k c c' P).
Qed.

(* ------------------------------------------------------------------ *)
(* the integer side of the reports is a function of the table           *)
(* ------------------------------------------------------------------ *)
Lemma key_new_inj (x y : pset) : key_new x = key_new y -> x = y.
Proof. unfold key_new. now inversion 1. Qed.

Lemma summary_rows_perm sm sm' : Permutation sm sm' -> NoDup (map fst sm) -> summary_rows sm = summary_rows sm'.
Proof.
  intros P N. unfold summary_rows.
  rewrite (proj1 (sort_canonical_iff kcmp good_kcmp key_new) key_new_inj (map fst sm) (map fst sm') (Permutation_map fst P)).
  apply map_ext. intros s. f_equal. now apply sm_perm_get.
Qed.

Lemma total_perm sm sm' : Permutation sm sm' -> total_sloc sm = total_sloc sm'.
Proof. intros P. apply zsum_perm, Permutation_map, P. Qed.

Lemma platforms_perm sm sm' : Permutation sm sm' -> platforms_of sm = platforms_of sm'.
Proof. intros P. apply (set_of_perm ncmp good_ncmp), perm_flat_map, P. Qed.

Lemma dist_parts_perm sm sm' p q : Permutation sm sm' -> dist_parts sm p q = dist_parts sm' p q.
Proof. intros P. unfold dist_parts. f_equal; apply zsum_perm, Permutation_map, perm_filter, P. Qed.

Lemma cov_parts_perm sm sm' ps : Permutation sm sm' -> cov_parts sm ps = cov_parts sm' ps.
Proof.
  intros P. unfold cov_parts. f_equal; apply zsum_perm, Permutation_map; [apply perm_filter|]; exact P.
Qed.

Lemma table_report_perm sm sm' : Permutation sm sm' -> NoDup (map fst sm) -> table_report sm = table_report sm'.
Proof.
  intros P N. unfold table_report.
  rewrite (summary_rows_perm _ _ P N), (total_perm _ _ P), (platforms_perm _ _ P), (cov_parts_perm _ _ _ P).
  f_equal.
  - apply map_ext. intros p. apply map_ext. intros q. now apply dist_parts_perm.
  - apply map_ext. intros p. now apply cov_parts_perm.
Qed.

(* ------------------------------------------------------------------ *)
(* associate(): the association does not depend on the order of the calls *)
(* ------------------------------------------------------------------ *)
Lemma cond_fold {E} (c : E -> bool) (p : E -> name) l : forall s,
  fold_left (fun s e => if c e then set_add ncmp (p e) s else s) l s =
  fold_left (fun s x => set_add ncmp x s) (map p (filter c l)) s.
Proof. induction l as [|e l IH]; intros s; cbn; auto. destruct (c e); cbn; apply IH. Qed.

Lemma assoc_of_perm events events' f i : Permutation events events' -> assoc_of events f i = assoc_of events' f i.
Proof.
  intros P. unfold assoc_of. rewrite !cond_fold.
  apply (set_of_perm ncmp good_ncmp), Permutation_map, perm_filter, P.
Qed.

Lemma file_contribs_ext events events' f :
  (forall g i, assoc_of events g i = assoc_of events' g i) -> file_contribs events f = file_contribs events' f.
Proof. intros E. unfold file_contribs. apply map_ext. intros iv. now rewrite E. Qed.

(* get_setmap: any order of the associate() calls, any order of the files *)
Lemma get_setmap_perm events events' files files' :
  Permutation events events' -> Permutation files files' ->
  Permutation (get_setmap events files) (get_setmap events' files').
Proof.
  intros Pe Pf. unfold get_setmap.
  rewrite (flat_map_ext' (file_contribs events) (file_contribs events')).
  - apply sm_build_perm, perm_flat_map, perm_filter, Pf.
  - intros f. apply file_contribs_ext. intros; now apply assoc_of_perm.
Qed.

(* CodeBase.__iter__ after the repair *)
Lemma NoDup_map_inj_on {A B} (f : A -> B) l : NoDup (map f l) -> forall x y, In x l -> In y l -> f x = f y -> x = y.
Proof.
  induction l as [|a l IH]; cbn; intros N x y Hx Hy E; [contradiction|].
  inversion N as [|? ? Hn Hr]; subst.
  destruct Hx as [->|Hx], Hy as [->|Hy]; auto.
  - exfalso. apply Hn. rewrite E. now apply in_map.
  - exfalso. apply Hn. rewrite <- E. now apply in_map.
Qed.

Lemma iter_codebase_perm files files' :
  Permutation files files' -> NoDup (map pf_path files) -> iter_codebase files = iter_codebase files'.
Proof.
  intros P N. unfold iter_codebase. apply (sort_canonical_on pcmp good_pcmp); auto.
  now apply NoDup_map_inj_on.
Qed.

Lemma cov_record_ext events events' f :
  (forall g i, assoc_of events g i = assoc_of events' g i) -> cov_record events f = cov_record events' f.
Proof.
  intros E. unfold cov_record.
  assert (H : map (fun iv => (match assoc_of events (pf_real f) (fst iv) with [] => false | _ => true end, snd iv)) (number 0 (pf_nodes f)) =
              map (fun iv => (match assoc_of events' (pf_real f) (fst iv) with [] => false | _ => true end, snd iv)) (number 0 (pf_nodes f))).
  { apply map_ext. intros iv. now rewrite E. }
  now rewrite H.
Qed.

Lemma coverage_export_perm events events' files files' :
  Permutation events events' -> Permutation files files' -> NoDup (map pf_path files) ->
  coverage_export events files = coverage_export events' files'.
Proof.
  intros Pe Pf N. unfold coverage_export. rewrite (iter_codebase_perm _ _ Pf N).
  apply map_ext. intros f. apply cov_record_ext. intros; now apply assoc_of_perm.
Qed.

Lemma file_tables_perm events events' files files' :
  Permutation events events' -> Permutation files files' -> NoDup (map pf_path files) ->
  file_tables events files = file_tables events' files'.
Proof.
  intros Pe Pf N. unfold file_tables. rewrite (iter_codebase_perm _ _ Pf N).
  apply map_ext. intros f. f_equal. f_equal. apply file_contribs_ext. intros; now apply assoc_of_perm.
Qed.

(* the whole integer pipeline: enumeration order of the files and order of the
   associate() calls (platform tables, compile commands) do not matter *)
Lemma pipeline_table_perm events events' files files' :
  Permutation events events' -> Permutation files files' ->
  table_report (get_setmap events (iter_codebase files)) = table_report (get_setmap events' (iter_codebase files')).
Proof.
  intros Pe Pf. apply table_report_perm.
  - apply get_setmap_perm; auto.
    eapply perm_trans; [apply (sort_perm pcmp pf_path)|]. eapply perm_trans; [exact Pf|]. apply Permutation_sym, (sort_perm pcmp pf_path).
  - apply sm_build_nodup.
Qed.

(* ------------------------------------------------------------------ *)
(* the key before the repair is not canonical                           *)
(* ------------------------------------------------------------------ *)
Definition tie_a : pset := [[65]].
Definition tie_b : pset := [[66]].
Lemma summary_rows_old_order_dependent :
  Permutation [(tie_a, 1); (tie_b, 2)] [(tie_b, 2); (tie_a, 1)] /\
  summary_rows_old [(tie_a, 1); (tie_b, 2)] <> summary_rows_old [(tie_b, 2); (tie_a, 1)] /\
  summary_rows [(tie_a, 1); (tie_b, 2)] = summary_rows [(tie_b, 2); (tie_a, 1)].
Proof. split; [apply perm_swap|]. split; [vm_compute; discriminate|vm_compute; reflexivity]. Qed.
