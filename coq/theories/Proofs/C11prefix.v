(* C11: what precedes the first unsafe spelling is always extracted exactly,
   whatever follows it (short of the ambiguous "-i", which is detected before
   any option is processed). *)
From Coq Require Import Ascii String Bool Arith Lia List.
From CBI Require Import Lib.Data Lib.C11_types Gen.C11_tables Model.C11 Spec.C11 Spec.C11safe Spec.C11safe_more
                        Proofs.C11 Proofs.C11exit.
Import ListNotations.
Local Open Scope string_scope.
Local Open Scope list_scope.

Definition lists3 := (list value * list value * list value * list value)%type.
Definition lists_out (o : outcome) : lists3 :=
  match o with Parsed a | ArgError a => (defs a, paths a, syspaths a, files a) | Exit => ([], [], [], []) end.
Definition consl (d : dest) (v : value) (l : lists3) : lists3 :=
  match l with (a, b, s, c) =>
    match d with
    | DDef => (v :: a, b, s, c) | DPath => (a, v :: b, s, c) | DSys => (a, b, v :: s, c) | DFile => (a, b, s, v :: c)
    | DIgn => l
    end
  end.

Lemma lists_out_push d v o : o <> Exit -> lists_out (push d v o) = consl d v (lists_out o).
Proof. intros H. destruct o as [a|a|]; [| |congruence]; destruct a, d; reflexivity. Qed.
Lemma lists_out_push_extra s o : lists_out (push_extra s o) = lists_out o.
Proof. destruct o as [a|a|]; try destruct a; reflexivity. Qed.

Lemma consl_add k v L X :
  consl (odest (opt_of k)) (Some v) (app4v (some4 L) X) = app4v (some4 (add k v L)) X.
Proof. destruct L as [[[d p] s] f], X as [[[d' p'] s'] f'], k; reflexivity. Qed.
Lemma app3v_nil X : app4v (some4 ([], [], [], [])) X = X.
Proof. destruct X as [[[d p] s] f]. reflexivity. Qed.

Definition goodk (argv : list string) (toks : list (string * cls)) : Prop :=
  forall k pos pend, pend_ok pend ->
  exists pos' pend', pend_ok pend' /\
    lists_out (run pos pend (toks ++ k)) = app4v (some4 (scan None argv)) (lists_out (run pos' pend' k)).

Lemma goodk_flag_value t o v r toks :
  parse_optional om t = inr (CO (Some o) None) -> v <> "--" ->
  (forall L X, consl (odest o) (Some v) (app4v (some4 L) X)
               = app4v (some4 (match recognise t with Some (k, _) => add k v L | None => L end)) X) ->
  scan None (t :: v :: r) = match recognise t with Some (k, _) => add k v (scan None r) | None => scan None r end ->
  goodk r toks -> goodk (t :: v :: r) ((t, CO (Some o) None) :: (v, CA) :: toks).
Proof.
  intros Hp Hv Hc Hscan IH k pos pend Hpend.
  assert (E : run pos pend (((t, CO (Some o) None) :: (v, CA) :: toks) ++ k)
              = push (odest o) (value_of v) (run (close_run pos) None (toks ++ k))).
  { cbn [app]. destruct pend as [o'|].
    - rewrite run_pend_other by (assumption || discriminate). reflexivity.
    - reflexivity. }
  rewrite E, lists_out_push by apply run_no_exit.
  destruct (IH k (close_run pos) None I) as (pos' & pend' & Hok & Hex).
  exists pos', pend'. split; [assumption|]. rewrite Hex, value_of_some by assumption. rewrite Hc, Hscan. reflexivity.
Qed.

Lemma run_safe_k : forall n argv, length argv <= n -> safe argv = true ->
  exists toks,
    (forall l2 toks2, classify om false l2 = inr toks2 -> classify om false (argv ++ l2) = inr (toks ++ toks2))
    /\ goodk argv toks.
Proof.
  induction n as [|n IHn]; intros argv Hlen Hs.
  { destruct argv; [|cbn in Hlen; lia]. exists []. split; [intros; assumption|].
    intros k pos pend Hp. exists pos, pend. split; [assumption|]. cbn [app scan]. now rewrite app3v_nil. }
  destruct argv as [|t r].
  { exists []. split; [intros; assumption|].
    intros k pos pend Hp. exists pos, pend. split; [assumption|]. cbn [app scan]. now rewrite app3v_nil. }
  cbn [safe] in Hs. apply andb_prop in Hs. destruct Hs as [Ht Hs].
  assert (Hdd : String.eqb t "--" = false).
  { unfold tok_safe in Ht. rewrite negb_true_iff, !orb_false_iff in Ht. tauto. }
  destruct (needs_value t) eqn:Hnv.
  - destruct r as [|v r]; [discriminate|]. apply andb_prop in Hs. destruct Hs as [Hv Hs].
    apply negb_true_iff in Hv.
    destruct (IHn r) as (toks & Hc & Hg); [cbn in Hlen; lia|assumption|].
    assert (Hcv : forall l2 toks2, classify om false l2 = inr toks2 ->
                  classify om false ((v :: r) ++ l2) = inr (((v, CA) :: toks) ++ toks2)).
    { intros l2 toks2 H2. cbn [app]. apply classify_cons;
        [now apply not_dashed_not_dd| apply po_plain; now rewrite <- dashed_starts|now apply Hc]. }
    assert (Hvd : v <> "--") by (intros ->; discriminate).
    pose proof (recognise_plain v Hv) as Hrv.
    unfold needs_value in Hnv. rewrite !orb_true_iff in Hnv.
    destruct Hnv as [[[[E|E]|E]|E]|E]; apply String.eqb_eq in E; subst t.
    + exists (("-D", CO (Some oD) None) :: (v, CA) :: toks).
      split; [intros l2 toks2 H2; cbn [app]; apply classify_cons; auto; now apply Hcv|].
      apply goodk_flag_value; auto. intros L X. apply (consl_add KD).
    + exists (("-I", CO (Some oP) None) :: (v, CA) :: toks).
      split; [intros l2 toks2 H2; cbn [app]; apply classify_cons; auto; now apply Hcv|].
      apply goodk_flag_value; auto. intros L X. apply (consl_add KP).
    + exists (("-isystem", CO (Some oS) None) :: (v, CA) :: toks).
      split; [intros l2 toks2 H2; cbn [app]; apply classify_cons; auto; now apply Hcv|].
      apply goodk_flag_value; auto. intros L X. apply (consl_add KS).
    + exists (("-include", CO (Some oF) None) :: (v, CA) :: toks).
      split; [intros l2 toks2 H2; cbn [app]; apply classify_cons; auto; now apply Hcv|].
      apply goodk_flag_value; auto. intros L X. apply (consl_add KF).
    + exists (("-o", CO (Some oo) None) :: (v, CA) :: toks).
      split; [intros l2 toks2 H2; cbn [app]; apply classify_cons; auto; now apply Hcv|].
      apply goodk_flag_value; auto.
      * intros L X. change (recognise "-o") with (@None (kind * string)). cbv iota.
        destruct (app4v (some4 L) X) as [[[a b] s] c]. reflexivity.
      * change (scan None ("-o" :: v :: r)) with (scan None (v :: r)). cbn [scan]. now rewrite Hrv.
  - destruct (IHn r) as (toks & Hc & Hg); [cbn in Hlen; lia|assumption|].
    pose proof (po_safe t Ht) as Hspec. unfold tok_spec in Hspec.
    destruct (recognise t) as [[kd v]|] eqn:R.
    + destruct v as [|c0 v].
      { apply recognise_bare in R. congruence. }
      destruct Hspec as [Hp Hne].
      exists ((t, CO (Some (opt_of kd)) (Some (String c0 v))) :: toks).
      split; [intros l2 toks2 H2; cbn [app]; apply classify_cons; auto|].
      intros k pos pend Hpend.
      assert (E : run pos pend (((t, CO (Some (opt_of kd)) (Some (String c0 v))) :: toks) ++ k)
                  = push (odest (opt_of kd)) (value_of (String c0 v)) (run (close_run pos) None (toks ++ k))).
      { cbn [app]. destruct pend as [o'|]; [rewrite run_pend_other by (assumption || discriminate)|]; reflexivity. }
      rewrite E, lists_out_push by apply run_no_exit.
      destruct (Hg k (close_run pos) None I) as (pos' & pend' & Hok & Hex).
      exists pos', pend'. split; [assumption|].
      rewrite Hex, value_of_some by assumption. rewrite consl_add. cbn [scan]. rewrite R. reflexivity.
    + destruct Hspec as (c & Hp & Hh).
      exists ((t, c) :: toks).
      split; [intros l2 toks2 H2; cbn [app]; apply classify_cons; auto|].
      assert (Hsc : scan None (t :: r) = scan None r) by (cbn [scan]; now rewrite R).
      intros k pos pend Hpend. rewrite Hsc. cbn [app].
      destruct c as [| |[o|] e].
      * destruct pend as [o'|].
        { rewrite run_pend_arg by assumption. apply Hg. exact I. }
        cbn [run]. destruct pos.
        -- apply Hg. exact I.
        -- apply Hg. exact I.
        -- rewrite lists_out_push_extra. apply Hg. exact I.
      * destruct Hh.
      * assert (E : run pos pend ((t, CO (Some o) e) :: toks ++ k) = run pos None ((t, CO (Some o) e) :: toks ++ k)).
        { destruct pend as [o'|]; [rewrite run_pend_other by (assumption || discriminate)|]; reflexivity. }
        rewrite E. cbn [run]. destruct e as [v|].
        -- cbn in Hh. rewrite Hh, push_ign. apply Hg. exact I.
        -- destruct Hh as [Hd [Hn|Ho]].
           ++ apply Hg. split; assumption.
           ++ subst t. discriminate.
      * assert (E : run pos pend ((t, CO None e) :: toks ++ k) = run pos None ((t, CO None e) :: toks ++ k)).
        { destruct pend as [o'|]; [rewrite run_pend_other by (assumption || discriminate)|]; reflexivity. }
        rewrite E. cbn [run]. rewrite lists_out_push_extra. apply Hg. exact I.
Qed.

Lemma lists_of_out argv :
  lists4_of (parse_args argv) = Some (lists_out (parse_known_args c11_options c11_error_raises argv)).
Proof.
  unfold parse_args, parse_args_with. rewrite caught_eq, raises_eq.
  destruct (parse_known_args c11_options true argv) as [a|a|] eqn:E; try reflexivity.
  exfalso. unfold parse_known_args in E. rewrite om_eq in E.
  destruct (classify om false argv) as [[]|toks]; [discriminate|]. revert E. apply run_no_exit.
Qed.

(* everything in a safe prefix is kept, in order, whatever follows *)
Theorem safe_prefix_kept l1 l2 :
  safe l1 = true -> ~ In "-i" l2 ->
  exists rest, lists4_of (parse_args (l1 ++ l2)) = Some (app4v (some4 (scan4_S l1)) rest).
Proof.
  intros Hs Hn.
  destruct (run_safe_k (length l1) l1 (le_n _) Hs) as (toks & Hc & Hg).
  destruct (classify_total l2 Hn false) as [toks2 H2].
  destruct (Hg toks2 PAvail None I) as (pos' & pend' & _ & Hex).
  exists (lists_out (run pos' pend' toks2)).
  rewrite lists_of_out. unfold parse_known_args. rewrite om_eq, (Hc l2 toks2 H2). rewrite Hex. reflexivity.
Qed.

(* ---------- the parser state between two arguments does not matter for the three lists ---------- *)
Definition same_or_idle (p p' : option optdef) : Prop := p = p' \/ (pend_ok p /\ pend_ok p').

Lemma lists_out_push_run d v pos pend k :
  lists_out (push d v (run pos pend k)) = consl d v (lists_out (run pos pend k)).
Proof. apply lists_out_push, run_no_exit. Qed.

Lemma run_irrelevant k : forall pos pos' pend pend',
  same_or_idle pend pend' -> lists_out (run pos pend k) = lists_out (run pos' pend' k).
Proof.
  induction k as [|[s c] r IH]; intros pos pos' pend pend' HR.
  - destruct HR as [<-|[H1 H2]]; [reflexivity|].
    destruct pend as [o|], pend' as [o'|]; cbn [run];
      cbn [pend_ok] in H1, H2;
      repeat match goal with H : _ /\ onargs _ = NOpt |- _ => let E := fresh in destruct H as [_ E]; rewrite E end;
      reflexivity.
  - (* the step when no value is awaited, from any two positional states *)
    assert (Hcont : forall p p',
      lists_out (match c with
        | CA | CDash => match p with PAvail | PActive => run PActive None r | PDone => push_extra s (run PDone None r) end
        | CO None _ => push_extra s (run (close_run p) None r)
        | CO (Some o) (Some v) => push (odest o) (value_of v) (run (close_run p) None r)
        | CO (Some o) None => run (close_run p) (Some o) r
        end)
      = lists_out (match c with
        | CA | CDash => match p' with PAvail | PActive => run PActive None r | PDone => push_extra s (run PDone None r) end
        | CO None _ => push_extra s (run (close_run p') None r)
        | CO (Some o) (Some v) => push (odest o) (value_of v) (run (close_run p') None r)
        | CO (Some o) None => run (close_run p') (Some o) r
        end)).
    { intros p p'. destruct c as [| |[o|] [v|]].
      - destruct p, p'; rewrite ?lists_out_push_extra; apply IH; now left.
      - destruct p, p'; rewrite ?lists_out_push_extra; apply IH; now left.
      - rewrite !lists_out_push_run. f_equal. apply IH; now left.
      - apply IH; now left.
      - rewrite !lists_out_push_extra. apply IH; now left.
      - rewrite !lists_out_push_extra. apply IH; now left. }
    (* an idle awaited option behaves like none, up to the lists *)
    assert (Hidle : forall p o, pend_ok (Some o) ->
      lists_out (run p (Some o) ((s, c) :: r)) = lists_out (run p None ((s, c) :: r))).
    { intros p o Hok. destruct c as [| |a e].
      - rewrite run_pend_arg by assumption. cbn [run].
        destruct p; rewrite ?lists_out_push_extra; apply IH; now left.
      - rewrite run_pend_other by (assumption || discriminate). reflexivity.
      - rewrite run_pend_other by (assumption || discriminate). reflexivity. }
    destruct HR as [<-|[H1 H2]].
    + destruct pend as [o|]; [|cbn [run]; apply Hcont].
      cbn [run]. destruct c as [| |a e].
      * rewrite !lists_out_push_run. f_equal. apply IH; now left.
      * destruct (onargs o); [reflexivity|apply (Hcont pos pos')].
      * destruct (onargs o); [reflexivity|apply (Hcont pos pos')].
    + destruct pend as [o|], pend' as [o'|]; rewrite ?Hidle by assumption; cbn [run]; apply Hcont.
Qed.

(* everything in a safe prefix is kept, in order, and the rest contributes what it contributes on its own *)
Theorem safe_prefix_compose l1 l2 :
  safe l1 = true -> ~ In "-i" l2 ->
  exists rest, lists4_of (parse_args l2) = Some rest /\
               lists4_of (parse_args (l1 ++ l2)) = Some (app4v (some4 (scan4_S l1)) rest).
Proof.
  intros Hs Hn.
  destruct (run_safe_k (length l1) l1 (le_n _) Hs) as (toks & Hc & Hg).
  destruct (classify_total l2 Hn false) as [toks2 H2].
  destruct (Hg toks2 PAvail None I) as (pos' & pend' & Hok & Hex).
  exists (lists_out (run PAvail None toks2)). split.
  - rewrite lists_of_out. unfold parse_known_args. now rewrite om_eq, H2.
  - rewrite lists_of_out. unfold parse_known_args. rewrite om_eq, (Hc l2 toks2 H2), Hex.
    do 2 f_equal. apply run_irrelevant. right. split; [assumption|exact I].
Qed.

Lemma safe_closed l : safe l = true -> closed l = true.
Proof.
  assert (H : forall n l, length l <= n -> safe l = true -> closed l = true).
  { induction n as [|n IH]; intros l0 Hlen Hs; (destruct l0 as [|t r]; [reflexivity|]); [cbn in Hlen; lia|].
    cbn [safe closed] in *. apply andb_prop in Hs. destruct Hs as [_ Hs].
    destruct (needs_value t).
    - destruct r as [|v r]; [discriminate|]. apply andb_prop in Hs. destruct Hs as [_ Hs].
      apply IH; [cbn in Hlen; lia|assumption].
    - apply IH; [cbn in Hlen; lia|assumption]. }
  apply (H (length l) l (le_n _)).
Qed.

(* the configuration's lists are a function of the per-destination lists *)
Lemma lists_of_flat r r' : lists4_of r = lists4_of r' -> lists_of r = lists_of r'.
Proof.
  destruct r as [a|a| |], r' as [a'|a'| |]; cbn; intros H; try discriminate; try reflexivity;
    injection H as -> -> -> ->; reflexivity.
Qed.

(* a catalogue entry after a safe prefix is neutral whatever follows *)
Theorem neutral_any_tail l1 e l2 :
  safe l1 = true -> In e c11_catalogue -> ~ In "-i" l2 ->
  lists_of (parse_args (l1 ++ e ++ l2)) = lists_of (parse_args (l1 ++ l2)).
Proof.
  intros Hs Hin Hn. apply lists_of_flat.
  pose proof catalogue_ok as Hcat. rewrite forallb_forall in Hcat. specialize (Hcat e Hin).
  unfold entry_ok in Hcat. apply andb_prop in Hcat. destruct Hcat as [Hcat Hu].
  apply andb_prop in Hcat. destruct Hcat as [Hse Hce].
  assert (Hs' : safe (l1 ++ e) = true).
  { rewrite safe_app by now apply safe_closed. now rewrite Hs, Hse. }
  destruct (safe_prefix_compose l1 l2 Hs Hn) as (rest & Hr & ->).
  rewrite app_assoc.
  destruct (safe_prefix_compose (l1 ++ e) l2 Hs' Hn) as (rest' & Hr' & ->).
  rewrite Hr in Hr'. injection Hr' as <-.
  do 3 f_equal.
  rewrite <- (app_nil_r e) at 1. rewrite <- (app_nil_r l1) at 2.
  apply scan4_neutral; [|assumption].
  apply closed_safe_complete; [now apply safe_closed|assumption].
Qed.
