(* C09 — enumeration against the specification's member set. *)
From Coq Require Import Bool Arith Ascii String List Lia.
From CBI Require Import Lib.Res Lib.Data Lib.C09_glob Model.C09 Spec.C09 Proofs.C09p Proofs.C09 Proofs.C09f.
Import ListNotations.

(* every entry name is an ordinary name (not empty, "." or "..") *)
Definition names_plain (fs : fsys) : Prop := forall p k, In (p, k) fs -> forallb plain p = true.

Lemma clean_of_prefixes fs : forall r,
  (forall a b, r = a ++ b -> a <> [] -> notlink fs a = true) -> forallb plain r = true ->
  clean fs (rev r).
Proof.
  induction r as [|c r IH] using rev_ind; intros Hn Hp; [exact I|].
  rewrite rev_app_distr. cbn [rev app clean]. rewrite forallb_app in Hp. apply andb_true_iff in Hp.
  destruct Hp as (Hpr & Hpc). cbn in Hpc. rewrite andb_true_r in Hpc.
  split; [assumption|]. split.
  - rewrite rev_involutive. apply (Hn (r ++ [c]) []); [rewrite app_nil_r; reflexivity|destruct r; discriminate].
  - apply IH; [|assumption]. intros a b E Ha. apply (Hn a (b ++ [c])); [rewrite E, app_assoc; reflexivity|assumption].
Qed.

Lemma entry_clean fs r k :
  wf fs -> names_plain fs -> In (r, k) fs -> lookup fs r = Some k ->
  (match k with KLink _ => False | _ => True end) -> clean fs (rev r).
Proof.
  intros W Np Hin Hl Hk. apply clean_of_prefixes; [|apply (Np r k Hin)].
  intros a b E Ha. unfold notlink. destruct b as [|x b].
  - rewrite app_nil_r in E. subst a. rewrite Hl. destruct k; tauto.
  - rewrite (prefix_dirs fs W (x :: b) a k); [reflexivity| rewrite <- E; assumption | discriminate].
Qed.

Lemma lookup_In fs r k : lookup fs r = Some k -> r <> [] -> In (r, k) fs.
Proof. intros H Hr. apply assoc_path_In. destruct r; [contradiction|exact H]. Qed.

(* For every well-formed file system, every code base whose directories are
   directories and whose lines pathspec accepts, when no regular file falls in one
   of the two known classes: (1) every member file of the specification is yielded
   by the iteration under its real path, and (2) whatever the iteration yields
   resolves to a member file of the specification. *)
Theorem enumeration_partial fs cb ps out mem :
  wf fs -> names_plain fs ->
  compile false (cb_lines cb) = CPats ps -> notail ps ->
  (forall d, In d (cb_roots cb) -> lookup fs d = Some KDir) ->
  (forall r root, lookup fs r = Some KFile -> find_root (cb_roots cb) r = Some root ->
     parent_reinclude ps (rel_comps root r) = false /\ dir_reneg ps (rel_comps root r) = false) ->
  iter fs cb = Ok out -> members fs cb = Ok mem ->
  (forall r, In r mem -> In r out) /\
  (forall p, In p out -> exists r, resolve_comps fs [] p = Ok r /\ In r mem).
Proof.
  intros W Np Hc NT Hd Hg Hit Hmem.
  assert (forall r, lookup fs r = Some KFile -> contains_resolved fs cb r = member_resolved fs cb r) as Heq.
  { intros r Hl. apply (contains_eq_member fs cb r ps Hc (compile_indep _ _ Hc) NT Hd).
    intros root Hf. apply (Hg r root Hl Hf). }
  unfold members in Hmem. pose proof (filter_res_In _ _ _ Hmem) as Hm.
  split.
  - intros r Hr. apply Hm in Hr. destruct Hr as (Hin & Hmr).
    apply in_map_iff in Hin. destruct Hin as ((r', k) & E & Hin). cbn in E. subst r'.
    apply filter_In in Hin. destruct Hin as (Hin & Hk). cbn in Hk. destruct k; try discriminate.
    assert (lookup fs r = Some KFile) as Hl.
    { unfold member_resolved in Hmr. destruct (lookup fs r) as [[| |]|]; try discriminate. reflexivity. }
    assert (clean fs (rev r)) as Hcl by (apply (entry_clean fs r KFile W Np Hin Hl I)).
    assert (contains_abs fs cb r = Ok true) as Ha.
    { unfold contains_abs. rewrite (resolve_comps_idem fs r Hcl). cbn [bind]. rewrite (Heq r Hl). exact Hmr. }
    apply (iter_exact _ _ _ Hit). split; [|exact Ha].
    rewrite <- (Heq r Hl) in Hmr. unfold contains_resolved in Hmr. rewrite Hl in Hmr.
    destruct (negb (is_source_file r)); [discriminate|].
    destruct (find_root (cb_roots cb) r) as [root|] eqn:Hf; [|discriminate].
    destruct (find_root_prefix _ _ _ Hf) as (Hp & Hroot).
    apply in_flat_map. exists root. split; [assumption|].
    apply (rglob_reaches fs root r KFile W Hl Hp).
    pose proof (is_prefix_length _ _ Hp). destruct (Nat.eq_dec (length root) (length r)) as [E|]; [|lia].
    assert (root = r) by (apply is_prefix_same_length; assumption). subst root.
    rewrite (Hd r Hroot) in Hl. discriminate.
  - intros p Hp. apply (iter_exact _ _ _ Hit) in Hp. destruct Hp as (_ & Ha).
    unfold contains_abs in Ha. destruct (resolve_comps fs [] p) as [r|e] eqn:Hr; [|discriminate].
    cbn [bind] in Ha. exists r. split; [reflexivity|].
    assert (lookup fs r = Some KFile) as Hl.
    { unfold contains_resolved in Ha. destruct (lookup fs r) as [[| |]|]; try discriminate. reflexivity. }
    apply Hm. split.
    + apply in_map_iff. exists (r, KFile). split; [reflexivity|]. apply filter_In. split; [|reflexivity].
      apply lookup_In; [assumption|]. intros ->. cbn in Hl. discriminate.
    + rewrite <- (Heq r Hl). exact Ha.
Qed.

Definition names_plainb (fs : fsys) : bool := forallb (fun e => forallb plain (fst e)) fs.
Lemma names_plainb_ok fs : names_plainb fs = true -> names_plain fs.
Proof.
  intros H p k Hin. unfold names_plainb in H. rewrite forallb_forall in H. exact (H (p, k) Hin).
Qed.

(* ---------- each path is yielded at most once ---------- *)
Lemma NoDup_app_intro {A} (l1 l2 : list A) :
  NoDup l1 -> NoDup l2 -> (forall x, In x l1 -> ~ In x l2) -> NoDup (l1 ++ l2).
Proof.
  induction l1 as [|a l1 IH]; intros H1 H2 Hd; [assumption|]. cbn. inversion H1; subst. constructor.
  - intros Hin. apply in_app_or in Hin. destruct Hin as [Hin|Hin]; [contradiction|].
    apply (Hd a (or_introl eq_refl) Hin).
  - apply IH; [assumption|assumption|]. intros x Hx. apply Hd. right. assumption.
Qed.

Lemma NoDup_map_filter {A B} (g : A -> B) (P : A -> bool) (l : list A) :
  NoDup (map g l) -> NoDup (map g (filter P l)).
Proof.
  induction l as [|a l IH]; intros H; [constructor|]. cbn in *. inversion H; subst.
  destruct (P a); [|auto]. cbn. constructor; [|auto].
  intros Hin. apply in_map_iff in Hin. destruct Hin as (x & E & Hx). apply filter_In in Hx.
  apply H2. rewrite <- E. apply in_map. apply Hx.
Qed.

Lemma filter_res_NoDup f (l out : list path) : NoDup l -> filter_res f l = Ok out -> NoDup out.
Proof.
  revert out. induction l as [|x l IH]; intros out Hn; cbn.
  - intros [= <-]. constructor.
  - destruct (f x) as [b|e]; [|discriminate]. destruct (filter_res f l) as [o|e] eqn:Hr; [|discriminate].
    intros [= <-]. inversion Hn; subst. specialize (IH o H2 eq_refl). destruct b; [|assumption].
    constructor; [|assumption]. intros Hin. apply (filter_res_In _ _ _ Hr) in Hin. tauto.
Qed.

Lemma prefixes_comparable a b p : is_prefix a p = true -> is_prefix b p = true -> is_prefix a b = true \/ is_prefix b a = true.
Proof.
  revert b p. induction a as [|x a IH]; intros b p Ha Hb; [left; reflexivity|].
  destruct b as [|y b]; [right; reflexivity|]. destruct p as [|z p]; [discriminate|].
  cbn in Ha, Hb. apply andb_true_iff in Ha. apply andb_true_iff in Hb. destruct Ha as (Hx & Ha). destruct Hb as (Hy & Hb).
  apply String.eqb_eq in Hx. apply String.eqb_eq in Hy. subst. cbn. rewrite String.eqb_refl. cbn.
  apply (IH b p Ha Hb).
Qed.

Lemma rglob_prefix fs d p : In p (rglob fs d) -> is_prefix d p = true.
Proof.
  unfold rglob. intros H. apply in_map_iff in H. destruct H as ((q, k) & E & Hin). cbn in E. subst q.
  apply filter_In in Hin. destruct Hin as (_ & Hb). cbn in Hb. unfold below in Hb.
  apply andb_true_iff in Hb. destruct Hb as (Hb & _). apply andb_true_iff in Hb. apply Hb.
Qed.

Lemma disjoint_from_spec d l e : disjoint_from d l = true -> In e l -> is_prefix d e = false /\ is_prefix e d = false.
Proof.
  induction l as [|x l IH]; [intros _ []|]. cbn. intros H [<-|Hin].
  - apply andb_true_iff in H. destruct H as (H & _). apply andb_true_iff in H. destruct H as (H1 & H2).
    apply negb_true_iff in H1. apply negb_true_iff in H2. auto.
  - apply andb_true_iff in H. apply IH; tauto.
Qed.

Theorem iter_nodup fs cb out :
  NoDup (map fst fs) -> roots_ok fs (cb_roots cb) = true -> iter fs cb = Ok out -> NoDup out.
Proof.
  intros Hfs Hr Hit. unfold iter in Hit. apply (filter_res_NoDup _ _ _) in Hit; [assumption|].
  clear Hit. induction (cb_roots cb) as [|d l IH]; [constructor|]. cbn [flat_map].
  cbn [roots_ok] in Hr. apply andb_true_iff in Hr. destruct Hr as (Hr & Hl). apply andb_true_iff in Hr.
  destruct Hr as (_ & Hd). apply NoDup_app_intro.
  - unfold rglob. apply NoDup_map_filter. assumption.
  - apply IH. assumption.
  - intros p Hp Hq. apply in_flat_map in Hq. destruct Hq as (e & He & Hpe).
    apply rglob_prefix in Hp. apply rglob_prefix in Hpe.
    destruct (disjoint_from_spec d l e Hd He) as (N1 & N2).
    destruct (prefixes_comparable d e p Hp Hpe); congruence.
Qed.
