(* C17 — part b: the simulation relation between the abstract cleaner and the
   reference scanner, the two finite tables, and the per-line lemma. *)
From Coq Require Import NArith Bool Ascii String List.
From CBI Require Import Lib.Res Model.C17 Spec.C17 Proofs.C17a.
Import ListNotations.

Definition fmode_eqb (a b : fmode) : bool :=
  match a, b with
  | FTop, FTop | FDq, FDq | FSq, FSq | FEsc, FEsc | FVc, FVc | FCfs, FCfs => true
  | _, _ => false
  end.
Fixpoint stk_eqb (a b : list fmode) : bool :=
  match a, b with
  | [], [] => true
  | x :: a', y :: b' => fmode_eqb x y && stk_eqb a' b'
  | _, _ => false
  end.
Lemma fmode_eqb_eq a b : fmode_eqb a b = true -> a = b.
Proof. destruct a, b; cbn; congruence. Qed.
Lemma stk_eqb_eq a : forall b, stk_eqb a b = true -> a = b.
Proof.
  induction a as [|x a IH]; intros [|y b] H; cbn in H; try discriminate; [reflexivity|].
  apply andb_true_iff in H. destruct H as [H1 H2]. f_equal; [apply fmode_eqb_eq; exact H1|apply IH; exact H2].
Qed.
Lemma stk_eqb_refl a : stk_eqb a a = true.
Proof. induction a as [|x a IH]; [reflexivity|]. cbn. rewrite IH. destruct x; reflexivity. Qed.

(* ---------- the relation ---------- *)
Definition stack_of (k : sctx) : list fmode :=
  match k with K0 => [FTop] | KT => [FCfs; FTop] | KS => [FCfs; FSq; FTop] | KD => [FCfs; FDq; FTop] end.
Definition stack_x (x : sx) : list fmode :=
  match x with XTop => [FTop] | XLit QS => [FSq; FTop] | XLit QD => [FDq; FTop] end.
Definition stacks_cmt (k : sctx) : list (list fmode) :=
  match k with K0 => [[FTop]] | KT => [[FVc; FTop]; [FCfs; FTop]] | _ => [stack_of k] end.

Definition stacks_for (q : sq) : list (list fmode) :=
  match q with
  | SBol k => [stack_of k]
  | SIn x => [stack_x x]
  | SAmp x => [FVc :: stack_x x]
  | SBang k | SSent k | SCmt k => stacks_cmt k
  | SDir _ _ => []
  end.
Definition lm_for (q : sq) : lmode unit :=
  match q with SBang _ => LDir tt | SSent _ => LCopy | SCmt _ => LSkip | _ => LNorm end.
Definition lm_eqb (a b : lmode unit) : bool :=
  match a, b with
  | LNorm, LNorm | LDir _, LDir _ | LCopy, LCopy | LSkip, LSkip | LErr, LErr => true
  | _, _ => false
  end.
Lemma lm_eqb_eq a b : lm_eqb a b = true -> a = b.
Proof. destruct a as [|[]| | |], b as [|[]| | |]; cbn; congruence. Qed.

(* mark of the scanner vs class of the cleaner's buffer *)
Definition mb0 (m : mark) (b : bcls) : bool :=
  match m, b with
  | mU, (bE | bT) => true
  | mB, (bN | bO) => true
  | mM, bO => true
  | _, _ => false
  end.
(* a sentinel comment has always marked its line *)
Definition mb (q : sq) (m : mark) (b : bcls) : bool :=
  mb0 m b && match q, m with SSent _, (mU | mB) => false | _, _ => true end.

Definition rel (a : afstate) (s : sst) : bool :=
  existsb (stk_eqb (fstk a)) (stacks_for (fst s)) && lm_eqb (flm a) (lm_for (fst s)) && mb (fst s) (snd s) (fbuf a).

(* guard used by the tables: the scanner's own guard, and the # that makes a
   directive line is not seen by the Fortran cleaner at all (the C pass takes it) *)
Definition tguard (s : sst) (k : cls) : bool :=
  cguard s k && negb (match fst s, k with SBol _, kHash => true | _, _ => false end).

Definition allK : list sctx := [K0; KT; KS; KD].
Definition allX : list sx := [XTop; XLit QS; XLit QD].
Definition allD : list dsub := [DTxt; DSl; DLc; DBlk; DBlkSt; DDq; DSq; DEscT; DEscD; DEscS].
Definition allQ : list sq :=
  map SBol allK ++ map SIn allX ++ map SAmp allX ++ map SBang allK ++ map SSent allK ++ map SCmt allK ++
  flat_map (fun k => map (SDir k) allD) allK.
Definition allM : list mark := [mU; mB; mM].
Definition allB : list bcls := [bE; bE'; bT; bN; bH0; bH1; bO].
Definition allC : list cls := [kSp; kWs; kHash; kBs; kSl; kSt; kDq; kSq; kBang; kAmp; kDol; kAl; kOt].

Definition amk (st : list fmode) (b : bcls) (q : sq) : afstate := {| fstk := st; fbuf := b; fvc := tt; flm := lm_for q |}.

Definition step_ok (q : sq) (m : mark) (st : list fmode) (b : bcls) (k : cls) : bool :=
  implb (mb q m b && tguard (q, m) k) (rel (astep (amk st b q) k " "%char) (sstep (q, m) k)).

Lemma step_table :
  forallb (fun q => forallb (fun m => forallb (fun st => forallb (fun b => forallb (step_ok q m st b) allC) allB)
                                        (stacks_for q)) allM) allQ = true.
Proof. vm_compute. reflexivity. Qed.


Definition eol_ok (q : sq) (m : mark) (st : list fmode) (b : bcls) : bool :=
  implb (mb q m b && eguard (q, m))
    (let a := aeol (amk st b q) in
     stk_eqb (fstk a) (stack_of (seol q)) && lm_eqb (flm a) LNorm &&
     Bool.eqb (cat_eqb (a_cat b) BLANK) (negb (is_mM m)) && negb (cat_eqb (a_cat b) CPPDIR)).

Lemma eol_table :
  forallb (fun q => forallb (fun m => forallb (fun st => forallb (eol_ok q m st) allB) (stacks_for q)) allM) allQ = true.
Proof. vm_compute. reflexivity. Qed.

(* ---------- lifting ---------- *)
Lemma in_allQ q : In q allQ.
Proof. destruct q as [[]|[|[]]|[|[]]|[]|[]|[]|[] []]; cbn; repeat (first [left; reflexivity | right]). Qed.
Lemma in_allM m : In m allM. Proof. destruct m; cbn; tauto. Qed.
Lemma in_allB b : In b allB. Proof. destruct b; cbn; tauto. Qed.
Lemma in_allC k : In k allC. Proof. destruct k; cbn; repeat (first [left; reflexivity | right]). Qed.

Lemma rel_inv a q m : rel a (q, m) = true ->
  exists st, In st (stacks_for q) /\ a = amk st (fbuf a) q /\ mb q m (fbuf a) = true.
Proof.
  unfold rel. cbn [fst snd]. intros H. apply andb_true_iff in H. destruct H as [H H3].
  apply andb_true_iff in H. destruct H as [H1 H2].
  apply existsb_exists in H1. destruct H1 as [st [Hin He]]. apply stk_eqb_eq in He. apply lm_eqb_eq in H2.
  exists st. split; [exact Hin|]. split; [|exact H3].
  destruct a as [st' b [] lm]. cbn in *. subst. reflexivity.
Qed.

Lemma step_sim a s k c : rel a s = true -> tguard s k = true -> rel (astep a k c) (sstep s k) = true.
Proof.
  destruct s as [q m]. intros HR HG. destruct (rel_inv a q m HR) as [st [Hin [Ea Hmb]]].
  pose proof step_table as T. rewrite forallb_forall in T. specialize (T q (in_allQ q)).
  rewrite forallb_forall in T. specialize (T m (in_allM m)).
  rewrite forallb_forall in T. specialize (T st Hin).
  rewrite forallb_forall in T. specialize (T (fbuf a) (in_allB _)).
  rewrite forallb_forall in T. specialize (T k (in_allC k)).
  unfold step_ok in T. rewrite Hmb, HG in T. cbn [andb implb] in T.
  rewrite Ea. exact T.
Qed.

Definition sfold (s : sst) (cs : list ascii) : sst := sfold0 s cs.

Fixpoint tguards (s : sst) (cs : list ascii) : bool :=
  match cs with
  | [] => true
  | c :: r => tguard s (cls_of c) && tguards (sstep s (cls_of c)) r
  end.

Lemma afold_sim cs : forall a s, rel a s = true -> tguards s cs = true -> rel (afold a cs) (sfold s cs) = true.
Proof.
  induction cs as [|c cs IH]; intros a s HR HG; [exact HR|].
  cbn [tguards] in HG. apply andb_true_iff in HG. destruct HG as [G1 G2].
  cbn [afold sfold fold_left]. apply IH; [apply step_sim; assumption|exact G2].
Qed.

Lemma eol_sim a q m : rel a (q, m) = true -> eguard (q, m) = true ->
  fstk (aeol a) = stack_of (seol q) /\ flm (aeol a) = LNorm /\
  cat_eqb (a_cat (fbuf a)) BLANK = negb (is_mM m) /\ cat_eqb (a_cat (fbuf a)) CPPDIR = false.
Proof.
  intros HR HG. destruct (rel_inv a q m HR) as [st [Hin [Ea Hmb]]].
  pose proof eol_table as T. rewrite forallb_forall in T. specialize (T q (in_allQ q)).
  rewrite forallb_forall in T. specialize (T m (in_allM m)).
  rewrite forallb_forall in T. specialize (T st Hin).
  rewrite forallb_forall in T. specialize (T (fbuf a) (in_allB _)).
  unfold eol_ok in T. rewrite Hmb, HG in T. cbn [andb implb] in T. rewrite <- Ea in T.
  apply andb_true_iff in T. destruct T as [T T4]. apply andb_true_iff in T. destruct T as [T T3].
  apply andb_true_iff in T. destruct T as [T1 T2].
  apply stk_eqb_eq in T1. apply lm_eqb_eq in T2. apply Bool.eqb_prop in T3. apply negb_true_iff in T4.
  repeat split; assumption.
Qed.

(* ---------- one line through the concrete cleaner ---------- *)
Lemma rel_start k : rel {| fstk := stack_of k; fbuf := bE; fvc := tt; flm := LNorm |} (SBol k, mU) = true.
Proof. destruct k; reflexivity. Qed.

Lemma is_blank_cat b : is_blank b = cat_eqb (category b) BLANK.
Proof. unfold is_blank. destruct (category b); reflexivity. Qed.

(* the text handed to fortran_cleaner.process for one logical line of the C pass:
   from a state related to the scanner's, under the guards, the cleaner ends in
   the stack the scanner's continuation context denotes, its buffer is non-blank
   exactly when the scanner marked the line, and it never looks like a directive *)
Lemma line_sim k vc cs :
  tguards (SBol k, mU) cs = true -> eguard (sfold (SBol k, mU) cs) = true ->
  let s1 := fprocess {| fstk := stack_of k; fbuf := osl0; fvc := vc; flm := LNorm |} cs in
  fstk s1 = stack_of (seol (fst (sfold (SBol k, mU) cs))) /\
  is_lerr (flm s1) = false /\
  is_blank (fbuf s1) = negb (is_mM (snd (sfold (SBol k, mU) cs))) /\
  cat_eqb (category (fbuf s1)) CPPDIR = false.
Proof.
  intros HG HE s1.
  set (s0 := {| fstk := stack_of k; fbuf := osl0; fvc := vc; flm := LNorm |}) in *.
  assert (HR : rel (afold (absF s0) cs) (sfold (SBol k, mU) cs) = true).
  { apply afold_sim; [|exact HG]. unfold absF, s0. cbn [fstk fbuf fvc flm labs]. apply rel_start. }
  rewrite <- absF_fold in HR.
  destruct (sfold (SBol k, mU) cs) as [q m] eqn:ES. cbn [fst snd].
  destruct (eol_sim _ q m HR HE) as [E1 [E2 [E3 E4]]].
  rewrite <- absF_eol in E1, E2.
  unfold s1. rewrite fprocess_eq.
  unfold absF in E1, E2, E3, E4. cbn [fstk fbuf flm] in E1, E2, E3, E4.
  rewrite <- babs_cat in E3, E4.
  assert (EB : fbuf (ceolF (cfold s0 cs)) = fbuf (cfold s0 cs)).
  { unfold ceolF, geol, fmk. destruct (fstk (cfold s0 cs)) as [|[] r]; reflexivity. }
  rewrite EB. split; [exact E1|]. split.
  - destruct (flm (ceolF (cfold s0 cs))); cbn in E2; try discriminate; reflexivity.
  - split; [rewrite is_blank_cat; exact E3|exact E4].
Qed.
