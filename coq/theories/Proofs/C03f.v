(* C03_funlike_partial: tables that mix object-like macros and function-like
   macros (fixed arity >= 1, no # / ##), invoked in the source list with flat
   arguments that contain no macro names.  Joins Proofs/C03o.v (expand_src)
   and Proofs/C03s.v (X_call, sscan). *)
From Coq Require Import ZArith String Ascii Bool List Lia Arith.
From CBI Require Import Lib.Data Lib.Res Model.C03tok Model.C03 Model.C03run Spec.C03.
From CBI Require Import Proofs.C03o Proofs.C03s Proofs.C03d Proofs.C03j.
Import ListNotations.
Local Open Scope string_scope.
Local Open Scope list_scope.

(* ---------- definitions ---------- *)
Inductive fdef :=
| FObj (name : string) (body : list tok)
| FFun (name : string) (params : list string) (body : list tok).
Definition fname (f : fdef) : string := match f with FObj n _ => n | FFun n _ _ => n end.
Definition fbody (f : fdef) : list tok := match f with FObj _ b => b | FFun _ _ b => b end.

Definition no_need (ps : list string) : list bool := map (fun _ => false) ps.
Definition fmacro (name : string) (ps : list string) (body : list tok) : macro :=
  mkMacro name true ps false false (needs_scan true ps None (set_w_hd false body) (no_need ps)) (set_w_hd false body).
Definition macro_of_fdef (f : fdef) : macro :=
  match f with FObj n b => omacro n b | FFun n ps b => fmacro n ps b end.
Definition smacro_of_fdef (f : fdef) : smacro :=
  match f with FObj _ b => SObj (map btok_of b) | FFun _ ps b => SFun ps false (map btok_of b) end.
Definition mtable2 (fs : list fdef) : table := map (fun f => (fname f, macro_of_fdef f)) fs.
Definition stable2 (fs : list fdef) : stable := map (fun f => (fname f, smacro_of_fdef f)) fs.

Fixpoint flookup (fs : list fdef) (k : string) : option fdef :=
  match fs with [] => None | f :: r => if String.eqb (fname f) k then Some f else flookup r k end.

Lemma get_mtable2 fs k : get_macro (mtable2 fs) k = option_map macro_of_fdef (flookup fs k).
Proof. induction fs as [|f r IH]; cbn; [reflexivity|]. destruct (String.eqb (fname f) k); [reflexivity|exact IH]. Qed.
Lemma slookup2 fs k : slookup (stable2 fs) k = option_map smacro_of_fdef (flookup fs k).
Proof. induction fs as [|f r IH]; cbn; [reflexivity|]. destruct (String.eqb (fname f) k); [reflexivity|exact IH]. Qed.
Lemma flookup_name fs k f : flookup fs k = Some f -> fname f = k.
Proof.
  induction fs as [|g r IH]; cbn; [discriminate|]. destruct (String.eqb (fname g) k) eqn:E; [|exact IH].
  intros H. injection H as <-. now apply String.eqb_eq.
Qed.
Lemma flookup_In fs k f : flookup fs k = Some f -> In f fs.
Proof.
  induction fs as [|g r IH]; cbn; [discriminate|]. destruct (String.eqb (fname g) k); [|intros H; right; now apply IH].
  intros H. injection H as <-. now left.
Qed.

(* ---------- the fragment ---------- *)
Definition is_funname (fs : list fdef) (s : string) : bool :=
  match flookup fs s with Some (FFun _ _ _) => true | _ => false end.
Definition is_macname (fs : list fdef) (s : string) : bool :=
  match flookup fs s with Some _ => true | None => false end.

(* a body token: admissible, and not the name of a function-like macro *)
Definition okf (fs : list fdef) (t : tok) : bool := okd t && negb (is_id t && is_funname fs (tt t)).

Definition wf_fdef (fs : list fdef) (f : fdef) : bool :=
  negb (String.eqb (fname f) "defined") && forallb (okf fs) (fbody f) &&
  match f with
  | FObj _ _ => true
  | FFun _ ps b =>
      negb (Nat.eqb (List.length ps) 0) && nodup_str ps && negb (mem "__VA_ARGS__" ps) &&
      forallb (fun t => negb (String.eqb (tt t) "#")) b &&
      (* only identifiers are spelled like a parameter *)
      forallb (fun t => is_id t || negb (mem (tt t) ps)) b
  end.
Definition wf_fdefs (fs : list fdef) : bool :=
  nodup_str (map fname fs) && forallb (wf_fdef fs) fs.

(* a source token outside invocations / inside an argument *)
Definition src_tok (fs : list fdef) (t : tok) : bool := okf fs t && negb (is_def t).
Definition arg_tok (fs : list fdef) (t : tok) : bool :=
  okd t && negb (is_def t) && negb (is_id t && is_macname fs (tt t)) && plain_arg t.

(* ---------- small facts ---------- *)
Lemma index_of_range s l : forall k i, index_of s l k = Some i -> k <= i < k + List.length l.
Proof.
  induction l as [|a r IH]; intros k i; cbn; [discriminate|].
  destruct (String.eqb a s); [intros H; injection H as <-; lia|].
  intros H. apply IH in H. lia.
Qed.
Lemma nth_error_set_nth_same {A} (l : list A) : forall i x, i < List.length l -> nth_error (set_nth i x l) i = Some x.
Proof. induction l as [|a r IH]; intros [|i] x H; cbn in *; try lia; [reflexivity|apply IH; lia]. Qed.
Lemma nth_error_set_nth_true (l : list bool) : forall i j, nth_error l j = Some true -> nth_error (set_nth i true l) j = Some true.
Proof.
  induction l as [|a r IH]; intros [|i] [|j] H; cbn in *; try discriminate; try assumption; [reflexivity|now apply IH].
Qed.
Lemma set_nth_length {A} (l : list A) : forall i x, List.length (set_nth i x l) = List.length l.
Proof. induction l as [|a r IH]; intros [|i] x; cbn; auto. Qed.

(* once marked, an argument stays marked *)
Lemma needs_scan_keeps ps l : forall prev need j,
  nth_error need j = Some true -> nth_error (needs_scan true ps prev l need) j = Some true.
Proof.
  induction l as [|t r IH]; intros prev need j H; cbn [needs_scan]; [assumption|].
  apply IH. destruct (is_id t); [|assumption]. destruct (which_arg true ps (tt t)); [|assumption].
  destruct (match prev with Some p => is_hash_or_cat p | None => false end); [assumption|].
  destruct (match r with n :: _ => is_txt "##" n | [] => false end); [assumption|].
  now apply nth_error_set_nth_true.
Qed.
Lemma needs_scan_length ps l : forall prev need, List.length (needs_scan true ps prev l need) = List.length need.
Proof.
  induction l as [|t r IH]; intros prev need; cbn [needs_scan]; [reflexivity|]. rewrite IH.
  destruct (is_id t); [|reflexivity]. destruct (which_arg true ps (tt t)); [|reflexivity].
  destruct (match prev with Some p => is_hash_or_cat p | None => false end); [reflexivity|].
  destruct (match r with n :: _ => is_txt "##" n | [] => false end); [reflexivity|]. apply set_nth_length.
Qed.

Definition no_ops (t : tok) : bool := negb (is_txt "#" t) && negb (is_txt "##" t).

(* in a replacement list without # and ##, every identifier spelled like parameter i marks it *)
Lemma needs_scan_marks ps l : forall prev need t i,
  forallb no_ops l = true -> (match prev with Some p => is_hash_or_cat p | None => false end) = false ->
  List.length need = List.length ps ->
  In t l -> is_id t = true -> index_of (tt t) ps 0 = Some i ->
  nth_error (needs_scan true ps prev l need) i = Some true.
Proof.
  induction l as [|x r IH]; intros prev need t i Hno Hprev Hlen Hin Hid Hidx; [contradiction|].
  cbn [forallb] in Hno. apply andb_true_iff in Hno. destruct Hno as [Hx Hr].
  assert (Hxp : is_hash_or_cat x = false).
  { unfold no_ops in Hx. rewrite andb_true_iff, !negb_true_iff in Hx. unfold is_hash_or_cat. destruct Hx as [-> ->]. reflexivity. }
  assert (Hnext : match r with n :: _ => is_txt "##" n | [] => false end = false).
  { destruct r as [|n r']; [reflexivity|]. cbn [forallb] in Hr. apply andb_true_iff in Hr. destruct Hr as [Hn _].
    unfold no_ops in Hn. rewrite andb_true_iff, !negb_true_iff in Hn. tauto. }
  cbn [needs_scan]. destruct Hin as [<-|Hin].
  - rewrite Hid. cbn [which_arg]. rewrite Hidx, Hprev, Hnext.
    apply needs_scan_keeps. apply nth_error_set_nth_same.
    apply index_of_range in Hidx. lia.
  - eapply IH; try eassumption.
    destruct (is_id x); [|assumption]. destruct (which_arg true ps (tt x)); [|assumption].
    rewrite Hprev, Hnext. now rewrite set_nth_length.
Qed.

(* ---------- MacroFunction.replace on a replacement list without # / ## ---------- *)
Definition sm (ps : list string) (al : list (list tok)) (body : list tok) : list tok :=
  flat_map (fun t => match index_of (tt t) ps 0 with
                     | Some i => set_w_hd (tw t) (nth i al [])
                     | None => [t]
                     end) body.

Lemma substitute_sm cat_fix resub_fix m ia al body :
  (forall t, In t body -> is_placemarker t = false) ->
  (forall t i, In t body -> index_of (tt t) (m_args m) 0 = Some i ->
               nth_error ia i = Some (nth i al [], Some (nth i al []))) ->
  substitute cat_fix resub_fix m ia (map (fun t => (t, false)) body) = Ok (sm (m_args m) al body).
Proof.
  induction body as [|t r IH]; intros Hpm Hnth; cbn [map substitute sm flat_map]; [reflexivity|].
  rewrite (Hpm t (or_introl eq_refl)). rewrite !andb_false_r.
  fold (sm (m_args m) al r).
  rewrite IH; [|intros x Hx; apply Hpm; now right|intros x i Hx; apply Hnth; now right].
  destruct (index_of (tt t) (m_args m) 0) as [i|] eqn:Hi; [|reflexivity].
  pose proof (Hnth t i (or_introl eq_refl) Hi) as Hn. unfold iarg in *. rewrite Hn. reflexivity.
Qed.

Lemma nth_error_ias tb d ne m al : forall k j,
  nth_error (ias_of tb d ne m k al) j
  = option_map (fun a => (a, if needs m (k + j) then Some (flat_map (E tb d (None :: ne)) a) else None)) (nth_error al j).
Proof.
  induction al as [|a r IH]; intros k j; cbn [ias_of]; [now destruct j|].
  destruct j as [|j]; cbn [nth_error option_map]; [now rewrite Nat.add_0_r|].
  rewrite IH. now rewrite Nat.add_succ_r.
Qed.

Lemma index_of_mem s l : forall k i, index_of s l k = Some i -> mem s l = true.
Proof.
  induction l as [|a r IH]; intros k i; cbn [index_of]; [discriminate|].
  unfold mem. cbn [existsb]. destruct (String.eqb a s) eqn:E.
  - apply String.eqb_eq in E. subst. now rewrite String.eqb_refl.
  - intros H. apply IH in H. unfold mem in H. rewrite H. apply orb_true_r.
Qed.

Lemma replace_fun_fmacro tb lead cat_fix str_white resub_fix va_fix d ne n ps b al :
  List.length al = List.length ps ->
  (forall a, In a al -> flat_map (E tb d (None :: ne)) a = a) ->
  forallb no_ops b = true ->
  (forall t, In t b -> String.eqb (tt t) "" = false) ->
  (forall t, In t b -> (is_id t || negb (mem (tt t) ps)) = true) ->
  replace_fun lead cat_fix str_white resub_fix va_fix (fmacro n ps b) (ias_of tb d ne (fmacro n ps b) 0 al)
  = Ok (sm ps al (set_w_hd false b)).
Proof.
  intros Hlen Hinert Hno Hne Hpar. unfold replace_fun.
  replace (if va_fix then Ok (merge_variadic_new (fmacro n ps b) (ias_of tb d ne (fmacro n ps b) 0 al))
           else merge_variadic_orig (fmacro n ps b) (ias_of tb d ne (fmacro n ps b) 0 al))
    with (Ok (A := list iarg) (ias_of tb d ne (fmacro n ps b) 0 al)) by (destruct va_fix; reflexivity).
  cbn [fmacro m_strcat m_repl].
  change ps with (m_args (fmacro n ps b)) at 3.
  (* facts about the first-token variant of the body *)
  assert (Hb0 : forall t, In t (set_w_hd false b) -> exists t0, In t0 b /\ tt t = tt t0 /\ is_id t = is_id t0).
  { destruct b as [|x r]; cbn [set_w_hd]; [intros t []|]. intros t [<-|Ht]; [exists x|exists t]; cbn; auto. }
  assert (Hno0 : forallb no_ops (set_w_hd false b) = true) by (destruct b; [reflexivity|exact Hno]).
  apply substitute_sm.
  - intros t Ht. destruct (Hb0 t Ht) as (t0 & Hin & Htt & _). unfold is_placemarker. rewrite Htt, (Hne t0 Hin). apply andb_false_r.
  - intros t i Ht Hi. cbn [fmacro m_args] in Hi. rewrite nth_error_ias. cbn [plus].
    pose proof (index_of_range _ _ _ _ Hi) as Hr.
    destruct (Hb0 t Ht) as (t0 & Hin & Htt & Hidt).
    assert (Hid : is_id t = true).
    { specialize (Hpar t0 Hin). rewrite <- Htt, (index_of_mem _ _ _ _ Hi) in Hpar. cbn in Hpar.
      rewrite orb_false_r in Hpar. now rewrite Hidt. }
    assert (Hneed : needs (fmacro n ps b) i = true).
    { unfold needs. cbn [fmacro m_need].
      rewrite (needs_scan_marks ps (set_w_hd false b) None (no_need ps) t i Hno0 eq_refl); try assumption; try reflexivity.
      unfold no_need. now rewrite map_length. }
    rewrite Hneed.
    assert (Hi_al : i < List.length al) by lia.
    rewrite (nth_error_nth' al [] Hi_al). cbn [option_map].
    rewrite Hinert; [reflexivity|]. apply nth_In. exact Hi_al.
Qed.
