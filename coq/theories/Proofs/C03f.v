(* C03_funlike_partial: tables that mix object-like macros and function-like
   macros (fixed arity >= 1, no # / ##), invoked in the source list with flat
   arguments that contain no macro names.  Joins Proofs/C03o.v (expand_src)
   and Proofs/C03s.v (X_call, sscan). *)
From Coq Require Import ZArith String Ascii Bool List Lia Arith.
From CBI Require Import Lib.Data Lib.Res Model.C03tok Model.C03 Model.C03run Spec.C03.
From CBI Require Import Proofs.C03o Proofs.C03s Proofs.C03d Proofs.C03j.
Import ListNotations.
Local Open Scope string_scope.
Local Open Scope list_scope.

(* ---------- definitions ---------- *)
Inductive fdef :=
| FObj (name : string) (body : list tok)
| FFun (name : string) (params : list string) (body : list tok).
Definition fname (f : fdef) : string := match f with FObj n _ => n | FFun n _ _ => n end.
Definition fbody (f : fdef) : list tok := match f with FObj _ b => b | FFun _ _ b => b end.

Definition no_need (ps : list string) : list bool := map (fun _ => false) ps.
Definition fmacro (name : string) (ps : list string) (body : list tok) : macro :=
  mkMacro name true ps false false (needs_scan true ps None (set_w_hd false body) (no_need ps)) (set_w_hd false body).
Definition macro_of_fdef (f : fdef) : macro :=
  match f with FObj n b => omacro n b | FFun n ps b => fmacro n ps b end.
Definition smacro_of_fdef (f : fdef) : smacro :=
  match f with FObj _ b => SObj (map btok_of b) | FFun _ ps b => SFun ps false (map btok_of b) end.
Definition mtable2 (fs : list fdef) : table := map (fun f => (fname f, macro_of_fdef f)) fs.
Definition stable2 (fs : list fdef) : stable := map (fun f => (fname f, smacro_of_fdef f)) fs.

Fixpoint flookup (fs : list fdef) (k : string) : option fdef :=
  match fs with [] => None | f :: r => if String.eqb (fname f) k then Some f else flookup r k end.

Lemma get_mtable2 fs k : get_macro (mtable2 fs) k = option_map macro_of_fdef (flookup fs k).
Proof. induction fs as [|f r IH]; cbn; [reflexivity|]. destruct (String.eqb (fname f) k); [reflexivity|exact IH]. Qed.
Lemma slookup2 fs k : slookup (stable2 fs) k = option_map smacro_of_fdef (flookup fs k).
Proof. induction fs as [|f r IH]; cbn; [reflexivity|]. destruct (String.eqb (fname f) k); [reflexivity|exact IH]. Qed.
Lemma flookup_name fs k f : flookup fs k = Some f -> fname f = k.
Proof.
  induction fs as [|g r IH]; cbn; [discriminate|]. destruct (String.eqb (fname g) k) eqn:E; [|exact IH].
  intros H. injection H as <-. now apply String.eqb_eq.
Qed.
Lemma flookup_In fs k f : flookup fs k = Some f -> In f fs.
Proof.
  induction fs as [|g r IH]; cbn; [discriminate|]. destruct (String.eqb (fname g) k); [|intros H; right; now apply IH].
  intros H. injection H as <-. now left.
Qed.

(* ---------- the fragment ---------- *)
Definition is_funname (fs : list fdef) (s : string) : bool :=
  match flookup fs s with Some (FFun _ _ _) => true | _ => false end.
Definition is_macname (fs : list fdef) (s : string) : bool :=
  match flookup fs s with Some _ => true | None => false end.

(* a body token: admissible, and not the name of a function-like macro *)
Definition okf (fs : list fdef) (t : tok) : bool := okd t && negb (is_id t && is_funname fs (tt t)).

Definition wf_fdef (fs : list fdef) (f : fdef) : bool :=
  negb (String.eqb (fname f) "defined") && forallb (okf fs) (fbody f) &&
  match f with
  | FObj _ _ => true
  | FFun _ ps b =>
      negb (Nat.eqb (List.length ps) 0) && nodup_str ps && negb (mem "__VA_ARGS__" ps) &&
      forallb (fun t => negb (String.eqb (tt t) "#")) b &&
      (* only identifiers are spelled like a parameter *)
      forallb (fun t => is_id t || negb (mem (tt t) ps)) b
  end.
Definition wf_fdefs (fs : list fdef) : bool :=
  nodup_str (map fname fs) && forallb (wf_fdef fs) fs.

(* a source token outside invocations / inside an argument *)
Definition src_tok (fs : list fdef) (t : tok) : bool := okf fs t && negb (is_def t).
Definition arg_tok (fs : list fdef) (t : tok) : bool :=
  okd t && negb (is_def t) && negb (is_id t && is_macname fs (tt t)) && plain_arg t.

(* ---------- small facts ---------- *)
Lemma index_of_range s l : forall k i, index_of s l k = Some i -> k <= i < k + List.length l.
Proof.
  induction l as [|a r IH]; intros k i; cbn; [discriminate|].
  destruct (String.eqb a s); [intros H; injection H as <-; lia|].
  intros H. apply IH in H. lia.
Qed.
Lemma nth_error_set_nth_same {A} (l : list A) : forall i x, i < List.length l -> nth_error (set_nth i x l) i = Some x.
Proof. induction l as [|a r IH]; intros [|i] x H; cbn in *; try lia; [reflexivity|apply IH; lia]. Qed.
Lemma nth_error_set_nth_true (l : list bool) : forall i j, nth_error l j = Some true -> nth_error (set_nth i true l) j = Some true.
Proof.
  induction l as [|a r IH]; intros [|i] [|j] H; cbn in *; try discriminate; try assumption; [reflexivity|now apply IH].
Qed.
Lemma set_nth_length {A} (l : list A) : forall i x, List.length (set_nth i x l) = List.length l.
Proof. induction l as [|a r IH]; intros [|i] x; cbn; auto. Qed.

(* once marked, an argument stays marked *)
Lemma needs_scan_keeps ps l : forall prev need j,
  nth_error need j = Some true -> nth_error (needs_scan true ps prev l need) j = Some true.
Proof.
  induction l as [|t r IH]; intros prev need j H; cbn [needs_scan]; [assumption|].
  apply IH. destruct (is_id t); [|assumption]. destruct (which_arg true ps (tt t)); [|assumption].
  destruct (match prev with Some p => is_hash_or_cat p | None => false end); [assumption|].
  destruct (match r with n :: _ => is_txt "##" n | [] => false end); [assumption|].
  now apply nth_error_set_nth_true.
Qed.
Lemma needs_scan_length ps l : forall prev need, List.length (needs_scan true ps prev l need) = List.length need.
Proof.
  induction l as [|t r IH]; intros prev need; cbn [needs_scan]; [reflexivity|]. rewrite IH.
  destruct (is_id t); [|reflexivity]. destruct (which_arg true ps (tt t)); [|reflexivity].
  destruct (match prev with Some p => is_hash_or_cat p | None => false end); [reflexivity|].
  destruct (match r with n :: _ => is_txt "##" n | [] => false end); [reflexivity|]. apply set_nth_length.
Qed.

Definition no_ops (t : tok) : bool := negb (is_txt "#" t) && negb (is_txt "##" t).

(* in a replacement list without # and ##, every identifier spelled like parameter i marks it *)
Lemma needs_scan_marks ps l : forall prev need t i,
  forallb no_ops l = true -> (match prev with Some p => is_hash_or_cat p | None => false end) = false ->
  List.length need = List.length ps ->
  In t l -> is_id t = true -> index_of (tt t) ps 0 = Some i ->
  nth_error (needs_scan true ps prev l need) i = Some true.
Proof.
  induction l as [|x r IH]; intros prev need t i Hno Hprev Hlen Hin Hid Hidx; [contradiction|].
  cbn [forallb] in Hno. apply andb_true_iff in Hno. destruct Hno as [Hx Hr].
  assert (Hxp : is_hash_or_cat x = false).
  { unfold no_ops in Hx. rewrite andb_true_iff, !negb_true_iff in Hx. unfold is_hash_or_cat. destruct Hx as [-> ->]. reflexivity. }
  assert (Hnext : match r with n :: _ => is_txt "##" n | [] => false end = false).
  { destruct r as [|n r']; [reflexivity|]. cbn [forallb] in Hr. apply andb_true_iff in Hr. destruct Hr as [Hn _].
    unfold no_ops in Hn. rewrite andb_true_iff, !negb_true_iff in Hn. tauto. }
  cbn [needs_scan]. destruct Hin as [<-|Hin].
  - rewrite Hid. cbn [which_arg]. rewrite Hidx, Hprev, Hnext.
    apply needs_scan_keeps. apply nth_error_set_nth_same.
    apply index_of_range in Hidx. lia.
  - eapply IH; try eassumption.
    destruct (is_id x); [|assumption]. destruct (which_arg true ps (tt x)); [|assumption].
    rewrite Hprev, Hnext. now rewrite set_nth_length.
Qed.

(* ---------- MacroFunction.replace on a replacement list without # / ## ---------- *)
Definition sm (ps : list string) (al : list (list tok)) (body : list tok) : list tok :=
  flat_map (fun t => match index_of (tt t) ps 0 with
                     | Some i => set_w_hd (tw t) (nth i al [])
                     | None => [t]
                     end) body.

Lemma substitute_sm cat_fix resub_fix m ia al body :
  (forall t, In t body -> is_placemarker t = false) ->
  (forall t i, In t body -> index_of (tt t) (m_args m) 0 = Some i ->
               nth_error ia i = Some (nth i al [], Some (nth i al []))) ->
  substitute cat_fix resub_fix m ia (map (fun t => (t, false)) body) = Ok (sm (m_args m) al body).
Proof.
  induction body as [|t r IH]; intros Hpm Hnth; cbn [map substitute sm flat_map]; [reflexivity|].
  rewrite (Hpm t (or_introl eq_refl)). rewrite !andb_false_r.
  fold (sm (m_args m) al r).
  rewrite IH; [|intros x Hx; apply Hpm; now right|intros x i Hx; apply Hnth; now right].
  destruct (index_of (tt t) (m_args m) 0) as [i|] eqn:Hi; [|reflexivity].
  pose proof (Hnth t i (or_introl eq_refl) Hi) as Hn. unfold iarg in *. rewrite Hn. reflexivity.
Qed.

Lemma nth_error_ias tb d ne m al : forall k j,
  nth_error (ias_of tb d ne m k al) j
  = option_map (fun a => (a, if needs m (k + j) then Some (flat_map (E tb d (None :: ne)) a) else None)) (nth_error al j).
Proof.
  induction al as [|a r IH]; intros k j; cbn [ias_of]; [now destruct j|].
  destruct j as [|j]; cbn [nth_error option_map]; [now rewrite Nat.add_0_r|].
  rewrite IH. now rewrite Nat.add_succ_r.
Qed.

Lemma index_of_mem s l : forall k i, index_of s l k = Some i -> mem s l = true.
Proof.
  induction l as [|a r IH]; intros k i; cbn [index_of]; [discriminate|].
  unfold mem. cbn [existsb]. destruct (String.eqb a s) eqn:E.
  - apply String.eqb_eq in E. subst. now rewrite String.eqb_refl.
  - intros H. apply IH in H. unfold mem in H. rewrite H. apply orb_true_r.
Qed.

Lemma replace_fun_fmacro tb lead cat_fix str_white resub_fix va_fix d ne n ps b al :
  List.length al = List.length ps ->
  (forall a, In a al -> flat_map (E tb d (None :: ne)) a = a) ->
  forallb no_ops b = true ->
  (forall t, In t b -> String.eqb (tt t) "" = false) ->
  (forall t, In t b -> (is_id t || negb (mem (tt t) ps)) = true) ->
  replace_fun lead cat_fix str_white resub_fix va_fix (fmacro n ps b) (ias_of tb d ne (fmacro n ps b) 0 al)
  = Ok (sm ps al (set_w_hd false b)).
Proof.
  intros Hlen Hinert Hno Hne Hpar. unfold replace_fun.
  replace (if va_fix then Ok (merge_variadic_new (fmacro n ps b) (ias_of tb d ne (fmacro n ps b) 0 al))
           else merge_variadic_orig (fmacro n ps b) (ias_of tb d ne (fmacro n ps b) 0 al))
    with (Ok (A := list iarg) (ias_of tb d ne (fmacro n ps b) 0 al)) by (destruct va_fix; reflexivity).
  cbn [fmacro m_strcat m_repl].
  change ps with (m_args (fmacro n ps b)) at 3.
  (* facts about the first-token variant of the body *)
  assert (Hb0 : forall t, In t (set_w_hd false b) -> exists t0, In t0 b /\ tt t = tt t0 /\ is_id t = is_id t0).
  { destruct b as [|x r]; cbn [set_w_hd]; [intros t []|]. intros t [<-|Ht]; [exists x|exists t]; cbn; auto. }
  assert (Hno0 : forallb no_ops (set_w_hd false b) = true) by (destruct b; [reflexivity|exact Hno]).
  apply substitute_sm.
  - intros t Ht. destruct (Hb0 t Ht) as (t0 & Hin & Htt & _). unfold is_placemarker. rewrite Htt, (Hne t0 Hin). apply andb_false_r.
  - intros t i Ht Hi. cbn [fmacro m_args] in Hi. rewrite nth_error_ias. cbn [plus].
    pose proof (index_of_range _ _ _ _ Hi) as Hr.
    destruct (Hb0 t Ht) as (t0 & Hin & Htt & Hidt).
    assert (Hid : is_id t = true).
    { specialize (Hpar t0 Hin). rewrite <- Htt, (index_of_mem _ _ _ _ Hi) in Hpar. cbn in Hpar.
      rewrite orb_false_r in Hpar. now rewrite Hidt. }
    assert (Hneed : needs (fmacro n ps b) i = true).
    { unfold needs. cbn [fmacro m_need].
      rewrite (needs_scan_marks ps (set_w_hd false b) None (no_need ps) t i Hno0 eq_refl); try assumption; try reflexivity.
      unfold no_need. now rewrite map_length. }
    rewrite Hneed.
    assert (Hi_al : i < List.length al) by lia.
    rewrite (nth_error_nth' al [] Hi_al). cbn [option_map].
    rewrite Hinert; [reflexivity|]. apply nth_In. exact Hi_al.
Qed.

(* ---------- `#define NAME(p1,...,pn) body` builds fmacro ---------- *)
Lemma preproc_noops ps rest : forall fuel acc cat,
  List.length rest < fuel -> forallb no_ops rest = true ->
  preproc fuel true ps rest acc cat = Ok (acc ++ rest, cat).
Proof.
  induction rest as [|t r IH]; intros fuel acc cat Hf Hc; (destruct fuel as [|f]; [cbn in Hf; lia|]); cbn [preproc].
  - now rewrite app_nil_r.
  - cbn [forallb] in Hc. apply andb_true_iff in Hc. destruct Hc as [Ht Hr].
    unfold no_ops in Ht. rewrite andb_true_iff, !negb_true_iff in Ht. destruct Ht as [H1 H2]. rewrite H2, H1.
    rewrite IH; [now rewrite <- app_assoc|cbn in Hf; lia|assumption].
Qed.

Lemma no_ops_cat t : no_ops t = true -> is_txt "##" t = false.
Proof. unfold no_ops. rewrite andb_true_iff, !negb_true_iff. tauto. Qed.

Lemma macro_init_funlike n ps b :
  forallb no_ops b = true -> macro_init n true ps false b = Ok (fmacro n ps b).
Proof.
  intros H. destruct b as [|t0 r0]; [reflexivity|]. unfold macro_init.
  assert (Hc : forall x, In x (t0 :: r0) -> is_txt "##" x = false).
  { intros x Hx. apply no_ops_cat. rewrite forallb_forall in H. now apply H. }
  rewrite (Hc t0 (or_introl eq_refl)).
  destruct (last_tok (t0 :: r0)) as [tl|] eqn:El.
  2:{ unfold last_tok in El. cbn [rev] in El. destruct (rev r0); discriminate. }
  rewrite (Hc tl (last_tok_In _ _ El)).
  rewrite preproc_noops; [reflexivity|cbn; lia|exact H].
Qed.

Lemma ends_dots_strip_map ps : map tt (map arg_of (map PName ps)) = ps.
Proof. induction ps as [|p r IH]; cbn; [reflexivity|]. now rewrite IH. Qed.

Lemma wf_tail_names ps : (forall p, In p ps -> ends_dots p = false) -> wf_tail (map PName ps).
Proof.
  induction ps as [|p r IH]; intros H; [exact I|]. cbn [map wf_tail].
  destruct r as [|q r']; cbn [map].
  - cbn. apply H. now left.
  - split; [cbn; apply H; now left|]. apply IH. intros x Hx. apply H. now right.
Qed.

Lemma pop_last_last {A} (l : list A) x : pop_last (l ++ [x]) = Some (l, x).
Proof. unfold pop_last. rewrite rev_app_distr. cbn. now rewrite rev_involutive. Qed.

Lemma define_line_fun n ps b :
  ps <> [] -> (forall p, In p ps -> ends_dots p = false) -> forallb no_ops b = true ->
  macro_from_define (head true n (Some (map PName ps)) ++ set_w_hd true b) = Ok (fmacro n ps b).
Proof.
  intros Hps Hdots Hno. rewrite define_head; [|now apply wf_tail_names|exact I].
  cbn [args_of]. unfold make_macro. cbn [idt tt]. rewrite ends_dots_strip_map.
  assert (Hv : match pop_last ps with Some (_, x) => ends_dots x | None => false end = false).
  { destruct (exists_last Hps) as (l & x & ->). rewrite pop_last_last. apply Hdots. apply in_or_app. right. now left. }
  rewrite Hv. rewrite macro_init_white. apply macro_init_funlike. exact Hno.
Qed.

Lemma forallb_filter_id {A} (f : A -> bool) l : forallb f l = true -> filter f l = l.
Proof. induction l as [|x r IH]; cbn; [reflexivity|]. rewrite andb_true_iff. intros [-> H]. now rewrite IH. Qed.

Lemma In_snd_combine {A B} (ps : list A) : forall (l : list B) v, In v (map snd (combine ps l)) -> In v l.
Proof.
  induction ps as [|p r IH]; intros [|h hr] v H; cbn in *; try contradiction.
  destruct H as [<-|H]; [now left|right; now apply IH].
Qed.

Section FunLike.
Variable fs : list fdef.
Hypothesis Hwf : wf_fdefs fs = true.

Notation tb := (mtable2 fs).
Notation stb := (stable2 fs).

Lemma Hwf_each f : In f fs -> wf_fdef fs f = true.
Proof. unfold wf_fdefs in Hwf. apply andb_true_iff in Hwf. destruct Hwf as [_ H]. rewrite forallb_forall in H. apply H. Qed.

Lemma is_fl_funname t : is_fl tb t = is_id t && is_funname fs (tt t).
Proof.
  unfold is_fl, is_funname. rewrite get_mtable2. destruct (flookup fs (tt t)) as [[n b|n ps b]|]; reflexivity.
Qed.
Lemma is_flb_funname t : is_flb stb (btok_of t) = is_id t && is_funname fs (tt t).
Proof.
  unfold is_flb, is_funname. cbn [btok_of bk bt]. rewrite slookup2.
  destruct (flookup fs (tt t)) as [[n b|n ps b]|]; reflexivity.
Qed.

Lemma okf_okt2 t : okf fs t = true -> okt2 tb t = true.
Proof.
  unfold okf, okt2. rewrite andb_true_iff. intros [Ho Hn]. rewrite (okt_okt0 t (okd_okt t Ho)), is_fl_funname. exact Hn.
Qed.
Lemma okf_okb2 t : okf fs t = true -> okb2 stb (btok_of t) = true.
Proof.
  unfold okf, okb2. rewrite andb_true_iff. intros [Ho Hn]. rewrite (okd_okb t Ho), is_flb_funname. exact Hn.
Qed.

Lemma Hobj2 k m : get_macro tb k = Some m ->
  m_name m = k /\ (m_fun m = false -> forallb (okt2 tb) (m_repl m) = true).
Proof.
  rewrite get_mtable2. destruct (flookup fs k) as [f|] eqn:E; [|discriminate]. cbn. intros H. injection H as <-.
  pose proof (flookup_name _ _ _ E) as Hn. pose proof (Hwf_each f (flookup_In _ _ _ E)) as Hf.
  destruct f as [n b|n ps b]; cbn [macro_of_fdef omacro fmacro m_name m_fun m_repl fname] in *.
  - split; [assumption|]. intros _. apply okt2_set_w_hd.
    unfold wf_fdef in Hf. cbn [fname fbody] in Hf. rewrite !andb_true_iff in Hf. destruct Hf as [[_ Hb] _].
    apply (forallb_impl (okf fs) (okt2 tb)); [apply okf_okt2|assumption].
  - split; [assumption|discriminate].
Qed.

Lemma HSobj2 k b0 : slookup stb k = Some (SObj b0) -> forallb (okb2 stb) b0 = true.
Proof.
  rewrite slookup2. destruct (flookup fs k) as [f|] eqn:E; [|discriminate]. cbn.
  pose proof (Hwf_each f (flookup_In _ _ _ E)) as Hf.
  destruct f as [n b|n ps b]; cbn [smacro_of_fdef]; intros H; [|discriminate]. injection H as <-.
  unfold wf_fdef in Hf. cbn [fname fbody] in Hf. rewrite !andb_true_iff in Hf. destruct Hf as [[_ Hb] _].
  rewrite forallb_forall. intros x Hx. apply in_map_iff in Hx. destruct Hx as (t & <- & Ht).
  apply okf_okb2. rewrite forallb_forall in Hb. now apply Hb.
Qed.

(* ---------- E and ES give the same spellings (white space ignored) ---------- *)
Definition sim (hs : list string) (t : tok) (h : htok) : Prop := hk h = tk t /\ ht h = tt t /\ hh h = hs.

Lemma sim_set_w hs w w' l l' : Forall2 (sim hs) l l' -> Forall2 (sim hs) (set_w_hd w l) (hset_w w' l').
Proof.
  intros H. destruct H as [|t h l l' Hth Hr]; cbn; [constructor|]. constructor; [|assumption].
  destruct Hth as (H1 & H2 & H3). repeat split; assumption.
Qed.
Lemma sim_set_w_l hs w l l' : Forall2 (sim hs) l l' -> Forall2 (sim hs) (set_w_hd w l) l'.
Proof.
  intros H. destruct H as [|t h l l' Hth Hr]; cbn; [constructor|]. constructor; [|assumption].
  destruct Hth as (H1 & H2 & H3). repeat split; assumption.
Qed.
Lemma sim_lift hs b : Forall2 (sim hs) b (map (lift hs) (map btok_of b)).
Proof. induction b as [|t r IH]; cbn; constructor; [repeat split|assumption]. Qed.

Lemma okd_tx t : okd t = true -> tx t = true.
Proof. unfold okd. rewrite !andb_true_iff. tauto. Qed.
Lemma body_tx k n b : flookup fs k = Some (FObj n b) -> forallb tx b = true.
Proof.
  intros E. pose proof (Hwf_each _ (flookup_In _ _ _ E)) as Hf. unfold wf_fdef in Hf. cbn [fname fbody] in Hf.
  rewrite !andb_true_iff in Hf. destruct Hf as [[_ Hb] _].
  apply (forallb_impl (okf fs) tx); [|assumption]. intros x Hx. unfold okf in Hx. apply andb_true_iff in Hx. destruct Hx as [Hx _]. now apply okd_tx.
Qed.
Lemma tx_set_w_hd w l : forallb tx l = true -> forallb tx (set_w_hd w l) = true.
Proof. destruct l; cbn; auto. Qed.

Lemma corr2_tok d ne hs t h
  (IH : forall ne' hs' ts' hs'l, (forall s, in_noexp s ne' = mem s hs') -> forallb (okt2 tb) ts' = true -> forallb tx ts' = true ->
        Forall2 (sim hs') ts' hs'l ->
        match d with O => True | S d' =>
          map sp (flat_map (E tb d' ne') ts') = map sph (flat_map (ES stb d') hs'l) end) :
  (forall s, in_noexp s ne = mem s hs) -> okt2 tb t = true -> tx t = true -> sim hs t h ->
  map sp (E tb d ne t) = map sph (ES stb d h).
Proof.
  intros Hne Hot Hx (Hk & Ht & Hh). rewrite E_eq, ES_eq. rewrite Hk, Ht, Hh.
  change (tkind_eqb (tk t) KId) with (is_id t).
  unfold okt2 in Hot. apply andb_true_iff in Hot. destruct Hot as [Hot Hnfl]. apply negb_true_iff in Hnfl.
  destruct (is_id t) eqn:Hid; cbn [negb]; [|unfold sp, sph; cbn; now rewrite Hk, Ht].
  rewrite Hx. cbn [negb orb]. rewrite Hne.
  destruct (mem (tt t) hs) eqn:Hm; [unfold sp, sph; cbn; now rewrite Hk, Ht|].
  rewrite get_mtable2, slookup2.
  destruct (flookup fs (tt t)) as [f|] eqn:Ef; cbn [option_map]; [|unfold sp, sph; cbn; now rewrite Hk, Ht].
  destruct f as [n b|n ps b]; cbn [macro_of_fdef smacro_of_fdef].
  2:{ (* a function-like name: excluded *)
      rewrite is_fl_funname, Hid in Hnfl. unfold is_funname in Hnfl. rewrite Ef in Hnfl. discriminate. }
  destruct d as [|d']; [unfold sp, sph; cbn; now rewrite Hk, Ht|].
  cbn [omacro m_name m_repl].
  pose proof (flookup_name _ _ _ Ef) as Hn. cbn [fname] in Hn. subst n.
  apply (IH (Some (tt t) :: ne) (tt t :: hs)).
  - intros s. cbn [in_noexp existsb]. change (existsb _ ne) with (in_noexp s ne). rewrite Hne.
    unfold mem. cbn [existsb]. now rewrite String.eqb_sym.
  - destruct (Hobj2 _ _ (eq_trans (get_mtable2 fs (tt t)) (f_equal (option_map macro_of_fdef) Ef))) as [_ Hb].
    apply okt2_set_w_hd. exact (Hb eq_refl).
  - apply tx_set_w_hd, tx_set_w_hd. eapply body_tx, Ef.
  - apply sim_set_w. apply sim_set_w_l. apply sim_lift.
Qed.

Lemma corr2 d : forall ne hs ts hsl,
  (forall s, in_noexp s ne = mem s hs) -> forallb (okt2 tb) ts = true -> forallb tx ts = true -> Forall2 (sim hs) ts hsl ->
  map sp (flat_map (E tb d ne) ts) = map sph (flat_map (ES stb d) hsl).
Proof.
  induction d as [|d IHd]; intros ne hs ts hsl Hne Hok Htx Hsim; induction Hsim as [|t h ts hsl Hth Hr IHr];
    try reflexivity; cbn [forallb] in Hok, Htx; apply andb_true_iff in Hok; destruct Hok as [Hot Hor];
    apply andb_true_iff in Htx; destruct Htx as [Hxt Hxr];
    cbn [flat_map]; rewrite !map_app, (IHr Hor Hxr); f_equal; apply (corr2_tok _ ne hs); try assumption;
    intros ne' hs' ts' hs'l H1 H2 H3 H4; try exact I; now apply (IHd ne' hs').
Qed.

(* ---------- the source list ---------- *)
Definition hl0 (t : tok) : htok := lift [] (btok_of t).

Definition wf_src (i : sitem) : Prop :=
  forallb okd (stoks i) = true /\
  match i with
  | SToks l => forallb (src_tok fs) l = true
  | SCall t lp a more rp =>
      is_id t = true /\ is_def t = false /\ is_punct "(" lp = true /\ is_punct ")" rp = true /\
      forallb (arg_tok fs) a = true /\
      Forall (fun ca => is_punct "," (fst ca) = true /\ forallb (arg_tok fs) (snd ca) = true) more /\
      exists n ps b, flookup fs (tt t) = Some (FFun n ps b) /\ List.length ps = S (List.length more)
  end.

(* arguments are inert: not macro names *)
Lemma arg_tok_facts t : arg_tok fs t = true ->
  okd t = true /\ plain_arg t = true /\ (is_id t = true -> flookup fs (tt t) = None).
Proof.
  unfold arg_tok. rewrite !andb_true_iff, !negb_true_iff. intros [[[Ho _] Hm] Hp]. repeat split; try assumption.
  intros Hid. rewrite Hid in Hm. cbn in Hm. unfold is_macname in Hm. destruct (flookup fs (tt t)); [discriminate|reflexivity].
Qed.

Lemma E_inert d ne t : arg_tok fs t = true -> somes ne = [] -> E tb d ne t = [t].
Proof.
  intros Ha Hne. destruct (arg_tok_facts t Ha) as (Ho & _ & Hm). rewrite E_eq.
  destruct (is_id t) eqn:Hid; cbn [negb]; [|reflexivity].
  assert (Hx : tx t = true) by (unfold okd in Ho; rewrite !andb_true_iff in Ho; tauto).
  rewrite Hx. cbn [negb orb].
  replace (in_noexp (tt t) ne) with false.
  2:{ symmetry. apply not_true_is_false. intros H. apply in_noexp_spec in H. rewrite Hne in H. contradiction. }
  rewrite get_mtable2, (Hm eq_refl). reflexivity.
Qed.
Lemma E_inert_list d ne a : forallb (arg_tok fs) a = true -> somes ne = [] -> flat_map (E tb d ne) a = a.
Proof.
  induction a as [|t r IH]; intros H Hne; [reflexivity|]. cbn [forallb] in H. apply andb_true_iff in H. destruct H as [Ht Hr].
  cbn [flat_map]. rewrite (E_inert _ _ _ Ht Hne), (IH Hr Hne). reflexivity.
Qed.

Lemma arg_okt2 t : arg_tok fs t = true -> okt2 tb t = true.
Proof.
  intros Ha. destruct (arg_tok_facts t Ha) as (Ho & _ & Hm). unfold okt2. rewrite (okt_okt0 t (okd_okt t Ho)), is_fl_funname.
  destruct (is_id t) eqn:Hid; [|reflexivity]. unfold is_funname. now rewrite (Hm eq_refl).
Qed.

Lemma fun_facts n ps b : In (FFun n ps b) fs ->
  forallb (okf fs) b = true /\ ps <> [] /\ nodup_str ps = true /\ mem "__VA_ARGS__" ps = false /\
  forallb no_ops b = true /\ (forall t, In t b -> (is_id t || negb (mem (tt t) ps)) = true) /\
  (forall t, In t b -> String.eqb (tt t) "" = false).
Proof.
  intros Hin. pose proof (Hwf_each _ Hin) as Hf. unfold wf_fdef in Hf. cbn [fname fbody] in Hf.
  rewrite !andb_true_iff, !negb_true_iff in Hf. destruct Hf as [[_ Hb] [[[[Hl Hnd] Hva] Hh] Hp]].
  assert (Hokd : forall t, In t b -> okd t = true).
  { intros t Ht. rewrite forallb_forall in Hb. specialize (Hb t Ht). unfold okf in Hb. apply andb_true_iff in Hb. tauto. }
  repeat split; try assumption.
  - intros ->. discriminate.
  - rewrite forallb_forall. intros t Ht. unfold no_ops. rewrite forallb_forall in Hh. specialize (Hh t Ht).
    unfold is_txt. rewrite Hh. cbn. specialize (Hokd t Ht). unfold okd, okb in Hokd.
    rewrite !andb_true_iff in Hokd. cbn [btok_of bt] in Hokd. tauto.
  - intros t Ht. rewrite forallb_forall in Hp. now apply Hp.
  - intros t Ht. specialize (Hokd t Ht). unfold okd, okb in Hokd. rewrite !andb_true_iff, !negb_true_iff in Hokd.
    cbn [btok_of bt] in Hokd. tauto.
Qed.

(* ---------- implementation side: the static conditions give wf_sitem ---------- *)
Lemma src_wfd l : forallb (src_tok fs) l = true -> wfd tb l = true.
Proof.
  induction l as [|t r IH]; intros H; [reflexivity|]. cbn [forallb] in H. apply andb_true_iff in H. destruct H as [Ht Hr].
  unfold src_tok in Ht. rewrite andb_true_iff, negb_true_iff in Ht. destruct Ht as [Hf Hd].
  cbn [wfd]. unfold is_def in Hd. rewrite Hd.
  pose proof (okf_okt2 t Hf) as Ho. unfold okt2 in Ho. rewrite !andb_true_iff in Ho.
  destruct Ho as [_ Hn]. unfold okf in Hf. apply andb_true_iff in Hf. destruct Hf as [Hokd _].
  rewrite (okd_tx t Hokd), Hn. now apply IH.
Qed.

Lemma sm_okt2 ps al body :
  forallb (okt2 tb) body = true -> Forall (fun a => forallb (okt2 tb) a = true) al ->
  forallb (okt2 tb) (sm ps al body) = true.
Proof.
  intros Hb Hal. unfold sm. rewrite forallb_forall. intros x Hx. apply in_flat_map in Hx.
  destruct Hx as (t & Ht & Hx). rewrite forallb_forall in Hb.
  destruct (index_of (tt t) ps 0) as [i|].
  - assert (Hi : i < List.length al \/ List.length al <= i) by lia.
    destruct Hi as [Hi|Hi]; [|rewrite nth_overflow in Hx by assumption; contradiction].
    rewrite Forall_forall in Hal. specialize (Hal _ (nth_In al [] Hi)). rewrite forallb_forall in Hal.
    destruct (nth i al []) as [|y r] eqn:En; [contradiction|]. cbn [set_w_hd] in Hx.
    destruct Hx as [<-|Hx]; [|apply Hal; now right].
    specialize (Hal y (or_introl eq_refl)). exact Hal.
  - destruct Hx as [<-|[]]. now apply Hb.
Qed.

Lemma sm_tx ps al body :
  forallb tx body = true -> Forall (fun a => forallb tx a = true) al -> forallb tx (sm ps al body) = true.
Proof.
  intros Hb Hal. unfold sm. rewrite forallb_forall. intros x Hx. apply in_flat_map in Hx.
  destruct Hx as (t & Ht & Hx). rewrite forallb_forall in Hb.
  destruct (index_of (tt t) ps 0) as [i|].
  - assert (Hi : i < List.length al \/ List.length al <= i) by lia.
    destruct Hi as [Hi|Hi]; [|rewrite nth_overflow in Hx by assumption; contradiction].
    rewrite Forall_forall in Hal. specialize (Hal _ (nth_In al [] Hi)). rewrite forallb_forall in Hal.
    destruct (nth i al []) as [|y r] eqn:En; [contradiction|]. cbn [set_w_hd] in Hx.
    destruct Hx as [<-|Hx]; [|apply Hal; now right].
    specialize (Hal y (or_introl eq_refl)). exact Hal.
  - destruct Hx as [<-|[]]. now apply Hb.
Qed.

Lemma okt2_set_w w t : okt2 tb (set_w w t) = okt2 tb t.
Proof. reflexivity. Qed.

Lemma wf_src_sitem lead cat_fix str_white resub_fix va_fix d i :
  wf_src i -> wf_sitem lead cat_fix str_white resub_fix va_fix tb d [None] i.
Proof.
  intros [Hokd Hi]. destruct i as [l|t lp a more rp]; cbn [wf_sitem].
  - now apply src_wfd.
  - destruct Hi as (Hid & Hdef & Hlp & Hrp & Ha & Hmore & n & ps & b & Hfl & Hlen).
    assert (Hto : okd t = true) by (cbn [stoks forallb] in Hokd; apply andb_true_iff in Hokd; tauto).
    assert (Hx : tx t = true) by (unfold okd in Hto; rewrite !andb_true_iff in Hto; tauto).
    assert (Hargs : Forall (fun x => forallb (arg_tok fs) x = true) (a :: map snd more)).
    { constructor; [assumption|]. rewrite Forall_forall in Hmore |- *. intros x Hxin. apply in_map_iff in Hxin.
      destruct Hxin as (ca & <- & Hca). now apply Hmore. }
    split; [assumption|]. split; [unfold is_def in Hdef; rewrite Hid in Hdef; exact Hdef|].
    split; [rewrite Hx; reflexivity|]. split; [now apply is_punct_txt|].
    split.
    { apply (forallb_impl (arg_tok fs) plain_arg); [|assumption]. intros x Hxa. now destruct (arg_tok_facts x Hxa) as (_ & Hp & _). }
    split.
    { unfold more_ok. rewrite Forall_forall in Hmore |- *. intros ca Hca. destruct (Hmore ca Hca) as [Hc Hal]. split; [now apply is_punct_txt|].
      apply (forallb_impl (arg_tok fs) plain_arg); [|assumption]. intros x Hxa. now destruct (arg_tok_facts x Hxa) as (_ & Hp & _). }
    split; [now apply is_punct_txt|].
    split.
    { rewrite Forall_forall in Hargs |- *. intros x Hxin. apply (forallb_impl (arg_tok fs) (okt2 tb)); [apply arg_okt2|now apply Hargs]. }
    destruct (fun_facts n ps b (flookup_In _ _ _ Hfl)) as (Hb & Hps & Hnd & Hva & Hno & Hpar & Hne).
    exists (fmacro n ps b), (sm ps (a :: map snd more) (set_w_hd false b)).
    split; [rewrite get_mtable2, Hfl; reflexivity|]. split; [reflexivity|]. split; [reflexivity|].
    split.
    { apply replace_fun_fmacro; try assumption.
      - cbn [List.length]. now rewrite map_length.
      - intros x Hxin. rewrite Forall_forall in Hargs. apply E_inert_list; [now apply Hargs|reflexivity]. }
    apply okt2_set_w_hd. apply sm_okt2.
    + apply okt2_set_w_hd. apply (forallb_impl (okf fs) (okt2 tb)); [apply okf_okt2|assumption].
    + rewrite Forall_forall in Hargs |- *. intros x Hxin. apply (forallb_impl (arg_tok fs) (okt2 tb)); [apply arg_okt2|now apply Hargs].
Qed.

(* ---------- specification side ---------- *)
Definition hmap_more (more : list (tok * list tok)) : list (htok * list htok) :=
  map (fun ca => (hl0 (fst ca), map hl0 (snd ca))) more.
Lemma map_flat_more more : map hl0 (flat_more more) = hflat_more (hmap_more more).
Proof. induction more as [|[c a] r IH]; cbn; [reflexivity|]. now rewrite map_app, IH. Qed.
Lemma map_snd_hmap more : map snd (hmap_more more) = map (map hl0) (map snd more).
Proof. unfold hmap_more. rewrite !map_map. reflexivity. Qed.

Lemma sel_combine_in ps : forall acts s v, sel (combine ps acts) s = Some v -> In v acts.
Proof.
  induction ps as [|p r IH]; intros [|a acts] s v; cbn; try discriminate.
  destruct (String.eqb p s); [intros H; injection H as <-; now left|]. intros H. right. eapply IH, H.
Qed.
Lemma sel_combine_index ps : forall acts s k i,
  index_of s ps k = Some i -> List.length acts = List.length ps -> sel (combine ps acts) s = Some (nth (i - k) acts []).
Proof.
  induction ps as [|p r IH]; intros [|a acts] s k i; cbn; try discriminate.
  destruct (String.eqb p s); [intros H _; injection H as <-; now rewrite Nat.sub_diag|].
  intros H Hl. pose proof (index_of_range _ _ _ _ H) as Hr.
  rewrite (IH acts s (S k) i H) by lia. replace (i - k) with (S (i - S k)) by lia. reflexivity.
Qed.
Lemma sel_combine_none ps : forall acts s k, index_of s ps k = None -> sel (combine ps acts) s = None.
Proof.
  induction ps as [|p r IH]; intros [|a acts] s k; cbn; try reflexivity.
  destruct (String.eqb p s); [discriminate|]. apply IH.
Qed.

Definition sitem_out (d : nat) (i : sitem) : list htok :=
  match i with
  | SToks l => flat_map (ES stb (S d)) (map hl0 l)
  | SCall t lp a more rp =>
      match flookup fs (tt t) with
      | Some (FFun n ps b) =>
          flat_map (ES stb d)
            (hset_w (tw t) (hsadd [tt t] (subst_out (fun a => a) (combine ps (map (map hl0) (a :: map snd more))) (map btok_of b))))
      | _ => []
      end
  end.

Lemma okd_okh0 t : okd t = true -> okh (hl0 t) = true.
Proof. intros H. apply okb_okh. now apply okd_okb. Qed.

Lemma arg_inert t : arg_tok fs t = true -> inert stb (hl0 t) = true.
Proof.
  intros Ha. destruct (arg_tok_facts t Ha) as (Ho & _ & Hm). unfold inert. rewrite (okd_okh0 t Ho). cbn [andb hl0 lift btok_of hk ht bk bt].
  change (tkind_eqb (tk t) KId) with (is_id t). destruct (is_id t) eqn:Hid; [|reflexivity]. cbn [negb orb].
  rewrite slookup2, (Hm eq_refl). reflexivity.
Qed.
Lemma arg_hplain t : arg_tok fs t = true -> hplain (hl0 t) = true.
Proof.
  intros Ha. destruct (arg_tok_facts t Ha) as (_ & Hp & _). unfold plain_arg in Hp.
  rewrite !andb_true_iff, !negb_true_iff in Hp. destruct Hp as [[H1 H2] H3].
  unfold hplain, h_is. cbn [hl0 lift btok_of hk ht bk bt]. unfold is_txt in *. rewrite H1, H2, H3. now rewrite !andb_false_r.
Qed.

Lemma src_all_hs l : forallb (src_tok fs) l = true -> all_hs stb [] (map hl0 l).
Proof.
  intros H x Hx. apply in_map_iff in Hx. destruct Hx as (t & <- & Ht). rewrite forallb_forall in H. specialize (H t Ht).
  unfold src_tok in H. rewrite andb_true_iff in H. destruct H as [Hf _].
  split; [reflexivity|]. unfold okf in Hf. rewrite andb_true_iff, negb_true_iff in Hf. destruct Hf as [Ho Hn].
  split; [now apply okd_okh0|]. change (is_flh stb (hl0 t)) with (is_flb stb (btok_of t)). now rewrite is_flb_funname.
Qed.

(* the tokens that come out of subst for an invocation all carry the hide set [name] after hsadd *)
Lemma call_all_hs name w ps hargs b :
  forallb (okf fs) b = true -> Forall (fun a => forall x, In x a -> hh x = [] /\ okh x = true /\ is_flh stb x = false) hargs ->
  all_hs stb [name] (hset_w w (hsadd [name] (subst_out (fun a => a) (combine ps hargs) (map btok_of b)))).
Proof.
  intros Hb Hargs.
  assert (Hall : forall y, In y (hsadd [name] (subst_out (fun a => a) (combine ps hargs) (map btok_of b))) ->
                           hh y = [name] /\ okh y = true /\ is_flh stb y = false).
  { intros y Hy. unfold hsadd in Hy. apply in_map_iff in Hy. destruct Hy as (z & <- & Hz). cbn [hh hk ht].
    assert (Hz' : hh z = [] /\ okh z = true /\ is_flh stb z = false).
    { clear w. induction b as [|t r IH]; cbn [map subst_out] in Hz; [contradiction|].
      cbn [forallb] in Hb. apply andb_true_iff in Hb. destruct Hb as [Ht Hr].
      destruct (Spec.C03.param (combine ps hargs) (btok_of t)) as [a|] eqn:Hp.
      - apply in_app_or in Hz. destruct Hz as [Hz|Hz]; [|now apply IH].
        unfold Spec.C03.param in Hp. destruct (tkind_eqb (bk (btok_of t)) KId); [|discriminate].
        apply sel_combine_in in Hp. rewrite Forall_forall in Hargs. specialize (Hargs a Hp).
        destruct a as [|y0 r0]; cbn [hset_w] in Hz; [contradiction|]. destruct Hz as [<-|Hz]; [|apply Hargs; now right].
        destruct (Hargs y0 (or_introl eq_refl)) as (H1 & H2 & H3). repeat split; assumption.
      - destruct Hz as [<-|Hz]; [|now apply IH]. split; [reflexivity|].
        unfold okf in Ht. rewrite andb_true_iff, negb_true_iff in Ht. destruct Ht as [Ho Hn].
        split; [now apply okd_okh0|]. change (is_flh stb (lift [] (btok_of t))) with (is_flb stb (btok_of t)). now rewrite is_flb_funname. }
    destruct Hz' as (H1 & H2 & H3). rewrite H1. repeat split; assumption. }
  intros x Hx. destruct (hsadd [name] (subst_out (fun a => a) (combine ps hargs) (map btok_of b))) as [|y r] eqn:E; cbn [hset_w] in Hx; [contradiction|].
  destruct Hx as [<-|Hx]; [|apply Hall; now right]. destruct (Hall y (or_introl eq_refl)) as (H1 & H2 & H3). repeat split; assumption.
Qed.

Lemma in_snames k m : slookup stb k = Some m -> In k (snames stb).
Proof. apply slookup_In. Qed.

Lemma subst_out_no_pm ap b :
  (forall t, In t b -> String.eqb (bt t) "" = false) ->
  (forall a, In a (map snd ap) -> forall x, In x a -> String.eqb (ht x) "" = false) ->
  filter (fun t => negb (is_pm t)) (subst_out (fun a => a) ap b) = subst_out (fun a => a) ap b.
Proof.
  intros Hb Ha. apply forallb_filter_id. rewrite forallb_forall. intros x Hx.
  assert (Hne : String.eqb (ht x) "" = false).
  { induction b as [|t r IH]; cbn [subst_out] in Hx; [contradiction|].
    destruct (Spec.C03.param ap t) as [a|] eqn:Hp.
    - apply in_app_or in Hx. destruct Hx as [Hx|Hx]; [|apply IH; [intros; apply Hb; now right|assumption]].
      unfold Spec.C03.param in Hp. destruct (tkind_eqb (bk t) KId); [|discriminate].
      assert (Hin : In a (map snd ap)).
      { clear -Hp. induction ap as [|[k v] r IH]; cbn in *; [discriminate|]. destruct (String.eqb k (bt t)); [injection Hp as <-; now left|right; now apply IH]. }
      destruct a as [|y0 r0]; cbn [hset_w] in Hx; [contradiction|]. destruct Hx as [<-|Hx]; [|apply (Ha _ Hin); now right].
      cbn [ht]. apply (Ha _ Hin). now left.
    - destruct Hx as [<-|Hx]; [cbn; apply Hb; now left|apply IH; [intros; apply Hb; now right|assumption]]. }
  unfold is_pm. rewrite Hne. now rewrite andb_false_r.
Qed.

Definition max_arg_len (al : list (list tok)) : nat := list_max (map (@List.length tok) al).
Lemma max_arg_len_ge al a : In a al -> List.length a <= max_arg_len al.
Proof.
  intros H. unfold max_arg_len. pose proof (list_max_le (map (@List.length tok) al) (list_max (map (@List.length tok) al))) as [Hle _].
  specialize (Hle (le_n _)). rewrite Forall_forall in Hle. apply Hle. now apply in_map.
Qed.

Lemma S_item d i :
  wf_src i -> List.length (snames stb) <= S d ->
  exists n m, forall f, m <= f -> forall ys r, expandS stb f ys = Ok r ->
    expandS stb (n + f) (map hl0 (stoks i) ++ ys) = Ok (sitem_out d i ++ r).
Proof.
  intros [Hokd Hi] Hlen. destruct i as [l|t lp a more rp]; cbn [stoks sitem_out].
  - (* plain tokens *)
    destruct (sscan_all stb HSobj2 (S d) (map hl0 l) [] (src_all_hs l Hi)) as (n & Hn).
    { repeat split; [constructor|intros x []|cbn; lia]. }
    exists n, 0. intros f _ ys r Hr. now apply Hn.
  - destruct Hi as (Hid & Hdef & Hlp & Hrp & Ha & Hmore & n0 & ps & b & Hfl & Hlps).
    rewrite Hfl.
    destruct (fun_facts n0 ps b (flookup_In _ _ _ Hfl)) as (Hb & Hps & Hnd & Hva & Hno & Hpar & Hne).
    pose proof (flookup_name _ _ _ Hfl) as Hname. cbn [fname] in Hname.
    assert (Hto : okd t = true) by (cbn [stoks forallb] in Hokd; apply andb_true_iff in Hokd; tauto).
    set (al := a :: map snd more).
    assert (Hargs : Forall (fun x => forallb (arg_tok fs) x = true) al).
    { constructor; [assumption|]. rewrite Forall_forall in Hmore |- *. intros x Hxin. apply in_map_iff in Hxin.
      destruct Hxin as (ca & <- & Hca). now apply Hmore. }
    set (hargs := map (map hl0) al). set (ap := combine ps hargs). set (body := map btok_of b).
    assert (Hlook : slookup stb (tt t) = Some (SFun ps false body)) by (rewrite slookup2, Hfl; reflexivity).
    (* the substituted replacement list is scanned under the hide set [name] *)
    destruct (sscan_all stb HSobj2 d (hset_w (tw t) (hsadd [tt t] (subst_out (fun a => a) ap body))) [tt t]) as (n1 & Hn1).
    { apply call_all_hs; [assumption|]. rewrite Forall_forall. intros ha Hha. unfold hargs in Hha. apply in_map_iff in Hha.
      destruct Hha as (x & <- & Hx). intros y Hy. apply in_map_iff in Hy. destruct Hy as (z & <- & Hz).
      rewrite Forall_forall in Hargs. pose proof (Hargs x Hx) as Hxa. rewrite forallb_forall in Hxa. specialize (Hxa z Hz).
      destruct (arg_tok_facts z Hxa) as (Hoz & _ & Hmz). split; [reflexivity|]. split; [now apply okd_okh0|].
      change (is_flh stb (hl0 z)) with (is_flb stb (btok_of z)). rewrite is_flb_funname.
      destruct (is_id z) eqn:Hidz; [|reflexivity]. unfold is_funname. now rewrite (Hmz eq_refl). }
    { repeat split.
      - constructor; [intros []|constructor].
      - intros x [<-|[]]. eapply in_snames, Hlook.
      - cbn [List.length]. lia. }
    exists (S n1), (S (max_arg_len al)). intros f Hf ys r Hr.
    cbn [map]. rewrite !map_app, map_flat_more. cbn [map app plus].
    replace ((map hl0 a ++ hflat_more (hmap_more more) ++ [hl0 rp]) ++ ys)
      with (map hl0 a ++ hflat_more (hmap_more more) ++ hl0 rp :: ys) by (now rewrite <- !app_assoc).
    rewrite (X_call stb (n1 + f) (hl0 t) (hl0 lp) (map hl0 a) (hmap_more more) (hl0 rp) ys ps body ap (subst_out (fun a => a) ap body)).
    + cbn [hl0 lift btok_of hw ht]. now apply Hn1.
    + now apply okd_okh0.
    + exact Hid.
    + reflexivity.
    + reflexivity.
    + exact Hlook.
    + exact Hlp.
    + rewrite forallb_forall. intros x Hx. apply in_map_iff in Hx. destruct Hx as (z & <- & Hz).
      apply arg_hplain. rewrite forallb_forall in Ha. now apply Ha.
    + unfold hmore_ok, hmap_more. rewrite Forall_forall in Hmore |- *. intros ca Hca. apply in_map_iff in Hca.
      destruct Hca as (ca0 & <- & Hca0). cbn [fst snd]. destruct (Hmore ca0 Hca0) as [Hc Hal]. split; [exact Hc|].
      rewrite forallb_forall. intros x Hx. apply in_map_iff in Hx. destruct Hx as (z & <- & Hz).
      apply arg_hplain. rewrite forallb_forall in Hal. now apply Hal.
    + exact Hrp.
    + unfold body. destruct b as [|t0 r0]; [reflexivity|]. cbn [map starts_with_cat].
      cbn [forallb] in Hno. apply andb_true_iff in Hno. destruct Hno as [Ht0 _]. unfold no_ops in Ht0.
      rewrite andb_true_iff, !negb_true_iff in Ht0. destruct Ht0 as [_ H2]. unfold b_is, is_txt in *. cbn [btok_of bt]. rewrite H2. apply andb_false_r.
    + unfold bind_args. destruct ps as [|p0 ps']; [contradiction|].
      rewrite map_snd_hmap. change (map hl0 a :: map (map hl0) (map snd more)) with hargs.
      replace (Nat.eqb (List.length hargs) (List.length (p0 :: ps'))) with true; [reflexivity|].
      symmetry. apply Nat.eqb_eq. unfold hargs, al. rewrite map_length. cbn [List.length]. rewrite map_length. exact (eq_sym Hlps).
    + unfold subst_all. rewrite (subst_funlike (expandS stb (n1 + f)) (fun a => a) ap body []).
      * cbn [app]. rewrite subst_out_no_pm; [reflexivity| |].
        -- intros x Hx. unfold body in Hx. apply in_map_iff in Hx. destruct Hx as (z & <- & Hz). cbn [btok_of bt]. now apply Hne.
        -- intros ha Hha x Hx. unfold ap in Hha.
           assert (Hin : In ha hargs) by (eapply In_snd_combine, Hha).
           unfold hargs in Hin. apply in_map_iff in Hin. destruct Hin as (xa & <- & Hxa).
           apply in_map_iff in Hx. destruct Hx as (z & <- & Hz). cbn [hl0 lift btok_of ht bt].
           rewrite Forall_forall in Hargs. pose proof (Hargs xa Hxa) as Hal. rewrite forallb_forall in Hal.
           destruct (arg_tok_facts z (Hal z Hz)) as (Hoz & _ & _). unfold okd, okb in Hoz.
           rewrite !andb_true_iff, !negb_true_iff in Hoz. cbn [btok_of bt] in Hoz. tauto.
      * unfold body. rewrite forallb_forall. intros x Hx. apply in_map_iff in Hx. destruct Hx as (z & <- & Hz).
        rewrite forallb_forall in Hno. specialize (Hno z Hz). unfold no_ops, nohash, is_txt in *. cbn [btok_of bt]. exact Hno.
      * intros t0 a0 Ht0 Hp. unfold Spec.C03.param in Hp. destruct (tkind_eqb (bk t0) KId); [|discriminate].
        apply sel_combine_in in Hp. unfold hargs in Hp. apply in_map_iff in Hp. destruct Hp as (xa & <- & Hxa).
        apply keep_all.
        -- rewrite forallb_forall. intros x Hx. apply in_map_iff in Hx. destruct Hx as (z & <- & Hz).
           apply arg_inert. rewrite Forall_forall in Hargs. pose proof (Hargs xa Hxa) as Hal. rewrite forallb_forall in Hal. now apply Hal.
        -- rewrite map_length. pose proof (max_arg_len_ge al xa Hxa). lia.
Qed.

Lemma S_src d items :
  Forall wf_src items -> List.length (snames stb) <= S d ->
  exists n m, forall f, m <= f -> forall ys r, expandS stb f ys = Ok r ->
    expandS stb (n + f) (map hl0 (flat_map stoks items) ++ ys) = Ok (flat_map (sitem_out d) items ++ r).
Proof.
  intros Hwfi Hlen. induction Hwfi as [|i items Hi Hitems IH].
  - exists 0, 0. intros f _ ys r Hr. exact Hr.
  - destruct IH as (n2 & m2 & H2). destruct (S_item d i Hi Hlen) as (n1 & m1 & H1).
    exists (n1 + n2), (m1 + m2). intros f Hf ys r Hr. cbn [flat_map]. rewrite map_app, <- !app_assoc.
    rewrite <- Nat.add_assoc. apply H1; [lia|]. apply H2; [lia|assumption].
Qed.

(* ---------- the two outputs have the same spellings ---------- *)
Lemma EI_plain d ne l : forallb (src_tok fs) l = true -> EI tb d ne l = flat_map (E tb d ne) l.
Proof.
  induction l as [|t r IH]; intros H; [reflexivity|]. cbn [forallb] in H. apply andb_true_iff in H. destruct H as [Ht Hr].
  unfold src_tok in Ht. rewrite andb_true_iff, negb_true_iff in Ht. destruct Ht as [_ Hd].
  cbn [EI flat_map]. unfold is_def in Hd. rewrite Hd. now rewrite IH.
Qed.

Lemma sim_hl0 l : Forall2 (sim []) l (map hl0 l).
Proof. induction l as [|t r IH]; cbn; constructor; [repeat split|assumption]. Qed.

Lemma sim_hsadd name l hl : Forall2 (sim []) l hl -> Forall2 (sim [name]) l (hsadd [name] hl).
Proof.
  intros H. induction H as [|t h l hl (H1 & H2 & H3) Hr IH]; cbn; constructor; [|assumption].
  repeat split; cbn; try assumption. now rewrite H3.
Qed.

Lemma index_of_none_mem s l : forall k, mem s l = false -> index_of s l k = None.
Proof.
  induction l as [|a r IH]; intros k; cbn [index_of]; [reflexivity|]. unfold mem. cbn [existsb].
  rewrite orb_false_iff. intros [H1 H2]. rewrite String.eqb_sym, H1. now apply IH.
Qed.

Definition same_tok (x y : tok) : Prop := tk x = tk y /\ tt x = tt y.

Lemma sim_sm name ps al b b' :
  Forall2 same_tok b' b -> List.length al = List.length ps ->
  (forall t, In t b -> (is_id t || negb (mem (tt t) ps)) = true) ->
  Forall2 (sim [name]) (sm ps al b') (hsadd [name] (subst_out (fun a => a) (combine ps (map (map hl0) al)) (map btok_of b))).
Proof.
  intros Hsame Hlen Hpar. induction Hsame as [|x' x b' b (Hk & Ht) Hr IH]; [constructor|].
  cbn [sm flat_map map subst_out]. fold (sm ps al b').
  assert (Hpar' : forall t, In t b -> (is_id t || negb (mem (tt t) ps)) = true) by (intros; apply Hpar; now right).
  specialize (IH Hpar'). specialize (Hpar x (or_introl eq_refl)).
  unfold Spec.C03.param. cbn [btok_of bk bt]. change (tkind_eqb (tk x) KId) with (is_id x). rewrite Ht.
  destruct (is_id x) eqn:Hid.
  - destruct (index_of (tt x) ps 0) as [i|] eqn:Hi.
    + rewrite (sel_combine_index ps (map (map hl0) al) (tt x) 0 i Hi) by (now rewrite map_length).
      rewrite Nat.sub_0_r. unfold hsadd. rewrite map_app. fold (hsadd [name]). apply Forall2_app; [|exact IH].
      change (nth i (map (map hl0) al) []) with (nth i (map (map hl0) al) (map hl0 [])). rewrite map_nth.
      apply sim_hsadd. apply sim_set_w. apply sim_hl0.
    + rewrite (sel_combine_none ps _ (tt x) 0 Hi). cbn [app hsadd map]. constructor; [|exact IH].
      repeat split; cbn; auto.
  - cbn in Hpar. apply negb_true_iff in Hpar. rewrite (index_of_none_mem _ _ 0 Hpar).
    cbn [app hsadd map]. constructor; [|exact IH]. repeat split; cbn; auto.
Qed.

Lemma same_set_w w b : Forall2 same_tok (set_w_hd w b) b.
Proof.
  destruct b as [|t r]; cbn; constructor; [split; reflexivity|].
  induction r; constructor; [split; reflexivity|assumption].
Qed.

Lemma item_corr lead cat_fix str_white resub_fix va_fix d i :
  wf_src i ->
  map sp (item_out lead cat_fix str_white resub_fix va_fix tb d [None] i) = map sph (sitem_out d i).
Proof.
  intros [Hokd Hi]. destruct i as [l|t lp a more rp]; cbn [item_out sitem_out].
  - rewrite EI_plain by assumption.
    apply (corr2 (S d) [None] []); [intros s; reflexivity| | |apply sim_hl0].
    + apply (forallb_impl (src_tok fs) (okt2 tb)); [|assumption].
      intros x Hx. unfold src_tok in Hx. apply andb_true_iff in Hx. destruct Hx as [Hf _]. now apply okf_okt2.
    + apply (forallb_impl okd tx); [apply okd_tx|exact Hokd].
  - destruct Hi as (Hid & Hdef & Hlp & Hrp & Ha & Hmore & n0 & ps & b & Hfl & Hlps).
    destruct (fun_facts n0 ps b (flookup_In _ _ _ Hfl)) as (Hb & Hps & Hnd & Hva & Hno & Hpar & Hne).
    pose proof (flookup_name _ _ _ Hfl) as Hname. cbn [fname] in Hname. subst n0.
    assert (Hargs : Forall (fun x => forallb (arg_tok fs) x = true) (a :: map snd more)).
    { constructor; [assumption|]. rewrite Forall_forall in Hmore |- *. intros x Hxin. apply in_map_iff in Hxin.
      destruct Hxin as (ca & <- & Hca). now apply Hmore. }
    assert (Hlen : List.length (a :: map snd more) = List.length ps) by (cbn [List.length]; now rewrite map_length).
    unfold call_out. rewrite get_mtable2, Hfl. cbn [option_map macro_of_fdef].
    rewrite replace_fun_fmacro; try assumption.
    2:{ intros x Hxin. rewrite Forall_forall in Hargs. apply E_inert_list; [now apply Hargs|reflexivity]. }
    cbn [fmacro m_name].
    apply (corr2 d [Some (tt t); None] [tt t]).
    + intros s. cbn [in_noexp existsb]. unfold mem. cbn [existsb]. now rewrite String.eqb_sym.
    + apply okt2_set_w_hd. apply sm_okt2.
      * apply okt2_set_w_hd. apply (forallb_impl (okf fs) (okt2 tb)); [apply okf_okt2|assumption].
      * rewrite Forall_forall in Hargs |- *. intros x Hxin. apply (forallb_impl (arg_tok fs) (okt2 tb)); [apply arg_okt2|now apply Hargs].
    + apply tx_set_w_hd. apply sm_tx.
      * apply tx_set_w_hd. apply (forallb_impl (okf fs) tx); [|assumption].
        intros x Hx. unfold okf in Hx. apply andb_true_iff in Hx. destruct Hx as [Hx _]. now apply okd_tx.
      * rewrite Forall_forall in Hargs |- *. intros x Hxin. apply (forallb_impl (arg_tok fs) tx); [|now apply Hargs].
        intros z Hz. destruct (arg_tok_facts z Hz) as (Hoz & _ & _). now apply okd_tx.
    + apply sim_set_w. apply sim_sm; [apply same_set_w|assumption|assumption].
Qed.

(* ---------- the table is one S accepts ---------- *)
Lemma no_va b : forallb okd b = true -> existsb (b_is KId "__VA_ARGS__") (map btok_of b) = false.
Proof.
  intros Hb. apply not_true_is_false. intros He. apply existsb_exists in He.
  destruct He as (x & Hx & He). apply in_map_iff in Hx. destruct Hx as (t & <- & Ht).
  rewrite forallb_forall in Hb. specialize (Hb t Ht). unfold okd in Hb. rewrite !andb_true_iff, negb_true_iff in Hb.
  destruct Hb as [_ Hv]. unfold b_is in He. cbn [btok_of bk bt] in He. unfold is_id in Hv. congruence.
Qed.
Lemma hash_ok_none ps (b : list btok) : (forall t, In t b -> String.eqb (bt t) "#" = false) -> hash_ok ps b = true.
Proof.
  induction b as [|t r IH]; intros H; [reflexivity|]. cbn [hash_ok].
  replace (b_is KOp "#" t) with false by (unfold b_is; rewrite (H t (or_introl eq_refl)); now rewrite andb_false_r).
  apply IH. intros x Hx. apply H. now right.
Qed.

Lemma okf_okd_all b : forallb (okf fs) b = true -> forallb okd b = true.
Proof. apply forallb_impl. intros x Hx. unfold okf in Hx. apply andb_true_iff in Hx. tauto. Qed.

Lemma table_ok2 : table_ok stb = true.
Proof.
  unfold table_ok. apply andb_true_iff. split.
  - unfold stable2. rewrite map_map. cbn [fst]. unfold wf_fdefs in Hwf. apply andb_true_iff in Hwf. tauto.
  - rewrite forallb_forall. intros e He. unfold stable2 in He. apply in_map_iff in He.
    destruct He as (f & <- & Hf). cbn [fst snd].
    pose proof (Hwf_each f Hf) as Hw. unfold wf_fdef in Hw. rewrite !andb_true_iff in Hw. destruct Hw as [[Hn Hb] Hk].
    pose proof (okf_okd_all _ Hb) as Hbd.
    assert (Hokb : forallb okb (map btok_of (fbody f)) = true).
    { rewrite forallb_forall. intros x Hx. apply in_map_iff in Hx. destruct Hx as (t & <- & Ht).
      apply okd_okb. rewrite forallb_forall in Hbd. now apply Hbd. }
    destruct (no_cat_facts _ Hokb) as (H1 & H2 & H3 & H4).
    destruct f as [n b|n ps b]; cbn [fname fbody smacro_of_fdef body_of] in *.
    + rewrite Hn, H1, H2, H3, H4, (no_va b Hbd). reflexivity.
    + rewrite !andb_true_iff, !negb_true_iff in Hk. destruct Hk as [[[[Hl Hnd] Hva] Hh] Hp].
      rewrite Hn, H1, H2, H3, H4, Hnd, Hva, (no_va b Hbd). cbn [negb andb orb].
      apply hash_ok_none. intros x Hx. apply in_map_iff in Hx. destruct Hx as (t & <- & Ht). cbn [btok_of bt].
      rewrite forallb_forall in Hh. specialize (Hh t Ht). now apply negb_true_iff in Hh.
Qed.

Lemma outs_corr lead cat_fix str_white resub_fix va_fix d items :
  Forall wf_src items ->
  map sp (flat_map (item_out lead cat_fix str_white resub_fix va_fix tb d [None]) items)
  = map sph (flat_map (sitem_out d) items).
Proof.
  intros H. induction H as [|i items Hi Hr IH]; [reflexivity|]. cbn [flat_map]. rewrite !map_app, IH.
  now rewrite (item_corr lead cat_fix str_white resub_fix va_fix d i Hi).
Qed.

(* ---------- main theorem ---------- *)
Theorem funlike_main (lead cat_fix str_white resub_fix va_fix va_whole : bool) (max_level : nat) (items : list sitem) :
  Forall wf_src items -> fs <> [] ->
  S (S (List.length fs)) < max_level ->
  exists n, forall fuel, n <= fuel ->
    exists out,
      expand lead cat_fix str_white resub_fix None false va_fix va_whole max_level tb fuel (flat_map stoks items) = Ok out /\
      run_spec fuel stb (map btok_of (flat_map stoks items)) = Ok (map sp out).
Proof.
  intros Hitems Hne Hlev.
  assert (Hnames : List.length (names tb) = List.length fs) by (unfold names, mtable2; now rewrite !map_length).
  assert (Hsnames : List.length (snames stb) = List.length fs) by (unfold snames, stable2; now rewrite !map_length).
  assert (Hpos : List.length fs <> 0) by (destruct fs; [contradiction|discriminate]).
  set (d := Nat.pred (List.length fs)).
  destruct (expand_src lead cat_fix str_white resub_fix va_fix va_whole max_level tb Hobj2 items) as (n1 & H1).
  { rewrite Hnames. rewrite Forall_forall in Hitems |- *. intros i Hi. now apply wf_src_sitem, Hitems. }
  { now rewrite Hnames. }
  { now rewrite Hnames. }
  destruct (S_src d items Hitems) as (n2 & m2 & H2).
  { rewrite Hsnames. unfold d. lia. }
  exists (n1 + n2 + m2 + 1). intros fuel Hf. eexists. split; [apply H1; lia|].
  unfold run_spec. rewrite table_ok2. cbn [negb].
  assert (Hokb : forallb okb (map btok_of (flat_map stoks items)) = true).
  { rewrite forallb_forall. intros x Hx. apply in_map_iff in Hx. destruct Hx as (t & <- & Ht).
    apply in_flat_map in Ht. destruct Ht as (i & Hi & Ht). rewrite Forall_forall in Hitems.
    destruct (Hitems i Hi) as [Hokd _]. apply okd_okb. rewrite forallb_forall in Hokd. now apply Hokd. }
  rewrite sdefined_plain by assumption.
  rewrite map_map. change (fun x => lift [] (btok_of x)) with hl0.
  replace fuel with (n2 + (fuel - n2)) by lia.
  rewrite <- (app_nil_r (map hl0 (flat_map stoks items))).
  rewrite (H2 (fuel - n2)) with (r := []); [| lia |].
  2:{ destruct (fuel - n2) eqn:E; [lia|reflexivity]. }
  rewrite app_nil_r. f_equal. rewrite Hnames. fold d.
  rewrite (outs_corr lead cat_fix str_white resub_fix va_fix d items Hitems). reflexivity.
Qed.

(* ---------- the table as `#define` lines build it ---------- *)
Definition define_line2 (f : fdef) : via * list tok :=
  match f with
  | FObj n b => define_line (n, b)
  | FFun n ps b => (ViaDefine, head true n (Some (map PName ps)) ++ set_w_hd true b)
  end.
Definition params_plain (l : list fdef) : bool :=
  forallb (fun f => match f with FFun _ ps _ => forallb (fun p => negb (ends_dots p)) ps | FObj _ _ => true end) l.

Lemma flookup_fresh pre n rest : nodup_str (map fname pre ++ n :: rest) = true -> flookup pre n = None.
Proof.
  induction pre as [|g r IH]; cbn; [reflexivity|].
  rewrite andb_true_iff, negb_true_iff. intros [Ha Hr].
  destruct (String.eqb (fname g) n) eqn:E; [|now apply IH].
  apply String.eqb_eq in E. exfalso.
  assert (Hin : mem (fname g) (map fname r ++ n :: rest) = true).
  { apply mem_spec. apply in_or_app. right. left. now symmetry. }
  congruence.
Qed.

Lemma line_macro f : In f fs -> params_plain fs = true ->
  macro_of (fst (define_line2 f)) (snd (define_line2 f)) = Ok (macro_of_fdef f).
Proof.
  intros Hin Hpp. pose proof (Hwf_each f Hin) as Hw.
  destruct f as [n b|n ps b]; cbn [define_line2 define_line fst snd macro_of macro_of_fdef].
  - apply define_line_macro. unfold wf_fdef in Hw. cbn [fname fbody] in Hw. rewrite !andb_true_iff in Hw.
    destruct Hw as [[_ Hb] _]. now apply okf_okd_all.
  - destruct (fun_facts n ps b Hin) as (Hb & Hps & Hnd & Hva & Hno & Hpar & Hne).
    apply define_line_fun; try assumption.
    intros p Hp. unfold params_plain in Hpp. rewrite forallb_forall in Hpp. specialize (Hpp _ Hin). cbn in Hpp.
    rewrite forallb_forall in Hpp. specialize (Hpp p Hp). now apply negb_true_iff in Hpp.
Qed.

Lemma build2_acc fs0 : forall i pre,
  nodup_str (map fname (pre ++ fs0)) = true ->
  (forall f, In f fs0 -> macro_of (fst (define_line2 f)) (snd (define_line2 f)) = Ok (macro_of_fdef f)) ->
  build_table i (map define_line2 fs0) (mtable2 pre) = inl (mtable2 (pre ++ fs0)).
Proof.
  induction fs0 as [|f r IH]; intros i pre Hnd Hm; cbn [map build_table].
  - now rewrite app_nil_r.
  - destruct (define_line2 f) as [v l] eqn:El. pose proof (Hm f (or_introl eq_refl)) as Hf. rewrite El in Hf. cbn [fst snd] in Hf.
    rewrite Hf. unfold define.
    assert (Hname : m_name (macro_of_fdef f) = fname f) by (destruct f; reflexivity).
    rewrite Hname, get_mtable2. rewrite (flookup_fresh pre (fname f) (map fname r)).
    2:{ rewrite map_app in Hnd. exact Hnd. }
    cbn [option_map].
    replace (mtable2 pre ++ [(fname f, macro_of_fdef f)]) with (mtable2 (pre ++ [f])).
    2:{ unfold mtable2. now rewrite map_app. }
    rewrite IH; [now rewrite <- app_assoc| |intros g Hg; apply Hm; now right]. now rewrite <- app_assoc.
Qed.

Lemma build2 : params_plain fs = true -> build_table 0 (map define_line2 fs) [] = inl (mtable2 fs).
Proof.
  intros Hpp. apply (build2_acc fs 0 []).
  - unfold wf_fdefs in Hwf. apply andb_true_iff in Hwf. tauto.
  - intros f Hf. now apply line_macro.
Qed.
End FunLike.
