(* C10 — the generic theorems of Proofs/C10.v instantiated with C09's gitignore matcher. *)
From Coq Require Import Bool Arith String List Lia.
From CBI Require Import Lib.Res Model.C01 Spec.C01 Model.C04 Spec.C04 Model.C08 Spec.C08 Proofs.C08 Model.C10 Proofs.C10 Model.C10g.
From CBI Require Model.C09.
Import ListNotations.
Local Open Scope list_scope.

Lemma member_git_under fs root lines f :
  member_git fs root lines f = true -> C09.is_prefix root f = true.
Proof.
  unfold member_git, C09.contains_resolved.
  destruct (C09.lookup (fs9 fs) f) as [[| |t]|]; try discriminate.
  destruct (negb (C09.is_source_file f)); [discriminate|].
  cbn [cb9 C09.cb_roots C09.find_root]. destruct (C09.is_prefix root f); [reflexivity|discriminate].
Qed.

Lemma analyse_git_ok fs fuel root xs ts w cfg r :
  analyse_git fs fuel root xs ts w cfg = Ok r ->
  analyse_m (member_git fs root (xs ++ ts)) fs fuel w cfg = Ok r.
Proof.
  unfold analyse_git, analyse_cli. rewrite (effective_app xs ts).
  destruct (C09.compile false (xs ++ ts)); [auto|discriminate|discriminate].
Qed.

Theorem git_compare fs fuel root w cfg l1 l2 am1 sm1 am2 sm2 :
  analyse_git fs fuel root l1 [] w cfg = Ok (am1, sm1) ->
  analyse_git fs fuel root l2 [] w cfg = Ok (am2, sm2) ->
  am1 = am2 /\
  (forall k, get k sm1 = count (names_of cfg) w am1 (member_git fs root l1) k fs) /\
  (forall k,
     get k sm1 + count (names_of cfg) w am1 (fun f => member_git fs root l2 f && negb (member_git fs root l1 f)) k fs =
     get k sm2 + count (names_of cfg) w am1 (fun f => member_git fs root l1 f && negb (member_git fs root l2 f)) k fs).
Proof.
  intros H1 H2. apply analyse_git_ok in H1, H2. rewrite app_nil_r in H1, H2.
  pose proof (g_assoc_independent _ (member_git fs root) _ _ _ _ _ _ _ _ _ _ H1 H2) as E. subst am2.
  split; [reflexivity|]. split.
  - apply (g_rows _ (member_git fs root) _ _ _ _ _ _ _ H1).
  - apply (g_setmap_change _ (member_git fs root) _ _ _ _ _ _ _ _ _ H1 H2).
Qed.

Theorem git_outside fs root lines names w am :
  setmap_M names w (member_git fs root lines) am fs =
  setmap_M names w (member_git fs root lines) am (filter (fun fl => C09.is_prefix root (fst fl)) fs).
Proof. apply (g_outside _ (member_git fs root)). intros f. apply member_git_under. Qed.

Theorem git_x_equals_toml fs fuel root xs ts w cfg :
  analyse_git fs fuel root xs ts w cfg = analyse_git fs fuel root [] (xs ++ ts) w cfg /\
  analyse_git fs fuel root xs ts w cfg = analyse_git fs fuel root (xs ++ ts) [] w cfg.
Proof.
  unfold analyse_git.
  destruct (g_x_equals_toml (member_git fs root) fs fuel xs ts w cfg) as (_ & E1 & E2).
  rewrite (effective_app xs ts), (effective_app [] (xs ++ ts)), (effective_app (xs ++ ts) []), app_nil_r.
  cbn [app]. rewrite <- E1, <- E2. split; reflexivity.
Qed.

Theorem git_keys_are_spec fs fuel root xs ts w cfg ps :
  fs_wf fs -> accepted_S fs fuel cfg -> C09.compile false (xs ++ ts) = C09.CPats ps ->
  exists am sm, analyse_git fs fuel root xs ts w cfg = Ok (am, sm) /\
    (forall n x, In n (plats_of (names_of cfg) am x) <-> uses_S fs fuel cfg n x) /\
    (forall k, get k sm = count (names_of cfg) w am (member_git fs root (xs ++ ts)) k fs).
Proof.
  intros Hwf Hacc Hc. unfold analyse_git, analyse_cli. rewrite (effective_app xs ts), Hc.
  apply (g_keys_are_spec _ (member_git fs root)); assumption.
Qed.
