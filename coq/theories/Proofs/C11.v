(* C11: on the [safe] domain the argparse model returns exactly what the
   property's scanner returns. *)
From Coq Require Import Ascii String Bool Arith Lia List.
From CBI Require Import Lib.Data Lib.C11_types Gen.C11_tables Model.C11 Spec.C11 Spec.C11safe.
Import ListNotations.
Local Open Scope string_scope.

(* ---------- the generated table, spelled out (breaks when the source changes) ---------- *)
Definition oD : optdef := {| ostrs := ["-D"]; onargs := N1; odest := DDef |}.
Definition oP : optdef := {| ostrs := ["-I"]; onargs := N1; odest := DPath |}.
Definition oS : optdef := {| ostrs := ["-isystem"]; onargs := N1; odest := DSys |}.
Definition oF : optdef := {| ostrs := ["-include"]; onargs := N1; odest := DFile |}.
Definition oO : optdef := {| ostrs := ["-O"]; onargs := NOpt; odest := DIgn |}.
Definition oo : optdef := {| ostrs := ["-o"]; onargs := N1; odest := DIgn |}.
Definition og : optdef := {| ostrs := ["-g"]; onargs := NOpt; odest := DIgn |}.
Definition oc : optdef := {| ostrs := ["-c"]; onargs := NOpt; odest := DIgn |}.
Definition om : list (string * optdef) :=
  [("-D", oD); ("-I", oP); ("-isystem", oS); ("-include", oF); ("-O", oO); ("-o", oo); ("-g", og); ("-c", oc)].

Lemma om_eq : optmap_of c11_options = om.
Proof. reflexivity. Qed.
Lemma caught_eq : c11_argerror_caught = true.
Proof. reflexivity. Qed.
Lemma raises_eq : c11_error_raises = true.
Proof. reflexivity. Qed.

Definition opt_of (k : kind) : optdef := match k with KD => oD | KP => oP | KS => oS | KF => oF end.

(* ---------- strings ---------- *)
Lemma split_at_app c s x y : split_at c s = Some (x, y) -> s = x ++ String c y.
Proof.
  revert x y. induction s as [|a s IH]; intros x y H; cbn in H; [discriminate|].
  destruct (Ascii.eqb a c) eqn:E.
  - injection H as <- <-. apply Ascii.eqb_eq in E. subst. reflexivity.
  - destruct (split_at c s) as [[x' y']|]; [|discriminate]. injection H as <- <-.
    cbn. f_equal. now apply IH.
Qed.

Lemma strip_model_spec p s : strip_prefix p s = strip p s.
Proof. revert s. induction p; intros s; cbn; [reflexivity|]. destruct s; [reflexivity|]. destruct (Ascii.eqb a a0); auto. Qed.

Lemma neq_eqb (a b : ascii) : a <> b -> Ascii.eqb a b = false /\ Ascii.eqb b a = false.
Proof. intros H; split; apply Ascii.eqb_neq; congruence. Qed.

Definition harmless (t : string) (c : cls) : Prop :=
  match c with
  | CA => True
  | CDash => False
  | CO None _ => True
  | CO (Some o) (Some _) => odest o = DIgn
  | CO (Some o) None => odest o = DIgn /\ (onargs o = NOpt \/ t = "-o")
  end.

Definition tok_spec (t : string) : Prop :=
  match recognise t with
  | Some (k, EmptyString) => parse_optional om t = inr (CO (Some (opt_of k)) None)
  | Some (k, v) => parse_optional om t = inr (CO (Some (opt_of k)) (Some v)) /\ v <> "--"
  | None => exists c, parse_optional om t = inr c /\ harmless t c
  end.

Lemma strip_app p : forall s v, strip p s = Some v -> s = p ++ v.
Proof.
  induction p as [|a p IH]; intros s v H; cbn in H.
  - injection H as ->. reflexivity.
  - destruct s as [|b s]; [discriminate|]. destruct (Ascii.eqb a b) eqn:E; [|discriminate].
    apply Ascii.eqb_eq in E. subst. cbn. f_equal. auto.
Qed.
Lemma strip_app_inv p v : strip p (p ++ v) = Some v.
Proof. induction p as [|a p IH]; cbn; [reflexivity|]. rewrite Ascii.eqb_refl. exact IH. Qed.

Lemma prefixb_app t s : prefixb t s = true -> exists v, s = t ++ v.
Proof.
  unfold prefixb. rewrite strip_model_spec. destruct (strip t s) as [v|] eqn:E; [|discriminate].
  intros _. exists v. apply strip_app. exact E.
Qed.

Lemma lookup_in s : forall m o, lookup s m = Some o -> In (s, o) m.
Proof.
  induction m as [|[k o'] m IH]; intros o H; cbn [lookup] in H; [discriminate|].
  destruct (String.eqb k s) eqn:E.
  - apply String.eqb_eq in E. injection H as <-. subst. now left.
  - right; auto.
Qed.
Lemma lookup_none s : forall m, (forall k o, In (k, o) m -> k <> s) -> lookup s m = None.
Proof.
  induction m as [|[k o'] m IH]; intros H; cbn [lookup]; [reflexivity|].
  destruct (String.eqb k s) eqn:E.
  - apply String.eqb_eq in E. exfalso. apply (H k o' (or_introl eq_refl)). assumption.
  - apply IH. intros k' o'' Hin. apply (H k' o''). now right.
Qed.

Ltac om_cases H :=
  unfold om in H; cbn [In] in H;
  repeat (destruct H as [H|H]; [injection H as ? ?; subst|]); [..|contradiction].

Lemma flat_map_nil {A B} (f : A -> list B) l : (forall x, In x l -> f x = []) -> flat_map f l = [].
Proof.
  induction l as [|x l IH]; intros H; cbn; [reflexivity|].
  rewrite (H x) by now left. apply IH. intros; apply H; now right.
Qed.

(* ---------- one argument ---------- *)
Lemma po_plain t : starts_dash t = false -> parse_optional om t = inr CA.
Proof. destruct t as [|a r]; [reflexivity|]. cbn [starts_dash parse_optional]. now intros ->. Qed.

Lemma dashed_starts t : dashed t = starts_dash t.
Proof. destruct t; reflexivity. Qed.

Lemma recognise_dashed t k v : recognise t = Some (k, v) -> dashed t = true.
Proof.
  unfold recognise. intros H.
  destruct (strip "-D" t) eqn:E1; [apply strip_app in E1; subst; reflexivity|].
  destruct (strip "-I" t) eqn:E2; [apply strip_app in E2; subst; reflexivity|].
  destruct (strip "-isystem" t) eqn:E3; [apply strip_app in E3; subst; reflexivity|].
  destruct (strip "-include" t) eqn:E4; [apply strip_app in E4; subst; reflexivity|].
  discriminate.
Qed.

(* unfolding parse_optional past the exact match *)
Lemma po_unfold a b r :
  let t := String a (String b r) in
  Ascii.eqb a ch_dash = true -> lookup t om = None ->
  parse_optional om t =
    match by_eq om t with
    | Some c => inr c
    | None => match option_tuples om t with
              | _ :: _ :: _ => inl SystemExit
              | [c] => inr c
              | [] => inr (fallback t)
              end
    end.
Proof. intros t Ha Hl. unfold t in *. cbn [parse_optional]. rewrite Ha, Hl. reflexivity. Qed.

Lemma fallback_harmless t : harmless t (fallback t).
Proof. unfold fallback. destruct (negnum t); [exact I|]. destruct (has_char ch_space t); exact I. Qed.

(* the "=" rule under the guard *)
Lemma by_eq_safe t :
  tok_safe t = true ->
  by_eq om t = None \/
  exists o e, by_eq om t = Some (CO (Some o) (Some e)) /\ odest o = DIgn /\ recognise t = None.
Proof.
  intros Hs. unfold by_eq.
  destruct (split_at ch_eq t) as [[bb e]|] eqn:Hsp; [|now left].
  destruct (lookup bb om) as [o|] eqn:Hl; [|now left].
  apply lookup_in in Hl. apply split_at_app in Hsp. subst t.
  om_cases Hl; try (exfalso; vm_compute in Hs; discriminate Hs);
    right; do 2 eexists; (split; [reflexivity|split; reflexivity]).
Qed.
Lemma tail_generic t : (if negnum t then @inr perr cls CA else if has_char ch_space t then inr CA else inr (CO None None)) = inr CA
  \/ (if negnum t then @inr perr cls CA else if has_char ch_space t then inr CA else inr (CO None None)) = inr (CO None None).
Proof. destruct (negnum t); [now left|]. destruct (has_char ch_space t); [now left|now right]. Qed.


Lemma prefix2_false b x r : b <> x -> prefixb (String "-" (String b r)) (String "-" (String x "")) = false.
Proof.
  intros Hn. destruct (prefixb (String "-" (String b r)) (String "-" (String x ""))) eqn:E; [|reflexivity].
  apply prefixb_app in E. destruct E as [v E]. cbn in E. congruence.
Qed.

Ltac key_goal :=
  unfold tok_spec; cbn;
  first [reflexivity | eexists; split; [reflexivity| cbn; auto]].

Lemma po_safe t : tok_safe t = true -> tok_spec t.
Proof.
  intros Hs.
  destruct (starts_dash t) eqn:Hd.
  2:{ unfold tok_spec. destruct (recognise t) as [[k v]|] eqn:R.
      - apply recognise_dashed in R. rewrite dashed_starts in R. congruence.
      - exists CA. split; [now apply po_plain|exact I]. }
  destruct t as [|a r]; [discriminate|]. cbn [starts_dash] in Hd.
  assert (a = "-"%char) by (apply Ascii.eqb_eq; exact Hd). subst a.
  destruct r as [|b r].
  { unfold tok_spec. cbn. exists CA. split; [reflexivity|exact I]. }
  destruct (lookup (String "-" (String b r)) om) as [o|] eqn:Hl.
  { apply lookup_in in Hl. unfold om in Hl; cbn [In] in Hl.
    repeat (destruct Hl as [Hl|Hl]; [inversion Hl; subst; clear Hl; key_goal|]). contradiction. }
  pose proof (po_unfold "-" b r Hd Hl) as Hu. cbv zeta in Hu.
  destruct (by_eq_safe _ Hs) as [Hb | (o & e & Hb & Ho & Hr)].
  2:{ unfold tok_spec. rewrite Hr, Hu, Hb. eexists; split; [reflexivity|exact Ho]. }
  rewrite Hb in Hu. unfold tok_spec. rewrite Hu. clear Hu.
  destruct (Ascii.eqb_spec b "-") as [->|n0].
  { change (option_tuples om (String "-" (String "-" r))) with (@nil cls).
    change (recognise (String "-" (String "-" r))) with (@None (kind * string)).
    eexists; split; [reflexivity|apply fallback_harmless]. }
  destruct (Ascii.eqb_spec b "D") as [->|n1].
  { destruct r as [|c r]; [vm_compute in Hl; discriminate|].
    change (option_tuples om (String "-" (String "D" (String c r)))) with [CO (Some oD) (Some (String c r))].
    change (recognise (String "-" (String "D" (String c r)))) with (Some (KD, String c r)).
    split; [reflexivity|]. intros E. rewrite E in Hs. vm_compute in Hs. discriminate. }
  destruct (Ascii.eqb_spec b "I") as [->|n2].
  { destruct r as [|c r]; [vm_compute in Hl; discriminate|].
    change (option_tuples om (String "-" (String "I" (String c r)))) with [CO (Some oP) (Some (String c r))].
    change (recognise (String "-" (String "I" (String c r)))) with (Some (KP, String c r)).
    split; [reflexivity|]. intros E. rewrite E in Hs. vm_compute in Hs. discriminate. }
  destruct (Ascii.eqb_spec b "O") as [->|n3].
  { destruct r as [|c r]; [vm_compute in Hl; discriminate|].
    change (option_tuples om (String "-" (String "O" (String c r)))) with [CO (Some oO) (Some (String c r))].
    change (recognise (String "-" (String "O" (String c r)))) with (@None (kind * string)).
    eexists; split; [reflexivity|reflexivity]. }
  destruct (Ascii.eqb_spec b "o") as [->|n4].
  { destruct r as [|c r]; [vm_compute in Hl; discriminate|].
    change (option_tuples om (String "-" (String "o" (String c r)))) with [CO (Some oo) (Some (String c r))].
    change (recognise (String "-" (String "o" (String c r)))) with (@None (kind * string)).
    eexists; split; [reflexivity|reflexivity]. }
  destruct (Ascii.eqb_spec b "g") as [->|n5].
  { destruct r as [|c r]; [vm_compute in Hl; discriminate|].
    change (option_tuples om (String "-" (String "g" (String c r)))) with [CO (Some og) (Some (String c r))].
    change (recognise (String "-" (String "g" (String c r)))) with (@None (kind * string)).
    eexists; split; [reflexivity|reflexivity]. }
  destruct (Ascii.eqb_spec b "c") as [->|n6].
  { destruct r as [|c r]; [vm_compute in Hl; discriminate|].
    change (option_tuples om (String "-" (String "c" (String c r)))) with [CO (Some oc) (Some (String c r))].
    change (recognise (String "-" (String "c" (String c r)))) with (@None (kind * string)).
    eexists; split; [reflexivity|reflexivity]. }
  (* no one-letter option of the table starts the token *)
  set (t := String "-" (String b r)) in *.
  assert (Hk1 : t <> "-isystem") by (intros E; rewrite E in Hl; vm_compute in Hl; discriminate).
  assert (Hk2 : t <> "-include") by (intros E; rewrite E in Hl; vm_compute in Hl; discriminate).
  assert (Hab : prefixb t "-isystem" = false /\ prefixb t "-include" = false).
  { unfold tok_safe in Hs. rewrite negb_true_iff, !orb_false_iff in Hs.
    destruct Hs as [_ Ha]. unfold cl_abbrev in Ha.
    change (two_or_more t) with true in Ha.
    rewrite (proj2 (String.eqb_neq _ _) Hk1), (proj2 (String.eqb_neq _ _) Hk2) in Ha.
    cbn [negb andb] in Ha. apply orb_false_iff in Ha. unfold is_prefix in Ha.
    unfold prefixb. rewrite !strip_model_spec. exact Ha. }
  destruct Hab as [Hp1 Hp2].
  assert (Ht : option_tuples om t = []).
  { unfold option_tuples. change (second_is_dash t) with (Ascii.eqb b "-").
    rewrite (proj2 (Ascii.eqb_neq _ _) n0).
    apply flat_map_nil. intros [os o] Hin. cbn [fst snd]. change (take2 t) with (String "-" (String b "")).
    om_cases Hin;
      try (rewrite (proj2 (String.eqb_neq _ _)) by congruence; unfold t; rewrite prefix2_false by assumption; reflexivity).
    - rewrite (proj2 (String.eqb_neq _ _)) by (intros E; inversion E). rewrite Hp1. reflexivity.
    - rewrite (proj2 (String.eqb_neq _ _)) by (intros E; inversion E). rewrite Hp2. reflexivity. }
  assert (Hr : recognise t = None).
  { unfold recognise.
    destruct (strip "-D" t) eqn:E1; [apply strip_app in E1; unfold t in E1; cbn in E1; congruence|].
    destruct (strip "-I" t) eqn:E2; [apply strip_app in E2; unfold t in E2; cbn in E2; congruence|].
    destruct (strip "-isystem" t) as [v|] eqn:E3.
    { apply strip_app in E3. destruct v as [|c v]; [now apply Hk1 in E3|].
      exfalso. rewrite E3 in Hs. vm_compute in Hs. discriminate. }
    destruct (strip "-include" t) as [v|] eqn:E4.
    { apply strip_app in E4. destruct v as [|c v]; [now apply Hk2 in E4|].
      exfalso. rewrite E4 in Hs. vm_compute in Hs. discriminate. }
    reflexivity. }
  rewrite Ht, Hr. eexists; split; [reflexivity|apply fallback_harmless].
Qed.

(* ---------- the whole argument vector ---------- *)
Definition acc_of (l : lists4) (ex : list string) : acc :=
  match l with (d, p, s, f) =>
    {| defs := map Some d; paths := map Some p; syspaths := map Some s; files := map Some f; extras := ex |} end.

Lemma value_of_some v : v <> "--" -> value_of v = Some v.
Proof. intros H. unfold value_of. now rewrite (proj2 (String.eqb_neq _ _) H). Qed.

Lemma push_add k v l ex :
  v <> "--" -> push (odest (opt_of k)) (value_of v) (Parsed (acc_of l ex)) = Parsed (acc_of (add k v l) ex).
Proof. intros H. rewrite value_of_some by assumption. destruct l as [[[d p] s] f]. destruct k; reflexivity. Qed.
Lemma push_ign v o : push DIgn v o = o.
Proof. destruct o as [[]|[]|]; reflexivity. Qed.
Lemma push_extra_parsed s l ex : push_extra s (Parsed (acc_of l ex)) = Parsed (acc_of l (s :: ex)).
Proof. destruct l as [[[d p] q] f]. reflexivity. Qed.

Definition pend_ok (p : option optdef) : Prop :=
  match p with None => True | Some o => odest o = DIgn /\ onargs o = NOpt end.

(* an option with an optional, unobserved value: swallows a following argument, else nothing *)
Lemma run_pend_arg pos o s r : pend_ok (Some o) -> run pos (Some o) ((s, CA) :: r) = run pos None r.
Proof. intros [Hd _]. cbn [run]. rewrite Hd. apply push_ign. Qed.
Lemma run_pend_other pos o s c r :
  pend_ok (Some o) -> c <> CA -> run pos (Some o) ((s, c) :: r) = run pos None ((s, c) :: r).
Proof. intros [_ Hn] Hc. cbn [run]. rewrite Hn. destruct c; [congruence|reflexivity|reflexivity]. Qed.

Lemma recognise_plain v : dashed v = false -> recognise v = None.
Proof.
  intros H. destruct (recognise v) as [[k x]|] eqn:R; [|reflexivity].
  apply recognise_dashed in R. congruence.
Qed.

Lemma recognise_bare t k : recognise t = Some (k, "") -> needs_value t = true.
Proof.
  unfold recognise. intros H.
  destruct (strip "-D" t) eqn:E1; [injection H as <- ->; apply strip_app in E1; subst; reflexivity|].
  destruct (strip "-I" t) eqn:E2; [injection H as <- ->; apply strip_app in E2; subst; reflexivity|].
  destruct (strip "-isystem" t) eqn:E3; [injection H as <- ->; apply strip_app in E3; subst; reflexivity|].
  destruct (strip "-include" t) eqn:E4; [injection H as <- ->; apply strip_app in E4; subst; reflexivity|].
  discriminate.
Qed.

Lemma classify_cons t c r toks :
  String.eqb t "--" = false -> parse_optional om t = inr c -> classify om false r = inr toks ->
  classify om false (t :: r) = inr ((t, c) :: toks).
Proof. intros H1 H2 H3. cbn [classify]. now rewrite H1, H2, H3. Qed.

Lemma not_dashed_not_dd v : dashed v = false -> String.eqb v "--" = false.
Proof. intros H. apply String.eqb_neq. intros ->. discriminate. Qed.

Definition good (argv : list string) (toks : list (string * cls)) : Prop :=
  forall pos pend, pend_ok pend -> exists ex, run pos pend toks = Parsed (acc_of (scan None argv) ex).

(* a flag followed by its separate value *)
Lemma good_flag_value t o v r toks :
  needs_value t = true -> parse_optional om t = inr (CO (Some o) None) ->
  dashed v = false ->
  (forall l ex, push (odest o) (value_of v) (Parsed (acc_of l ex)) = Parsed (acc_of (match recognise t with Some (k, _) => add k v l | None => l end) ex)) ->
  scan None (t :: v :: r) = match recognise t with Some (k, _) => add k v (scan None r) | None => scan None r end ->
  good r toks -> good (t :: v :: r) ((t, CO (Some o) None) :: (v, CA) :: toks).
Proof.
  intros Hn Hp Hv Hpush Hscan IH pos pend Hpend.
  assert (E : run pos pend ((t, CO (Some o) None) :: (v, CA) :: toks)
              = push (odest o) (value_of v) (run (close_run pos) None toks)).
  { destruct pend as [o'|].
    - rewrite run_pend_other by (assumption || discriminate). reflexivity.
    - reflexivity. }
  rewrite E. destruct (IH (close_run pos) None I) as [ex Hex]. rewrite Hex.
  exists ex. rewrite Hpush, Hscan. reflexivity.
Qed.

Lemma run_safe : forall n argv, length argv <= n -> safe argv = true ->
  exists toks, classify om false argv = inr toks /\ good argv toks.
Proof.
  induction n as [|n IHn]; intros argv Hlen Hs.
  { destruct argv; [|cbn in Hlen; lia]. exists []. split; [reflexivity|].
    intros pos [o|] Hp; cbn [run]; [destruct Hp as [_ ->]|]; exists []; reflexivity. }
  destruct argv as [|t r].
  { exists []. split; [reflexivity|].
    intros pos [o|] Hp; cbn [run]; [destruct Hp as [_ ->]|]; exists []; reflexivity. }
  cbn [safe] in Hs. apply andb_prop in Hs. destruct Hs as [Ht Hs].
  assert (Hdd : String.eqb t "--" = false).
  { unfold tok_safe in Ht. rewrite negb_true_iff, !orb_false_iff in Ht. tauto. }
  destruct (needs_value t) eqn:Hnv.
  - (* flag and separate value *)
    destruct r as [|v r]; [discriminate|]. apply andb_prop in Hs. destruct Hs as [Hv Hs].
    apply negb_true_iff in Hv.
    destruct (IHn r) as (toks & Hc & Hg); [cbn in Hlen; lia|assumption|].
    assert (Hcv : classify om false (v :: r) = inr ((v, CA) :: toks)).
    { apply classify_cons; [now apply not_dashed_not_dd| apply po_plain; now rewrite <- dashed_starts|assumption]. }
    assert (Hvd : v <> "--") by (intros ->; discriminate).
    pose proof (recognise_plain v Hv) as Hrv.
    unfold needs_value in Hnv. rewrite !orb_true_iff in Hnv.
    destruct Hnv as [[[[E|E]|E]|E]|E]; apply String.eqb_eq in E; subst t.
    + exists (("-D", CO (Some oD) None) :: (v, CA) :: toks). split; [apply classify_cons; auto|].
      apply good_flag_value; auto. intros l ex. apply (push_add KD); assumption.
    + exists (("-I", CO (Some oP) None) :: (v, CA) :: toks). split; [apply classify_cons; auto|].
      apply good_flag_value; auto. intros l ex. apply (push_add KP); assumption.
    + exists (("-isystem", CO (Some oS) None) :: (v, CA) :: toks). split; [apply classify_cons; auto|].
      apply good_flag_value; auto. intros l ex. apply (push_add KS); assumption.
    + exists (("-include", CO (Some oF) None) :: (v, CA) :: toks). split; [apply classify_cons; auto|].
      apply good_flag_value; auto. intros l ex. apply (push_add KF); assumption.
    + exists (("-o", CO (Some oo) None) :: (v, CA) :: toks). split; [apply classify_cons; auto|].
      apply good_flag_value; auto; try (intros l ex; apply push_ign).
      change (scan None ("-o" :: v :: r)) with (scan None (v :: r)). cbn [scan]. now rewrite Hrv.
  - (* any other argument *)
    destruct (IHn r) as (toks & Hc & Hg); [cbn in Hlen; lia|assumption|].
    pose proof (po_safe t Ht) as Hspec. unfold tok_spec in Hspec.
    destruct (recognise t) as [[k v]|] eqn:R.
    + destruct v as [|c0 v].
      { apply recognise_bare in R. congruence. }
      destruct Hspec as [Hp Hne].
      exists ((t, CO (Some (opt_of k)) (Some (String c0 v))) :: toks). split; [apply classify_cons; auto|].
      intros pos pend Hpend.
      assert (E : run pos pend ((t, CO (Some (opt_of k)) (Some (String c0 v))) :: toks)
                  = push (odest (opt_of k)) (value_of (String c0 v)) (run (close_run pos) None toks)).
      { destruct pend as [o'|]; [rewrite run_pend_other by (assumption || discriminate)|]; reflexivity. }
      rewrite E. destruct (Hg (close_run pos) None I) as [ex Hex]. rewrite Hex. exists ex.
      rewrite push_add by assumption. cbn [scan]. rewrite R. reflexivity.
    + destruct Hspec as (c & Hp & Hh).
      exists ((t, c) :: toks). split; [apply classify_cons; auto|].
      assert (Hsc : scan None (t :: r) = scan None r) by (cbn [scan]; now rewrite R).
      intros pos pend Hpend. rewrite Hsc.
      destruct c as [| |[o|] e].
      * (* argument *)
        destruct pend as [o'|].
        { rewrite run_pend_arg by assumption. apply Hg. exact I. }
        cbn [run]. destruct pos.
        -- apply Hg. exact I.
        -- apply Hg. exact I.
        -- destruct (Hg PDone None I) as [ex Hex]. rewrite Hex, push_extra_parsed. eexists; reflexivity.
      * destruct Hh.
      * (* registered, unobserved option *)
        assert (E : run pos pend ((t, CO (Some o) e) :: toks) = run pos None ((t, CO (Some o) e) :: toks)).
        { destruct pend as [o'|]; [rewrite run_pend_other by (assumption || discriminate)|]; reflexivity. }
        rewrite E. cbn [run]. destruct e as [v|].
        -- cbn in Hh. rewrite Hh, push_ign. apply Hg. exact I.
        -- destruct Hh as [Hd [Hn|Ho]].
           ++ apply Hg. split; assumption.
           ++ subst t. discriminate.
      * (* unknown option *)
        assert (E : run pos pend ((t, CO None e) :: toks) = run pos None ((t, CO None e) :: toks)).
        { destruct pend as [o'|]; [rewrite run_pend_other by (assumption || discriminate)|]; reflexivity. }
        rewrite E. cbn [run]. destruct (Hg (close_run pos) None I) as [ex Hex].
        rewrite Hex, push_extra_parsed. eexists; reflexivity.
Qed.

Theorem parse_safe argv :
  safe argv = true ->
  exists ex, parse_args argv = ROk (acc_of (scan4_S argv) ex).
Proof.
  intros Hs. destruct (run_safe (length argv) argv (le_n _) Hs) as (toks & Hc & Hg).
  destruct (Hg PAvail None I) as [ex Hex]. exists ex.
  unfold parse_args, parse_args_with, parse_known_args. rewrite om_eq, Hc, Hex. reflexivity.
Qed.

Corollary parse_safe_lists argv :
  safe argv = true -> lists_of (parse_args argv) = Some (some3 (scan_S argv)).
Proof.
  intros Hs. destruct (parse_safe argv Hs) as [ex ->]. unfold scan_S, scan4_S.
  destruct (scan None argv) as [[[d p] s] f]. cbn. now rewrite map_app.
Qed.

Corollary parse_safe_lists4 argv :
  safe argv = true -> lists4_of (parse_args argv) = Some (some4 (scan4_S argv)).
Proof.
  intros Hs. destruct (parse_safe argv Hs) as [ex ->]. unfold scan4_S.
  destruct (scan None argv) as [[[d p] s] f]. reflexivity.
Qed.

(* ---------- composition: order and neutrality ---------- *)
From CBI Require Import Spec.C11safe_more.

Lemma add_app4 k v a b : add k v (app4 a b) = app4 (add k v a) b.
Proof. destruct a as [[[d1 p1] s1] f1], b as [[[d2 p2] s2] f2], k; reflexivity. Qed.
Lemma app4_nil_l b : app4 ([], [], [], []) b = b.
Proof. destruct b as [[[d p] s] f]. reflexivity. Qed.

(* S is a homomorphism at every point where no flag awaits its value *)
Lemma scan_app_from l1 : forall pend l2,
  complete_from pend l1 = true -> scan pend (l1 ++ l2) = app4 (scan pend l1) (scan None l2).
Proof.
  induction l1 as [|t r IH]; intros pend l2 H.
  - destruct pend; [discriminate|]. cbn [app scan]. now rewrite app4_nil_l.
  - cbn [app scan complete_from] in *. destruct pend as [k|].
    + rewrite IH by assumption. apply add_app4.
    + destruct (recognise t) as [[k [|c v]]|].
      * now apply IH.
      * rewrite IH by assumption. apply add_app4.
      * now apply IH.
Qed.

Theorem scan_app l1 l2 : complete l1 = true -> scan4_S (l1 ++ l2) = app4 (scan4_S l1) (scan4_S l2).
Proof. apply scan_app_from. Qed.

Lemma scan_skip e : forall l, forallb unrecognised e = true -> scan None (e ++ l) = scan None l.
Proof.
  induction e as [|t e IH]; intros l H; [reflexivity|].
  cbn [forallb] in H. apply andb_prop in H. destruct H as [Ht He].
  unfold unrecognised in Ht. cbn [app scan]. destruct (recognise t); [discriminate|]. now apply IH.
Qed.
Lemma complete_skip e : forallb unrecognised e = true -> complete e = true.
Proof.
  unfold complete. induction e as [|t e IH]; intros H; [reflexivity|].
  cbn [forallb] in H. apply andb_prop in H. destruct H as [Ht He].
  unfold unrecognised in Ht. cbn [complete_from]. destruct (recognise t); [discriminate|]. now apply IH.
Qed.

Theorem scan4_neutral l1 e l2 :
  complete l1 = true -> forallb unrecognised e = true -> scan4_S (l1 ++ e ++ l2) = scan4_S (l1 ++ l2).
Proof.
  intros H1 He. rewrite (scan_app l1 (e ++ l2) H1), (scan_app l1 l2 H1). unfold scan4_S.
  rewrite (scan_skip e l2 He). reflexivity.
Qed.
Theorem scan_neutral l1 e l2 :
  complete l1 = true -> forallb unrecognised e = true -> scan_S (l1 ++ e ++ l2) = scan_S (l1 ++ l2).
Proof. intros H1 He. unfold scan_S. now rewrite scan4_neutral. Qed.

(* [safe] splits at closed points, and closed + safe implies complete *)
Lemma safe_closed_facts : forall n l1, length l1 <= n -> closed l1 = true ->
  (forall x, safe (l1 ++ x) = safe l1 && safe x) /\ (safe l1 = true -> complete l1 = true).
Proof.
  induction n as [|n IH]; intros l1 Hlen Hc.
  { destruct l1; [|cbn in Hlen; lia]. split; [reflexivity|reflexivity]. }
  destruct l1 as [|t r]; [split; reflexivity|].
  cbn [closed] in Hc. destruct (needs_value t) eqn:Hn.
  - destruct r as [|v r]; [discriminate|].
    destruct (IH r) as [IH1 IH2]; [cbn in Hlen; lia|assumption|]. split.
    + intros x. cbn [app safe]. rewrite Hn, IH1. now rewrite !andb_assoc.
    + cbn [safe]. rewrite Hn. intros H. apply andb_prop in H. destruct H as [_ H].
      apply andb_prop in H. destruct H as [Hv Hs]. apply negb_true_iff in Hv.
      unfold complete. cbn [complete_from].
      destruct (recognise t) as [[k [|c w]]|] eqn:R.
      * cbn [complete_from]. now apply IH2.
      * cbn [complete_from]. rewrite (recognise_plain v Hv). now apply IH2.
      * cbn [complete_from]. rewrite (recognise_plain v Hv). now apply IH2.
  - destruct (IH r) as [IH1 IH2]; [cbn in Hlen; lia|assumption|]. split.
    + intros x. cbn [app safe]. rewrite Hn, IH1. now rewrite !andb_assoc.
    + cbn [safe]. rewrite Hn. intros H. apply andb_prop in H. destruct H as [_ Hs].
      unfold complete. cbn [complete_from].
      destruct (recognise t) as [[k [|c w]]|] eqn:R.
      * apply recognise_bare in R. congruence.
      * now apply IH2.
      * now apply IH2.
Qed.

Lemma safe_app l1 x : closed l1 = true -> safe (l1 ++ x) = safe l1 && safe x.
Proof. intros H. now apply (safe_closed_facts (length l1) l1 (le_n _) H). Qed.
Lemma closed_safe_complete l1 : closed l1 = true -> safe l1 = true -> complete l1 = true.
Proof. intros H. now apply (safe_closed_facts (length l1) l1 (le_n _) H). Qed.

Lemma some4_app4 a b : some4 (app4 a b) = app4v (some4 a) (some4 b).
Proof. destruct a as [[[d1 p1] s1] f1], b as [[[d2 p2] s2] f2]. cbn. now rewrite !map_app. Qed.

(* M: per destination, the lists of a concatenation are the concatenations of the lists (within safe) *)
Theorem parse_order l1 l2 :
  closed l1 = true -> safe (l1 ++ l2) = true ->
  exists a1 a2, lists4_of (parse_args l1) = Some a1 /\ lists4_of (parse_args l2) = Some a2 /\
                lists4_of (parse_args (l1 ++ l2)) = Some (app4v a1 a2).
Proof.
  intros Hc Hs. pose proof Hs as Hs'. rewrite safe_app in Hs' by assumption.
  apply andb_prop in Hs'. destruct Hs' as [S1 S2].
  exists (some4 (scan4_S l1)), (some4 (scan4_S l2)).
  rewrite !parse_safe_lists4 by assumption. repeat split.
  rewrite scan_app by (now apply closed_safe_complete). now rewrite some4_app4.
Qed.

(* M: inserting an unrecognised, self-contained group of arguments at a closed point changes nothing (within safe) *)
Theorem parse_neutral l1 e l2 :
  closed l1 = true -> safe (l1 ++ l2) = true -> entry_ok e = true ->
  safe (l1 ++ e ++ l2) = true /\
  lists_of (parse_args (l1 ++ e ++ l2)) = lists_of (parse_args (l1 ++ l2)).
Proof.
  intros Hc Hs He. unfold entry_ok in He. apply andb_prop in He. destruct He as [He Hu].
  apply andb_prop in He. destruct He as [Hse Hce].
  pose proof Hs as Hs'. rewrite safe_app in Hs' by assumption.
  apply andb_prop in Hs'. destruct Hs' as [S1 S2].
  assert (Hs2 : safe (l1 ++ e ++ l2) = true).
  { rewrite safe_app by assumption. rewrite safe_app by assumption. now rewrite S1, Hse, S2. }
  split; [assumption|].
  rewrite !parse_safe_lists by assumption. f_equal. f_equal.
  apply scan_neutral; [now apply closed_safe_complete|assumption].
Qed.

Lemma catalogue_ok : forallb entry_ok c11_catalogue = true.
Proof. vm_compute. reflexivity. Qed.

(* ---------- statements in the shape used by Props/C11.v ---------- *)
Theorem safe_domain argv :
  safe argv = true ->
  (exists a, parse_args argv = ROk a) /\ lists_of (parse_args argv) = Some (some3 (scan_S argv)).
Proof.
  intros Hs. split; [|now apply parse_safe_lists].
  destruct (parse_safe argv Hs) as [ex H]. eexists; exact H.
Qed.

Theorem neutral_catalogue l1 l2 e :
  In e c11_catalogue -> closed l1 = true -> safe (l1 ++ l2) = true ->
  safe (l1 ++ e ++ l2) = true /\
  lists_of (parse_args (l1 ++ e ++ l2)) = lists_of (parse_args (l1 ++ l2)).
Proof.
  intros Hin Hc Hs. apply parse_neutral; try assumption.
  pose proof catalogue_ok as H. rewrite forallb_forall in H. now apply H.
Qed.

Theorem neutral_S l1 e l2 :
  complete l1 = true -> forallb unrecognised e = true -> scan_S (l1 ++ e ++ l2) = scan_S (l1 ++ l2).
Proof. apply scan_neutral. Qed.

Theorem never_raises argv : parse_args argv <> RRaise.
Proof.
  unfold parse_args, parse_args_with. rewrite caught_eq.
  destruct (parse_known_args c11_options c11_error_raises argv); discriminate.
Qed.
