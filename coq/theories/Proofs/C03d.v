(* C03_cmdline_define: -DNAME, -DNAME=v and -D'F(a,...)=v' build the same macro
   as #define NAME 1, #define NAME v, #define F(a,...) v  (token level: for
   every well-formed head and EVERY replacement list v, including those that
   make_macro rejects - then both sides fail with the same error). *)
From Coq Require Import ZArith String Ascii Bool List Lia Arith.
From CBI Require Import Lib.Data Lib.Res Model.C03tok Model.C03.
From CBI Require Gen.C03_tables.
Import ListNotations.
Local Open Scope string_scope.
Local Open Scope list_scope.

(* ---------- the head of a definition ---------- *)
Inductive param := PName (s : string) | PDots | PNamedDots (s : string).

Definition idt (w : bool) (s : string) : tok := mkTok KId w s true.
Definition pun (s : string) : tok := mkTok KPunct false s true.
Definition dot := pun ".".
Definition comma := pun ",".
Definition lpar := pun "(".
Definition rpar := pun ")".

Definition ptoks (p : param) : list tok :=
  match p with
  | PName s => [idt false s]
  | PDots => [dot; dot; dot]
  | PNamedDots s => [idt false s; dot; dot; dot]
  end.
(* the argument token __arg returns *)
Definition arg_of (p : param) : tok :=
  match p with
  | PName s => idt false s
  | PDots => idt false "..."
  | PNamedDots s => idt false (s ++ "...")%string
  end.
Fixpoint tail_render (ps : list param) : list tok :=
  match ps with [] => [] | p :: r => comma :: ptoks p ++ tail_render r end.
Definition render (ps : list param) : list tok :=
  match ps with [] => [] | p :: r => ptoks p ++ tail_render r end.

(* parameter names are identifiers (no trailing dots); a variadic parameter only in last position *)
Definition wf_last (p : param) : Prop := match p with PName s => ends_dots s = false | _ => True end.
Definition plain_name (p : param) : Prop := match p with PName s => ends_dots s = false | _ => False end.
Fixpoint wf_tail (ps : list param) : Prop :=
  match ps with
  | [] => True
  | p :: r => match r with [] => wf_last p | _ :: _ => plain_name p /\ wf_tail r end
  end.

(* head of the definition: NAME or NAME(p1,...,pn); [w] = white space before NAME
   (True after `#define `, False at the start of a -D string) *)
Definition head (w : bool) (name : string) (ps : option (list param)) : list tok :=
  match ps with
  | None => [idt w name]
  | Some l => idt w name :: lpar :: render l ++ [rpar]
  end.

(* ---------- lexical facts ---------- *)
Lemma ls_app (a b : string) : ls (a ++ b)%string = ls a ++ ls b.
Proof. induction a as [|c a IH]; cbn; [reflexivity|]. unfold ls in *. cbn. now rewrite IH. Qed.

Lemma ends_dots_app (s : string) : ends_dots (s ++ "...")%string = true.
Proof.
  unfold ends_dots. rewrite ls_app, rev_app_distr. reflexivity.
Qed.

(* ---------- __arg ---------- *)
Lemma parse_arg_name s a X :
  is_punct "." a = false -> parse_arg (idt false s :: a :: X) = Some (idt false s, a :: X).
Proof.
  intros H. unfold parse_arg. cbn [is_id idt tk tkind_eqb].
  destruct X as [|b [|c r]]; try reflexivity; now rewrite H.
Qed.
Lemma parse_arg_name_end s : parse_arg [idt false s] = Some (idt false s, []).
Proof. reflexivity. Qed.
Lemma parse_arg_dots X : parse_arg (dot :: dot :: dot :: X) = Some (idt false "...", X).
Proof. reflexivity. Qed.
Lemma parse_arg_named_dots s X :
  parse_arg (idt false s :: dot :: dot :: dot :: X) = Some (idt false (s ++ "...")%string, X).
Proof. reflexivity. Qed.

Lemma parse_arg_param p a X :
  is_punct "." a = false -> parse_arg (ptoks p ++ a :: X) = Some (arg_of p, a :: X).
Proof.
  intros H. destruct p; cbn [ptoks app arg_of].
  - now apply parse_arg_name.
  - apply parse_arg_dots.
  - apply parse_arg_named_dots.
Qed.

Lemma ends_dots_arg p : wf_last p -> ends_dots (tt (arg_of p)) = match p with PName _ => false | _ => true end.
Proof.
  destruct p; cbn [arg_of tt idt wf_last]; intros H; [assumption|reflexivity|apply ends_dots_app].
Qed.

(* ---------- __arg_list ---------- *)
Lemma tail_render_shape ps rest :
  exists X, tail_render ps ++ rpar :: rest = X /\
            match ps with [] => X = rpar :: rest | p :: r => X = comma :: ptoks p ++ tail_render r ++ rpar :: rest end.
Proof.
  destruct ps; cbn; eexists; split; try reflexivity. now rewrite <- app_assoc.
Qed.

Lemma not_dot_rpar : is_punct "." rpar = false. Proof. reflexivity. Qed.
Lemma not_dot_comma : is_punct "." comma = false. Proof. reflexivity. Qed.

Lemma arg_list_more_ok ps : forall fuel acc rest,
  wf_tail ps -> List.length (tail_render ps ++ rpar :: rest) <= fuel ->
  arg_list_more fuel (tail_render ps ++ rpar :: rest) acc = (acc ++ map arg_of ps, rpar :: rest).
Proof.
  induction ps as [|p r IH]; intros fuel acc rest Hwf Hf.
  - cbn [tail_render app map]. rewrite app_nil_r.
    destruct fuel; [reflexivity|]. reflexivity.
  - cbn [tail_render app] in *. destruct fuel as [|f]; [cbn in Hf; lia|].
    cbn [arg_list_more]. replace (is_punct "," comma) with true by reflexivity.
    rewrite <- app_assoc.
    assert (Hnext : exists a X, tail_render r ++ rpar :: rest = a :: X /\ is_punct "." a = false).
    { destruct r; cbn; eexists; eexists; split; try reflexivity. }
    destruct Hnext as (a & X & HX & Ha). rewrite HX.
    rewrite (parse_arg_param p a X Ha). rewrite <- HX.
    destruct r as [|p2 r2].
    + (* p is the last parameter *)
      cbn [wf_tail] in Hwf. rewrite (ends_dots_arg p Hwf).
      destruct p.
      * assert (Hle : List.length (tail_render [] ++ rpar :: rest) <= f).
        { cbn in Hf |- *. lia. }
        rewrite (IH f (acc ++ [arg_of (PName s)]) rest I Hle). cbn [map]. now rewrite <- app_assoc.
      * cbn [tail_render app map]. reflexivity.
      * cbn [tail_render app map]. reflexivity.
    + cbn [wf_tail] in Hwf. destruct Hwf as [Hs Hwf].
      destruct p; cbn [plain_name] in Hs; try contradiction.
      cbn [arg_of tt idt]. rewrite Hs.
      assert (Hle : List.length (tail_render (p2 :: r2) ++ rpar :: rest) <= f).
      { cbn in Hf |- *. lia. }
      rewrite (IH f (acc ++ [idt false s]) rest Hwf Hle). cbn [map arg_of]. now rewrite <- app_assoc.
Qed.

Lemma arg_list_ok ps rest :
  wf_tail ps -> arg_list (render ps ++ rpar :: rest) = (map arg_of ps, rpar :: rest).
Proof.
  intros Hwf. destruct ps as [|p r].
  - cbn [render app map]. unfold arg_list, parse_arg. cbn [is_id rpar pun tk tkind_eqb].
    destruct rest as [|b [|c r]]; reflexivity.
  - cbn [render]. rewrite <- app_assoc. unfold arg_list.
    assert (Hnext : exists a X, tail_render r ++ rpar :: rest = a :: X /\ is_punct "." a = false).
    { destruct r; cbn; eexists; eexists; split; try reflexivity. }
    destruct Hnext as (a & X & HX & Ha). rewrite HX.
    rewrite (parse_arg_param p a X Ha). rewrite <- HX.
    destruct r as [|p2 r2].
    + cbn [wf_tail] in Hwf. rewrite (ends_dots_arg p Hwf). destruct p.
      * rewrite (arg_list_more_ok [] _ [arg_of (PName s)] rest I (le_n _)). reflexivity.
      * reflexivity.
      * reflexivity.
    + cbn [wf_tail] in Hwf. destruct Hwf as [Hs Hwf].
      destruct p; cbn [plain_name] in Hs; try contradiction. cbn [arg_of tt idt]. rewrite Hs.
      rewrite (arg_list_more_ok (p2 :: r2) _ [idt false s] rest Hwf (le_n _)). reflexivity.
Qed.

(* ---------- macro_definition on a well-formed head ---------- *)
Definition wf_head (ps : option (list param)) : Prop :=
  match ps with None => True | Some l => wf_tail l end.
Definition args_of (ps : option (list param)) : option (list tok) :=
  match ps with None => None | Some l => Some (map arg_of l) end.
(* what may follow an object-like head: anything but an unspaced opening parenthesis *)
Definition follows_ok (ps : option (list param)) (rest : list tok) : Prop :=
  match ps, rest with
  | None, p :: _ => (is_punct "(" p && negb (tw p)) = false
  | _, _ => True
  end.

Lemma macro_definition_head w name ps rest :
  wf_head ps -> follows_ok ps rest ->
  macro_definition (head w name ps ++ rest) = Ok (idt w name, args_of ps, rest).
Proof.
  intros Hwf Hfo. destruct ps as [l|]; cbn [head args_of].
  - cbn [app]. unfold macro_definition. cbn [is_id idt tk tkind_eqb].
    replace (is_punct "(" lpar && negb (tw lpar)) with true by reflexivity.
    rewrite <- app_assoc. cbn [app]. rewrite (arg_list_ok l rest Hwf). reflexivity.
  - cbn [app]. unfold macro_definition. cbn [is_id idt tk tkind_eqb].
    destruct rest as [|p r]; [reflexivity|]. cbn [follows_ok] in Hfo. now rewrite Hfo.
Qed.

(* ---------- make_macro does not look at the white space of the first replacement token ---------- *)
Lemma last_tok_cons_txt s t r w :
  match last_tok (set_w w t :: r) with Some x => Some (is_txt s x) | None => None end =
  match last_tok (t :: r) with Some x => Some (is_txt s x) | None => None end.
Proof.
  unfold last_tok. cbn [rev]. destruct (rev r); reflexivity.
Qed.

Lemma macro_init_white name isfun args va w v :
  macro_init name isfun args va (set_w_hd w v) = macro_init name isfun args va v.
Proof.
  destruct v as [|t r]; [reflexivity|]. cbn [set_w_hd]. unfold macro_init.
  replace (is_txt "##" (set_w w t)) with (is_txt "##" t) by reflexivity.
  destruct (is_txt "##" t); [reflexivity|].
  pose proof (last_tok_cons_txt "##" t r w) as H.
  destruct (last_tok (set_w w t :: r)) as [x|], (last_tok (t :: r)) as [y|]; try discriminate; [|reflexivity].
  injection H as H. rewrite H. reflexivity.
Qed.

Lemma make_macro_white id id' args w v :
  tt id = tt id' -> make_macro id args (set_w_hd w v) = make_macro id' args v.
Proof.
  intros H. unfold make_macro. rewrite H. destruct args; apply macro_init_white.
Qed.

(* ---------- the theorem ---------- *)
Definition default_tok (w : bool) : tok := mkTok KNum w Gen.C03_tables.default_expansion true.

Lemma head_len_sub (h rest : list tok) : List.length (h ++ rest) - List.length rest = List.length h.
Proof. rewrite app_length. lia. Qed.

Lemma dash_d_head name ps rest w sep :
  wf_head ps -> follows_ok ps rest ->
  macro_from_dash_d (head w name ps ++ rest) (List.length (head w name ps)) sep
  = make_macro (idt w name) (args_of ps) (if sep then rest else [one_tok]).
Proof.
  intros Hwf Hfo. unfold macro_from_dash_d.
  rewrite (macro_definition_head w name ps rest Hwf Hfo).
  now rewrite head_len_sub, Nat.eqb_refl.
Qed.

Lemma define_head name ps rest w :
  wf_head ps -> follows_ok ps rest ->
  macro_from_define (head w name ps ++ rest) = make_macro (idt w name) (args_of ps) rest.
Proof.
  intros Hwf Hfo. unfold macro_from_define. now rewrite (macro_definition_head w name ps rest Hwf Hfo).
Qed.

(* -D'HEAD=v'  versus  #define HEAD v   (v any token list).  macro_from_definition_string
   replaces the first '=' by a blank, so in both token lists the first token of v is
   preceded by white space. *)
Theorem cmdline_define_value name ps v w w' :
  wf_head ps ->
  macro_from_dash_d (head w name ps ++ set_w_hd true v) (List.length (head w name ps)) true
  = macro_from_define (head w' name ps ++ set_w_hd true v).
Proof.
  intros Hwf.
  assert (Hfo : follows_ok ps (set_w_hd true v)).
  { destruct ps; cbn; [exact I|]. destruct v; cbn; [exact I|]. now rewrite andb_false_r. }
  rewrite dash_d_head, define_head by assumption. reflexivity.
Qed.

(* -DHEAD  versus  #define HEAD 1 *)
Theorem cmdline_define_default name ps w w' :
  wf_head ps ->
  macro_from_dash_d (head w name ps) (List.length (head w name ps)) false
  = macro_from_define (head w' name ps ++ [default_tok true]).
Proof.
  intros Hwf.
  pose proof (dash_d_head name ps [] w false Hwf) as H. rewrite app_nil_r in H.
  rewrite H by (destruct ps; exact I).
  rewrite define_head; [|assumption|destruct ps; cbn; [exact I|reflexivity]].
  symmetry. apply (make_macro_white (idt w' name) (idt w name) (args_of ps) true [one_tok]). reflexivity.
Qed.

(* a head followed by anything that is not the separator position is rejected: the
   number of head tokens must be exactly what macro_definition consumes *)
Lemma cmdline_define_garbage name ps extra v w :
  wf_head ps -> follows_ok ps (extra :: v) ->
  macro_from_dash_d (head w name ps ++ extra :: v) (S (List.length (head w name ps))) true = Err "ParseError".
Proof.
  intros Hwf Hfo. unfold macro_from_dash_d.
  rewrite (macro_definition_head w name ps (extra :: v) Hwf Hfo).
  rewrite head_len_sub.
  replace (Nat.eqb (List.length (head w name ps)) (S (List.length (head w name ps)))) with false; [reflexivity|].
  symmetry. apply Nat.eqb_neq. lia.
Qed.

Lemma default_is_one : Gen.C03_tables.default_expansion = "1" /\ Gen.C03_tables.define_separator = "=".
Proof. split; reflexivity. Qed.
