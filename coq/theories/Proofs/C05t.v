(* C05, step 1: the finite-state heart of the argument.
   The abstract instance of the cleaner (mode stack x buffer class) simulates a
   per-physical-line view of the reference scanner (state x "current line
   marked" x directive state x literal-white-space counter).  The two
   commutation obligations are finite tables closed by vm_compute and lifted
   with forallb_forall. *)
From Coq Require Import Bool Arith List.
From CBI Require Import Lib.Data Model.C05 Model.C05a Spec.C05.
Import ListNotations.

(* ---------- the per-line view of the reference scanner ---------- *)
(* a_sc: the pending slash (if any) lies on the current physical line *)
Record ast := { a_q : sm; a_m : bool; a_d : dstate; a_lw : lws; a_sc : bool; a_ok : bool }.

Definition a_setq (q : sm) (a : ast) : ast :=
  {| a_q := q; a_m := a_m a; a_d := a_d a; a_lw := a_lw a; a_sc := a_sc a; a_ok := a_ok a |}.
Definition a_survive (is_hash : bool) (a : ast) : ast :=
  {| a_q := a_q a; a_m := true;
     a_d := match a_d a with dNone => if is_hash then dDir else dSrc | d => d end;
     a_lw := a_lw a; a_sc := a_sc a; a_ok := a_ok a |}.
Definition a_bad (a : ast) : ast :=
  {| a_q := a_q a; a_m := a_m a; a_d := a_d a; a_lw := a_lw a; a_sc := a_sc a; a_ok := false |}.
Definition a_setlw (w : lws) (a : ast) : ast :=
  {| a_q := a_q a; a_m := a_m a; a_d := a_d a; a_lw := w; a_sc := a_sc a; a_ok := a_ok a |}.
Definition a_far (a : ast) : ast := if a_sc a then a else a_bad a.
Definition a_here (a : ast) : ast :=
  {| a_q := a_q a; a_m := a_m a; a_d := a_d a; a_lw := a_lw a; a_sc := true; a_ok := a_ok a |}.

Definition c_top (a : ast) (c : cls) : ast :=
  match c with
  | cSl => a_setq sSlash (a_here a)
  | cDq => a_setq sDQ (a_survive false a)
  | cSq => a_setq sSQ (a_survive false a)
  | cSp | cWs => a_setq sTop a
  | cBs => a_setq sTop (a_bad (a_survive false a))
  | cHash => a_setq sTop (a_survive true a)
  | cL | cSt => a_setq sTop (a_survive false a)
  end.

Definition c_lit (a : ast) (c : cls) (plain esc : sm) (quote : cls) (in_esc : bool) : ast :=
  match c with
  | cSp | cWs =>
      let a := if a_m a then a else a_setlw (bump (a_lw a) c) a in
      a_setq plain a
  | _ =>
      let a := a_survive false a in
      if in_esc then a_setq plain a
      else match c, quote with
           | cBs, _ => a_setq esc a
           | cDq, cDq => a_setq sTop a
           | cSq, cSq => a_setq sTop a
           | _, _ => a_setq plain a
           end
  end.

Definition cstep (a : ast) (c : cls) : ast :=
  match a_q a with
  | sTop => c_top a c
  | sSlash =>
      match c with
      | cSl => a_setq sLC a
      | cSt => a_setq sBlk a
      | _ => c_top (a_survive false (a_far a)) c
      end
  | sLC => a
  | sBlk => match c with cSt => a_setq sBlkStar a | _ => a end
  | sBlkStar => match c with cSl => a_setq sTop a | cSt => a | _ => a_setq sBlk a end
  | sDQ => c_lit a c sDQ sDQe cDq false
  | sDQe => c_lit a c sDQ sDQe cDq true
  | sSQ => c_lit a c sSQ sSQe cSq false
  | sSQe => c_lit a c sSQ sSQe cSq true
  end.

(* end of a physical line: new state for the next line, "this line counted",
   "the logical line ended here", directive state of the ended logical line *)
Record eol := { e_next : ast; e_counted : bool; e_ended : bool; e_d : dstate }.

Definition c_eol (continued : bool) (a : ast) : eol :=
  let ok1 := a_ok a && negb (negb (a_m a) && match a_lw a with lwM => true | _ => false end) in
  if continued then
    {| e_next := {| a_q := a_q a; a_m := false; a_d := a_d a; a_lw := lw0; a_sc := false; a_ok := ok1 |};
       e_counted := a_m a; e_ended := false; e_d := a_d a |}
  else
    let fin (a : ast) (ok : bool) :=
      {| e_next := {| a_q := sTop; a_m := false; a_d := dNone; a_lw := lw0; a_sc := false; a_ok := ok |};
         e_counted := a_m a; e_ended := true; e_d := a_d a |} in
    let cont (q : sm) :=
      {| e_next := {| a_q := q; a_m := false; a_d := a_d a; a_lw := lw0; a_sc := false; a_ok := ok1 |};
         e_counted := a_m a; e_ended := false; e_d := a_d a |} in
    match a_q a with
    | sTop | sLC => fin a ok1
    | sSlash => fin (a_survive false a) (ok1 && a_sc a)
    | sBlk => cont sBlk
    | sBlkStar => cont sBlk
    | sDQ | sDQe | sSQ | sSQe => fin a false
    end.

(* ---------- abstraction of the mode stack ---------- *)
Definition mode_eqb (x y : mode) : bool :=
  match x, y with
  | TOP, TOP | CPP, CPP | DQ, DQ | SQ, SQ | ESC, ESC | SLASH, SLASH | BLOCK, BLOCK
  | BSTAR, BSTAR | INLINE, INLINE | MERR, MERR => true
  | _, _ => false
  end.
Fixpoint stack_eqb (x y : list mode) : bool :=
  match x, y with
  | [], [] => true
  | a :: x', b :: y' => mode_eqb a b && stack_eqb x' y'
  | _, _ => false
  end.

(* the 18 mode stacks reachable on well-formed input, with the reference state each stands for *)
Definition stack_table : list (list mode * sm) :=
  [([TOP], sTop); ([CPP; TOP], sTop);
   ([SLASH; TOP], sSlash); ([SLASH; CPP; TOP], sSlash);
   ([INLINE; TOP], sLC); ([INLINE; CPP; TOP], sLC);
   ([BLOCK; TOP], sBlk); ([BLOCK; CPP; TOP], sBlk);
   ([BSTAR; BLOCK; TOP], sBlkStar); ([BSTAR; BLOCK; CPP; TOP], sBlkStar);
   ([DQ; TOP], sDQ); ([DQ; CPP; TOP], sDQ);
   ([ESC; DQ; TOP], sDQe); ([ESC; DQ; CPP; TOP], sDQe);
   ([SQ; TOP], sSQ); ([SQ; CPP; TOP], sSQ);
   ([ESC; SQ; TOP], sSQe); ([ESC; SQ; CPP; TOP], sSQe)].

Fixpoint lookup (st : list mode) (t : list (list mode * sm)) : option sm :=
  match t with
  | [] => None
  | (k, q) :: r => if stack_eqb st k then Some q else lookup st r
  end.
Definition alpha (st : list mode) : option sm := lookup st stack_table.
Definition stacks : list (list mode) := map fst stack_table.
Definition bclss : list bcls :=
  [bE; bSp false; bSp true; bWn false; bWn true; bD0 false; bD0 true; bD1 false; bD1 true; bN false; bN true].
Definition clss : list cls := [cL; cSp; cWs; cSl; cSt; cDq; cSq; cBs; cHash].
Definition lwss : list (lws * bool) := [(lw0, true); (lw1, true); (lwM, true); (lw0, false); (lw1, false); (lwM, false)].

Definition bmarked (b : bcls) : bool :=
  match b with bD0 _ | bD1 _ | bN _ => true | _ => false end.
Definition dof (k : cat) : dstate := match k with BLANK => dNone | CPPD => dDir | SRC => dSrc end.
Definition in_lit (q : sm) : bool := match q with sDQ | sDQe | sSQ | sSQe => true | _ => false end.

Definition d_eqb (x y : dstate) : bool :=
  match x, y with dNone, dNone | dDir, dDir | dSrc, dSrc => true | _, _ => false end.
Definition lw_eqb (x y : lws) : bool :=
  match x, y with lw0, lw0 | lw1, lw1 | lwM, lwM => true | _, _ => false end.
Definition osm_eqb (x : option sm) (y : sm) : bool := match x with Some q => sm_eqb q y | None => false end.

(* invariant on (buffer of the physical line, joined buffer of the logical line so far) *)
Definition okbuf (q : sm) (b L : bcls) (w : lws) : bool :=
  match b with
  | bD0 _ | bD1 _ | bN _ => true
  | bE => lw_eqb w lw0
  | bSp true => negb (in_lit q) && lw_eqb w lw0
  | bSp false => in_lit q && lw_eqb w lw1
  | bWn false => in_lit q && lw_eqb w lwM
  | bWn true => false
  end.
Definition okL (q : sm) (b L : bcls) : bool :=
  match L with
  | bE | bSp true => negb (in_lit q) || bmarked b
  | bSp false | bWn _ => false
  | _ => true
  end.

Definition relb (st : list mode) (b L : bcls) (a : ast) : bool :=
  osm_eqb (alpha st) (a_q a) && Bool.eqb (bmarked b) (a_m a) &&
  d_eqb (dof (ab_cat (ab_join L b))) (a_d a) && okbuf (a_q a) b L (a_lw a) && okL (a_q a) b L.

Definition mk_ast (q : sm) (b L : bcls) (w : lws * bool) : ast :=
  {| a_q := q; a_m := bmarked b; a_d := dof (ab_cat (ab_join L b)); a_lw := fst w; a_sc := snd w; a_ok := true |}.

Definition step_ok (st : list mode) (b L : bcls) (w : lws * bool) (c : cls) : bool :=
  match alpha st with
  | None => true
  | Some q =>
      let a := mk_ast q b L w in
      implb (relb st b L a)
        (let r := mstep absalg st b c in
         let a' := cstep a c in
         implb (a_ok a') (relb (fst r) (snd r) L a'))
  end.

Definition all5 {A B C D E} (la : list A) (lb : list B) (lc : list C) (ld : list D) (le : list E)
           (f : A -> B -> C -> D -> E -> bool) : bool :=
  forallb (fun a => forallb (fun b => forallb (fun c => forallb (fun d => forallb (f a b c d) le) ld) lc) lb) la.

Definition fails5 {A B C D E} (la : list A) (lb : list B) (lc : list C) (ld : list D) (le : list E)
           (f : A -> B -> C -> D -> E -> bool) : list (A * B * C * D * E) :=
  flat_map (fun a => flat_map (fun b => flat_map (fun c => flat_map (fun d =>
    flat_map (fun e => if f a b c d e then [] else [(a, b, c, d, e)]) le) ld) lc) lb) la.


Definition m_eol (st : list mode) (b : bcls) (continued : bool) : list mode * bcls :=
  if negb continued && negb (top_is_block st) then logical_newline absalg st b else (st, b).

Definition eol_ok (st : list mode) (b L : bcls) (w : lws * bool) (continued : bool) : bool :=
  match alpha st with
  | None => true
  | Some q =>
      let a := mk_ast q b L w in
      implb (relb st b L a)
        (let r := m_eol st b continued in
         let counted := negb (cat_blank (ab_cat (snd r))) in
         let L' := ab_join L (snd r) in
         let ended := negb continued && negb (top_is_block (fst r)) in
         let e := c_eol continued a in
         implb (a_ok (e_next e))
           (Bool.eqb counted (e_counted e) && Bool.eqb ended (e_ended e) &&
            d_eqb (dof (ab_cat L')) (e_d e) &&
            implb ended (stack_eqb (fst r) [TOP]) &&
            relb (fst r) bE (if ended then bE else L') (e_next e)))
  end.


Lemma step_table : all5 stacks bclss bclss lwss clss step_ok = true.
Proof. vm_compute. reflexivity. Qed.
Lemma eol_table : all5 stacks bclss bclss lwss [true; false] eol_ok = true.
Proof. vm_compute. reflexivity. Qed.

(* ---------- lifting the tables ---------- *)
Lemma mode_eqb_eq x y : mode_eqb x y = true -> x = y.
Proof. destruct x, y; simpl; congruence. Qed.
Lemma stack_eqb_eq x : forall y, stack_eqb x y = true -> x = y.
Proof.
  induction x as [|a x IH]; intros [|b y]; simpl; try congruence.
  intros H. apply andb_true_iff in H. destruct H as [H1 H2].
  apply mode_eqb_eq in H1. apply IH in H2. congruence.
Qed.
Lemma sm_eqb_eq x y : sm_eqb x y = true -> x = y.
Proof. destruct x, y; simpl; congruence. Qed.
Lemma d_eqb_eq x y : d_eqb x y = true -> x = y.
Proof. destruct x, y; simpl; congruence. Qed.

Lemma lookup_in st t q : lookup st t = Some q -> In st (map fst t).
Proof.
  induction t as [|[k q'] t IH]; simpl; [discriminate|].
  destruct (stack_eqb st k) eqn:E; [|intros H; right; auto].
  intros _. left. symmetry. apply stack_eqb_eq. exact E.
Qed.
Lemma alpha_in st q : alpha st = Some q -> In st stacks.
Proof. apply lookup_in. Qed.
Lemma in_bclss b : In b bclss.
Proof. destruct b as [|[]|[]|[]|[]|[]]; simpl; tauto. Qed.
Lemma in_clss c : In c clss.
Proof. destruct c; simpl; tauto. Qed.
Lemma in_lwss w : In w lwss.
Proof. destruct w as [[] []]; simpl; tauto. Qed.
Lemma in_bools (x : bool) : In x [true; false].
Proof. destruct x; simpl; tauto. Qed.

Lemma all5_spec {A B C D E} la lb lc ld le (f : A -> B -> C -> D -> E -> bool) :
  all5 la lb lc ld le f = true ->
  forall a b c d e, In a la -> In b lb -> In c lc -> In d ld -> In e le -> f a b c d e = true.
Proof.
  unfold all5. intros H a b c d e Ha Hb Hc Hd He.
  rewrite forallb_forall in H. specialize (H a Ha).
  rewrite forallb_forall in H. specialize (H b Hb).
  rewrite forallb_forall in H. specialize (H c Hc).
  rewrite forallb_forall in H. specialize (H d Hd).
  rewrite forallb_forall in H. exact (H e He).
Qed.

Lemma rel_ast st b L a :
  relb st b L a = true -> a_ok a = true ->
  alpha st = Some (a_q a) /\ a = mk_ast (a_q a) b L (a_lw a, a_sc a).
Proof.
  unfold relb. intros H Hok.
  repeat (apply andb_true_iff in H; destruct H as [H ?]).
  unfold osm_eqb in H. destruct (alpha st) as [q|] eqn:Ea; [|discriminate].
  apply sm_eqb_eq in H. subst q. split; [reflexivity|].
  destruct a as [q m d w sc ok]. simpl in *. unfold mk_ast. subst ok.
  match goal with H : Bool.eqb _ _ = true |- _ => apply Bool.eqb_prop in H; rewrite H end.
  match goal with H : d_eqb _ _ = true |- _ => apply d_eqb_eq in H; rewrite H end.
  reflexivity.
Qed.

Lemma step_sim st b L a c :
  relb st b L a = true -> a_ok a = true -> a_ok (cstep a c) = true ->
  relb (fst (mstep absalg st b c)) (snd (mstep absalg st b c)) L (cstep a c) = true.
Proof.
  intros HR Hok Hok'. destruct (rel_ast _ _ _ _ HR Hok) as [Ha Ea].
  pose proof (all5_spec _ _ _ _ _ _ step_table st b L (a_lw a, a_sc a) c
                (alpha_in _ _ Ha) (in_bclss b) (in_bclss L) (in_lwss _) (in_clss c)) as T.
  unfold step_ok in T. rewrite Ha, <- Ea, HR in T. cbn [implb] in T.
  rewrite Hok' in T. exact T.
Qed.

Lemma ok_mono_step a c : a_ok (cstep a c) = true -> a_ok a = true.
Proof.
  destruct a as [q m d w sc ok]. destruct q, c, m, sc; simpl; intros H; try exact H; try discriminate H.
Qed.
Lemma ok_mono_fold cs : forall a, a_ok (fold_left cstep cs a) = true -> a_ok a = true.
Proof.
  induction cs as [|c cs IH]; intros a H; [exact H|].
  apply ok_mono_step with c. apply IH. exact H.
Qed.

Lemma fold_sim L cs : forall st b a,
  relb st b L a = true -> a_ok (fold_left cstep cs a) = true ->
  relb (fst (process absalg st b cs)) (snd (process absalg st b cs)) L (fold_left cstep cs a) = true.
Proof.
  unfold process. induction cs as [|c cs IH]; intros st b a HR Hok; cbn [fold_left]; [exact HR|].
  cbn [fold_left] in Hok.
  pose proof (ok_mono_fold _ _ Hok) as Hok1.
  pose proof (ok_mono_step _ _ Hok1) as Hok0.
  pose proof (step_sim _ _ _ _ c HR Hok0 Hok1) as H1.
  replace (mstep' absalg (st, b) c) with (mstep absalg st b c) by reflexivity.
  destruct (mstep absalg st b c) as [st1 b1]. cbn [fst snd] in H1.
  apply IH; assumption.
Qed.

Lemma ok_mono_eol continued a : a_ok (e_next (c_eol continued a)) = true -> a_ok a = true.
Proof.
  destruct a as [q m d w sc ok]. unfold c_eol. destruct continued, q; simpl;
    intros H; try discriminate H; repeat (apply andb_true_iff in H; destruct H as [H ?]); exact H.
Qed.

Lemma eol_sim st b L a continued :
  relb st b L a = true -> a_ok (e_next (c_eol continued a)) = true ->
  let r := m_eol st b continued in
  let e := c_eol continued a in
  let ended := negb continued && negb (top_is_block (fst r)) in
  negb (cat_blank (ab_cat (snd r))) = e_counted e /\ ended = e_ended e /\
  dof (ab_cat (ab_join L (snd r))) = e_d e /\
  (ended = true -> fst r = [TOP]) /\
  relb (fst r) bE (if ended then bE else ab_join L (snd r)) (e_next e) = true.
Proof.
  intros HR Hok'. pose proof (ok_mono_eol _ _ Hok') as Hok.
  destruct (rel_ast _ _ _ _ HR Hok) as [Ha Ea].
  pose proof (all5_spec _ _ _ _ _ _ eol_table st b L (a_lw a, a_sc a) continued
                (alpha_in _ _ Ha) (in_bclss b) (in_bclss L) (in_lwss _) (in_bools _)) as T.
  unfold eol_ok in T. rewrite Ha, <- Ea, HR in T. cbn [implb] in T.
  rewrite Hok' in T. cbn [implb] in T.
  cbv zeta.
  repeat (apply andb_true_iff in T; destruct T as [T ?]).
  repeat split.
  - apply Bool.eqb_prop. assumption.
  - apply Bool.eqb_prop. assumption.
  - apply d_eqb_eq. assumption.
  - intros E. match goal with H : implb _ _ = true |- _ => rewrite E in H; cbn [implb] in H; apply stack_eqb_eq in H; exact H end.
  - assumption.
Qed.

Lemma rel_init sc : relb [TOP] bE bE {| a_q := sTop; a_m := false; a_d := dNone; a_lw := lw0; a_sc := sc; a_ok := true |} = true.
Proof. vm_compute. reflexivity. Qed.
