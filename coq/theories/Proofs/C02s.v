(* C02 proofs, part 2: operator semantics of M = ISO C (S), unknown identifiers,
   `defined` forms, the skipped #elif. *)
From Coq Require Import ZArith Bool String Ascii List Lia ZifyBool.
From CBI Require Import Lib.Data Lib.Res Gen.C02_tables Model.C02 Spec.C02 Proofs.C02.
From CBI Require Model.C01 Spec.C01.
Import ListNotations.
Local Open Scope Z_scope.

(* ------------------------------------------------------------------ values *)
Lemma make_value_wrap z u : make_value z u = wrap z u.
Proof.
  unfold make_value, wrap. destruct u; [reflexivity|]. f_equal.
  destruct (two63 <=? z mod two64) eqn:A, (z mod two64 <? two63) eqn:B; lia.
Qed.

Lemma wrap_id v : in_range v -> wrap (vz v) (vu v) = v.
Proof.
  destruct v as [z [|]]; cbn [in_range vz vu wrap]; unfold two63, two64; intros H.
  - rewrite Z.mod_small by lia. reflexivity.
  - f_equal. destruct (Z.ltb_spec 0 (z + 1)) as [P|N].
    + rewrite Z.mod_small by lia. destruct (z <? 9223372036854775808) eqn:E; lia.
    + assert (M : z mod 18446744073709551616 = z + 18446744073709551616).
      { symmetry. apply (Z.mod_unique _ _ (-1)); lia. }
      rewrite M. destruct (z + 18446744073709551616 <? 9223372036854775808) eqn:E; lia.
Qed.

Lemma wrap_in_range z u : in_range (wrap z u).
Proof.
  unfold wrap, in_range, two63, two64. pose proof (Z.mod_pos_bound z 18446744073709551616 eq_refl) as B.
  destruct u; [exact B|]. destruct (z mod 18446744073709551616 <? 9223372036854775808) eqn:E; lia.
Qed.

Lemma make_value_b2z b : make_value (b2z b) false = truth b.
Proof. destruct b; reflexivity. Qed.

(* ------------------------------------------------------------------ unary operators *)
Theorem un_sem_ok o v : in_range v -> apply_unary (uspell o) v = Some (un_sem o v).
Proof.
  intros R. destruct v as [z u]. destruct o; cbn [uspell apply_unary un_sem String.eqb Ascii.eqb Bool.eqb].
  - rewrite make_value_wrap. reflexivity.
  - rewrite make_value_wrap. exact (f_equal Some (wrap_id (V z u) R)).
  - rewrite make_value_b2z. reflexivity.
  - rewrite make_value_wrap. f_equal. replace (Z.lnot z) with (- z - 1) by (unfold Z.lnot; lia).
    destruct u; cbn [in_range] in R.
    + unfold wrap. f_equal. symmetry. apply (Z.mod_unique _ _ (-1)); unfold two64 in *; lia.
    + apply (wrap_id (V (- z - 1) false)). cbn [in_range]. unfold two63 in *. lia.
Qed.

(* ------------------------------------------------------------------ binary operators *)
Lemma quot_abs a b : b <> 0 ->
  (if negb (Bool.eqb (a <? 0) (b <? 0)) then - (Z.abs a / Z.abs b) else Z.abs a / Z.abs b) = Z.quot a b.
Proof.
  intros Hb. rewrite (Z.quot_div a b Hb).
  destruct (Z.ltb_spec a 0) as [A|A], (Z.ltb_spec b 0) as [B|B]; cbn [Bool.eqb negb].
  - rewrite (Z.sgn_neg a A), (Z.sgn_neg b B). lia.
  - rewrite (Z.sgn_neg a A), (Z.sgn_pos b) by lia. lia.
  - destruct (Z.eq_dec a 0) as [->|Na].
    + cbn. reflexivity.
    + rewrite (Z.sgn_pos a) by lia. rewrite (Z.sgn_neg b B). lia.
  - destruct (Z.eq_dec a 0) as [->|Na].
    + cbn. reflexivity.
    + rewrite (Z.sgn_pos a), (Z.sgn_pos b) by lia. lia.
Qed.

Definition strict (o : binop) : bool := match o with BLand | BLor => false | _ => true end.

Ltac opstart :=
  unfold apply_binary, bin_sem, usual, to_unsigned;
  cbn [bspell String.eqb Ascii.eqb Bool.eqb orb andb negb].

(* every strict binary operator: wherever ISO C defines a value, M computes that value *)
Theorem bin_sem_ok o a b v : strict o = true -> bin_sem o a b = Some v -> apply_binary (bspell o) a b = Some v.
Proof.
  intros Hs H. destruct a as [x ux], b as [y uy].
  destruct o; try discriminate Hs; revert H; opstart.
  (* * *)
  - destruct (ux || uy); intros H; rewrite make_value_wrap; exact H.
  (* / *)
  - destruct (ux || uy); cbn zeta;
      match goal with |- context [?d =? 0] => destruct (Z.eqb_spec d 0) as [E|E] end;
      try discriminate; intros H; rewrite make_value_wrap, (quot_abs _ _ E); exact H.
  (* % *)
  - destruct (ux || uy); cbn zeta;
      match goal with |- context [?d =? 0] => destruct (Z.eqb_spec d 0) as [E|E] end;
      try discriminate; intros H; rewrite make_value_wrap, (quot_abs _ _ E); rewrite <- H; do 2 f_equal;
      match goal with |- ?n - Z.quot ?n ?d * ?d = _ => pose proof (Z.quot_rem' n d); rewrite (Z.mul_comm (Z.quot n d) d); lia end.
  (* + - *)
  - destruct (ux || uy); intros H; rewrite make_value_wrap; exact H.
  - destruct (ux || uy); intros H; rewrite make_value_wrap; exact H.
  (* << >> *)
  - destruct ((0 <=? y) && (y <? 64)) eqn:E; [|discriminate]. cbn [negb].
    intros H. rewrite make_value_wrap, Z.shiftl_mul_pow2 by lia. exact H.
  - destruct ((0 <=? y) && (y <? 64)) eqn:E; [|discriminate]. cbn [negb].
    intros H. rewrite make_value_wrap, Z.shiftr_div_pow2 by lia. exact H.
  (* < <= > >= == != *)
  - destruct (ux || uy); intros H; rewrite make_value_b2z; exact H.
  - destruct (ux || uy); intros H; rewrite make_value_b2z; exact H.
  - destruct (ux || uy); intros H; rewrite make_value_b2z; exact H.
  - destruct (ux || uy); intros H; rewrite make_value_b2z; exact H.
  - destruct (ux || uy); intros H; rewrite make_value_b2z; exact H.
  - destruct (ux || uy); intros H; rewrite make_value_b2z; exact H.
  (* & ^ | *)
  - destruct (ux || uy); intros H; rewrite make_value_wrap; exact H.
  - destruct (ux || uy); intros H; rewrite make_value_wrap; exact H.
  - destruct (ux || uy); intros H; rewrite make_value_wrap; exact H.
Qed.

(* && and ||: exactly 0 or 1, of type int; M evaluates both operands (operators never fail in M),
   which is indistinguishable from C's short circuit *)
Theorem land_ok a b : apply_binary "&&" a b = Some (truth (negb (vz a =? 0) && negb (vz b =? 0))).
Proof. destruct a as [x ux], b as [y uy]. unfold apply_binary. cbn [String.eqb Ascii.eqb Bool.eqb vz]. rewrite make_value_b2z. reflexivity. Qed.
Theorem lor_ok a b : apply_binary "||" a b = Some (truth (negb (vz a =? 0) || negb (vz b =? 0))).
Proof. destruct a as [x ux], b as [y uy]. unfold apply_binary. cbn [String.eqb Ascii.eqb Bool.eqb vz]. rewrite make_value_b2z. reflexivity. Qed.

(* M's operators are total: every operator in the table has a semantics (no ValueError) *)
Theorem apply_binary_total o a b : exists v, apply_binary (bspell o) a b = Some v /\ in_range v.
Proof.
  destruct a as [x ux], b as [y uy]. unfold apply_binary.
  destruct o; cbn [bspell String.eqb Ascii.eqb Bool.eqb orb andb negb];
    repeat match goal with |- context [if ?c then _ else _] => destruct c end;
    eexists; (split; [reflexivity|]); rewrite make_value_wrap; apply wrap_in_range.
Qed.
Theorem apply_unary_total o a : exists v, apply_unary (uspell o) a = Some v /\ in_range v.
Proof.
  destruct a as [x ux]. destruct o; cbn [uspell apply_unary String.eqb Ascii.eqb Bool.eqb];
    eexists; (split; [reflexivity|]); rewrite make_value_wrap; apply wrap_in_range.
Qed.

(* ?: — the value of the selected operand converted to the common type of the 2nd and 3rd *)
Theorem cond_value_ok c t f : in_range t -> in_range f ->
  cond_value c t f = convert (if vz c =? 0 then f else t) (vu t || vu f).
Proof.
  intros Rt Rf. unfold cond_value, convert. rewrite make_value_wrap.
  destruct (vz c =? 0).
  - destruct (vu t || vu f) eqn:U; [reflexivity|]. apply orb_false_iff in U. destruct U as [_ U].
    rewrite <- U. apply wrap_id. exact Rf.
  - destruct (vu t || vu f) eqn:U; [reflexivity|]. apply orb_false_iff in U. destruct U as [U _].
    rewrite <- U. apply wrap_id. exact Rt.
Qed.

(* ------------------------------------------------------------------ identifiers *)
(* an identifier that survives expansion is read exactly like the constant 0, wherever it stands
   (unless an opening parenthesis follows: the call form, also 0 in CBI, is an error in ISO C) *)
Theorem identifier_is_zero f p n r :
  starts_call r = false -> expression (S f) p (Tok KId n :: r) = expression (S f) p (num "0" :: r).
Proof. intros H. rewrite (expr_id _ _ _ _ H). rewrite (expr_num f p "0" zero r eq_refl). reflexivity. Qed.

Theorem unknown_identifier_kept env n r :
  String.eqb n "defined" = false -> lookup n env = None ->
  expand env (Tok KId n :: r) = match expand env r with inr out => inr (Tok KId n :: out) | inl e => inl e end.
Proof. intros H1 H2. cbn [expand is_id tkind tspell kind_eqb]. rewrite H1, H2. reflexivity. Qed.

(* ------------------------------------------------------------------ defined X / defined(X) *)
Definition is_defined (env : list (string * list token)) (n : string) : bool :=
  match lookup n env with Some _ => true | None => false end.

Theorem defined_plain env n r :
  String.eqb n "(" = false ->
  expand env (Tok KId "defined" :: Tok KId n :: r) =
  match expand env r with inr out => inr (num_tok (is_defined env n) :: out) | inl e => inl e end.
Proof. intros H. cbn [expand is_id tkind tspell kind_eqb String.eqb Ascii.eqb Bool.eqb negb]. rewrite H. reflexivity. Qed.

Theorem defined_paren env n r :
  expand env (Tok KId "defined" :: lpar :: Tok KId n :: rpar :: r) =
  match expand env r with inr out => inr (num_tok (is_defined env n) :: out) | inl e => inl e end.
Proof. reflexivity. Qed.

Theorem defined_value env n paren :
  String.eqb n "(" = false ->
  evaluate_for_platform env (dt_source n paren) = OVal (truth (is_defined env n)).
Proof.
  intros H. unfold evaluate_for_platform, dt_source. destruct paren.
  - rewrite defined_paren. cbn [expand]. destruct (is_defined env n); reflexivity.
  - rewrite (defined_plain _ _ _ H). cbn [expand]. destruct (is_defined env n); reflexivity.
Qed.

(* ------------------------------------------------------------------ the skipped #elif *)
(* In the skipping machine that M (the tree builder + visitor of C01) is proved equal to for EVERY
   evaluator, the step for an #elif of a chain that has already selected a branch does not consult
   the evaluator at all: two evaluators that differ arbitrarily (one may fail) give the same step. *)
Theorem skipped_elif_step (ST ACT COND : Type) (mark : nat -> ST -> ST) (exec : ACT -> ST -> res ST)
        (ev1 ev2 : COND -> ST -> res bool) (s : Spec.C01.sst ST) f r id c :
  Spec.C01.sstk ST s = f :: r -> Spec.C01.taken f = true ->
  Spec.C01.sstep ST ACT COND mark exec ev1 s (id, Model.C01.KElif c) =
  Spec.C01.sstep ST ACT COND mark exec ev2 s (id, Model.C01.KElif c).
Proof. intros H T. cbn [Spec.C01.sstep]. rewrite H, T. reflexivity. Qed.
