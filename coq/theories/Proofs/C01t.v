(* C01 — the tree-shape predicates of the model are those of the CURRENT source
   (Gen/C01_tables.v is regenerated from codebasin/preprocessor.py on every run). *)
From Coq Require Import String List Bool.
From CBI Require Import Lib.Res Model.C01 Gen.C01_tables.
Import ListNotations.
Local Open Scope string_scope.

Fixpoint klookup (c : string) (t : list (string * (bool * bool * bool))) : option (bool * bool * bool) :=
  match t with [] => None | (k, v) :: r => if String.eqb k c then Some v else klookup c r end.

(* which Node class a line of the model stands for *)
Definition kind_class {ACT COND : Type} (k : kind ACT COND) : string :=
  match k with
  | KPlain _ => "CodeNode" | KIf _ => "IfNode" | KElif _ => "ElIfNode" | KElse => "ElseNode" | KEndif => "EndIfNode"
  end.

Theorem kinds_match_source (ACT COND : Type) (k : kind ACT COND) :
  klookup (kind_class k) node_kinds = Some (is_start ACT COND k, is_cont ACT COND k, is_end ACT COND k).
Proof. destruct k; vm_compute; reflexivity. Qed.

(* every other node class (code, #define, #undef, #include, #pragma, unrecognised
   directives, the file node) is a plain node: it neither opens, continues nor closes a level *)
Definition conditional_classes := ["IfNode"; "ElIfNode"; "ElseNode"; "EndIfNode"].
Theorem other_classes_plain :
  forallb (fun kv => existsb (String.eqb (fst kv)) conditional_classes ||
                     match snd kv with (false, false, false) => true | _ => false end) node_kinds = true.
Proof. vm_compute. reflexivity. Qed.
