(* C09 — proofs about the exclude test: pathspec as CBI uses it (Model/C09.v)
   against git's semantics (Spec/C09.v), and the laws of the matcher. *)
From Coq Require Import Bool Arith Ascii String List Lia.
From CBI Require Import Lib.Res Lib.Data Lib.C09_glob Model.C09 Spec.C09 Proofs.C09p.
Import ListNotations.

(* ---------- small facts ---------- *)
Lemma level_snoc ps p cs d :
  level (ps ++ [p]) cs d = if pat_hits d cs p then Some (negb (p_neg p)) else level ps cs d.
Proof. unfold level. rewrite fold_left_app. reflexivity. Qed.

Lemma ps_fold_snoc cs ps p st :
  fold_left (ps_step cs) (ps ++ [p]) st = ps_step cs (fold_left (ps_step cs) ps st) p.
Proof. rewrite fold_left_app. reflexivity. Qed.

Lemma pat_segs_notail p : p_tail p = false -> pat_segs p = p_segs p.
Proof. unfold pat_segs. intros ->. reflexivity. Qed.

(* lists without a "/**/" line *)
Definition notail (ps : list apat) : Prop := forall p, In p ps -> p_tail p = false.
Lemma notail_app l1 l2 : notail (l1 ++ l2) -> notail l1 /\ notail l2.
Proof. intros H. split; intros p Hp; apply H; apply in_or_app; auto. Qed.

(* a pattern that matches a parent directory exactly leaves a trace in pathspec's outcome *)
Lemma anc_touches p cs d :
  In d (sprefixes cs) -> bm (p_segs p) d = true -> outcome_of p cs <> NoM.
Proof.
  intros Hin Hb. unfold outcome_of.
  assert (existsb (bm (p_segs p)) (sprefixes cs) = true) as ->
    by (apply existsb_exists; exists d; auto).
  destruct (p_dir p); [discriminate|]. destruct (bm (p_segs p) cs); discriminate.
Qed.

Lemma nom_no_hits p cs :
  p_tail p = false -> outcome_of p cs = NoM ->
  pat_hits false cs p = false /\ forall d, In d (sprefixes cs) -> pat_hits true d p = false.
Proof.
  intros Ht H. unfold pat_hits. rewrite (pat_segs_notail p Ht). fold (pat_hits false cs p). split.
  - unfold outcome_of in H.
    destruct (p_dir p); [reflexivity|]. cbn.
    destruct (bm (p_segs p) cs); [discriminate|reflexivity].
  - intros d Hd. rewrite implb_true_r. cbn.
    destruct (bm (p_segs p) d) eqn:E; [|reflexivity].
    exfalso. eapply anc_touches; eauto.
Qed.

Lemma dirm_hits p cs :
  p_tail p = false -> outcome_of p cs = DirM ->
  pat_hits false cs p = false /\ exists d, In d (sprefixes cs) /\ pat_hits true d p = true.
Proof.
  intros Ht. unfold outcome_of, pat_hits. rewrite (pat_segs_notail p Ht). intros H.
  destruct (existsb (bm (p_segs p)) (sprefixes cs)) eqn:E.
  - apply existsb_exists in E. destruct E as (d & Hd & Hb).
    split.
    + destruct (p_dir p); [reflexivity|]. cbn. destruct (bm (p_segs p) cs); [discriminate|reflexivity].
    + exists d. split; [assumption|]. rewrite implb_true_r. cbn. assumption.
  - destruct (p_dir p); [discriminate|]. destruct (bm (p_segs p) cs); discriminate.
Qed.

Lemma filem_hits p cs : p_tail p = false -> outcome_of p cs = FileM -> pat_hits false cs p = true.
Proof.
  intros Ht. unfold outcome_of, pat_hits. rewrite (pat_segs_notail p Ht). intros H. destruct (p_dir p).
  - destruct (existsb _ _); discriminate.
  - cbn. destruct (bm (p_segs p) cs); [reflexivity|]. destruct (existsb _ _); discriminate.
Qed.

Lemma hits_file_filem p cs : p_tail p = false -> pat_hits false cs p = true -> outcome_of p cs = FileM.
Proof.
  intros Ht. unfold outcome_of, pat_hits. rewrite (pat_segs_notail p Ht). destruct (p_dir p); cbn; [discriminate|].
  intros ->. reflexivity.
Qed.

(* ---------- soundness: whatever CBI excludes, git ignores ---------- *)
Definition sound_inv (ps : list apat) (cs : list chars) (st : option bool * nat) : Prop :=
  snd st <= 2 /\
  (fst st = Some true ->
   if Nat.eqb (snd st) 2 then level ps cs false = Some true
   else exists d, In d (sprefixes cs) /\ level ps d true = Some true).

Lemma sound_inv_holds cs ps : notail ps -> sound_inv ps cs (fold_left (ps_step cs) ps (None, 0)).
Proof.
  induction ps as [|p ps IH] using rev_ind; intros NT; [split; [cbn; lia|discriminate]|].
  apply notail_app in NT. destruct NT as (NT & NTp). specialize (IH NT).
  assert (p_tail p = false) as Htl by (apply NTp; left; reflexivity).
  rewrite ps_fold_snoc. set (st := fold_left (ps_step cs) ps (None, 0)) in *.
  destruct IH as (Hle & IH). unfold ps_step. destruct (outcome_of p cs) eqn:Ho.
  - (* NoM *) destruct (nom_no_hits _ _ Htl Ho) as (Hf & Hd).
    split; [assumption|]. intros Ht. specialize (IH Ht).
    destruct (Nat.eqb (snd st) 2).
    + rewrite level_snoc, Hf. assumption.
    + destruct IH as (d & Hin & Hl). exists d. split; [assumption|]. rewrite level_snoc, (Hd d Hin). assumption.
  - (* FileM *) split; [cbn; lia|]. cbn. intros Ht.
    rewrite level_snoc, (filem_hits _ _ Htl Ho). assumption.
  - (* DirM *) destruct (dirm_hits _ _ Htl Ho) as (Hf & d & Hin & Hd).
    destruct (p_neg p) eqn:Hn; cbn.
    + destruct (Nat.leb (snd st) 1) eqn:Hl1; [split; [cbn; lia|discriminate]|].
      apply Nat.leb_gt in Hl1. assert (snd st = 2) as E2 by lia.
      split; [assumption|]. intros Ht. specialize (IH Ht). rewrite E2 in *. cbn in *.
      rewrite level_snoc, Hf. assumption.
    + split; [cbn; lia|]. cbn. intros _.
      exists d. split; [assumption|]. rewrite level_snoc, Hd, Hn. reflexivity.
Qed.

Theorem ps_match_sound ps cs : notail ps -> ps_match ps cs = true -> git_ignored ps cs = true.
Proof.
  unfold ps_match, git_ignored. intros NT H.
  destruct (sound_inv_holds cs ps NT) as (_ & Inv).
  destruct (fold_left (ps_step cs) ps (None, 0)) as [[[|]|] n]; cbn in H; try discriminate.
  specialize (Inv eq_refl). cbn in Inv. apply orb_true_iff.
  destruct (Nat.eqb n 2).
  - right. rewrite Inv. reflexivity.
  - left. destruct Inv as (d & Hin & Hl). apply existsb_exists. exists d. rewrite Hl. auto.
Qed.

(* ---------- completeness outside the two known classes ---------- *)
Lemma pos_keeps cs l : forall st,
  fst st = Some true ->
  (forall q, In q l -> touches cs q = true -> p_neg q = false) ->
  fst (fold_left (ps_step cs) l st) = Some true.
Proof.
  induction l as [|q l IH]; intros st Hst Hall; [assumption|].
  cbn [fold_left]. apply IH; [|intros q' Hq'; apply Hall; right; assumption].
  specialize (Hall q (or_introl eq_refl)). unfold touches in Hall. unfold ps_step.
  destruct (outcome_of q cs); [assumption| |]; rewrite (Hall eq_refl); reflexivity.
Qed.

Lemma level_last ps cs d :
  level ps cs d = Some true ->
  exists l1 p l2, ps = l1 ++ p :: l2 /\ pat_hits d cs p = true /\ p_neg p = false /\
                  forall q, In q l2 -> pat_hits d cs q = false.
Proof.
  induction ps as [|p ps IH] using rev_ind; [discriminate|].
  rewrite level_snoc. destruct (pat_hits d cs p) eqn:Hh.
  - intros H. exists ps, p, []. repeat split; try assumption.
    + destruct (p_neg p); [discriminate|reflexivity].
    + intros q [].
  - intros H. destruct (IH H) as (l1 & p0 & l2 & -> & Hp0 & Hn & Hl2).
    exists l1, p0, (l2 ++ [p]). repeat split; try assumption.
    + rewrite <- app_assoc. reflexivity.
    + intros q Hq. apply in_app_or in Hq. destruct Hq as [Hq|[<-|[]]]; [apply Hl2; assumption|assumption].
Qed.

Lemma parent_reinclude_suffix l1 l cs : parent_reinclude (l1 ++ l) cs = false -> parent_reinclude l cs = false.
Proof.
  induction l1 as [|a l1 IH]; [trivial|]. cbn [app parent_reinclude]. intros H.
  apply orb_false_iff in H. apply IH, H.
Qed.
Lemma dir_reneg_suffix l1 l cs : dir_reneg (l1 ++ l) cs = false -> dir_reneg l cs = false.
Proof.
  induction l1 as [|a l1 IH]; [trivial|]. cbn [app dir_reneg]. intros H.
  apply orb_false_iff in H. apply IH, H.
Qed.

Lemma after_file_match cs l :
  (forall q, In q l -> outcome_of q cs <> FileM) ->
  dirpos_then_dirneg l cs = false ->
  fst (fold_left (ps_step cs) l (Some true, 2)) = Some true.
Proof.
  induction l as [|q l IH]; intros Hnf Hg; [reflexivity|].
  cbn [dirpos_then_dirneg] in Hg. apply orb_false_iff in Hg. destruct Hg as (Hq & Hg).
  cbn [fold_left]. unfold ps_step at 2.
  pose proof (Hnf q (or_introl eq_refl)) as Hqf.
  destruct (outcome_of q cs) eqn:Ho; [| contradiction |].
  - apply IH; [intros q' Hq'; apply Hnf; right; assumption|assumption].
  - destruct (p_neg q) eqn:Hn; cbn [negb snd Nat.leb].
    + apply IH; [intros q' Hq'; apply Hnf; right; assumption|assumption].
    + unfold is_dirm_pos in Hq. rewrite Ho, Hn in Hq. cbn in Hq.
      apply pos_keeps; [reflexivity|].
      intros q' Hq' Ht. destruct (p_neg q') eqn:Hn'; [|reflexivity]. exfalso.
      assert (is_dirm_neg cs q' = false) as Hdn.
      { destruct (existsb (is_dirm_neg cs) l) eqn:E; [discriminate|].
        destruct (is_dirm_neg cs q') eqn:E'; [|reflexivity].
        assert (existsb (is_dirm_neg cs) l = true) by (apply existsb_exists; exists q'; auto). congruence. }
      unfold is_dirm_neg in Hdn. unfold touches in Ht.
      pose proof (Hnf q' (or_intror Hq')) as Hf'.
      destruct (outcome_of q' cs); [discriminate|contradiction|congruence].
Qed.

Theorem ps_match_complete ps cs :
  notail ps -> parent_reinclude ps cs = false -> dir_reneg ps cs = false ->
  git_ignored ps cs = true -> ps_match ps cs = true.
Proof.
  intros NT G1 G2 H. unfold git_ignored in H. apply orb_true_iff in H.
  assert (fst (fold_left (ps_step cs) ps (None, 0)) = Some true) as E;
    [|unfold ps_match; rewrite E; reflexivity].
  destruct H as [H|H].
  - (* a parent directory is excluded *)
    apply existsb_exists in H. destruct H as (d & Hin & Hx).
    destruct (level ps d true) as [[|]|] eqn:Hl; try discriminate.
    destruct (level_last _ _ _ Hl) as (l1 & p & l2 & -> & Hp & Hn & Hl2).
    destruct (notail_app _ _ NT) as (_ & NT2).
    assert (p_tail p = false) as Htp by (apply NT2; left; reflexivity).
    rewrite fold_left_app. cbn [fold_left].
    unfold pat_hits in Hp. rewrite (pat_segs_notail p Htp), implb_true_r in Hp. cbn in Hp.
    apply pos_keeps.
    + pose proof (anc_touches p cs d Hin Hp) as Ht. unfold ps_step.
      destruct (outcome_of p cs); [contradiction| |]; rewrite Hn; reflexivity.
    + apply parent_reinclude_suffix in G1. cbn [parent_reinclude] in G1.
      apply orb_false_iff in G1. destruct G1 as (G1 & _). rewrite Hn in G1. cbn [negb andb] in G1.
      assert (existsb (fun d0 => bm (p_segs p) d0 && negb (existsb (fun q => bm (p_segs q) d0) l2)) (sprefixes cs) = true) as Ex.
      { apply existsb_exists. exists d. split; [assumption|]. rewrite Hp. cbn.
        destruct (existsb (fun q => bm (p_segs q) d) l2) eqn:E; [|reflexivity].
        apply existsb_exists in E. destruct E as (q & Hq & Hb).
        specialize (Hl2 q Hq). unfold pat_hits in Hl2.
        rewrite (pat_segs_notail q (NT2 q (or_intror Hq))), implb_true_r in Hl2. cbn in Hl2. congruence. }
      rewrite Ex in G1. cbn in G1.
      intros q Hq Ht. destruct (p_neg q) eqn:Hnq; [|reflexivity].
      assert (existsb (fun q0 => p_neg q0 && touches cs q0) l2 = true)
        by (apply existsb_exists; exists q; rewrite Hnq, Ht; auto).
      congruence.
  - (* the file itself is excluded by the last pattern that matches it *)
    destruct (level ps cs false) as [[|]|] eqn:Hl; try discriminate.
    destruct (level_last _ _ _ Hl) as (l1 & f & l2 & -> & Hp & Hn & Hl2).
    destruct (notail_app _ _ NT) as (_ & NT2).
    rewrite fold_left_app. cbn [fold_left].
    pose proof (hits_file_filem _ _ (NT2 f (or_introl eq_refl)) Hp) as Hof.
    unfold ps_step at 2. rewrite Hof, Hn. cbn [negb].
    apply after_file_match.
    + intros q Hq Hc. apply (filem_hits _ _ (NT2 q (or_intror Hq))) in Hc. rewrite (Hl2 q Hq) in Hc. discriminate.
    + apply dir_reneg_suffix in G2. cbn [dir_reneg] in G2. apply orb_false_iff in G2.
      destruct G2 as (G2 & _). unfold is_filem_pos in G2. rewrite Hof, Hn in G2. exact G2.
Qed.

Theorem ps_match_eq_git ps cs :
  notail ps -> parent_reinclude ps cs = false -> dir_reneg ps cs = false ->
  ps_match ps cs = git_ignored ps cs.
Proof.
  intros NT G1 G2. destruct (git_ignored ps cs) eqn:Hg.
  - apply ps_match_complete; assumption.
  - destruct (ps_match ps cs) eqn:Hm; [|reflexivity].
    apply (ps_match_sound _ _ NT) in Hm. congruence.
Qed.

(* ---------- laws of the matcher (S) ---------- *)
Lemma negation_reincludes ps p cs :
  p_neg p = true -> pat_hits false cs p = true ->
  (forall d, In d (sprefixes cs) -> is_excl (level ps d true) = false) ->
  git_ignored (ps ++ [p]) cs = false.
Proof.
  intros Hn Hh Hanc. unfold git_ignored. apply orb_false_iff. split.
  - destruct (existsb _ _) eqn:E; [|reflexivity]. apply existsb_exists in E.
    destruct E as (d & Hin & Hx). rewrite level_snoc in Hx.
    destruct (pat_hits true d p); [rewrite Hn in Hx; discriminate|]. rewrite (Hanc d Hin) in Hx. discriminate.
  - rewrite level_snoc, Hh, Hn. reflexivity.
Qed.

Lemma parent_rule_spec ps p cs d :
  In d (sprefixes cs) -> is_excl (level ps d true) = true -> pat_hits true d p = false ->
  git_ignored (ps ++ [p]) cs = true.
Proof.
  intros Hin Hx Hh. unfold git_ignored. apply orb_true_iff. left.
  apply existsb_exists. exists d. split; [assumption|]. rewrite level_snoc, Hh. assumption.
Qed.

Lemma bm_dstar_cons s r cs :
  bm (SDStar :: s :: r) cs = bm (s :: r) cs || match cs with [] => false | _ :: t => bm (SDStar :: s :: r) t end.
Proof. destruct cs; reflexivity. Qed.

Lemma anchored_only_at_root g cs : bm [SGlob g] cs = true <-> exists c, cs = [c] /\ gmatch g c = true.
Proof.
  split.
  - destruct cs as [|c [|c' t]]; cbn; try discriminate.
    + intros H. apply andb_true_iff in H. exists c. split; [reflexivity|apply H].
    + intros H. apply andb_true_iff in H. destruct H; discriminate.
  - intros (c & -> & H). cbn. rewrite H. reflexivity.
Qed.

Lemma unanchored_any_depth g cs :
  bm [SDStar; SGlob g] cs = true <-> exists pre c, cs = pre ++ [c] /\ gmatch g c = true.
Proof.
  split.
  - induction cs as [|x t IH]; rewrite bm_dstar_cons; intros H; apply orb_true_iff in H.
    + destruct H; discriminate.
    + destruct H as [H|H].
      * apply anchored_only_at_root in H. destruct H as (c & E & Hg). exists [], c. split; assumption.
      * destruct (IH H) as (pre & c & -> & Hg). exists (x :: pre), c. split; [reflexivity|assumption].
  - intros (pre & c & -> & Hg). induction pre as [|x pre IH]; rewrite bm_dstar_cons; apply orb_true_iff.
    + left. apply anchored_only_at_root. exists c. split; [reflexivity|assumption].
    + right. exact IH.
Qed.

Lemma star_matches_component c : gmatch [GStar] c = true.
Proof. induction c as [|x t IH]; [reflexivity|]. cbn. cbn in IH. exact IH. Qed.

Lemma star_stops_at_slash gs cs : bm (map SGlob gs) cs = true -> length cs = length gs.
Proof.
  revert cs. induction gs as [|g gs IH]; intros [|c t]; cbn; try discriminate; [reflexivity|].
  intros H. apply andb_true_iff in H. f_equal. apply IH, H.
Qed.

Lemma dir_pattern_needs_dir p cs :
  p_dir p = true -> pat_hits false cs p = false /\ outcome_of p cs <> FileM.
Proof.
  intros Hd. split; [unfold pat_hits; rewrite Hd; reflexivity|].
  unfold outcome_of. rewrite Hd. destruct (existsb _ _); discriminate.
Qed.

(* ---------- membership: model = spec once the exclude tests agree ---------- *)
Lemma is_prefix_length a b : is_prefix a b = true -> length a <= length b.
Proof.
  revert b. induction a as [|x a IH]; intros [|y b]; cbn; try lia; try discriminate.
  intros H. apply andb_true_iff in H. specialize (IH b (proj2 H)). lia.
Qed.
Lemma is_prefix_same_length a b : is_prefix a b = true -> length a = length b -> a = b.
Proof.
  revert b. induction a as [|x a IH]; intros [|y b]; cbn; try discriminate; [reflexivity|].
  intros H L. apply andb_true_iff in H. destruct H as (Hx & Hr). apply String.eqb_eq in Hx.
  f_equal; [assumption|]. apply IH; [assumption|lia].
Qed.

Lemma find_root_strict_eq fs roots r :
  (forall d, In d roots -> lookup fs d = Some KDir) -> lookup fs r = Some KFile ->
  find_root_strict roots r = find_root roots r.
Proof.
  intros Hd Hr. induction roots as [|d roots IH]; [reflexivity|]. cbn [find_root find_root_strict].
  destruct (is_prefix d r) eqn:Hp; cbn [andb].
  - destruct (Nat.ltb (length d) (length r)) eqn:Hl; [reflexivity|]. exfalso.
    apply Nat.ltb_ge in Hl. pose proof (is_prefix_length _ _ Hp).
    assert (d = r) by (apply is_prefix_same_length; [assumption|lia]). subst d.
    rewrite (Hd r (or_introl eq_refl)) in Hr. discriminate.
  - apply IH. intros d' Hd'. apply Hd. right. assumption.
Qed.

Lemma find_root_prefix roots r root : find_root roots r = Some root -> is_prefix root r = true /\ In root roots.
Proof.
  induction roots as [|d roots IH]; [discriminate|]. cbn. destruct (is_prefix d r) eqn:Hp.
  - intros [= <-]. auto.
  - intros H. destruct (IH H). auto.
Qed.

Theorem contains_eq_member fs cb r ps :
  compile false (cb_lines cb) = CPats ps -> compile true (cb_lines cb) = CPats ps -> notail ps ->
  (forall d, In d (cb_roots cb) -> lookup fs d = Some KDir) ->
  (forall root, find_root (cb_roots cb) r = Some root ->
     parent_reinclude ps (rel_comps root r) = false /\ dir_reneg ps (rel_comps root r) = false) ->
  contains_resolved fs cb r = member_resolved fs cb r.
Proof.
  intros Hc1 Hc2 NT Hd Hg. unfold contains_resolved, member_resolved.
  destruct (lookup fs r) as [[| |]|] eqn:Hl; try reflexivity.
  pose proof (has_language_eq r) as Hh.
  destruct (has_language r); destruct (is_source_file r); try discriminate Hh; cbn [negb]; [|reflexivity].
  rewrite (find_root_strict_eq fs _ _ Hd Hl).
  destruct (find_root (cb_roots cb) r) as [root|] eqn:Hf; [|reflexivity].
  rewrite Hc1, Hc2. destruct (Hg root eq_refl) as (G1 & G2).
  destruct (find_root_prefix _ _ _ Hf) as (Hp & Hin).
  assert (length root < length r) as Hlt.
  { pose proof (is_prefix_length _ _ Hp). destruct (Nat.eq_dec (length root) (length r)) as [E|]; [|lia].
    assert (root = r) by (apply is_prefix_same_length; assumption). subst root.
    rewrite (Hd r Hin) in Hl. discriminate. }
  assert (rel_comps root r = map list_of_string (skipn (length root) r)) as Er.
  { unfold rel_comps. destruct (skipn (length root) r) eqn:E; [|reflexivity].
    exfalso. pose proof (skipn_length (length root) r) as L. rewrite E in L. cbn in L. lia. }
  rewrite <- Er, (ps_match_eq_git ps _ NT G1 G2). reflexivity.
Qed.

(* ---------- enumeration and spelling ---------- *)
Lemma filter_res_In f l out :
  filter_res f l = Ok out -> forall p, In p out <-> In p l /\ f p = Ok true.
Proof.
  revert out. induction l as [|x l IH]; intros out; cbn.
  - intros [= <-] p. cbn. tauto.
  - destruct (f x) as [b|e] eqn:Hx; [|discriminate].
    destruct (filter_res f l) as [o|e] eqn:Hr; [|discriminate].
    intros [= <-] p. specialize (IH o eq_refl p). destruct b; cbn; rewrite ?IH; split.
    + intros [<-|H]; [auto|tauto].
    + intros ([<-|H] & Hp); [auto|tauto].
    + intros H. tauto.
    + intros ([<-|H] & Hp); [congruence|tauto].
Qed.

Theorem iter_exact fs cb out :
  iter fs cb = Ok out ->
  forall p, In p out <-> In p (flat_map (rglob fs) (cb_roots cb)) /\ contains_abs fs cb p = Ok true.
Proof. unfold iter. apply filter_res_In. Qed.

Theorem spelling_independent fs cb c1 c2 s1 s2 :
  resolve fs c1 s1 = resolve fs c2 s2 ->
  contains fs c1 cb s1 = contains fs c2 cb s2 /\ member fs c1 cb s1 = member fs c2 cb s2.
Proof. unfold contains, member. intros ->. split; reflexivity. Qed.

(* ---------- adding a positive pattern at the end never re-includes ---------- *)
Lemma git_positive_monotone ps p cs :
  p_neg p = false -> git_ignored ps cs = true -> git_ignored (ps ++ [p]) cs = true.
Proof.
  intros Hn H. unfold git_ignored in *. apply orb_true_iff in H. apply orb_true_iff. destruct H as [H|H].
  - left. apply existsb_exists in H. destruct H as (d & Hin & Hx). apply existsb_exists. exists d.
    split; [assumption|]. rewrite level_snoc. destruct (pat_hits true d p); [rewrite Hn; reflexivity|assumption].
  - right. rewrite level_snoc. destruct (pat_hits false cs p); [rewrite Hn; reflexivity|assumption].
Qed.

Lemma ps_positive_monotone ps p cs :
  p_neg p = false -> ps_match ps cs = true -> ps_match (ps ++ [p]) cs = true.
Proof.
  unfold ps_match. intros Hn H. rewrite ps_fold_snoc. unfold ps_step.
  destruct (outcome_of p cs); [assumption| |]; rewrite Hn; reflexivity.
Qed.
