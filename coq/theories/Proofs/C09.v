(* C09 — proofs about the exclude test: pathspec as CBI uses it (Model/C09.v)
   against git's semantics (Spec/C09.v), and the laws of the matcher. *)
From Coq Require Import Bool Arith Ascii String List Lia.
From CBI Require Import Lib.Res Lib.Data Lib.C09_glob Model.C09 Spec.C09.
Import ListNotations.

(* ---------- small facts ---------- *)
Lemma level_snoc ps p cs d :
  level (ps ++ [p]) cs d = if pat_hits d cs p then Some (negb (p_neg p)) else level ps cs d.
Proof. unfold level. rewrite fold_left_app. reflexivity. Qed.

Lemma ps_fold_snoc cs ps p st :
  fold_left (ps_step cs) (ps ++ [p]) st = ps_step cs (fold_left (ps_step cs) ps st) p.
Proof. rewrite fold_left_app. reflexivity. Qed.

(* a pattern that matches a parent directory exactly leaves a trace in pathspec's outcome *)
Lemma anc_touches p cs d :
  In d (sprefixes cs) -> bm (p_segs p) d = true -> outcome_of p cs <> NoM.
Proof.
  intros Hin Hb. unfold outcome_of.
  assert (existsb (bm (p_segs p)) (sprefixes cs) = true) as ->
    by (apply existsb_exists; exists d; auto).
  destruct (p_dir p); [discriminate|]. destruct (bm (p_segs p) cs); discriminate.
Qed.

Lemma nom_no_hits p cs :
  outcome_of p cs = NoM ->
  pat_hits false cs p = false /\ forall d, In d (sprefixes cs) -> pat_hits true d p = false.
Proof.
  intros H. split.
  - unfold pat_hits. unfold outcome_of in H.
    destruct (p_dir p); [reflexivity|]. cbn.
    destruct (bm (p_segs p) cs); [discriminate|reflexivity].
  - intros d Hd. unfold pat_hits. rewrite implb_true_r. cbn.
    destruct (bm (p_segs p) d) eqn:E; [|reflexivity].
    exfalso. eapply anc_touches; eauto.
Qed.

Lemma dirm_hits p cs :
  outcome_of p cs = DirM ->
  pat_hits false cs p = false /\ exists d, In d (sprefixes cs) /\ pat_hits true d p = true.
Proof.
  unfold outcome_of, pat_hits. intros H.
  destruct (existsb (bm (p_segs p)) (sprefixes cs)) eqn:E.
  - apply existsb_exists in E. destruct E as (d & Hd & Hb).
    split.
    + destruct (p_dir p); [reflexivity|]. cbn. destruct (bm (p_segs p) cs); [discriminate|reflexivity].
    + exists d. split; [assumption|]. rewrite implb_true_r. cbn. assumption.
  - destruct (p_dir p); [discriminate|]. destruct (bm (p_segs p) cs); discriminate.
Qed.

Lemma filem_hits p cs : outcome_of p cs = FileM -> pat_hits false cs p = true.
Proof.
  unfold outcome_of, pat_hits. intros H. destruct (p_dir p).
  - destruct (existsb _ _); discriminate.
  - cbn. destruct (bm (p_segs p) cs); [reflexivity|]. destruct (existsb _ _); discriminate.
Qed.

Lemma hits_file_filem p cs : pat_hits false cs p = true -> outcome_of p cs = FileM.
Proof.
  unfold outcome_of, pat_hits. destruct (p_dir p); cbn; [discriminate|].
  intros ->. reflexivity.
Qed.

(* ---------- soundness: whatever CBI excludes, git ignores ---------- *)
Definition sound_inv (ps : list apat) (cs : list chars) (st : option bool * nat) : Prop :=
  snd st <= 2 /\
  (fst st = Some true ->
   if Nat.eqb (snd st) 2 then level ps cs false = Some true
   else exists d, In d (sprefixes cs) /\ level ps d true = Some true).

Lemma sound_inv_holds cs ps : sound_inv ps cs (fold_left (ps_step cs) ps (None, 0)).
Proof.
  induction ps as [|p ps IH] using rev_ind; [split; [cbn; lia|discriminate]|].
  rewrite ps_fold_snoc. set (st := fold_left (ps_step cs) ps (None, 0)) in *.
  destruct IH as (Hle & IH). unfold ps_step. destruct (outcome_of p cs) eqn:Ho.
  - (* NoM *) destruct (nom_no_hits _ _ Ho) as (Hf & Hd).
    split; [assumption|]. intros Ht. specialize (IH Ht).
    destruct (Nat.eqb (snd st) 2).
    + rewrite level_snoc, Hf. assumption.
    + destruct IH as (d & Hin & Hl). exists d. split; [assumption|]. rewrite level_snoc, (Hd d Hin). assumption.
  - (* FileM *) split; [cbn; lia|]. cbn. intros Ht.
    rewrite level_snoc, (filem_hits _ _ Ho). assumption.
  - (* DirM *) destruct (dirm_hits _ _ Ho) as (Hf & d & Hin & Hd).
    destruct (p_neg p) eqn:Hn; cbn.
    + destruct (Nat.leb (snd st) 1) eqn:Hl1; [split; [cbn; lia|discriminate]|].
      apply Nat.leb_gt in Hl1. assert (snd st = 2) as E2 by lia.
      split; [assumption|]. intros Ht. specialize (IH Ht). rewrite E2 in *. cbn in *.
      rewrite level_snoc, Hf. assumption.
    + split; [cbn; lia|]. cbn. intros _.
      exists d. split; [assumption|]. rewrite level_snoc, Hd, Hn. reflexivity.
Qed.

Theorem ps_match_sound ps cs : ps_match ps cs = true -> git_ignored ps cs = true.
Proof.
  unfold ps_match, git_ignored. intros H.
  destruct (sound_inv_holds cs ps) as (_ & Inv).
  destruct (fold_left (ps_step cs) ps (None, 0)) as [[[|]|] n]; cbn in H; try discriminate.
  specialize (Inv eq_refl). cbn in Inv. apply orb_true_iff.
  destruct (Nat.eqb n 2).
  - right. rewrite Inv. reflexivity.
  - left. destruct Inv as (d & Hin & Hl). apply existsb_exists. exists d. rewrite Hl. auto.
Qed.
