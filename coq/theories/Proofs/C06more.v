(* C06 - further lemmas: the root's setmap is the summary's setmap (as a list),
   summary cannot fail on positive counts, platform letters of directory rows. *)
From Coq Require Import ZArith String Bool Arith Lia Permutation List.
From CBI Require Import Lib.Data Lib.Res Model.C06 Spec.C06 Proofs.C06 Proofs.C06tree.
Import ListNotations.
Local Open Scope Z_scope.

(* ---------- adding a list of keys; adding it de-duplicated is the same ---------- *)
Definition adds (ks l : list pset) : list pset := fold_left (fun ks k => add_key k ks) l ks.

Lemma adds_snoc ks l k : adds ks (l ++ [k]) = add_key k (adds ks l).
Proof. unfold adds. rewrite fold_left_app. reflexivity. Qed.
Lemma adds_In l : forall ks x, In x (adds ks l) <-> In x ks \/ In x l.
Proof.
  unfold adds. induction l as [|k l IH]; intros ks x; cbn [fold_left In]; [intuition|].
  rewrite IH, add_key_In. intuition.
Qed.
Lemma add_key_old k ks : In k ks -> add_key k ks = ks.
Proof.
  induction ks as [|y ks IH]; intros H; [destruct H|]. cbn [add_key].
  destruct (key_eqb y k) eqn:E; [reflexivity|]. destruct H as [->|H]; [rewrite key_eqb_refl in E; discriminate|].
  rewrite IH by exact H. reflexivity.
Qed.
Lemma add_key_new k ks : ~ In k ks -> add_key k ks = ks ++ [k].
Proof.
  induction ks as [|y ks IH]; intros H; [reflexivity|]. cbn [add_key].
  destruct (key_eqb y k) eqn:E; [apply key_eqb_eq in E; subst; exfalso; apply H; left; reflexivity|].
  rewrite IH by (intros Hin; apply H; right; exact Hin). reflexivity.
Qed.
Lemma adds_dedup l : forall ks, adds ks (adds [] l) = adds ks l.
Proof.
  induction l as [|k l IH] using rev_ind; intros ks; [reflexivity|].
  rewrite !adds_snoc. destruct (in_dec (list_eq_dec string_dec) k l) as [Hin|Hnin].
  - rewrite (add_key_old k (adds [] l)) by (apply adds_In; right; exact Hin).
    rewrite (add_key_old k (adds ks l)) by (apply adds_In; right; exact Hin). apply IH.
  - rewrite (add_key_new k (adds [] l)) by (rewrite adds_In; intros [[]|H]; contradiction).
    rewrite adds_snoc, IH. reflexivity.
Qed.

Lemma add_node_keys_adds ns : forall ks, add_node_keys ks ns = adds ks (map nplat ns).
Proof. unfold add_node_keys, adds. induction ns as [|n ns IH]; intros ks; cbn [fold_left map]; [reflexivity | apply IH]. Qed.

Lemma keys_sm_merge sm : forall m, map fst (sm_merge m sm) = adds (map fst m) (map fst sm).
Proof.
  unfold sm_merge, adds. induction sm as [|[k v] sm IH]; intros m; cbn [fold_left map fst]; [reflexivity|].
  rewrite IH, keys_sm_add. reflexivity.
Qed.

Lemma keys_merge_file m f : map fst (sm_merge m (file_setmap f)) = add_node_keys (map fst m) (fnodes f).
Proof.
  rewrite keys_sm_merge. unfold file_setmap. rewrite keys_add_nodes. cbn [map].
  rewrite !add_node_keys_adds. apply adds_dedup.
Qed.

(* ---------- the root's setmap ---------- *)
Lemma insert_root_sm comps link sm t :
  tsm (insert comps link sm t) = match comps with [] => tsm t | _ => if link then tsm t else sm_merge (tsm t) sm end.
Proof. destruct comps, t; reflexivity. Qed.

Definition root_step (prune : bool) (m : setmap) (f : file) : setmap :=
  if shown prune f && negb (flink f) && negb (match fpath f with [] => true | _ => false end)
  then sm_merge m (file_setmap f) else m.

Lemma root_sm_fold prune files : forall t, tsm (fold_left (step prune) files t) = fold_left (root_step prune) files (tsm t).
Proof.
  induction files as [|f files IH]; intros t; cbn [fold_left]; [reflexivity|]. rewrite IH. f_equal.
  unfold step, root_step. rewrite kept_shown. destruct (shown prune f); cbn [andb]; [|reflexivity].
  rewrite insert_root_sm. destruct (fpath f); [rewrite andb_false_r; reflexivity|].
  destruct (flink f); reflexivity.
Qed.

Lemma root_keys_gen files : links_ok files -> (forall f, In f files -> fpath f <> []) -> forall m,
  map fst (fold_left (root_step false) files m)
  = fold_left (fun ks f => if counted f then fold_left (fun ks n => add_key (nplat n) ks) (fnodes f) ks else ks) files (map fst m).
Proof.
  induction files as [|f files IH]; intros Hl Hne m; cbn [fold_left]; [reflexivity|].
  rewrite IH by (try (intros g Hg; apply Hne; right; exact Hg); intros g Hg; apply Hl; right; exact Hg). f_equal.
  unfold root_step, shown, counted, skipped. cbn [negb orb andb].
  destruct (fpath f) eqn:E; [exfalso; apply (Hne f (or_introl eq_refl) E)|]. cbn [negb]. rewrite andb_true_r.
  destruct (flink f) eqn:L; cbn [negb andb].
  - rewrite (Hl f (or_introl eq_refl) L). reflexivity.
  - rewrite keys_merge_file. reflexivity.
Qed.

(* the unpruned root's dict is, entry for entry and in the same order, the dict that summary reads *)
Theorem root_setmap_exact files : links_ok files -> (forall f, In f files -> fpath f <> []) ->
  tsm (files_tree false files) = get_setmap files.
Proof.
  intros Hl Hne.
  assert (K : map fst (tsm (files_tree false files)) = spec_keys files).
  { rewrite files_tree_fold, root_sm_fold, (root_keys_gen files Hl Hne). reflexivity. }
  rewrite (canon (tsm (files_tree false files))) by (rewrite K; apply spec_keys_NoDup).
  rewrite K, get_setmap_exact. unfold spec_buckets. apply map_ext. intros k.
  rewrite (root_is_summary files Hl Hne), setmap_sums. reflexivity.
Qed.

(* ---------- summary's denominator is positive when every node counts at least one line ---------- *)
Lemma nodes_sum_nonneg P ns : (forall n, In n ns -> 0 <= nnum n) -> 0 <= nodes_sum P ns.
Proof.
  induction ns as [|n ns IH]; intros H; cbn [nodes_sum fold_right]; [lia|]. fold (nodes_sum P ns).
  pose proof (H n (or_introl eq_refl)). pose proof (IH (fun x Hx => H x (or_intror Hx))). destruct (P (nplat n)); lia.
Qed.
Lemma nodes_sum_ge ns n : (forall x, In x ns -> 0 <= nnum x) -> In n ns -> nnum n <= nodes_sum (fun _ => true) ns.
Proof.
  induction ns as [|y ns IH]; intros H Hn; [destruct Hn|]. cbn [nodes_sum fold_right]. fold (nodes_sum (fun _ : pset => true) ns).
  pose proof (nodes_sum_nonneg (fun _ => true) ns (fun x Hx => H x (or_intror Hx))).
  destruct Hn as [->|Hn]; [lia|]. pose proof (IH (fun x Hx => H x (or_intror Hx)) Hn). pose proof (H y (or_introl eq_refl)). lia.
Qed.
Lemma sloc_ge files f n : (forall g x, In g files -> In x (fnodes g) -> 0 <= nnum x) ->
  In f files -> counted f = true -> In n (fnodes f) -> nnum n <= sloc files.
Proof.
  unfold sloc. induction files as [|g files IH]; intros H Hf Hc Hn; [destruct Hf|]. cbn [spec_sum fold_right]. fold (spec_sum (fun _ => true) files).
  assert (Hrest : 0 <= spec_sum (fun _ => true) files).
  { clear - H. induction files as [|h files IH]; cbn [spec_sum fold_right]; [lia|]. fold (spec_sum (fun _ => true) files).
    pose proof (IH (fun g' x Hg Hx => H g' x (match Hg with or_introl e => or_introl e | or_intror r => or_intror (or_intror r) end) Hx)).
    pose proof (nodes_sum_nonneg (fun _ => true) (fnodes h) (fun x Hx => H h x (or_intror (or_introl eq_refl)) Hx)).
    destruct (counted h); lia. }
  pose proof (nodes_sum_nonneg (fun _ => true) (fnodes g) (fun x Hx => H g x (or_introl eq_refl) Hx)) as Hg.
  destruct Hf as [->|Hf].
  - rewrite Hc. pose proof (nodes_sum_ge (fnodes f) n (fun x Hx => H f x (or_introl eq_refl) Hx) Hn). lia.
  - pose proof (IH (fun g' x Hg' Hx => H g' x (or_intror Hg') Hx) Hf Hc Hn). destruct (counted g); lia.
Qed.

(* a non-empty table of positive counts has a positive denominator: every printed percentage is a number *)
Theorem summary_total files :
  (exists rows, summary (get_setmap files) = Ok (rows, sloc files)) /\
  ((forall f n, In f files -> In n (fnodes f) -> 0 < nnum n) -> spec_keys files <> [] -> 0 < sloc files).
Proof.
  split; [apply summary_never_fails|]. intros Hpos Hk.
  destruct (spec_keys files) as [|k ks] eqn:Ek; [congruence|].
  assert (Hin : In k (spec_keys files)) by (rewrite Ek; left; reflexivity).
  apply spec_keys_In in Hin. destruct Hin as (f & n & Hf & Hc & Hn & _).
  pose proof (sloc_ge files f n (fun g x Hg Hx => Z.lt_le_incl _ _ (Hpos g x Hg Hx)) Hf Hc Hn).
  pose proof (Hpos f n Hf Hn). lia.
Qed.
