(* C09 — file-system side: resolve yields link-free paths and is idempotent on
   them; rglob reaches every entry below a real directory; hence every member
   is enumerated under its real path. *)
From Coq Require Import Bool Arith Ascii String List Lia.
From CBI Require Import Lib.Res Lib.Data Lib.C09_glob Model.C09 Spec.C09 Proofs.C09p Proofs.C09.
Import ListNotations.

Definition plain (c : string) : bool := negb (String.eqb c ""%string || String.eqb c "."%string || String.eqb c ".."%string).
Definition notlink (fs : fsys) (p : path) : bool :=
  match lookup fs p with Some (KLink _) => false | _ => true end.

(* acc is a reversed path all of whose prefixes are link-free and made of ordinary names *)
Fixpoint clean (fs : fsys) (acc : list string) : Prop :=
  match acc with
  | [] => True
  | c :: a => plain c = true /\ notlink fs (rev (c :: a)) = true /\ clean fs a
  end.

Lemma clean_tl fs acc : clean fs acc -> clean fs (tl acc).
Proof. destruct acc; [trivial|]. cbn. tauto. Qed.
Lemma clean_app_r fs l1 l2 : clean fs (l1 ++ l2) -> clean fs l2.
Proof. induction l1 as [|x l1 IH]; [trivial|]. cbn [app clean]. intros (_ & _ & H). auto. Qed.

Lemma rp_clean fs : forall fuel acc todo r, clean fs acc -> rp fuel fs acc todo = Ok r -> clean fs (rev r).
Proof.
  induction fuel as [|f IH]; intros acc todo r Hc; [discriminate|]. cbn [rp].
  destruct todo as [|c t].
  - intros [= <-]. rewrite rev_involutive. assumption.
  - destruct (String.eqb c ""%string || String.eqb c "."%string) eqn:E1; [apply IH; assumption|].
    destruct (String.eqb c ".."%string) eqn:E2; [apply IH, clean_tl; assumption|].
    assert (plain c = true) as Hp.
    { unfold plain. apply orb_false_iff in E1. destruct E1 as (-> & ->). rewrite E2. reflexivity. }
    destruct (lookup fs (rev (c :: acc))) as [[| |tgt]|] eqn:El.
    + apply IH. cbn [clean]. unfold notlink. rewrite El. auto.
    + apply IH. cbn [clean]. unfold notlink. rewrite El. auto.
    + destruct (is_abs tgt); apply IH; [exact I|assumption].
    + apply IH. cbn [clean]. unfold notlink. rewrite El. auto.
Qed.

Lemma rp_idem fs : forall suf fuel acc,
  clean fs (rev suf ++ acc) -> length suf < fuel -> rp fuel fs acc suf = Ok (rev acc ++ suf).
Proof.
  induction suf as [|c t IH]; intros fuel acc Hc Hf.
  - destruct fuel; [cbn in Hf; lia|]. cbn. rewrite app_nil_r. reflexivity.
  - destruct fuel as [|f]; [lia|]. cbn [rp].
    cbn [rev] in Hc. rewrite <- app_assoc in Hc. cbn [app] in Hc.
    pose proof (clean_app_r _ _ _ Hc) as Hca. cbn [clean] in Hca. destruct Hca as (Hp & Hn & _).
    unfold plain in Hp. apply negb_true_iff in Hp. apply orb_false_iff in Hp. destruct Hp as (Hp & E2).
    rewrite Hp, E2. unfold notlink in Hn.
    assert (rp f fs (c :: acc) t = Ok (rev acc ++ c :: t)) as R.
    { rewrite (IH f (c :: acc) Hc) by (cbn in Hf; lia). cbn [rev]. rewrite <- app_assoc. reflexivity. }
    destruct (lookup fs (rev (c :: acc))) as [[| |tgt]|]; try exact R. discriminate.
Qed.

Lemma resolve_comps_idem fs r : clean fs (rev r) -> resolve_comps fs [] r = Ok r.
Proof.
  intros Hc. unfold resolve_comps. cbn [rev]. apply (rp_idem fs r _ []).
  - rewrite app_nil_r. assumption.
  - lia.
Qed.

Lemma resolve_clean fs cwd s r : clean fs (rev cwd) -> resolve fs cwd s = Ok r -> clean fs (rev r).
Proof.
  unfold resolve, resolve_comps. intros Hc. destruct (is_abs s); apply rp_clean; [exact I|assumption].
Qed.

(* ---------- well-formed file systems and rglob ---------- *)
Definition wf (fs : fsys) : Prop :=
  forall p c k, assoc_path fs (p ++ [c]) = Some k -> lookup fs p = Some KDir.

Lemma path_eqb_eq a b : path_eqb a b = true -> a = b.
Proof.
  revert b. induction a as [|x a IH]; intros [|y b]; cbn; try discriminate; [reflexivity|].
  intros H. apply andb_true_iff in H. destruct H as (Hx & Hr). apply String.eqb_eq in Hx. f_equal; auto.
Qed.
Lemma assoc_path_In fs p k : assoc_path fs p = Some k -> In (p, k) fs.
Proof.
  induction fs as [|(q, k') fs IH]; [discriminate|]. cbn. destruct (path_eqb q p) eqn:E.
  - intros [= <-]. apply path_eqb_eq in E. subst. left. reflexivity.
  - intros H. right. auto.
Qed.

Lemma lookup_snoc fs p c : lookup fs (p ++ [c]) = assoc_path fs (p ++ [c]).
Proof. unfold lookup. destruct (p ++ [c]) eqn:E; [destruct p; discriminate|reflexivity]. Qed.

Lemma prefix_dirs fs : wf fs -> forall suf pre k,
  lookup fs (pre ++ suf) = Some k -> suf <> [] -> lookup fs pre = Some KDir.
Proof.
  intros W. induction suf as [|c suf IH] using rev_ind; intros pre k Hl Hne; [contradiction|].
  rewrite app_assoc, lookup_snoc in Hl. apply W in Hl.
  destruct suf as [|x suf']; [rewrite app_nil_r in Hl; assumption|].
  apply (IH pre KDir Hl). discriminate.
Qed.

Lemma dirs_between_ok fs n : forall rest pre,
  (forall a b, rest = a ++ b -> b <> [] -> lookup fs (rev pre ++ a) = Some KDir) ->
  dirs_between fs n pre rest = true.
Proof.
  induction rest as [|c t IH]; intros pre H; [reflexivity|]. cbn [dirs_between].
  apply andb_true_iff. split.
  - destruct (Nat.leb n (length pre)); [|reflexivity].
    rewrite <- (app_nil_r (rev pre)). rewrite (H [] (c :: t) eq_refl); [reflexivity|discriminate].
  - apply IH. intros a b E Hb. cbn [rev]. rewrite <- app_assoc. cbn [app].
    apply (H (c :: a) b); [rewrite E; reflexivity|assumption].
Qed.

Lemma rglob_reaches fs root r k :
  wf fs -> lookup fs r = Some k -> is_prefix root r = true -> length root < length r ->
  In r (rglob fs root).
Proof.
  intros W Hl Hp Hlt. unfold rglob. apply in_map_iff. exists (r, k). split; [reflexivity|].
  apply filter_In. split.
  - apply assoc_path_In. unfold lookup in Hl. destruct r; [cbn in Hlt; lia|assumption].
  - cbn [fst]. unfold below. rewrite Hp. apply Nat.ltb_lt in Hlt. rewrite Hlt. cbn [andb].
    apply dirs_between_ok. intros a b E Hb. cbn [rev app].
    apply (prefix_dirs fs W b a k); [rewrite <- E; assumption|assumption].
Qed.

(* ---------- every member is enumerated under its real path ---------- *)
Theorem iter_complete fs cwd cb s :
  wf fs -> clean fs (rev cwd) ->
  (forall d, In d (cb_roots cb) -> lookup fs d = Some KDir) ->
  contains fs cwd cb s = Ok true ->
  exists r, resolve fs cwd s = Ok r /\ contains_abs fs cb r = Ok true /\
            forall out, iter fs cb = Ok out -> In r out.
Proof.
  intros W Hcwd Hroots. unfold contains. destruct (resolve fs cwd s) as [r|e] eqn:Hr; [|discriminate].
  cbn [bind]. intros Hc. exists r. split; [reflexivity|].
  assert (contains_abs fs cb r = Ok true) as Ha.
  { unfold contains_abs. rewrite (resolve_comps_idem fs r (resolve_clean _ _ _ _ Hcwd Hr)). exact Hc. }
  split; [exact Ha|]. intros out Hit. apply (iter_exact _ _ _ Hit). split; [|exact Ha].
  unfold contains_resolved in Hc.
  destruct (lookup fs r) as [[| |]|] eqn:Hl; try discriminate.
  destruct (negb (is_source_file r)); [discriminate|].
  destruct (find_root (cb_roots cb) r) as [root|] eqn:Hf; [|discriminate].
  destruct (find_root_prefix _ _ _ Hf) as (Hp & Hin).
  apply in_flat_map. exists root. split; [assumption|].
  apply (rglob_reaches fs root r KFile W Hl Hp).
  pose proof (is_prefix_length _ _ Hp). destruct (Nat.eq_dec (length root) (length r)) as [E|]; [|lia].
  assert (root = r) by (apply is_prefix_same_length; assumption). subst root.
  rewrite (Hroots r Hin) in Hl. discriminate.
Qed.

(* boolean form of wf, for concrete file systems *)
Definition wfb (fs : fsys) : bool :=
  forallb (fun e => match fst e with
                    | [] => false
                    | p => match lookup fs (removelast p) with Some KDir => true | _ => false end
                    end) fs.
Lemma wfb_wf fs : wfb fs = true -> wf fs.
Proof.
  intros H p c k Ha. apply assoc_path_In in Ha. unfold wfb in H. rewrite forallb_forall in H.
  specialize (H _ Ha). cbn [fst] in H.
  destruct (p ++ [c]) as [|x l] eqn:E; [destruct p; discriminate|]. rewrite <- E, removelast_last in H.
  destruct (lookup fs p) as [[| |]|]; try discriminate. reflexivity.
Qed.

(* ---------- membership, at the observation point ---------- *)
Theorem membership_partial fs cwd cb s ps :
  compile false (cb_lines cb) = CPats ps -> notail ps ->
  (forall d, In d (cb_roots cb) -> lookup fs d = Some KDir) ->
  (forall r root, resolve fs cwd s = Ok r -> find_root (cb_roots cb) r = Some root ->
     parent_reinclude ps (rel_comps root r) = false /\ dir_reneg ps (rel_comps root r) = false) ->
  contains fs cwd cb s = member fs cwd cb s.
Proof.
  intros Hc NT Hd Hg. unfold contains, member. destruct (resolve fs cwd s) as [r|e] eqn:Hr; [|reflexivity].
  cbn [bind]. apply (contains_eq_member fs cb r ps Hc (compile_indep _ _ Hc) NT Hd).
  intros root Hf. apply (Hg r root eq_refl Hf).
Qed.

(* a line pathspec rejects makes every test that reaches the pattern stage raise *)
Theorem pattern_error_raises fs cb r root :
  compile false (cb_lines cb) = CErr ->
  lookup fs r = Some KFile -> is_source_file r = true -> find_root (cb_roots cb) r = Some root ->
  contains_resolved fs cb r = Err "PatternError"%string.
Proof. intros Hc Hl Hs Hf. unfold contains_resolved. rewrite Hl, Hs, Hf, Hc. reflexivity. Qed.

(* ---------- the property's "if and only if", read off the model ---------- *)
Theorem contains_iff fs cwd cb s :
  contains fs cwd cb s = Ok true <->
  exists r root ps,
    resolve fs cwd s = Ok r /\ lookup fs r = Some KFile /\ is_source_file r = true /\
    find_root (cb_roots cb) r = Some root /\ compile false (cb_lines cb) = CPats ps /\
    ps_match ps (rel_comps root r) = false.
Proof.
  unfold contains. split.
  - destruct (resolve fs cwd s) as [r|e]; [|discriminate]. cbn [bind]. unfold contains_resolved.
    destruct (lookup fs r) as [[| |]|] eqn:Hl; try discriminate.
    destruct (is_source_file r) eqn:Hs; [|discriminate]. cbn [negb].
    destruct (find_root (cb_roots cb) r) as [root|] eqn:Hf; [|discriminate].
    destruct (compile false (cb_lines cb)) as [ps| |] eqn:Hc; try discriminate.
    intros [= H]. apply negb_true_iff in H. exists r, root, ps. repeat split; assumption.
  - intros (r & root & ps & -> & Hl & Hs & Hf & Hc & Hm). cbn [bind]. unfold contains_resolved.
    rewrite Hl, Hs, Hf, Hc, Hm. reflexivity.
Qed.

Theorem member_iff fs cwd cb s :
  member fs cwd cb s = Ok true <->
  exists r root ps,
    resolve fs cwd s = Ok r /\ lookup fs r = Some KFile /\ has_language r = true /\
    find_root_strict (cb_roots cb) r = Some root /\ compile true (cb_lines cb) = CPats ps /\
    git_ignored ps (map list_of_string (skipn (length root) r)) = false.
Proof.
  unfold member. split.
  - destruct (resolve fs cwd s) as [r|e]; [|discriminate]. cbn [bind]. unfold member_resolved.
    destruct (lookup fs r) as [[| |]|] eqn:Hl; try discriminate.
    destruct (has_language r) eqn:Hs; [|discriminate]. cbn [negb].
    destruct (find_root_strict (cb_roots cb) r) as [root|] eqn:Hf; [|discriminate].
    destruct (compile true (cb_lines cb)) as [ps| |] eqn:Hc; try discriminate.
    intros [= H]. apply negb_true_iff in H. exists r, root, ps. repeat split; assumption.
  - intros (r & root & ps & -> & Hl & Hs & Hf & Hc & Hm). cbn [bind]. unfold member_resolved.
    rewrite Hl, Hs, Hf, Hc, Hm. reflexivity.
Qed.
