(* Dispatcher: one line in, one line out.  Used both by the extracted OCaml
   driver and by [Eval vm_compute] cross-checks. *)
From Coq Require Import List String.
From CBI Require Import Lib.Data Model.C16.
Import ListNotations.
Local Open Scope string_scope.

Definition dispatch (name : string) (d : data) : data :=
  if String.eqb name "C16" then run_C16 d
  else DStr "UNKNOWN".

Definition run_line (s : string) : string :=
  match parse s with
  | Some (DList [DStr name; d]) => print (dispatch name d)
  | _ => "PARSEERROR"
  end.
