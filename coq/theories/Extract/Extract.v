(* Extraction: ExtrOcamlBasic + ExtrOcamlString only; Z/N/positive/nat stay
   the extracted inductive types. *)
Require Extraction.
Require Import ExtrOcamlBasic ExtrOcamlString.
From CBI Require Import Extract.Main.
Extraction Language OCaml.
Extraction "cbimodel.ml" run_line.
