(* S for the `command` string clause of C11: POSIX-shell renderings of an
   argument vector.  A word is written as a non-empty sequence of segments:
   a plain character, a backslash-escaped character, a single-quoted run, a
   double-quoted run (inside which backslash escapes only the double quote and
   the backslash itself).  Words
   are separated by non-empty white space.  [value] is the argument a POSIX
   shell passes for such a word (shell expansions aside, which a compilation
   database does not contain).  Definitions only. *)
From Coq Require Import Ascii String Bool List.
From CBI Require Import Model.C11sh.
Import ListNotations.

Inductive dq :=
  | DP (c : ascii)        (* c, neither double quote nor backslash *)
  | DE (c : ascii)        (* backslash c with c a double quote or a backslash: stands for c *)
  | DB (c : ascii).       (* backslash c with any other c: stands for both characters *)
Inductive seg :=
  | SP (c : ascii)        (* plain: not white space, quote or backslash *)
  | SE (c : ascii)        (* backslash c outside quotes: stands for c *)
  | SS (w : word)         (* single-quoted run, no single quote inside *)
  | SD (l : list dq).     (* double-quoted run *)

Definition special (c : ascii) : bool := Ascii.eqb c c_bs || Ascii.eqb c c_dq.

Definition dq_ok (d : dq) : bool :=
  match d with DP c => negb (special c) | DE c => special c | DB c => negb (special c) end.
Definition seg_ok (s : seg) : bool :=
  match s with
  | SP c => negb (is_ws c) && negb (Ascii.eqb c c_sq) && negb (Ascii.eqb c c_dq) && negb (Ascii.eqb c c_bs)
  | SE _ => true
  | SS w => forallb (fun c => negb (Ascii.eqb c c_sq)) w
  | SD l => forallb dq_ok l
  end.

Definition render_dq (d : dq) : word := match d with DP c => [c] | DE c => [c_bs; c] | DB c => [c_bs; c] end.
Definition value_dq (d : dq) : word := match d with DP c => [c] | DE c => [c] | DB c => [c_bs; c] end.
Definition render_seg (s : seg) : word :=
  match s with
  | SP c => [c]
  | SE c => [c_bs; c]
  | SS w => c_sq :: w ++ [c_sq]
  | SD l => c_dq :: flat_map render_dq l ++ [c_dq]
  end.
Definition value_seg (s : seg) : word :=
  match s with SP c => [c] | SE c => [c] | SS w => w | SD l => flat_map value_dq l end.

Definition render_word (w : list seg) : word := flat_map render_seg w.
Definition value_word (w : list seg) : word := flat_map value_seg w.

(* a command: words, each followed by its separator *)
Fixpoint render_cmd (l : list (list seg * word)) : word :=
  match l with
  | [] => []
  | (w, sep) :: r => render_word w ++ sep ++ render_cmd r
  end.
Fixpoint cmd_ok (l : list (list seg * word)) : bool :=
  match l with
  | [] => true
  | (w, sep) :: r =>
      match w with [] => false | _ => true end && forallb seg_ok w && forallb is_ws sep
      && match r with [] => true | _ => match sep with [] => false | _ => true end end
      && cmd_ok r
  end.
