(* C18 — specification S: what a run MUST report, computed from the description of the
   code base alone, by the reference preprocessor of Spec/C04.v (textual inclusion,
   un-memoised search, skipping machine) and a declarative reading of the database.

   One event per occurrence of input that cannot be honoured:
     - a database entry that cannot be emulated at all (no command / not a source file),
     - a database entry whose file does not exist,
     - a compiler that is not in the compiler table,
     - the options of a command that are not registered (one event naming all of them),
     - a database from which nothing could be used,
     - per file read, each directive that is neither a directive of the language nor one
       of #line / #warning / #error (which cannot affect the result) nor the null directive,
     - per evaluation of a translation unit, each REACHED #include whose name resolves to
       no file (with file, line, requested name and form),
     - each forced include (-include) that resolves to no file.
   The totals are the numbers of events per category.  Definitions only. *)
From Coq Require Import Bool Arith ZArith Ascii String List.
From CBI Require Import Lib.Res Lib.C18_str Model.C01 Spec.C01 Model.C04 Spec.C04 Model.C18.
Import ListNotations.
Local Open Scope string_scope.
Local Open Scope list_scope.

Inductive sev :=
| SMissingFile (p : path)
| SUnsupported (cmd : string)
| SUnknownCompiler (name : string)
| SUnknownArgs (args : list string)
| SEmptyDB (db : string)
| SUnknownDirective (f : path) (line col : nat) (spelling : string)
| SMissingInclude (f : path) (line : nat) (name : path) (angle : bool)
| SMissingForced (f : path) (name : path)
| SBadCommand (e : string).        (* never asked for by S: such command lines are outside its domain *)

(* directives that may be ignored without a word *)
Definition harmless : list string := ["line"; "warning"; "error"].

Section Tables.
Variable base_options : list (string * bool).
Variable compilers : list (string * option string * list string * list (string * bool) * nat).
Variable source_extensions : list string.
Variable optional_value : list string.

(* ---------- the database ---------- *)
(* registered: the flag itself, or a value glued to a one-letter flag that takes a (possibly optional) one *)
Definition registered (opts : list (string * bool)) (t : string) : bool :=
  existsb (fun o => String.eqb (fst o) t) opts
  || existsb (fun o => glue_ok optional_value o && Nat.eqb (String.length (fst o)) 2 && String.prefix (fst o) t) opts.
Definition separate_arg (opts : list (string * bool)) (t : string) : bool :=
  existsb (fun o => String.eqb (fst o) t && snd o) opts.
(* the option tokens of a command that are not registered; the token after a flag that
   takes a separate argument is that argument *)
Fixpoint unknown_options (opts : list (string * bool)) (toks : list string) : list string :=
  match toks with
  | [] => []
  | t :: r =>
      if starts_dash t then
        if separate_arg opts t then match r with [] => [] | _ :: r' => unknown_options opts r' end
        else if registered opts t then unknown_options opts r
        else t :: unknown_options opts r
      else unknown_options opts r
  end.
(* every flag that takes a separate argument is followed by one *)
Fixpoint args_complete (opts : list (string * bool)) (toks : list string) : bool :=
  match toks with
  | [] => true
  | t :: r =>
      if starts_dash t && separate_arg opts t then
        match r with [] => false | a :: r' => negb (starts_dash a) && args_complete opts r' end
      else args_complete opts r
  end.

(* the tokens for which the declarative reading of a command line is claimed: a flag token
   either is registered exactly, or glues a value to exactly one registered one-letter flag
   that takes one (possibly optional), or matches nothing at all; it is NOT an abbreviation
   (proper prefix) of a registered flag, it is not ambiguous, and no text is glued to a
   one-letter flag that takes no value *)
Definition plain_tok (opts : list (string * bool)) (t : string) : bool :=
  if negb (starts_dash t) then true else
  match find (fun o => String.eqb (fst o) t) opts with
  | Some (_, b) => Bool.eqb b (separate_arg opts t)
  | None =>
      if double_dash t then
        match filter (fun o => Nat.eqb (String.length (fst o)) 2 && String.prefix (fst o) t) opts with [] => true | _ => false end
      else match tok_matches opts t with
           | [] => true
           | [o] => Nat.eqb (String.length (fst o)) 2 && glue_ok optional_value o
           | _ => false
           end
  end.

Definition usable (fs : fsys) (e : dbentry) : bool :=
  match db_argv0 e with None => false | Some _ => is_source source_extensions (db_file e) && isfile fs (db_file e) end.

Definition opts_of (e : dbentry) : list (string * bool) :=
  match db_argv0 e with
  | None => base_options
  | Some a => base_options ++ snd (fst (resolve compilers (List.length compilers) (basename a)))
  end.
Definition toks_of (e : dbentry) : list string :=
  match db_argv0 e with
  | None => []
  | Some a => argv_tokens e ++ fst (fst (resolve compilers (List.length compilers) (basename a)))
  end.
Definition passes_of (e : dbentry) : nat :=
  match db_argv0 e with
  | None => 0
  | Some a => S (snd (resolve compilers (List.length compilers) (basename a)))
  end.

Definition db_events (fs : fsys) (e : dbentry) : list sev :=
  match db_argv0 e with
  | None => [SUnsupported (db_cmd e)]
  | Some a =>
      if negb (is_source source_extensions (db_file e)) then [SUnsupported (db_cmd e)]
      else if negb (isfile fs (db_file e)) then [SMissingFile (db_file e)]
      else (if existsb (fun c => String.eqb (fst (fst (fst (fst c)))) (basename a)) compilers then [] else [SUnknownCompiler (basename a)])
           ++ match unknown_options (opts_of e) (toks_of e) with [] => [] | l => [SUnknownArgs l] end
  end.
(* the translation units a database yields: one per usable entry and compiler pass *)
Definition db_units (fs : fsys) (l : list dbentry) : list entry :=
  flat_map (fun e => if usable fs e then repeat (entry_of e) (passes_of e) else []) l.
Definition platform_events (fs : fsys) (pl : string * list dbentry) : list sev :=
  flat_map (db_events fs) (snd pl) ++ match db_units fs (snd pl) with [] => [SEmptyDB (fst pl)] | _ => [] end.

(* ---------- preprocessing ---------- *)
Fixpoint run_entries_S (fs : fsys) (fuel : nat) (es : list entry) : res (list event * list path) :=
  match es with
  | [] => Ok ([], [])
  | e :: r =>
      match run_tu_S fs fuel e with
      | Err x => Err x
      | Ok p => match run_entries_S fs fuel r with
                | Err x => Err x
                | Ok (evs, fl) => Ok (rev (events p) ++ evs, rev (map fst (assoc p)) ++ fl)
                end
      end
  end.

Definition forced_missing (fs : fsys) (e : entry) : list sev :=
  flat_map (fun n => match search fs (e_dirs e) (n, dirname (e_file e), false) with
                     | None => [SMissingForced (e_file e) n] | Some _ => [] end) (e_incs e).

(* ---------- directives ---------- *)
Definition reportable (u : udir) : bool :=
  match u_toks u with
  | _ :: (_, name) :: _ => negb (mem_str name harmless)
  | _ => false                                       (* the null directive *)
  end.
Definition directive_events (c : cfs) (f : path) : list sev :=
  match cfs_get c f with
  | Some cf => map (fun u => SUnknownDirective f (u_line u) (u_col u) (spelling_of (u_toks u))) (filter reportable (cf_unk cf))
  | None => []
  end.

Definition sev_of_event (e : event) : sev := SMissingInclude (ev_file e) (ev_tag e) (ev_name e) (ev_angle e).

(* no flag of any command lacks its argument (argparse rejects such a command line) *)
Definition commands_complete (fs : fsys) (pls : list (string * list dbentry)) : bool :=
  forallb (fun pl => forallb (fun e => negb (usable fs e) || args_complete (opts_of e) (toks_of e)) (snd pl)) pls.

(* every usable command consists of plain tokens *)
Definition commands_plain (fs : fsys) (pls : list (string * list dbentry)) : bool :=
  forallb (fun pl => forallb (fun e => negb (usable fs e) || forallb (plain_tok (opts_of e)) (toks_of e)) (snd pl)) pls.

(* ---------- a whole run ---------- *)
Definition run_find_S (c : cfs) (fuel : nat) (codebase : list path) (pls : list (string * list dbentry)) : res (list sev) :=
  let fs := fs_of c in
  let es := flat_map (fun pl => db_units fs (snd pl)) pls in
  if negb (commands_complete fs pls) then Err "diagnostic: option without its argument" else
  match run_entries_S fs fuel es with
  | Err x => Err x
  | Ok (evs, visited) =>
      Ok (flat_map (platform_events fs) pls
          ++ flat_map (directive_events c) (dedup [] (codebase ++ map e_file es ++ visited))
          ++ map sev_of_event evs
          ++ flat_map (forced_missing fs) es)
  end.

End Tables.

(* the totals a run must print: all events, unresolved quote includes, unresolved angle includes *)
Definition is_user (s : sev) : bool := match s with SMissingInclude _ _ _ false => true | _ => false end.
Definition is_system (s : sev) : bool := match s with SMissingInclude _ _ _ true => true | _ => false end.
Definition totals_S (l : list sev) : nat * nat * nat :=
  (List.length l, List.length (filter is_user l), List.length (filter is_system l)).
