(* Specification S on the RAW text (no use of the model's line splitting).
   Definitions only.

   Phase 2 is done literally on the character sequence: a backslash immediately
   followed by a newline is a splice, every other character keeps the number of
   the physical line it stands on.  The resulting token stream (character
   class / newline / splice, each with its physical line number) is scanned by
   the reference automaton of Spec/C05.v.

   Proofs/C05f.v shows that for every text that ends in a newline (ISO C
   5.1.1.2: a non-empty source file shall end in a new-line) this is the same
   as running S on the physical lines the model works with. *)
From Coq Require Import ZArith Bool Ascii List.
From CBI Require Import Lib.Data Model.C05 Spec.C05.
Import ListNotations.

Inductive tok := TCh (k : cls) | TNl | TSplice.

Definition is_nl (c : ascii) : bool := (zascii c =? 10)%Z.

(* translation phase 2 with line numbers; n = current physical line *)
Fixpoint tokens (n : nat) (t : list ascii) : list (tok * nat) :=
  match t with
  | [] => []
  | c :: r =>
      if is_nl c then (TNl, n) :: tokens (S n) r
      else if is_bs c then
        match r with
        | d :: r' => if is_nl d then (TSplice, n) :: tokens (S n) r' else (TCh cBs, n) :: tokens n r
        | [] => [(TCh cBs, n)]
        end
      else (TCh (classify c), n) :: tokens n r
  end.

Definition ftok (s : sst) (x : tok * nat) : sst :=
  match x with
  | (TCh k, n) => sstep n s k
  | (TNl, n) => s_eol n false s
  | (TSplice, n) => s_eol n true s
  end.

Definition F_scan (t : list ascii) : s_result :=
  let s := fold_left ftok (tokens 1 t) s_init in
  let f := end_logical s in
  {| r_logical := s_out f; r_wf := s_wf s && negb (s_open s); r_c20 := s_c20 s; r_c22 := s_c22 s |}.

Definition ends_nl (t : list ascii) : bool :=
  match rev t with [] => true | c :: _ => is_nl c end.
