(* C01 — which line sequences are "structured": a boolean nesting check on the
   flat line list (what a preprocessor checks structurally: every #elif/#else/
   #endif has an open #if, every #if is closed at end of file) and a
   left-to-right parser into the [item] type.  Definitions only. *)
From Coq Require Import List Bool Arith String.
From CBI Require Import Lib.Res Model.C01 Spec.C01.
Import ListNotations.

Section Generic.
Variables ACT COND : Type.
Notation line := (line ACT COND).
Notation item := (item ACT COND).
Notation hdr := (hdr COND).

Fixpoint balanced_from (depth : nat) (ls : list line) : bool :=
  match ls with
  | [] => Nat.eqb depth 0
  | (_, k) :: r =>
      match k with
      | KPlain _ => balanced_from depth r
      | KIf _ => balanced_from (S depth) r
      | KElif _ | KElse => match depth with 0 => false | S _ => balanced_from depth r end
      | KEndif => match depth with 0 => false | S d => balanced_from d r end
      end
  end.
Definition balanced (ls : list line) : bool := balanced_from 0 ls.

(* parser state: items of the innermost open group (reversed) and the open chains *)
Inductive pstate :=
| PFirst                                                       (* still in the group of the #if itself *)
| PLater (body : list item) (done_rev : list (nat * hdr * list item)) (cur : nat * hdr).
Record pframe := { pbefore : list item; pid : nat; pc : COND; pst : pstate }.
Definition pz := (list item * list pframe)%type.

Definition close_group (f : pframe) (cur : list item) (id : nat) (h : hdr) : pframe :=
  {| pbefore := pbefore f; pid := pid f; pc := pc f;
     pst := match pst f with
            | PFirst => PLater (rev cur) [] (id, h)
            | PLater b dr (hid, hh) => PLater b ((hid, hh, rev cur) :: dr) (id, h)
            end |}.

Definition close_chain (f : pframe) (cur : list item) (eid : nat) : item :=
  match pst f with
  | PFirst => IChain (pid f) (pc f) (rev cur) [] eid
  | PLater b dr (hid, hh) => IChain (pid f) (pc f) b (rev ((hid, hh, rev cur) :: dr)) eid
  end.

Definition pstep (z : pz) (l : line) : option pz :=
  let '(cur, stk) := z in
  let '(id, k) := l in
  match k with
  | KPlain a => Some (IPlain id a :: cur, stk)
  | KIf c => Some ([], {| pbefore := cur; pid := id; pc := c; pst := PFirst |} :: stk)
  | KElif c => match stk with [] => None | f :: r => Some ([], close_group f cur id (HElif c) :: r) end
  | KElse => match stk with [] => None | f :: r => Some ([], close_group f cur id HElse :: r) end
  | KEndif => match stk with [] => None | f :: r => Some (close_chain f cur id :: pbefore f, r) end
  end.

Fixpoint psteps (z : pz) (ls : list line) : option pz :=
  match ls with
  | [] => Some z
  | l :: r => match pstep z l with Some z' => psteps z' r | None => None end
  end.

Definition parse (ls : list line) : option (list item) :=
  match psteps ([], []) ls with
  | Some (cur, []) => Some (rev cur)
  | _ => None
  end.

End Generic.
