(* Further vocabulary for the composition theorems of C11.  Definitions only. *)
From Coq Require Import Ascii String Bool List.
From CBI Require Import Spec.C11 Spec.C11safe.
Import ListNotations.
Local Open Scope string_scope.

(* [argv] does not end between a value-taking flag and its value *)
Fixpoint closed (argv : list string) : bool :=
  match argv with
  | [] => true
  | t :: r =>
      if needs_value t then match r with _ :: r' => closed r' | [] => false end
      else closed r
  end.

(* a token the scanner does not recognise *)
Definition unrecognised (t : string) : bool :=
  match recognise t with None => true | Some _ => false end.

(* what is required of a catalogue entry: safe and closed on its own, nothing in it is recognised *)
Definition entry_ok (e : list string) : bool := safe e && closed e && forallb unrecognised e.

Definition app4v (a b : list (option string) * list (option string) * list (option string) * list (option string)) :=
  match a, b with (d1, p1, s1, f1), (d2, p2, s2, f2) => (List.app d1 d2, List.app p1 p2, List.app s1 s2, List.app f1 f2) end.
