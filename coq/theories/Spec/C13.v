(* C13 - the yardstick S: where a compilation-database entry points.

   "The analysed file is the `file` path interpreted relative to the entry's
   `directory` (itself relative to the analysis root when not absolute), and
   relative include directories are interpreted as a compiler running in that
   directory would interpret them."

   S works on LOCATIONS (lists of names from the root, see Model/C13fs.v), not
   on strings: a spelling is applied to a starting location component by
   component.  [resolve] is the purely lexical reading; [kresolve] (Model/C13fs)
   is what the kernel does for a process started in that directory.  Proofs/C13
   shows that they agree whenever the kernel's walk succeeds (no symbolic links
   in the model: DESIGN section 5, C13 "assumed").
   Definitions only. *)
From Coq Require Import Bool Arith Ascii List.
From CBI Require Import Model.C13p Model.C13fs.
Import ListNotations.

(* the location a spelling denotes for a process whose working directory is cwd *)
Definition resolve (cwd : loc) (p : str) : loc :=
  fold_left step (split p) (if isabs p then [] else cwd).

(* how a location is written: k leading slashes, then the names root-first *)
Definition render (k : nat) (l : loc) : str := repeat slash k ++ intercalate (rev l).

(* a proper name: not "", ".", ".." and without a slash *)
Definition proper (c : str) : bool :=
  negb (str_eqb c [] || str_eqb c dot || str_eqb c dotdot) && forallb (fun x => negb (is_slash x)) c.

Section Entry.
Variable root : loc.                   (* the analysis root *)

(* the compiler's working directory *)
Definition s_dir (directory : option str) : loc :=
  match directory with None => root | Some d => resolve root d end.

Definition s_file (directory : option str) (file : str) : loc := resolve (s_dir directory) file.
Definition s_incs (directory : option str) (incs : list str) : list loc :=
  map (resolve (s_dir directory)) incs.
End Entry.

(* ---- what a real compiler process would do (kernel view) ---- *)
(* the compiler is started in `directory` (chdir must succeed: an existing directory) *)
Definition k_dir (fs : fsys) (root : loc) (directory : option str) : option loc :=
  match directory with
  | None => Some root
  | Some d => match kresolve fs root d with
              | Some l => match kind_of fs l with Some true => Some l | _ => None end
              | None => None
              end
  end.
(* ... and opens `file`: Some l = it opens the regular file at l *)
Definition k_file (fs : fsys) (root : loc) (directory : option str) (file : str) : option loc :=
  match k_dir fs root directory with
  | Some d => match kresolve fs d file with
              | Some l => match kind_of fs l with Some false => Some l | _ => None end
              | None => None
              end
  | None => None
  end.
(* ... and searches the directory given by -I i: Some l = an existing directory *)
Definition k_inc (fs : fsys) (root : loc) (directory : option str) (i : str) : option loc :=
  match k_dir fs root directory with
  | Some d => match kresolve fs d i with
              | Some l => match kind_of fs l with Some true => Some l | _ => None end
              | None => None
              end
  | None => None
  end.

(* ---- the domain in which the lexical reading IS the kernel's ---- *)
(* every location the walk passes before a component (also before "", "." and
   "..") is an existing directory: the spelling crosses no missing directory and
   no regular file.  With the tree being link-free this is the whole condition. *)
Fixpoint walk_ok (fs : fsys) (cur : loc) (comps : list str) : bool :=
  match comps with
  | [] => true
  | c :: r => match kind_of fs cur with Some true => walk_ok fs (step cur c) r | _ => false end
  end.
Definition spelling_ok (fs : fsys) (cwd : loc) (p : str) : bool :=
  walk_ok fs (if isabs p then [] else cwd) (split p).
(* the compiler can be started in `directory` *)
Definition dir_ok (fs : fsys) (root : loc) (directory : option str) : bool :=
  match directory with
  | None => true
  | Some d => spelling_ok fs root d &&
              match kind_of fs (resolve root d) with Some true => true | _ => false end
  end.
