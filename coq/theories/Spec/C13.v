(* C13 - the yardstick S: where a compilation-database entry points.

   "The analysed file is the `file` path interpreted relative to the entry's
   `directory` (itself relative to the analysis root when not absolute), and
   relative include directories are interpreted as a compiler running in that
   directory would interpret them."

   S works on LOCATIONS (lists of names from the root, see Model/C13fs.v), not
   on strings: a spelling is applied to a starting location component by
   component.  [resolve] is the purely lexical reading; [kresolve] (Model/C13fs)
   is what the kernel does for a process started in that directory.  Proofs/C13
   shows that they agree whenever the kernel's walk succeeds (no symbolic links
   in the model: DESIGN section 5, C13 "assumed").
   Definitions only. *)
From Coq Require Import Bool Arith Ascii List.
From CBI Require Import Model.C13p Model.C13fs.
Import ListNotations.

(* the location a spelling denotes for a process whose working directory is cwd *)
Definition resolve (cwd : loc) (p : str) : loc :=
  fold_left step (split p) (if isabs p then [] else cwd).

(* how a location is written: k leading slashes, then the names root-first *)
Definition render (k : nat) (l : loc) : str := repeat slash k ++ intercalate (rev l).

(* a proper name: not "", ".", ".." and without a slash *)
Definition proper (c : str) : bool :=
  negb (str_eqb c [] || str_eqb c dot || str_eqb c dotdot) && forallb (fun x => negb (is_slash x)) c.

Section Entry.
Variable root : loc.                   (* the analysis root *)

(* the compiler's working directory *)
Definition s_dir (directory : option str) : loc :=
  match directory with None => root | Some d => resolve root d end.

Definition s_file (directory : option str) (file : str) : loc := resolve (s_dir directory) file.
Definition s_incs (directory : option str) (incs : list str) : list loc :=
  map (resolve (s_dir directory)) incs.
End Entry.

(* ---- what a real compiler process would do (kernel view) ---- *)
(* the compiler is started in `directory` (chdir must succeed: an existing directory) *)
Definition k_dir (fs : fsys) (root : loc) (directory : option str) : option loc :=
  match directory with
  | None => Some root
  | Some d => match kresolve fs root d with
              | Some l => match kind_of fs l with Some true => Some l | _ => None end
              | None => None
              end
  end.
(* ... and opens `file`: Some l = it opens the regular file at l *)
Definition k_file (fs : fsys) (root : loc) (directory : option str) (file : str) : option loc :=
  match k_dir fs root directory with
  | Some d => match kresolve fs d file with
              | Some l => match kind_of fs l with Some false => Some l | _ => None end
              | None => None
              end
  | None => None
  end.
(* ... and searches the directory given by -I i: Some l = an existing directory *)
Definition k_inc (fs : fsys) (root : loc) (directory : option str) (i : str) : option loc :=
  match k_dir fs root directory with
  | Some d => match kresolve fs d i with
              | Some l => match kind_of fs l with Some true => Some l | _ => None end
              | None => None
              end
  | None => None
  end.
