(* C15 — specification S: the CANONICAL code base.  Every physical file appears
   under exactly one path, there are no links, compile commands and -I options
   name files and directories by those paths.  Its meaning is the reference
   preprocessor of Spec/C04.v (textual inclusion, un-memoised search) run on
   every entry, and every member file is counted exactly once.
   Definitions only. *)
From Coq Require Import Bool Arith ZArith String List.
From CBI Require Import Lib.Res Model.C01 Spec.C01 Model.C04 Spec.C04 Model.C15fs Model.C15.
Import ListNotations.
Local Open Scope string_scope.
Local Open Scope list_scope.

Section Canon.
Variable cfs : fsys.                          (* path of each physical file, its logical lines *)
Variable is_src : string -> bool.
Variable croots : list path.                  (* the directories of the code base *)

Fixpoint analyse_S (fuel : nat) (cfg : list (nat * entry)) : res (list mark) :=
  match cfg with
  | [] => Ok []
  | (pl, e) :: r =>
      match run_tu_S cfs fuel e, analyse_S fuel r with
      | Ok p, Ok ms => Ok (map (fun fi => (pl, fst fi, snd fi)) (rev (assoc p)) ++ ms)
      | Err x, _ => Err x
      | _, Err x => Err x
      end
  end.

(* the members: each physical source file below a code-base directory, once *)
Definition member_S (p : path) : bool := is_src (last p "") && existsb (fun d => is_prefix d p) croots.
Definition members_S : list path := filter member_S (map fst cfs).

Definition setmap_S (shape : path -> list (nat * nat)) (nplat : nat) (ms : list mark) : list (pset * nat) :=
  setmap (fun p => p) shape nplat ms members_S.
End Canon.
