(* Specification S for C07: the metrics as their textbook definitions on
   EXPLICIT LINE SETS.  The table is expanded into individual lines
   (line id, platform set of that line); L_p is the set of lines used by
   platform p; all cardinalities are lengths of duplicate-free lists built with
   the standard finite-set operations of Coq.Lists.ListSet.
   Definitions only. *)
From Coq Require Import ZArith QArith String Bool ListSet Permutation List.
From CBI Require Import Model.C07.
Import ListNotations.
Local Open Scope Z_scope.

Definition line := (nat * pset)%type.
Definition line_dec : forall a b : line, {a = b} + {a <> b}.
Proof. decide equality; [apply (list_eq_dec string_dec) | apply Nat.eq_dec]. Defined.

(* a row (s, c) stands for c lines, each used by exactly the platforms in s *)
Definition expand (t : table) : list pset :=
  flat_map (fun r => repeat (fst r) (Z.to_nat (snd r))) t.
(* the universe of lines: every line gets its own id *)
Definition universe (t : table) : list line :=
  combine (seq 0 (length (expand t))) (expand t).

(* L_p *)
Definition L (t : table) (p : string) : set line :=
  filter (fun l => mem p (snd l)) (universe t).

Definition card (A : set line) : Z := Z.of_nat (length A).
Definition s_union (A B : set line) : set line := set_union line_dec A B.
Definition s_symdiff (A B : set line) : set line :=
  set_union line_dec (set_diff line_dec A B) (set_diff line_dec B A).
Definition s_Union (t : table) (ps : list string) : set line :=
  fold_right (fun p acc => s_union (L t p) acc) (empty_set line) ps.

(* a / b as an exact rational, undefined (None) when b = 0 *)
Definition ratio (a b : Z) : option Q :=
  if b =? 0 then None else Some (inject_Z a / inject_Z b)%Q.
Definition times100 (o : option Q) : option Q := option_map (fun x => (100 * x)%Q) o.

(* the set of platforms of a table: the names occurring in some key *)
Definition is_platform_set (t : table) (ps : list string) : Prop :=
  NoDup ps /\ forall p, In p ps <-> exists r, In r t /\ In p (fst r).

(* coverage = 100 * | U_{p in P} L_p | / | all lines | *)
Definition S_coverage (t : table) (ps : list string) : option Q :=
  times100 (ratio (card (s_Union t ps)) (card (universe t))).

(* mean of a list of possibly undefined numbers: undefined when the list is
   empty or any element is undefined *)
Fixpoint all_defined (l : list (option Q)) : bool :=
  match l with [] => true | Some _ :: r => all_defined r | None :: _ => false end.
Fixpoint total_of (l : list (option Q)) : Q :=
  match l with [] => 0%Q | Some x :: r => (x + total_of r)%Q | None :: r => total_of r end.
Definition mean (l : list (option Q)) : option Q :=
  match l with
  | [] => None
  | _ => if all_defined l then Some (total_of l / inject_Z (Z.of_nat (length l)))%Q else None
  end.

(* average coverage = mean over P of the single-platform coverages 100 |L_p| / |all| *)
Definition S_cov1 (t : table) (p : string) : option Q :=
  times100 (ratio (card (L t p)) (card (universe t))).
Definition S_average_coverage (t : table) (ps : list string) : option Q :=
  mean (map (S_cov1 t) ps).

(* Jaccard distance |L_p symdiff L_q| / |L_p union L_q| *)
Definition S_distance (t : table) (p q : string) : option Q :=
  ratio (card (s_symdiff (L t p) (L t q))) (card (s_union (L t p) (L t q))).

(* divergence = mean distance over all unordered pairs {p,q}, p <> q, of P:
   every unordered pair is met twice in the double sum over ordered pairs of
   distinct platforms, and there are n(n-1)/2 of them. *)
Definition S_pair_defined (t : table) (ps : list string) : bool :=
  forallb (fun p => forallb (fun q => String.eqb p q ||
                                      match S_distance t p q with Some _ => true | None => false end) ps) ps.
Definition Qsum (l : list Q) : Q := fold_right Qplus 0%Q l.
Definition S_pair_sum (t : table) (ps : list string) : Q :=
  Qsum (map (fun p => Qsum (map (fun q => if String.eqb p q then 0%Q else
                                           match S_distance t p q with Some d => d | None => 0%Q end) ps)) ps).
Definition S_divergence (t : table) (ps : list string) : option Q :=
  let n := Z.of_nat (length ps) in
  if n <? 2 then None
  else if S_pair_defined t ps
       then Some ((S_pair_sum t ps / 2) / (inject_Z (n * (n - 1)) / 2))%Q
       else None.

(* ------------------------------------------------------------------ *)
(* vocabulary of the statements                                        *)

(* equality of metric values: both NaN, or equal as rationals *)
Definition oeq (a b : option Q) : Prop :=
  match a, b with
  | Some x, Some y => (x == y)%Q
  | None, None => True
  | _, _ => False
  end.

(* the quantifier of the property: line counts are counts *)
Definition wf (t : table) : Prop := forall r, In r t -> 0 <= snd r.

(* what the optional `platforms` argument selects, as the API documents:
   absent or empty = all platforms of the table, otherwise the given ones *)
Definition selected (t : table) (arg : option (list string)) (ps : list string) : Prop :=
  match arg with
  | None | Some [] => is_platform_set t ps
  | Some l => ps = l
  end.

(* undefinedness of each definition = its denominator is zero *)
Definition no_lines (t : table) : Prop := universe t = [].
Definition empty_union (t : table) (p q : string) : Prop := s_union (L t p) (L t q) = [].
Definition undefined_pair (t : table) (ps : list string) : Prop :=
  exists p q, In p ps /\ In q ps /\ p <> q /\ empty_union t p q.

(* transformations of a table *)
Definition rename_row (f : string -> string) (r : row) : row := (map f (fst r), snd r).
Definition rename (f : string -> string) (t : table) : table := map (rename_row f) t.
Definition scale (k : Z) (t : table) : table := map (fun r : row => (fst r, k * snd r)) t.
(* the same dict: the same keys (as sets, written in any order) with the same
   counts, inserted in any order *)
Definition same_row (r r' : row) : Prop := Permutation (fst r) (fst r') /\ snd r = snd r'.
Definition same_table (t t' : table) : Prop :=
  exists t1, Permutation t t1 /\ Forall2 same_row t1 t'.

(* a metric value lies in [lo, hi] (NaN lies in every range) *)
Definition in_range (lo hi : Q) (o : option Q) : Prop :=
  match o with Some x => (lo <= x /\ x <= hi)%Q | None => True end.
(* platform p uses no line *)
Definition uses_nothing (t : table) (p : string) : Prop := L t p = [].
