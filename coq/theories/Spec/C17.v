(* C17 — the yardstick S: a reference scanner for free-form Fortran source with
   C preprocessor lines, written from the Fortran standard's rules (F2003 3.3.1)
   and not from codebasin's code.  Definitions only.

   It reads the RAW physical lines one character at a time and decides for every
   physical line whether it is
     - a preprocessor directive line (first non-blank character is #),
     - counted code: it holds a non-blank character of statement text (outside
       comments; a continuation & is not statement text) or its comment is a
       directive sentinel  ! letters* $ ,
     - not counted (blank, ordinary comment, lone continuation marks).
   Rules: ! starts a comment outside character context; '...' and "..." are
   character contexts (a doubled quote closes and reopens, which is lexically
   the same thing); an & followed only by blanks (and, outside character
   context, by a comment) continues the statement; the continuation line may
   begin with &; comment lines, blank lines and directive lines inside a
   continued statement do not end it.

   [cguard]/[eguard]/[final_ok] delimit the well-formed texts the property
   quantifies over; they are stated on THIS scanner's state, i.e. they are
   properties of the text. *)
From Coq Require Import Bool Ascii List.
From CBI Require Import Model.C17.     (* for cls / cls_of / pline only *)
Import ListNotations.

Inductive sctx := K0 | KT | KS | KD.      (* what the next line starts in: no continuation / continued
                                             statement / continued '...' / continued "..." *)
Inductive lit := QS | QD.
Inductive sx := XTop | XLit (q : lit).
Definition kx (x : sx) : sctx := match x with XTop => KT | XLit QS => KS | XLit QD => KD end.
Definition xk (k : sctx) : sx := match k with K0 | KT => XTop | KS => XLit QS | KD => XLit QD end.

(* inside a # line the C preprocessor's own lexical rules apply: comments and literals *)
Inductive dsub := DTxt | DSl | DLc | DBlk | DBlkSt | DDq | DSq | DEscT | DEscD | DEscS.
Definition dtxt (k : cls) : dsub :=
  match k with kSl => DSl | kDq => DDq | kSq => DSq | kBs => DEscT | _ => DTxt end.
Definition dstep (d : dsub) (k : cls) : dsub :=
  match d with
  | DTxt => dtxt k
  | DSl => match k with kSl => DLc | kSt => DBlk | _ => dtxt k end
  | DLc => DLc
  | DBlk => match k with kSt => DBlkSt | _ => DBlk end
  | DBlkSt => match k with kSl => DTxt | kSt => DBlkSt | _ => DBlk end
  | DDq => match k with kDq => DTxt | kBs => DEscD | _ => DDq end
  | DSq => match k with kSq => DTxt | kBs => DEscS | _ => DSq end
  | DEscT => DTxt
  | DEscD => DDq
  | DEscS => DSq
  end.

Inductive sq :=
| SBol (k : sctx)       (* only blanks so far on this line *)
| SIn (x : sx)          (* inside the statement *)
| SAmp (x : sx)         (* an & and only blanks since *)
| SBang (k : sctx)      (* ! and only letters since; k = what the next line starts in *)
| SSent (k : sctx)      (* sentinel comment *)
| SCmt (k : sctx)       (* ordinary comment *)
| SDir (k : sctx) (d : dsub).   (* preprocessor directive line; d = where its C-level scan stands *)

(* unmarked / only blanks of a character literal seen / holds statement text *)
Inductive mark := mU | mB | mM.
Definition sst := (sq * mark)%type.

Definition closes (q : lit) (k : cls) : bool :=
  match q, k with QS, kSq | QD, kDq => true | _, _ => false end.

Definition sin (x : sx) (m : mark) (k : cls) : sst :=
  match x with
  | XTop =>
      match k with
      | kSp | kWs => (SIn XTop, m)
      | kBang => (SBang K0, m)
      | kAmp => (SAmp XTop, m)
      | kSq => (SIn (XLit QS), mM)
      | kDq => (SIn (XLit QD), mM)
      | _ => (SIn XTop, mM)
      end
  | XLit q =>
      if closes q k then (SIn XTop, mM)
      else match k with
           | kAmp => (SAmp x, m)
           | kSp | kWs => (SIn x, match m with mU => mB | _ => m end)
           | _ => (SIn x, mM)
           end
  end.

(* marking inside a # line: text outside C comments; a / is text only once it
   turns out not to open a comment; blanks of a literal as in Fortran text *)
Definition blank_mark (m : mark) : mark := match m with mU => mB | _ => m end.
Definition dmark (d : dsub) (k : cls) (m : mark) : mark :=
  match d with
  | DTxt => match k with kSp | kWs | kSl => m | _ => mM end
  | DSl => match k with kSl | kSt => m | _ => mM end
  | DLc | DBlk | DBlkSt => m
  | DDq => match k with kSp | kWs => blank_mark m | _ => mM end
  | DSq => match k with kSp | kWs => blank_mark m | _ => mM end
  | DEscT | DEscD | DEscS => mM
  end.

Definition sstep (s : sst) (k : cls) : sst :=
  let '(q, m) := s in
  match q with
  | SBol k0 =>
      match k with
      | kSp | kWs => s
      | kHash => (SDir k0 DTxt, mM)
      | kBang => (SBang k0, m)
      | kAmp => match k0 with K0 => (SAmp XTop, m) | _ => (SIn (xk k0), m) end
      | _ => sin (xk k0) m k
      end
  | SIn x => sin x m k
  | SAmp x =>
      match k, x with
      | (kSp | kWs), _ => s
      | kBang, XTop => (SBang KT, m)
      | _, _ => sin x mM k
      end
  | SBang k0 =>
      match k with
      | kAl => s
      | kDol => (SSent k0, mM)
      | _ => (SCmt k0, m)
      end
  | SSent _ | SCmt _ => s
  | SDir k0 d => (SDir k0 (dstep d k), dmark d k m)
  end.

(* the Fortran context the next line starts in *)
Definition seol (q : sq) : sctx :=
  match q with
  | SBol k | SBang k | SSent k | SCmt k | SDir k _ => k
  | SIn _ => K0
  | SAmp x => kx x
  end.

(* what a physical line starts in: Fortran text, or the inside of a # line that
   a backslash-newline or an open block comment carries on *)
Inductive lctx := LF (k : sctx) | LD (k : sctx) (d : dsub).
Definition start_state (c : lctx) : sst :=
  match c with LF k => (SBol k, mU) | LD k d => (SDir k d, mU) end.

(* a backslash as the last character of a physical line splices the next line on *)
Definition split_cont (cs : list ascii) : list ascii * bool :=
  match split_last cs with
  | Some (i, z) => if is_bs z then (i, true) else (cs, false)
  | None => (cs, false)
  end.

Definition sfold0 (s : sst) (cs : list ascii) : sst := fold_left (fun s c => sstep s (cls_of c)) cs s.
Definition sline (k : sctx) (cs : list ascii) : sst := sfold0 (SBol k, mU) cs.
Definition lline (c : lctx) (cs : list ascii) : sst * bool :=
  (sfold0 (start_state c) (fst (split_cont cs)), snd (split_cont cs)).

Definition snext (r : sst * bool) : lctx :=
  match fst (fst r) with
  | SDir k d => if snd r then LD k d
                else match d with DBlk | DBlkSt => LD k DBlk | _ => LF k end
  | q => LF (seol q)
  end.

Inductive lclass := NotCounted | Code | Directive.
Definition is_mM (m : mark) : bool := match m with mM => true | _ => false end.
Definition classify (r : sst * bool) : lclass :=
  match fst r with
  | (SDir _ d, m) =>
      (* a / pending at a real line end is text after all *)
      if is_mM m || (negb (snd r) && match d with DSl => true | _ => false end) then Directive else NotCounted
  | (_, mM) => Code
  | _ => NotCounted
  end.

Fixpoint sfile (c : lctx) (n : nat) (ls : list pline) : list (nat * bool) :=
  match ls with
  | [] => []
  | (cs, _) :: r =>
      let s := lline c cs in
      match classify s with
      | NotCounted => sfile (snext s) (S n) r
      | Code => (n, false) :: sfile (snext s) (S n) r
      | Directive => (n, true) :: sfile (snext s) (S n) r
      end
  end.

(* ---------- well-formedness ---------- *)
(* per character, against the state it is read in *)
Definition cguard (s : sst) (k : cls) : bool :=
  match k, s with
  | kBs, (SDir _ _, _) => true                (* C escapes and splices exist on # lines only *)
  | kBs, _ => false                           (* no backslash in Fortran text *)
  | kHash, (SIn _, (mU | mB)) => false        (* # as the first thing after a leading continuation & *)
  | _, _ => true
  end.
(* per line end *)
Definition eguard (s : sst) : bool :=
  match s with
  | (SIn (XLit _), _) => false                (* character literal not closed and not continued *)
  | (SDir _ (DEscT | DEscD | DEscS), _) => false   (* a backslash directly before a splice (escaped newline twice) *)
  | (_, mB) => false                          (* a line that holds only blanks of a literal *)
  | _ => true
  end.
Definition lguard (r : sst * bool) (nl : bool) : bool :=
  eguard (fst r) &&
  (if snd r then
     nl &&                                                 (* no backslash at the very end of the file *)
     match fst (fst r) with
     | SDir _ DSl => false                                 (* a / directly before a splice *)
     | SDir _ _ => true
     | _ => false                                          (* splices exist on # lines only *)
     end
   else true).

Fixpoint cguards (s : sst) (cs : list ascii) : bool :=
  match cs with
  | [] => true
  | c :: r => cguard s (cls_of c) && cguards (sstep s (cls_of c)) r
  end.

Definition is_lf0 (c : lctx) : bool := match c with LF K0 => true | _ => false end.

Fixpoint wf_from (c : lctx) (ls : list pline) : bool :=
  match ls with
  | [] => is_lf0 c             (* no unfinished continuation, directive or comment at the end *)
  | (cs, nl) :: r =>
      cguards (start_state c) (fst (split_cont cs)) && lguard (lline c cs) nl && wf_from (snext (lline c cs)) r
  end.

Definition wf (ls : list pline) : bool := wf_from (LF K0) ls.

(* The same with one relaxation, used only to delimit a known finding: a
   backslash INSIDE a character literal of Fortran text is an ordinary
   character of the literal (Fortran has no escapes), provided it is not the
   last character of its line (where the preprocessor splices). *)
Definition cguard_x (s : sst) (k : cls) : bool :=
  match k, s with
  | kBs, ((SIn (XLit _) | SAmp (XLit _)), _) => true
  | _, _ => cguard s k
  end.
Fixpoint cguards_x (s : sst) (cs : list ascii) : bool :=
  match cs with
  | [] => true
  | c :: r => cguard_x s (cls_of c) && cguards_x (sstep s (cls_of c)) r
  end.
Fixpoint wfx_from (c : lctx) (ls : list pline) : bool :=
  match ls with
  | [] => is_lf0 c
  | (cs, nl) :: r =>
      cguards_x (start_state c) (fst (split_cont cs)) && lguard (lline c cs) nl && wfx_from (snext (lline c cs)) r
  end.
Definition wf_x (ls : list pline) : bool := wfx_from (LF K0) ls.
Definition S_lines (ls : list pline) : list (nat * bool) := sfile (LF K0) 1 ls.
