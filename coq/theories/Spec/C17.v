(* C17 — the yardstick S: a reference scanner for free-form Fortran source with
   C preprocessor lines, written from the Fortran standard's rules (F2003 3.3.1)
   and not from codebasin's code.  Definitions only.

   It reads the RAW physical lines one character at a time and decides for every
   physical line whether it is
     - a preprocessor directive line (first non-blank character is #),
     - counted code: it holds a non-blank character of statement text (outside
       comments; a continuation & is not statement text) or its comment is a
       directive sentinel  ! letters* $ ,
     - not counted (blank, ordinary comment, lone continuation marks).
   Rules: ! starts a comment outside character context; '...' and "..." are
   character contexts (a doubled quote closes and reopens, which is lexically
   the same thing); an & followed only by blanks (and, outside character
   context, by a comment) continues the statement; the continuation line may
   begin with &; comment lines, blank lines and directive lines inside a
   continued statement do not end it.

   [cguard]/[eguard]/[final_ok] delimit the well-formed texts the property
   quantifies over; they are stated on THIS scanner's state, i.e. they are
   properties of the text. *)
From Coq Require Import Bool Ascii List.
From CBI Require Import Model.C17.     (* for cls / cls_of / pline only *)
Import ListNotations.

Inductive sctx := K0 | KT | KS | KD.      (* what the next line starts in: no continuation / continued
                                             statement / continued '...' / continued "..." *)
Inductive lit := QS | QD.
Inductive sx := XTop | XLit (q : lit).
Definition kx (x : sx) : sctx := match x with XTop => KT | XLit QS => KS | XLit QD => KD end.
Definition xk (k : sctx) : sx := match k with K0 | KT => XTop | KS => XLit QS | KD => XLit QD end.

(* inside a # line the C preprocessor's own lexical rules apply: comments and literals *)
Inductive dsub := DTxt | DSl | DLc | DBlk | DBlkSt | DDq | DSq.
Definition dtxt (k : cls) : dsub :=
  match k with kSl => DSl | kDq => DDq | kSq => DSq | _ => DTxt end.
Definition dstep (d : dsub) (k : cls) : dsub :=
  match d with
  | DTxt => dtxt k
  | DSl => match k with kSl => DLc | kSt => DBlk | _ => dtxt k end
  | DLc => DLc
  | DBlk => match k with kSt => DBlkSt | _ => DBlk end
  | DBlkSt => match k with kSl => DTxt | kSt => DBlkSt | _ => DBlk end
  | DDq => match k with kDq => DTxt | _ => DDq end
  | DSq => match k with kSq => DTxt | _ => DSq end
  end.

Inductive sq :=
| SBol (k : sctx)       (* only blanks so far on this line *)
| SIn (x : sx)          (* inside the statement *)
| SAmp (x : sx)         (* an & and only blanks since *)
| SBang (k : sctx)      (* ! and only letters since; k = what the next line starts in *)
| SSent (k : sctx)      (* sentinel comment *)
| SCmt (k : sctx)       (* ordinary comment *)
| SDir (k : sctx) (d : dsub).   (* preprocessor directive line; d = where its C-level scan stands *)

(* unmarked / only blanks of a character literal seen / holds statement text *)
Inductive mark := mU | mB | mM.
Definition sst := (sq * mark)%type.

Definition closes (q : lit) (k : cls) : bool :=
  match q, k with QS, kSq | QD, kDq => true | _, _ => false end.

Definition sin (x : sx) (m : mark) (k : cls) : sst :=
  match x with
  | XTop =>
      match k with
      | kSp | kWs => (SIn XTop, m)
      | kBang => (SBang K0, m)
      | kAmp => (SAmp XTop, m)
      | kSq => (SIn (XLit QS), mM)
      | kDq => (SIn (XLit QD), mM)
      | _ => (SIn XTop, mM)
      end
  | XLit q =>
      if closes q k then (SIn XTop, mM)
      else match k with
           | kAmp => (SAmp x, m)
           | kSp | kWs => (SIn x, match m with mU => mB | _ => m end)
           | _ => (SIn x, mM)
           end
  end.

Definition sstep (s : sst) (k : cls) : sst :=
  let '(q, m) := s in
  match q with
  | SBol k0 =>
      match k with
      | kSp | kWs => s
      | kHash => (SDir k0 DTxt, mM)
      | kBang => (SBang k0, m)
      | kAmp => match k0 with K0 => (SAmp XTop, m) | _ => (SIn (xk k0), m) end
      | _ => sin (xk k0) m k
      end
  | SIn x => sin x m k
  | SAmp x =>
      match k, x with
      | (kSp | kWs), _ => s
      | kBang, XTop => (SBang KT, m)
      | _, _ => sin x mM k
      end
  | SBang k0 =>
      match k with
      | kAl => s
      | kDol => (SSent k0, mM)
      | _ => (SCmt k0, m)
      end
  | SSent _ | SCmt _ => s
  | SDir k0 d => (SDir k0 (dstep d k), m)
  end.

(* what the next line starts in *)
Definition seol (q : sq) : sctx :=
  match q with
  | SBol k | SBang k | SSent k | SCmt k | SDir k _ => k
  | SIn _ => K0
  | SAmp x => kx x
  end.

Inductive lclass := NotCounted | Code | Directive.
Definition classify (s : sst) : lclass :=
  match s with
  | (SDir _ _, _) => Directive
  | (_, mM) => Code
  | _ => NotCounted
  end.

Definition sline (k : sctx) (cs : list ascii) : sst := fold_left (fun s c => sstep s (cls_of c)) cs (SBol k, mU).

Fixpoint sfile (k : sctx) (n : nat) (ls : list pline) : list (nat * bool) :=
  match ls with
  | [] => []
  | (cs, _) :: r =>
      let s := sline k cs in
      match classify s with
      | NotCounted => sfile (seol (fst s)) (S n) r
      | Code => (n, false) :: sfile (seol (fst s)) (S n) r
      | Directive => (n, true) :: sfile (seol (fst s)) (S n) r
      end
  end.

(* ---------- well-formedness ---------- *)
(* per character, against the state it is read in *)
Definition cguard (s : sst) (k : cls) : bool :=
  match k, s with
  | kBs, _ => false                           (* no backslash anywhere: no C-level escapes or splices *)
  | kSl, (SDir _ DSq, _) => false             (* no / inside a character constant of a directive line *)
  | kHash, (SIn _, (mU | mB)) => false        (* # as the first thing after a leading continuation & *)
  | _, _ => true
  end.
(* per line end *)
Definition eguard (s : sst) : bool :=
  match s with
  | (SIn (XLit _), _) => false                (* character literal not closed and not continued *)
  | (SDir _ (DBlk | DBlkSt), _) => false      (* a C block comment of a directive line still open at the line end *)
  | (SDir _ _, _) => true
  | (_, mB) => false                          (* a continuation line of a literal that holds only blanks of it *)
  | _ => true
  end.

Fixpoint cguards (s : sst) (cs : list ascii) : bool :=
  match cs with
  | [] => true
  | c :: r => cguard s (cls_of c) && cguards (sstep s (cls_of c)) r
  end.

Fixpoint wf_from (k : sctx) (ls : list pline) : bool :=
  match ls with
  | [] => match k with K0 => true | _ => false end      (* no unfinished continuation at the end *)
  | (cs, _) :: r => cguards (SBol k, mU) cs && eguard (sline k cs) && wf_from (seol (fst (sline k cs))) r
  end.

Definition wf (ls : list pline) : bool := wf_from K0 ls.

(* The same with one relaxation, used only to delimit a known finding: a
   backslash INSIDE a character literal is an ordinary character of the literal
   (Fortran has no escapes), provided it is not the last character of its line
   (where the preprocessor splices). *)
Definition cguard_x (s : sst) (k : cls) : bool :=
  match k, s with
  | kBs, ((SIn (XLit _) | SAmp (XLit _)), _) => true
  | _, _ => cguard s k
  end.
Fixpoint cguards_x (s : sst) (cs : list ascii) : bool :=
  match cs with
  | [] => true
  | c :: r => cguard_x s (cls_of c) && cguards_x (sstep s (cls_of c)) r
  end.
Definition ends_bs (cs : list ascii) : bool :=
  match split_last cs with Some (_, z) => is_bs z | None => false end.
Fixpoint wfx_from (k : sctx) (ls : list pline) : bool :=
  match ls with
  | [] => match k with K0 => true | _ => false end
  | (cs, _) :: r => cguards_x (SBol k, mU) cs && negb (ends_bs cs) && eguard (sline k cs)
                    && wfx_from (seol (fst (sline k cs))) r
  end.
Definition wf_x (ls : list pline) : bool := wfx_from K0 ls.
Definition S_lines (ls : list pline) : list (nat * bool) := sfile K0 1 ls.
