(* C04 / C18 — specification S for multi-file preprocessing: the skipping machine
   of Spec/C01.v with TEXTUAL inclusion and an UN-MEMOISED header search.
   ISO C / gcc behaviour: quote form searches the includer's directory then the
   configured directories in order, angle form only the directories, first
   existing match wins; a differing macro redefinition is diagnosed (the program
   is then outside the property's quantifier: Err).  A missing header yields one
   event per reached occurrence.  Definitions only. *)
From Coq Require Import Bool Arith ZArith String List.
From CBI Require Import Lib.Res Model.C01 Spec.C01 Model.C04.
Import ListNotations.
Local Open Scope string_scope.
Local Open Scope list_scope.

Section WithFS.
Variable fs : fsys.

Fixpoint exec_S (fuel : nat) (cur : path) (a : act) (p : plat) {struct fuel} : res plat :=
  match a with
  | ACode | AOther => Ok p
  | ADefine m v =>
      match lookup m (defs p) with
      | Some v' => if mval_eqb v v' then Ok p else Err "diagnostic: macro redefined"
      | None => Ok (set_defs ((m, v) :: defs p) p)
      end
  | AUndef m => Ok (set_defs (remove m (defs p)) p)
  | AOnce => Ok (if mem_path cur (once p) then p else set_once (once p ++ [cur]) p)
  | AInclude tag s =>
      match include_target s p with
      | Err e => Err e
      | Ok (angle, name) =>
          match search fs (dirs p) (name, dirname cur, angle) with
          | None => Ok (set_events ({| ev_file := cur; ev_tag := tag; ev_name := name; ev_angle := angle |} :: events p) p)
          | Some f =>
              if mem_path f (once p) then Ok p
              else match fuel with
                   | 0 => Err out_of_fuel
                   | S fuel' =>
                       match fs_get fs f with
                       | None => Err "internal: resolved file does not exist"
                       | Some ls => run_S plat act cond (mark_in f) (exec_S fuel' f) ev ls p
                       end
                   end
          end
      end
  end.

Definition run_file_S (fuel : nat) (f : path) (p : plat) : res plat :=
  match fs_get fs f with
  | None => Err "FileNotFoundError"
  | Some ls => run_S plat act cond (mark_in f) (exec_S fuel f) ev ls p
  end.

Fixpoint forced_S (fuel : nat) (this : path) (incs : list path) (p : plat) : res plat :=
  match incs with
  | [] => Ok p
  | n :: r =>
      match search fs (dirs p) (n, this, false) with
      | None => forced_S fuel this r p
      | Some f =>
          (* a header that declared #pragma once earlier in this translation unit is not read again *)
          if mem_path f (once p) then forced_S fuel this r p
          else match run_file_S fuel f p with Ok p2 => forced_S fuel this r p2 | Err e => Err e end
      end
  end.

Definition run_tu_S (fuel : nat) (e : entry) : res plat :=
  match forced_S fuel (dirname (e_file e)) (e_incs e) (fresh e) with
  | Ok p => run_file_S fuel (e_file e) p
  | Err x => Err x
  end.

End WithFS.

(* every file of the file system is a structured program (conditionals nest) *)
Definition fs_structured (fs : fsys) : Prop :=
  forall p ls, fs_get fs p = Some ls -> exists its, ls = flats act cond its.

(* what an observer can see of a platform: everything except the memo *)
Definition obs_eq (a b : plat) : Prop :=
  assoc a = assoc b /\ defs a = defs b /\ once a = once b /\ events a = events b /\ dirs a = dirs b.
