(* S for C11: the scanner the property describes.  Walk the argument vector;
   -DV / -D V, -IV / -I V, -isystemV / -isystem V, -includeV / -include V
   contribute V to the defines, the search directories and the forced includes,
   in command-line order; everything else is skipped.  Knows nothing about
   argparse, option tables or which other options take arguments. *)
From Coq Require Import Ascii String Bool List.
Import ListNotations.
Local Open Scope string_scope.

Inductive kind := KD | KP | KF.

Fixpoint strip (p s : string) : option string :=
  match p with
  | EmptyString => Some s
  | String a p' =>
      match s with
      | String b s' => if Ascii.eqb a b then strip p' s' else None
      | EmptyString => None
      end
  end.

(* the flag a token starts with, and the text attached to it *)
Definition recognise (t : string) : option (kind * string) :=
  match strip "-D" t with Some v => Some (KD, v) | None =>
  match strip "-I" t with Some v => Some (KP, v) | None =>
  match strip "-isystem" t with Some v => Some (KP, v) | None =>
  match strip "-include" t with Some v => Some (KF, v) | None => None end end end end.

Definition lists := (list string * list string * list string)%type.
Definition add (k : kind) (v : string) (l : lists) : lists :=
  match l with (d, p, f) =>
    match k with KD => (v :: d, p, f) | KP => (d, v :: p, f) | KF => (d, p, v :: f) end
  end.

(* [pend] = the flag whose value is the next argument *)
Fixpoint scan (pend : option kind) (argv : list string) : lists :=
  match argv with
  | [] => ([], [], [])
  | t :: r =>
      match pend with
      | Some k => add k t (scan None r)
      | None =>
          match recognise t with
          | Some (k, EmptyString) => scan (Some k) r
          | Some (k, v) => add k v (scan None r)
          | None => scan None r
          end
      end
  end.

Definition scan_S (argv : list string) : lists := scan None argv.

(* after [argv] no flag is waiting for its value *)
Fixpoint complete_from (pend : option kind) (argv : list string) : bool :=
  match argv with
  | [] => match pend with None => true | Some _ => false end
  | t :: r =>
      match pend with
      | Some _ => complete_from None r
      | None => match recognise t with
                | Some (k, EmptyString) => complete_from (Some k) r
                | _ => complete_from None r
                end
      end
  end.
Definition complete (argv : list string) : bool := complete_from None argv.

Definition app3 (a b : lists) : lists :=
  match a, b with (d1, p1, f1), (d2, p2, f2) => (List.app d1 d2, List.app p1 p2, List.app f1 f2) end.
