(* S for C11: the scanner the property describes.  Walk the argument vector;
   -DV / -D V, -IV / -I V, -isystemV / -isystem V, -includeV / -include V
   contribute V to the defines, the -I directories, the -isystem directories
   and the forced includes, each in command-line order; everything else is
   skipped.  The search directories of the configuration are the -I
   directories followed by the -isystem directories (the order in which a
   compiler searches them).  Knows nothing about
   argparse, option tables or which other options take arguments. *)
From Coq Require Import Ascii String Bool List.
Import ListNotations.
Local Open Scope string_scope.

Inductive kind := KD | KP | KS | KF.

Fixpoint strip (p s : string) : option string :=
  match p with
  | EmptyString => Some s
  | String a p' =>
      match s with
      | String b s' => if Ascii.eqb a b then strip p' s' else None
      | EmptyString => None
      end
  end.

(* the flag a token starts with, and the text attached to it *)
Definition recognise (t : string) : option (kind * string) :=
  match strip "-D" t with Some v => Some (KD, v) | None =>
  match strip "-I" t with Some v => Some (KP, v) | None =>
  match strip "-isystem" t with Some v => Some (KS, v) | None =>
  match strip "-include" t with Some v => Some (KF, v) | None => None end end end end.

Definition lists := (list string * list string * list string)%type.
(* per option: defines, -I directories, -isystem directories, forced includes *)
Definition lists4 := (list string * list string * list string * list string)%type.
Definition add (k : kind) (v : string) (l : lists4) : lists4 :=
  match l with (d, p, s, f) =>
    match k with
    | KD => (v :: d, p, s, f) | KP => (d, v :: p, s, f) | KS => (d, p, v :: s, f) | KF => (d, p, s, v :: f)
    end
  end.

(* [pend] = the flag whose value is the next argument *)
Fixpoint scan (pend : option kind) (argv : list string) : lists4 :=
  match argv with
  | [] => ([], [], [], [])
  | t :: r =>
      match pend with
      | Some k => add k t (scan None r)
      | None =>
          match recognise t with
          | Some (k, EmptyString) => scan (Some k) r
          | Some (k, v) => add k v (scan None r)
          | None => scan None r
          end
      end
  end.

Definition scan4_S (argv : list string) : lists4 := scan None argv.
(* the configuration: defines, -I directories followed by -isystem directories, forced includes *)
Definition flat4 (l : lists4) : lists := match l with (d, p, s, f) => (d, List.app p s, f) end.
Definition scan_S (argv : list string) : lists := flat4 (scan4_S argv).

(* after [argv] no flag is waiting for its value *)
Fixpoint complete_from (pend : option kind) (argv : list string) : bool :=
  match argv with
  | [] => match pend with None => true | Some _ => false end
  | t :: r =>
      match pend with
      | Some _ => complete_from None r
      | None => match recognise t with
                | Some (k, EmptyString) => complete_from (Some k) r
                | _ => complete_from None r
                end
      end
  end.
Definition complete (argv : list string) : bool := complete_from None argv.

Definition app4 (a b : lists4) : lists4 :=
  match a, b with (d1, p1, s1, f1), (d2, p2, s2, f2) => (List.app d1 d2, List.app p1 p2, List.app s1 s2, List.app f1 f2) end.
