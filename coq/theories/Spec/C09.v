(* C09 — the yardstick S.  Definitions only.

   gitignore semantics (gitignore(5), git dir.c: last_matching_pattern and
   prep_exclude) on the abstract patterns of Lib/C09_glob.v, read the way git
   reads the line ([parse true]):
     - within one directory level the LAST pattern that matches the path decides
       (a pattern ending in '/' matches directories only);
     - the levels are walked from the top: a path below an excluded directory
       is excluded, whatever later patterns say about it (the parent rule).
   Membership: the path, with symbolic links resolved, is a regular file with a
   recognised source extension strictly below a code-base directory, and is not
   ignored relative to that directory. *)
From Coq Require Import Bool Arith Ascii String List.
From CBI Require Import Lib.Res Lib.Data Lib.C09_glob Gen.C09_tables Model.C09.
Import ListNotations.
Local Open Scope string_scope.

(* the segments as git reads them *)
Definition pat_segs (p : apat) : list seg := if p_tail p then p_segs p ++ [SDStar] else p_segs p.
Definition pat_hits (isdir : bool) (cs : list chars) (p : apat) : bool :=
  implb (p_dir p) isdir && bm (pat_segs p) cs.

(* decision at one level: Some true = excluded, Some false = re-included, None = not mentioned *)
Definition level (ps : list apat) (cs : list chars) (isdir : bool) : option bool :=
  fold_left (fun acc p => if pat_hits isdir cs p then Some (negb (p_neg p)) else acc) ps None.

Definition is_excl (o : option bool) : bool := match o with Some true => true | _ => false end.

(* git check-ignore on a file path given by its components *)
Definition git_ignored (ps : list apat) (cs : list chars) : bool :=
  existsb (fun d => is_excl (level ps d true)) (sprefixes cs) || is_excl (level ps cs false).

Fixpoint find_root_strict (roots : list path) (r : path) : option path :=
  match roots with
  | [] => None
  | d :: rest => if is_prefix d r && Nat.ltb (length d) (length r) then Some d else find_root_strict rest r
  end.

(* "a recognised source extension": the extension, as FileLanguage computes it
   (os.path.splitext), is one of the extensions of a language CBI can parse
   (FileLanguage's table) - NOT the function and the list is_source_file carries *)
Definition has_language (p : path) : bool :=
  has_ext_in (flat_map snd language_extensions) (last p "").

Definition member_resolved (fs : fsys) (cb : codebase) (r : path) : res bool :=
  match lookup fs r with
  | Some KFile =>
      if negb (has_language r) then Ok false else
      match find_root_strict (cb_roots cb) r with
      | None => Ok false
      | Some root =>
          match compile true (cb_lines cb) with
          | CPats ps => Ok (negb (git_ignored ps (map list_of_string (skipn (length root) r))))
          | CErr => Err "PatternError"
          | CUnsup => Err "Unsupported"
          end
      end
  | _ => Ok false
  end.

Definition member (fs : fsys) (cwd : path) (cb : codebase) (s : string) : res bool :=
  bind (resolve fs cwd s) (member_resolved fs cb).

(* the member files: physical regular files that are members *)
Definition members (fs : fsys) (cb : codebase) : res (list path) :=
  filter_res (member_resolved fs cb)
             (map fst (filter (fun e => match snd e with KFile => true | _ => false end) fs)).

(* ---------- the two classes of pattern lists on which pathspec is known to
   differ from git (class predicates of the known findings; Proofs/C09.v shows
   that outside them the exclude tests agree, and that inside them CBI can only
   err by keeping a file git ignores) ---------- *)
Definition touches (cs : list chars) (q : apat) : bool :=
  match outcome_of q cs with NoM => false | _ => true end.
Definition is_filem_pos (cs : list chars) (q : apat) : bool :=
  match outcome_of q cs with FileM => negb (p_neg q) | _ => false end.
Definition is_dirm_pos (cs : list chars) (q : apat) : bool :=
  match outcome_of q cs with DirM => negb (p_neg q) | _ => false end.
Definition is_dirm_neg (cs : list chars) (q : apat) : bool :=
  match outcome_of q cs with DirM => p_neg q | _ => false end.

(* class 1 (the parent rule): a pattern excludes a parent directory of the file
   - it is the last one that matches that directory - and a LATER negated
   pattern matches the file or one of its parent directories *)
Fixpoint parent_reinclude (ps : list apat) (cs : list chars) : bool :=
  match ps with
  | [] => false
  | p :: l =>
      (negb (p_neg p)
       && existsb (fun d => bm (p_segs p) d && negb (existsb (fun q => bm (p_segs q) d) l)) (sprefixes cs)
       && existsb (fun q => p_neg q && touches cs q) l)
      || parent_reinclude l cs
  end.

(* class 2: a pattern excludes the file itself, a later pattern excludes one of its
   parent directories and a still later negated pattern re-includes a parent directory *)
Fixpoint dirpos_then_dirneg (ps : list apat) (cs : list chars) : bool :=
  match ps with
  | [] => false
  | p :: l => (is_dirm_pos cs p && existsb (is_dirm_neg cs) l) || dirpos_then_dirneg l cs
  end.
Fixpoint dir_reneg (ps : list apat) (cs : list chars) : bool :=
  match ps with
  | [] => false
  | p :: l => (is_filem_pos cs p && dirpos_then_dirneg l cs) || dir_reneg l cs
  end.

(* class 3: a line ending in "/**/" is involved: pathspec reads "x/**/" as "x/" (it
   then also excludes what lies directly in x), git as the directories strictly below x *)
Definition tail_involved (ps : list apat) (cs : list chars) : bool :=
  existsb (fun p => p_tail p && (touches cs p || existsb (fun d => pat_hits true d p) (sprefixes cs))) ps.

(* which class (0 none, 1, 2, 3) the resolved path r falls in *)
Definition class_of (cb : codebase) (r : path) : nat :=
  match find_root (cb_roots cb) r, compile true (cb_lines cb) with
  | Some root, CPats ps =>
      let cs := rel_comps root r in
      if tail_involved ps cs then 3
      else if parent_reinclude ps cs then 1 else if dir_reneg ps cs then 2 else 0
  | _, _ => 0
  end.

(* configuration inside the quantifier: every code-base directory is a real
   directory and no directory lies inside (or equals) another *)
Fixpoint disjoint_from (d : path) (l : list path) : bool :=
  match l with
  | [] => true
  | e :: r => negb (is_prefix d e) && negb (is_prefix e d) && disjoint_from d r
  end.
Fixpoint roots_ok (fs : fsys) (l : list path) : bool :=
  match l with
  | [] => true
  | d :: r => match lookup fs d with Some KDir => true | _ => false end && disjoint_from d r && roots_ok fs r
  end.
