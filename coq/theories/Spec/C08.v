(* C08 — specification S: a platform uses a node iff SOME compile command of the
   platform, analysed ALONE by the reference preprocessor of Spec/C04.v (textual
   inclusion, un-memoised search, skipping machine) from a fresh macro and
   include state, reaches that node.  Nothing else about the configuration
   (other commands, other platforms, their order) appears in the definition.
   Definitions only. *)
From Coq Require Import Bool Arith ZArith String List.
From CBI Require Import Lib.Res Model.C01 Spec.C01 Model.C04 Spec.C04 Model.C08.
Import ListNotations.
Local Open Scope string_scope.
Local Open Scope list_scope.

Section WithFS.
Variable fs : fsys.
Variable fuel : nat.

Definition uses_S (cfg : config) (n : pname) (x : nodeid) : Prop :=
  exists es e r, In (n, es) cfg /\ In e es /\ run_tu_S fs fuel e = Ok r /\ In x (assoc r).

(* every compile command is a program the reference preprocessor accepts *)
Definition accepted_S (cfg : config) : Prop :=
  forall n es e, In (n, es) cfg -> In e es -> exists r, run_tu_S fs fuel e = Ok r.

(* the same thing with the model's own single-command analysis (what the
   correspondence runs against the implementation: one finder.find per command) *)
Definition single_M (n : pname) (e : entry) : res amap := find_M fs fuel [(n, [e])].
Definition uses_single_M (cfg : config) (n : pname) (x : nodeid) : Prop :=
  exists es e am, In (n, es) cfg /\ In e es /\ single_M n e = Ok am /\ In (n, x) am.

(* executable form, for the differential run: the list of all (platform, node)
   pairs, or the first diagnostic *)
Fixpoint spec_entries (n : pname) (es : list entry) : res (list triple) :=
  match es with
  | [] => Ok []
  | e :: r =>
      match run_tu_S fs fuel e with
      | Err x => Err x
      | Ok p => match spec_entries n r with
                | Ok l => Ok (map (fun x => (n, x)) (rev (assoc p)) ++ l)
                | Err x => Err x
                end
      end
  end.
Fixpoint spec_S (cfg : config) : res (list triple) :=
  match cfg with
  | [] => Ok []
  | (n, es) :: r =>
      match spec_entries n es with
      | Err x => Err x
      | Ok l => match spec_S r with Ok l' => Ok (l ++ l') | Err x => Err x end
      end
  end.
End WithFS.

(* two attribution maps are the same relation *)
Definition same_map (a b : amap) : Prop := forall t, In t a <-> In t b.
