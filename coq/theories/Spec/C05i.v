(* The literal ISO C reading of translation phases 2 and 3 (5.1.1.2), with the
   physical line of every character kept.  Definitions only.

   Phase 2.  Each backslash immediately followed by a new-line is deleted
             (together with the new-line).  A non-empty file "shall end in a
             new-line character, which shall not be immediately preceded by a
             backslash": a missing final new-line is supplied ([norm_nl], as
             compilers do), a final backslash-newline makes the text ill-formed.
   Phase 3.  Comments are recognised by LOOKING AHEAD on the spliced sequence:
             `/` followed by `*` opens a comment closed by the next `*` followed
             by `/`;  `/` followed by `/` opens a comment that ends before the
             next new-line;  each comment counts as one space.  Inside "..." and
             '...' (where a backslash protects the next character) nothing opens
             a comment.
   A physical line is counted iff a surviving non-white-space character stands
   on it.  A logical line ends at a surviving new-line (one inside a /* */
   comment does not survive); it is a directive iff its first surviving
   non-white-space character is `#`.

   No pending states: the only modes are "code", "in a // comment", "in a
   /* comment", "in a literal".  Proofs/C05i.v proves this equal to the
   pending-state scanner of Spec/C05.v. *)
From Coq Require Import ZArith Bool Ascii List.
From CBI Require Import Lib.Data Model.C05 Spec.C05 Spec.C05f.
Import ListNotations.

Inductive ich := ICh (k : cls) | INl.

(* ---------- phase 2 ---------- *)
Fixpoint phase2 (n : nat) (t : list ascii) : list (ich * nat) :=
  match t with
  | [] => []
  | c :: r =>
      if is_nl c then (INl, n) :: phase2 (S n) r
      else if is_bs c then
        match r with
        | d :: r' => if is_nl d then phase2 (S n) r' else (ICh cBs, n) :: phase2 n r
        | [] => [(ICh cBs, n)]
        end
      else (ICh (classify c), n) :: phase2 n r
  end.

Definition norm_nl (t : list ascii) : list ascii :=
  if ends_nl t then t else t ++ ["010"%char].

(* the last two characters are backslash, new-line *)
Fixpoint ends_bs_nl (t : list ascii) : bool :=
  match t with
  | [] => false
  | b :: r => match r with
              | [] => false
              | [n] => is_bs b && is_nl n
              | _ => ends_bs_nl r
              end
  end.

(* ---------- phase 3 ---------- *)
Record iacc := {
  i_ms : list nat;                     (* counted lines of the current logical line, most recent first *)
  i_d : dstate;                        (* nothing yet / first surviving character was # / was something else *)
  i_out : list (list nat * bool);      (* finished logical lines *)
  i_wf : bool
}.
Definition i_init : iacc := {| i_ms := []; i_d := dNone; i_out := []; i_wf := true |}.

(* a non-white-space character on physical line n survives *)
Definition i_surv (n : nat) (is_hash : bool) (a : iacc) : iacc :=
  {| i_ms := mark n (i_ms a);
     i_d := match i_d a with dNone => if is_hash then dDir else dSrc | d => d end;
     i_out := i_out a; i_wf := i_wf a |}.
Definition i_char (n : nat) (k : cls) (a : iacc) : iacc :=
  if cls_space k then a else i_surv n false a.
Definition i_bad (a : iacc) : iacc :=
  {| i_ms := i_ms a; i_d := i_d a; i_out := i_out a; i_wf := false |}.
(* a surviving new-line: the logical line ends *)
Definition i_endl (a : iacc) : iacc :=
  {| i_ms := []; i_d := dNone;
     i_out := match i_ms a with
              | [] => i_out a
              | ms => i_out a ++ [(rev ms, match i_d a with dDir => true | _ => false end)]
              end;
     i_wf := i_wf a |}.

Inductive imode := iTop | iLine | iBlock | iLit (quote : cls).

Definition is_quote (q k : cls) : bool :=
  match q, k with cDq, cDq | cSq, cSq => true | _, _ => false end.

Fixpoint phase3 (m : imode) (a : iacc) (l : list (ich * nat)) {struct l} : iacc * imode :=
  match l with
  | [] => (a, m)
  | (c, n) :: tl =>
      match m with
      | iTop =>
          match c with
          | INl => phase3 iTop (i_endl a) tl
          | ICh cSl =>
              match tl with
              | (ICh cSl, _) :: r => phase3 iLine a r                 (* // *)
              | (ICh cSt, _) :: r => phase3 iBlock a r                (* /* *)
              | _ => phase3 iTop (i_surv n false a) tl                (* an operator *)
              end
          | ICh cDq => phase3 (iLit cDq) (i_surv n false a) tl
          | ICh cSq => phase3 (iLit cSq) (i_surv n false a) tl
          | ICh cBs => phase3 iTop (i_bad (i_surv n false a)) tl      (* stray backslash *)
          | ICh cHash => phase3 iTop (i_surv n true a) tl
          | ICh k => phase3 iTop (i_char n k a) tl
          end
      | iLine =>
          match c with
          | INl => phase3 iTop (i_endl a) tl
          | _ => phase3 iLine a tl
          end
      | iBlock =>
          match c, tl with
          | ICh cSt, (ICh cSl, _) :: r => phase3 iTop a r             (* */ *)
          | _, _ => phase3 iBlock a tl
          end
      | iLit q =>
          match c with
          | INl => phase3 iTop (i_endl (i_bad a)) tl                  (* unterminated literal *)
          | ICh cBs =>
              match tl with
              | (ICh k, n2) :: r => phase3 (iLit q) (i_char n2 k (i_surv n false a)) r   (* escape *)
              | _ => phase3 (iLit q) (i_surv n false a) tl
              end
          | ICh k => if is_quote q k then phase3 iTop (i_surv n false a) tl
                     else phase3 (iLit q) (i_char n k a) tl
          end
      end
  end.

Record iso_result := { iso_logical : list (list nat * bool); iso_wf : bool }.

Definition iso_scan (t : list ascii) : iso_result :=
  let t' := norm_nl t in
  let '(a, m) := phase3 iTop i_init (phase2 1 t') in
  {| iso_logical := i_out (i_endl a);
     iso_wf := i_wf a && match m with iTop => true | _ => false end && negb (ends_bs_nl t') |}.

Definition iso_counted (t : list ascii) : list nat := concat (map fst (iso_logical (iso_scan t))).
Definition iso_nodes (t : list ascii) : list (nkind * list nat) := group [] (iso_logical (iso_scan t)).
