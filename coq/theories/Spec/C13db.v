(* C13 - database-level yardstick: what should happen to every entry.
   "Entries for non-existent files, files that are not source files, and empty
   commands are skipped with a warning and never abort or alter the rest."
   The -I values are taken as argparse extracts them (argument extraction is
   C11's subject); everything about WHERE they point is S's own (Spec/C13.v).
   Definitions only. *)
From Coq Require Import Bool Arith Ascii String List.
From CBI Require Import Lib.Res Model.C13p Model.C13fs Model.C13 Spec.C13.
Import ListNotations.

Inductive s_out :=
| SOpen (f : loc) (incs : list loc)     (* analysed: file location, include directories *)
| SSkipUnsupported                      (* empty command or not a source file: warning *)
| SSkipMissing (f : loc).               (* the file does not exist: warning naming it *)

Definition s_entry (fs : fsys) (root : loc) (d : option str) (file : str) (argv : list str) (incs : list str) : s_out :=
  match argv with
  | [] => SSkipUnsupported
  | _ =>
      if negb (is_source_file file) then SSkipUnsupported
      else let l := s_file root d file in
           match kind_of fs l with
           | None => SSkipMissing l
           | Some _ => SOpen l (s_incs root d incs)
           end
  end.

(* defined for well-formed databases (every item has `file` and a command) *)
Fixpoint s_db (fs : fsys) (root : loc) (es : list entry) : option (list s_out) :=
  match es with
  | [] => Some []
  | e :: r =>
      match e_file e, e_argv e, s_db fs root r with
      | Some f, Some a, Some t => Some (s_entry fs root (e_dir e) f a (extract_incs (tl a)) :: t)
      | _, _, _ => None
      end
  end.

(* does the kernel's view (a real compiler process, the k_ functions of Spec/C13.v) agree with
   the lexical answer for this entry?  false = the spelling goes through a
   missing directory or a non-directory (outside the property's domain) *)
Definition opt_loc_eqb (a : option loc) (b : loc) : bool :=
  match a with Some x => loc_eqb x b | None => false end.
Definition k_agrees (fs : fsys) (root : loc) (d : option str) (file : str) (incs : list str) (o : s_out) : bool :=
  match o with
  | SSkipUnsupported => true
  | SSkipMissing _ => match k_file fs root d file with None => true | Some _ => false end
  | SOpen l ls =>
      match kind_of fs l with
      | Some false => opt_loc_eqb (k_file fs root d file) l
      | _ => false                                   (* a directory named like a source file *)
      end
      && forallb (fun i => let li := resolve (s_dir root d) i in
                           match kind_of fs li with
                           | Some true => opt_loc_eqb (k_inc fs root d i) li
                           | _ => match k_inc fs root d i with None => true | Some _ => false end
                           end) incs
  end.
