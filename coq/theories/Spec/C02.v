(* Specification S for C02: ISO C integer constant expressions in #if
   (C11 6.6, 6.10.1p4, 6.4.4.1, 6.4.4.4, 6.5.x), written independently of the
   implementation's tables: own operator type, own precedence levels, own
   literal and character-constant readers.  Values are (z, unsigned) with
   intmax_t = 64-bit two's complement and uintmax_t = 64 bits.
   Where ISO C leaves the behaviour undefined [sem] is [None] (division by zero,
   shift count outside 0..63 in an EVALUATED operand); signed overflow wraps and
   >> on a negative value is arithmetic (what gcc does; the correspondence run
   additionally keeps such inputs out of the compared domain).
   Definitions only. *)
From Coq Require Import ZArith Bool String Ascii List.
From CBI Require Import Lib.Data Model.C02.
Import ListNotations.
Local Open Scope Z_scope.

Inductive unop := UNeg | UPos | UNot | UCpl.
Inductive binop :=
  | BMul | BDiv | BMod | BAdd | BSub | BShl | BShr | BLt | BLe | BGt | BGe | BEq | BNe
  | BAnd | BXor | BOr | BLand | BLor.

Inductive expr :=
  | ELit (body sfx : string)          (* integer constant: prefix+digits, suffix *)
  | EChar (spelling : string)         (* character constant, spelling between the quotes *)
  | EId (name : string)               (* identifier that is not a macro *)
  | EDefined (name : string) (paren : bool)
  | EParen (e : expr)
  | EUn (o : unop) (e : expr)
  | EBin (o : binop) (a b : expr)
  | ECond (c a b : expr).

(* ---------- ISO grammar levels (6.5.5 .. 6.5.15); higher binds tighter ---------- *)
Definition level (o : binop) : nat :=
  match o with
  | BMul | BDiv | BMod => 11 | BAdd | BSub => 10 | BShl | BShr => 9
  | BLt | BLe | BGt | BGe => 8 | BEq | BNe => 7 | BAnd => 6 | BXor => 5 | BOr => 4
  | BLand => 3 | BLor => 2
  end%nat.
Definition bspell (o : binop) : string :=
  match o with
  | BMul => "*" | BDiv => "/" | BMod => "%" | BAdd => "+" | BSub => "-" | BShl => "<<" | BShr => ">>"
  | BLt => "<" | BLe => "<=" | BGt => ">" | BGe => ">=" | BEq => "==" | BNe => "!="
  | BAnd => "&" | BXor => "^" | BOr => "|" | BLand => "&&" | BLor => "||"
  end%string.
Definition uspell (o : unop) : string :=
  match o with UNeg => "-" | UPos => "+" | UNot => "!" | UCpl => "~" end%string.
Definition all_binops : list binop :=
  [BMul; BDiv; BMod; BAdd; BSub; BShl; BShr; BLt; BLe; BGt; BGe; BEq; BNe; BAnd; BXor; BOr; BLand; BLor].
Definition all_unops : list unop := [UNeg; UPos; UNot; UCpl].

(* ---------- integer constants (6.4.4.1) ---------- *)
Definition legal_suffixes : list string :=
  [""; "u"; "U"; "l"; "L"; "ll"; "LL";
   "ul"; "uL"; "Ul"; "UL"; "lu"; "lU"; "Lu"; "LU";
   "ull"; "uLL"; "Ull"; "ULL"; "llu"; "llU"; "LLu"; "LLU"]%string.
Definition suffix_unsigned (s : string) : bool :=
  existsb (fun c => (zascii c =? 117) || (zascii c =? 85)) (list_of_string s).

Definition dec_digit (c : ascii) : option Z := let n := zascii c in if (48 <=? n) && (n <=? 57) then Some (n - 48) else None.
Definition oct_digit (c : ascii) : option Z := let n := zascii c in if (48 <=? n) && (n <=? 55) then Some (n - 48) else None.
Definition bin_digit (c : ascii) : option Z := let n := zascii c in if (48 <=? n) && (n <=? 49) then Some (n - 48) else None.
Definition hex_digit (c : ascii) : option Z := hexval c.

(* Horner value of a non-empty digit string *)
Fixpoint horner (dig : ascii -> option Z) (base acc : Z) (cs : list ascii) : option Z :=
  match cs with
  | [] => Some acc
  | c :: r => match dig c with Some d => horner dig base (acc * base + d) r | None => None end
  end.
Definition digits_value (dig : ascii -> option Z) (base : Z) (cs : list ascii) : option Z :=
  match cs with [] => None | _ => horner dig base 0 cs end.

Inductive radix := RDec | ROct | RHex | RBin.
(* (radix, value) of the body of an integer constant *)
Definition body_value (body : string) : option (radix * Z) :=
  match list_of_string body with
  | z :: x :: r =>
      if Ascii.eqb z "0" then
        if Ascii.eqb x "x" || Ascii.eqb x "X" then option_map (pair RHex) (digits_value hex_digit 16 r)
        else if Ascii.eqb x "b" || Ascii.eqb x "B" then option_map (pair RBin) (digits_value bin_digit 2 r)
        else option_map (pair ROct) (digits_value oct_digit 8 (z :: x :: r))
      else option_map (pair RDec) (digits_value dec_digit 10 (z :: x :: r))
  | [z] => if Ascii.eqb z "0" then Some (ROct, 0) else option_map (pair RDec) (digits_value dec_digit 10 [z])
  | [] => None
  end%char.

(* the type is the first of the list in 6.4.4.1p5 that can represent the value; in the
   preprocessor every signed type is intmax_t and every unsigned type uintmax_t.
   A decimal constant without u that does not fit intmax_t has no type: None. *)
Definition lit_sem (body sfx : string) : option val :=
  if existsb (String.eqb sfx) legal_suffixes then
    match body_value body with
    | Some (rdx, n) =>
        if suffix_unsigned sfx then (if n <? two64 then Some (V n true) else None)
        else if n <? two63 then Some (V n false)
        else match rdx with
             | RDec => None
             | _ => if n <? two64 then Some (V n true) else None
             end
    | None => None
    end
  else None.

(* ---------- character constants (6.4.4.4); values above 127 have an
   implementation-defined sign and are outside the specification ---------- *)
Definition simple_escape (c : ascii) : option Z :=
  (if Ascii.eqb c "n" then Some 10 else if Ascii.eqb c "t" then Some 9 else if Ascii.eqb c "r" then Some 13
   else if Ascii.eqb c "a" then Some 7 else if Ascii.eqb c "b" then Some 8 else if Ascii.eqb c "f" then Some 12
   else if Ascii.eqb c "v" then Some 11 else if Ascii.eqb c "\" then Some 92 else if Ascii.eqb c "'" then Some 39
   else if Ascii.eqb c """" then Some 34 else if Ascii.eqb c "?" then Some 63 else None)%char.

Definition char_sem (spelling : string) : option val :=
  let small (n : Z) := if n <? 128 then Some (V n false) else None in
  match list_of_string spelling with
  | [c] => let n := zascii c in
           if (32 <=? n) && (n <? 127) && negb (n =? 39) && negb (n =? 92) then Some (V n false) else None
  | b :: c :: r =>
      if zascii b =? 92 then
        match r, simple_escape c with
        | [], Some v => Some (V v false)
        | _, _ =>
            if zascii c =? 120 then match digits_value hex_digit 16 r with Some n => small n | None => None end
            else if (List.length (c :: r) <=? 3)%nat
                 then match digits_value oct_digit 8 (c :: r) with Some n => small n | None => None end
                 else None
        end
      else None
  | [] => None
  end.

(* ---------- operators on (z, unsigned) ---------- *)
Definition in_range (v : val) : Prop :=
  match v with V z true => 0 <= z < two64 | V z false => - two63 <= z < two63 end.

Definition to_unsigned (z : Z) : Z := z mod two64.
(* reduce a mathematical result into the result type *)
Definition wrap (z : Z) (u : bool) : val :=
  if u then V (z mod two64) true
  else let m := z mod two64 in V (if m <? two63 then m else m - two64) false.
Definition truth (b : bool) : val := V (if b then 1 else 0) false.

Definition un_sem (o : unop) (v : val) : val :=
  let (z, u) := v in
  match o with
  | UPos => V z u
  | UNeg => wrap (- z) u
  | UCpl => if u then V (two64 - 1 - z) true else V (- z - 1) false
  | UNot => truth (z =? 0)
  end.

(* usual arithmetic conversions (6.3.1.8), restricted to intmax_t / uintmax_t *)
Definition usual (a b : val) : Z * Z * bool :=
  let (x, ux) := a in let (y, uy) := b in
  if ux || uy then (to_unsigned x, to_unsigned y, true) else (x, y, false).

(* strict binary operators (everything but && and ||); None = undefined *)
Definition bin_sem (o : binop) (a b : val) : option val :=
  match o with
  | BShl | BShr =>
      let (x, ux) := a in let (n, _) := b in
      if (0 <=? n) && (n <? 64) then
        match o with
        | BShl => Some (wrap (x * 2 ^ n) ux)
        | _ => Some (wrap (x / 2 ^ n) ux)        (* arithmetic shift; wrap is the identity here *)
        end
      else None
  | _ =>
      let '(x, y, u) := usual a b in
      match o with
      | BMul => Some (wrap (x * y) u)
      | BAdd => Some (wrap (x + y) u)
      | BSub => Some (wrap (x - y) u)
      | BDiv => if y =? 0 then None else Some (wrap (Z.quot x y) u)
      | BMod => if y =? 0 then None else Some (wrap (Z.rem x y) u)
      | BLt => Some (truth (x <? y))
      | BLe => Some (truth (x <=? y))
      | BGt => Some (truth (y <? x))
      | BGe => Some (truth (y <=? x))
      | BEq => Some (truth (x =? y))
      | BNe => Some (truth (negb (x =? y)))
      (* two's complement: the bitwise result of two representable values is representable, so
         wrap is the identity in the next three lines *)
      | BAnd => Some (wrap (Z.land x y) u)
      | BXor => Some (wrap (Z.lxor x y) u)
      | BOr => Some (wrap (Z.lor x y) u)
      | _ => None
      end
  end.

(* static type (true = unsigned); None when a constant is lexically invalid.
   Needed because the type of ?: depends on the operand that is NOT evaluated. *)
Fixpoint static (e : expr) : option bool :=
  match e with
  | ELit body sfx => option_map vu (lit_sem body sfx)
  | EChar s => option_map vu (char_sem s)
  | EId _ | EDefined _ _ => Some false
  | EParen e => static e
  | EUn o e => match static e with Some u => Some (match o with UNot => false | _ => u end) | None => None end
  | EBin o a b =>
      match static a, static b with
      | Some ua, Some ub =>
          Some (match o with
                | BShl | BShr => ua
                | BMul | BDiv | BMod | BAdd | BSub | BAnd | BXor | BOr => ua || ub
                | _ => false
                end)
      | _, _ => None
      end
  | ECond c a b =>
      match static c, static a, static b with
      | Some _, Some ua, Some ub => Some (ua || ub)
      | _, _, _ => None
      end
  end.

Definition convert (v : val) (u : bool) : val := if u then V (to_unsigned (vz v)) true else v.

Section Sem.
Variable defs : list string.       (* the names that are defined as macros *)

Fixpoint sem (e : expr) : option val :=
  match e with
  | ELit body sfx => lit_sem body sfx
  | EChar s => char_sem s
  | EId _ => Some (V 0 false)                                   (* 6.10.1p4 *)
  | EDefined n _ => Some (truth (existsb (String.eqb n) defs))
  | EParen e => sem e
  | EUn o e => option_map (un_sem o) (sem e)
  | EBin BLand a b =>
      match sem a, static b with
      | Some va, Some _ =>
          if vz va =? 0 then Some (truth false)
          else match sem b with Some vb => Some (truth (negb (vz vb =? 0))) | None => None end
      | _, _ => None
      end
  | EBin BLor a b =>
      match sem a, static b with
      | Some va, Some _ =>
          if vz va =? 0 then match sem b with Some vb => Some (truth (negb (vz vb =? 0))) | None => None end
          else Some (truth true)
      | _, _ => None
      end
  | EBin o a b =>
      match sem a, sem b with
      | Some va, Some vb => bin_sem o va vb
      | _, _ => None
      end
  | ECond c a b =>
      match sem c, static a, static b with
      | Some vc, Some ua, Some ub =>
          match sem (if vz vc =? 0 then b else a) with
          | Some v => Some (convert v (ua || ub))
          | None => None
          end
      | _, _, _ => None
      end
  end.
End Sem.

(* ---------- the ISO grammar as an unparser: [tokens need e] is the token sequence of e
   standing where the grammar expects an expression of level >= need, with exactly the
   parentheses the grammar requires; EParen adds explicit ones. ---------- *)
Definition expr_level (e : expr) : nat :=
  match e with
  | EBin o _ _ => level o
  | ECond _ _ _ => 1
  | EUn _ _ => 12
  | _ => 13
  end%nat.

Definition lpar : token := Tok KPunct "(".
Definition rpar : token := Tok KPunct ")".

Section Tokens.
(* how `defined X` / `defined(X)` is spelled: as in the source, or as one number after expansion *)
Variable dt : string -> bool -> list token.

Fixpoint tokens_raw (e : expr) : list token :=
  let wrap_at (need : nat) (x : expr) (ts : list token) :=
    if (expr_level x <? need)%nat then lpar :: ts ++ [rpar] else ts in
  match e with
  | ELit body sfx => [Tok KNum (body ++ sfx)]
  | EChar s => [Tok KChar s]
  | EId n => [Tok KId n]
  | EDefined n p => dt n p
  | EParen x => lpar :: tokens_raw x ++ [rpar]
  | EUn o x => Tok KOp (uspell o) :: wrap_at 12%nat x (tokens_raw x)
  | EBin o a b =>
      wrap_at (level o) a (tokens_raw a) ++ Tok KOp (bspell o) :: wrap_at (S (level o)) b (tokens_raw b)
  | ECond c a b =>
      wrap_at 2%nat c (tokens_raw c) ++ Tok KOp "?" :: tokens_raw a ++ Tok KOp ":" :: wrap_at 1%nat b (tokens_raw b)
  end.
Definition tokens (need : nat) (e : expr) : list token :=
  if (expr_level e <? need)%nat then lpar :: tokens_raw e ++ [rpar] else tokens_raw e.
End Tokens.

Definition dt_source (n : string) (p : bool) : list token :=
  if p then [Tok KId "defined"; lpar; Tok KId n; rpar] else [Tok KId "defined"; Tok KId n].
Definition dt_expanded (defs : list string) (n : string) (p : bool) : list token :=
  [num_tok (existsb (String.eqb n) defs)].
