(* Specification S for C05: translation phases 2-3 of ISO C done literally on
   physical lines.  Definitions only.

   Input: the physical lines of a text (body without the newline and without a
   final continuation backslash, and whether the line was continued), with
   characters reduced to the nine lexically significant classes.

   The reference scanner walks the spliced character stream remembering the
   physical line of every character.  A character "survives" if it is outside
   comments; a physical line is counted iff a surviving non-white-space
   character lies on it.  A `/` is only known to survive (or to open a comment)
   when the next spliced character is seen, possibly several physical lines
   later, so the scanner remembers the line of a pending slash ([s_sl]).  A
   logical line ends at a newline that is neither spliced away nor inside a
   block comment; it is a directive iff its first surviving non-white-space
   character is `#`.

   Independent of the cleaner: no mode stack, no output buffer, no blank/one-space
   normalisation. *)
From Coq Require Import Bool Arith List.
From CBI Require Import Model.C05.   (* only: cls, nkind *)
Import ListNotations.

Inductive sm := sTop | sSlash | sLC | sBlk | sBlkStar | sDQ | sDQe | sSQ | sSQe.
Inductive dstate := dNone | dDir | dSrc.
(* white space seen so far on a physical line that lies entirely inside a literal *)
Inductive lws := lw0 | lw1 | lwM.

Record sst := {
  s_q : sm;
  s_sl : nat;                       (* physical line of the pending slash (meaningful in sSlash) *)
  s_ms : list nat;                  (* counted lines of the current logical line, most recent first *)
  s_d : dstate;
  s_open : bool;                    (* a logical line is in progress at a physical line boundary *)
  s_lw : lws;
  s_out : list (list nat * bool);   (* finished logical lines: counted lines (ascending), directive? *)
  s_wf : bool;                      (* no stray backslash / unterminated literal so far *)
  s_c20 : bool;                     (* class: an operator slash directly before a backslash-newline *)
  s_c22 : bool                      (* class: a physical line inside a literal holds only white space, and not exactly one blank *)
}.

Definition s_init : sst :=
  {| s_q := sTop; s_sl := 0; s_ms := []; s_d := dNone; s_open := false; s_lw := lw0; s_out := [];
     s_wf := true; s_c20 := false; s_c22 := false |}.

Definition set_q (q : sm) (s : sst) : sst :=
  {| s_q := q; s_sl := s_sl s; s_ms := s_ms s; s_d := s_d s; s_open := s_open s; s_lw := s_lw s;
     s_out := s_out s; s_wf := s_wf s; s_c20 := s_c20 s; s_c22 := s_c22 s |}.
Definition set_sl (k : nat) (s : sst) : sst :=
  {| s_q := s_q s; s_sl := k; s_ms := s_ms s; s_d := s_d s; s_open := s_open s; s_lw := s_lw s;
     s_out := s_out s; s_wf := s_wf s; s_c20 := s_c20 s; s_c22 := s_c22 s |}.
Definition set_lw (w : lws) (s : sst) : sst :=
  {| s_q := s_q s; s_sl := s_sl s; s_ms := s_ms s; s_d := s_d s; s_open := s_open s; s_lw := w;
     s_out := s_out s; s_wf := s_wf s; s_c20 := s_c20 s; s_c22 := s_c22 s |}.
Definition not_wf (s : sst) : sst :=
  {| s_q := s_q s; s_sl := s_sl s; s_ms := s_ms s; s_d := s_d s; s_open := s_open s; s_lw := s_lw s;
     s_out := s_out s; s_wf := false; s_c20 := s_c20 s; s_c22 := s_c22 s |}.

Definition set_c20 (f : bool) (s : sst) : sst :=
  {| s_q := s_q s; s_sl := s_sl s; s_ms := s_ms s; s_d := s_d s; s_open := s_open s; s_lw := s_lw s;
     s_out := s_out s; s_wf := s_wf s; s_c20 := f; s_c22 := s_c22 s |}.

Definition mark (k : nat) (ms : list nat) : list nat :=
  match ms with
  | j :: _ => if Nat.eqb j k then ms else k :: ms
  | [] => [k]
  end.
Definition marked (n : nat) (ms : list nat) : bool :=
  match ms with j :: _ => Nat.eqb j n | [] => false end.

(* a non-white-space character on physical line k survives; is_hash: it is `#` *)
Definition survive (k : nat) (is_hash : bool) (s : sst) : sst :=
  {| s_q := s_q s; s_sl := s_sl s; s_ms := mark k (s_ms s);
     s_d := match s_d s with dNone => if is_hash then dDir else dSrc | d => d end;
     s_open := s_open s; s_lw := s_lw s; s_out := s_out s; s_wf := s_wf s; s_c20 := s_c20 s; s_c22 := s_c22 s |}.

(* class "slash-before-splice": a slash that turns out NOT to open a comment is
   separated from the next character by a backslash-newline *)
Definition far_slash (n : nat) (s : sst) : sst := set_c20 (s_c20 s || negb (Nat.eqb (s_sl s) n)) s.

(* outside comments and literals *)
Definition s_top (n : nat) (s : sst) (c : cls) : sst :=
  match c with
  | cSl => set_q sSlash (set_sl n s)
  | cDq => set_q sDQ (survive n false s)
  | cSq => set_q sSQ (survive n false s)
  | cSp | cWs => set_q sTop s
  | cBs => set_q sTop (not_wf (survive n false s))          (* stray backslash *)
  | cHash => set_q sTop (survive n true s)
  | cL | cSt => set_q sTop (survive n false s)
  end.

Definition bump (w : lws) (c : cls) : lws :=
  match w, c with lw0, cSp => lw1 | _, _ => lwM end.

(* inside a literal; quote = the closing character class; esc/plain = the two states *)
Definition s_lit (n : nat) (s : sst) (c : cls) (plain esc : sm) (quote : cls) (in_esc : bool) : sst :=
  match c with
  | cSp | cWs =>
      let s := if marked n (s_ms s) then s else set_lw (bump (s_lw s) c) s in
      set_q plain s
  | _ =>
      let s := survive n false s in
      if in_esc then set_q plain s
      else match c, quote with
           | cBs, _ => set_q esc s
           | cDq, cDq => set_q sTop s
           | cSq, cSq => set_q sTop s
           | _, _ => set_q plain s
           end
  end.

(* one character c of physical line n *)
Definition sstep (n : nat) (s : sst) (c : cls) : sst :=
  match s_q s with
  | sTop => s_top n s c
  | sSlash =>
      match c with
      | cSl => set_q sLC s
      | cSt => set_q sBlk s
      | _ => s_top n (survive (s_sl s) false (far_slash n s)) c       (* the pending slash was an operator *)
      end
  | sLC => s
  | sBlk => match c with cSt => set_q sBlkStar s | _ => s end
  | sBlkStar => match c with cSl => set_q sTop s | cSt => s | _ => set_q sBlk s end
  | sDQ => s_lit n s c sDQ sDQe cDq false
  | sDQe => s_lit n s c sDQ sDQe cDq true
  | sSQ => s_lit n s c sSQ sSQe cSq false
  | sSQe => s_lit n s c sSQ sSQe cSq true
  end.

Definition end_logical (s : sst) : sst :=
  {| s_q := sTop; s_sl := s_sl s; s_ms := []; s_d := dNone; s_open := false; s_lw := s_lw s;
     s_out := match s_ms s with
              | [] => s_out s
              | ms => s_out s ++ [(rev ms, match s_d s with dDir => true | _ => false end)]
              end;
     s_wf := s_wf s; s_c20 := s_c20 s; s_c22 := s_c22 s |}.

Definition keep_open (s : sst) : sst :=
  {| s_q := s_q s; s_sl := s_sl s; s_ms := s_ms s; s_d := s_d s; s_open := true; s_lw := s_lw s;
     s_out := s_out s; s_wf := s_wf s; s_c20 := s_c20 s; s_c22 := s_c22 s |}.

Definition sm_eqb (a b : sm) : bool :=
  match a, b with
  | sTop, sTop | sSlash, sSlash | sLC, sLC | sBlk, sBlk | sBlkStar, sBlkStar
  | sDQ, sDQ | sDQe, sDQe | sSQ, sSQ | sSQe, sSQe => true
  | _, _ => false
  end.

(* end of physical line n; continued = it ended in backslash-newline *)
Definition s_eol (n : nat) (continued : bool) (s : sst) : sst :=
  let s := {| s_q := s_q s; s_sl := s_sl s; s_ms := s_ms s; s_d := s_d s; s_open := s_open s; s_lw := lw0;
              s_out := s_out s; s_wf := s_wf s; s_c20 := s_c20 s;
              s_c22 := s_c22 s || (negb (marked n (s_ms s)) && match s_lw s with lwM => true | _ => false end) |} in
  if continued then keep_open s
  else
    match s_q s with
    | sTop | sLC => end_logical s
    | sSlash => end_logical (survive (s_sl s) false (far_slash n s))
    | sBlk => keep_open s
    | sBlkStar => keep_open (set_q sBlk s)
    | sDQ | sDQe | sSQ | sSQe => end_logical (not_wf s)          (* unterminated literal *)
    end.

Definition s_line (n : nat) (s : sst) (l : list cls * bool) : sst :=
  s_eol n (snd l) (fold_left (sstep n) (fst l) s).

Fixpoint s_lines (n : nat) (s : sst) (ls : list (list cls * bool)) : sst :=
  match ls with
  | [] => s
  | l :: r => s_lines (S n) (s_line n s l) r
  end.

Record s_result := {
  r_logical : list (list nat * bool);   (* per logical line with at least one counted line *)
  r_wf : bool;                          (* well-formed: gcc would not diagnose the text *)
  r_c20 : bool;
  r_c22 : bool
}.

Definition S_scan (ls : list (list cls * bool)) : s_result :=
  let s := s_lines 1 s_init ls in
  let f := end_logical s in        (* whatever is pending at end of file *)
  {| r_logical := s_out f;
     r_wf := s_wf s && negb (s_open s);     (* unterminated comment, backslash-newline at end of file *)
     r_c20 := s_c20 s; r_c22 := s_c22 s |}.

Definition S_counted (ls : list (list cls * bool)) : list nat :=
  concat (map fst (r_logical (S_scan ls))).

(* nodes: each directive line is a node of its own; maximal runs of other
   logical lines form one code node *)
Definition close_code (cur : list nat) : list (nkind * list nat) :=
  match cur with [] => [] | _ => [(NCode, cur)] end.
Fixpoint group (cur : list nat) (ls : list (list nat * bool)) : list (nkind * list nat) :=
  match ls with
  | [] => close_code cur
  | (lines, true) :: r => close_code cur ++ (NDir, lines) :: group [] r
  | (lines, false) :: r => group (cur ++ lines) r
  end.
Definition S_nodes (ls : list (list cls * bool)) : list (nkind * list nat) :=
  group [] (r_logical (S_scan ls)).
