(* Specification S for C03: macro replacement of ISO C 6.10.3 in the form of
   Prosser's hide-set algorithm (the algorithm the C89 committee's wording was
   derived from): expand / subst / glue / stringize / hsadd, with fuel.
   Every token carries the set of macro names that may no longer be replaced
   in it.  Constructs ISO C leaves undefined or that a conforming
   implementation must diagnose are [Err] (= outside the property's
   quantifier): invalid ## results, # not followed by a parameter, ## at an
   end of a replacement list, wrong number of arguments, unterminated
   invocation, `defined` produced by or passed through replacement.
   Definitions only. *)
From Coq Require Import ZArith String Ascii Bool List.
From CBI Require Import Lib.Data Lib.Res Model.C03tok.
Import ListNotations.
Local Open Scope string_scope.
Local Open Scope list_scope.

(* a source / replacement-list token *)
Record btok := mkB { bk : tkind; bw : bool; bt : string }.
(* a token during replacement *)
Record htok := mkHT { hk : tkind; hw : bool; ht : string; hh : list string }.

Inductive smacro :=
| SObj (body : list btok)
| SFun (params : list string) (variadic : bool) (body : list btok).
Definition stable := list (string * smacro).

Fixpoint slookup (tb : stable) (s : string) : option smacro :=
  match tb with [] => None | (k, m) :: r => if String.eqb k s then Some m else slookup r s end.

Definition mem (s : string) (l : list string) : bool := existsb (String.eqb s) l.
Definition inter (a b : list string) : list string := filter (fun x => mem x b) a.
Definition hsadd (hs : list string) (l : list htok) : list htok :=
  map (fun t => mkHT (hk t) (hw t) (ht t) (hs ++ hh t)) l.
Definition lift (hs : list string) (t : btok) : htok := mkHT (bk t) (bw t) (bt t) hs.
Definition hset_w (w : bool) (l : list htok) : list htok :=
  match l with [] => [] | t :: r => mkHT (hk t) w (ht t) (hh t) :: r end.
Definition h_is (k : tkind) (s : string) (t : htok) : bool := tkind_eqb (hk t) k && String.eqb (ht t) s.
Definition b_is (k : tkind) (s : string) (t : btok) : bool := tkind_eqb (bk t) k && String.eqb (bt t) s.

(* ---------- stringize (6.10.3.2) ---------- *)
Fixpoint esc (l : list ascii) : list ascii :=
  match l with
  | [] => []
  | a :: r => if c_bslash a || c_quote a then ch_bslash :: a :: esc r else a :: esc r
  end.
Definition hspell (t : htok) : list ascii :=
  match hk t with
  | KStr => [ch_bslash; ch_quote] ++ esc (ls (ht t)) ++ [ch_bslash; ch_quote]
  | KChar => [ascii_of_N 39] ++ esc (ls (ht t)) ++ [ascii_of_N 39]
  | _ => ls (ht t)
  end.
Fixpoint str_parts (first : bool) (l : list htok) : list ascii :=
  match l with
  | [] => []
  | t :: r => (if hw t && negb first then ls " " else []) ++ hspell t ++ str_parts false r
  end.
Definition stringize (w : bool) (l : list htok) : htok := mkHT KStr w (sl (str_parts true l)) [].

(* ---------- glue (6.10.3.3) ---------- *)
(* C99 placemarkers: an empty argument that is an operand of ## is replaced
   by a placemarker; placemarker ## X = X, X ## placemarker = X; placemarkers
   are removed when the replacement list has been processed.  (Prosser's 1986
   pseudo-code predates placemarkers and mis-handles `a ## b ## c` with two
   empty arguments; 6.10.3.3 p2-p3 is followed here.) *)
Definition pm (w : bool) : htok := mkHT KUnk w "" [].
Definition is_pm (t : htok) : bool := tkind_eqb (hk t) KUnk && String.eqb (ht t) "".
Definition or_pm (w : bool) (a : list htok) : list htok :=
  match a with [] => [pm w] | _ => hset_w w a end.

Definition paste (l r : htok) : res htok :=
  if is_pm l then Ok (mkHT (hk r) (hw l) (ht r) (hh r))
  else if is_pm r then Ok l
  else
  match lex_whole (spell (hk l) (ht l) ++ spell (hk r) (ht r))%string with
  | Some (k, s) => Ok (mkHT k (hw l) s (inter (hh l) (hh r)))
  | None => Err "UB:invalid-paste"
  end.
Fixpoint glue (lsd rsd : list htok) : res (list htok) :=
  match lsd with
  | [] => Ok rsd
  | [l] => match rsd with
           | r :: rs' => match paste l r with Ok p => Ok (p :: rs') | Err e => Err e end
           | [] => Ok [l]
           end
  | l :: ls' => match glue ls' rsd with Ok g => Ok (l :: g) | Err e => Err e end
  end.

(* ---------- actual arguments ---------- *)
(* after the opening parenthesis: split at top-level commas (at most [nsplit]
   times: the rest belongs to the variable argument), stop at the matching
   parenthesis; returns the arguments, the hide set of that parenthesis and
   the tokens after it *)
Fixpoint actuals (ts : list htok) (depth : nat) (nsplit : nat) (cur : list htok) (acc : list (list htok))
  : option (list (list htok) * list string * list htok) :=
  match ts with
  | [] => None
  | t :: r =>
      if h_is KPunct ")" t then
        match depth with
        | O => Some (acc ++ [cur], hh t, r)
        | S d => actuals r d nsplit (cur ++ [t]) acc
        end
      else if h_is KPunct "(" t then actuals r (S depth) nsplit (cur ++ [t]) acc
      else if h_is KPunct "," t && Nat.eqb depth 0 then
        match nsplit with
        | O => actuals r depth nsplit (cur ++ [t]) acc
        | S n => actuals r depth n [] (acc ++ [cur])
        end
      else actuals r depth nsplit (cur ++ [t]) acc
  end.

(* number of parameters versus number of arguments *)
Definition bind_args (params : list string) (variadic : bool) (acts : list (list htok))
  : res (list (string * list htok)) :=
  let n := List.length params in
  if variadic then
    (* n-1 named parameters; the variable argument may be absent *)
    if Nat.eqb (List.length acts) n then Ok (combine params acts)
    else if Nat.eqb (S (List.length acts)) n && negb (Nat.eqb n 1) then Ok (combine params (acts ++ [[]]))
    else Err "arity"
  else
    match params, acts with
    | [], [[]] => Ok []
    | [], _ => Err "arity"
    | _, _ => if Nat.eqb (List.length acts) n then Ok (combine params acts) else Err "arity"
    end.

Fixpoint sel (ap : list (string * list htok)) (s : string) : option (list htok) :=
  match ap with [] => None | (k, v) :: r => if String.eqb k s then Some v else sel r s end.

Section Subst.
Variable ex : list htok -> res (list htok).     (* full macro replacement of an argument *)
Variable isfun : bool.
Variable ap : list (string * list htok).

Definition param (t : btok) : option (list htok) :=
  if tkind_eqb (bk t) KId then sel ap (bt t) else None.

(* subst(IS, FP, AP, HS, OS) without the final hsadd; placemarkers still inside *)
Fixpoint subst (isq : list btok) (os : list htok) : res (list htok) :=
  match isq with
  | [] => Ok os
  | t :: is1 =>
      if isfun && b_is KOp "#" t then
        match is1 with
        | p :: is2 =>
            match param p with
            | Some a => subst is2 (os ++ [stringize (bw t) a])
            | None => Err "UB:#-without-parameter"
            end
        | [] => Err "UB:#-without-parameter"
        end
      else if b_is KOp "##" t then
        match is1 with
        | p :: is2 =>
            let operand := match param p with
                           | Some a => or_pm (bw p) a
                           | None => [lift [] p]
                           end in
            match glue os operand with Ok g => subst is2 g | Err e => Err e end
        | [] => Err "UB:##-at-end"
        end
      else
        match param t with
        | Some a =>
            if match is1 with c :: _ => b_is KOp "##" c | [] => false end
            then subst is1 (os ++ or_pm (bw t) a)
            else match ex a with Ok e => subst is1 (os ++ hset_w (bw t) e) | Err x => Err x end
        | None => subst is1 (os ++ [lift [] t])
        end
  end.
Definition subst_all (isq : list btok) : res (list htok) :=
  match subst isq [] with
  | Ok os => Ok (filter (fun t => negb (is_pm t)) os)
  | Err e => Err e
  end.
End Subst.

Definition starts_with_cat (b : list btok) : bool :=
  match b with t :: _ => b_is KOp "##" t | [] => false end.

Section Expand.
Variable tb : stable.

Fixpoint expandS (fuel : nat) (ts : list htok) : res (list htok) :=
  match fuel with
  | O => Err "OutOfFuel"
  | S f =>
    match ts with
    | [] => Ok []
    | t :: ts1 =>
        let keep (_ : unit) := match expandS f ts1 with Ok r => Ok (t :: r) | Err e => Err e end in
        if negb (tkind_eqb (hk t) KId) then keep tt
        else if String.eqb (ht t) "defined" then Err "UB:defined"
        else if mem (ht t) (hh t) then keep tt
        else
          match slookup tb (ht t) with
          | None => keep tt
          | Some (SObj body) =>
              if starts_with_cat body then Err "UB:##-at-start" else
              match subst_all (fun _ => Err "unused") false [] body with
              | Err e => Err e
              | Ok os => expandS f (hset_w (hw t) (hsadd (ht t :: hh t) os) ++ ts1)
              end
          | Some (SFun params variadic body) =>
              match ts1 with
              | p :: ts2 =>
                  if h_is KPunct "(" p then
                    if starts_with_cat body then Err "UB:##-at-start" else
                    match actuals ts2 0 (if variadic then Nat.pred (List.length params) else List.length ts2) [] [] with
                    | None => Err "unterminated"
                    | Some (acts, hsr, rest) =>
                        match bind_args params variadic acts with
                        | Err e => Err e
                        | Ok ap =>
                            match subst_all (expandS f) true ap body with
                            | Err e => Err e
                            | Ok os => expandS f (hset_w (hw t) (hsadd (ht t :: inter (hh t) hsr) os) ++ rest)
                            end
                        end
                    end
                  else keep tt
              | [] => keep tt
              end
          end
    end
  end.
End Expand.

(* ---------- `defined` in the controlling expression (6.10.1): evaluated before replacement ---------- *)
Fixpoint sdefined (tb : stable) (ts : list btok) : res (list btok) :=
  match ts with
  | [] => Ok []
  | d :: r =>
      if b_is KId "defined" d then
        let num (x : btok) := mkB KNum (bw d) (match slookup tb (bt x) with Some _ => "1" | None => "0" end) in
        match r with
        | x :: r1 =>
            if tkind_eqb (bk x) KId then
              match sdefined tb r1 with Ok o => Ok (num x :: o) | Err e => Err e end
            else if b_is KPunct "(" x then
              match r1 with
              | y :: c :: r2 =>
                  if tkind_eqb (bk y) KId && b_is KPunct ")" c then
                    match sdefined tb r2 with Ok o => Ok (num y :: o) | Err e => Err e end
                  else Err "malformed-defined"
              | _ => Err "malformed-defined"
              end
            else Err "malformed-defined"
        | [] => Err "malformed-defined"
        end
      else match sdefined tb r with Ok o => Ok (d :: o) | Err e => Err e end
  end.

Definition body_of (m : smacro) : list btok := match m with SObj b => b | SFun _ _ b => b end.
Fixpoint nodup_str (l : list string) : bool :=
  match l with [] => true | a :: r => negb (mem a r) && nodup_str r end.
Definition ends_cat (b : list btok) : bool :=
  match rev b with t :: _ => b_is KOp "##" t | [] => false end.

(* every # of a function-like replacement list is followed by a parameter *)
Fixpoint hash_ok (ps : list string) (b : list btok) : bool :=
  match b with
  | [] => true
  | t :: r => if b_is KOp "#" t then
                match r with
                | p :: r' => tkind_eqb (bk p) KId && mem (bt p) ps && hash_ok ps r'
                | [] => false
                end
              else hash_ok ps r
  end.

(* two adjacent ## operators: the operand of one is the other operator *)
Fixpoint cat_cat (b : list btok) : bool :=
  match b with
  | a :: r => match r with
              | c :: _ => (b_is KOp "##" a && b_is KOp "##" c) || cat_cat r
              | [] => false
              end
  | [] => false
  end.

(* the table is one a conforming implementation accepts without a diagnostic *)
Definition table_ok (tb : stable) : bool :=
  nodup_str (map fst tb) &&
  forallb (fun e => negb (String.eqb (fst e) "defined") &&
                    negb (existsb (b_is KId "defined") (body_of (snd e))) &&
                    negb (ends_cat (body_of (snd e))) &&
                    negb (starts_with_cat (body_of (snd e))) &&
                    negb (cat_cat (body_of (snd e))) &&
                    match snd e with
                    | SObj b => negb (existsb (b_is KId "__VA_ARGS__") b)
                    | SFun ps v b => nodup_str ps && (v || negb (mem "__VA_ARGS__" ps)) &&
                                     (mem "__VA_ARGS__" ps || negb (existsb (b_is KId "__VA_ARGS__") b)) &&
                                     hash_ok ps b
                    end) tb.

Definition run_spec (fuel : nat) (tb : stable) (input : list btok) : res (list (tkind * string)) :=
  if negb (table_ok tb) then Err "bad-table" else
  match sdefined tb input with
  | Err e => Err e
  | Ok ts =>
      match expandS tb fuel (map (lift []) ts) with
      | Ok r => Ok (map (fun t => (hk t, ht t)) r)
      | Err e => Err e
      end
  end.
