(* C06 - specification: the per-line attribution and the sums every report
   must show.  Nothing here mentions dicts, tries or insertion order: a
   counted line belongs to the node that lists it, its platform set is that
   node's set, and every figure is a sum over the lines (nodes) of the files
   concerned.  Definitions only. *)
From Coq Require Import ZArith String Bool Arith List.
From CBI Require Import Lib.Data Model.C06.
Import ListNotations.
Local Open Scope Z_scope.

(* lines of the nodes whose platform set satisfies P *)
Definition nodes_sum (P : pset -> bool) (ns : list node) : Z :=
  fold_right (fun n a => if P (nplat n) then nnum n + a else a) 0 ns.
(* a file is counted unless it is a symlink to another member of the code base *)
Definition counted (f : file) : bool := negb (skipped f).
Definition spec_sum (P : pset -> bool) (files : list file) : Z :=
  fold_right (fun f a => if counted f then nodes_sum P (fnodes f) + a else a) 0 files.

Definition sloc (files : list file) : Z := spec_sum (fun _ => true) files.
Definition bucket (k : pset) (files : list file) : Z := spec_sum (key_eqb k) files.

(* the platform sets that occur on a node of a counted file, each once *)
Fixpoint add_key (k : pset) (ks : list pset) : list pset :=
  match ks with
  | [] => [k]
  | x :: r => if key_eqb x k then ks else x :: add_key k r
  end.
Definition spec_keys (files : list file) : list pset :=
  fold_left (fun ks f => if counted f then fold_left (fun ks n => add_key (nplat n) ks) (fnodes f) ks else ks) files [].
Definition spec_buckets (files : list file) : list (pset * Z) :=
  map (fun k => (k, bucket k files)) (spec_keys files).

(* ---- line level ---- *)
Definition all_lines (f : file) : list Z := flat_map nlines (fnodes f).
Definition lines_with (P : pset -> bool) (f : file) : list Z :=
  flat_map nlines (filter (fun n => P (nplat n)) (fnodes f)).
(* well-formed analysis result (C05's business, checked on every case by the
   correspondence): a node counts exactly the lines it lists and no physical
   line is listed twice in a file *)
Definition node_ok (n : node) : Prop := nnum n = Z.of_nat (List.length (nlines n)).
Definition file_ok (f : file) : Prop := Forall node_ok (fnodes f) /\ NoDup (all_lines f).
(* line l of file f is used iff the node that lists it has a non-empty platform set *)
Definition line_used (f : file) (l : Z) : bool :=
  existsb (fun n => existsb (Z.eqb l) (nlines n) && negb (is_empty (nplat n))) (fnodes f).
Definition spec_used (f : file) : list Z := filter (line_used f) (all_lines f).
Definition spec_unused (f : file) : list Z := filter (fun l => negb (line_used f l)) (all_lines f).

(* ---- directories ---- *)
Fixpoint strict_prefix (p q : list string) : bool :=
  match p, q with
  | [], _ :: _ => true
  | x :: p', y :: q' => String.eqb x y && strict_prefix p' q'
  | _, _ => false
  end.
Fixpoint path_eqb (p q : list string) : bool :=
  match p, q with
  | [], [] => true
  | x :: p', y :: q' => String.eqb x y && path_eqb p' q'
  | _, _ => false
  end.
(* a file is shown unless pruning is on and none of its lines is used *)
Definition file_used (f : file) : bool := existsb (fun n => negb (is_empty (nplat n))) (fnodes f).
Definition shown (prune : bool) (f : file) : bool := negb prune || file_used f.
(* figure P of the directory at path p: sum over the shown non-link files below it *)
Definition spec_dir (P : pset -> bool) (prune : bool) (p : list string) (files : list file) : Z :=
  fold_right (fun f a => if shown prune f && negb (flink f) && strict_prefix p (fpath f)
                         then nodes_sum P (fnodes f) + a else a) 0 files.
(* all directory paths (proper prefixes of shown files' paths), each once, root first *)
Fixpoint prefixes (p : list string) : list (list string) :=
  match p with
  | [] => []
  | x :: r => [] :: map (cons x) (prefixes r)
  end.
Fixpoint add_path (p : list string) (ps : list (list string)) : list (list string) :=
  match ps with
  | [] => [p]
  | x :: r => if path_eqb x p then ps else x :: add_path p r
  end.
Definition spec_dirs (prune : bool) (files : list file) : list (list string) :=
  fold_left (fun ps f => if shown prune f then fold_left (fun ps p => add_path p ps) (prefixes (fpath f)) ps else ps)
            files [ [] ].

(* ---- addressing the tree ---- *)
(* the node reached by following path p from t (children are looked up by name, first match, as in a dict) *)
Fixpoint lookup (p : list string) (t : tnode) : option tnode :=
  match p with
  | [] => Some t
  | c :: r => match find (fun x => String.eqb (tname x) c) (tch t) with
              | Some x => lookup r x
              | None => None
              end
  end.
Definition prefix_eq (p q : list string) : bool := path_eqb p q || strict_prefix p q.
(* what the file system guarantees about the paths of a code base: distinct,
   none is a proper prefix of another, none is the root itself *)
Definition wf_paths (files : list file) : Prop :=
  NoDup (map fpath files) /\
  (forall f g, In f files -> In g files -> strict_prefix (fpath f) (fpath g) = false) /\
  (forall f, In f files -> fpath f <> []).
(* CodeBase.__contains__ resolves the path first, so a symlink that is iterated has its target in the code base *)
Definition links_ok (files : list file) : Prop := forall f, In f files -> flink f = true -> ftarget_in f = true.
