(* C18 — the notions the property-level statements are phrased with.  Definitions only. *)
From Coq Require Import Bool Arith ZArith Ascii String List.
From CBI Require Import Lib.Res Lib.C18_str Model.C01 Spec.C01 Model.C04 Spec.C04 Model.C18 Spec.C18 Gen.C18_tables.
Import ListNotations.
Local Open Scope list_scope.
Local Open Scope string_scope.

(* what a record names *)
Definition sev_of_wrec (w : wrec) : sev :=
  match w with
  | WMissingFile p => SMissingFile p
  | WUnsupported c => SUnsupported c
  | WUnknownCompiler n => SUnknownCompiler n
  | WUnknownArgs l => SUnknownArgs l
  | WEmptyDB db => SEmptyDB db
  | WUnknownDirective f u => SUnknownDirective f (u_line u) (u_col u) (spelling_of (u_toks u))
  | WMissingInclude e _ => sev_of_event e
  | WMissingForced f n => SMissingForced f n
  | WArgError e => SBadCommand e
  end.

(* an event stems from an #include directive at that file and line, of the form it is labelled with *)
Definition form_matches (s : ispec) (e : event) : Prop :=
  match s with
  | IQuote n => ev_angle e = false /\ ev_name e = n
  | IAngle n => ev_angle e = true /\ ev_name e = n
  | IMacro _ => True                       (* the form is that of the macro's value *)
  end.
Definition genuine (fs : fsys) (e : event) : Prop :=
  exists ls id s, fs_get fs (ev_file e) = Some ls /\ In (id, KPlain (AInclude (ev_tag e) s)) ls /\ form_matches s e.

(* evaluating the same directive n times in a row *)
Fixpoint exec_times (fs : fsys) (fuel : nat) (cur : path) (a : act) (n : nat) (p : plat) : res plat :=
  match n with
  | 0 => Ok p
  | S k => match exec_M fs fuel cur a p with Ok p' => exec_times fs fuel cur a k p' | Err e => Err e end
  end.
(* every memoised answer is the answer of the un-memoised search (holds of every reachable platform) *)
Definition memo_sound (fs : fsys) (p : plat) : Prop :=
  forall k r, lookup_memo k (memo p) = Some r -> r = search fs (dirs p) k.

(* categories of a record, and the assumption of the totals theorem: the text of a record does
   not contain the phrase of a category it does not belong to *)
Definition user_phrase : string := "user include".
Definition system_phrase : string := "system include".
Definition is_user_rec (w : wrec) : bool := match w with WMissingInclude e _ => negb (ev_angle e) | _ => false end.
Definition is_system_rec (w : wrec) : bool := match w with WMissingInclude e _ => ev_angle e | _ => false end.
Definition clean (w : wrec) : bool :=
  (is_user_rec w || negb (contains user_phrase (msg_of w))) && (is_system_rec w || negb (contains system_phrase (msg_of w))).

(* the closing lines, from the generated messages *)
Definition text1 (n : nat) : string := match nth_error meta_warnings 0 with Some m => mw_text m n | None => "" end.
Definition text2 (n : nat) : string := match nth_error meta_warnings 1 with Some m => mw_text m n | None => "" end.
Definition text3 (n : nat) : string := match nth_error meta_warnings 2 with Some m => mw_text m n | None => "" end.
Definition line_if (n : nat) (t : nat -> string) : list string := match n with 0 => [] | _ => [t n] end.

(* ---------- the guarded model: evaluation refuses a state whose memo is not sound ---------- *)
Definition opath_eqb (a b : option path) : bool :=
  match a, b with None, None => true | Some x, Some y => path_eqb x y | _, _ => false end.
(* every binding of the memo is the answer of the un-memoised search *)
Definition memo_sound_b (fs : fsys) (p : plat) : bool :=
  forallb (fun kr : mkey * option path => opath_eqb (snd kr) (search fs (dirs p) (fst kr))) (memo p).
Definition unsound : string := "memo unsound".

Section Guarded.
Variable fs : fsys.
(* exec_M with a guard: refuses to evaluate a node in a state whose memo is not sound *)
Fixpoint exec_G (fuel : nat) (cur : path) (a : act) (p : plat) {struct fuel} : res plat :=
  if negb (memo_sound_b fs p) then Err unsound else
  match a with
  | AInclude tag s =>
      match include_target s p with
      | Err e => Err e
      | Ok (angle, name) =>
          let '(p1, r) := find_include fs (name, dirname cur, angle) p in
          match r with
          | None => Ok (set_events ({| ev_file := cur; ev_tag := tag; ev_name := name; ev_angle := angle |} :: events p1) p1)
          | Some f =>
              if mem_path f (once p1) then Ok p1
              else match fuel with
                   | 0 => Err out_of_fuel
                   | S fuel' =>
                       match fs_get fs f with
                       | None => Err "internal: resolved file does not exist"
                       | Some ls => run_M plat act cond (mark_in f) (exec_G fuel' f) ev ls p1
                       end
                   end
          end
      end
  | _ => exec_M fs fuel cur a p
  end.
Definition run_file_G (fuel : nat) (f : path) (p : plat) : res plat :=
  match fs_get fs f with
  | None => Err "FileNotFoundError"
  | Some ls => run_M plat act cond (mark_in f) (exec_G fuel f) ev ls p
  end.
Fixpoint forced_G (fuel : nat) (this : path) (incs : list path) (p : plat) : res plat :=
  match incs with
  | [] => Ok p
  | n :: r =>
      let '(p1, res) := find_include fs (n, this, false) p in
      match res with
      | None => forced_G fuel this r p1
      | Some f =>
          if mem_path f (once p1) then forced_G fuel this r p1            (* process_include *)
          else match run_file_G fuel f p1 with Ok p2 => forced_G fuel this r p2 | Err e => Err e end
      end
  end.
Definition run_tu_G (fuel : nat) (e : entry) : res plat :=
  match forced_G fuel (dirname (e_file e)) (e_incs e) (fresh e) with
  | Ok p => run_file_G fuel (e_file e) p
  | Err x => Err x
  end.
End Guarded.

