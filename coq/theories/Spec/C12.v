(* Specification side of C12.  Definitions only.

   S reads a command line the way the property talks about it: a sequence of
   ITEMS - a flag that is present, a flag with its value (three spellings), or
   something that is not an option - and gives each item the meaning DECLARED
   for its flag in the compiler definition (apply_rule, the documented effect
   of the action).  No abbreviation, clustering, ambiguity or error handling:
   command lines that need those are outside S ([spec_parse] = None) and are
   covered only by the I-vs-M correspondence (argparse is C11's subject).

   The alias semantics is the path semantics: follow alias edges; the answer is
   the first name on the path that is not an alias, "dangling" when the path
   leaves the table, "loop" when it never ends. *)
From Coq Require Import ZArith Bool Ascii String List.
From CBI Require Import Lib.Data Lib.Res Model.C12.
Import ListNotations.
Local Open Scope string_scope.
Local Open Scope list_scope.

(* ------------------------------------------------------------------ items *)
Inductive item :=
| I0 (f : string)          (* a zero-argument flag, spelled exactly *)
| IEq (f v : string)       (* f=v *)
| ISep (f v : string)      (* f v *)
| IAtt (f v : string)      (* fv for a two-character option f *)
| IPos (s : string)        (* not an option: source files, output names ... *)
| IUnk (t : string).       (* an option the compiler definition says nothing about (-Wall, -std=c++17) *)

Definition render_item (it : item) : list string :=
  match it with
  | I0 f => [f]
  | IEq f v => [(f ++ "=" ++ v)%string]
  | ISep f v => [f; v]
  | IAtt f v => [(f ++ v)%string]
  | IPos s => [s]
  | IUnk t => [t]
  end.
Definition render (l : list item) : list string := flat_map render_item l.

(* the scanner: how a reader of the compiler definition splits a command line *)
Fixpoint scan (rs : list rule) (toks : list string) : option (list item) :=
  match toks with
  | [] => Some []
  | t :: r =>
      if negb (starts_dash t) then option_map (cons (IPos t)) (scan rs r)
      else match find_opt rs t with
           | Some ru =>
               (* an optional value (-O, -g, -c) is never needed: a following non-option may be
                  swallowed by argparse, which changes nothing *)
               if nargs0 (r_act ru) || nargs_opt (r_act ru) then option_map (cons (I0 t)) (scan rs r)
               else match r with
                    | v :: r' => option_map (cons (ISep t v)) (scan rs r')
                    | [] => None
                    end
           | None =>
               match (match split_first "="%char t with
                      | Some (f, v) => match find_opt rs f with
                                       | Some ru => if nargs0 (r_act ru) then None else Some (IEq f v)
                                       | None => None
                                       end
                      | None => None
                      end) with
               | Some it => option_map (cons it) (scan rs r)
               | None =>
                   match find_opt rs (head2 t) with
                   | Some ru => if nargs0 (r_act ru) then None
                                else option_map (cons (IAtt (head2 t) (tail2 t))) (scan rs r)
                   | None => option_map (cons (IUnk t)) (scan rs r)
                   end
               end
           end
  end.

(* side conditions under which the spelling is unambiguous for argparse *)
(* takes an attached / = value *)
Definition is1 (rs : list rule) (f : string) : bool :=
  match find_opt rs f with Some ru => negb (nargs0 (r_act ru)) | None => false end.
(* requires a separate value *)
Definition isreq (rs : list rule) (f : string) : bool :=
  match find_opt rs f with Some ru => negb (nargs0 (r_act ru)) && negb (nargs_opt (r_act ru)) | None => false end.
(* may stand alone *)
Definition is0 (rs : list rule) (f : string) : bool :=
  match find_opt rs f with Some ru => nargs0 (r_act ru) || nargs_opt (r_act ru) | None => false end.

Definition wf_item (rs : list rule) (it : item) : bool :=
  match it with
  | I0 f => is0 rs f && starts_dash f && negb (String.eqb f "--")
  | IEq f v =>
      is1 rs f && starts_dash f && negb (has_char "="%char f) &&
      match find_opt rs (f ++ "=" ++ v)%string with Some _ => false | None => true end &&
      negb (String.eqb (f ++ "=" ++ v)%string "--") && negb (Nat.eqb (String.length (f ++ "=" ++ v)%string) 1)
  | ISep f v => isreq rs f && starts_dash f && negb (String.eqb f "--") && negb (starts_dash v)
  | IAtt f v =>
      let t := (f ++ v)%string in
      is1 rs f && starts_dash f && negb (String.eqb t "--") && negb (Nat.eqb (String.length t) 1) &&
      match find_opt rs t with Some _ => false | None => true end &&
      match split_first "="%char t with
      | Some (o, _) => match find_opt rs o with Some _ => false | None => true end
      | None => true
      end &&
      negb (second_dash t) &&
      match tuples (all_flags rs) t with
      | [(os, Some e)] => String.eqb os f && String.eqb e v
      | _ => false
      end
  | IPos s => negb (starts_dash s)
  | IUnk t =>
      (* neither an option, nor option=value, nor a short option with attached value,
         nor a prefix of a single-dash option *)
      starts_dash t && negb (String.eqb t "--") &&
      match find_opt rs t with Some _ => false | None => true end &&
      match split_first "="%char t with
      | Some (o, _) => match find_opt rs o with Some _ => false | None => true end
      | None => true
      end &&
      (Nat.eqb (String.length t) 1 || second_dash t || match tuples (all_flags rs) t with [] => true | _ => false end)
  end.

(* declared meaning of one item *)
Definition item_effect (rs : list rule) (it : item) (n : ns) : ns :=
  match it with
  | I0 f => match find_opt rs f with Some r => apply_rule false r f "" n | None => n end
  | IEq f v | ISep f v | IAtt f v =>
      match find_opt rs f with Some r => apply_rule false r f v n | None => n end
  | IPos _ | IUnk _ => n
  end.

Definition spec_ns (c : compiler) (items : list item) : ns :=
  fold_left (fun n it => item_effect (generic_rules ++ c_rules c) it n) items (init_ns c).

(* S for one command: None = the command line is outside S *)
Definition spec_parse (c : compiler) (argv : list string) : option (list config * list string) :=
  let rs := generic_rules ++ c_rules c in
  if conflict [] rs then None
  else match scan rs (argv ++ c_opts c) with
       | None => None
       | Some items =>
           if forallb (wf_item rs) items
           then let n := spec_ns c items in Some (configs_of c n, events_of c n)
           else None
       end.

(* A flag that a later parser rule defines again takes the later definition, as modes and
   passes of the same name do ("a user configuration extends the built-in one").  The code
   instead registers both rules and argparse raises "conflicting option string" on every
   command of that compiler: known finding redefined-flag-crashes. *)
Fixpoint resolve_rules (rs : list rule) : list rule :=
  match rs with
  | [] => []
  | r :: t =>
      match filter (fun f => negb (smem f (all_flags t))) (r_flags r) with
      | [] => resolve_rules t
      | fl => {| r_flags := fl; r_act := r_act r; r_dest := r_dest r; r_default := r_default r |} :: resolve_rules t
      end
  end.
Definition resolved (c : compiler) : compiler :=
  {| c_alias := c_alias c; c_opts := c_opts c; c_rules := resolve_rules (c_rules c);
     c_modes := c_modes c; c_passes := c_passes c |}.
Definition rules_conflict (c : compiler) : bool := conflict [] (generic_rules ++ c_rules c).
Definition spec_parse_cmd (c : compiler) (argv : list string) : option (list config * list string) :=
  if rules_conflict c then spec_parse (resolved c) argv else spec_parse c argv.

(* ------------------------------------------------------------------ aliases: the path semantics *)
Definition next_name (t : table) (x : string) : option (option string) :=
  (* None: x is not in the table; Some None: x is a real compiler; Some (Some a): alias of a *)
  match aget x t with
  | None => None
  | Some c => Some (truthy (c_alias c))
  end.

(* the name reached after k alias steps, if every step so far was an alias edge *)
Fixpoint path (t : table) (x : string) (k : nat) : option string :=
  match k with
  | O => Some x
  | S k' => match path t x k' with
            | Some y => match next_name t y with Some (Some a) => Some a | _ => None end
            | None => None
            end
  end.

Definition resolves_to (t : table) (x y : string) : Prop :=
  exists k, path t x k = Some y /\ next_name t y = Some None.
Definition dangles_at (t : table) (x a : string) : Prop :=
  exists k, path t x k = Some a /\ next_name t a = None /\ k <> O.
Definition loops (t : table) (x : string) : Prop :=
  forall k, exists y, path t x k = Some y /\ exists a, next_name t y = Some (Some a).

(* executable form used by the driver: iterate [length t + 1] steps *)
Fixpoint spec_walk (fuel : nat) (t : table) (x : string) : status :=
  match fuel with
  | O => SLoop
  | S f => match next_name t x with
           | None => SDangling x
           | Some None => SOk x
           | Some (Some a) => spec_walk f t a
           end
  end.
Definition spec_resolve (t : table) (name : string) : status :=
  match aget name t with
  | None => SUnrec
  | Some _ => spec_walk (S (List.length t)) t name
  end.

(* the whole sequence of commands: every command is judged on its own *)
Definition spec_cmd (t : table) (cmd : string * list string) : status * option (list config * list string) :=
  let st := spec_resolve t (basename (fst cmd)) in
  (st, spec_parse_cmd (compiler_of t st) (snd cmd)).
