(* C01 — specification S: the skipping machine every C preprocessor implements
   (ISO C 6.10.1): one step per logical line, a stack of frames for the open
   conditional chains.  Definitions only. *)
From Coq Require Import List Bool Arith String.
From CBI Require Import Lib.Res Model.C01.
Import ListNotations.

Section Generic.
Variables ST ACT COND : Type.
Variable mark : nat -> ST -> ST.
Variable exec : ACT -> ST -> res ST.
Variable ev : COND -> ST -> res bool.
Notation line := (line ACT COND).

(* outer  : the chain's #if line itself is in a group that is being processed
   taken  : some earlier group of this chain has been selected
   active : the current group of this chain is the selected one *)
Record sframe := { outer : bool; taken : bool; active : bool }.
Record sst := { sstk : list sframe; sp : ST }.

Definition live (stk : list sframe) : bool :=
  match stk with [] => true | f :: _ => outer f && active f end.

Definition stray : string := "diagnostic: #elif/#else/#endif without #if".

Definition sstep (s : sst) (l : line) : res sst :=
  let '(id, k) := l in
  let lv := live (sstk s) in
  match k with
  | KPlain a =>
      if lv then match exec a (mark id (sp s)) with
                 | Ok p' => Ok {| sstk := sstk s; sp := p' |} | Err e => Err e end
      else Ok s
  | KIf c =>
      if lv then
        let p := mark id (sp s) in
        match ev c p with
        | Ok a => Ok {| sstk := {| outer := true; taken := a; active := a |} :: sstk s; sp := p |}
        | Err e => Err e
        end
      else Ok {| sstk := {| outer := false; taken := false; active := false |} :: sstk s; sp := sp s |}
  | KElif c =>
      match sstk s with
      | [] => Err stray
      | f :: r =>
          if outer f then
            let p := mark id (sp s) in
            if taken f then Ok {| sstk := {| outer := true; taken := true; active := false |} :: r; sp := p |}
            else match ev c p with
                 | Ok a => Ok {| sstk := {| outer := true; taken := a; active := a |} :: r; sp := p |}
                 | Err e => Err e
                 end
          else Ok s
      end
  | KElse =>
      match sstk s with
      | [] => Err stray
      | f :: r =>
          if outer f then
            Ok {| sstk := {| outer := true; taken := true; active := negb (taken f) |} :: r;
                  sp := mark id (sp s) |}
          else Ok s
      end
  | KEndif =>
      match sstk s with
      | [] => Err stray
      | f :: r => Ok {| sstk := r; sp := if outer f then mark id (sp s) else sp s |}
      end
  end.

Fixpoint ssteps (s : sst) (ls : list line) : res sst :=
  match ls with
  | [] => Ok s
  | l :: ls' => match sstep s l with Ok s' => ssteps s' ls' | Err e => Err e end
  end.

Definition run_S (ls : list line) (p : ST) : res ST :=
  match ssteps {| sstk := []; sp := p |} ls with
  | Ok s => Ok (sp s)
  | Err e => Err e
  end.

(* ---------- structured programs: conditionals that nest ---------- *)
Inductive hdr := HElif (c : COND) | HElse.
Definition hk (h : hdr) : kind ACT COND := match h with HElif c => KElif c | HElse => KElse end.

Inductive item :=
| IPlain (id : nat) (a : ACT)
| IChain (id : nat) (c : COND) (body : list item) (rest : list (nat * hdr * list item)) (eid : nat).

Fixpoint flat (i : item) : list line :=
  match i with
  | IPlain id a => [(id, KPlain a)]
  | IChain id c body rest eid =>
      (id, KIf c) :: flat_map flat body ++
      flat_map (fun x => let '(hid, h, b) := x in (hid, hk h) :: flat_map flat b) rest ++
      [(eid, KEndif)]
  end.
Definition flats (is : list item) : list line := flat_map flat is.

End Generic.

Arguments IPlain {ACT COND}. Arguments IChain {ACT COND}.
Arguments HElif {COND}. Arguments HElse {COND}.
