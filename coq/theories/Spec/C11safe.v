(* The domain on which C11 is proved ([safe]) and, one boolean per conjunct,
   the spellings it leaves out.  Definitions only; each excluded class has a
   [C11_unsafe_refuted_<class>] witness in Props/C11.v. *)
From Coq Require Import Ascii String Bool List.
From CBI Require Import Spec.C11.
Import ListNotations.
Local Open Scope string_scope.

Definition dashed (t : string) : bool :=
  match t with String a _ => Ascii.eqb a "-" | EmptyString => false end.
Definition is_prefix (p s : string) : bool :=
  match strip p s with Some _ => true | None => false end.
Definition two_or_more (t : string) : bool :=
  match t with String _ (String _ _) => true | _ => false end.

(* class dashdash: the "--" marker *)
Definition cl_dashdash (t : string) : bool := String.eqb t "--".
(* class attached-long: -isystem<dir> / -include<file> with the value attached *)
Definition cl_attached_long (t : string) : bool :=
  match strip "-isystem" t with
  | Some (String _ _) => true
  | _ => match strip "-include" t with Some (String _ _) => true | _ => false end
  end.
(* class eq-value: -D=... / -I=... *)
Definition cl_eq_value (t : string) : bool :=
  match strip "-D=" t with
  | Some _ => true
  | None => match strip "-I=" t with Some _ => true | None => false end
  end.
(* class dashdash-value: -D-- / -I-- *)
Definition cl_dashdash_value (t : string) : bool := String.eqb t "-D--" || String.eqb t "-I--".
(* class abbrev: a proper prefix, two characters or longer, of -isystem or -include *)
Definition cl_abbrev (t : string) : bool :=
  two_or_more t && negb (String.eqb t "-isystem") && negb (String.eqb t "-include")
  && (is_prefix t "-isystem" || is_prefix t "-include").

Definition tok_safe (t : string) : bool :=
  negb (cl_dashdash t || cl_attached_long t || cl_eq_value t || cl_dashdash_value t || cl_abbrev t).

(* flags whose value is the next argument (for argparse: also -o) *)
Definition needs_value (t : string) : bool :=
  String.eqb t "-D" || String.eqb t "-I" || String.eqb t "-isystem" || String.eqb t "-include" || String.eqb t "-o".

(* class dash-value / missing value: the argument after such a flag must exist and must not begin with '-' *)
Fixpoint safe (argv : list string) : bool :=
  match argv with
  | [] => true
  | t :: r =>
      tok_safe t &&
      (if needs_value t then
         match r with
         | v :: r' => negb (dashed v) && safe r'
         | [] => false
         end
       else safe r)
  end.

(* the lists as the namespace / the configuration holds them *)
Definition some3 (l : lists) : list (option string) * list (option string) * list (option string) :=
  match l with (d, p, f) => (map Some d, map Some p, map Some f) end.
Definition some4 (l : lists4) :
  list (option string) * list (option string) * list (option string) * list (option string) :=
  match l with (d, p, s, f) => (map Some d, map Some p, map Some s, map Some f) end.
