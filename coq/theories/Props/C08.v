(* C08 — translation units and platforms are analysed in isolation and compose.
   Statements only.  M = Model/C08.v (finder.find with a FRESH Platform per compile
   command, shared only-growing attribution map), S = Spec/C08.v (a platform uses a
   node iff one of its commands, analysed alone by the reference preprocessor from
   a fresh state, reaches it). *)
From Coq Require Import Bool Arith ZArith String List Permutation.
From CBI Require Import Lib.Res Model.C01 Spec.C01 Model.C04 Spec.C04 Gen.C08_tables Model.C08 Spec.C08 Proofs.C08.
Import ListNotations.
Local Open Scope string_scope.
Local Open Scope list_scope.

(* The tie to the source: tools/gen/c08_tables.py reads from finder.find where
   `file_platform = platform.Platform(p, rootdir)` stands.  The theorems below are about
   the model selected by that constant; they are proved for the per-entry placement, so
   this statement (and with it the whole file) stops checking if the source hoists it. *)
Theorem C08_platform_per_entry :
  platform_created = PerEntry /\
  forall fs fuel cfg, find_M fs fuel cfg = find_G fs fuel carry_none cfg [].
Proof. split; reflexivity. Qed.
Print Assumptions C08_platform_per_entry.

(* For EVERY file system of structured files, every include depth, every code base
   and every configuration (any number of platforms and commands, any sharing of
   files and headers between them) whose commands the reference preprocessor
   accepts: find succeeds and platform n is recorded on node x exactly when some
   command of n, preprocessed ALONE from a fresh macro/include state, reaches x. *)
Theorem C08_union :
  forall (fs : fsys) (fuel : nat) (member : path -> bool) (cfg : config),
    fs_wf fs -> accepted_S fs fuel cfg ->
    exists am, find_cb fs fuel member cfg = Ok am /\
      forall n x, In (n, x) am <-> uses_S fs fuel cfg n x.
Proof. exact union_S_cb. Qed.
Print Assumptions C08_union.

(* The same composition inside the model, with NO hypothesis on the files (malformed
   ones included): whenever the full run succeeds, every single-command run
   succeeds and the full map is the union of the single-command maps; and if every
   single-command run succeeds so does the full run.  This is the relation the
   correspondence checks on the implementation (one finder.find per command). *)
Theorem C08_union_singles :
  forall (fs : fsys) (fuel : nat) (cfg : config),
    (forall am, find_M fs fuel cfg = Ok am ->
       (forall n es e, In (n, es) cfg -> In e es -> exists am1, single_M fs fuel n e = Ok am1) /\
       (forall n x, In (n, x) am <-> uses_single_M fs fuel cfg n x)) /\
    ((forall n es e, In (n, es) cfg -> In e es -> exists am1, single_M fs fuel n e = Ok am1) ->
       exists am, find_M fs fuel cfg = Ok am).
Proof. intros fs fuel cfg. split; [apply union_singles|apply singles_total]. Qed.
Print Assumptions C08_union_singles.

(* Selecting platforms (-p) gives the projection of the full result: the selected
   run succeeds whenever the full one does, and records exactly the full run's
   triples of the selected platforms. *)
Theorem C08_projection :
  forall (fs : fsys) (fuel : nat) (member : path -> bool) (keep : pname -> bool) (cfg : config) (am : amap),
    find_cb fs fuel member cfg = Ok am ->
    exists am', find_cb fs fuel member (select keep cfg) = Ok am' /\
      forall n x, In (n, x) am' <-> keep n = true /\ In (n, x) am.
Proof. exact projection_cb. Qed.
Print Assumptions C08_projection.

(* Consequently the platform SET recorded for every node (the key under which get_setmap
   counts its lines) in the selected run is the full run's set restricted to the
   selection: the -p setmap is the full setmap with every key intersected with the selection. *)
Theorem C08_projection_sets :
  forall (fs : fsys) (fuel : nat) (member : path -> bool) (keep : pname -> bool) (cfg : config) (am : amap),
    find_cb fs fuel member cfg = Ok am ->
    exists am', find_cb fs fuel member (select keep cfg) = Ok am' /\
      forall names x, plats_of (filter keep names) am' x = filter keep (plats_of names am x).
Proof.
  intros fs fuel member keep cfg am H. destruct (projection_cb fs fuel member keep cfg am H) as (am' & E & Hin).
  exists am'. split; [exact E|]. apply projection_sets. exact Hin.
Qed.
Print Assumptions C08_projection_sets.

(* Any permutation of the platforms and, inside each platform, of its compile
   commands yields the same attribution relation. *)
Theorem C08_entry_order :
  forall (fs : fsys) (fuel : nat) (member : path -> bool) (cfg cfg' : config) (am : amap),
    reordered cfg cfg' -> find_cb fs fuel member cfg = Ok am ->
    exists am', find_cb fs fuel member cfg' = Ok am' /\ same_map am am'.
Proof. exact entry_order_cb. Qed.
Print Assumptions C08_entry_order.

(* The executable specification the differential run uses is the declarative one. *)
Theorem C08_spec_executable :
  forall (fs : fsys) (fuel : nat) (cfg : config) (l : list triple),
    spec_S fs fuel cfg = Ok l ->
    accepted_S fs fuel cfg /\ forall n x, In (n, x) l <-> uses_S fs fuel cfg n x.
Proof. exact spec_S_char. Qed.
Print Assumptions C08_spec_executable.

(* ---------- the theorems depend on the Platform being created per command ---------- *)
Definition ex_a : entry := {| e_file := ["src"; "a.c"]; e_dirs := []; e_defs := []; e_incs := [] |}.
Definition ex_b : entry := {| e_file := ["src"; "b.c"]; e_dirs := []; e_defs := []; e_incs := [] |}.
Definition ex_fs1 : fsys :=
  [ (["src"; "a.c"], [(0, KPlain (ADefine "X" VE)); (1, KPlain ACode)]);
    (["src"; "b.c"], [(0, KIf (CDefd "X")); (1, KPlain ACode); (2, KEndif)]) ].
Definition ex_t : triple := ("P", (["src"; "b.c"], 1)).

Lemma ex_reordered : reordered [("P", [ex_a; ex_b])] [("P", [ex_b; ex_a])].
Proof.
  exists [("P", [ex_a; ex_b])]. split; [apply Permutation_refl|].
  constructor; [|constructor]. split; [reflexivity|apply perm_swap].
Qed.

(* With the Platform hoisted out of the per-entry loop the result depends on the
   order of the commands (C08_entry_order fails), and differs from the union of
   the single-command runs (C08_union_singles fails): a.c defines X, b.c tests it. *)
Theorem C08_hoisted_refuted :
  exists (fs : fsys) (fuel : nat) (cfg cfg' : config) (a a' b : amap),
    reordered cfg cfg' /\
    find_hoisted fs fuel cfg = Ok a /\ find_hoisted fs fuel cfg' = Ok a' /\ ~ same_map a a' /\
    find_M fs fuel cfg = Ok b /\ ~ same_map a b.
Proof.
  exists ex_fs1, 5, [("P", [ex_a; ex_b])], [("P", [ex_b; ex_a])].
  eexists. eexists. eexists. split; [exact ex_reordered|].
  split; [vm_compute; reflexivity|]. split; [vm_compute; reflexivity|].
  assert (Hin : In ex_t [("P", (["src"; "a.c"], 0)); ("P", (["src"; "a.c"], 1)); ("P", (["src"; "b.c"], 0)); ex_t; ("P", (["src"; "b.c"], 2))])
    by (cbn; auto 6).
  split; [|split; [vm_compute; reflexivity|]].
  - intros H. apply H in Hin. apply mem_triple_In in Hin. vm_compute in Hin. discriminate.
  - intros H. apply H in Hin. apply mem_triple_In in Hin. vm_compute in Hin. discriminate.
Qed.
Print Assumptions C08_hoisted_refuted.

(* Keeping only found_incl and _skip_includes across commands is already enough:
   both commands include the #pragma once header h.h that defines X. *)
Definition ex_fs2 : fsys :=
  [ (["src"; "a.c"], [(0, KPlain (AInclude 0 (IQuote ["h.h"])))]);
    (["src"; "b.c"], [(0, KPlain (AInclude 0 (IQuote ["h.h"]))); (1, KIf (CDefd "X")); (2, KPlain ACode); (3, KEndif)]);
    (["src"; "h.h"], [(0, KPlain AOnce); (1, KPlain (ADefine "X" VE))]) ].
Theorem C08_cached_refuted :
  exists (fs : fsys) (fuel : nat) (cfg cfg' : config) (a a' : amap),
    reordered cfg cfg' /\
    find_cached fs fuel cfg = Ok a /\ find_cached fs fuel cfg' = Ok a' /\ ~ same_map a a'.
Proof.
  exists ex_fs2, 5, [("P", [ex_a; ex_b])], [("P", [ex_b; ex_a])].
  eexists. eexists. split; [exact ex_reordered|].
  split; [vm_compute; reflexivity|]. split; [vm_compute; reflexivity|].
  intros H. assert (Hin : mem_triple ("P", (["src"; "b.c"], 2)) [("P", (["src"; "b.c"], 0)); ("P", (["src"; "h.h"], 0)); ("P", (["src"; "h.h"], 1)); ("P", (["src"; "b.c"], 1));
      ("P", (["src"; "b.c"], 2)); ("P", (["src"; "b.c"], 3)); ("P", (["src"; "a.c"], 0))] = true) by (vm_compute; reflexivity).
  apply mem_triple_In in Hin. apply H in Hin. apply mem_triple_In in Hin. vm_compute in Hin. discriminate.
Qed.
Print Assumptions C08_cached_refuted.

(* A prefix-header cache (state snapshot taken after the forced includes, shallow copy shared by
   the later commands with the same options): both commands use -include config.h with
   identical options; a.c defines T after the prefix, b.c tests it. *)
Definition ex_ia : entry := {| e_file := ["src"; "a.c"]; e_dirs := []; e_defs := []; e_incs := [["config.h"]] |}.
Definition ex_ib : entry := {| e_file := ["src"; "b.c"]; e_dirs := []; e_defs := []; e_incs := [["config.h"]] |}.
Definition ex_fs3 : fsys :=
  [ (["src"; "a.c"], [(0, KPlain (ADefine "T" VE)); (1, KPlain ACode)]);
    (["src"; "b.c"], [(0, KIf (CDefd "T")); (1, KPlain ACode); (2, KEndif)]);
    (["src"; "config.h"], [(0, KPlain AOnce); (1, KPlain (ADefine "HAVE_CONFIG" (VI 1)))]) ].
Theorem C08_prefix_refuted :
  exists (fs : fsys) (fuel : nat) (cfg cfg' : config) (a a' b : amap),
    reordered cfg cfg' /\
    find_prefix fs fuel cfg = Ok a /\ find_prefix fs fuel cfg' = Ok a' /\ ~ same_map a a' /\
    find_M fs fuel cfg = Ok b /\ ~ same_map a b.
Proof.
  exists ex_fs3, 5, [("P", [ex_ia; ex_ib])], [("P", [ex_ib; ex_ia])].
  eexists. eexists. eexists.
  split; [exists [("P", [ex_ia; ex_ib])]; split; [apply Permutation_refl|];
          constructor; [|constructor]; split; [reflexivity|apply perm_swap]|].
  split; [vm_compute; reflexivity|]. split; [vm_compute; reflexivity|].
  assert (Hm : forall l, mem_triple ex_t l = false -> ~ In ex_t l).
  { intros l E H. apply mem_triple_In in H. congruence. }
  split; [|split; [vm_compute; reflexivity|]].
  - intros H. refine (Hm _ _ (proj1 (H ex_t) _)); [vm_compute; reflexivity|].
    apply mem_triple_In. vm_compute. reflexivity.
  - intros H. refine (Hm _ _ (proj1 (H ex_t) _)); [vm_compute; reflexivity|].
    apply mem_triple_In. vm_compute. reflexivity.
Qed.
Print Assumptions C08_prefix_refuted.

(* "A file that is one node already recorded for this platform need not be walked again":
   both commands use -include f.h, and f.h is the single line #define X; the second command's
   fresh Platform never sees X. *)
Definition ex_ka : entry := {| e_file := ["src"; "a.c"]; e_dirs := []; e_defs := []; e_incs := [["f.h"]] |}.
Definition ex_kb : entry := {| e_file := ["src"; "b.c"]; e_dirs := []; e_defs := []; e_incs := [["f.h"]] |}.
Definition ex_fs4 : fsys :=
  [ (["src"; "a.c"], [(0, KPlain ACode); (1, KPlain AOther)]);
    (["src"; "b.c"], [(0, KIf (CDefd "X")); (1, KPlain ACode); (2, KEndif)]);
    (["src"; "f.h"], [(0, KPlain (ADefine "X" VE))]) ].
Theorem C08_skip_recorded_refuted :
  exists (fs : fsys) (fuel : nat) (cfg cfg' : config) (a a' b : amap),
    reordered cfg cfg' /\
    find_skipping_recorded fs fuel cfg = Ok a /\ find_skipping_recorded fs fuel cfg' = Ok a' /\ ~ same_map a a' /\
    find_M fs fuel cfg = Ok b /\ ~ same_map a b.
Proof.
  exists ex_fs4, 5, [("P", [ex_ka; ex_kb])], [("P", [ex_kb; ex_ka])].
  eexists. eexists. eexists.
  split; [exists [("P", [ex_ka; ex_kb])]; split; [apply Permutation_refl|];
          constructor; [|constructor]; split; [reflexivity|apply perm_swap]|].
  split; [vm_compute; reflexivity|]. split; [vm_compute; reflexivity|].
  assert (Hm : forall l, mem_triple ex_t l = false -> ~ In ex_t l).
  { intros l E H. apply mem_triple_In in H. congruence. }
  split; [|split; [vm_compute; reflexivity|]].
  - intros H. refine (Hm _ _ (proj2 (H ex_t) _)); [vm_compute; reflexivity|].
    apply mem_triple_In. vm_compute. reflexivity.
  - intros H. refine (Hm _ _ (proj2 (H ex_t) _)); [vm_compute; reflexivity|].
    apply mem_triple_In. vm_compute. reflexivity.
Qed.
Print Assumptions C08_skip_recorded_refuted.

(* non-vacuity: two platforms, three commands sharing a guarded header that defines
   what the other file tests; every command is accepted by the reference
   preprocessor; P uses b.c's conditional code only through its own -D *)
Definition C08_example_fs : fsys :=
  [ (["src"; "a.c"], [(0, KPlain (AInclude 0 (IQuote ["h.h"]))); (1, KIf (CDefd "X")); (2, KPlain ACode); (3, KEndif)]);
    (["src"; "b.c"], [(0, KIf (CDefd "X")); (1, KPlain ACode); (2, KElse); (3, KPlain ACode); (4, KEndif)]);
    (["src"; "h.h"], [(0, KIf (CNDefd "G")); (1, KPlain (ADefine "G" VE)); (2, KPlain (ADefine "X" VE)); (3, KEndif)]) ].
Definition C08_example_cfg : config :=
  [ ("P", [ex_a; ex_b]);
    ("Q", [{| e_file := ["src"; "b.c"]; e_dirs := []; e_defs := [("X", VI 1)]; e_incs := [] |}]) ].
Example C08_nonvacuous :
  (match find_cb C08_example_fs 5 (fun _ => true) C08_example_cfg with
   | Ok am => (List.length am, mem_triple ("P", (["src"; "b.c"], 3)) am, mem_triple ("P", (["src"; "b.c"], 1)) am) | Err _ => (0, false, false) end,
   match spec_S C08_example_fs 5 C08_example_cfg with Ok l => List.length l | Err _ => 0 end,
   match find_hoisted C08_example_fs 5 C08_example_cfg with
   | Ok am => (List.length am, mem_triple ("P", (["src"; "b.c"], 3)) am, mem_triple ("P", (["src"; "b.c"], 1)) am) | Err _ => (0, false, false) end)
  = ((16, true, false), 16, (16, false, true)).
Proof. vm_compute. reflexivity. Qed.
