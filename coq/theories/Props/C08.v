(* C08 — placeholder, replaced below *)
From Coq Require Import List.
From CBI Require Import Model.C08 Spec.C08.
