(* C15 — each physical file is parsed and counted once, however it is reached.
   Only statements, each closed by [exact], with its assumptions printed. *)
From Coq Require Import Bool Arith ZArith String Permutation List.
From CBI Require Import Lib.Res Model.C01 Spec.C01 Model.C04 Model.C15fs Model.C15 Model.C15i
     Spec.C04 Spec.C15 Proofs.C15fs Proofs.C15enum Proofs.C15 Proofs.C15i Proofs.C15w Proofs.C15full Proofs.C15spec Proofs.C15setmap Proofs.C15rev.
Import ListNotations.
Local Open Scope string_scope.
Local Open Scope list_scope.

(* realpath (any tree with links, any link-nesting bound): a successful answer is a
   real path (no ".", "..", "" and no component that lstat() finds to be a link),
   a real path is its own realpath for EVERY bound, hence realpath is idempotent;
   more fuel never changes a successful answer. *)
Theorem C15_realpath_idempotent :
  forall (root : fnode) (f f' : nat) (p q : path),
    realpath root f p = Ok q ->
    is_real root q = true /\ realpath root f' q = Ok q /\ (f <= f' -> realpath root f' p = Ok q).
Proof.
  intros root f f' p q H. split; [eapply realpath_is_real; exact H|].
  split; [eapply realpath_idempotent; exact H|]. intros Hle. eapply realpath_mono; eauto.
Qed.
Print Assumptions C15_realpath_idempotent.

(* ParserState: after ANY history of insert_file / get_tree calls with any spellings
   (the _path_cache filling up as it goes), two spellings with the same realpath
   are answered with the same tree. *)
Theorem C15_same_file_same_tree :
  forall (rp : path -> path) (TREE : Type) (parse : path -> TREE) (ops : list (op)) (fn1 fn2 : path),
    rp fn1 = rp fn2 ->
    let s := fold_left (step rp TREE parse) ops (empty TREE) in
    snd (get_tree rp TREE s fn1) = snd (get_tree rp TREE s fn2).
Proof. exact same_file_same_tree. Qed.
Print Assumptions C15_same_file_same_tree.

(* ... and the second spelling of a file that was just inserted parses nothing new *)
Theorem C15_parsed_once :
  forall (rp : path -> path) (TREE : Type) (parse : path -> TREE) (ops : list op) (fn1 fn2 : path),
    rp fn1 = rp fn2 ->
    let s0 := fold_left (step rp TREE parse) ops (empty TREE) in
    let s := insert_file rp TREE parse s0 fn1 in
    trees (insert_file rp TREE parse s fn2) = trees s.
Proof. exact parsed_once. Qed.
Print Assumptions C15_parsed_once.

(* The analysis does not depend on the spelling of entries and -I options: for EVERY tree
   with links, EVERY table of structured files, EVERY include depth and EVERY two
   configurations that pairwise name the same platform, source files with the same
   realpath, -I directories with the same realpath, the same -D and -include lists:
   finder.find yields the same (platform, real file, node) marks. *)
Theorem C15_alias_invariant :
  forall (root : fnode) (tab : ctable) (fuel : nat) (members : list path) (c1 c2 : list (nat * entry)) (ms : list mark),
    tab_structured tab -> alias_cfg root c1 c2 ->
    find_A (rp_i root) (getf_i root tab) fuel members c1 = Ok ms ->
    find_A (rp_i root) (getf_i root tab) fuel members c2 = Ok ms.
Proof. exact find_alias_i. Qed.
Print Assumptions C15_alias_invariant.

(* The cache may be keyed by the spelling ONLY.  Remembering an answer also under the
   lexically normalised spelling (os.path.normpath) is refuted: with links/sub -> ../src/deep,
   the spelling links/sub/../a.c denotes src/a.c, its textual collapse links/a.c is another
   file, and a later look-up of links/a.c is answered with src/a.c. *)
Theorem C15_normpath_cache_refuted :
  exists (root : fnode) (p : path),
    let s1 := fst (get_realpath_np (rp_i root) unit norm (empty unit) p) in
    snd (get_realpath_np (rp_i root) unit norm s1 (norm p)) <> rp_i root (norm p) /\
    snd (get_realpath (rp_i root) unit (fst (get_realpath (rp_i root) unit (empty unit) p)) (norm p)) = rp_i root (norm p).
Proof.
  exists (Dir [("src", Dir [("a.c", File "a"); ("deep", Dir [])]);
               ("links", Dir [("a.c", File "other"); ("sub", Link false [".."; "src"; "deep"])])]),
         ["links"; "sub"; ".."; "a.c"].
  vm_compute. split; [discriminate|reflexivity].
Qed.
Print Assumptions C15_normpath_cache_refuted.

(* A path enumerated below a resolved directory that is not itself a link is its own
   realpath (for every bound). *)
Theorem C15_enumerated_real :
  forall (root : fnode) (d p : path) (f : nat),
    wf root -> is_real root d = true -> In p (rglob root d) -> nolink (node_at root p) = true ->
    realpath root f p = Ok p.
Proof. intros root d p f Hwf Hd Hin Hnl. apply realpath_of_real. eapply rglob_real; eauto. Qed.
Print Assumptions C15_enumerated_real.

(* The files get_setmap counts are exactly, and in the same order, the members of the
   same tree WITH EVERY LINK REMOVED. *)
Theorem C15_counted_is_linkfree_enumeration :
  forall (root : fnode) (is_src : string -> bool) (F : nat), wf root ->
  forall (dirs : list path), Forall (fun d => is_real root d = true) dirs ->
    counted root is_src F dirs = iter (remove_links root) is_src F dirs.
Proof. exact counted_rl. Qed.
Print Assumptions C15_counted_is_linkfree_enumeration.

(* The spelling of the names written in #include directives, -include options and
   macro bodies used by computed includes does not matter either: two content tables
   whose files agree up to [name_equiv] names (names that yield the same regular file,
   or none, from every directory of D) and two configurations that agree up to
   spellings of source files (same realpath), -I directories (same realpath as a
   member of D) and such names yield the same marks.  D is any set of directories that
   contains the directory of every regular file; [alldirs root] is one. *)
Theorem C15_include_names_invariant :
  forall (root : fnode) (tab1 tab2 : ctable) (D : list path),
    tab_rel root tab1 tab2 D ->
    (forall q, isfile_A (getf_i root tab1) q = true -> In (dirname (rp_i root q)) D) ->
  forall (fuel : nat) (members : list path) (c1 c2 : list (nat * entry)) (ms : list mark),
    tab_structured tab1 -> tab_structured tab2 -> alias_cfg2 root tab1 D c1 c2 ->
    Forall (fun fn => In (dirname (rp_i root fn)) D) members ->
    find_A (rp_i root) (getf_i root tab1) fuel members c1 = Ok ms ->
    find_A (rp_i root) (getf_i root tab2) fuel members c2 = Ok ms.
Proof. exact find_alias_names. Qed.
Print Assumptions C15_include_names_invariant.

(* ... names that are alias-equivalent exist: "./n" for every n, in every tree *)
Theorem C15_dot_prefix_is_alias :
  forall root tab D n, name_equiv root tab D ("." :: n) n.
Proof. exact name_equiv_dot. Qed.
Print Assumptions C15_dot_prefix_is_alias.

(* ... and a name none of whose components is ".", "..", "" or the name of a link
   anywhere in the tree is link-free (the condition on canonical names below) *)
Theorem C15_linkfree_names :
  forall root n, Forall (fun c => plain c = true /\ ~ In c (link_names root)) n -> linkfree_name root n.
Proof. exact linkfree_of_names. Qed.
Print Assumptions C15_linkfree_names.

(* Analysed inside the tree WITH EVERY LINK REMOVED, a canonical configuration (real
   source files and -I directories, link-free names everywhere) yields the same marks. *)
Theorem C15_linkfree_tree_same_analysis :
  forall (root : fnode) (tab : ctable), wf root -> tab_names_ok root tab ->
  forall (is_src : string -> bool) (F fuel : nat) (dirs : list path) (c : list (nat * entry)) (ms : list mark),
    tab_structured tab -> canon_cfg root c -> Forall (fun d => is_real root d = true) dirs ->
    find_A (rp_i root) (getf_i root tab) fuel (iter root is_src F dirs) c = Ok ms ->
    find_A (rp_i (remove_links root)) (getf_i (remove_links root) tab) fuel (iter (remove_links root) is_src F dirs) c = Ok ms.
Proof. exact find_linkfree. Qed.
Print Assumptions C15_linkfree_tree_same_analysis.

(* COUNTED ONCE.  The aliased code base (tree with links, contents tab_a, configuration
   c_a) and the canonical code base with the links removed (tree remove_links root,
   contents tab_c, configuration c_c) - related by: same files up to alias-equivalent
   include names and equal line counts; entries pairwise the same platform, source files
   with the same realpath, -I directories with the same realpath, alias-equivalent -D
   path values and -include names; canonical names link-free, canonical files and
   directories real - yield the same marks and the same setmap. *)
Theorem C15_counted_once :
  forall (root : fnode) (tab_a tab_c : ctable) (is_src : string -> bool)
         (fuel nplat : nat) (dirs : list path) (c_a c_c : list (nat * entry)) (ms : list mark),
    wf root -> Forall (fun d => is_real root d = true) dirs ->
    tab_structured tab_a -> tab_structured tab_c ->
    tab_rel root tab_a tab_c (alldirs root) -> alias_cfg2 root tab_a (alldirs root) c_a c_c ->
    tab_names_ok root tab_c -> canon_cfg root c_c ->
    find_A (rp_i root) (getf_i root tab_a) fuel (iter root is_src link_fuel dirs) c_a = Ok ms ->
    find_A (rp_i (remove_links root)) (getf_i (remove_links root) tab_c) fuel
           (iter (remove_links root) is_src link_fuel dirs) c_c = Ok ms /\
    setmap (rp_i root) (shape_i root tab_a) nplat ms (counted root is_src link_fuel dirs) =
    setmap (rp_i (remove_links root)) (shape_i (remove_links root) tab_c) nplat ms
           (iter (remove_links root) is_src link_fuel dirs).
Proof. exact counted_once_full. Qed.
Print Assumptions C15_counted_once.

(* ATTRIBUTION = REFERENCE.  The marks finder.find records for the aliased code base are
   the marks the reference preprocessor of Spec/C04.v (textual inclusion, un-memoised
   first-match search over exact paths; this is the S the correspondence compares with)
   records for the canonical configuration on the plain list [cfs] of the tree's
   regular files (exactly those, under their real paths) - whenever that reference
   accepts the configuration.  The reference world is the one without links, where
   realpath is lexical normalisation (Model/C04.v [norm] = os.path.abspath): the C15
   model instantiated with rp := norm is shown to be the C04 model. *)
Theorem C15_attribution_is_reference :
  forall (root : fnode) (tab_a tab_c : ctable) (cfs : fsys)
         (fuel : nat) (members : list path) (c_a c_c : list (nat * entry)) (ms msS : list mark),
    wf root ->
    tab_structured tab_a -> tab_structured tab_c -> fs_structured cfs ->
    tab_rel root tab_a tab_c (alldirs root) -> alias_cfg2 root tab_a (alldirs root) c_a c_c ->
    tab_names_ok root tab_c -> canon_cfg root c_c ->
    (forall p, is_real root p = true -> fs_get cfs p = getf_i root tab_c p) ->
    (forall p ls, fs_get cfs p = Some ls -> is_real root p = true) ->
    Forall (fun fn => In (dirname (rp_i root fn)) (alldirs root)) members ->
    find_A (rp_i root) (getf_i root tab_a) fuel members c_a = Ok ms ->
    analyse_S cfs fuel c_c = Ok msS ->
    ms = msS.
Proof. exact attribution_is_reference. Qed.
Print Assumptions C15_attribution_is_reference.

(* ... and such a list exists for every well-formed tree whose root is a directory *)
Theorem C15_file_list_exists :
  forall (root : fnode) (tab : ctable), wf root -> getf_i root tab [] = None ->
    (forall p, fs_get (fsys_of root tab) p = getf_i root tab p) /\
    (forall p ls, fs_get (fsys_of root tab) p = Some ls -> is_real root p = true) /\
    (tab_structured tab -> fs_structured (fsys_of root tab)).
Proof.
  intros root tab Hwf Hr. split; [apply fs_get_fsys_of; assumption|].
  split; [apply fsys_of_real; exact Hwf|apply fsys_of_structured].
Qed.
Print Assumptions C15_file_list_exists.

(* Links add nothing: two trees that differ only in their links count the same files. *)
Theorem C15_link_adds_nothing :
  forall (root1 root2 : fnode) (is_src : string -> bool) (F : nat) (dirs : list path),
    wf root1 -> wf root2 -> remove_links root1 = remove_links root2 ->
    Forall (fun d => is_real root1 d = true) dirs -> Forall (fun d => is_real root2 d = true) dirs ->
    counted root1 is_src F dirs = counted root2 is_src F dirs.
Proof.
  intros r1 r2 is_src F dirs W1 W2 E D1 D2.
  rewrite (counted_rl r1 is_src F W1 dirs D1), (counted_rl r2 is_src F W2 dirs D2), E. reflexivity.
Qed.
Print Assumptions C15_link_adds_nothing.

(* ... in particular creating a link (to anything, anywhere) changes no total *)
Theorem C15_new_link_adds_nothing :
  forall (root : fnode) (loc : path) (nm : string) (ab : bool) (tgt : path)
         (is_src : string -> bool) (F : nat) (dirs : list path),
    let root2 := add_node root loc nm (Link ab tgt) in
    wf root -> wf root2 ->
    Forall (fun d => is_real root d = true) dirs -> Forall (fun d => is_real root2 d = true) dirs ->
    counted root2 is_src F dirs = counted root is_src F dirs.
Proof.
  intros root loc nm ab tgt is_src F dirs root2 W1 W2 D1 D2.
  rewrite (counted_rl root is_src F W1 dirs D1), (counted_rl root2 is_src F W2 dirs D2).
  unfold root2. rewrite add_link_rl. reflexivity.
Qed.
Print Assumptions C15_new_link_adds_nothing.

(* Counted once: with one code-base directory (what the command-line tools construct)
   no path is counted twice and every counted path is its own realpath, so no physical
   file is counted twice. *)
Theorem C15_enumerated_once :
  forall (root : fnode) (is_src : string -> bool) (F : nat) (d : path),
    wf root -> is_real root d = true ->
    NoDup (counted root is_src F [d]) /\
    (forall p, In p (counted root is_src F [d]) -> forall f, realpath root f p = Ok p).
Proof.
  intros root is_src F d Hwf Hd. split; [apply counted_NoDup; exact Hwf|].
  intros p Hin. apply (counted_real root is_src F [d] p Hwf); [constructor; [exact Hd|constructor]|exact Hin].
Qed.
Print Assumptions C15_enumerated_once.

(* ... but NOT with several directories that overlap (CodeBase(d, alias_of_d) or a
   directory and one of its sub-directories): every file is then enumerated, and
   counted, once per directory.  Known finding "overlapping-roots". *)
Theorem C15_overlapping_dirs_refuted :
  exists (root : fnode) (is_src : string -> bool) (dirs : list path),
    wf root /\ Forall (fun d => is_real root d = true) dirs /\
    ~ NoDup (counted root is_src 40 dirs).
Proof.
  exists (Dir [("a.c", File "a")]), (fun _ => true), [[]; []].
  split; [constructor; [repeat constructor; cbn; tauto|repeat constructor]|].
  split; [repeat constructor|]. vm_compute. intros H. inversion H as [|x l Hn _]; subst. apply Hn. left. reflexivity.
Qed.
Print Assumptions C15_overlapping_dirs_refuted.

(* Membership is decided on the resolved path: a member's realpath is a regular file
   below one of the code-base directories; so a link whose target lies outside every
   directory is not a member, wherever the link itself is. *)
Theorem C15_outside_target_not_member :
  forall (root : fnode) (is_src : string -> bool) (F : nat) (dirs : list path) (p : path),
    contains root is_src F dirs p = true ->
    exists r d, realpath root F p = Ok r /\ is_file_node (node_at root r) = true /\
                In d dirs /\ is_prefix d r = true.
Proof.
  intros root is_src F dirs p. unfold contains. destruct (realpath root F p) as [r|e]; [|discriminate].
  intros H. apply andb_true_iff in H. destruct H as [H H3]. apply andb_true_iff in H. destruct H as [H1 _].
  apply existsb_exists in H3. destruct H3 as (d & Hd & Hp). exists r, d. auto.
Qed.
Print Assumptions C15_outside_target_not_member.

(* What the association list built by get_setmap denotes: the number of lines it gives to
   a platform set is the sum, over the counted files and their nodes, of the lines of the
   nodes whose platform set is that set - whatever the order of the files. *)
Theorem C15_setmap_denotes :
  forall rp shape nplat ms files key,
    sm_get key (setmap rp shape nplat ms files) = count rp shape nplat ms files key /\
    (forall files', Permutation files files' ->
       sm_get key (setmap rp shape nplat ms files) = sm_get key (setmap rp shape nplat ms files')).
Proof.
  intros. split; [apply setmap_get|]. intros files' Hp. rewrite !setmap_get. apply count_perm. exact Hp.
Qed.
Print Assumptions C15_setmap_denotes.

(* SETMAP EQUAL.  The setmap of the aliased code base (tree with links, aliased contents and
   configuration; files enumerated by CodeBase.__iter__, links skipped, each looked up by
   realpath) and the setmap of the specification (Spec/C15.v: every member of the plain list
   of regular files once, marks of the Spec/C04 reference preprocessor on the canonical
   configuration) give the same number of lines to every platform set; the marks are equal.
   The code-base directories are existing directories, pairwise disjoint (overlapping
   directories are the known finding). *)
Theorem C15_setmap_equal :
  forall (root : fnode) (tab_a tab_c : ctable) (cfs : fsys) (is_src : string -> bool)
         (fuel nplat : nat) (dirs : list path) (c_a c_c : list (nat * entry)) (ms msS : list mark),
    wf root ->
    Forall (fun d => is_real root d = true /\ exists kids, node_at root d = Some (Dir kids)) dirs ->
    ForallOrdPairs disjoint_dirs dirs ->
    tab_structured tab_a -> tab_structured tab_c -> fs_structured cfs ->
    tab_rel root tab_a tab_c (alldirs root) -> alias_cfg2 root tab_a (alldirs root) c_a c_c ->
    tab_names_ok root tab_c -> canon_cfg root c_c ->
    NoDup (map fst cfs) ->
    (forall p, is_real root p = true -> fs_get cfs p = getf_i root tab_c p) ->
    (forall p ls, fs_get cfs p = Some ls -> is_real root p = true) ->
    Forall (fun p => match node_at root p with Some (File k) => clookup k tab_c <> None | _ => True end) (walk root []) ->
    find_A (rp_i root) (getf_i root tab_a) fuel (iter root is_src link_fuel dirs) c_a = Ok ms ->
    analyse_S cfs fuel c_c = Ok msS ->
    ms = msS /\
    forall key,
      sm_get key (setmap (rp_i root) (shape_i root tab_a) nplat ms (counted root is_src link_fuel dirs)) =
      sm_get key (setmap_S cfs is_src dirs (shape_i root tab_c) nplat msS).
Proof. exact setmap_equal. Qed.
Print Assumptions C15_setmap_equal.

(* Several code-base directories, pairwise disjoint (neither a prefix of the other): no path
   is counted twice and every counted path is its own realpath. *)
Theorem C15_enumerated_once_disjoint :
  forall (root : fnode) (is_src : string -> bool) (F : nat) (dirs : list path),
    wf root -> Forall (fun d => is_real root d = true) dirs -> ForallOrdPairs disjoint_dirs dirs ->
    NoDup (counted root is_src F dirs) /\
    (forall p, In p (counted root is_src F dirs) -> forall f, realpath root f p = Ok p).
Proof.
  intros root is_src F dirs Hwf Hd Hp. split; [apply counted_NoDup_disjoint; assumption|].
  intros p Hin. apply (counted_real root is_src F dirs p Hwf Hd Hin).
Qed.
Print Assumptions C15_enumerated_once_disjoint.

(* THE OTHER DIRECTION.  Whenever the reference preprocessor accepts the canonical
   configuration, the analysis of the aliased code base succeeds, with the reference's marks:
   every failure of the model is a failure of the reference.  (The converse is false by
   design of CBI: a macro redefined with a different body is diagnosed by the reference,
   ISO C 6.10.3p2, whereas Platform.define keeps the first definition and goes on.) *)
Theorem C15_reference_accepts_model_succeeds :
  forall (root : fnode) (tab_a tab_c : ctable) (cfs : fsys)
         (fuel : nat) (c_a c_c : list (nat * entry)) (msS : list mark),
    wf root ->
    tab_structured tab_a -> tab_structured tab_c -> fs_structured cfs ->
    tab_rel root tab_a tab_c (alldirs root) -> alias_cfg2 root tab_a (alldirs root) c_a c_c ->
    tab_names_ok root tab_c -> canon_cfg root c_c ->
    (forall p, is_real root p = true -> fs_get cfs p = getf_i root tab_c p) ->
    (forall p ls, fs_get cfs p = Some ls -> is_real root p = true) ->
    analyse_S cfs fuel c_c = Ok msS ->
    analyse (rp_i root) (getf_i root tab_a) fuel c_a = Ok msS.
Proof. exact reference_accepts_model_succeeds. Qed.
Print Assumptions C15_reference_accepts_model_succeeds.

(* ---------- non-vacuity ---------- *)
(* cb/{src/{a.c, la.c -> a.c}, inc/h.h, li -> inc, lx.c -> /ext/x.c}, ext/x.c ; a.c includes <h.h> twice, h.h has #pragma once *)
Definition C15_ex_root : fnode :=
  Dir [("cb", Dir [("src", Dir [("a.c", File "a"); ("la.c", Link false ["a.c"])]);
                   ("inc", Dir [("h.h", File "h")]);
                   ("li", Link false ["inc"]);
                   ("lx.c", Link true ["ext"; "x.c"])]);
       ("ext", Dir [("x.c", File "x")])].
Definition C15_ex_tab : ctable :=
  [("a", ([(0, KPlain (AInclude 0 (IAngle ["h.h"]))); (1, KPlain (AInclude 1 (IAngle ["h.h"]))); (2, KPlain ACode)], [1; 1; 2]));
   ("h", ([(0, KPlain AOnce); (1, KIf (CDefd "X")); (2, KPlain ACode); (3, KElse); (4, KPlain (ADefine "X" VE)); (5, KEndif)], [1; 1; 1; 1; 1; 1]));
   ("x", ([(0, KPlain ACode)], [1]))].
Definition C15_ex_src (n : string) : bool := existsb (String.eqb n) ["a.c"; "la.c"; "h.h"; "x.c"; "lx.c"].
Definition C15_ex_alias : list (nat * entry) :=
  [(0, {| e_file := ["cb"; "li"; ".."; "src"; "la.c"]; e_dirs := [["cb"; "src"; ".."; "li"; "."]]; e_defs := []; e_incs := [] |})].
Definition C15_ex_canon : list (nat * entry) :=
  [(0, {| e_file := ["cb"; "src"; "a.c"]; e_dirs := [["cb"; "inc"]]; e_defs := []; e_incs := [] |})].

Example C15_nonvacuous :
  realpath C15_ex_root 3 ["cb"; "li"; ".."; "src"; "la.c"] = Ok ["cb"; "src"; "a.c"] /\
  is_real C15_ex_root ["cb"] = true /\
  iter C15_ex_root C15_ex_src link_fuel [["cb"]] = [["cb"; "src"; "a.c"]; ["cb"; "src"; "la.c"]; ["cb"; "inc"; "h.h"]] /\
  counted C15_ex_root C15_ex_src link_fuel [["cb"]] = [["cb"; "src"; "a.c"]; ["cb"; "inc"; "h.h"]] /\
  contains C15_ex_root C15_ex_src link_fuel [["cb"]] ["cb"; "lx.c"] = false /\
  (let mem := iter C15_ex_root C15_ex_src link_fuel [["cb"]] in
   match find_A (rp_i C15_ex_root) (getf_i C15_ex_root C15_ex_tab) 5 mem C15_ex_alias,
         find_A (rp_i C15_ex_root) (getf_i C15_ex_root C15_ex_tab) 5 mem C15_ex_canon with
   | Ok ms, Ok ms' =>
       ms = ms' /\ List.length ms = 8 /\
       setmap (rp_i C15_ex_root) (shape_i C15_ex_root C15_ex_tab) 1 ms (counted C15_ex_root C15_ex_src link_fuel [["cb"]])
       = [([0], 9); ([], 1)]
   | _, _ => False
   end).
Proof.
  do 5 (split; [vm_compute; reflexivity|]). vm_compute. repeat split.
Qed.

(* ---------- non-vacuity of C15_counted_once: every hypothesis is met by a concrete instance ---------- *)
(* cb/{src/{a.c, la.c -> a.c}, inc/{h.h, lh.h -> h.h}, li -> inc, lx.c -> /ext/x.c}, ext/x.c
   aliased:   entry cb/li/../src/la.c  -I cb/src/../li/.   a.c: #include <lh.h>, #include <./h.h>, code
   canonical: entry cb/src/a.c         -I cb/inc           a.c: #include <h.h>,  #include <h.h>,   code *)
Definition C15_ex2_root : fnode :=
  Dir [("cb", Dir [("src", Dir [("a.c", File "a"); ("la.c", Link false ["a.c"])]);
                   ("inc", Dir [("h.h", File "h"); ("lh.h", Link false ["h.h"])]);
                   ("li", Link false ["inc"]);
                   ("lx.c", Link true ["ext"; "x.c"])]);
       ("ext", Dir [("x.c", File "x")])].
Definition C15_ex2_h : list (item act cond) :=
  [IPlain 0 AOnce; IChain 1 (CDefd "X") [IPlain 2 ACode] [(3, HElse, [IPlain 4 (ADefine "X" VE)])] 5].
Definition C15_ex2_a_alias : list (item act cond) :=
  [IPlain 0 (AInclude 0 (IAngle ["lh.h"])); IPlain 1 (AInclude 1 (IAngle ["."; "h.h"])); IPlain 2 ACode].
Definition C15_ex2_a_canon : list (item act cond) :=
  [IPlain 0 (AInclude 0 (IAngle ["h.h"])); IPlain 1 (AInclude 1 (IAngle ["h.h"])); IPlain 2 ACode].
Definition C15_ex2_tab_a : ctable :=
  [("a", (flats act cond C15_ex2_a_alias, [1; 1; 2])); ("h", (flats act cond C15_ex2_h, [1; 1; 1; 1; 1; 1])); ("x", (flats act cond [IPlain 0 ACode], [1]))].
Definition C15_ex2_tab_c : ctable :=
  [("a", (flats act cond C15_ex2_a_canon, [1; 1; 2])); ("h", (flats act cond C15_ex2_h, [1; 1; 1; 1; 1; 1])); ("x", (flats act cond [IPlain 0 ACode], [1]))].

Lemma C15_ex2_structured_a : tab_structured C15_ex2_tab_a.
Proof.
  intros k ls ws. unfold C15_ex2_tab_a. cbn [clookup].
  destruct (String.eqb k "a"); [intros H; inversion H; exists C15_ex2_a_alias; reflexivity|].
  destruct (String.eqb k "h"); [intros H; inversion H; exists C15_ex2_h; reflexivity|].
  destruct (String.eqb k "x"); [intros H; inversion H; exists [IPlain 0 ACode]; reflexivity|discriminate].
Qed.
Lemma C15_ex2_structured_c : tab_structured C15_ex2_tab_c.
Proof.
  intros k ls ws. unfold C15_ex2_tab_c. cbn [clookup].
  destruct (String.eqb k "a"); [intros H; inversion H; exists C15_ex2_a_canon; reflexivity|].
  destruct (String.eqb k "h"); [intros H; inversion H; exists C15_ex2_h; reflexivity|].
  destruct (String.eqb k "x"); [intros H; inversion H; exists [IPlain 0 ACode]; reflexivity|discriminate].
Qed.

Lemma C15_ex2_wf : wf C15_ex2_root.
Proof.
  unfold C15_ex2_root.
  repeat first [ apply wf_file | apply wf_link
               | apply wf_dir; [cbn; repeat (constructor; [cbn; intuition discriminate|]); constructor|]
               | apply Forall_nil | apply Forall_cons; [split; [reflexivity|]|] ].
Qed.

Lemma C15_ex2_lh : name_equiv C15_ex2_root C15_ex2_tab_a (alldirs C15_ex2_root) ["lh.h"] ["h.h"].
Proof.
  intros d Hin. vm_compute in Hin.
  repeat (destruct Hin as [<-|Hin]; [vm_compute; reflexivity|]). contradiction.
Qed.

Lemma C15_ex2_tab_rel : tab_rel C15_ex2_root C15_ex2_tab_a C15_ex2_tab_c (alldirs C15_ex2_root).
Proof.
  intros k. unfold C15_ex2_tab_a, C15_ex2_tab_c. cbn [clookup].
  destruct (String.eqb k "a").
  { split; [|reflexivity]. cbn.
    constructor; [split; [reflexivity|]; cbn; constructor; constructor; exact C15_ex2_lh|].
    constructor; [split; [reflexivity|]; cbn; constructor; constructor; apply name_equiv_dot|].
    constructor; [split; [reflexivity|]; cbn; constructor|constructor]. }
  destruct (String.eqb k "h").
  { split; [|reflexivity]. cbn.
    repeat (constructor; [split; [reflexivity|]; cbn; try exact I; try reflexivity; repeat constructor|]). constructor. }
  destruct (String.eqb k "x"); [|exact I].
  split; [|reflexivity]. cbn. repeat constructor.
Qed.

Definition C15_ex2_alias_cfg : list (nat * entry) :=
  [(0, {| e_file := ["cb"; "li"; ".."; "src"; "la.c"]; e_dirs := [["cb"; "src"; ".."; "li"; "."]]; e_defs := []; e_incs := [] |})].
Definition C15_ex2_canon_cfg : list (nat * entry) :=
  [(0, {| e_file := ["cb"; "src"; "a.c"]; e_dirs := [["cb"; "inc"]]; e_defs := []; e_incs := [] |})].

Lemma C15_ex2_alias_cfg2 : alias_cfg2 C15_ex2_root C15_ex2_tab_a (alldirs C15_ex2_root) C15_ex2_alias_cfg C15_ex2_canon_cfg.
Proof.
  constructor; [|constructor]. split; [reflexivity|]. cbn [snd].
  split; [vm_compute; reflexivity|]. split; [vm_compute; tauto|]. split; [|split; constructor].
  constructor; [|constructor]. exists ["cb"; "inc"]. split; [vm_compute; tauto|]. split; vm_compute; reflexivity.
Qed.

Lemma C15_ex2_hh_linkfree : linkfree_name C15_ex2_root ["h.h"].
Proof. apply linkfree_of_names. constructor; [|constructor]. split; [reflexivity|]. vm_compute. intuition discriminate. Qed.

Lemma C15_ex2_names_ok : tab_names_ok C15_ex2_root C15_ex2_tab_c.
Proof.
  intros k ls ws. unfold C15_ex2_tab_c. cbn [clookup].
  destruct (String.eqb k "a").
  { intros H; inversion H; subst. cbn. repeat constructor; exact C15_ex2_hh_linkfree. }
  destruct (String.eqb k "h").
  { intros H; inversion H; subst. cbn. repeat constructor. }
  destruct (String.eqb k "x"); [|discriminate].
  intros H; inversion H; subst. cbn. repeat constructor.
Qed.

Lemma C15_ex2_canon : canon_cfg C15_ex2_root C15_ex2_canon_cfg.
Proof.
  constructor; [|constructor]. cbn [snd]. split; [vm_compute; reflexivity|].
  split; [constructor; [vm_compute; reflexivity|constructor]|]. split; constructor.
Qed.

Example C15_counted_once_nonvacuous :
  match find_A (rp_i C15_ex2_root) (getf_i C15_ex2_root C15_ex2_tab_a) 5
               (iter C15_ex2_root C15_ex_src link_fuel [["cb"]]) C15_ex2_alias_cfg with
  | Ok ms =>
      List.length ms = 8 /\
      find_A (rp_i (remove_links C15_ex2_root)) (getf_i (remove_links C15_ex2_root) C15_ex2_tab_c) 5
             (iter (remove_links C15_ex2_root) C15_ex_src link_fuel [["cb"]]) C15_ex2_canon_cfg = Ok ms /\
      setmap (rp_i (remove_links C15_ex2_root)) (shape_i (remove_links C15_ex2_root) C15_ex2_tab_c) 1 ms
             (iter (remove_links C15_ex2_root) C15_ex_src link_fuel [["cb"]]) = [([0], 9); ([], 1)] /\
      List.length (iter C15_ex2_root C15_ex_src link_fuel [["cb"]]) = 4
  | Err _ => False
  end.
Proof.
  destruct (find_A (rp_i C15_ex2_root) (getf_i C15_ex2_root C15_ex2_tab_a) 5
                   (iter C15_ex2_root C15_ex_src link_fuel [["cb"]]) C15_ex2_alias_cfg) as [ms|e] eqn:E.
  - destruct (C15_counted_once C15_ex2_root C15_ex2_tab_a C15_ex2_tab_c C15_ex_src 5 1 [["cb"]]
                C15_ex2_alias_cfg C15_ex2_canon_cfg ms C15_ex2_wf
                ltac:(constructor; [vm_compute; reflexivity|constructor])
                C15_ex2_structured_a C15_ex2_structured_c C15_ex2_tab_rel C15_ex2_alias_cfg2
                C15_ex2_names_ok C15_ex2_canon E) as [H1 H2].
    vm_compute in E. inversion E; subst. clear E H1 H2. vm_compute. repeat split.
  - vm_compute in E. discriminate.
Qed.

(* the reference preprocessor accepts the canonical configuration of this instance and records 8 marks *)
Example C15_reference_nonvacuous :
  match analyse_S (fsys_of C15_ex2_root C15_ex2_tab_c) 5 C15_ex2_canon_cfg with
  | Ok msS => List.length msS = 8 /\
              find_A (rp_i C15_ex2_root) (getf_i C15_ex2_root C15_ex2_tab_a) 5
                     (iter C15_ex2_root C15_ex_src link_fuel [["cb"]]) C15_ex2_alias_cfg = Ok msS
  | Err _ => False
  end.
Proof. vm_compute. split; reflexivity. Qed.

(* C15_setmap_equal applies to the instance: all hypotheses hold with cfs := fsys_of, and
   both setmaps give 9 lines to {platform 0}, 1 line to the empty set *)
Example C15_setmap_equal_nonvacuous :
  let cfs := fsys_of C15_ex2_root C15_ex2_tab_c in
  match find_A (rp_i C15_ex2_root) (getf_i C15_ex2_root C15_ex2_tab_a) 5
               (iter C15_ex2_root C15_ex_src link_fuel [["cb"]]) C15_ex2_alias_cfg,
        analyse_S cfs 5 C15_ex2_canon_cfg with
  | Ok ms, Ok msS =>
      ms = msS /\
      (forall key, sm_get key (setmap (rp_i C15_ex2_root) (shape_i C15_ex2_root C15_ex2_tab_a) 1 ms
                                 (counted C15_ex2_root C15_ex_src link_fuel [["cb"]])) =
                   sm_get key (setmap_S cfs C15_ex_src [["cb"]] (shape_i C15_ex2_root C15_ex2_tab_c) 1 msS)) /\
      sm_get [0] (setmap_S cfs C15_ex_src [["cb"]] (shape_i C15_ex2_root C15_ex2_tab_c) 1 msS) = 9 /\
      sm_get [] (setmap_S cfs C15_ex_src [["cb"]] (shape_i C15_ex2_root C15_ex2_tab_c) 1 msS) = 1
  | _, _ => False
  end.
Proof.
  intros cfs.
  destruct (find_A (rp_i C15_ex2_root) (getf_i C15_ex2_root C15_ex2_tab_a) 5
                   (iter C15_ex2_root C15_ex_src link_fuel [["cb"]]) C15_ex2_alias_cfg) as [ms|e] eqn:E;
    [|vm_compute in E; discriminate].
  destruct (analyse_S cfs 5 C15_ex2_canon_cfg) as [msS|e] eqn:ES; [|vm_compute in ES; discriminate].
  destruct (C15_file_list_exists C15_ex2_root C15_ex2_tab_c C15_ex2_wf eq_refl) as (F1 & F2 & F3).
  destruct (C15_setmap_equal C15_ex2_root C15_ex2_tab_a C15_ex2_tab_c cfs C15_ex_src 5 1 [["cb"]]
              C15_ex2_alias_cfg C15_ex2_canon_cfg ms msS C15_ex2_wf) as [H1 H2]; auto.
  - constructor; [|constructor]. split; [vm_compute; reflexivity|]. eexists. cbn. reflexivity.
  - constructor; constructor.
  - exact C15_ex2_structured_a.
  - exact C15_ex2_structured_c.
  - apply F3. exact C15_ex2_structured_c.
  - exact C15_ex2_tab_rel.
  - exact C15_ex2_alias_cfg2.
  - exact C15_ex2_names_ok.
  - exact C15_ex2_canon.
  - vm_compute. repeat (constructor; [cbn; intuition discriminate|]). constructor.
  - vm_compute. repeat (constructor; [try exact I; discriminate|]). constructor.
  - split; [exact H1|]. split; [exact H2|]. vm_compute in ES. inversion ES; subst. vm_compute. split; reflexivity.
Qed.
