(* C17 — Fortran sources: comment/continuation handling and preprocessor
   conditionals.  Statements only. *)
From Coq Require Import Bool Ascii String List.
From CBI Require Import Lib.Res Lib.Data Model.C01 Spec.C01 Model.C17 Spec.C17 Proofs.C17c Proofs.C17d Proofs.C17e Proofs.C17f.
Import ListNotations.
Local Open Scope string_scope.

(* M = parse_fortran : c_file_source(directives_only=True), fortran_cleaner,
   fortran_file_source and FileParser's grouping (Model/C17.v).
   S = S_lines : the free-form reference scanner (Spec/C17.v).

   For EVERY text (any number of lines, any line length, any 8-bit characters)
   that is well formed in the sense of Spec/C17.v [wf], parsing succeeds and
   the physical lines in the nodes' `lines`, each tagged directive node or
   code node, in node order, are exactly the lines the reference scanner
   counts, with the same tag: a line is counted iff it holds statement text
   (outside ! comments; blanks, continuation marks and the blanks of a
   character literal do not count), a sentinel comment  ! letters* $ , or is a
   # line; comment, continuation and quote characters inside literals do not
   start comments or continuations.

   A # line is scanned with the C preprocessor's rules: /* */ and // comments,
   string and character constants, backslash escapes, backslash-newline
   splices and block comments that carry the directive over several physical
   lines; each physical line of the directive is counted iff it holds text
   outside the comments.

   PARTIAL with respect to DESIGN section 5: [wf] excludes, besides what
   Fortran forbids (a character literal neither closed nor continued at a line
   end; a continuation, directive or comment still open at end of file), every
   text with
     - a backslash in Fortran text, i.e. outside # lines (C-level escapes and
       splices, which the C pass applies before the Fortran cleaner),
     - on a # line: a backslash directly before a backslash-newline splice
       (necessary: witness below), a /
       directly before a splice (conservative: the scanner defers the decision
       whether that / is text to the next line exactly as the cleaner does, so
       the case is kept out of the claim),
     - a # that directly follows the leading & of a continuation line,
     - a line that holds nothing but blanks of a character literal.
   What happens there is covered by the differential run only (I vs M). *)
Theorem C17_classification_partial :
  forall ls : list pline, wf ls = true ->
    exists nodes, parse_fortran ls = Ok nodes /\ tagged nodes = S_lines ls.
Proof. exact classification. Qed.
Print Assumptions C17_classification_partial.

(* On the logical-line level a Fortran file yields the directive lines of the
   C scanner: for every well-formed text the logical lines of category
   CPP_DIRECTIVE that fortran_file_source hands to the parser are, in order
   and with identical physical lines and identical text, those that
   c_file_source(directives_only=True) produced, and every other line it hands
   over is plain source.  (Outside [wf] the first half still holds, the second
   does not: see C17_classification_refuted_amp_hash.) *)
Theorem C17_directives_as_C :
  forall ls : list pline, wf ls = true ->
    exists L F, c_source true ls = Ok L /\ f_source ls = Ok F /\
      filter fdir F = map fll_of_cll (filter cdir L) /\
      (forall x, In x F -> fdir x = false -> f_cat x = SRC).
Proof. exact directives_pass_through. Qed.
Print Assumptions C17_directives_as_C.

(* ... and those are the directive lines of THE C PATH.  The directives-only
   pass and the ordinary C pass (c_file_source as used for .c files) are the
   same function on every well-formed text whose lines of Fortran text hold no
   / ' or double quote: *)
Theorem C17_directives_only_is_C_scanner :
  forall ls : list pline, wf ls = true -> inert ls = true -> c_source false ls = c_source true ls.
Proof. exact c_source_flag. Qed.
Print Assumptions C17_directives_only_is_C_scanner.

(* Fortran statements do hold quotes and slashes; they are inert for the
   directives-only pass.  [mask] replaces each of them, on lines of Fortran
   text only (not on # lines or their continuation lines), by a letter.  For every well-formed Fortran text the directive logical
   lines the parser receives are, in order, with identical physical lines and
   identical text, the directive lines that the ORDINARY C scanner finds in the
   masked text. *)
Theorem C17_directives_as_C_path :
  forall ls : list pline, wf ls = true ->
    exists F Lc, f_source ls = Ok F /\ c_source false (mask ls) = Ok Lc /\
      filter fdir F = map fll_of_cll (filter cdir Lc) /\
      (forall x, In x F -> fdir x = false -> f_cat x = SRC).
Proof. exact fortran_directives_as_C_path. Qed.
Print Assumptions C17_directives_as_C_path.

Definition lines_of (s : string) : list pline := split_lines [] (list_of_string s).
Definition nl : string := String (ascii_of_nat 10) "".

(* ... so that C01 applies verbatim: whatever DirectiveParser makes of the
   text of a # line ([recog], the same function for every language), the node
   sequence of a Fortran file is a C01 program, and when it is structured the
   tree/visitor model attributes it exactly as the skipping preprocessor does. *)
Theorem C17_C01_applies :
  forall (ST ACT COND : Type) (mark : nat -> ST -> ST) (exec : ACT -> ST -> res ST)
         (ev : COND -> ST -> res bool) (recog : list ascii -> kind ACT COND) (code : ACT)
         (F : list fll) (its : list (item ACT COND)) (p : ST),
    program ACT COND recog code F = flats ACT COND its ->
    run_M ST ACT COND mark exec ev (program ACT COND recog code F) p =
    run_S ST ACT COND mark exec ev (program ACT COND recog code F) p.
Proof. exact fortran_program_as_C. Qed.
Print Assumptions C17_C01_applies.


(* Each guard of [wf] beyond Fortran's own rules is needed - without it the
   statement is false of the faithful model (closed witnesses):
   (1) # directly after the leading & of a continuation line: the Fortran cleaner
       makes a directive of its own, which the parser treats as #if;
   (2) a continuation line of a literal holding only blanks of it is counted
       when the blanks are two or more (here: one before the &, one after);
   (3) a backslash is taken as a C escape, so 'a\' leaves the literal open and
       the whole file is rejected (RuntimeError). *)
(* (4) a backslash-newline in Fortran text joins the physical lines before the
       Fortran cleaner sees them, so the comment-only second line is counted *)
Theorem C17_classification_refuted_code_splice :
  exists ls, parse_fortran ls = Ok [(false, [1; 2])]%nat /\ S_lines ls = [(1, false)]%nat.
Proof.
  exists (lines_of ("x = 1 " ++ String (ascii_of_nat 92) "" ++ nl ++ "! c" ++ nl)). vm_compute. split; reflexivity.
Qed.
Print Assumptions C17_classification_refuted_code_splice.

(* (5) a backslash directly before a splice escapes the first character of the
       next line, so that a blank there is text for the scanner but leaves the
       cleaner's buffer blank.
   The former guard "no / inside a character constant of a # line" is gone: since
   repo fix 684e2ba (character constants are scanned like string literals) the
   cleaner no longer opens a comment there, and the theorem covers these texts.
   A text of the kind that refuted the pre-fix cleaner is now an instance of the theorem: *)
Example C17_slash_in_char_constant_covered :
  let ls2 := lines_of ("#define A '/*' // '" ++ nl ++ "a = '*/'" ++ nl) in
  wf ls2 = true /\ parse_fortran ls2 = Ok [(true, [1]); (false, [2])]%nat /\ S_lines ls2 = [(1, true); (2, false)]%nat.
Proof. vm_compute. repeat split; reflexivity. Qed.

Theorem C17_classification_refuted_escaped_splice :
  exists ls, parse_fortran ls = Ok [(true, [1])]%nat /\ S_lines ls = [(1, true); (2, true)]%nat.
Proof.
  exists (lines_of ("#" ++ String (ascii_of_nat 92) (String (ascii_of_nat 92) "") ++ nl ++ " " ++ nl)).
  vm_compute. split; reflexivity.
Qed.
Print Assumptions C17_classification_refuted_escaped_splice.

Theorem C17_classification_refuted_amp_hash :
  exists ls, parse_fortran ls = Ok [(true, [2]); (false, [3])]%nat /\ S_lines ls = [(2, false); (3, false)]%nat.
Proof. exists (lines_of ("&" ++ nl ++ "&#if X" ++ nl ++ "a" ++ nl)). vm_compute. split; reflexivity. Qed.
Print Assumptions C17_classification_refuted_amp_hash.

Theorem C17_classification_refuted_blank_literal :
  exists ls, parse_fortran ls = Ok [(false, [1; 2; 3])]%nat /\ S_lines ls = [(1, false); (3, false)]%nat.
Proof. exists (lines_of ("x='a&" ++ nl ++ " & &" ++ nl ++ "&b'" ++ nl)). vm_compute. split; reflexivity. Qed.
Print Assumptions C17_classification_refuted_blank_literal.

Theorem C17_classification_refuted_backslash :
  exists ls, (exists e, parse_fortran ls = Err e) /\ S_lines ls = [(1, false); (2, false)]%nat.
Proof.
  exists (lines_of ("x = 'a" ++ String (ascii_of_nat 92) "'" ++ nl ++ "y = 1" ++ nl)). vm_compute.
  split; [eexists|]; reflexivity.
Qed.
Print Assumptions C17_classification_refuted_backslash.

(* non-vacuity: a well-formed text with a continued statement whose literal
   holds ! and &, a comment line and a directive (with C comments) inside the
   continuation, a split literal with a doubled quote, a directive whose block
   comment runs over three lines, a spliced #define, a sentinel and an ordinary
   comment *)
Definition C17_example : list pline :=
  lines_of ("x = 'a!&b' // &" ++ nl ++ "  ! note" ++ nl ++ "#ifdef F /* c */ // d" ++ nl ++ "  & 'c''d&" ++ nl ++
            "   &e'" ++ nl ++ "#endif /* F" ++ nl ++ "   still the comment" ++ nl ++ " */" ++ nl ++
            "#define G(x) " ++ String (ascii_of_nat 92) "" ++ nl ++ "   x" ++ nl ++
            "!$omp barrier" ++ nl ++ "! $omp not" ++ nl).
Example C17_nonvacuous :
  wf C17_example = true /\ inert (mask C17_example) = true /\
  S_lines C17_example = [(1, false); (3, true); (4, false); (5, false); (6, true); (9, true); (10, true); (11, false)]%nat /\
  parse_fortran C17_example = Ok [(false, [1]); (true, [3]); (false, [4; 5]); (true, [6]); (true, [9; 10]); (false, [11])]%nat.
Proof. vm_compute. repeat split; reflexivity. Qed.
