(* C17 — Fortran sources.  Statements only (theorems are added as they are proved). *)
From Coq Require Import Bool Ascii String List.
From CBI Require Import Lib.Res Lib.Data Model.C17 Spec.C17.
Import ListNotations.
Local Open Scope string_scope.

(* non-vacuity: a well-formed text with a continued statement whose literal
   holds ! and &, a comment line and a directive inside the continuation, a
   sentinel and an ordinary comment *)
Definition C17_example : list pline :=
  split_lines [] (list_of_string
    ("x = 'a!&b' // &" ++ String (ascii_of_nat 10)
    ("  ! note" ++ String (ascii_of_nat 10)
    ("#ifdef F" ++ String (ascii_of_nat 10)
    ("  & 'c''d'" ++ String (ascii_of_nat 10)
    ("#endif" ++ String (ascii_of_nat 10)
    ("!$omp barrier" ++ String (ascii_of_nat 10)
    ("! $omp not" ++ String (ascii_of_nat 10) "")))))))).
Example C17_nonvacuous :
  wf C17_example = true /\
  S_lines C17_example = [(1, false); (3, true); (4, false); (5, true); (6, false)]%nat /\
  parse_fortran C17_example = Ok [(false, [1]); (true, [3]); (false, [4]); (true, [5]); (false, [6])]%nat.
Proof. vm_compute. repeat split; reflexivity. Qed.
