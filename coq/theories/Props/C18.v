(* C18 — nothing is dropped silently.  Statements only.
   M = Model/C18.v on top of Model/C04.v (the code as it is), S = Spec/C18.v on top of
   Spec/C04.v (the reference preprocessor and a declarative reading of the database);
   the tables are the ones GENERATED from the repo (Gen/C18_tables.v). *)
From Coq Require Import Bool Arith ZArith Ascii String List.
From CBI Require Import Lib.Res Lib.C18_str Model.C01 Spec.C01 Model.C04 Spec.C04 Model.C18 Spec.C18
                        Gen.C18_tables Spec.C18t Model.C18i Proofs.C18s Proofs.C18 Proofs.C18d Proofs.C18m.
Import ListNotations.
Local Open Scope string_scope.
Local Open Scope list_scope.

(* One event per occurrence.  For EVERY file system of structured files, EVERY include depth
   and EVERY list of configuration entries (any number of translation units, platforms and
   passes, each preprocessed from a fresh Platform): whenever the reference preprocessor
   accepts them, the model of codebasin issues exactly the reference's missing-include events
   - same file, line, requested name and form, same multiplicity, same order - and visits the
   same files.  The reference issues one event per REACHED include whose un-memoised search
   finds no file (Spec/C04.v exec_S), so a header whose body is evaluated n times contributes n
   times and an include in a skipped group contributes nothing. *)
Theorem C18_one_per_occurrence :
  forall (fs : fsys), fs_structured fs ->
  forall (fuel : nat) (es : list entry) (evs : list event) (visited : list path),
    run_entries_S fs fuel es = Ok (evs, visited) -> run_entries_M fs fuel es = Ok (evs, visited).
Proof. exact run_entries_sim. Qed.
Print Assumptions C18_one_per_occurrence.

(* The memo does not suppress.  In every platform state whose memo is sound (every reachable
   state: C18_memo_sound_reachable below), an include whose
   search fails issues its event - in particular when the failure is answered FROM the memo -
   and leaves the state such that the next evaluation warns again: n evaluations, n events. *)
Theorem C18_memo_does_not_suppress :
  forall fs fuel cur tag s angle name,
    (forall p, memo_sound fs p -> include_target s p = Ok (angle, name) ->
       lookup_memo (name, dirname cur, angle) (memo p) = Some None ->
       exists p', exec_M fs fuel cur (AInclude tag s) p = Ok p' /\ memo p' = memo p /\
         events p' = {| ev_file := cur; ev_tag := tag; ev_name := name; ev_angle := angle |} :: events p) /\
    (forall n p, memo_sound fs p -> include_target s p = Ok (angle, name) ->
       search fs (dirs p) (name, dirname cur, angle) = None ->
       exists p', exec_times fs fuel cur (AInclude tag s) n p = Ok p' /\
         events p' = repeat {| ev_file := cur; ev_tag := tag; ev_name := name; ev_angle := angle |} n ++ events p).
Proof.
  intros fs fuel cur tag s angle name. split.
  - intros p. apply memoised_failure_warns.
  - intros n p. apply missing_include_times.
Qed.
Print Assumptions C18_memo_does_not_suppress.

(* ... and every state in which a node is evaluated IS sound, for every file system (structured
   or not), every include depth and every entry, whether or not the reference accepts the unit:
   the model with a guard that refuses to evaluate a node when some binding of the memo differs
   from the un-memoised search (exec_G) computes exactly what the model computes - the guard
   never fires; and a memo all of whose bindings are right is sound in the sense used above. *)
Theorem C18_memo_sound_reachable :
  (forall fs fuel e, run_tu_G fs fuel e = run_tu_M fs fuel e) /\
  (forall fs p, memo_sound_b fs p = true -> memo_sound fs p).
Proof. split; [exact guard_never_fires|exact sound_b_sound]. Qed.
Print Assumptions C18_memo_sound_reachable.

(* The form label.  Every event of an accepted run stems from an #include directive in the
   named file at the named line; a quote directive yields a 'user include' event for the name
   as written, an angle directive a 'system include' event; the label is part of the message. *)
Theorem C18_form_label :
  forall (fs : fsys), fs_structured fs ->
  forall fuel es evs visited,
    run_entries_S fs fuel es = Ok (evs, visited) ->
    run_entries_M fs fuel es = Ok (evs, visited) /\ Forall (genuine fs) evs /\
    forall e sp, contains (if ev_angle e then "system include" else "user include") (msg_of (WMissingInclude e sp)) = true.
Proof.
  intros fs Hfs fuel es evs vis H. split; [apply run_entries_sim; assumption|].
  split; [eapply run_entries_S_genuine; exact H|]. intros e sp. apply label_in_message.
Qed.
Print Assumptions C18_form_label.

(* Unrecognised directives.  A warning is issued iff the directive has at least two tokens and
   the second is not in the GENERATED list, which is exactly #line, #warning, #error; the
   events named by the warnings of a file are those the specification asks for; and over a
   run every file contributes once, however many times it is reached. *)
Theorem C18_unknown_directive_rule :
  (forall u, warns_unknown unhandled u = true <->
             exists t0 w name rest, u_toks u = t0 :: (w, name) :: rest /\ ~ In name ["line"; "warning"; "error"]) /\
  (forall f cf, map sev_of_wrec (parse_warnings unhandled f cf) =
                map (fun u => SUnknownDirective f (u_line u) (u_col u) (spelling_of (u_toks u))) (filter reportable (cf_unk cf))) /\
  (forall cb es vis, NoDup (parsed_files cb es vis) /\
                     forall f, In f (parsed_files cb es vis) <-> In f (cb ++ map e_file es ++ vis)).
Proof.
  split; [intros u; apply (warns_unknown_iff unhandled)|]. split; [apply parse_warnings_spec|apply parsed_once].
Qed.
Print Assumptions C18_unknown_directive_rule.

(* The totals.  With the GENERATED meta-warnings: for every list of warnings none of which
   contains the phrase of a category it does not belong to, the closing lines are exactly
   "<n> warnings generated ..." (n = number of warnings, if non-zero), "<u> user include files
   ..." (u = number of missing quote includes, if non-zero), "<s> system include files ..."
   (s = number of missing angle includes, if non-zero) - although each closing line is itself
   fed back through the counting filter before the next one is produced. *)
Theorem C18_totals :
  forall ws : list wrec, forallb clean ws = true ->
    closing meta_warnings (as_lrecs ws) =
    let n := List.length ws in
    let u := List.length (filter is_user_rec ws) in
    let s := List.length (filter is_system_rec ws) in
    let lines := line_if n text1 ++ line_if u text2 ++ line_if s text3 in
    (lines, [n + List.length lines; u + List.length (line_if u text2); s + List.length (line_if s text3)]).
Proof. exact totals_printed. Qed.
Print Assumptions C18_totals.

(* ... and the assumption is needed: '#include "system include/p.h"' (missing) is counted as a
   missing system include *)
Theorem C18_totals_unrestricted_refuted :
  exists ws, List.length (filter is_system_rec ws) = 0 /\ In (text3 1) (fst (closing meta_warnings (as_lrecs ws))).
Proof. exact totals_unrestricted_refuted. Qed.
Print Assumptions C18_totals_unrestricted_refuted.

(* The whole run, PARTIAL.  For every code base of structured files, every database whose
   usable commands consist of plain tokens (registered flags, arguments glued to one-letter
   flags, positionals, flags that match nothing; every flag that takes a separate argument has
   one): whenever the specification accepts the run with the event list l, the model's run
   succeeds and what its records name - database events, unrecognised directives of every file
   read (once), missing includes, missing forced includes, in that order - is exactly l.
   Missing from the full statement: command lines with a token that is a proper prefix of a
   registered flag (C18_flag_abbreviation_refuted, finding flag-abbreviation-accepted) or other
   non-plain tokens (argparse is C11's subject). *)
Theorem C18_events_partial :
  forall c fuel cb pls l,
    fs_structured (fs_of c) -> run_ok c pls = true ->
    find_S c fuel cb pls = Ok l ->
    exists o, find_M c fuel cb pls = Ok o /\
              l = map sev_of_wrec (all_records o).
Proof. exact events_partial. Qed.
Print Assumptions C18_events_partial.

(* Silence, PARTIAL (same restriction to plain command lines): if the specification finds
   nothing that cannot be honoured - every reached include resolves, every directive is known or
   harmless, every entry is usable, every compiler and option known, every forced include
   exists - then the model issues no record at all and prints no closing line. *)
Theorem C18_silent_when_honoured_partial :
  forall c fuel cb pls,
    fs_structured (fs_of c) -> run_ok c pls = true ->
    find_S c fuel cb pls = Ok [] ->
    exists o, find_M c fuel cb pls = Ok o /\ all_records o = [] /\ closing_M o = ([], [0; 0; 0]).
Proof. exact silent. Qed.
Print Assumptions C18_silent_when_honoured_partial.

(* End to end, PARTIAL (plain command lines; records that do not contain the phrase of another
   category): whenever the specification accepts a run with event list l, the model's records
   name exactly l and the closing lines print exactly the specification's totals of l - the
   number of all events, of missing quote includes and of missing angle includes. *)
Theorem C18_end_to_end_partial :
  forall c fuel cb pls l,
    fs_structured (fs_of c) -> run_ok c pls = true ->
    find_S c fuel cb pls = Ok l ->
    exists o, find_M c fuel cb pls = Ok o /\ l = map sev_of_wrec (all_records o) /\
      (forallb clean (all_records o) = true ->
       let '(n, u, s) := totals_S l in
       fst (closing_M o) = line_if n text1 ++ line_if u text2 ++ line_if s text3).
Proof. exact end_to_end. Qed.
Print Assumptions C18_end_to_end_partial.

(* the restriction is needed: 'clang++ -fsycl' - the unregistered flag is taken for
   -fsycl-is-device and no warning names it *)
Theorem C18_flag_abbreviation_refuted :
  exists c pls o, fs_structured (fs_of c) /\ run_ok c pls = false /\
    find_S c 5 (codebase_of c) pls = Ok [SUnknownArgs ["-fsycl"]] /\
    find_M c 5 (codebase_of c) pls = Ok o /\ all_records o = [].
Proof. exact abbreviation_refuted. Qed.
Print Assumptions C18_flag_abbreviation_refuted.

(* non-vacuity: a.c includes "h.h" twice (found beside it; h.h holds a dangling <sys/gone.h>,
   #bar and #line), a dangling "nope.h", a dangling include in a skipped group and #foo; the
   database has a unit with -Wall, an entry for a missing file, and the same unit compiled by an
   unknown compiler with -fopenmp: 4 database events, 2 directives, 2 x 3 missing includes *)
Definition C18_ex_a : list (item act cond) :=
  [IPlain 0 (AInclude 1 (IQuote ["h.h"])); IPlain 1 (AInclude 2 (IQuote ["h.h"]));
   IPlain 2 (AInclude 3 (IQuote ["nope.h"]));
   IChain 3 (CDefd "F0") [IPlain 4 (AInclude 5 (IQuote ["dead.h"]))] [] 5;
   IPlain 6 AOther].
Definition C18_ex_h : list (item act cond) :=
  [IPlain 0 (AInclude 1 (IAngle ["sys"; "gone.h"])); IPlain 1 AOther; IPlain 2 AOther].
Definition C18_example : cfs :=
  [ (["B"; "src"; "a.c"],
     {| cf_lines := flats act cond C18_ex_a;
        cf_unk := [{| u_line := 7; u_col := 0; u_toks := [(false, "#"); (false, "foo")] |}] |});
    (["B"; "src"; "h.h"],
     {| cf_lines := flats act cond C18_ex_h;
        cf_unk := [{| u_line := 2; u_col := 0; u_toks := [(false, "#"); (false, "bar"); (true, "x")] |};
                   {| u_line := 3; u_col := 0; u_toks := [(false, "#"); (false, "line"); (true, "9")] |}] |}) ].
Definition C18_example_pls : list (string * list dbentry) :=
  [("P0.json", [ {| db_file := ["B"; "src"; "a.c"]; db_argv0 := Some "gcc";
                    db_args := [CInc false ["B"; "inc"]; CRaw "-Wall"; CRaw "-O2"; CRaw "-o"; CRaw "a.o"] |};
                 {| db_file := ["B"; "src"; "gen.c"]; db_argv0 := Some "gcc"; db_args := [] |};
                 {| db_file := ["B"; "src"; "a.c"]; db_argv0 := Some "/opt/bin/mycc"; db_args := [CRaw "-fopenmp"] |} ])].
Example C18_nonvacuous :
  fs_structured (fs_of C18_example) /\ run_ok C18_example C18_example_pls = true /\
  match find_S C18_example 5 (codebase_of C18_example) C18_example_pls,
        find_M C18_example 5 (codebase_of C18_example) C18_example_pls with
  | Ok l, Ok o =>
      (totals_S l, List.length (all_records o), forallb clean (all_records o), fst (closing_M o))
      = ((12, 2, 4), 12, true, [text1 12; text2 2; text3 4])
  | _, _ => False
  end.
Proof.
  split.
  - intros p ls. cbn [fs_of C18_example map fs_get fst snd cf_lines].
    destruct (path_eqb p ["B"; "src"; "a.c"]); [intros H; exists C18_ex_a; injection H as <-; reflexivity|].
    destruct (path_eqb p ["B"; "src"; "h.h"]); [intros H; exists C18_ex_h; injection H as <-; reflexivity|discriminate].
  - split; vm_compute; reflexivity.
Qed.
