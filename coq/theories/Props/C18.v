(* C18 - placeholder, theorems follow *)
From Coq Require Import List.
