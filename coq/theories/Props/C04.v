(* C04 — #include resolution and attribution across files.  Statements only. *)
From Coq Require Import Bool Arith ZArith String List.
From CBI Require Import Lib.Res Model.C01 Spec.C01 Model.C04 Spec.C04 Model.C04d Proofs.C01 Proofs.C04 Proofs.C04d Gen.C04_tables.
Import ListNotations.
Local Open Scope string_scope.
Local Open Scope list_scope.

(* Search order: the candidates are the includer's directory (quote form only)
   followed by the configured directories in order, each joined with the
   spelling and normalised lexically (".", ".." and empty components); the result is the first
   candidate that exists; the angle form never consults the includer's directory. *)
Theorem C04_search_order :
  forall (fs : fsys) (ds : list path) (name this : path),
    (forall k p, search fs ds k = Some p ->
       exists l1 l2, candidates ds k = l1 ++ p :: l2 /\ isfile fs p = true /\ forall y, In y l1 -> isfile fs y = false) /\
    (forall k, search fs ds k = None -> forall y, In y (candidates ds k) -> isfile fs y = false) /\
    candidates ds (name, this, false) = norm (this ++ name) :: map (fun d => norm (d ++ name)) ds /\
    candidates ds (name, this, true) = map (fun d => norm (d ++ name)) ds.
Proof.
  intros fs ds name this. split; [intros k p; apply search_first|].
  split; [intros k; apply search_none|]. split; reflexivity.
Qed.
Print Assumptions C04_search_order.

(* Which directories are configured, and in which order: with the constants the translator
   reads from the CURRENT config.py (do -I and -isystem share a dest? which expression is
   handed to PreprocessorConfiguration?), the list built by parse_args from the -I / -isystem
   options of ANY command line is the compiler's: every -I directory in command-line order,
   then every -isystem directory in command-line order.  Together with C04_search_order this
   fixes the complete search chain. *)
Theorem C04_dir_order :
  forall fl : list dflag, configured_M fl = i_dirs fl ++ sys_dirs fl.
Proof. exact dir_order. Qed.
Print Assumptions C04_dir_order.

(* one shared list in command-line order (the code before the repair), -isystem first, and
   dropping the -isystem list are each distinguishable from the compiler's order *)
Theorem C04_dir_order_variants_refuted :
  (exists fs fl k, search fs (configured_with true PathsOnly fl) k <> search fs (configured_S fl) k) /\
  (exists fs fl k, search fs (configured_with false SystemThenPaths fl) k <> search fs (configured_S fl) k) /\
  (exists fs fl k, search fs (configured_with false PathsOnly fl) k <> search fs (configured_S fl) k).
Proof. split; [exact cmdline_order_refuted | split; [exact system_first_refuted | exact paths_only_drops_system_refuted]]. Qed.
Print Assumptions C04_dir_order_variants_refuted.

(* For EVERY history of look-ups (any spellings, any includer directories, both
   forms, in any order) against a fixed file system, each memoised answer equals
   the un-memoised search: no earlier include can influence a later one. *)
Theorem C04_memo_transparent :
  forall (fs : fsys) (ks : list mkey) (p : plat), memo p = [] ->
    fst (lookups fs ks p) = map (search fs (dirs p)) ks.
Proof.
  intros fs ks p Hm. apply memo_transparent. intros k r. rewrite Hm. discriminate.
Qed.
Print Assumptions C04_memo_transparent.

(* the memo keyed by spelling alone (the code before the repair) was not transparent *)
Theorem C04_spelling_memo_refuted :
  exists (fs : fsys) (p : plat) (k1 k2 : mkey),
    memo p = [] /\
    let '(p1, _) := find_include_by_spelling fs k1 p in
    snd (find_include_by_spelling fs k2 p1) <> search fs (dirs p) k2.
Proof.
  exists [(["d1"; "h.h"], []); (["d2"; "h.h"], [])],
         {| assoc := []; defs := []; memo := []; once := []; events := []; dirs := [] |},
         (["h.h"], ["d1"], false), (["h.h"], ["d2"], false).
  split; [reflexivity|]. vm_compute. discriminate.
Qed.
Print Assumptions C04_spelling_memo_refuted.

(* Inclusion: for EVERY file system of structured files, EVERY include depth and
   EVERY compilation-database entry (file, -I/-isystem directories, -D
   definitions, -include files): whenever the reference preprocessor (textual
   inclusion, un-memoised search, skipping machine, ISO redefinition rule)
   accepts the translation unit, the model of codebasin (memoised search,
   per-file trees visited on demand) yields the same recorded (file, node)
   pairs in the same order, the same final macro table, the same include-once
   set and the same missing-include events. *)
Theorem C04_inclusion :
  forall (fs : fsys), fs_structured fs ->
  forall (fuel : nat) (e : entry) (r : plat),
    run_tu_S fs fuel e = Ok r -> exists r', run_tu_M fs fuel e = Ok r' /\ obs_eq r r'.
Proof. exact run_tu_sim. Qed.
Print Assumptions C04_inclusion.

(* non-vacuity: two directories each holding h.h; a.c includes "h.h" (found beside
   it), then <h.h> (found in -I inc), a guarded header included twice, a missing one *)
Definition C04_example_fs : fsys :=
  [ (["src"; "a.c"], [(0, KPlain (AInclude 0 (IQuote ["h.h"]))); (1, KPlain (AInclude 1 (IAngle ["h.h"])));
                      (2, KPlain (AInclude 2 (IQuote ["g.h"]))); (3, KPlain (AInclude 3 (IQuote ["g.h"])));
                      (4, KPlain (AInclude 4 (IAngle ["nope.h"]))); (5, KIf (CDefd "INC")); (6, KPlain ACode); (7, KEndif)]);
    (["src"; "h.h"], [(0, KPlain (ADefine "SRC" VE))]);
    (["inc"; "h.h"], [(0, KPlain (ADefine "INC" VE))]);
    (["inc"; "g.h"], [(0, KIf (CNDefd "G")); (1, KPlain (ADefine "G" VE)); (2, KPlain ACode); (3, KEndif)]) ].
Definition C04_example_entry : entry :=
  {| e_file := ["src"; "a.c"]; e_dirs := [["inc"]]; e_defs := []; e_incs := [] |}.
Example C04_nonvacuous :
  match run_tu_S C04_example_fs 5 C04_example_entry with
  | Ok r => (List.length (assoc r), List.length (events r), map fst (defs r))
  | Err _ => (0, 0, [])
  end = (16, 1, ["G"; "INC"; "SRC"]).
Proof. vm_compute. reflexivity. Qed.
