(* C01 — Conditional inclusion matches what a real C preprocessor would do.
   Statements only. *)
From Coq Require Import List Bool Arith ZArith String.
From CBI Require Import Lib.Res Model.C01 Spec.C01 Spec.C01b Model.C01i Proofs.C01 Proofs.C01b Proofs.C01i Proofs.C01t Gen.C01_tables.
Import ListNotations.
Local Open Scope string_scope.

(* For EVERY platform-state type, EVERY way of recording a visit, EVERY
   semantics of plain nodes (define/undef/include/pragma/code, possibly
   failing) and EVERY condition evaluator (possibly failing), on EVERY
   structured program (conditional chains nested without bound):
   building codebasin's tree and visiting it with the branch_taken stack
   yields exactly what the skipping preprocessor yields - same nodes
   recorded in the same order, same final state, same error if any. *)
Theorem C01_attribution :
  forall (ST ACT COND : Type) (mark : nat -> ST -> ST) (exec : ACT -> ST -> res ST)
         (ev : COND -> ST -> res bool) (its : list (item ACT COND)) (p : ST),
    run_M ST ACT COND mark exec ev (flats ACT COND its) p =
    run_S ST ACT COND mark exec ev (flats ACT COND its) p.
Proof. exact attribution. Qed.
Print Assumptions C01_attribution.

(* The structured programs are exactly the line sequences whose conditionals
   nest: the boolean check [balanced] (every #elif/#else/#endif has an open
   #if, nothing is left open at end of file - what a preprocessor checks
   structurally) implies that the sequence is the flattening of an [item] list,
   so the attribution theorem holds for EVERY balanced sequence of lines. *)
Theorem C01_balanced_is_structured :
  forall (ACT COND : Type) (ls : list (line ACT COND)),
    balanced ACT COND ls = true -> exists its, ls = flats ACT COND its.
Proof. exact balanced_is_structured. Qed.
Print Assumptions C01_balanced_is_structured.

Theorem C01_attribution_balanced :
  forall (ST ACT COND : Type) (mark : nat -> ST -> ST) (exec : ACT -> ST -> res ST)
         (ev : COND -> ST -> res bool) (ls : list (line ACT COND)) (p : ST),
    balanced ACT COND ls = true ->
    run_M ST ACT COND mark exec ev ls p = run_S ST ACT COND mark exec ev ls p.
Proof. exact attribution_balanced. Qed.
Print Assumptions C01_attribution_balanced.

(* Tie to the CURRENT source: the model's is_start/is_cont/is_end are the values of
   Node.is_start_node / is_cont_node / is_end_node that the translator reads from
   codebasin/preprocessor.py on every run (Gen/C01_tables.v), and every node class
   other than the four conditional ones is a plain node. *)
Theorem C01_kinds_match_source :
  (forall (ACT COND : Type) (k : kind ACT COND),
     klookup (kind_class k) node_kinds = Some (is_start ACT COND k, is_cont ACT COND k, is_end ACT COND k)) /\
  forallb (fun kv => existsb (String.eqb (fst kv)) conditional_classes ||
                     match snd kv with (false, false, false) => true | _ => false end) node_kinds = true.
Proof. split; [exact kinds_match_source | exact other_classes_plain]. Qed.
Print Assumptions C01_kinds_match_source.

(* the tree built from a structured program is the one its nesting denotes *)
Theorem C01_tree_shape :
  forall (ACT COND : Type) (its : list (item ACT COND)),
    build ACT COND (flats ACT COND its) = Ok (trees ACT COND its).
Proof. exact build_flats. Qed.
Print Assumptions C01_tree_shape.

(* a program whose plain nodes and conditions never fail never fails the analysis *)
Theorem C01_never_fails :
  forall (ST ACT COND : Type) (mark : nat -> ST -> ST) (exec : ACT -> ST -> res ST)
         (ev : COND -> ST -> res bool) (its : list (item ACT COND)) (p : ST),
    (forall a q, exists q', exec a q = Ok q') -> (forall c q, exists b, ev c q = Ok b) ->
    exists p', run_M ST ACT COND mark exec ev (flats ACT COND its) p = Ok p'.
Proof.
  intros ST ACT COND mark exec ev its p H1 H2. rewrite attribution.
  exact (never_fails ST ACT COND mark exec ev its p H1 H2).
Qed.
Print Assumptions C01_never_fails.

(* instance with object-like #define/#undef: whenever the reference
   preprocessor (ISO C: a differing redefinition is diagnosed) accepts the
   program, codebasin's define-only-if-absent model computes the same result *)
Theorem C01_define_undef :
  forall (its : list (item act cond)) (p r : pstate),
    run_Si (flats act cond its) p = Ok r -> run_Mi (flats act cond its) p = Ok r.
Proof. exact instance_attribution. Qed.
Print Assumptions C01_define_undef.

(* in the concrete instance a macro may be defined as another identifier (#define A B): the
   value of an identifier in #if follows the alias chain in the CURRENT table, a name already
   being expanded is not expanded again, and for EVERY macro table (cycles included) the
   evaluation never runs out of fuel *)
Theorem C01_alias_chain_total :
  forall (m : string) (e : env), ident_val m e <> Err "OutOfFuel: alias chain".
Proof. exact ident_val_never_out_of_fuel. Qed.
Print Assumptions C01_alias_chain_total.

(* non-vacuity: a nested chain whose #elif is selected, with a define that is
   reached and one that is not *)
Definition C01_example : list (item act cond) :=
  [ IPlain 0 (ADefine "A" (VInt 2));
    IChain 1 (CEq "A" 1) [IPlain 2 (ADefine "B" VEmpty)]
      [ (3, HElif (CGt "A" 1),
           [IPlain 4 ACode;
            IChain 5 (CNDefd "B") [IPlain 6 (ADefine "C" (VInt 7))] [(7, HElse, [IPlain 8 ACode])] 9]);
        (10, HElif (CDefd "nonsense"), [IPlain 11 ACode]);
        (12, HElse, [IPlain 13 (AUndef "A")]) ] 14;
    IPlain 15 ACode ].
Example C01_nonvacuous :
  option_map (fun p => (rev (marks p), menv p))
    (match run_Si (flats act cond C01_example) {| marks := []; menv := [] |} with Ok p => Some p | Err _ => None end)
  = Some ([0; 1; 3; 4; 5; 6; 7; 9; 10; 12; 14; 15]%nat, [("C", VInt 7); ("A", VInt 2)]).
Proof. vm_compute. reflexivity. Qed.
Example C01_nonvacuous_balanced : balanced act cond (flats act cond C01_example) = true.
Proof. vm_compute. reflexivity. Qed.
