(* C03 - Macro definition and expansion conform to the C standard.
   Property-level statements only; proofs are in Proofs/C03*.v.

   M = Model/C03.v   (line-for-line fuelled port of the macro code of preprocessor.py)
   S = Spec/C03.v    (Prosser's hide-set algorithm with C99 placemarkers)

   Level: PARTIAL.  The statement "M = S for every macro table" is false of the
   faithful model; it is refuted by one closed witness per known-finding class
   (the C03_conformance_refuted theorems), proved for the fragments below, and otherwise
   covered by the differential run only (docs/C03.md). *)
From Coq Require Import String List Bool.
From CBI Require Import Lib.Data Lib.Res Model.C03tok Model.C03 Model.C03run Spec.C03.
From CBI Require Import Proofs.C03w Proofs.C03d Proofs.C03o Proofs.C03s Proofs.C03j Proofs.C03f Proofs.C03g Proofs.C03h.
From CBI Require Gen.C03_tables.
Import ListNotations.
Local Open Scope string_scope.

(* ------------------------------------------------------------------ *)
(* command-line definitions                                            *)
(* ------------------------------------------------------------------ *)
(* For every macro name, every well-formed parameter list (or none) and EVERY
   replacement list v:  -D'HEAD=v' yields exactly what `#define HEAD v` yields
   (the same macro value, or the same error), and -DHEAD yields what
   `#define HEAD 1` yields.  Token level: macro_from_definition_string splits
   the string at the first '=' with str.partition and lexes HEAD + blank + v;
   that split is outside the model (the differential run renders real -D
   strings, including values that begin with '='). *)
Theorem C03_cmdline_define :
  forall name ps, wf_head ps ->
    (forall v w w',
        macro_from_dash_d (head w name ps ++ set_w_hd true v) (List.length (head w name ps)) true
        = macro_from_define (head w' name ps ++ set_w_hd true v))
    /\ (forall w w',
        macro_from_dash_d (head w name ps) (List.length (head w name ps)) false
        = macro_from_define (head w' name ps ++ [default_tok true]))
    /\ Gen.C03_tables.default_expansion = "1" /\ Gen.C03_tables.define_separator = "=".
Proof.
  intros name ps H. split; [|split].
  - intros. now apply cmdline_define_value.
  - intros. now apply cmdline_define_default.
  - exact default_is_one.
Qed.
Print Assumptions C03_cmdline_define.

(* ------------------------------------------------------------------ *)
(* object-like macros without ##                                       *)
(* ------------------------------------------------------------------ *)
(* For EVERY table of object-like macros (any number below the backstop, any
   direct or mutual recursion) whose replacement lists contain no ##, no
   `defined` and no __VA_ARGS__, built by `#define NAME body` lines, and every
   source token list of the same kind in which, additionally, `defined X` and
   `defined ( X )` may occur (the controlling expression of #if / #elif):
     - expansion terminates: there is n such that every fuel >= n suffices
       (the stack never reaches max_level; each push disables one more name);
     - the result is, token for token, the one Prosser's algorithm yields after
       `defined` has been evaluated (ISO C 6.10.1).
   Missing for the full statement: function-like macros, # and ## (covered by
   the differential run; refuted for S = Prosser in the corner below). *)
Theorem C03_objlike :
  forall (ds : odefs) (input : list tok),
    wf_defs ds = true -> wfd2 input = true ->
    S (List.length ds) < Gen.C03_tables.max_level ->
    exists tb, build_table 0 (map define_line ds) [] = inl tb /\
    exists n, forall fuel, n <= fuel ->
      exists out,
        expand cur_lead cur_cat_fix cur_str_white cur_resub_fix cur_base cur_rescan cur_va_fix cur_va_whole
               Gen.C03_tables.max_level tb fuel input = Ok out /\
        run_spec fuel (stable_of_defs ds) (map btok_of input) = Ok (map sp out).
Proof.
  intros ds input Hwf Hin Hlev. exists (mtable ds). split; [exact (build_objlike ds Hwf)|].
  exact (objlike_defined_main ds Hwf _ _ _ _ _ _ _ input Hin Hlev).
Qed.
Print Assumptions C03_objlike.

(* ------------------------------------------------------------------ *)
(* function-like macros: a fragment                                    *)
(* ------------------------------------------------------------------ *)
(* PARTIAL.  Tables that mix object-like macros and function-like macros of fixed
   arity >= 1 whose replacement lists contain no #, no ##, no `defined`, no
   __VA_ARGS__ and no function-like macro name (object-like names are allowed
   everywhere), built by `#define` lines; source lists made of plain parts
   (tokens, `defined X`, `defined ( X )`) and of invocations F ( a1 , ... , an )
   with the right number of arguments, each argument a flat list of tokens
   without parentheses and commas that may contain object-like macro names
   (e.g. `#if defined(V) && GE(V, 3)`).
   For every such table and source: expansion terminates (every fuel above a
   bound), never reaches the backstop, and equals Prosser's result token for
   token - through argument collection, complete pre-expansion of the arguments
   in nested frames (they come back painted or inert), arg_needs_expansion,
   substitution, push, rescan of the replacement list under no_expand, splice.
   Missing: parentheses or function-like names in arguments (nested
   invocations), invocations inside replacement lists, # and ##, variadic
   macros, invocations whose arguments come from the following source. *)
Theorem C03_funlike_partial :
  forall (fs : list fdef) (items : list sitem),
    wf_fdefs fs = true -> params_plain fs = true -> fs <> [] ->
    Forall (wf_src3 fs) items ->
    S (S (List.length fs)) < Gen.C03_tables.max_level ->
    exists tb, build_table 0 (map define_line2 fs) [] = inl tb /\
    exists n, forall fuel, n <= fuel ->
      exists out,
        expand cur_lead cur_cat_fix cur_str_white cur_resub_fix cur_base cur_rescan cur_va_fix cur_va_whole
               Gen.C03_tables.max_level tb fuel (flat_map stoks items) = Ok out /\
        run_spec fuel (stable2 fs) (map btok_of (flat_map stoks items)) = Ok (map sp out).
Proof.
  intros fs items Hwf Hpp Hne Hitems Hlev. exists (mtable2 fs). split; [exact (build2 fs Hwf Hpp)|].
  exact (funlike3_main fs Hwf _ _ _ _ _ _ _ items Hitems Hne Hlev).
Qed.
Print Assumptions C03_funlike_partial.

(* ------------------------------------------------------------------ *)
(* full conformance is refuted: one closed witness per finding class    *)
(* ------------------------------------------------------------------ *)
(* S (Prosser) is stricter than the implementation, gcc and clang in a corner ISO C leaves open
   (hide sets inherited through a function-like invocation); see Proofs/C03w.v for the witness text *)
Theorem C03_conformance_refuted_hide_set_inheritance :
  disagree w_inherit [tI "H"; tP "("; tP ","; tP ","; tI "B"; tP ")"].
Proof. exact refuted_hide_set_inheritance. Qed.
Print Assumptions C03_conformance_refuted_hide_set_inheritance.

(* the backstop: max_level - 1 nested object-like macros give the token 0; one fewer is fine *)
Theorem C03_conformance_refuted_depth_limit :
  disagree (chain 0 (Nat.pred (Nat.pred Gen.C03_tables.max_level))) [tI "a"]
  /\ agree (chain 0 (Nat.pred (Nat.pred (Nat.pred Gen.C03_tables.max_level)))) [tI "a"].
Proof. exact (conj refuted_depth_limit depth_below_limit). Qed.
Print Assumptions C03_conformance_refuted_depth_limit.

(* ------------------------------------------------------------------ *)
(* the defects that were repaired: the model with the original         *)
(* behaviour disagrees with S on the witness, the current model agrees  *)
(* ------------------------------------------------------------------ *)
Theorem C03_repaired_defects_refuted_and_now_conform :
     (S_ok [def_obj ViaDorig [tI "A"; tO "=="; tO "="] "A" [tO "=="]] [tI "A"]
      /\ run_M_case [def_obj ViaDorig [tI "A"; tO "=="; tO "="] "A" [tO "=="]] [tI "A"]
         <> run_S_case [def_obj ViaDorig [tI "A"; tO "=="; tO "="] "A" [tO "=="]] [tI "A"]
      /\ agree [def_obj (ViaD 1 true) [tI "A"; tOw "=="] "A" [tO "=="]] [tI "A"])
  /\ was_wrong (run_M_with true cur_cat_fix cur_str_white cur_resub_fix cur_base cur_rescan cur_va_fix cur_va_whole)
               w_str [tI "S"; tP "("; tIw "a"; tP ")"]
  /\ was_wrong (run_M_with cur_lead false cur_str_white cur_resub_fix cur_base cur_rescan cur_va_fix cur_va_whole)
               w_cat [tI "F"; tP "("; tI "a"; tP ","; tP ")"]
  /\ was_wrong (run_M_with cur_lead false cur_str_white cur_resub_fix cur_base cur_rescan cur_va_fix cur_va_whole)
               w_cat3 [tI "F"; tP "("; tP ","; tP ","; tN "1"; tP ")"]
  /\ was_wrong (run_M_with cur_lead cur_cat_fix cur_str_white cur_resub_fix (Some "None") cur_rescan cur_va_fix cur_va_whole)
               [def_obj ViaDefine [tIw "None"; tNw "1"] "None" [tN "1"]] [tI "None"]
  /\ was_wrong (run_M_with cur_lead cur_cat_fix cur_str_white cur_resub_fix cur_base true cur_va_fix cur_va_whole)
               w_fg [tI "f"; tP "("; tN "2"; tP ")"; tP "("; tN "9"; tP ")"]
  /\ was_wrong (run_M_with cur_lead cur_cat_fix cur_str_white cur_resub_fix cur_base true cur_va_fix cur_va_whole) w_lp [tI "X"]
  /\ was_wrong (run_M_with cur_lead cur_cat_fix cur_str_white cur_resub_fix cur_base cur_rescan false cur_va_whole)
               w_log [tI "LOG"; tP "("; tN "1"; tP ")"]
  /\ was_wrong (run_M_with cur_lead cur_cat_fix false cur_resub_fix cur_base cur_rescan cur_va_fix cur_va_whole)
               w_tb [tI "T"; tP "("; tI "b"; tP ")"]
  /\ was_wrong (run_M_with cur_lead cur_cat_fix cur_str_white cur_resub_fix cur_base cur_rescan cur_va_fix false)
               w_vacomma [tI "H"; tP "("; tN "7"; tPw ","; tN "8"; tP ")"]
  /\ was_wrong (run_M_with cur_lead cur_cat_fix cur_str_white false cur_base cur_rescan cur_va_fix cur_va_whole)
               w_resub [tI "G"; tP "("; tN "1"; tP ","; tI "x"; tP ")"].
Proof.
  exact (conj original_dashD_equals (conj original_leading_blank (conj original_empty_paste_operand (conj original_two_empty_paste_operands
        (conj original_macro_named_None (conj original_rescan_following_source
        (conj original_rescan_paren_indirection (conj original_variadic_unused (conj original_string_white (conj original_variadic_comma_white original_operand_resubstituted)))))))))).
Qed.
Print Assumptions C03_repaired_defects_refuted_and_now_conform.

(* ------------------------------------------------------------------ *)
(* non-vacuity                                                         *)
(* ------------------------------------------------------------------ *)
(* mutual recursion: A -> B + A, B -> A 1, with `defined ( B )` and `defined Z` in the source;
   the hypotheses of C03_objlike hold and the expansion is non-trivial *)
Example C03_nonvacuous_objlike :
  let ds := [("A", [tI "B"; tOw "+"; tIw "A"]); ("B", [tI "A"; tNw "1"])] in
  let input := [tI "A"; tIw "B"; tIw "defined"; tP "("; tI "B"; tP ")"; tIw "defined"; tIw "Z"] in
  wf_defs ds = true /\ wfd2 input = true /\ S (List.length ds) < Gen.C03_tables.max_level /\
  run_spec 50 (stable_of_defs ds) (map btok_of input)
  = Ok [(KId, "A"); (KNum, "1"); (KOp, "+"); (KId, "A"); (KId, "B"); (KOp, "+"); (KId, "A"); (KNum, "1");
        (KNum, "1"); (KNum, "0")].
Proof.
  cbv zeta. split; [vm_compute; reflexivity|]. split; [vm_compute; reflexivity|].
  split; [apply PeanoNat.Nat.ltb_lt; vm_compute; reflexivity|vm_compute; reflexivity].
Qed.

(* #define N 2 / #define M N + M / #define GE(a,b) ((a) > N || (b) >= a) ;
   source  defined(N) && GE(M 1, q) + N   (the first argument contains a self-referential object-like macro) *)
Example C03_nonvacuous_funlike :
  let fs := [FObj "N" [tN "2"]; FObj "M" [tI "N"; tOw "+"; tIw "M"];
             FFun "GE" ["a"; "b"] [tP "("; tP "("; tI "a"; tP ")"; tOw ">"; tIw "N"; tOw "||"; tPw "("; tI "b"; tP ")";
                                   tOw ">="; tIw "a"; tP ")"]] in
  let items := [SToks [tI "defined"; tP "("; tI "N"; tP ")"; tOw "&&"];
                SCall (tIw "GE") (tP "(") [tI "M"; tNw "1"] [(tP ",", [tIw "q"])] (tP ")"); SToks [tOw "+"; tIw "N"]] in
  wf_fdefs fs = true /\ params_plain fs = true /\ Forall (wf_src3 fs) items /\
  run_spec 80 (stable2 fs) (map btok_of (flat_map stoks items))
  = Ok [(KNum, "1"); (KOp, "&&");
        (KPunct, "("); (KPunct, "("); (KNum, "2"); (KOp, "+"); (KId, "M"); (KNum, "1"); (KPunct, ")"); (KOp, ">"); (KNum, "2");
        (KOp, "||"); (KPunct, "("); (KId, "q"); (KPunct, ")"); (KOp, ">="); (KNum, "2"); (KOp, "+"); (KId, "M"); (KNum, "1");
        (KPunct, ")"); (KOp, "+"); (KNum, "2")].
Proof.
  cbv zeta. split; [vm_compute; reflexivity|]. split; [vm_compute; reflexivity|]. split.
  - constructor; [|constructor; [|constructor; [|constructor]]].
    + vm_compute. reflexivity.
    + split; [vm_compute; reflexivity|]. repeat split; try (vm_compute; reflexivity).
      * constructor; [|constructor]. split; vm_compute; reflexivity.
      * eexists; eexists; eexists. split; vm_compute; reflexivity.
    + vm_compute. reflexivity.
  - vm_compute. reflexivity.
Qed.

(* a variadic head with three parameters satisfies the hypothesis of C03_cmdline_define,
   and the macro it builds is a real one *)
Example C03_nonvacuous_cmdline :
  wf_head (Some [PName "a"; PName "b"; PDots])
  /\ exists m, macro_from_dash_d (head false "F" (Some [PName "a"; PName "b"; PDots])
                                   ++ [tIw "a"; tO "##"; tI "b"; tIw "__VA_ARGS__"]) 10 true = Ok m
               /\ m_args m = ["a"; "b"; "__VA_ARGS__"] /\ m_variadic m = true /\ m_strcat m = true.
Proof. split; [cbn; auto|]. eexists. vm_compute. repeat split. Qed.
