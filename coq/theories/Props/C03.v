(* C03 property-level theorems (under construction). *)
From Coq Require Import String List.
From CBI Require Import Lib.Data Lib.Res Model.C03tok Model.C03 Model.C03run Spec.C03.
Import ListNotations.
Local Open Scope string_scope.

Example C03_smoke :
  expand_cur [] [mkTok KId false "a" true] = Ok [mkTok KId false "a" true].
Proof. vm_compute. reflexivity. Qed.
Print Assumptions C03_smoke.
