(* C13 - Compilation-database entries resolve to the right files and directories.
   Only statements, each closed by [exact], with its assumptions printed.

   M = Model/C13.v (load_database of the REPAIRED code, on strings, with the
       posixpath model of Model/C13p.v);
   S = Spec/C13.v (locations: `directory` relative to the root, `file` and -I
       relative to that directory, component by component). *)
From Coq Require Import Bool Arith Ascii String List.
From CBI Require Import Lib.Res Model.C13p Model.C13fs Model.C13 Spec.C13 Proofs.C13p Proofs.C13.
Import ListNotations.

(* For EVERY working directory string that is absolute, EVERY rootdir, directory
   (absent / absolute / relative) and file spelling, with any '.', '..', '//':
   the string M puts in entry["file"] is the rendering - one or two leading
   slashes, names separated by single slashes - of the location S assigns, and
   that location consists of proper names only (no "", ".", ".."). *)
Theorem C13_file :
  forall cwd rootdir directory file,
    isabs cwd = true ->
    exists k, (k = 1 \/ k = 2) /\
      file_path cwd (filedir cwd rootdir directory) file
        = render k (s_file (resolve (cwdloc cwd) rootdir) directory file) /\
      all_proper (s_file (resolve (cwdloc cwd) rootdir) directory file).
Proof. exact file_path_spec. Qed.
Print Assumptions C13_file.

(* the same for every -I / -isystem value *)
Theorem C13_include_dirs :
  forall cwd rootdir directory i,
    isabs cwd = true ->
    exists k, (k = 1 \/ k = 2) /\
      inc_path cwd (filedir cwd rootdir directory) i
        = render k (resolve (s_dir (resolve (cwdloc cwd) rootdir) directory) i) /\
      all_proper (resolve (s_dir (resolve (cwdloc cwd) rootdir) directory) i).
Proof. exact inc_path_spec. Qed.
Print Assumptions C13_include_dirs.

(* what "rendering" means: read from anywhere, a rendered proper location
   denotes exactly that location *)
Theorem C13_render_denotes :
  forall c k l, 1 <= k -> all_proper l -> resolve c (render k l) = l.
Proof. exact resolve_render. Qed.
Print Assumptions C13_render_denotes.

(* os.path.join(a, b) read by a process = a, then b: the reason why joining to
   the entry's directory is what a compiler started there sees *)
Theorem C13_join_is_chdir :
  forall l a b, resolve l (join a b) = resolve (resolve l a) b.
Proof. exact resolve_join. Qed.
Print Assumptions C13_join_is_chdir.

(* normpath law: an absolute string normalises to one or two slashes followed
   by the proper names of its location (no ".", "..", empty segment) *)
Theorem C13_normpath_absolute :
  forall t, isabs t = true ->
    normpath t = render (initial_slashes t) (resolve [] t) /\
    (initial_slashes t = 1 \/ initial_slashes t = 2).
Proof. exact normpath_abs. Qed.
Print Assumptions C13_normpath_absolute.

(* non-vacuity: a relative `directory` with a '..' in the file and a relative -I *)
Example C13_nonvacuous :
  let cwd := s "/w" in let rootdir := s "/w/root" in
  let d := Some (s "./build/") in
  isabs cwd = true /\
  file_path cwd (filedir cwd rootdir d) (s "..//src/./a.c") = s "/w/root/src/a.c" /\
  s_file (resolve (cwdloc cwd) rootdir) d (s "..//src/./a.c") = [s "a.c"; s "src"; s "root"; s "w"] /\
  inc_path cwd (filedir cwd rootdir d) (s "inc") = s "/w/root/build/inc" /\
  inc_path cwd (filedir cwd (s "//w/root") None) (s "../x") = s "//w/x".
Proof. vm_compute. repeat split. Qed.
