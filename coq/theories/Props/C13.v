(* C13 - Compilation-database entries resolve to the right files and directories.
   Only statements, each closed by [exact], with its assumptions printed.

   M = Model/C13.v (load_database of the REPAIRED code, on strings, with the
       posixpath model of Model/C13p.v);
   S = Spec/C13.v (locations: `directory` relative to the root, `file` and -I
       relative to that directory, component by component). *)
From Coq Require Import Bool Arith Ascii String List.
From CBI Require Import Lib.Res Model.C13p Model.C13fs Model.C13 Spec.C13 Spec.C13db
  Proofs.C13p Proofs.C13 Proofs.C13db Proofs.C13k Proofs.C13n Proofs.C13c2.
From CBI Require Model.C04 Spec.C04 Proofs.C13c.
Import ListNotations.

(* For EVERY working directory string that is absolute, EVERY rootdir, directory
   (absent / absolute / relative) and file spelling, with any '.', '..', '//':
   the string M puts in entry["file"] is the rendering - one or two leading
   slashes, names separated by single slashes - of the location S assigns, and
   that location consists of proper names only (no "", ".", ".."). *)
Theorem C13_file :
  forall cwd rootdir directory file,
    isabs cwd = true ->
    exists k, (k = 1 \/ k = 2) /\
      file_path cwd (filedir cwd rootdir directory) file
        = render k (s_file (resolve (cwdloc cwd) rootdir) directory file) /\
      all_proper (s_file (resolve (cwdloc cwd) rootdir) directory file).
Proof. exact file_path_spec. Qed.
Print Assumptions C13_file.

(* the same for every -I / -isystem value *)
Theorem C13_include_dirs :
  forall cwd rootdir directory i,
    isabs cwd = true ->
    exists k, (k = 1 \/ k = 2) /\
      inc_path cwd (filedir cwd rootdir directory) i
        = render k (resolve (s_dir (resolve (cwdloc cwd) rootdir) directory) i) /\
      all_proper (resolve (s_dir (resolve (cwdloc cwd) rootdir) directory) i).
Proof. exact inc_path_spec. Qed.
Print Assumptions C13_include_dirs.

(* the line as it was before the repair (include_paths joined to the ROOT) does
   not have this property: a relative -I under a relative `directory` *)
Theorem C13_include_dirs_root_join_refuted :
  exists cwd rootdir directory i,
    isabs cwd = true /\
    forall k, inc_path_root_join cwd rootdir i
              <> render k (resolve (s_dir (resolve (cwdloc cwd) rootdir) directory) i).
Proof. exact inc_path_root_join_wrong. Qed.
Print Assumptions C13_include_dirs_root_join_refuted.

(* what "rendering" means: read from anywhere, a rendered proper location
   denotes exactly that location *)
Theorem C13_render_denotes :
  forall c k l, 1 <= k -> all_proper l -> resolve c (render k l) = l.
Proof. exact resolve_render. Qed.
Print Assumptions C13_render_denotes.

(* os.path.join(a, b) read by a process = a, then b: the reason why joining to
   the entry's directory is what a compiler started there sees *)
Theorem C13_join_is_chdir :
  forall l a b, resolve l (join a b) = resolve (resolve l a) b.
Proof. exact resolve_join. Qed.
Print Assumptions C13_join_is_chdir.

(* normpath law: an absolute string normalises to one or two slashes followed
   by the proper names of its location (no ".", "..", empty segment) *)
Theorem C13_normpath_absolute :
  forall t, isabs t = true ->
    normpath t = render (initial_slashes t) (resolve [] t) /\
    (initial_slashes t = 1 \/ initial_slashes t = 2).
Proof. exact normpath_abs. Qed.
Print Assumptions C13_normpath_absolute.

(* normpath is idempotent on every string, absolute or relative *)
Theorem C13_normpath_idempotent : forall t, normpath (normpath t) = normpath t.
Proof. exact normpath_idempotent. Qed.
Print Assumptions C13_normpath_idempotent.

(* a relative string normalises to "."  or to some ".." followed by proper names *)
Theorem C13_normpath_relative :
  forall t, isabs t = false ->
    exists names ups, Forall (fun x => proper x = true) names /\
      normpath t = match repeat dotdot ups ++ rev names with [] => dot | comps => intercalate comps end /\
      isabs (normpath t) = false.
Proof. exact normpath_rel. Qed.
Print Assumptions C13_normpath_relative.

(* the generated extension table (source.is_source_file) still separates the
   sources a compilation database names from objects, archives and programs *)
Theorem C13_table_sane :
  forallb is_source_file (map s ["a.c"%string; "d/b.cpp"%string; "x.y.cc"%string; "k.f90"%string; "K.F90"%string; "h.h"%string; "v.hpp"%string; "../z.cxx"%string; "dir.d/u.cu"%string]) = true /\
  existsb is_source_file (map s ["a.o"%string; "lib.a"%string; "a.out"%string; "prog"%string; ".c"%string; "c"%string; "a.c/.."%string; "so.so"%string; "a."%string; ""%string]) = false.
Proof. vm_compute. split; reflexivity. Qed.
Print Assumptions C13_table_sane.

(* ---- what a real compiler process would do (kernel walk on a tree without links) ---- *)
(* If a compiler started in `directory` (chdir succeeds) can open `file`, the
   file it opens is at S's location; an include directory it can search is at
   S's location.  (The converse needs every directory a spelling passes through
   to exist; the harness computes that per case and counts the rest as outside
   the domain.) *)
Theorem C13_compiler_view :
  forall fs root directory,
    (forall file l, k_file fs root directory file = Some l ->
                    l = s_file root directory file /\ kind_of fs l = Some false) /\
    (forall i l, k_inc fs root directory i = Some l ->
                 l = resolve (s_dir root directory) i /\ kind_of fs l = Some true).
Proof. intros fs root d. split; [apply k_file_lexical|apply k_inc_lexical]. Qed.
Print Assumptions C13_compiler_view.

(* os.path.exists on the normalised string = the location exists, in every
   tree in which the parent of each object is a directory *)
Theorem C13_exists :
  forall fs c k l, wf_fs fs -> 1 <= k -> all_proper l ->
    os_path_exists fs c (render k l) = match kind_of fs l with Some _ => true | None => false end.
Proof. exact exists_render. Qed.
Print Assumptions C13_exists.

(* ---- skipped entries ---- *)
(* the three kinds of entries named by the property are skipped, each with a warning *)
Theorem C13_skipped_kinds :
  forall fs cwd rootdir d f,
    do_entry fs cwd rootdir d f [] = Ok ([], [WUnsupported]) /\
    (forall a, is_source_file f = false -> do_entry fs cwd rootdir d f a = Ok ([], [WUnsupported])) /\
    (forall a, is_supported f a = true ->
       os_path_exists fs (cwdloc cwd) (file_path cwd (filedir cwd rootdir d) f) = false ->
       do_entry fs cwd rootdir d f a = Ok ([], [WMissing (file_path cwd (filedir cwd rootdir d) f)])).
Proof.
  intros. split; [apply empty_command_skipped|].
  split; [apply non_source_skipped|apply missing_file_skipped].
Qed.
Print Assumptions C13_skipped_kinds.

(* a skipped entry never aborts or alters the rest: with it or without it the
   database loads to the same entries (or the same error), and the warnings
   differ by exactly its own warning, in place *)
Theorem C13_skips_are_local :
  forall fs cwd rootdir xs bad ys w,
    skipped fs cwd rootdir bad w ->
    match load_database fs cwd rootdir (xs ++ ys) with
    | Err e => load_database fs cwd rootdir (xs ++ bad :: ys) = Err e
    | Ok (o, ws) => exists w1 w2, ws = w1 ++ w2 /\
                      load_database fs cwd rootdir (xs ++ bad :: ys) = Ok (o, w1 ++ w :: w2)
    end.
Proof. exact skips_are_local. Qed.
Print Assumptions C13_skips_are_local.

(* nothing but resolved database entries comes out of load_database: every
   returned entry is the resolution of some entry of the database, with that
   entry's own -I values *)
Theorem C13_outputs_are_entries :
  forall fs cwd rootdir es o w x,
    load_database fs cwd rootdir es = Ok (o, w) -> In x o ->
    exists e f a, In e es /\ e_file e = Some f /\ e_argv e = Some a /\
      o_file x = file_path cwd (filedir cwd rootdir (e_dir e)) f /\
      o_incs x = map (inc_path cwd (filedir cwd rootdir (e_dir e))) (extract_incs (tl a)).
Proof. exact only_named_files. Qed.
Print Assumptions C13_outputs_are_entries.

(* ---- the whole database: M = S ---- *)
(* For every well-formed tree, absolute working directory and database that S
   is defined on (every object has `file` and a command):
   load_database succeeds; reading its strings back as locations gives exactly
   the (file, include directories) S assigns to the analysed entries, in
   order; and its warnings are exactly S's skips, in order, plus the final
   "no files" warning iff nothing is analysed. *)
Theorem C13_database :
  forall fs cwd rootdir, wf_fs fs -> isabs cwd = true ->
  forall es outs,
    s_db fs (resolve (cwdloc cwd) rootdir) es = Some outs ->
    exists o w, load_database fs cwd rootdir es = Ok (o, w) /\
      map denote_entry o = opens outs /\
      map denote_warn w = swarns outs ++ (match opens outs with [] => [SWNoFiles] | _ => [] end).
Proof. exact load_database_spec. Qed.
Print Assumptions C13_database.

(* ---- "only files named by entries, and what they include, are attributed" ---- *)
(* Composition with C04's multi-file model of the finder.  For every entry
   load_database returns (it is S's resolution of a database entry, by
   C13_database) and EVERY successful run of the finder's model on it (file and
   include directories as returned; any -D set, any -include names, any include
   depth), every (file, node) attributed to the platform lies in a file
   REACHABLE from the entry: the entry's file, a -include target, or the answer
   of the header search (includer's directory unless angle form, then the
   entry's include directories in order) for an #include directive that is a
   line of a file already reached.
   Hypotheses: the files are structured (conditionals nest - what gcc accepts);
   the database is one S is defined on.  The finder's model is tied to
   finder.find by C04's correspondence, not by this check. *)
Theorem C13_only_named_files :
  forall fs cwd rootdir, wf_fs fs -> isabs cwd = true ->
  forall es outs,
    s_db fs (resolve (cwdloc cwd) rootdir) es = Some outs ->
    exists o w, load_database fs cwd rootdir es = Ok (o, w) /\
      forall x, In x o ->
        In (denote_entry x) (opens outs) /\
        forall (fs4 : Model.C04.fsys) fuel defs forced r,
          Spec.C04.fs_structured fs4 ->
          Model.C04.run_tu_M fs4 fuel (tu_of x defs forced) = Ok r ->
          forall g id, In (g, id) (Model.C04.assoc r) ->
                       Proofs.C13c.reach fs4 (tu_of x defs forced) g.
Proof. exact only_named_files_full. Qed.
Print Assumptions C13_only_named_files.

(* non-vacuity: a relative `directory` with a '..' in the file and a relative -I *)
Example C13_nonvacuous :
  let cwd := s "/w" in let rootdir := s "/w/root" in
  let d := Some (s "./build/") in
  isabs cwd = true /\
  file_path cwd (filedir cwd rootdir d) (s "..//src/./a.c") = s "/w/root/src/a.c" /\
  s_file (resolve (cwdloc cwd) rootdir) d (s "..//src/./a.c") = [s "a.c"; s "src"; s "root"; s "w"] /\
  inc_path cwd (filedir cwd rootdir d) (s "inc") = s "/w/root/build/inc" /\
  inc_path cwd (filedir cwd (s "//w/root") None) (s "../x") = s "//w/x".
Proof. vm_compute. repeat split. Qed.

(* non-vacuity of the database theorems: a well-formed tree, a database mixing
   a relative `directory`, an object file, an empty command and a missing file *)
Definition ex_fs : fsys :=
  [([s "w"], true); ([s "root"; s "w"], true); ([s "src"; s "root"; s "w"], true);
   ([s "build"; s "root"; s "w"], true); ([s "inc"; s "build"; s "root"; s "w"], true);
   ([s "a.c"; s "src"; s "root"; s "w"], false); ([s "a.o"; s "build"; s "root"; s "w"], false)].
Definition ex_db : list entry :=
  [ {| e_dir := Some (s "build"); e_file := Some (s "../src/a.c"); e_argv := Some [s "gcc"; s "-Iinc"; s "-c"; s "../src/a.c"] |};
    {| e_dir := Some (s "build"); e_file := Some (s "a.o"); e_argv := Some [s "gcc"; s "a.o"] |};
    {| e_dir := None; e_file := Some (s "src/a.c"); e_argv := Some [] |};
    {| e_dir := Some (s "/w/root/build"); e_file := Some (s "gen.c"); e_argv := Some [s "cc"; s "gen.c"] |} ].
Example C13_nonvacuous_db :
  wf_fs ex_fs /\
  s_db ex_fs (resolve (cwdloc (s "/w")) (s "/w/root")) ex_db
    = Some [SOpen [s "a.c"; s "src"; s "root"; s "w"] [[s "inc"; s "build"; s "root"; s "w"]];
            SSkipUnsupported; SSkipUnsupported; SSkipMissing [s "gen.c"; s "build"; s "root"; s "w"]] /\
  load_database ex_fs (s "/w") (s "/w/root") ex_db
    = Ok ([ {| o_file := s "/w/root/src/a.c"; o_incs := [s "/w/root/build/inc"] |} ],
          [WUnsupported; WUnsupported; WMissing (s "/w/root/build/gen.c")]) /\
  skipped ex_fs (s "/w") (s "/w/root") (nth 1 ex_db (Build_entry None None None)) WUnsupported /\
  k_file ex_fs [s "root"; s "w"] (Some (s "build")) (s "../src/a.c") = Some [s "a.c"; s "src"; s "root"; s "w"].
Proof.
  split; [apply wf_b_correct; vm_compute; reflexivity|].
  split; [vm_compute; reflexivity|].
  split; [vm_compute; reflexivity|].
  split; [|vm_compute; reflexivity].
  exists (s "a.o"), [s "gcc"; s "a.o"]. repeat split.
Qed.

(* non-vacuity of C13_only_named_files: the entry of C13_nonvacuous_db fed to
   the finder's model on a two-file tree: a.c includes <h.h>, found in build/inc *)
Definition ex_fs4 : Model.C04.fsys :=
  [ (["w"; "root"; "src"; "a.c"]%string,
       [(0, Model.C01.KPlain (Model.C04.AInclude 0 (Model.C04.IAngle ["h.h"%string]))); (1, Model.C01.KPlain Model.C04.ACode)]);
    (["w"; "root"; "build"; "inc"; "h.h"]%string, [(0, Model.C01.KPlain Model.C04.ACode)]);
    (["w"; "root"; "inc"; "h.h"]%string, [(0, Model.C01.KPlain Model.C04.ACode)]) ].
Example C13_nonvacuous_closure :
  let x := {| o_file := s "/w/root/src/a.c"; o_incs := [s "/w/root/build/inc"] |} in
  Spec.C04.fs_structured ex_fs4 /\
  match Model.C04.run_tu_M ex_fs4 3 (tu_of x [] []) with
  | Ok r => map fst (Model.C04.assoc r)
  | Err _ => []
  end = [["w"; "root"; "src"; "a.c"]; ["w"; "root"; "build"; "inc"; "h.h"]; ["w"; "root"; "src"; "a.c"]]%string.
Proof.
  split; [|vm_compute; reflexivity].
  intros p ls H. unfold ex_fs4 in H. cbn [Model.C04.fs_get] in H.
  destruct (Model.C04.path_eqb p _).
  { inversion H; subst.
    exists [Spec.C01.IPlain 0 (Model.C04.AInclude 0 (Model.C04.IAngle ["h.h"%string])); Spec.C01.IPlain 1 Model.C04.ACode].
    reflexivity. }
  destruct (Model.C04.path_eqb p _).
  { inversion H; subst. exists [Spec.C01.IPlain 0 Model.C04.ACode]. reflexivity. }
  destruct (Model.C04.path_eqb p _); [|discriminate].
  inversion H; subst. exists [Spec.C01.IPlain 0 Model.C04.ACode]. reflexivity.
Qed.
