(* C13 - placeholder, theorems follow *)
From CBI Require Import Model.C13i.
