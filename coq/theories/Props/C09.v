(* C09 — Code-base membership: extension, location, git-style exclude patterns.
   Only statements, each closed by [exact], with its assumptions printed.

   M = Model/C09.v: CodeBase.__init__/__contains__/__iter__ as written, with
       pathlib's resolve/rglob and pathspec's GitIgnoreSpec modelled (third party:
       modelled and checked by the differential run, not verified).
   S = Spec/C09.v: git's gitignore semantics including the parent-directory rule,
       validated against `git check-ignore --no-index`. *)
From Coq Require Import Bool Arith Ascii String List.
From CBI Require Import Lib.Res Lib.Data Lib.C09_glob Gen.C09_tables Model.C09 Spec.C09
                        Proofs.C09p Proofs.C09 Proofs.C09f Proofs.C09e Proofs.C09t Proofs.C09r.
Import ListNotations.
Local Open Scope string_scope.
Local Open Scope list_scope.

(* ---- enumeration ---- *)

(* For EVERY file system, code base and list `out` the iteration returns: a path is
   yielded iff rglob of one of the directories produces it and `in` accepts it. *)
Theorem C09_iter_exact :
  forall (fs : fsys) (cb : codebase) (out : list path), iter fs cb = Ok out ->
  forall p, In p out <-> In p (flat_map (rglob fs) (cb_roots cb)) /\ contains_abs fs cb p = Ok true.
Proof. exact iter_exact. Qed.
Print Assumptions C09_iter_exact.

(* ... and for every well-formed file system (the parent of every entry is a
   directory), every physical process directory, every code base whose
   directories are directories and EVERY spelling s accepted by `in`: the real
   path of s is itself accepted and is among the enumerated paths (whenever the
   enumeration does not raise).  No bound on tree size, depth or link chains. *)
Theorem C09_iter_complete :
  forall (fs : fsys) (cwd : path) (cb : codebase) (s : string),
    wf fs -> clean fs (rev cwd) ->
    (forall d, In d (cb_roots cb) -> lookup fs d = Some KDir) ->
    contains fs cwd cb s = Ok true ->
    exists r, resolve fs cwd s = Ok r /\ contains_abs fs cb r = Ok true /\
              forall out, iter fs cb = Ok out -> In r out.
Proof. exact iter_complete. Qed.
Print Assumptions C09_iter_complete.

(* With distinct entries and code-base directories that are real directories, none
   inside another, every path is yielded at most once (C16 relies on this).  The same
   physical file can still appear under the names of links to it. *)
Theorem C09_iter_nodup :
  forall (fs : fsys) (cb : codebase) (out : list path),
    NoDup (map fst fs) -> roots_ok fs (cb_roots cb) = true -> iter fs cb = Ok out -> NoDup out.
Proof. exact iter_nodup. Qed.
Print Assumptions C09_iter_nodup.

(* ---- spelling ---- *)

(* Membership (model and spec alike) depends on the real path only: two texts,
   even asked from two different process directories, that resolve to the same
   path get the same answer - relative, absolute, with `..`, through links. *)
Theorem C09_spelling_independent :
  forall (fs : fsys) (cb : codebase) (c1 c2 : path) (s1 s2 : string),
    resolve fs c1 s1 = resolve fs c2 s2 ->
    contains fs c1 cb s1 = contains fs c2 cb s2 /\ member fs c1 cb s1 = member fs c2 cb s2.
Proof. exact spelling_independent. Qed.
Print Assumptions C09_spelling_independent.

(* Compositionality of resolution, the content behind "however it is spelled": if two
   texts s1, s2 (asked from process directories c1, c2) name the same directory d -
   relative, absolute, with `..`, through any chain of links - then for EVERY
   continuation q the paths s1/q and s2/q (when they resolve at all, i.e. hit no link
   cycle) get the same answer from `in` and from the specification. *)
Theorem C09_respelled_prefix :
  forall (fs : fsys) (cb : codebase) (c1 c2 : path) (s1 s2 q : string) (d : path),
    s1 <> "" -> s2 <> "" ->
    resolve fs c1 s1 = Ok d -> resolve fs c2 s2 = Ok d ->
    (exists r1, resolve fs c1 (join s1 q) = Ok r1) -> (exists r2, resolve fs c2 (join s2 q) = Ok r2) ->
    contains fs c1 cb (join s1 q) = contains fs c2 cb (join s2 q) /\
    member fs c1 cb (join s1 q) = member fs c2 cb (join s2 q).
Proof. exact respelled_prefix_text. Qed.
Print Assumptions C09_respelled_prefix.

(* resolve produces link-free paths and is idempotent on them (any fuel, any links) *)
Theorem C09_resolve_idempotent :
  forall (fs : fsys) (cwd : path) (s : string) (r : path),
    clean fs (rev cwd) -> resolve fs cwd s = Ok r -> resolve_comps fs [] r = Ok r.
Proof. intros fs cwd s r Hc Hr. exact (resolve_comps_idem fs r (resolve_clean fs cwd s r Hc Hr)). Qed.
Print Assumptions C09_resolve_idempotent.

(* the symlink-loop error (fuel exhausted) cannot arise when no link is involved, and
   a path that resolves at all resolves to the same result with any larger fuel *)
Theorem C09_resolve_fuel :
  (forall fs cwd s, (forall p t, lookup fs p <> Some (KLink t)) -> exists r, resolve fs cwd s = Ok r) /\
  (forall fs f1 f2 acc t r1 r2, rp f1 fs acc t = Ok r1 -> rp f2 fs acc t = Ok r2 -> r1 = r2).
Proof. exact (conj resolve_total_nolinks rp_det). Qed.
Print Assumptions C09_resolve_fuel.

(* ---- extensions (tables regenerated from the source on every run) ---- *)
Theorem C09_extensions :
  (forall e, In e source_extensions <->
             exists lang exts, In (lang, exts) language_extensions /\ In lang supported_languages /\ In e exts) /\
  (forall lang, In lang supported_languages <-> exists exts, In (lang, exts) language_extensions).
Proof. exact extensions_agree. Qed.
Print Assumptions C09_extensions.

(* hence, with the same extension function on both sides (after the repair), a path
   is accepted by is_source_file exactly when FileLanguage knows a language for it *)
Theorem C09_source_iff_language : forall p, has_language p = is_source_file p.
Proof. exact has_language_eq. Qed.
Print Assumptions C09_source_iff_language.

(* before the repair is_source_file used pathlib's suffix: "..c" was a source file
   without a language (and the tools aborted on it) *)
Theorem C09_suffix_refuted :
  exists p, is_source_file_before_fix p = true /\ has_language p = false.
Proof. exists ["r"; "..c"]. vm_compute. split; reflexivity. Qed.
Print Assumptions C09_suffix_refuted.

(* ---- laws of the matcher (S) ---- *)
Theorem C09_last_match_wins :
  forall ps p cs d, level (ps ++ [p]) cs d = if pat_hits d cs p then Some (negb (p_neg p)) else level ps cs d.
Proof. exact level_snoc. Qed.
Print Assumptions C09_last_match_wins.

Theorem C09_negation_reincludes :
  forall ps p cs, p_neg p = true -> pat_hits false cs p = true ->
    (forall d, In d (sprefixes cs) -> is_excl (level ps d true) = false) ->
    git_ignored (ps ++ [p]) cs = false.
Proof. exact negation_reincludes. Qed.
Print Assumptions C09_negation_reincludes.

(* the parent rule itself: below an excluded directory nothing is re-included by a
   later pattern that does not match that directory *)
Theorem C09_parent_rule_of_spec :
  forall ps p cs d, In d (sprefixes cs) -> is_excl (level ps d true) = true -> pat_hits true d p = false ->
    git_ignored (ps ++ [p]) cs = true.
Proof. exact parent_rule_spec. Qed.
Print Assumptions C09_parent_rule_of_spec.

(* appending a positive pattern never re-includes anything - for git and for pathspec *)
Theorem C09_positive_monotone :
  forall ps p cs, p_neg p = false ->
    (git_ignored ps cs = true -> git_ignored (ps ++ [p]) cs = true) /\
    (ps_match ps cs = true -> ps_match (ps ++ [p]) cs = true).
Proof. intros ps p cs Hn. exact (conj (git_positive_monotone ps p cs Hn) (ps_positive_monotone ps p cs Hn)). Qed.
Print Assumptions C09_positive_monotone.

(* "/name" matches at the root only; "name" matches the last component at any depth *)
Theorem C09_anchored_only_at_root :
  forall g cs,
    (bm [SGlob g] cs = true <-> exists c, cs = [c] /\ gmatch g c = true) /\
    (bm [SDStar; SGlob g] cs = true <-> exists pre c, cs = pre ++ [c] /\ gmatch g c = true).
Proof. intros g cs. exact (conj (anchored_only_at_root g cs) (unanchored_any_depth g cs)). Qed.
Print Assumptions C09_anchored_only_at_root.

(* a pattern without `**` matches only paths with exactly as many components as it
   has segments: no star, question mark or bracket ever absorbs a slash;
   and a lone star matches every single component *)
Theorem C09_star_stops_at_slash :
  (forall gs cs, bm (map SGlob gs) cs = true -> length cs = length gs) /\
  (forall c, gmatch [GStar] c = true).
Proof. exact (conj star_stops_at_slash star_matches_component). Qed.
Print Assumptions C09_star_stops_at_slash.

(* the same laws read on pattern TEXT, for every literal name n (non-empty, made of
   alphanumerics, '.', '_') and under both readings of the line: "/n" hits exactly
   the root entry n; "n" hits every path whose last component is n; "n/" hits such
   directories only *)
Theorem C09_text_anchoring :
  forall (g : bool) (n : chars) (p1 p2 p3 : apat), n <> [] -> forallb class_plain n = true ->
    parse g (string_of_list ("/"%char :: n)) = PPat p1 /\
    parse g (string_of_list n) = PPat p2 /\
    parse g (string_of_list (n ++ ["/"%char])) = PPat p3 ->
    forall cs isdir,
      (pat_hits isdir cs p1 = true <-> cs = [n]) /\
      (pat_hits isdir cs p2 = true <-> exists pre, cs = pre ++ [n]) /\
      (pat_hits isdir cs p3 = true <-> isdir = true /\ exists pre, cs = pre ++ [n]).
Proof. exact text_anchoring. Qed.
Print Assumptions C09_text_anchoring.

(* ... and those three texts (and "!n") do parse, to the expected abstract patterns *)
Theorem C09_text_patterns :
  forall (g : bool) (n : chars), n <> [] -> forallb class_plain n = true ->
    parse g (string_of_list ("/"%char :: n)) = PPat (mkpat false false [SGlob (map GLit n)]) /\
    parse g (string_of_list n) = PPat (mkpat false false [SDStar; SGlob (map GLit n)]) /\
    parse g (string_of_list (n ++ ["/"%char])) = PPat (mkpat false true [SDStar; SGlob (map GLit n)]) /\
    parse g (string_of_list ("!"%char :: n)) = PPat (mkpat true false [SDStar; SGlob (map GLit n)]).
Proof. exact text_patterns. Qed.
Print Assumptions C09_text_patterns.

Theorem C09_dir_pattern_needs_dir :
  forall p cs, p_dir p = true -> pat_hits false cs p = false /\ outcome_of p cs <> FileM.
Proof. exact dir_pattern_needs_dir. Qed.
Print Assumptions C09_dir_pattern_needs_dir.

(* ---- the exclude test: pathspec as CBI calls it, against git ---- *)

(* C09_exclude_sound (whatever CBI excludes, git ignores - for ALL lists) is false: see
   C09_dstar_dir_tail_refuted.  Proved: for EVERY list of patterns without a line
   ending in "/**/" and EVERY root-relative path, whatever the model of
   GitIgnoreSpec.match_file (asked about the path of the file only, as
   CodeBase.__contains__ does) excludes, git ignores: there CBI never drops a file
   git keeps.  Missing: lists with a "/**/" line (known finding). *)
Theorem C09_exclude_sound_partial :
  forall (ps : list apat) (cs : list chars),
    notail ps -> ps_match ps cs = true -> git_ignored ps cs = true.
Proof. exact ps_match_sound. Qed.
Print Assumptions C09_exclude_sound_partial.

(* C09_parent_rule (M's exclude test = S's for all lists) is FALSE of the faithful
   model - see the refutations below.  Proved instead: equality for every list without
   a "/**/" line and every path outside the two class predicates of Spec/C09.v.
   Missing for the full statement: exactly those three classes (known findings). *)
Theorem C09_parent_rule_partial :
  forall (ps : list apat) (cs : list chars),
    notail ps -> parent_reinclude ps cs = false -> dir_reneg ps cs = false ->
    ps_match ps cs = git_ignored ps cs.
Proof. exact ps_match_eq_git. Qed.
Print Assumptions C09_parent_rule_partial.

Definition pats_of (ls : list string) : list apat :=
  match compile false ls with CPats ps => ps | _ => [] end.
Definition comps_of (l : list string) : list chars := map list_of_string l.

(* class 1: build/ + !build/z.c re-includes build/z.c, which git ignores *)
Theorem C09_parent_rule_refuted :
  exists (ls : list string) (cs : list chars),
    compile false ls = CPats (pats_of ls) /\ compile true ls = CPats (pats_of ls) /\
    ps_match (pats_of ls) cs = false /\ git_ignored (pats_of ls) cs = true /\
    parent_reinclude (pats_of ls) cs = true.
Proof. exists ["build/"; "!build/z.c"], (comps_of ["build"; "z.c"]). vm_compute. repeat split. Qed.
Print Assumptions C09_parent_rule_refuted.

(* class 2: x.c + a/ + !a/ re-includes a/x.c, which git ignores through x.c *)
Theorem C09_parent_renegated_refuted :
  exists (ls : list string) (cs : list chars),
    compile false ls = CPats (pats_of ls) /\ compile true ls = CPats (pats_of ls) /\
    ps_match (pats_of ls) cs = false /\ git_ignored (pats_of ls) cs = true /\
    parent_reinclude (pats_of ls) cs = false /\ dir_reneg (pats_of ls) cs = true.
Proof. exists ["x.c"; "a/"; "!a/"], (comps_of ["a"; "x.c"]). vm_compute. repeat split. Qed.
Print Assumptions C09_parent_renegated_refuted.

(* class 3: a/**/ excludes a/x.c for pathspec (it compiles the line like a/), while
   git only ignores what lies in directories strictly below a: CBI DROPS a file git keeps *)
Theorem C09_dstar_dir_tail_refuted :
  exists (ls : list string) (cs : list chars),
    compile false ls = CPats (pats_of ls) /\ compile true ls = CPats (pats_of ls) /\
    ps_match (pats_of ls) cs = true /\ git_ignored (pats_of ls) cs = false /\
    tail_involved (pats_of ls) cs = true.
Proof. exists ["a/**/"], (comps_of ["a"; "x.c"]). vm_compute. repeat split. Qed.
Print Assumptions C09_dstar_dir_tail_refuted.

(* the two readings of a line (pathspec's, git's) coincide unless pathspec rejects it *)
Theorem C09_readings_agree :
  forall ls ps, compile false ls = CPats ps -> compile true ls = CPats ps.
Proof. exact compile_indep. Qed.
Print Assumptions C09_readings_agree.

(* ... and it does reject lines git accepts: a backslash before a slash (for git the
   same as a plain slash), a line ending in a dangling backslash and "!" alone (for
   git: patterns that match nothing) *)
Theorem C09_escaped_slash_refuted :
  (exists l, compile false [l] = CErr /\ compile true [l] = compile true ["a/x.c"] /\ compile true [l] <> CErr) /\
  (forall l, In l ["x.c\"; "!"] -> compile false [l] = CErr /\
     exists ps, compile true [l] = CPats ps /\ git_ignored ps (comps_of ["x.c"]) = false).
Proof.
  split; [exists "a\/x.c"; vm_compute; repeat split; discriminate|].
  intros l [<-|[<-|[]]]; (split; [vm_compute; reflexivity|eexists; split; vm_compute; reflexivity]).
Qed.
Print Assumptions C09_escaped_slash_refuted.

(* ---- membership at the observation point ---- *)

(* the property's "if and only if", read off the model and off the specification:
   `p in cb` answers True exactly when p resolves to an existing regular file with a
   listed extension below (or equal to - see docs) the first containing directory whose
   root-relative path pathspec does not match; the specification differs in: language
   table, STRICTLY below, git's ignore test *)
Theorem C09_contains_iff :
  forall fs cwd cb s,
    (contains fs cwd cb s = Ok true <->
     exists r root ps,
       resolve fs cwd s = Ok r /\ lookup fs r = Some KFile /\ is_source_file r = true /\
       find_root (cb_roots cb) r = Some root /\ compile false (cb_lines cb) = CPats ps /\
       ps_match ps (rel_comps root r) = false) /\
    (member fs cwd cb s = Ok true <->
     exists r root ps,
       resolve fs cwd s = Ok r /\ lookup fs r = Some KFile /\ has_language r = true /\
       find_root_strict (cb_roots cb) r = Some root /\ compile true (cb_lines cb) = CPats ps /\
       git_ignored ps (map list_of_string (skipn (length root) r)) = false).
Proof. intros fs cwd cb s. exact (conj (contains_iff fs cwd cb s) (member_iff fs cwd cb s)). Qed.
Print Assumptions C09_contains_iff.

(* C09_membership (`in` = the property's definition for every input) is false for the
   same reasons; proved: for every file system, process directory, spelling and code
   base whose lines pathspec accepts and whose directories are directories, `in`
   answers exactly as the specification does (same errors included) unless the
   resolved file falls in one of the two classes.  Missing: the three classes, and
   lines pathspec rejects (C09_escaped_slash_refuted). *)
Theorem C09_membership_partial :
  forall (fs : fsys) (cwd : path) (cb : codebase) (s : string) (ps : list apat),
    compile false (cb_lines cb) = CPats ps -> notail ps ->
    (forall d, In d (cb_roots cb) -> lookup fs d = Some KDir) ->
    (forall r root, resolve fs cwd s = Ok r -> find_root (cb_roots cb) r = Some root ->
       parent_reinclude ps (rel_comps root r) = false /\ dir_reneg ps (rel_comps root r) = false) ->
    contains fs cwd cb s = member fs cwd cb s.
Proof. exact membership_partial. Qed.
Print Assumptions C09_membership_partial.

(* Enumeration against the specification's member set (what the harness compares):
   for every well-formed file system with ordinary entry names, every code base whose
   directories are directories and whose lines pathspec accepts, when no regular file
   falls in one of the two classes: every member file of S is yielded under its real
   path, and every yielded path resolves to a member file of S.  (The iteration may
   yield one file several times: under its own name and under the names of links to
   it - C09_nonvacuous shows one.)  Missing for the full statement: the two classes. *)
Theorem C09_enumeration_partial :
  forall (fs : fsys) (cb : codebase) (ps : list apat) (out mem : list path),
    wf fs -> names_plain fs ->
    compile false (cb_lines cb) = CPats ps -> notail ps ->
    (forall d, In d (cb_roots cb) -> lookup fs d = Some KDir) ->
    (forall r root, lookup fs r = Some KFile -> find_root (cb_roots cb) r = Some root ->
       parent_reinclude ps (rel_comps root r) = false /\ dir_reneg ps (rel_comps root r) = false) ->
    iter fs cb = Ok out -> members fs cb = Ok mem ->
    (forall r, In r mem -> In r out) /\
    (forall p, In p out -> exists r, resolve_comps fs [] p = Ok r /\ In r mem).
Proof. exact enumeration_partial. Qed.
Print Assumptions C09_enumeration_partial.

(* ---- non-vacuity ---- *)
Definition C09_fs : fsys :=
  [ (["r"], KDir); (["r"; "x.c"], KFile); (["r"; "notes.txt"], KFile);
    (["r"; "a"], KDir); (["r"; "a"; "x.c"], KFile); (["r"; "a"; "z.h"], KFile);
    (["r"; "build"], KDir); (["r"; "build"; "z.c"], KFile);
    (["r"; "ld"], KLink "a"); (["r"; "lx.txt"], KLink "a/x.c"); (["r"; "dang.c"], KLink "nowhere.c");
    (["o"], KDir); (["o"; "o.c"], KFile); (["r"; "lo"], KLink "/o") ].
Definition C09_cb : codebase := {| cb_roots := [["r"]]; cb_lines := ["/x.c"; "a/*.h"; "!a/z.h"; "# c"; "bu?ld/"] |}.

Example C09_nonvacuous :
  wf C09_fs /\ names_plain C09_fs /\ clean C09_fs (rev ["r"; "a"]) /\
  (forall d, In d (cb_roots C09_cb) -> lookup C09_fs d = Some KDir) /\
  (exists ps, compile false (cb_lines C09_cb) = CPats ps /\ length ps = 4 /\ notail ps /\
     forall cs, In cs (map comps_of [["x.c"]; ["a"; "x.c"]; ["a"; "z.h"]; ["build"; "z.c"]]) ->
       parent_reinclude ps cs = false /\ dir_reneg ps cs = false) /\
  map (contains C09_fs ["r"; "a"] C09_cb)
      ["x.c"; "../ld/x.c"; "/r/lx.txt"; "z.h"; "../x.c"; "/r/build/z.c"; "/r/lo/o.c"; "/r/dang.c"; "../notes.txt"; "."]
    = [Ok true; Ok true; Ok true; Ok true; Ok false; Ok false; Ok false; Ok false; Ok false; Ok false] /\
  map (member C09_fs ["r"; "a"] C09_cb)
      ["x.c"; "../ld/x.c"; "/r/lx.txt"; "z.h"; "../x.c"; "/r/build/z.c"; "/r/lo/o.c"; "/r/dang.c"; "../notes.txt"; "."]
    = [Ok true; Ok true; Ok true; Ok true; Ok false; Ok false; Ok false; Ok false; Ok false; Ok false] /\
  resolve C09_fs ["r"; "a"] "../ld" = resolve C09_fs [] "/r/a/../a" /\
  (exists r, resolve C09_fs ["r"; "a"] (join "../ld" "x.c") = Ok r) /\
  iter C09_fs C09_cb = Ok [["r"; "a"; "x.c"]; ["r"; "a"; "z.h"]; ["r"; "lx.txt"]] /\
  members C09_fs C09_cb = Ok [["r"; "a"; "x.c"]; ["r"; "a"; "z.h"]].
Proof.
  split; [apply wfb_wf; vm_compute; reflexivity|].
  split; [apply names_plainb_ok; vm_compute; reflexivity|].
  split; [vm_compute; auto|].
  split; [intros d [<-|[]]; reflexivity|].
  split.
  - eexists. split; [vm_compute; reflexivity|]. split; [reflexivity|].
    split; [intros p Hp; cbn in Hp; repeat (destruct Hp as [<-|Hp]; [reflexivity|]); destruct Hp|].
    intros cs Hin. cbn in Hin.
    repeat (destruct Hin as [<-|Hin]; [vm_compute; split; reflexivity|]). destruct Hin.
  - vm_compute. repeat split. eexists. reflexivity.
Qed.
