(* C09 — Code-base membership: extension, location, git-style exclude patterns.
   Only statements, each closed by [exact], with its assumptions printed. *)
From Coq Require Import Bool Arith Ascii String List.
From CBI Require Import Lib.Res Lib.Data Lib.C09_glob Gen.C09_tables Model.C09 Spec.C09 Proofs.C09.
Import ListNotations.
Local Open Scope string_scope.

(* For EVERY list of patterns and EVERY root-relative path: when the model of
   pathspec's GitIgnoreSpec (as CodeBase.__contains__ calls it: on the path of
   the file only) says "excluded", git's semantics - including the
   parent-directory rule - says "ignored".  CBI never drops a file git keeps. *)
Theorem C09_exclude_sound :
  forall (ps : list apat) (cs : list chars), ps_match ps cs = true -> git_ignored ps cs = true.
Proof. exact ps_match_sound. Qed.
Print Assumptions C09_exclude_sound.
