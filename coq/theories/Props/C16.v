(* C16 — The duplicates report lists exactly the sets of byte-identical files.
   Only statements, each closed by [exact], with its assumptions printed. *)
From Coq Require Import ZArith String Bool Permutation List.
From CBI Require Import Lib.Data Model.C16 Proofs.C16.
Import ListNotations.
Local Open Scope string_scope.

(* For EVERY digest function h (colliding or not), EVERY behaviour of
   set.pop() and EVERY list of distinct files (path, content, is_symlink):
   the function terminates within its fuel and its result consists of
     - groups of >= 2 distinct files with pairwise identical content,
     - groups that pairwise differ in content,
     - exactly the non-link files that have an identical non-link twin. *)
Theorem C16_exact :
  forall (h : string -> Z) (choose : list file -> option (file * list file)),
    choose_ok choose ->
    forall files, NoDup files ->
    exists out, find_duplicates h choose files = Some out /\
      Forall group_ok out /\
      ForallOrdPairs differ out /\
      (forall p, In p (concat out) <-> nonlink_twin files p).
Proof. exact find_duplicates_exact. Qed.
Print Assumptions C16_exact.

(* the two executable instances used by the correspondence meet the hypothesis *)
Theorem C16_instances_ok : choose_ok choose_hd /\ choose_ok choose_last.
Proof. exact (conj choose_hd_ok choose_last_ok). Qed.
Print Assumptions C16_instances_ok.

(* non-vacuity: a concrete code base with a pair, a linked twin and unique
   files satisfies the hypotheses, and both instances find exactly {a, c} *)
Definition C16_example : list file :=
  [ {| fpath := "a"; fcontent := "xy"; flink := false |};
    {| fpath := "b"; fcontent := "xz"; flink := false |};
    {| fpath := "c"; fcontent := "xy"; flink := false |};
    {| fpath := "d"; fcontent := "xy"; flink := true |};
    {| fpath := "e"; fcontent := ""; flink := false |} ].
Example C16_nonvacuous :
  NoDup C16_example /\
  option_map (map (map fpath)) (find_duplicates h_len choose_hd C16_example) = Some [["a"; "c"]] /\
  option_map (map (map fpath)) (find_duplicates h_const choose_last C16_example) = Some [["c"; "a"]].
Proof.
  split; [|split; vm_compute; reflexivity].
  unfold C16_example. repeat (constructor; [cbn; intuition discriminate|]). constructor.
Qed.
