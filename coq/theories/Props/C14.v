(* C14 - results are deterministic and independent of enumeration order.
   Only statements, each closed by [exact] (or a two-line proof), with its
   assumptions printed.  Model: Model/C14.v (integers, names, orders) and
   Model/C14f.v (binary64 = SpecFloat at prec 53 / emax 1024). *)
From Coq Require Import ZArith String Bool Permutation List SpecFloat.
From CBI Require Import Lib.Data Model.C14 Model.C14f Proofs.C14 Proofs.C14f.
From CBI Require Import Gen.C14_sites Model.C14g Proofs.C14g Proofs.C14r.
From CBI Require Model.C16 Proofs.C16 Proofs.C14d.
Import ListNotations.

(* --- association: ParserState.associate is a set union ------------------- *)
(* Whatever the order of the associate() calls (order of the [platform.*]
   tables, order of the compile commands), every node of every file ends up
   with the same platform set. *)
Theorem C14_attribution_perm :
  forall events events', Permutation events events' ->
  forall f i, assoc_of events f i = assoc_of events' f i.
Proof. intros events events' P f i. exact (assoc_of_perm events events' f i P). Qed.
Print Assumptions C14_attribution_perm.

(* --- get_setmap: a sum per platform set ----------------------------------- *)
(* For every order of the calls and every order in which the code base yields
   its files the resulting dict has the same keys with the same counts (it is
   the same dict up to insertion order, and has no repeated key). *)
Theorem C14_setmap_perm :
  forall events events' files files',
    Permutation events events' -> Permutation files files' ->
    Permutation (get_setmap events files) (get_setmap events' files') /\
    NoDup (map fst (get_setmap events files)) /\
    forall k, sm_get k (get_setmap events files) = sm_get k (get_setmap events' files').
Proof.
  intros events events' files files' Pe Pf.
  pose proof (get_setmap_perm events events' files files' Pe Pf) as P.
  exact (conj P (conj (sm_build_nodup _) (sm_perm_get _ _ P (sm_build_nodup _)))).
Qed.
Print Assumptions C14_setmap_perm.

(* --- rows: sorted() is canonical iff the key separates the elements ------- *)
(* For every total order on keys and every key function: the output of Python's
   stable sorted(l, key=key) depends only on the multiset of l  IF AND ONLY IF
   distinct elements have distinct keys. *)
Theorem C14_rows_canonical :
  forall (K B : Type) (cmp : K -> K -> comparison), good_cmp cmp -> forall key : B -> K,
    (forall x y, key x = key y -> x = y) <->
    (forall l l', Permutation l l' -> sort_by cmp key l = sort_by cmp key l').
Proof. intros K B cmp G key. exact (sort_canonical_iff cmp G key). Qed.
Print Assumptions C14_rows_canonical.

(* the repaired summary key (len(s), sorted(s)) is such a key: the rows of the
   table are a function of the dict, whatever its insertion order *)
Theorem C14_summary_rows_perm :
  forall sm sm', Permutation sm sm' -> NoDup (map fst sm) -> summary_rows sm = summary_rows sm'.
Proof. exact summary_rows_perm. Qed.
Print Assumptions C14_summary_rows_perm.

(* the key before the repair (len only) is not: two dicts with the same
   content print their rows in different orders *)
Theorem C14_rows_canonical_old_refuted :
  exists sm sm' : setmap, Permutation sm sm' /\ NoDup (map fst sm) /\
                          summary_rows_old sm <> summary_rows_old sm' /\ summary_rows sm = summary_rows sm'.
Proof.
  exists [(tie_a, 1%Z); (tie_b, 2%Z)], [(tie_b, 2%Z); (tie_a, 1%Z)].
  destruct summary_rows_old_order_dependent as (P & D & E).
  split; [exact P|]. split; [|exact (conj D E)].
  repeat constructor; cbn; intuition discriminate.
Qed.
Print Assumptions C14_rows_canonical_old_refuted.

(* CodeBase.__iter__ after the repair: the order in which the files are
   visited is a function of the SET of files, not of the enumeration *)
Theorem C14_iteration_canonical :
  forall files files', Permutation files files' -> NoDup (map pf_path files) ->
    iter_codebase files = iter_codebase files'.
Proof. exact iter_codebase_perm. Qed.
Print Assumptions C14_iteration_canonical.

(* --- metrics in binary64 -------------------------------------------------- *)
(* Repaired report.py: the rows with their "% LOC", the distance matrix, the
   divergence, the coverage and the average coverage - integers AND the bits of
   every binary64 result AND its two-decimal rendering - are the same for any
   two dicts with the same content. *)
Theorem C14_metrics_perm_float :
  forall sm sm', Permutation sm sm' -> NoDup (map fst sm) ->
    table_report sm = table_report sm' /\ float_report sm = float_report sm'.
Proof. intros sm sm' P N. exact (conj (table_report_perm sm sm' P N) (float_report_perm sm sm' P N)). Qed.
Print Assumptions C14_metrics_perm_float.

(* The distance of report.py BEFORE the repair (one binary64 division per row,
   added in dict order) is not a function of the table: the same four rows in
   two insertion orders give 0.375 and 0.37499999999999994, printed 0.38 / 0.37. *)
Theorem C14_metrics_perm_float_old_refuted :
  exists (sm sm' : setmap) (p q : name) (x y : f64),
    Permutation sm sm' /\
    distance_old_f sm p q = FVal x /\ distance_old_f sm' p q = FVal y /\
    x <> y /\ fmt2 x <> fmt2 y.
Proof.
  exists wit_rows1, wit_rows2, (nm "A"), (nm "B"),
    (S754_finite false 6755399441055744 (-54)), (S754_finite false 6755399441055743 (-54)).
  destruct distance_old_order_dependent as (H1 & H2 & H3 & H4).
  split; [exact wit_perm|]. split; [exact H1|]. split; [exact H2|].
  split; [discriminate|]. rewrite H3, H4. discriminate.
Qed.
Print Assumptions C14_metrics_perm_float_old_refuted.

(* format(x, ".2f") as the model renders it: for a finite binary64 value
   (-1)^s * m * 2^e the answer h (in hundredths) is exact when e >= 0 and
   otherwise the integer nearest to 100 * m * 2^e, the even one on a tie;
   its sign is the sign of the value.  (Python's format is compared with this
   function on every float of every correspondence run.) *)
Theorem C14_fmt2_nearest :
  forall s m e h, fmt2 (S754_finite s m e) = D2 h ->
    (0 <= e -> Z.abs h = Zpos m * 100 * 2 ^ e)%Z /\
    (e < 0 ->
       let k := 2 ^ (- e) in
       let err := Z.abs (Z.abs h * k - Zpos m * 100) in
       2 * err <= k /\ (2 * err = k -> Z.even h = true))%Z /\
    (s = true -> h <= 0)%Z /\ (s = false -> 0 <= h)%Z.
Proof. exact fmt2_nearest. Qed.
Print Assumptions C14_fmt2_nearest.

(* PARTIAL.  average_coverage iterates a Python set of platforms and adds the
   per-platform coverages with CPython's compensated sum().  Proved: for every
   FIXED iteration order the result does not depend on the order of the rows.
   Missing: invariance under a permutation of [order] itself (a compensated
   binary64 sum is not associative in general; no order-dependent input was
   found by the correspondence runs, so it is neither proved nor refuted). *)
Theorem C14_average_coverage_perm_partial :
  forall sm sm' order, Permutation sm sm' -> average_coverage_f sm order = average_coverage_f sm' order.
Proof. intros sm sm' order P. exact (average_coverage_f_perm sm sm' order P). Qed.
Print Assumptions C14_average_coverage_perm_partial.

(* --- the whole pipeline --------------------------------------------------- *)
(* Any enumeration order of the files (no two with the same path), any order of
   the associate() calls of the analysis and of the coverage run: the summary
   table, all metrics (bits and renderings), the coverage export (records in
   order, with their line lists) and every row of cbi-tree coincide. *)
Theorem C14_pipeline_perm :
  forall files files' events events' cev cev',
    Permutation files files' -> NoDup (map pf_path files) ->
    Permutation events events' -> Permutation cev cev' ->
    p_answer_f files events cev = p_answer_f files' events' cev'.
Proof. exact p_answer_f_perm. Qed.
Print Assumptions C14_pipeline_perm.

(* finder.find + ParserState.get_setmap observed directly (no report in
   between): the dict WITH its insertion order and the platform set of every
   node of every member are the same for any enumeration and call order *)
Theorem C14_finder_perm :
  forall files files' events events',
    Permutation files files' -> NoDup (map pf_path files) -> Permutation events events' ->
    f_answer files events = f_answer files' events'.
Proof. exact f_answer_perm. Qed.
Print Assumptions C14_finder_perm.

(* the same at table level: contributions in any order *)
Theorem C14_table_perm :
  forall rows rows', Permutation rows rows' -> t_answer rows = t_answer rows'.
Proof. exact t_answer_perm. Qed.
Print Assumptions C14_table_perm.

(* --- the tie to the source ------------------------------------------------ *)
(* Gen/C14_sites.v is regenerated from /repo on every run (fail-closed ast
   translator): the sort key of summary, the accumulation form of distance, the
   platform order of divergence and the iteration of CodeBase found in the
   source NOW select exactly the variants the theorems above are about, and the
   remaining print sites (row names, clustering, duplicates, cbi-tree letters and
   legend, the export loop) are in their sorted / direct form. *)
Theorem C14_source_sites :
  summary_rows_src = summary_rows /\
  distance_src = distance_f /\
  (forall sm order, divergence_src sm order = divergence_f sm) /\
  iter_codebase_src = iter_codebase /\
  other_sites_sorted = true.
Proof. exact sites_are_repaired. Qed.
Print Assumptions C14_source_sites.

(* divergence over list(set(...)) - the form before the repair - is refuted even
   with the repaired distance: two orders of one platform set, different bits *)
Theorem C14_divergence_platform_order_old_refuted :
  exists (sm : setmap) (o o' : list name) (x y : f64),
    Permutation o o' /\ platforms_of sm = o /\
    divergence_with (distance_f sm) o = FVal x /\ divergence_with (distance_f sm) o' = FVal y /\ x <> y.
Proof.
  exists div_rows, div_order1, div_order2,
    (S754_finite false 4903919594247874 (-54)), (S754_finite false 4903919594247873 (-54)).
  destruct divergence_platform_order_dependent as (P & E & H1 & H2).
  split; [exact P|]. split; [exact E|]. split; [exact H1|]. split; [exact H2|discriminate].
Qed.
Print Assumptions C14_divergence_platform_order_old_refuted.

(* CodeBase.__iter__ before the repair: the export follows the enumeration *)
Theorem C14_iteration_old_refuted :
  exists files files' : list pfile,
    Permutation files files' /\ NoDup (map pf_path files) /\
    map (cov_record []) (iter_codebase_old files) <> map (cov_record []) (iter_codebase_old files') /\
    coverage_export [] files = coverage_export [] files'.
Proof. exists it_files, (rev it_files). exact iteration_old_order_dependent. Qed.
Print Assumptions C14_iteration_old_refuted.

(* --- duplicates (corollary of C16) ---------------------------------------- *)
(* For every digest, every behaviour of set.pop() and every enumeration order
   of a code base the duplicate groups are the same set of sets. *)
Theorem C14_duplicates_groups_perm :
  forall (h h' : string -> Z) (choose choose' : list C16.file -> option (C16.file * list C16.file)),
    Proofs.C16.choose_ok choose -> Proofs.C16.choose_ok choose' ->
    forall files files', NoDup files -> Permutation files files' ->
    exists out out', C16.find_duplicates h choose files = Some out /\
                     C16.find_duplicates h' choose' files' = Some out' /\
                     C14d.same_groups out out'.
Proof. exact C14d.duplicates_groups_perm. Qed.
Print Assumptions C14_duplicates_groups_perm.

(* --- non-vacuity ----------------------------------------------------------- *)
(* two files in two directories, two platforms with different reach, a
   coverage run; a genuinely different enumeration / call order; the
   hypotheses hold, the answers coincide and are not trivial *)
Local Open Scope string_scope.
Definition ex_files : list pfile :=
  [ {| pf_path := [nm "src"; nm "m.c"]; pf_real := [nm "src"; nm "m.c"]; pf_nodes := [[1%Z]; [2%Z]; [3%Z]; [4%Z]; [5%Z]; [6%Z]] |};
    {| pf_path := [nm "a-b"; nm "n.c"]; pf_real := [nm "a-b"; nm "n.c"]; pf_nodes := [[1%Z; 2%Z]] |};
    (* a symbolic link to src/m.c under a name of another language class *)
    {| pf_path := [nm "m.F90"]; pf_real := [nm "src"; nm "m.c"]; pf_nodes := [[1%Z]; [2%Z]; [3%Z]; [4%Z]; [5%Z]; [6%Z]] |} ].
Definition ex_events : list event :=
  [ {| ev_plat := nm "gpu"; ev_nodes := [([nm "src"; nm "m.c"], 0%Z); ([nm "src"; nm "m.c"], 1%Z); ([nm "src"; nm "m.c"], 2%Z)] |};
    {| ev_plat := nm "cpu"; ev_nodes := [([nm "src"; nm "m.c"], 0%Z); ([nm "src"; nm "m.c"], 1%Z); ([nm "src"; nm "m.c"], 4%Z)] |};
    {| ev_plat := nm "cpu"; ev_nodes := [([nm "a-b"; nm "n.c"], 0%Z)] |} ].
Example C14_nonvacuous :
  Permutation ex_files (rev ex_files) /\ NoDup (map pf_path ex_files) /\ ex_files <> rev ex_files /\
  Permutation ex_events (rev ex_events) /\
  p_answer_f ex_files ex_events ex_events = p_answer_f (rev ex_files) (rev ex_events) (rev ex_events) /\
  map (fun r => (map string_of_name (fst r), snd r)) (summary_rows (get_setmap ex_events (iter_codebase ex_files)))
    = [([], 2%Z); (["cpu"], 3%Z); (["gpu"], 1%Z); (["cpu"; "gpu"], 2%Z)] /\
  map pf_path (iter_codebase (rev ex_files)) = [[nm "a-b"; nm "n.c"]; [nm "m.F90"]; [nm "src"; nm "m.c"]].
Proof.
  split; [apply Permutation_rev|]. split; [repeat constructor; cbn; intuition discriminate|].
  split; [discriminate|]. split; [apply Permutation_rev|].
  repeat split; vm_compute; reflexivity.
Qed.
