(* C14 - results are deterministic and independent of enumeration order.
   Only statements, each closed by [exact], with its assumptions printed. *)
From Coq Require Import ZArith String Bool Permutation List SpecFloat.
From CBI Require Import Lib.Data Model.C14 Model.C14f Proofs.C14f.
Import ListNotations.

(* The distance of report.py BEFORE the repair (one binary64 division per row,
   added in dict order) is not a function of the table: the same four rows in
   two insertion orders give 0.375 and 0.37499999999999994, printed 0.38 / 0.37. *)
Theorem C14_metrics_perm_float_old_refuted :
  exists (sm sm' : setmap) (p q : name) (x y : f64),
    Permutation sm sm' /\
    distance_old_f sm p q = FVal x /\ distance_old_f sm' p q = FVal y /\
    x <> y /\ fmt2 x <> fmt2 y.
Proof.
  exists wit_rows1, wit_rows2, (nm "A"), (nm "B"),
    (S754_finite false 6755399441055744 (-54)), (S754_finite false 6755399441055743 (-54)).
  destruct distance_old_order_dependent as (H1 & H2 & H3 & H4).
  split; [exact wit_perm|]. split; [exact H1|]. split; [exact H2|].
  split; [discriminate|]. rewrite H3, H4. discriminate.
Qed.
Print Assumptions C14_metrics_perm_float_old_refuted.
