(* C07 - Coverage, average coverage, distance and divergence equal their definitions.
   Only statements, each closed by [exact], with its assumptions printed.
   M = Model/C07.v (the folds of codebasin/report.py over exact rationals, NaN = None),
   S = Spec/C07.v (the definitions on explicit line sets).  [oeq] = both NaN or equal
   rationals; [wf] = counts are non-negative; [selected] = what the optional
   `platforms` argument denotes (absent/empty = the platforms of the table). *)
From Coq Require Import ZArith QArith String Bool Permutation List.
From CBI Require Import Lib.Data Model.C07 Spec.C07 Proofs.C07 Proofs.C07s.
Import ListNotations.
Local Open Scope string_scope.

(* distances are symmetric (as values, including NaN) *)
Theorem C07_symmetric : forall t p q, distance t p q = distance t q p.
Proof. exact distance_sym. Qed.
Print Assumptions C07_symmetric.

(* distance = Jaccard distance of the two line sets *)
Theorem C07_distance_jaccard : forall t p q, wf t -> oeq (distance t p q) (S_distance t p q).
Proof. exact distance_S. Qed.
Print Assumptions C07_distance_jaccard.
