(* C07 - Coverage, average coverage, distance and divergence equal their definitions.
   Only statements, each closed by [exact], with its assumptions printed.
   M = Model/C07.v (the folds of codebasin/report.py over exact rationals, NaN = None),
   S = Spec/C07.v (the definitions on explicit line sets).  [oeq] = both NaN or equal
   rationals; [wf] = counts are non-negative; [selected t arg ps] = the optional
   `platforms` argument denotes ps (absent/empty = any duplicate-free listing of
   the platforms named in the table); [is_platform_set t ps] = ps lists exactly the
   platforms named in some key of the table, once each, in any order. *)
From Coq Require Import ZArith QArith String Bool Permutation List.
From CBI Require Import Lib.Data Model.C07 Spec.C07 Proofs.C07 Proofs.C07s Proofs.C07d Proofs.C07i Proofs.C07v Proofs.C07r.
Import ListNotations.
Local Open Scope string_scope.

(* coverage = 100 |U_{p in P} L_p| / |all lines| *)
Theorem C07_coverage_def : forall t arg ps, wf t -> selected t arg ps -> oeq (coverage t arg) (S_coverage t ps).
Proof. exact coverage_def. Qed.
Print Assumptions C07_coverage_def.

(* average coverage = mean over P of 100 |L_p| / |all lines| *)
Theorem C07_avg_def : forall t arg ps, wf t -> selected t arg ps -> oeq (average_coverage t arg) (S_average_coverage t ps).
Proof. exact average_def. Qed.
Print Assumptions C07_avg_def.

(* distance = Jaccard distance |L_p symdiff L_q| / |L_p union L_q| *)
Theorem C07_distance_jaccard : forall t p q, wf t -> oeq (distance t p q) (S_distance t p q).
Proof. exact distance_S. Qed.
Print Assumptions C07_distance_jaccard.

(* divergence = mean distance over the unordered pairs of the table's platforms,
   whatever order the platform set is enumerated in *)
Theorem C07_divergence_def : forall t ps, wf t -> is_platform_set t ps -> oeq (divergence t) (S_divergence t ps).
Proof. exact divergence_def. Qed.
Print Assumptions C07_divergence_def.

(* distances are symmetric (as values, including NaN) *)
Theorem C07_symmetric : forall t p q, distance t p q = distance t q p.
Proof. exact distance_sym. Qed.
Print Assumptions C07_symmetric.

(* the `platforms` argument: absent = empty = all platforms listed explicitly; a
   non-empty argument counts as a set (coverage) / in any order (average) *)
Theorem C07_platforms_arg : forall t,
  coverage t (Some []) = coverage t None /\ average_coverage t (Some []) = average_coverage t None /\
  (forall ps, is_platform_set t ps -> coverage t (Some ps) = coverage t None /\
                                      oeq (average_coverage t (Some ps)) (average_coverage t None)) /\
  (forall l l', l <> [] -> l' <> [] -> (forall x, In x l <-> In x l') -> coverage t (Some l) = coverage t (Some l')) /\
  (forall l l', Permutation l l' -> oeq (average_coverage t (Some l)) (average_coverage t (Some l'))).
Proof. exact platforms_arg. Qed.
Print Assumptions C07_platforms_arg.

(* zero on the diagonal whenever defined; undefined there exactly when p uses no line *)
Theorem C07_diag_zero : forall t p, wf t ->
  match distance t p p with
  | Some d => (d == 0)%Q /\ ~ uses_nothing t p
  | None => uses_nothing t p
  end.
Proof. exact diag_zero. Qed.
Print Assumptions C07_diag_zero.

(* documented ranges: coverages in [0,100], distance and divergence in [0,1] (NaN aside) *)
Theorem C07_ranges : forall t, wf t ->
  (forall arg, in_range 0 100 (coverage t arg)) /\
  (forall arg, in_range 0 100 (average_coverage t arg)) /\
  (forall p q, in_range 0 1 (distance t p q)) /\
  in_range 0 1 (divergence t).
Proof. exact ranges. Qed.
Print Assumptions C07_ranges.

(* any injective renaming of the platforms changes no metric (Leibniz equality) *)
Theorem C07_rename_invariant : forall f : string -> string, (forall a b, f a = f b -> a = b) -> forall t,
  extract_platforms (rename f t) = map f (extract_platforms t) /\
  (forall arg, coverage (rename f t) (option_map (map f) arg) = coverage t arg) /\
  (forall arg, average_coverage (rename f t) (option_map (map f) arg) = average_coverage t arg) /\
  (forall p q, distance (rename f t) (f p) (f q) = distance t p q) /\
  divergence (rename f t) = divergence t.
Proof. exact rename_invariant. Qed.
Print Assumptions C07_rename_invariant.

(* reordering: rows inserted in another order, keys written in another order, and
   the platform set (Python set iteration, the `platforms` argument) enumerated in
   ANY order ps' : the model's canonical order is immaterial *)
Theorem C07_perm_invariant : forall t t', same_table t t' ->
  Permutation (extract_platforms t) (extract_platforms t') /\
  (forall arg ps', selected t' arg ps' -> oeq (coverage t arg) (coverage_on t' ps')) /\
  (forall arg ps', selected t' arg ps' -> oeq (average_coverage t arg) (average_on t' ps')) /\
  (forall p q, oeq (distance t p q) (distance t' p q)) /\
  (forall ps', is_platform_set t' ps' -> oeq (divergence t) (divergence_on t' ps')).
Proof. exact perm_invariant. Qed.
Print Assumptions C07_perm_invariant.

(* multiplying all counts by a common factor k > 0 changes no metric *)
Theorem C07_scale_invariant : forall k t, (0 < k)%Z ->
  (forall arg, oeq (coverage (scale k t) arg) (coverage t arg)) /\
  (forall arg, oeq (average_coverage (scale k t) arg) (average_coverage t arg)) /\
  (forall p q, oeq (distance (scale k t) p q) (distance t p q)) /\
  oeq (divergence (scale k t)) (divergence t).
Proof. exact scale_invariant. Qed.
Print Assumptions C07_scale_invariant.

(* NaN exactly when the denominator of the definition is zero: coverage - no lines;
   average - no lines or no selected platform; distance - empty union; divergence -
   fewer than two platforms or a pair with an empty union *)
Theorem C07_nan_iff_undefined : forall t, wf t ->
  (forall arg, coverage t arg = None <-> no_lines t) /\
  (forall arg ps, selected t arg ps -> (average_coverage t arg = None <-> no_lines t \/ ps = [])) /\
  (forall p q, distance t p q = None <-> empty_union t p q) /\
  (forall ps, is_platform_set t ps -> (divergence t = None <-> (length ps < 2)%nat \/ undefined_pair t ps)).
Proof. exact nan_iff_undefined. Qed.
Print Assumptions C07_nan_iff_undefined.

(* non-vacuity: a table over three platforms with a shared row, an unused row, a
   zero row; it meets every hypothesis above and no metric is NaN or trivial:
   coverage 12/14*100, average over {B,A} (7+9)/14/2*100, d(A,B) = 6/11, divergence (6/11+9/10+1)/3 *)
Definition ex_table : table :=
  [(["A"], 3%Z); (["B"; "A"], 5%Z); (["B"], 2%Z); ([], 2%Z); (["C"], 1%Z); (["C"; "A"], 1%Z); (["C"; "B"], 0%Z)].
Example C07_nonvacuous :
  (forall r, In r ex_table -> (0 <= snd r)%Z) /\
  is_platform_set ex_table ["A"; "B"; "C"] /\
  option_map Qred (coverage ex_table None) = Some (600 # 7)%Q /\
  option_map Qred (S_coverage ex_table ["A"; "B"; "C"]) = Some (600 # 7)%Q /\
  option_map Qred (average_coverage ex_table (Some ["B"; "A"])) = Some (400 # 7)%Q /\
  option_map Qred (S_average_coverage ex_table ["B"; "A"]) = Some (400 # 7)%Q /\
  option_map Qred (distance ex_table "A" "B") = Some (6 # 11)%Q /\
  option_map Qred (S_distance ex_table "A" "B") = Some (6 # 11)%Q /\
  option_map Qred (divergence ex_table) = Some (269 # 330)%Q /\
  option_map Qred (S_divergence ex_table ["C"; "A"; "B"]) = Some (269 # 330)%Q.
Proof.
  split; [intros r H; repeat (destruct H as [<-|H]; [vm_compute; discriminate|]); destruct H|].
  split; [|vm_compute; repeat split; reflexivity].
  split; [repeat constructor; cbn; intuition discriminate|].
  intros p. split.
  - intros [<-|[<-|[<-|[]]]].
    + exists (["A"], 3%Z). split; unfold ex_table; cbn; intuition reflexivity.
    + exists (["B"], 2%Z). split; unfold ex_table; cbn; intuition reflexivity.
    + exists (["C"], 1%Z). split; unfold ex_table; cbn; intuition reflexivity.
  - intros [r [Hr Hp]]. unfold ex_table in Hr. cbn [In] in Hr.
    destruct Hr as [<-|[<-|[<-|[<-|[<-|[<-|[<-|[]]]]]]]]; cbn in Hp |- *; tauto.
Qed.
