(* C07 - Coverage, average coverage, distance and divergence equal their definitions.
   Only statements, each closed by [exact], with its assumptions printed.
   M = Model/C07.v (the folds of codebasin/report.py over exact rationals, NaN = None),
   S = Spec/C07.v (the definitions on explicit line sets).  [oeq] = both NaN or equal
   rationals; [wf] = counts are non-negative; [selected t arg ps] = the optional
   `platforms` argument denotes ps (absent/empty = any duplicate-free listing of
   the platforms named in the table); [is_platform_set t ps] = ps lists exactly the
   platforms named in some key of the table, once each, in any order. *)
From Coq Require Import ZArith QArith String Bool Permutation List.
From CBI Require Import Lib.Data Model.C07 Spec.C07 Proofs.C07 Proofs.C07s Proofs.C07d Proofs.C07i.
Import ListNotations.
Local Open Scope string_scope.

(* coverage = 100 |U_{p in P} L_p| / |all lines| *)
Theorem C07_coverage_def : forall t arg ps, wf t -> selected t arg ps -> oeq (coverage t arg) (S_coverage t ps).
Proof. exact coverage_def. Qed.
Print Assumptions C07_coverage_def.

(* average coverage = mean over P of 100 |L_p| / |all lines| *)
Theorem C07_avg_def : forall t arg ps, wf t -> selected t arg ps -> oeq (average_coverage t arg) (S_average_coverage t ps).
Proof. exact average_def. Qed.
Print Assumptions C07_avg_def.

(* distance = Jaccard distance |L_p symdiff L_q| / |L_p union L_q| *)
Theorem C07_distance_jaccard : forall t p q, wf t -> oeq (distance t p q) (S_distance t p q).
Proof. exact distance_S. Qed.
Print Assumptions C07_distance_jaccard.

(* divergence = mean distance over the unordered pairs of the table's platforms,
   whatever order the platform set is enumerated in *)
Theorem C07_divergence_def : forall t ps, wf t -> is_platform_set t ps -> oeq (divergence t) (S_divergence t ps).
Proof. exact divergence_def. Qed.
Print Assumptions C07_divergence_def.

(* distances are symmetric (as values, including NaN) *)
Theorem C07_symmetric : forall t p q, distance t p q = distance t q p.
Proof. exact distance_sym. Qed.
Print Assumptions C07_symmetric.

(* the `platforms` argument: absent = empty = all platforms listed explicitly; a
   non-empty argument counts as a set (coverage) / in any order (average) *)
Theorem C07_platforms_arg : forall t,
  coverage t (Some []) = coverage t None /\ average_coverage t (Some []) = average_coverage t None /\
  (forall ps, is_platform_set t ps -> coverage t (Some ps) = coverage t None /\
                                      oeq (average_coverage t (Some ps)) (average_coverage t None)) /\
  (forall l l', l <> [] -> l' <> [] -> (forall x, In x l <-> In x l') -> coverage t (Some l) = coverage t (Some l')) /\
  (forall l l', Permutation l l' -> oeq (average_coverage t (Some l)) (average_coverage t (Some l'))).
Proof. exact platforms_arg. Qed.
Print Assumptions C07_platforms_arg.
