(* C07 - Coverage, average coverage, distance and divergence equal their definitions.
   Only statements, each closed by [exact], with its assumptions printed. *)
From Coq Require Import ZArith QArith String Bool Permutation List.
From CBI Require Import Lib.Data Model.C07 Spec.C07 Proofs.C07.
Import ListNotations.
Local Open Scope string_scope.

(* distances are symmetric (as values, including NaN) *)
Theorem C07_symmetric : forall t p q, distance t p q = distance t q p.
Proof. exact distance_sym. Qed.
Print Assumptions C07_symmetric.
