(* C05 - A physical line is counted iff it holds code outside comments.
   Only statements, each closed by [exact], with its assumptions printed.

   M = Model/C05.v   (c_cleaner, one_space_line, line_info, c_file_source, LineGroup, FileParser.parse_file)
   S = Spec/C05.v    (translation phases 2-3 with physical line numbers)

   [plines_of_text t = Some ls]  : the text splits into the physical lines ls (it does not end in a
                                   backslash without a newline, which c_file_source rejects)
   [r_wf]   : no stray backslash, no unterminated literal or comment, no backslash-newline at end of file
   [r_c20]  : known class "slash-before-splice"   (a slash is pending at a backslash-newline)
   [r_c22]  : known class "blank-line-in-literal" (a physical line inside a literal holds only white
              space and is not exactly one blank) *)
From Coq Require Import String Ascii Bool List Sorted.
From CBI Require Import Lib.Data Model.C05 Model.C05g Gen.C05_tables Spec.C05 Spec.C05f Spec.C05i Model.C05r
                        Proofs.C05n Proofs.C05g Proofs.C05i Proofs.C05.
Import ListNotations.
Local Open Scope string_scope.

(* For EVERY text (any length, any number of lines, any interleaving of quotes,
   comment markers, continuations) that is well-formed and outside the two
   known classes: c_file_source succeeds, yields exactly the logical lines of
   the reference scanner - the same counted physical lines per logical line and
   the same directive flag - and so counts exactly the lines S counts. *)
Theorem C05_counted_lines :
  forall (t : list ascii) (ls : list (pline ascii)),
    plines_of_text t = Some ls ->
    r_wf (S_scan (cls_lines ls)) = true ->
    r_c20 (S_scan (cls_lines ls)) = false ->
    r_c22 (S_scan (cls_lines ls)) = false ->
    exists out total,
      M_file_source t = FsOk out total (List.length ls) /\
      map (fun l : lline osl => (ll_lines l, match ll_cat l with CPPD => true | _ => false end)) out
        = r_logical (S_scan (cls_lines ls)) /\
      flat out = S_counted (cls_lines ls).
Proof. exact counted_lines_text. Qed.
Print Assumptions C05_counted_lines.

(* Under the same hypotheses parse_file builds one directive node per logical
   line whose first token is #, holding ALL counted lines of that logical line
   (its continuation lines included), one code node per maximal run of other
   logical lines, and total_sloc is the number of counted lines. *)
Theorem C05_directive_extent :
  forall (t : list ascii) (ls : list (pline ascii)),
    plines_of_text t = Some ls ->
    r_wf (S_scan (cls_lines ls)) = true ->
    r_c20 (S_scan (cls_lines ls)) = false ->
    r_c22 (S_scan (cls_lines ls)) = false ->
    exists tr, M_parse_file t = Some tr /\
      map (fun x => (n_kind x, n_lines x)) (t_nodes tr) = S_nodes (cls_lines ls) /\
      t_total_sloc tr = List.length (S_counted (cls_lines ls)).
Proof. exact nodes_spec_text. Qed.
Print Assumptions C05_directive_extent.

(* The same two statements with the specification computed from the CHARACTERS
   of the text alone (Spec/C05f.v: phase 2 deletes backslash-newline pairs in the
   character sequence; nothing of the model's line splitting is used), for every
   text that ends in a newline (ISO C 5.1.1.2). *)
Theorem C05_counted_lines_raw :
  forall (t : list ascii),
    ends_nl t = true ->
    r_wf (F_scan t) = true -> r_c20 (F_scan t) = false -> r_c22 (F_scan t) = false ->
    exists out total n,
      M_file_source t = FsOk out total n /\
      map (fun l : lline osl => (ll_lines l, match ll_cat l with CPPD => true | _ => false end)) out
        = r_logical (F_scan t) /\
      flat out = concat (map fst (r_logical (F_scan t))).
Proof. exact counted_lines_raw. Qed.
Print Assumptions C05_counted_lines_raw.

Theorem C05_directive_extent_raw :
  forall (t : list ascii),
    ends_nl t = true ->
    r_wf (F_scan t) = true -> r_c20 (F_scan t) = false -> r_c22 (F_scan t) = false ->
    exists tr, M_parse_file t = Some tr /\
      map (fun x => (n_kind x, n_lines x)) (t_nodes tr) = group [] (r_logical (F_scan t)) /\
      t_total_sloc tr = List.length (concat (map fst (r_logical (F_scan t)))).
Proof. exact nodes_spec_raw. Qed.
Print Assumptions C05_directive_extent_raw.

(* ---------- against the literal ISO reading (Spec/C05i.v) ----------
   [iso_scan t]: phase 2 deletes every backslash-newline of the character sequence
   (a missing final new-line is supplied), phase 3 recognises comments by LOOK-AHEAD
   (`/` `*` ... first `*` `/`;  `/` `/` ... before the new-line;  nothing inside
   "..." and '...'), a line is counted iff a surviving non-white character stands
   on it, a logical line is a directive iff its first surviving non-white character
   is `#`.  No pending states, no mode stack.

   The look-ahead reading and the pending-state scanner agree on well-formedness
   for EVERY text the code accepts, and on the logical lines unless the text ends
   in backslash-newline (ill-formed for both). *)
Theorem C05_iso_equals_scanner :
  forall (t : list ascii) (ls : list (pline ascii)),
    plines_of_text t = Some ls ->
    iso_wf (iso_scan t) = r_wf (S_scan (cls_lines ls)) /\
    (ends_bs_nl (norm_nl t) = false -> iso_logical (iso_scan t) = r_logical (S_scan (cls_lines ls))).
Proof. exact iso_eq. Qed.
Print Assumptions C05_iso_equals_scanner.

(* the only texts without a physical-line form are those ending in a backslash that no
   new-line follows; there c_file_source raises and nothing is counted *)
Theorem C05_bare_backslash :
  forall (t : list ascii),
    (plines_of_text t = None <-> ends_bare_bs t = true) /\
    (ends_bare_bs t = true -> M_file_source t = FsErr "RuntimeError" /\ M_parse_file t = None).
Proof. intros t. split; [apply plines_none_iff | apply bare_backslash_raises]. Qed.
Print Assumptions C05_bare_backslash.

(* S on the raw characters (Spec/C05f.v) no longer needs the final new-line once one is
   supplied; without it the hypothesis IS necessary: for the one-character text "/" the
   un-normalised scan never resolves the pending slash *)
Theorem C05_raw_scan_any_text :
  forall (t : list ascii) (ls : list (pline ascii)),
    plines_of_text t = Some ls -> F_scan (norm_nl t) = S_scan (cls_lines ls).
Proof. exact F_scan_norm_eq. Qed.
Print Assumptions C05_raw_scan_any_text.
Example C05_final_newline_needed :
  let t := list_of_string "/" in
  r_logical (F_scan t) = [] /\
  option_map (fun ls => r_logical (S_scan (cls_lines ls))) (plines_of_text t) = Some [([1], false)] /\
  iso_logical (iso_scan t) = [([1], false)] /\ M_counted t = Some [1].
Proof. vm_compute. auto. Qed.

(* THE MAIN STATEMENTS AGAINST THE ISO READING.  For every text that does not end in a
   bare backslash, is well-formed by the look-ahead reading and lies outside the two
   recorded classes: c_file_source yields exactly the ISO logical lines (counted
   physical lines, directive flag), parse_file exactly the ISO nodes. *)
Theorem C05_counted_lines_iso :
  forall (t : list ascii),
    ends_bare_bs t = false ->
    iso_wf (iso_scan t) = true -> in_class20 t = false -> in_class22 t = false ->
    exists out total n,
      M_file_source t = FsOk out total n /\
      map (fun l : lline osl => (ll_lines l, match ll_cat l with CPPD => true | _ => false end)) out
        = iso_logical (iso_scan t) /\
      flat out = iso_counted t.
Proof. exact counted_lines_iso. Qed.
Print Assumptions C05_counted_lines_iso.

Theorem C05_directive_extent_iso :
  forall (t : list ascii),
    ends_bare_bs t = false ->
    iso_wf (iso_scan t) = true -> in_class20 t = false -> in_class22 t = false ->
    exists tr, M_parse_file t = Some tr /\
      map (fun x => (n_kind x, n_lines x)) (t_nodes tr) = iso_nodes t /\
      t_total_sloc tr = List.length (iso_counted t).
Proof. exact nodes_spec_iso. Qed.
Print Assumptions C05_directive_extent_iso.

(* For EVERY text on which parse_file succeeds (well-formed or not, inside the
   known classes or not): the lines of all nodes, in tree order, are strictly
   increasing (no line is counted twice) ... *)
Theorem C05_no_double_count :
  forall (t : list ascii) (tr : tree),
    M_parse_file t = Some tr -> StronglySorted lt (concat (map n_lines (t_nodes tr))).
Proof. intros t tr H. destruct (invariants_text t tr H) as (ls & _ & Q & _). exact Q. Qed.
Print Assumptions C05_no_double_count.

(* ... lie within the file, every node's num_lines is the length of its lines,
   and total_sloc is their sum. *)
Theorem C05_in_file :
  forall (t : list ascii) (tr : tree),
    M_parse_file t = Some tr ->
    exists ls, plines_of_text t = Some ls /\
      (forall k, In k (concat (map n_lines (t_nodes tr))) -> 1 <= k /\ k <= List.length ls) /\
      Forall (fun x => n_count x = List.length (n_lines x)) (t_nodes tr) /\
      t_total_sloc tr = List.length (concat (map n_lines (t_nodes tr))).
Proof.
  intros t tr H. destruct (invariants_text t tr H) as (ls & E & _ & Q2 & Q3 & Q4).
  exists ls. auto.
Qed.
Print Assumptions C05_in_file.

(* Tie to the source text: Gen/C05_tables.v is regenerated on every run from the
   if/elif chains of c_cleaner.process and c_cleaner.logical_newline (ast,
   fail-closed).  The cleaner step and logical_newline of the model ARE the
   interpretation (Model/C05g.v) of those tables - for every character/buffer
   algebra, every mode stack of any depth, every buffer and character. *)
Theorem C05_cleaner_is_source_table :
  forall (C B : Type) (A : alg C B) (st : list mode) (b : B) (ch : C),
    interp A (S (List.length st)) process_table st b ch = mstep A st b ch /\
    interp_newline A newline_table st b = logical_newline A st b.
Proof.
  intros C B A st b ch. split.
  - apply mstep_is_source_table. apply PeanoNat.Nat.lt_succ_diag_r.
  - apply newline_is_source_table.
Qed.
Print Assumptions C05_cleaner_is_source_table.

(* ... and so are one_space_line's five methods (the real buffer of the model) and
   the guarded steps of c_file_source's loop over physical lines (for every algebra):
   each hand-written definition of the model equals the interpretation of the program /
   table the translator extracts from the current source of that method / loop. *)
Theorem C05_buffer_is_source_table :
  forall (b o : osl) (c : ascii),
    c_char c b = bs_self (brun prog_append_char (bstart b c o)) /\
    c_space b = bs_self (brun prog_append_space (bstart b c o)) /\
    c_nonspace c b = bs_self (brun prog_append_nonspace (bstart b c o)) /\
    c_join b o = bs_self (brun prog_join (bstart b c o)) /\
    c_cat b = bs_res (brun prog_category (bstart b c o)).
Proof.
  intros b o c.
  exact (conj (append_char_is_source c b o) (conj (append_space_is_source b c o)
        (conj (append_nonspace_is_source c b o) (conj (join_is_source b o c) (category_is_source b c o))))).
Qed.
Print Assumptions C05_buffer_is_source_table.

Theorem C05_loop_is_source_table :
  forall (C B : Type) (A : alg C B) (f : fs B) (n : nat) (body : list C) (continued : bool) (b0 : B),
    snd (lrun A loop_table n body continued b0 f) = phys_line A f n (body, continued).
Proof. intros. apply phys_line_is_source. Qed.
Print Assumptions C05_loop_is_source_table.

(* The two known classes are real: without the guards the statement is false of
   the faithful model (well-formed witnesses). *)
Theorem C05_refuted_slash_before_splice :
  exists t, wf_text t = true /\ M_counted t = Some [2] /\ S_counted_text t = Some [1].
Proof.
  exists (list_of_string (String "/" (String "\" (String "010" (String "010" EmptyString))))).
  vm_compute. auto.
Qed.
Print Assumptions C05_refuted_slash_before_splice.

Theorem C05_refuted_blank_line_in_literal :
  exists t, wf_text t = true /\ M_counted t = Some [1; 2; 3] /\ S_counted_text t = Some [1; 3].
Proof.
  exists (list_of_string ("""a\" ++ String "010" ("  \" ++ String "010" ("b""" ++ String "010" EmptyString)))).
  vm_compute. auto.
Qed.
Print Assumptions C05_refuted_blank_line_in_literal.

(* non-vacuity: a text with a multi-line comment holding quotes, a character
   constant holding a comment opener (repaired defect), a string holding //, a
   spliced comment opener and a directive with a continuation meets every
   hypothesis; lines 1,3,4,6,7 are counted (2 and 5 are comment only) and the
   directive node covers lines 6-7 *)
Definition C05_example : list ascii := list_of_string (
  "int x; /* it's" ++ String "010" (
  "  ""q"" */" ++ String "010" (
  "c = '/*'; s = ""a//b""; /\" ++ String "010" (
  "* c */ y = 1 / 2;" ++ String "010" (
  "// only a comment" ++ String "010" (
  "# define A \" ++ String "010" (
  "  1" ++ String "010" EmptyString))))))).
Example C05_nonvacuous :
  match plines_of_text C05_example with
  | Some ls =>
      let r := S_scan (cls_lines ls) in
      r_wf r = true /\ r_c20 r = false /\ r_c22 r = false /\
      S_nodes (cls_lines ls) = [(NCode, [1; 3; 4]); (NDir, [6; 7])] /\
      option_map (fun tr => map (fun x => (n_kind x, n_lines x)) (t_nodes tr)) (M_parse_file C05_example)
        = Some [(NCode, [1; 3; 4]); (NDir, [6; 7])] /\
      ends_bare_bs C05_example = false /\ iso_wf (iso_scan C05_example) = true /\
      in_class20 C05_example = false /\ in_class22 C05_example = false /\
      iso_nodes C05_example = [(NCode, [1; 3; 4]); (NDir, [6; 7])]
  | None => False
  end.
Proof. vm_compute. repeat split; reflexivity. Qed.
