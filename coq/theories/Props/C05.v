(* C05 - property-level statements (being filled in). *)
From Coq Require Import String Ascii Bool List.
From CBI Require Import Lib.Data Model.C05 Spec.C05 Model.C05r.
Import ListNotations.
Local Open Scope string_scope.

Example C05_nonvacuous :
  let t := list_of_string "int x; /* c
*/ y = '/'; // z
#define A \
  1
" in
  option_map (fun ls => (S_counted (cls_lines ls), r_wf (S_scan (cls_lines ls)))) (plines_of_text t)
  = Some ([1; 2; 3; 4], true).
Proof. vm_compute. reflexivity. Qed.
