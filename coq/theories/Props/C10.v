(* C10 — placeholder, replaced below *)
From Coq Require Import List.
From CBI Require Import Model.C10.
