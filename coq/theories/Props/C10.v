(* C10 — excluding files removes their lines from the counts and changes nothing else.
   Statements only.  M = Model/C10.v [analyse] (CodeBase membership from the root and
   the patterns -x ++ [codebase].exclude; Model/C08.v find_cb and setmap_M);
   the yardstick for a setmap row is [count]: the number of lines of MEMBER files
   whose platform set is the row's key. *)
From Coq Require Import Bool Arith ZArith String List.
From CBI Require Import Lib.Res Model.C01 Spec.C01 Model.C04 Spec.C04 Gen.C08_tables Model.C08 Spec.C08 Proofs.C08 Model.C10 Proofs.C10 Model.C10g Proofs.C10g.
From CBI Require Model.C09.
Import ListNotations.
Local Open Scope string_scope.
Local Open Scope list_scope.

(* The attribution map computed by find does not depend on the code-base argument:
   two analyses of the same configuration with ANY two membership predicates that
   both succeed record the same map; and when every file is well nested (so that
   pre-parsing cannot fail) they succeed or fail together.  In particular excluded
   and out-of-tree files are still preprocessed when compiled or included. *)
Theorem C10_assoc_independent :
  forall (fs : fsys) (fuel : nat) (cfg : config) (m1 m2 : path -> bool),
    (forall am1 am2, find_cb fs fuel m1 cfg = Ok am1 -> find_cb fs fuel m2 cfg = Ok am2 -> am1 = am2) /\
    (fs_wf fs -> find_cb fs fuel m1 cfg = find_cb fs fuel m2 cfg).
Proof.
  intros fs fuel cfg m1 m2. split; [intros am1 am2; apply assoc_independent|apply assoc_independent_wf].
Qed.
Print Assumptions C10_assoc_independent.

(* Every row of the setmap is the sum, over the MEMBER files only, of the lines whose
   platform set is the row's key; adding exclude patterns leaves the attribution map
   unchanged and removes from every row exactly the lines of the newly excluded files. *)
Theorem C10_setmap_filter :
  forall (fs : fsys) (fuel : nat) (root : path) (xs ts more : list pat) (w : nodeid -> nat) (cfg : config)
         (am am' : amap) (sm sm' : setmap),
    analyse fs fuel root xs ts w cfg = Ok (am, sm) ->
    analyse fs fuel root xs (ts ++ more) w cfg = Ok (am', sm') ->
    am' = am /\
    (forall k, get k sm = count (names_of cfg) w am (member_of root (effective xs ts)) k fs) /\
    (forall k, get k sm = get k sm' +
       count (names_of cfg) w am
         (fun f => member_of root (effective xs ts) f && negb (member_of root (effective xs (ts ++ more)) f)) k fs).
Proof.
  intros fs fuel root xs ts more w cfg am am' sm sm' H1 H2.
  destruct (setmap_filter_rows _ _ _ _ _ _ _ _ _ _ _ _ H1 H2) as [Ha Hr]. split; [exact Ha|]. split; [|exact Hr].
  intros k. unfold analyse, analyse_cli, analyse_m in H1. destruct (find_cb fs fuel (member_of root (effective xs ts)) cfg); [|discriminate].
  inversion H1; subst. apply row_is_count.
Qed.
Print Assumptions C10_setmap_filter.

(* End to end against the reference preprocessor: for structured files and commands it
   accepts, the analysis succeeds, the platform set under which a node's lines are
   counted is exactly {n | some command of n, preprocessed alone, reaches the node}
   (it does not mention the patterns), and each row counts member files only. *)
Theorem C10_keys_are_spec :
  forall (fs : fsys) (fuel : nat) (root : path) (xs ts : list pat) (w : nodeid -> nat) (cfg : config),
    fs_wf fs -> accepted_S fs fuel cfg ->
    exists am sm, analyse fs fuel root xs ts w cfg = Ok (am, sm) /\
      (forall n x, In n (plats_of (names_of cfg) am x) <-> uses_S fs fuel cfg n x) /\
      (forall k, get k sm = count (names_of cfg) w am (member_of root (effective xs ts)) k fs).
Proof. exact keys_are_spec. Qed.
Print Assumptions C10_keys_are_spec.

(* with well-nested files the analysis with more patterns always succeeds when the one with fewer does *)
Theorem C10_exclusion_total :
  forall (fs : fsys) (fuel : nat) (root : path) (xs ts more : list pat) (w : nodeid -> nat) (cfg : config) (am : amap) (sm : setmap),
    fs_wf fs -> analyse fs fuel root xs ts w cfg = Ok (am, sm) ->
    exists sm', analyse fs fuel root xs (ts ++ more) w cfg = Ok (am, sm').
Proof. exact exclusion_total. Qed.
Print Assumptions C10_exclusion_total.

(* Files outside the code-base directory are never members, and the setmap is the
   one computed after deleting every such file from the file system: whatever was
   recorded for them contributes to no row. *)
Theorem C10_outside_root_never_counted :
  forall (fs : fsys) (root : path) (pats : list pat) (names : list pname) (w : nodeid -> nat) (am : amap),
    (forall f, member_of root pats f = true -> is_prefix root f = true) /\
    setmap_M names w (member_of root pats) am fs =
    setmap_M names w (member_of root pats) am (filter (fun fl => is_prefix root (fst fl)) fs).
Proof. intros. split; [intros f; apply member_under|apply outside_root]. Qed.
Print Assumptions C10_outside_root_never_counted.

(* The tie to the source: tools/gen/c08_tables.py reads from __main__._main and tree._tree how
   args.excludes is combined with [codebase].exclude; both CLIs append the file's patterns
   to the command line's. *)
Theorem C10_excludes_from_source :
  excludes_main = XThenToml /\ excludes_tree = excludes_main /\
  forall (A : Type) (xs ts : list A), effective xs ts = xs ++ ts.
Proof. repeat split; reflexivity. Qed.
Print Assumptions C10_excludes_from_source.

(* The effective pattern list is the -x patterns followed by the analysis file's:
   giving the patterns on the command line, in the file, or split in either order is
   the same analysis (same success, same map, same setmap). *)
Theorem C10_x_equals_toml :
  forall (fs : fsys) (fuel : nat) (root : path) (xs ts : list pat) (w : nodeid -> nat) (cfg : config),
    analyse fs fuel root xs ts w cfg = analyse fs fuel root [] (xs ++ ts) w cfg /\
    analyse fs fuel root xs ts w cfg = analyse fs fuel root (xs ++ ts) [] w cfg /\
    analyse fs fuel root xs ts w cfg = analyse fs fuel root ts xs w cfg.
Proof. exact x_equals_toml. Qed.
Print Assumptions C10_x_equals_toml.

(* ====================================================================== *)
(* The same theorems for an ARBITRARY exclude matcher: [PATS] is any type of pattern
   lists, [member pats f] any function playing the part of `f in CodeBase(root, pats)`.
   NO hypothesis on [member] is used, except: monotonicity between the two lists for the
   one-sided row equation (second clause of C10g_setmap_filter; it is false for lists
   with negated patterns, for which the two-sided equation is the statement), and
   "members satisfy [keep]" for C10g_outside (with keep = "under the root"). *)
Theorem C10g_assoc_independent :
  forall (PATS : Type) (member : PATS -> path -> bool) fs fuel w cfg p1 p2 am1 sm1,
    analyse_m (member p1) fs fuel w cfg = Ok (am1, sm1) ->
    (forall am2 sm2, analyse_m (member p2) fs fuel w cfg = Ok (am2, sm2) -> am1 = am2) /\
    (fs_wf fs -> exists sm2, analyse_m (member p2) fs fuel w cfg = Ok (am1, sm2)).
Proof.
  intros PATS member fs fuel w cfg p1 p2 am1 sm1 H. split.
  - intros am2 sm2 H2. exact (g_assoc_independent PATS member _ _ _ _ _ _ _ _ _ _ H H2).
  - intros Hwf. exact (g_total PATS member _ _ _ _ _ _ _ _ Hwf H).
Qed.
Print Assumptions C10g_assoc_independent.

Theorem C10g_setmap_filter :
  forall (PATS : Type) (member : PATS -> path -> bool) fs fuel w cfg p1 p2 am sm1 sm2,
    analyse_m (member p1) fs fuel w cfg = Ok (am, sm1) ->
    analyse_m (member p2) fs fuel w cfg = Ok (am, sm2) ->
    (forall k, get k sm1 = count (names_of cfg) w am (member p1) k fs) /\
    (forall k,
       get k sm1 + count (names_of cfg) w am (fun f => member p2 f && negb (member p1 f)) k fs =
       get k sm2 + count (names_of cfg) w am (fun f => member p1 f && negb (member p2 f)) k fs) /\
    ((forall f, member p2 f = true -> member p1 f = true) ->
     forall k, get k sm1 = get k sm2 +
       count (names_of cfg) w am (fun f => member p1 f && negb (member p2 f)) k fs).
Proof.
  intros PATS member fs fuel w cfg p1 p2 am sm1 sm2 H1 H2. split; [|split].
  - exact (g_rows PATS member _ _ _ _ _ _ _ H1).
  - exact (g_setmap_change PATS member _ _ _ _ _ _ _ _ _ H1 H2).
  - intros Hm. exact (g_setmap_filter PATS member _ _ _ _ _ _ _ _ _ Hm H1 H2).
Qed.
Print Assumptions C10g_setmap_filter.

Theorem C10g_keys_are_spec :
  forall (PATS : Type) (member : PATS -> path -> bool) fs fuel w cfg p,
    fs_wf fs -> accepted_S fs fuel cfg ->
    exists am sm, analyse_m (member p) fs fuel w cfg = Ok (am, sm) /\
      (forall n x, In n (plats_of (names_of cfg) am x) <-> uses_S fs fuel cfg n x) /\
      (forall k, get k sm = count (names_of cfg) w am (member p) k fs).
Proof. exact g_keys_are_spec. Qed.
Print Assumptions C10g_keys_are_spec.

Theorem C10g_outside :
  forall (PATS : Type) (member : PATS -> path -> bool) (fs : fsys) names w am p (keep : path -> bool),
    (forall f, member p f = true -> keep f = true) ->
    setmap_M names w (member p) am fs = setmap_M names w (member p) am (filter (fun fl => keep (fst fl)) fs).
Proof. exact g_outside. Qed.
Print Assumptions C10g_outside.

(* -x and the analysis file: for any matcher of lists the CLI analysis is the analysis of the
   concatenated list, wherever the patterns were given *)
Theorem C10g_x_equals_toml :
  forall (X : Type) (member : list X -> path -> bool) fs fuel (xs ts : list X) w cfg,
    analyse_cli member fs fuel xs ts w cfg = analyse_m (member (xs ++ ts)) fs fuel w cfg /\
    analyse_cli member fs fuel xs ts w cfg = analyse_cli member fs fuel [] (xs ++ ts) w cfg /\
    analyse_cli member fs fuel xs ts w cfg = analyse_cli member fs fuel (xs ++ ts) [] w cfg.
Proof. intros X member. exact (g_x_equals_toml member). Qed.
Print Assumptions C10g_x_equals_toml.

(* ... in particular for C09's model of CodeBase.__contains__ with full gitignore lines
   (Model/C10g.v: member_git = C09.contains_resolved on a file system of regular files):
   two analyses with ANY two lists of gitignore lines record the same attribution, every row
   counts member files only, the rows differ exactly by the files whose membership changed
   (either way: a negated line can re-include), members lie under the root and out-of-root
   files never count, and -x / analysis-file placement is irrelevant. *)
Theorem C10_with_gitignore :
  forall (fs : fsys) (fuel : nat) (root : path) (w : nodeid -> nat) (cfg : config),
    (forall l1 l2 am1 sm1 am2 sm2,
       analyse_git fs fuel root l1 [] w cfg = Ok (am1, sm1) ->
       analyse_git fs fuel root l2 [] w cfg = Ok (am2, sm2) ->
       am1 = am2 /\
       (forall k, get k sm1 = count (names_of cfg) w am1 (member_git fs root l1) k fs) /\
       (forall k,
          get k sm1 + count (names_of cfg) w am1 (fun f => member_git fs root l2 f && negb (member_git fs root l1 f)) k fs =
          get k sm2 + count (names_of cfg) w am1 (fun f => member_git fs root l1 f && negb (member_git fs root l2 f)) k fs)) /\
    (forall lines names am,
       (forall f, member_git fs root lines f = true -> C09.is_prefix root f = true) /\
       setmap_M names w (member_git fs root lines) am fs =
       setmap_M names w (member_git fs root lines) am (filter (fun fl => C09.is_prefix root (fst fl)) fs)) /\
    (forall xs ts,
       analyse_git fs fuel root xs ts w cfg = analyse_git fs fuel root [] (xs ++ ts) w cfg /\
       analyse_git fs fuel root xs ts w cfg = analyse_git fs fuel root (xs ++ ts) [] w cfg) /\
    (forall xs ts ps, fs_wf fs -> accepted_S fs fuel cfg -> C09.compile false (xs ++ ts) = C09.CPats ps ->
       exists am sm, analyse_git fs fuel root xs ts w cfg = Ok (am, sm) /\
         (forall n x, In n (plats_of (names_of cfg) am x) <-> uses_S fs fuel cfg n x) /\
         (forall k, get k sm = count (names_of cfg) w am (member_git fs root (xs ++ ts)) k fs)).
Proof.
  intros fs fuel root w cfg. split; [|split; [|split]].
  - intros l1 l2 am1 sm1 am2 sm2. apply git_compare.
  - intros lines names am. split; [intros f; apply member_git_under|apply git_outside].
  - intros xs ts. apply git_x_equals_toml.
  - intros xs ts ps. apply git_keys_are_spec.
Qed.
Print Assumptions C10_with_gitignore.

(* non-vacuity of the gitignore instance: "*.h" then "!g.h" excludes h.h and re-includes g.h
   (a file inside the root this time); the attribution is the same as without patterns *)
Definition C10_git_fs : fsys :=
  [ (["r"; "src"; "a.c"], [(0, KPlain (AInclude 0 (IQuote ["h.h"]))); (1, KIf (CDefd "X")); (2, KPlain ACode); (3, KEndif);
                           (4, KPlain (AInclude 4 (IQuote ["g.h"])))]);
    (["r"; "src"; "h.h"], [(0, KPlain (ADefine "X" VE)); (1, KPlain ACode)]);
    (["r"; "src"; "g.h"], [(0, KPlain ACode)]) ].
Definition C10_git_cfg : config :=
  [ ("P", [{| e_file := ["r"; "src"; "a.c"]; e_dirs := []; e_defs := []; e_incs := [] |}]) ].
Example C10_gitignore_nonvacuous :
  (match analyse_git C10_git_fs 5 ["r"] [] [] (fun _ => 1) C10_git_cfg with
   | Ok (am, sm) => (List.length am, get ["P"] sm) | Err _ => (0, 0) end,
   match analyse_git C10_git_fs 5 ["r"] ["*.h"] [] (fun _ => 1) C10_git_cfg with
   | Ok (am, sm) => (List.length am, get ["P"] sm) | Err _ => (0, 0) end,
   match analyse_git C10_git_fs 5 ["r"] ["*.h"] ["!g.h"] (fun _ => 1) C10_git_cfg with
   | Ok (am, sm) => (List.length am, get ["P"] sm) | Err _ => (0, 0) end,
   match analyse_git C10_git_fs 5 ["r"] ["/src/**/a.c"; "src/"; "!src/g.h"] [] (fun _ => 1) C10_git_cfg with
   | Ok (am, sm) => (List.length am, get ["P"] sm) | Err _ => (0, 0) end)
  = ((8, 8), (8, 5), (8, 6), (8, 1)).
Proof. vm_compute. reflexivity. Qed.

(* "Not counted" is not "not processed": the variant that neither parses nor associates
   non-members gives a different row for a member file that includes an excluded
   header defining the macro it tests. *)
Definition C10_example_fs : fsys :=
  [ (["r"; "src"; "a.c"], [(0, KPlain (AInclude 0 (IQuote ["h.h"]))); (1, KIf (CDefd "X")); (2, KPlain ACode); (3, KEndif);
                           (4, KPlain (AInclude 4 (IAngle ["g.h"]))); (5, KIf (CDefd "Y")); (6, KPlain ACode); (7, KEndif)]);
    (["r"; "src"; "h.h"], [(0, KPlain (ADefine "X" VE)); (1, KPlain ACode)]);
    (["x"; "inc"; "g.h"], [(0, KPlain (ADefine "Y" VE)); (1, KPlain ACode)]) ].
Definition C10_example_cfg : config :=
  [ ("P", [{| e_file := ["r"; "src"; "a.c"]; e_dirs := [["x"; "inc"]]; e_defs := []; e_incs := [] |}]) ].
Theorem C10_skip_nonmembers_refuted :
  exists (fs : fsys) (fuel : nat) (root : path) (xs ts : list pat) (w : nodeid -> nat) (cfg : config) r r' k,
    analyse fs fuel root xs ts w cfg = Ok r /\ analyse_skipping fs fuel root xs ts w cfg = Ok r' /\
    get k (snd r) <> get k (snd r').
Proof.
  exists C10_example_fs, 5, ["r"], [PBase "h.h"], [], (fun _ => 1), C10_example_cfg.
  eexists. eexists. exists ["P"]. split; [vm_compute; reflexivity|]. split; [vm_compute; reflexivity|].
  vm_compute. discriminate.
Qed.
Print Assumptions C10_skip_nonmembers_refuted.

(* non-vacuity: without exclusion 10 lines in the root are used by P; excluding h.h
   removes its 2 lines and nothing else; the out-of-tree g.h (2 attributed nodes) is never counted *)
Example C10_nonvacuous :
  (match analyse C10_example_fs 5 ["r"] [] [] (fun _ => 1) C10_example_cfg with
   | Ok (am, sm) => (List.length am, get ["P"] sm, get [] sm) | Err _ => (0, 0, 0) end,
   match analyse C10_example_fs 5 ["r"] [PBase "h.h"] [] (fun _ => 1) C10_example_cfg with
   | Ok (am, sm) => (List.length am, get ["P"] sm, get [] sm) | Err _ => (0, 0, 0) end,
   match analyse_skipping C10_example_fs 5 ["r"] [PBase "h.h"] [] (fun _ => 1) C10_example_cfg with
   | Ok (am, sm) => (List.length am, get ["P"] sm, get [] sm) | Err _ => (0, 0, 0) end)
  = ((12, 10, 0), (12, 8, 0), (6, 6, 2)).
Proof. vm_compute. reflexivity. Qed.
