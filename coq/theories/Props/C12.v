(* C12 — Compiler emulation: aliases, implicit options, modes and passes.
   Statements only; proofs are in Proofs/C12*.v. *)
From Coq Require Import Bool Ascii String List.
From CBI Require Import Lib.Data Lib.Res Model.C12 Spec.C12 Proofs.C12 Proofs.C12f Proofs.C12g Gen.C12_tables.
Import ListNotations.
Local Open Scope string_scope.
Local Open Scope list_scope.

(* Aliases.  For EVERY compiler table (any size, any alias graph: chains, cycles,
   self loops, dangling and empty targets) and EVERY name, the alias walk of
   ArgumentParser.__init__, run with fuel |table| + 1, never runs out of fuel and
   answers exactly what the path semantics says: "not recognised" iff the name is
   not in the table; a target y iff following alias edges from the name reaches y
   and y is a real compiler; "dangling a" iff the path leaves the table at a;
   "loop" iff the path never ends. *)
Theorem C12_alias_total :
  forall (t : table) (name : string),
    match resolve t name with
    | SUnrec => aget name t = None
    | SOk y => resolves_to t name y
    | SDangling a => aget name t <> None /\ exists k, path t name k = Some a /\ next_name t a = None
    | SLoop => loops t name
    | SOutOfFuel => False
    end.
Proof. exact alias_total. Qed.
Print Assumptions C12_alias_total.

(* ... and the answers exclude one another (the path is a function), so each
   implication above is an equivalence; the walk equals the executable form of S *)
Theorem C12_alias_unique :
  forall t x y, resolves_to t x y ->
    (forall y', resolves_to t x y' -> y' = y) /\ ~ loops t x /\
    (forall a, ~ (exists k, path t x k = Some a /\ next_name t a = None)).
Proof. exact alias_unique. Qed.
Print Assumptions C12_alias_unique.

Theorem C12_alias_matches_spec : forall t name, resolve t name = spec_resolve t name.
Proof. exact resolve_spec. Qed.
Print Assumptions C12_alias_matches_spec.

(* The compiler is recognised by the base name of argv[0] *)
Theorem C12_basename :
  forall d n, has_char "/"%char n = false ->
    basename n = n /\ basename (d ++ String "/"%char n) = n.
Proof. exact basename_spec. Qed.
Print Assumptions C12_basename.

(* Implicit options behave exactly as if appended to the command line (both for the
   current code and for the code before the repairs) *)
Theorem C12_implicit_is_appended :
  forall legacy c o argv,
    parse_args legacy (with_opts c o) argv = parse_args legacy (with_opts c []) (argv ++ o).
Proof. exact implicit_is_appended. Qed.
Print Assumptions C12_implicit_is_appended.

(* Passes: for EVERY compiler definition and EVERY namespace left by the command
   line, the result holds one configuration for "default" plus one for every
   selected pass (built-in list, flag defaults, flag-selected) that the compiler
   defines; no pass twice; each configuration is the one computed for its pass,
   i.e. (config_of_exact) the command line's lists followed by the lists declared
   for the pass followed by those of the modes the pass names, in order. *)
Theorem C12_passes_exact :
  forall c n,
    NoDup (map g_pass (configs_of c n)) /\
    (forall pn, In pn (map g_pass (configs_of c n)) <->
       pn = "default" \/ (In pn (selected n) /\ exists p, aget pn (c_passes c) = Some p)) /\
    (forall g, In g (configs_of c n) -> config_of c n (g_pass g) = Some g) /\
    (forall pn p, pn <> "default" -> aget pn (c_passes c) = Some p ->
       let ms := defined_modes c (p_modes p) in
       config_of c n pn =
       Some {| g_pass := pn;
               g_defs := n_defs n ++ p_defs p ++ concat (map m_defs ms);
               g_paths := base_paths n ++ p_paths p ++ concat (map m_paths ms);
               g_files := n_files n ++ p_files p ++ concat (map m_files ms);
               g_blocks := [] |}).
Proof.
  intros c n. destruct (passes_exact c n) as [H1 [H2 H3]]. repeat split; try assumption; try apply H2.
  intros pn p Hne Hp. rewrite config_of_exact. apply String.eqb_neq in Hne. rewrite Hne, Hp. reflexivity.
Qed.
Print Assumptions C12_passes_exact.

(* (base_paths n = all -I values in command-line order followed by all -isystem values in
   command-line order: the order a compiler searches them) *)
(* Modes: the default pass carries the command line's own lists plus exactly one
   block (the declared definitions, include paths and include files) per DISTINCT
   active mode that the compiler defines *)
Theorem C12_modes_exact :
  forall c n,
    exists g, config_of c n "default" = Some g /\
      g_defs g = n_defs n /\ g_paths g = base_paths n /\ g_files g = n_files n /\
      exists ms, NoDup ms /\
        (forall m, In m ms <-> In m (n_modes n) /\ exists md, aget m (c_modes c) = Some md) /\
        map Some (g_blocks g) = map (fun m => aget m (c_modes c)) ms.
Proof. exact modes_exact. Qed.
Print Assumptions C12_modes_exact.

(* Flags: for EVERY compiler definition and EVERY command line (any length) that the
   specification's scanner reads - zero-argument flags spelled exactly, one-argument
   flags as f=v, f v or (two-character options) fv, and non-options, each passing the
   explicit side conditions wf_item - the model of parse_args (argparse classification,
   the consumption loop, the custom actions, argv ++ implicit options) succeeds and
   yields exactly the configurations and log events obtained by giving every item the
   effect DECLARED for its flag.  Together with C12_modes_exact / C12_passes_exact:
   a flag contributes exactly the definitions, include paths and include files
   declared for the modes and passes it selects. *)
Theorem C12_flags_exact :
  forall c argv r, spec_parse c argv = Some r -> parse_args false c argv = inr r.
Proof. exact flags_exact. Qed.
Print Assumptions C12_flags_exact.

(* Lists that no rule of the compiler rewrites (no store_split / overriding extend_match
   aimed at them): after EVERY item list the list is its initial value followed by the
   contributions of the items in command-line order (implicit options last, by
   C12_implicit_is_appended) - the constant of each append_const flag present, the value
   of each append flag. *)
Theorem C12_append_only_lists :
  forall rs d, forallb (appendish d) rs = true ->
  forall items n,
    get_dest d (fold_left (fun n it => item_effect rs it n) items n) =
    get_dest d n ++ flat_map (item_contrib rs d) items.
Proof. exact append_only_lists. Qed.
Print Assumptions C12_append_only_lists.

(* ... and every built-in compiler qualifies, for definitions, include paths, include
   files and modes (their pass-selecting custom actions write _passes only) *)
Theorem C12_builtins_append_only :
  forallb (fun nc => forallb (fun d => forallb (appendish d) (generic_rules ++ c_rules (snd nc)))
                             [DDefs; DPaths; DSys; DFiles; DModes; DPasses]) builtin_table = true.
Proof. vm_compute. reflexivity. Qed.
Print Assumptions C12_builtins_append_only.

(* A user configuration extends the built-in one.  For EVERY table and EVERY list of
   user [compiler.NAME] tables with distinct names: a table that fails the schema
   (a table with no key) makes the whole file be ignored; otherwise names the user
   does not mention are untouched; a new name gets the user's definition; an alias
   definition replaces the old one; any other definition keeps the old implicit
   options and parser rules and APPENDS the user's, replaces modes and passes of the
   same name, adds the others, and clears an alias. *)
Theorem C12_user_extends :
  forall t user, NoDup (map fst user) ->
    (forallb (fun nd => udef_valid (snd nd)) user = false -> merge_user t user = t) /\
    (forallb (fun nd => udef_valid (snd nd)) user = true ->
       (forall name, ~ In name (map fst user) -> aget name (merge_user t user) = aget name t) /\
       (forall name d, In (name, d) user ->
          aget name (merge_user t user) = Some (merged_def (aget name t) d))).
Proof. exact user_extends. Qed.
Print Assumptions C12_user_extends.

(* No history: for EVERY table and EVERY sequence of commands, the n-th answer is
   the answer the n-th command gets on its own *)
Theorem C12_no_history :
  forall t cmds,
    run_cmds false t cmds = map (fun cmd => snd (run_cmd false t (fst cmd) (snd cmd))) cmds.
Proof. exact no_history. Qed.
Print Assumptions C12_no_history.

(* ... which was false of the code before the repair (extend_match, default list,
   no override): the passes matched by the first command are still selected by the second *)
Definition legacy_rule : rule :=
  {| r_flags := ["-m"; "--t"]; r_act := AExtendMatch ["a"; "ab"] (Some ("p-", "")) false; r_dest := DPasses;
     r_default := Some ["p1"] |}.
Definition legacy_table : table :=
  [("cc0", {| c_alias := None; c_opts := []; c_rules := [legacy_rule]; c_modes := [];
              c_passes := [("p1", {| p_name := "p1"; p_defs := ["P1"]; p_paths := []; p_files := []; p_modes := [] |});
                           ("p-7", {| p_name := "p-7"; p_defs := ["P7"]; p_paths := []; p_files := []; p_modes := [] |})] |});
   ("cc1", {| c_alias := Some "cc0"; c_opts := []; c_rules := []; c_modes := []; c_passes := [] |})].
Theorem C12_no_history_legacy_refuted :
  exists t cmds,
    run_cmds true t cmds <> map (fun cmd => snd (run_cmd true t (fst cmd) (snd cmd))) cmds.
Proof. exists legacy_table, [("cc1", ["-m"; "a7"]); ("/opt/cc0", [])]. vm_compute. discriminate. Qed.
Print Assumptions C12_no_history_legacy_refuted.

(* ... and store_split replaced the default passes only for the first spelling *)
Definition legacy_split : compiler :=
  {| c_alias := None; c_opts := [];
     c_rules := [{| r_flags := ["-fb"; "--long"]; r_act := AStoreSplit ","%char (Some ("p-", "")); r_dest := DPasses;
                    r_default := Some ["p0"] |}];
     c_modes := []; c_passes := [] |}.
Theorem C12_store_split_spelling_legacy_refuted :
  exists c argv r, spec_parse c argv = Some r /\ parse_args false c argv = inr r /\ parse_args true c argv <> inr r.
Proof.
  exists legacy_split, ["--long"; "7"]. eexists. split; [vm_compute; reflexivity|]. split; [vm_compute; reflexivity|].
  vm_compute. discriminate.
Qed.
Print Assumptions C12_store_split_spelling_legacy_refuted.

Definition default_blocks (r : err + (list config * list string)) : list (list string) :=
  match r with
  | inr (gs, _) => flat_map (fun g => if String.eqb (g_pass g) "default" then map m_defs (g_blocks g) else []) gs
  | inl _ => []
  end.
Definition pass_defs (r : err + (list config * list string)) : list (string * list string) :=
  match r with inr (gs, _) => map (fun g => (g_pass g, g_defs g)) gs | inl _ => [] end.
(* Known finding redefined-flag-crashes: the documentation's own example definition of gcc
   (docs/source/emulating-compiler-behavior.rst), placed in .cbi/config, repeats the built-in
   flag -fopenmp; S gives the later definition to the flag, the code raises ArgumentError
   for every gcc / g++ command *)
Definition doc_example_user : list (string * udef) :=
  [("gcc", UComp None
      (Some [{| r_flags := ["-fopenmp"]; r_act := AAppendConst "openmp"; r_dest := DModes; r_default := None |}])
      (Some [{| m_name := "openmp"; m_defs := ["_OPENMP"]; m_paths := []; m_files := [] |}]) None);
   ("g++", UAlias "gcc")].
Theorem C12_redefined_flag_refuted :
  let t := merge_user builtin_table doc_example_user in
  let c := compiler_of t (resolve t "g++") in
  rules_conflict c = true /\
  parse_args false c ["-fopenmp"; "-DX"] = inl EArgument /\
  option_map (fun r => pass_defs (inr r)) (spec_parse_cmd c ["-fopenmp"; "-DX"]) = Some [("default", ["X"])] /\
  option_map (fun r => default_blocks (inr r)) (spec_parse_cmd c ["-fopenmp"; "-DX"]) = Some [["_OPENMP"]].
Proof. vm_compute. repeat split; reflexivity. Qed.
Print Assumptions C12_redefined_flag_refuted.

(* Facts about the four built-in definition files AS THEY ARE NOW (Gen/C12_tables.v is
   regenerated from the TOML files on every run) *)
Definition cmd (a0 : string) (argv : list string) := snd (snd (run_cmd false builtin_table a0 argv)).

Theorem C12_builtins :
  (* every built-in name resolves to a real compiler *)
  forallb (fun nc => match resolve builtin_table (fst nc) with SOk _ => true | _ => false end) builtin_table = true /\
  map (fun nc => resolve builtin_table (fst nc)) builtin_table =
    [SOk "clang"; SOk "clang"; SOk "gcc"; SOk "gcc"; SOk "icx"; SOk "icx"; SOk "nvcc"] /\
  (* -fopenmp defines _OPENMP in the default pass of all of them *)
  forallb (fun nc => match default_blocks (cmd (fst nc) ["-fopenmp"]) with [["_OPENMP"]] => true | _ => false end)
          builtin_table = true /\
  (* nvcc: implicit definitions, default pass list, architecture flags *)
  pass_defs (cmd "/usr/local/cuda/bin/nvcc" ["-DX"]) =
    [("sm_70", ["X"; "__NVCC__"; "__CUDACC__"; "__CUDA_ARCH__=700"]); ("default", ["X"; "__NVCC__"; "__CUDACC__"])] /\
  map fst (pass_defs (cmd "nvcc" ["--gpu-architecture=sm_80"; "-gencode"; "arch=compute_90,code=sm_90"])) =
    ["sm_80"; "sm_90"; "default"] /\
  (* icpx: -fsycl-targets selects the listed passes instead of the default one *)
  map fst (pass_defs (cmd "icpx" ["-fsycl"])) = ["sycl-spir64"; "default"] /\
  pass_defs (cmd "icpx" ["-fsycl"; "-fsycl-targets=spir64_gen,nvptx64-nvidia-cuda"]) =
    [("sycl-spir64_gen", ["__SYCL_DEVICE_ONLY__"; "__SPIR__"; "__SPIRV__"; "SYCL_LANGUAGE_VERSION"]);
     ("sycl-nvptx64-nvidia-cuda", ["__SYCL_DEVICE_ONLY__"; "__NVPTX__"; "SYCL_LANGUAGE_VERSION"]);
     ("default", [])] /\
  default_blocks (cmd "icpx" ["-fsycl"]) = [["SYCL_LANGUAGE_VERSION"]] /\
  pass_defs (cmd "clang++" ["-fsycl-is-device"]) = [("default", ["__SYCL_DEVICE_ONLY__"])].
Proof. vm_compute. repeat split; reflexivity. Qed.
Print Assumptions C12_builtins.

(* What C12_implicit_is_appended does NOT give (code as it is after C11's repair "ArgumentError
   is caught, the options recognised so far are kept"): because the implicit options are parsed
   AFTER argv, a malformed argument anywhere in argv silently drops ALL implicit options.
   "The implicit options of a compiler are always in effect" is refuted: nvcc with a trailing -I
   loses -D__NVCC__ -D__CUDACC__ (only a "Could not parse all arguments" warning is logged). *)
Theorem C12_implicit_survive_malformed_refuted :
  exists argv,
    pass_defs (cmd "nvcc" []) = [("sm_70", ["__NVCC__"; "__CUDACC__"; "__CUDA_ARCH__=700"]); ("default", ["__NVCC__"; "__CUDACC__"])] /\
    pass_defs (cmd "nvcc" argv) = [("sm_70", ["A"; "__CUDA_ARCH__=700"]); ("default", ["A"])] /\
    match cmd "nvcc" argv with inr (_, ev) => ev = ["W:partial"] | inl _ => False end.
Proof. exists ["-DA"; "a.cu"; "-I"]. vm_compute. repeat split; reflexivity. Qed.
Print Assumptions C12_implicit_survive_malformed_refuted.

(* ... and every combination of the documented flags of the seven built-in names (plus common
   flags the definitions say nothing about) lies INSIDE the specification's scanner, so
   C12_flags_exact applies to each of these 256 command lines *)
Fixpoint subsets {A} (l : list (list A)) : list (list A) :=
  match l with
  | [] => [[]]
  | x :: r => let s := subsets r in s ++ map (fun y => x ++ y) s
  end.
Definition documented : list (string * list (list string)) :=
  [ ("gcc", [["-fopenmp"]; ["-DA"]; ["-I"; "inc"]; ["-Wall"]; ["-O2"]; ["-c"; "a.c"]]);
    ("g++", [["-fopenmp"]; ["-DA=1"]; ["-include"; "f.h"]; ["-std=c++17"]; ["-g"]]);
    ("clang", [["-fopenmp"]; ["-fsycl-is-device"]; ["-DA"]; ["-isystem"; "inc"]]);
    ("clang++", [["-fopenmp"]; ["-fsycl-is-device"]; ["-isystem"; "inc"]; ["-o"; "a.o"]]);
    ("icx", [["-fopenmp"]; ["-fsycl"]; ["-fsycl-targets=spir64_gen,spir64_x86_64"]; ["-fsycl-targets=nvptx64-nvidia-cuda"]; ["-DA"]]);
    ("icpx", [["-fopenmp"]; ["-fsycl"]; ["-fsycl-targets"; "spir64"]; ["-fsycl-targets=spir64_fpga,bogus"]; ["-DA"]]);
    ("nvcc", [["-fopenmp"]; ["--gpu-architecture=sm_80"]; ["--gpu-code=sm_90,compute_75"];
              ["-gencode"; "arch=compute_89,code=sm_89"]; ["-DA"]; ["--expt-relaxed-constexpr"]]) ].
Definition in_S (name : string) (argv : list string) : bool :=
  match spec_cmd builtin_table (name, argv) with (SOk _, Some _) => true | _ => false end.
Theorem C12_builtins_documented_in_S :
  forallb (fun nd => forallb (in_S (fst nd)) (subsets (snd nd))) documented = true /\
  List.length (flat_map (fun nd => subsets (snd nd)) documented) = 256.
Proof. vm_compute. split; reflexivity. Qed.
Print Assumptions C12_builtins_documented_in_S.

(* non-vacuity: a user compiler with all four action kinds, reached through a
   two-step alias, with implicit options, three passes and two modes *)
Definition C12_example_compiler : compiler :=
  {| c_alias := None; c_opts := ["-DIMPL"; "-fa"];
     c_rules := [ {| r_flags := ["-fa"]; r_act := AAppendConst "m0"; r_dest := DModes; r_default := None |};
                  {| r_flags := ["-fb"; "--long"]; r_act := AStoreSplit ","%char (Some ("p-", "")); r_dest := DPasses; r_default := Some ["p0"] |};
                  {| r_flags := ["-m"]; r_act := AExtendMatch ["a"; "ab"] (Some ("p-", "")) false; r_dest := DPasses; r_default := Some ["p1"] |};
                  {| r_flags := ["-q"]; r_act := AAppend; r_dest := DModes; r_default := None |} ];
     c_modes := mode_dict [ {| m_name := "m0"; m_defs := ["M0"]; m_paths := []; m_files := [] |};
                            {| m_name := "m1"; m_defs := ["M1"]; m_paths := ["mi"]; m_files := [] |} ];
     c_passes := pass_dict [ {| p_name := "p0"; p_defs := ["P0"]; p_paths := []; p_files := []; p_modes := ["m1"] |};
                             {| p_name := "p1"; p_defs := ["P1"]; p_paths := []; p_files := []; p_modes := ["m0"; "zz"] |};
                             {| p_name := "p-7"; p_defs := ["P7"]; p_paths := []; p_files := ["p7.h"]; p_modes := [] |} ] |}.
Definition C12_example_table : table :=
  [("cc0", C12_example_compiler);
   ("cc1", {| c_alias := Some "cc0"; c_opts := []; c_rules := []; c_modes := []; c_passes := [] |});
   ("cc2", {| c_alias := Some "cc1"; c_opts := []; c_rules := []; c_modes := []; c_passes := [] |});
   ("l1", {| c_alias := Some "l2"; c_opts := []; c_rules := []; c_modes := []; c_passes := [] |});
   ("l2", {| c_alias := Some "l1"; c_opts := []; c_rules := []; c_modes := []; c_passes := [] |});
   ("d", {| c_alias := Some "nope"; c_opts := []; c_rules := []; c_modes := []; c_passes := [] |})].
Example C12_nonvacuous :
  resolve C12_example_table "cc2" = SOk "cc0" /\ resolve C12_example_table "l1" = SLoop /\
  resolve C12_example_table "d" = SDangling "nope" /\ resolve C12_example_table "zz" = SUnrec /\
  (let r := snd (snd (run_cmd false C12_example_table "/opt/cc2" ["-DA"; "--long=7,8"; "-m"; "ab7"; "-q"; "m1"; "x.c"])) in
   pass_defs r = [("p-7", ["A"; "IMPL"; "P7"]); ("p1", ["A"; "IMPL"; "P1"; "M0"]); ("default", ["A"; "IMPL"])] /\
   default_blocks r = [["M1"]; ["M0"]] /\
   match r with inr (_, ev) => ev = ["P:p-8"; "M:zz"] | inl _ => False end).
Proof. vm_compute. repeat split; reflexivity. Qed.
